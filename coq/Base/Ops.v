(* Scalar interface shared by every modelled function, with its three carriers:
   R (theorems), PrimFloat (bit-exact executable image of CPython floats).
   Nothing here is generated; see DESIGN.md section 2.1. *)
From Coq Require Import PrimFloat Uint63.
From Coq Require Import ZArith List Bool Reals.
Import ListNotations.

Record Ops (T : Type) := mkOps {
  add : T -> T -> T; sub : T -> T -> T; mul : T -> T -> T; dvd : T -> T -> T;
  neg : T -> T; abs_ : T -> T; sqrt_ : T -> T;
  ofZ : Z -> T;
  lit : Z -> Z -> float -> T;      (* Python float literal: decimal value n/d, and the binary64 CPython parses *)
  ltb : T -> T -> bool; leb : T -> T -> bool; eqb : T -> T -> bool;
  isinf_ : T -> bool;
  cos_ : T -> T; sin_ : T -> T; acos_ : T -> T;
  atan2_ : T -> T -> T;
  pow_ : T -> T -> T;              (* math.pow and float ** float *)
  trunc_ : T -> T;                 (* float(int(x)) : truncation towards zero *)
  floor_ : T -> T;
  copysign_ : T -> T -> T;
  pi_ : T
}.
Arguments add {T}. Arguments sub {T}. Arguments mul {T}. Arguments dvd {T}.
Arguments neg {T}. Arguments abs_ {T}. Arguments sqrt_ {T}. Arguments ofZ {T}. Arguments lit {T}.
Arguments ltb {T}. Arguments leb {T}. Arguments eqb {T}. Arguments isinf_ {T}.
Arguments cos_ {T}. Arguments sin_ {T}. Arguments acos_ {T}. Arguments atan2_ {T}. Arguments pow_ {T}.
Arguments trunc_ {T}. Arguments floor_ {T}. Arguments copysign_ {T}. Arguments pi_ {T}.

(* ---------- geometric value types (Points are values; see DESIGN 4/C07) ---------- *)
Record pt (T : Type) := P { px : T; py : T }.
Arguments P {T}. Arguments px {T}. Arguments py {T}.
Record seg2 (T : Type) := L2 { l0 : pt T; l1 : pt T }.
Record seg3 (T : Type) := Q3 { q0 : pt T; q1 : pt T; q2 : pt T }.
Record seg4 (T : Type) := C4 { c0 : pt T; c1 : pt T; c2 : pt T; c3 : pt T }.
Arguments L2 {T}. Arguments l0 {T}. Arguments l1 {T}.
Arguments Q3 {T}. Arguments q0 {T}. Arguments q1 {T}. Arguments q2 {T}.
Arguments C4 {T}. Arguments c0 {T}. Arguments c1 {T}. Arguments c2 {T}. Arguments c3 {T}.
(* 3x3 matrix, row major: AffineTransformation.matrix *)
Record mat3 (T : Type) := M3 { m00 : T; m01 : T; m02 : T; m10 : T; m11 : T; m12 : T; m20 : T; m21 : T; m22 : T }.
Arguments M3 {T}. Arguments m00 {T}. Arguments m01 {T}. Arguments m02 {T}. Arguments m10 {T}. Arguments m11 {T}.
Arguments m12 {T}. Arguments m20 {T}. Arguments m21 {T}. Arguments m22 {T}.
(* BoundingBox with both corners set *)
Record bbox (T : Type) := BB { bl : pt T; tr : pt T }.
Arguments BB {T}. Arguments bl {T}. Arguments tr {T}.

Inductive segment (T : Type) := SLine (s : seg2 T) | SQuad (s : seg3 T) | SCubic (s : seg4 T).
Arguments SLine {T}. Arguments SQuad {T}. Arguments SCubic {T}.

(* ---------- helpers the translator targets ---------- *)
Section Helpers.
Context {T : Type} (O : Ops T).
(* Python's two-argument max/min keep the first argument unless the second compares strictly better *)
Definition max2 (a b : T) : T := if ltb O a b then b else a.
Definition min2 (a b : T) : T := if ltb O b a then b else a.
Definition neqb (a b : T) : bool := negb (eqb O a b).
(* CPython math.isclose(a, b) with rel_tol=1e-09, abs_tol=0.0, transcribed from Modules/mathmodule.c *)
Definition isclose (a b : T) : bool :=
  if eqb O a b then true
  else if isinf_ O a || isinf_ O b then false
  else let diff := abs_ O (sub O b a) in
       let rel := lit O 1 1000000000 0x1.12e0be826d695p-30%float in
       (leb O diff (abs_ O (mul O rel b)) || leb O diff (abs_ O (mul O rel a))) || leb O diff (ofZ O 0).
(* stable insertion sort, the observable behaviour of sorted() on floats without NaN *)
Fixpoint insert_sorted (x : T) (l : list T) : list T :=
  match l with
  | [] => [x]
  | y :: r => if ltb O x y then x :: y :: r else y :: insert_sorted x r
  end.
Definition sort_ (l : list T) : list T := fold_left (fun acc x => insert_sorted x acc) l [].
Fixpoint find_first {A B : Type} (f : A -> option B) (l : list A) : option B :=
  match l with [] => None | a :: r => match f a with Some b => Some b | None => find_first f r end end.
Definition isnil {A : Type} (l : list A) : bool := match l with [] => true | _ => false end.
(* x ** k for a literal non-negative int k: CPython float_pow -> libm pow; for k = 2 glibc's pow is exact x*x
   (correctly rounded); other k are compared with tolerance (DESIGN 2.4) *)
Fixpoint powi (x : T) (k : nat) : T := match k with 0%nat => ofZ O 1 | S 0 => x | S k' => mul O (powi x k') x end.
End Helpers.

(* ---------- carrier 1: the reals ---------- *)
Definition Rcuberoot_pow (x y : R) : R := Rpower x y.
Definition R_atan2 (y x : R) : R :=
  (* any angle whose cosine/sine are x/|v|, y/|v|; defined from acos, 0 at the origin *)
  let m := sqrt (x * x + y * y)%R in
  if Req_EM_T m 0%R then 0%R else if Rle_dec 0%R y then acos (x / m)%R else (- acos (x / m))%R.
Definition R_trunc (x : R) : R := if Rle_dec 0%R x then IZR (Int_part x) else (- IZR (Int_part (- x)%R))%R.
Definition ROps : Ops R := {|
  add := Rplus; sub := Rminus; mul := Rmult; dvd := Rdiv; neg := Ropp; abs_ := Rabs; sqrt_ := sqrt;
  ofZ := IZR; lit := fun n d _ => (IZR n / IZR d)%R;
  ltb := fun x y => if Rlt_dec x y then true else false;
  leb := fun x y => if Rle_dec x y then true else false;
  eqb := fun x y => if Req_EM_T x y then true else false;
  isinf_ := fun _ => false;
  cos_ := cos; sin_ := sin; acos_ := acos; atan2_ := R_atan2;
  pow_ := fun x y => if Req_EM_T x 0%R then 0%R else Rpower x y;
  trunc_ := R_trunc; floor_ := fun x => IZR (Int_part x);
  copysign_ := fun x y => if Rle_dec 0%R y then Rabs x else (- Rabs x)%R;
  pi_ := PI
|}.

(* ---------- carrier 2: binary64 ---------- *)
Definition ZtoF (z : Z) : float :=
  match z with
  | Z0 => 0%float
  | Zpos _ => PrimFloat.of_uint63 (Uint63.of_Z z)
  | Zneg p => PrimFloat.opp (PrimFloat.of_uint63 (Uint63.of_Z (Zpos p)))
  end.
Definition two52 : float := 0x1p52%float.
(* floor for |x| < 2^52 by the add-and-subtract trick; identity above (every such double is an integer) *)
Definition F_floor_pos (a : float) : float :=  (* a >= 0 *)
  if PrimFloat.leb two52 a then a else
  let r := PrimFloat.sub (PrimFloat.add a two52) two52 in
  if PrimFloat.ltb a r then PrimFloat.sub r 1%float else r.
Definition F_trunc (x : float) : float :=
  (* float(int(x)): int() has no signed zero, so every -1 < x <= -0.0 gives +0.0 (not -0.0) *)
  let r := if PrimFloat.ltb x 0%float then PrimFloat.opp (F_floor_pos (PrimFloat.abs x)) else F_floor_pos x in
  if PrimFloat.eqb r 0%float then 0%float else r.
Definition F_floor (x : float) : float :=
  if PrimFloat.ltb x 0%float then
    let a := PrimFloat.abs x in let f := F_floor_pos a in
    if PrimFloat.ltb f a then PrimFloat.opp (PrimFloat.add f 1%float) else PrimFloat.opp f
  else F_floor_pos x.
Definition F_signbit (y : float) : bool :=
  PrimFloat.ltb y 0%float || (PrimFloat.eqb y 0%float && PrimFloat.ltb (PrimFloat.div 1%float y) 0%float).
Definition F_copysign (x y : float) : float :=
  if F_signbit y then PrimFloat.opp (PrimFloat.abs x) else PrimFloat.abs x.

(* libm oracle: a table of recorded calls (function id, arg1, arg2, result); a missing entry yields NaN so a model
   that diverged before the call can never agree by accident (DESIGN 2.4) *)
Definition libm_entry := (nat * float * float * float)%type.
Definition fbits_eq (x y : float) : bool := PrimFloat.Leibniz.eqb x y.
Fixpoint libm_lookup (tbl : list libm_entry) (fn : nat) (a b : float) : float :=
  match tbl with
  | [] => PrimFloat.nan
  | (f, a', b', r) :: rest => if Nat.eqb f fn && fbits_eq a a' && fbits_eq b b' then r else libm_lookup rest fn a b
  end.
Definition FOpsT (tbl : list libm_entry) : Ops float := {|
  add := PrimFloat.add; sub := PrimFloat.sub; mul := PrimFloat.mul; dvd := PrimFloat.div;
  neg := PrimFloat.opp; abs_ := PrimFloat.abs; sqrt_ := PrimFloat.sqrt;
  ofZ := ZtoF; lit := fun _ _ f => f;
  ltb := PrimFloat.ltb; leb := PrimFloat.leb; eqb := PrimFloat.eqb;
  isinf_ := PrimFloat.is_infinity;
  cos_ := fun x => libm_lookup tbl 0 x 0%float; sin_ := fun x => libm_lookup tbl 1 x 0%float;
  acos_ := fun x => libm_lookup tbl 2 x 0%float;
  atan2_ := fun y x => libm_lookup tbl 3 y x;
  (* math.pow is recorded; the `**` operator cannot be intercepted, so x ** 1.5 falls back to x * sqrt x
     (compared with a relative tolerance, never bit for bit) *)
  pow_ := fun x y => let r := libm_lookup tbl 4 x y in
                     if PrimFloat.is_nan r && PrimFloat.eqb y 0x1.8p+0%float then PrimFloat.mul x (PrimFloat.sqrt x) else r;
  trunc_ := F_trunc; floor_ := F_floor; copysign_ := F_copysign;
  pi_ := 0x1.921fb54442d18p+1%float
|}.
Definition FOps : Ops float := FOpsT [].

(* comparison helpers for the correspondence files *)
Definition feq (x y : float) : bool := fbits_eq x y || (PrimFloat.is_nan x && PrimFloat.is_nan y).
(* |x - y| <= tol * max(1, |x|, |y|); NaN only agrees with NaN *)
Definition fclose (tol x y : float) : bool :=
  feq x y ||
  PrimFloat.leb (PrimFloat.abs (PrimFloat.sub x y))
    (PrimFloat.mul tol (let m := if PrimFloat.ltb (PrimFloat.abs x) (PrimFloat.abs y) then PrimFloat.abs y else PrimFloat.abs x in
                        if PrimFloat.ltb m 1%float then 1%float else m)).
Definition pt_feq (a b : pt float) : bool := feq (px a) (px b) && feq (py a) (py b).
Definition pt_fclose (tol : float) (a b : pt float) : bool := fclose tol (px a) (px b) && fclose tol (py a) (py b).
Definition seg2_feq (a b : seg2 float) : bool := pt_feq (l0 a) (l0 b) && pt_feq (l1 a) (l1 b).
Definition seg3_feq (a b : seg3 float) : bool := pt_feq (q0 a) (q0 b) && pt_feq (q1 a) (q1 b) && pt_feq (q2 a) (q2 b).
Definition seg4_feq (a b : seg4 float) : bool := pt_feq (c0 a) (c0 b) && pt_feq (c1 a) (c1 b) && pt_feq (c2 a) (c2 b) && pt_feq (c3 a) (c3 b).
Definition seg2_fclose tol (a b : seg2 float) : bool := pt_fclose tol (l0 a) (l0 b) && pt_fclose tol (l1 a) (l1 b).
Definition seg3_fclose tol (a b : seg3 float) : bool := pt_fclose tol (q0 a) (q0 b) && pt_fclose tol (q1 a) (q1 b) && pt_fclose tol (q2 a) (q2 b).
Definition seg4_fclose tol (a b : seg4 float) : bool := pt_fclose tol (c0 a) (c0 b) && pt_fclose tol (c1 a) (c1 b) && pt_fclose tol (c2 a) (c2 b) && pt_fclose tol (c3 a) (c3 b).
Definition mat_cmp (e : float -> float -> bool) (a b : mat3 float) : bool :=
  e (m00 a) (m00 b) && e (m01 a) (m01 b) && e (m02 a) (m02 b) && e (m10 a) (m10 b) && e (m11 a) (m11 b) && e (m12 a) (m12 b) &&
  e (m20 a) (m20 b) && e (m21 a) (m21 b) && e (m22 a) (m22 b).
Definition mat_feq := mat_cmp feq.
Definition mat_fclose tol := mat_cmp (fclose tol).
Definition ix_feq (a b : float * pt float * float) : bool :=
  feq (fst (fst a)) (fst (fst b)) && pt_feq (snd (fst a)) (snd (fst b)) && feq (snd a) (snd b).
Definition ix_fclose tol (a b : float * pt float * float) : bool :=
  fclose tol (fst (fst a)) (fst (fst b)) && pt_fclose tol (snd (fst a)) (snd (fst b)) && fclose tol (snd a) (snd b).
Fixpoint list_eqb {A : Type} (e : A -> A -> bool) (l1 l2 : list A) : bool :=
  match l1, l2 with
  | [], [] => true
  | a :: r1, b :: r2 => e a b && list_eqb e r1 r2
  | _, _ => false
  end.
(* summary of a batch of boolean case results: (cases, agreeing, index of first disagreement or cases) *)
Fixpoint first_false (l : list bool) (i : nat) : nat :=
  match l with [] => i | true :: r => first_false r (S i) | false :: _ => i end.
Definition summary (l : list bool) : nat * nat * nat :=
  (length l, length (filter (fun b => b) l), first_false l 0).
(* indices (from base i) of the first k false entries *)
Fixpoint false_idx (l : list bool) (i k : nat) : list nat :=
  match k with O => [] | S k' =>
    match l with [] => [] | true :: r => false_idx r (S i) k | false :: r => i :: false_idx r (S i) k' end end.
