(* Exactness of the binary64 comparisons: on finite doubles PrimFloat.ltb / leb / eqb decide the order of the
   real values.  This is the bridge that lets a model text which only *compares* its float inputs (no arithmetic)
   be transported from the real instance [ROps] to the float instance [FOps].
   Depends on Base/Ops.v and Flocq only (Flocq's PrimFloat bridge rests on the specification of the
   primitive floats that the standard library states in Coq.Floats). *)
From Coq Require Import PrimFloat.
From Coq Require Import ZArith Bool Reals Lra.
From Flocq Require Import Core.Raux IEEE754.BinarySingleNaN IEEE754.PrimFloat.
From BZ Require Import Base.Ops.

(* the real number denoted by a double (0 for infinities and NaN, as in Flocq) *)
Definition FR (x : float) : R := B2R (Prim2B x).
(* neither infinite nor NaN *)
Definition ffinite (x : float) : Prop := is_finite (Prim2B x) = true.

(* ---------- boolean form, against Flocq's real booleans ---------- *)
Lemma Fltb_Rlt_bool (x y : float) (Fx : ffinite x) (Fy : ffinite y) : PrimFloat.ltb x y = Rlt_bool (FR x) (FR y).
Proof. rewrite ltb_equiv. apply Bltb_correct; assumption. Qed.
Lemma Fleb_Rle_bool (x y : float) (Fx : ffinite x) (Fy : ffinite y) : PrimFloat.leb x y = Rle_bool (FR x) (FR y).
Proof. rewrite leb_equiv. apply Bleb_correct; assumption. Qed.
Lemma Feqb_Req_bool (x y : float) (Fx : ffinite x) (Fy : ffinite y) : PrimFloat.eqb x y = Req_bool (FR x) (FR y).
Proof. rewrite eqb_equiv. apply Beqb_correct; assumption. Qed.

(* ---------- propositional form ---------- *)
Lemma Fltb_true (x y : float) (Fx : ffinite x) (Fy : ffinite y) : PrimFloat.ltb x y = true <-> (FR x < FR y)%R.
Proof. rewrite (Fltb_Rlt_bool x y Fx Fy). destruct (Rlt_bool_spec (FR x) (FR y)); split; intros; try discriminate; auto; lra. Qed.
Lemma Fltb_false (x y : float) (Fx : ffinite x) (Fy : ffinite y) : PrimFloat.ltb x y = false <-> (FR y <= FR x)%R.
Proof. rewrite (Fltb_Rlt_bool x y Fx Fy). destruct (Rlt_bool_spec (FR x) (FR y)); split; intros; try discriminate; auto; lra. Qed.
Lemma Fleb_true (x y : float) (Fx : ffinite x) (Fy : ffinite y) : PrimFloat.leb x y = true <-> (FR x <= FR y)%R.
Proof. rewrite (Fleb_Rle_bool x y Fx Fy). destruct (Rle_bool_spec (FR x) (FR y)); split; intros; try discriminate; auto; lra. Qed.
Lemma Fleb_false (x y : float) (Fx : ffinite x) (Fy : ffinite y) : PrimFloat.leb x y = false <-> (FR y < FR x)%R.
Proof. rewrite (Fleb_Rle_bool x y Fx Fy). destruct (Rle_bool_spec (FR x) (FR y)); split; intros; try discriminate; auto; lra. Qed.
(* +0.0 and -0.0 both denote 0 and compare equal, so this holds without excluding signed zeros *)
Lemma Feqb_true (x y : float) (Fx : ffinite x) (Fy : ffinite y) : PrimFloat.eqb x y = true <-> FR x = FR y.
Proof. rewrite (Feqb_Req_bool x y Fx Fy). destruct (Req_bool_spec (FR x) (FR y)); split; intros; try discriminate; auto; contradiction. Qed.
Lemma Feqb_false (x y : float) (Fx : ffinite x) (Fy : ffinite y) : PrimFloat.eqb x y = false <-> FR x <> FR y.
Proof. rewrite (Feqb_Req_bool x y Fx Fy). destruct (Req_bool_spec (FR x) (FR y)); split; intros; try discriminate; auto; contradiction. Qed.

(* ---------- the two scalar instances agree ---------- *)
Lemma FOps_ltb_ROps (x y : float) (Fx : ffinite x) (Fy : ffinite y) : ltb FOps x y = ltb ROps (FR x) (FR y).
Proof.
  change (PrimFloat.ltb x y = if Rlt_dec (FR x) (FR y) then true else false).
  destruct (Rlt_dec (FR x) (FR y)) as [H|H].
  - apply (Fltb_true x y Fx Fy); exact H.
  - apply (Fltb_false x y Fx Fy); lra.
Qed.
Lemma FOps_leb_ROps (x y : float) (Fx : ffinite x) (Fy : ffinite y) : leb FOps x y = leb ROps (FR x) (FR y).
Proof.
  change (PrimFloat.leb x y = if Rle_dec (FR x) (FR y) then true else false).
  destruct (Rle_dec (FR x) (FR y)) as [H|H].
  - apply (Fleb_true x y Fx Fy); exact H.
  - apply (Fleb_false x y Fx Fy); lra.
Qed.
Lemma FOps_eqb_ROps (x y : float) (Fx : ffinite x) (Fy : ffinite y) : eqb FOps x y = eqb ROps (FR x) (FR y).
Proof.
  change (PrimFloat.eqb x y = if Req_EM_T (FR x) (FR y) then true else false).
  destruct (Req_EM_T (FR x) (FR y)) as [H|H].
  - apply (Feqb_true x y Fx Fy); exact H.
  - apply (Feqb_false x y Fx Fy); exact H.
Qed.

(* any libm table: the comparisons of FOpsT do not depend on it *)
Lemma FOpsT_ltb tbl x y : ltb (FOpsT tbl) x y = PrimFloat.ltb x y.  Proof. reflexivity. Qed.
Lemma FOpsT_leb tbl x y : leb (FOpsT tbl) x y = PrimFloat.leb x y.  Proof. reflexivity. Qed.
Lemma FOpsT_eqb tbl x y : eqb (FOpsT tbl) x y = PrimFloat.eqb x y.  Proof. reflexivity. Qed.

(* ---------- finiteness is decidable by computation; NaN and the infinities are not finite ---------- *)
Lemma ffinite_iff_is_finite x : ffinite x <-> PrimFloat.is_finite x = true.
Proof. unfold ffinite. rewrite is_finite_equiv. tauto. Qed.

Lemma ffinite_by_computation x : PrimFloat.is_finite x = true -> ffinite x.
Proof. apply ffinite_iff_is_finite. Qed.

Lemma nan_not_finite : ~ ffinite PrimFloat.nan.
Proof. intros H. apply ffinite_iff_is_finite in H. vm_compute in H. discriminate H. Qed.
Lemma infinity_not_finite : ~ ffinite PrimFloat.infinity.
Proof. intros H. apply ffinite_iff_is_finite in H. vm_compute in H. discriminate H. Qed.

Lemma FR_nan : FR PrimFloat.nan = 0%R.
Proof.
  unfold FR. generalize (is_nan_equiv PrimFloat.nan).
  destruct (Prim2B PrimFloat.nan); simpl; intros H; try reflexivity; vm_compute in H; discriminate H.
Qed.

Lemma FR_zero : FR 0%float = 0%R.
Proof.
  unfold FR. generalize (is_zero_equiv 0%float).
  destruct (Prim2B 0%float); simpl; intros H; try reflexivity; vm_compute in H; discriminate H.
Qed.

Lemma Prim2B_nan : Prim2B PrimFloat.nan = B754_nan.
Proof.
  generalize (is_nan_equiv PrimFloat.nan).
  destruct (Prim2B PrimFloat.nan); simpl; intros H; try reflexivity; vm_compute in H; discriminate H.
Qed.

(* every ordered comparison with a NaN operand is false, whatever the other operand *)
Lemma Fleb_nan_l x : PrimFloat.leb PrimFloat.nan x = false.
Proof. rewrite leb_equiv, Prim2B_nan. reflexivity. Qed.
Lemma Fleb_nan_r x : PrimFloat.leb x PrimFloat.nan = false.
Proof. rewrite leb_equiv, Prim2B_nan. destruct (Prim2B x) as [[|]|[|]| |[|] ? ? ?]; reflexivity. Qed.
Lemma Fltb_nan_l x : PrimFloat.ltb PrimFloat.nan x = false.
Proof. rewrite ltb_equiv, Prim2B_nan. reflexivity. Qed.
Lemma Fltb_nan_r x : PrimFloat.ltb x PrimFloat.nan = false.
Proof. rewrite ltb_equiv, Prim2B_nan. destruct (Prim2B x) as [[|]|[|]| |[|] ? ? ?]; reflexivity. Qed.

(* a NaN operand makes every comparison false, while FR nan = 0: the finiteness hypotheses above cannot be
   dropped (leb nan 0 = false on floats, true on the FR images) *)
Lemma nan_leb_counterexample :
  leb FOps PrimFloat.nan 0%float = false /\ leb ROps (FR PrimFloat.nan) (FR 0%float) = true.
Proof.
  split; [vm_compute; reflexivity|].
  rewrite FR_zero.
  rewrite FR_nan.
  change ((if Rle_dec 0 0 then true else false) = true).
  destruct (Rle_dec 0 0) as [H|H]; [reflexivity | exfalso; lra].
Qed.
