(* A small rounding-error library for Coq's primitive binary64 floats, on top of Flocq.
   Nothing here is generated.  Contents:
     1. FR / ffinite, the real value and finiteness of a primitive float;
     2. correct rounding of PrimFloat.add/sub/mul/div/sqrt/opp/abs (from Flocq's PrimFloat bridge + BinarySingleNaN):
        finite operands and an exact result of magnitude <= fmax = 2^1023 give a finite, correctly rounded result;
     3. the standard error model  |rnd r - r| <= u |r| + eta,  u = 2^-53, eta = 2^-1075;
     4. comparisons: ltb / leb / eqb on finite floats decide <, <=, = on the real values
        (eqb identifies +0.0 and -0.0, whose real value is 0 in both cases);
     5. exact small integers (ZtoF z for |z| < 2^53) and computation tactics for literals;
     6. the relation [approx x r e b] (x finite, |FR x - r| <= e, |r| <= b) with compositional lemmas, and the Ltac
        [approx_tree] that follows a term built from add/sub/mul/opp/abs/ZtoF (fine for small trees; its side
        conditions go to lra and grow with the tree);
     7. the reflective procedure used for real work: bounds are linear forms a*M + c with rational coefficients in one
        magnitude parameter M, computed by [bound] under vm_compute; [fbound] reifies a goal and applies
        [bound_check_sound].  [rnd_error_sum], [Fadd_error_rel], [Fsub_error_rel]: add/sub have no underflow error.
   Import note: this file imports Flocq before Coq.Floats so that [float] means PrimFloat.float; a client that imports
   Flocq.Core itself should do the same (Flocq.Core.Defs also defines a [float]). *)
From Coq Require Import ZArith Reals Lra Lia List QArith Qreals Bool.
From Flocq Require Import Core BinarySingleNaN Relative Plus_error.
From Flocq Require PrimFloat.
(* Coq's primitive floats are imported after Flocq so that [float] is PrimFloat.float (Flocq.Core.Defs has a [float] too) *)
From Coq Require Import Floats.
From BZ Require Import Base.Ops.
From BZ Require Export Base.FloatCmp.   (* FR, ffinite and the comparison lemmas Fltb_true ... Feqb_false *)
Open Scope R_scope.

Module FP := Flocq.IEEE754.PrimFloat.

(* ------------------------------------------------------------------------------------------- *)
(* 1. real value and finiteness                                                                 *)
(* ------------------------------------------------------------------------------------------- *)
(* [FR x := B2R (Prim2B x)] and [ffinite x := is_finite (Prim2B x) = true] come from Base/FloatCmp.v *)

(* round-to-nearest-even in binary64 *)
Definition b64_exp : Z -> Z := FLT_exp (-1074) 53.
Definition rnd (r : R) : R := round radix2 b64_exp ZnearestE r.
Definition u : R := bpow radix2 (-53).
Definition eta : R := bpow radix2 (-1075).
(* a convenient representable bound below the overflow threshold 2^1024 *)
Definition fmax : R := bpow radix2 1023.

Global Instance b64_exp_valid : Valid_exp b64_exp.
Proof. unfold b64_exp. apply FLT_exp_valid. reflexivity. Qed.

Lemma FR_format x : generic_format radix2 b64_exp (FR x).
Proof. exact (generic_format_B2R prec emax (FP.Prim2B x)). Qed.

Lemma FR_lt_emax x : Rabs (FR x) < bpow radix2 1024.
Proof. exact (abs_B2R_lt_emax prec emax (FP.Prim2B x)). Qed.

Lemma ffinite_is_finite x : ffinite x <-> PrimFloat.is_finite x = true.
Proof. unfold ffinite. now rewrite FP.is_finite_equiv. Qed.

(* values through the computable SpecFloat view, for literals *)
Lemma FR_SF x : FR x = SF2R radix2 (Prim2SF x).
Proof. unfold FR, FP.Prim2B. apply B2R_SF2B. Qed.
Lemma ffinite_SF x : ffinite x <-> is_finite_SF (Prim2SF x) = true.
Proof. unfold ffinite, FP.Prim2B. now rewrite is_finite_SF2B. Qed.

(* ------------------------------------------------------------------------------------------- *)
(* 2. correct rounding                                                                          *)
(* ------------------------------------------------------------------------------------------- *)
Lemma rnd_fmax r : Rabs r <= fmax -> Rabs (rnd r) <= fmax.
Proof.
  intros H. unfold rnd. apply abs_round_le_generic; auto with typeclass_instances.
  unfold fmax. apply generic_format_bpow. unfold b64_exp, FLT_exp. simpl. lia.
Qed.
Lemma rnd_no_overflow r : Rabs r <= fmax -> Rabs (rnd r) < bpow radix2 1024.
Proof.
  intros H. apply Rle_lt_trans with (1 := rnd_fmax r H). unfold fmax. apply bpow_lt. lia.
Qed.

Lemma Fadd_correct_gen x y : ffinite x -> ffinite y -> Rabs (rnd (FR x + FR y)) < bpow radix2 1024 ->
  ffinite (x + y)%float /\ FR (x + y)%float = rnd (FR x + FR y).
Proof.
  unfold ffinite, FR. intros Fx Fy Hov. rewrite FP.add_equiv.
  generalize (Bplus_correct prec emax FP.Hprec FP.Hmax mode_NE _ _ Fx Fy).
  change (round radix2 (SpecFloat.fexp prec emax) (round_mode mode_NE)) with rnd.
  rewrite Rlt_bool_true by exact Hov. intros (H1 & H2 & _). split; assumption.
Qed.
Lemma Fsub_correct_gen x y : ffinite x -> ffinite y -> Rabs (rnd (FR x - FR y)) < bpow radix2 1024 ->
  ffinite (x - y)%float /\ FR (x - y)%float = rnd (FR x - FR y).
Proof.
  unfold ffinite, FR. intros Fx Fy Hov. rewrite FP.sub_equiv.
  generalize (Bminus_correct prec emax FP.Hprec FP.Hmax mode_NE _ _ Fx Fy).
  change (round radix2 (SpecFloat.fexp prec emax) (round_mode mode_NE)) with rnd.
  rewrite Rlt_bool_true by exact Hov. intros (H1 & H2 & _). split; assumption.
Qed.
Lemma Fmul_correct_gen x y : ffinite x -> ffinite y -> Rabs (rnd (FR x * FR y)) < bpow radix2 1024 ->
  ffinite (x * y)%float /\ FR (x * y)%float = rnd (FR x * FR y).
Proof.
  unfold ffinite, FR. intros Fx Fy Hov. rewrite FP.mul_equiv.
  generalize (Bmult_correct prec emax FP.Hprec FP.Hmax mode_NE (FP.Prim2B x) (FP.Prim2B y)).
  change (round radix2 (SpecFloat.fexp prec emax) (round_mode mode_NE)) with rnd.
  rewrite Rlt_bool_true by exact Hov. intros (H1 & H2 & _). rewrite H2, Fx, Fy. split; [reflexivity | assumption].
Qed.
Lemma Fdiv_correct_gen x y : ffinite x -> ffinite y -> FR y <> 0 -> Rabs (rnd (FR x / FR y)) < bpow radix2 1024 ->
  ffinite (x / y)%float /\ FR (x / y)%float = rnd (FR x / FR y).
Proof.
  unfold ffinite, FR. intros Fx Fy Hy Hov. rewrite FP.div_equiv.
  generalize (Bdiv_correct prec emax FP.Hprec FP.Hmax mode_NE (FP.Prim2B x) (FP.Prim2B y) Hy).
  change (round radix2 (SpecFloat.fexp prec emax) (round_mode mode_NE)) with rnd.
  rewrite Rlt_bool_true by exact Hov. intros (H1 & H2 & _). rewrite H2. split; assumption.
Qed.
(* sqrt never overflows; finite for a finite argument with non-negative value that is not -0... we state the
   value part for every finite x, and finiteness when 0 < FR x or x is a zero *)
Lemma Fsqrt_value x : FR (PrimFloat.sqrt x) = rnd (R_sqrt.sqrt (FR x)).
Proof.
  unfold FR. rewrite FP.sqrt_equiv.
  exact (proj1 (Bsqrt_correct prec emax FP.Hprec FP.Hmax mode_NE (FP.Prim2B x))).
Qed.
Lemma Fsqrt_finite x : ffinite x -> 0 < FR x -> ffinite (PrimFloat.sqrt x).
Proof.
  unfold ffinite, FR. intros Fx Hpos. rewrite FP.sqrt_equiv.
  rewrite (proj1 (proj2 (Bsqrt_correct prec emax FP.Hprec FP.Hmax mode_NE (FP.Prim2B x)))).
  destruct (FP.Prim2B x) as [s|s| |s m e Hb]; try discriminate; simpl in Hpos; try lra.
  destruct s; [|reflexivity]. exfalso. apply (Rlt_irrefl 0). apply Rlt_trans with (1 := Hpos).
  apply F2R_lt_0. reflexivity.
Qed.

Lemma Fopp_correct x : FR (- x)%float = - FR x.
Proof. unfold FR. rewrite FP.opp_equiv. apply B2R_Bopp. Qed.
Lemma Fopp_finite x : ffinite (- x)%float <-> ffinite x.
Proof. unfold ffinite. rewrite FP.opp_equiv, is_finite_Bopp. tauto. Qed.
Lemma Fabs_correct x : FR (PrimFloat.abs x) = Rabs (FR x).
Proof. unfold FR. rewrite FP.abs_equiv. apply B2R_Babs. Qed.
Lemma Fabs_finite x : ffinite (PrimFloat.abs x) <-> ffinite x.
Proof. unfold ffinite. rewrite FP.abs_equiv, is_finite_Babs. tauto. Qed.

(* the user-facing forms: exact result of magnitude at most fmax = 2^1023 *)
Lemma Fadd_correct x y : ffinite x -> ffinite y -> Rabs (FR x + FR y) <= fmax ->
  ffinite (x + y)%float /\ FR (x + y)%float = rnd (FR x + FR y).
Proof. intros Fx Fy H. apply Fadd_correct_gen; auto using rnd_no_overflow. Qed.
Lemma Fsub_correct x y : ffinite x -> ffinite y -> Rabs (FR x - FR y) <= fmax ->
  ffinite (x - y)%float /\ FR (x - y)%float = rnd (FR x - FR y).
Proof. intros Fx Fy H. apply Fsub_correct_gen; auto using rnd_no_overflow. Qed.
Lemma Fmul_correct x y : ffinite x -> ffinite y -> Rabs (FR x * FR y) <= fmax ->
  ffinite (x * y)%float /\ FR (x * y)%float = rnd (FR x * FR y).
Proof. intros Fx Fy H. apply Fmul_correct_gen; auto using rnd_no_overflow. Qed.
Lemma Fdiv_correct x y : ffinite x -> ffinite y -> FR y <> 0 -> Rabs (FR x / FR y) <= fmax ->
  ffinite (x / y)%float /\ FR (x / y)%float = rnd (FR x / FR y).
Proof. intros Fx Fy Hy H. apply Fdiv_correct_gen; auto using rnd_no_overflow. Qed.

(* ------------------------------------------------------------------------------------------- *)
(* 3. the standard error model                                                                  *)
(* ------------------------------------------------------------------------------------------- *)
Lemma u_pos : 0 < u.      Proof. apply bpow_gt_0. Qed.
Lemma eta_pos : 0 < eta.  Proof. apply bpow_gt_0. Qed.
Lemma fmax_pos : 0 < fmax. Proof. apply bpow_gt_0. Qed.
(* literal values, for lra *)
Lemma u_eq : u = / 9007199254740992.
Proof. reflexivity. Qed.
Lemma eta_eq : eta = / IZR (2 ^ 1075).
Proof. reflexivity. Qed.
Lemma fmax_eq : fmax = IZR (2 ^ 1023).
Proof. reflexivity. Qed.

Lemma bpow_half_u : / 2 * bpow radix2 (-52) = u.
Proof. unfold u. change (-52)%Z with (-53 + 1)%Z. rewrite bpow_plus. change (bpow radix2 1) with 2. field. Qed.
Lemma bpow_half_eta : / 2 * bpow radix2 (-1074) = eta.
Proof. unfold eta. change (-1074)%Z with (-1075 + 1)%Z. rewrite bpow_plus. change (bpow radix2 1) with 2. field. Qed.

Lemma rnd_error r : Rabs (rnd r - r) <= u * Rabs r + eta.
Proof.
  destruct (error_N_FLT radix2 (-1074) 53 ltac:(lia) (fun x => negb (Z.even x)) r) as (eps & et & He & Het & _ & Hr).
  change (round radix2 (FLT_exp (-1074) 53) (Znearest (fun x => negb (Z.even x))) r) with (rnd r) in Hr.
  change (Rabs eps <= / 2 * bpow radix2 (-52)) in He. rewrite bpow_half_u in He.
  rewrite bpow_half_eta in Het.
  rewrite Hr. replace (r * (1 + eps) + et - r) with (r * eps + et) by ring.
  eapply Rle_trans; [apply Rabs_triang|]. rewrite Rabs_mult.
  apply Rplus_le_compat; [|exact Het]. rewrite Rmult_comm. apply Rmult_le_compat_r; [apply Rabs_pos | exact He].
Qed.
(* relative form when no underflow can have happened is not needed below; the two-term form is uniform *)

Lemma rnd_exact r : generic_format radix2 b64_exp r -> rnd r = r.
Proof. intros H. unfold rnd. apply round_generic; auto with typeclass_instances. Qed.

(* ------------------------------------------------------------------------------------------- *)
(* 4. comparisons                                                                               *)
(* ------------------------------------------------------------------------------------------- *)
(* Fltb_true, Fltb_false, Fleb_true, Fleb_false, Feqb_true, Feqb_false: Base/FloatCmp.v *)
(* the same through the FOps record, the form in which generated code mentions them *)
Lemma FOps_ltb_true x y : ffinite x -> ffinite y -> (ltb FOps x y = true <-> FR x < FR y).
Proof. exact (Fltb_true x y). Qed.
Lemma FOps_leb_true x y : ffinite x -> ffinite y -> (leb FOps x y = true <-> FR x <= FR y).
Proof. exact (Fleb_true x y). Qed.
Lemma FOps_eqb_true x y : ffinite x -> ffinite y -> (eqb FOps x y = true <-> FR x = FR y).
Proof. exact (Feqb_true x y). Qed.

(* ------------------------------------------------------------------------------------------- *)
(* 5. literals and small integers                                                               *)
(* ------------------------------------------------------------------------------------------- *)
(* turn every [bpow radix2 <literal>] of the goal into an integer literal or its inverse (lra-friendly) *)
Ltac bpow_lit :=
  repeat match goal with
  | |- context [bpow radix2 ?e] =>
    lazymatch e with
    | Zneg ?p => let v := eval vm_compute in (Z.pow_pos 2 p) in change (bpow radix2 e) with (/ IZR v)
    | Zpos ?p => let v := eval vm_compute in (Z.pow_pos 2 p) in change (bpow radix2 e) with (IZR v)
    | Z0 => change (bpow radix2 e) with 1
    end
  end.
Ltac bpow_lit_in H :=
  repeat match type of H with
  | context [bpow radix2 ?e] =>
    lazymatch e with
    | Zneg ?p => let v := eval vm_compute in (Z.pow_pos 2 p) in change (bpow radix2 e) with (/ IZR v) in H
    | Zpos ?p => let v := eval vm_compute in (Z.pow_pos 2 p) in change (bpow radix2 e) with (IZR v) in H
    | Z0 => change (bpow radix2 e) with 1 in H
    end
  end.
(* unfold the constants of this library to literals, in the goal and in every hypothesis *)
Ltac fp_consts :=
  unfold u, eta, fmax in *;
  repeat match goal with H : context [bpow radix2 _] |- _ => progress bpow_lit_in H end;
  bpow_lit.

Lemma FR_lit x s : Prim2SF x = s -> FR x = SF2R radix2 s.
Proof. intros <-. apply FR_SF. Qed.
Lemma ffinite_lit x s : Prim2SF x = s -> is_finite_SF s = true -> ffinite x.
Proof. intros <- H. now apply ffinite_SF. Qed.
(* [FR c] for a closed float [c]: rewrites it to  IZR m * 2^e  with literals *)
Ltac FR_compute c :=
  let s := eval vm_compute in (Prim2SF c) in
  let H := fresh "Hlit" in
  assert (H : Prim2SF c = s) by (vm_compute; reflexivity);
  rewrite (FR_lit c s H); clear H;
  unfold SF2R, F2R; cbn [cond_Zopp Fnum Fexp Z.opp]; bpow_lit.
Ltac ffinite_compute :=
  lazymatch goal with
  | |- ffinite ?c => apply ffinite_SF; vm_compute; reflexivity
  end.

Lemma FR_zero : FR 0%float = 0.          Proof. FR_compute 0%float. reflexivity. Qed.
Lemma FR_one : FR 1%float = 1.           Proof. FR_compute 1%float. lra. Qed.
Lemma ffinite_zero : ffinite 0%float.    Proof. ffinite_compute. Qed.
Lemma ffinite_one : ffinite 1%float.     Proof. ffinite_compute. Qed.

(* ZtoF is exact on every integer of magnitude below 2^53 *)
Lemma FR_of_uint63 i : (Uint63.to_Z i < 2 ^ 53)%Z ->
  ffinite (PrimFloat.of_uint63 i) /\ FR (PrimFloat.of_uint63 i) = IZR (Uint63.to_Z i).
Proof.
  intros Hi. assert (H0 := Uint63.to_Z_bounded i).
  unfold ffinite, FR. rewrite (FP.of_int63_equiv i).
  generalize (binary_normalize_correct prec emax FP.Hprec FP.Hmax mode_NE (Uint63.to_Z i) 0 false).
  cbv zeta.
  assert (Hx : F2R (Float radix2 (Uint63.to_Z i) 0) = IZR (Uint63.to_Z i)) by (unfold F2R; simpl; ring).
  change (round radix2 (SpecFloat.fexp prec emax) (round_mode mode_NE)) with rnd.
  assert (Hf : generic_format radix2 b64_exp (F2R (Float radix2 (Uint63.to_Z i) 0))).
  { apply generic_format_FLT. exists (Float radix2 (Uint63.to_Z i) 0); [reflexivity | | simpl; lia].
    simpl. rewrite Z.abs_eq by lia. exact Hi. }
  rewrite (rnd_exact _ Hf), Hx. rewrite Rlt_bool_true.
  - intros (H1 & H2 & _). split; assumption.
  - rewrite Rabs_pos_eq by (apply IZR_le; lia).
    apply Rlt_le_trans with (IZR (2 ^ 53)); [apply IZR_lt; exact Hi|].
    change (IZR (2 ^ 53)) with (bpow radix2 53). apply bpow_le. unfold emax. lia.
Qed.
Lemma FR_ZtoF z : (Z.abs z < 2 ^ 53)%Z -> ffinite (ZtoF z) /\ FR (ZtoF z) = IZR z.
Proof.
  intros Hz. destruct z as [|p|p]; unfold ZtoF.
  - split; [exact ffinite_zero | exact FR_zero].
  - assert (Hp : Uint63.to_Z (Uint63.of_Z (Z.pos p)) = Z.pos p).
    { rewrite Uint63.of_Z_spec. apply Z.mod_small. split; [lia|].
      apply Z.lt_trans with (2 ^ 53)%Z; [exact Hz | reflexivity]. }
    destruct (FR_of_uint63 (Uint63.of_Z (Z.pos p))) as (H1 & H2); rewrite Hp in *; [exact Hz|]. split; assumption.
  - assert (Hp : Uint63.to_Z (Uint63.of_Z (Z.pos p)) = Z.pos p).
    { rewrite Uint63.of_Z_spec. apply Z.mod_small. split; [lia|].
      apply Z.lt_trans with (2 ^ 53)%Z; [exact Hz | reflexivity]. }
    destruct (FR_of_uint63 (Uint63.of_Z (Z.pos p))) as (H1 & H2); rewrite Hp in *; [exact Hz|].
    split; [apply Fopp_finite; assumption|]. rewrite Fopp_correct, H2. change (Z.neg p) with (- Z.pos p)%Z.
    now rewrite opp_IZR.
Qed.
Lemma approx_ZtoF_exact z : (Z.abs z < 2 ^ 53)%Z -> FR (ZtoF z) = IZR z.
Proof. intros H. exact (proj2 (FR_ZtoF z H)). Qed.
Lemma ZtoF_finite z : (Z.abs z < 2 ^ 53)%Z -> ffinite (ZtoF z).
Proof. intros H. exact (proj1 (FR_ZtoF z H)). Qed.

(* ------------------------------------------------------------------------------------------- *)
(* 6. approximation with error and magnitude tracking                                           *)
(*    approx x r e b : the finite float x is within e of the real r, and |r| <= b               *)
(* ------------------------------------------------------------------------------------------- *)
Definition approx (x : float) (r e b : R) : Prop := ffinite x /\ Rabs (FR x - r) <= e /\ Rabs r <= b.

Lemma approx_finite x r e b : approx x r e b -> ffinite x.
Proof. now intros (H & _). Qed.
Lemma approx_err x r e b : approx x r e b -> Rabs (FR x - r) <= e.
Proof. now intros (_ & H & _). Qed.
Lemma approx_mag x r e b : approx x r e b -> Rabs r <= b.
Proof. now intros (_ & _ & H). Qed.
Lemma approx_e_nonneg x r e b : approx x r e b -> 0 <= e.
Proof. intros (_ & H & _). eapply Rle_trans; [apply Rabs_pos | exact H]. Qed.
Lemma approx_b_nonneg x r e b : approx x r e b -> 0 <= b.
Proof. intros (_ & _ & H). eapply Rle_trans; [apply Rabs_pos | exact H]. Qed.
Lemma approx_FR_bound x r e b : approx x r e b -> Rabs (FR x) <= b + e.
Proof.
  intros (_ & He & Hb). replace (FR x) with (r + (FR x - r)) by ring.
  eapply Rle_trans; [apply Rabs_triang|]. lra.
Qed.
Lemma approx_exact x b : ffinite x -> Rabs (FR x) <= b -> approx x (FR x) 0 b.
Proof. intros Fx Hb. repeat split; auto. unfold Rminus. rewrite Rplus_opp_r, Rabs_R0. lra. Qed.
Lemma approx_weaken x r e b e' b' : approx x r e b -> e <= e' -> b <= b' -> approx x r e' b'.
Proof. intros (F & He & Hb) H1 H2. repeat split; auto; lra. Qed.
Lemma approx_ofZ z : (Z.abs z < 2 ^ 53)%Z -> approx (ZtoF z) (IZR z) 0 (IZR (Z.abs z)).
Proof.
  intros Hz. destruct (FR_ZtoF z Hz) as (F & V). repeat split; auto.
  - rewrite V. unfold Rminus. rewrite Rplus_opp_r, Rabs_R0. lra.
  - rewrite abs_IZR. lra.
Qed.

(* the common core: z is the correctly rounded value of p, p is within e of r and |p| <= B *)
Lemma approx_round_core z p r e b B :
  ffinite z -> FR z = rnd p -> Rabs p <= B -> Rabs (p - r) <= e -> Rabs r <= b -> approx z r (e + (u * B + eta)) b.
Proof.
  intros Fz Vz HB He Hb. repeat split; auto. rewrite Vz.
  replace (rnd p - r) with ((p - r) + (rnd p - p)) by ring.
  eapply Rle_trans; [apply Rabs_triang|]. apply Rplus_le_compat; [exact He|].
  eapply Rle_trans; [apply rnd_error|]. apply Rplus_le_compat_r.
  apply Rmult_le_compat_l; [apply Rlt_le, u_pos | exact HB].
Qed.

(* versions with a caller-supplied magnitude bound b' for the exact result *)
Lemma approx_add_b x y rx ry ex ey bx by_ b' :
  approx x rx ex bx -> approx y ry ey by_ -> Rabs (rx + ry) <= b' -> (bx + ex) + (by_ + ey) <= fmax ->
  approx (x + y)%float (rx + ry) ((ex + ey) + (u * ((bx + ex) + (by_ + ey)) + eta)) b'.
Proof.
  intros Hx Hy Hb Hov.
  assert (Bx := approx_FR_bound _ _ _ _ Hx). assert (By := approx_FR_bound _ _ _ _ Hy).
  assert (HB : Rabs (FR x + FR y) <= (bx + ex) + (by_ + ey)).
  { eapply Rle_trans; [apply Rabs_triang|]. lra. }
  destruct (Fadd_correct x y (approx_finite _ _ _ _ Hx) (approx_finite _ _ _ _ Hy)) as (F & V); [lra|].
  apply approx_round_core with (p := FR x + FR y); auto.
  replace (FR x + FR y - (rx + ry)) with ((FR x - rx) + (FR y - ry)) by ring.
  eapply Rle_trans; [apply Rabs_triang|].
  apply Rplus_le_compat; [exact (approx_err _ _ _ _ Hx) | exact (approx_err _ _ _ _ Hy)].
Qed.
Lemma approx_sub_b x y rx ry ex ey bx by_ b' :
  approx x rx ex bx -> approx y ry ey by_ -> Rabs (rx - ry) <= b' -> (bx + ex) + (by_ + ey) <= fmax ->
  approx (x - y)%float (rx - ry) ((ex + ey) + (u * ((bx + ex) + (by_ + ey)) + eta)) b'.
Proof.
  intros Hx Hy Hb Hov.
  assert (Bx := approx_FR_bound _ _ _ _ Hx). assert (By := approx_FR_bound _ _ _ _ Hy).
  assert (HB : Rabs (FR x - FR y) <= (bx + ex) + (by_ + ey)).
  { unfold Rminus. eapply Rle_trans; [apply Rabs_triang|]. rewrite Rabs_Ropp. lra. }
  destruct (Fsub_correct x y (approx_finite _ _ _ _ Hx) (approx_finite _ _ _ _ Hy)) as (F & V); [lra|].
  apply approx_round_core with (p := FR x - FR y); auto.
  replace (FR x - FR y - (rx - ry)) with ((FR x - rx) + - (FR y - ry)) by ring.
  eapply Rle_trans; [apply Rabs_triang|]. rewrite Rabs_Ropp.
  apply Rplus_le_compat; [exact (approx_err _ _ _ _ Hx) | exact (approx_err _ _ _ _ Hy)].
Qed.
Lemma approx_mul_b x y rx ry ex ey bx by_ b' :
  approx x rx ex bx -> approx y ry ey by_ -> Rabs (rx * ry) <= b' -> (bx + ex) * (by_ + ey) <= fmax ->
  approx (x * y)%float (rx * ry) ((ex * (by_ + ey) + bx * ey) + (u * ((bx + ex) * (by_ + ey)) + eta)) b'.
Proof.
  intros Hx Hy Hb Hov.
  assert (Bx := approx_FR_bound _ _ _ _ Hx). assert (By := approx_FR_bound _ _ _ _ Hy).
  assert (HB : Rabs (FR x * FR y) <= (bx + ex) * (by_ + ey)).
  { rewrite Rabs_mult. apply Rmult_le_compat; auto using Rabs_pos. }
  destruct (Fmul_correct x y (approx_finite _ _ _ _ Hx) (approx_finite _ _ _ _ Hy)) as (F & V); [lra|].
  apply approx_round_core with (p := FR x * FR y); auto.
  replace (FR x * FR y - rx * ry) with ((FR x - rx) * FR y + rx * (FR y - ry)) by ring.
  eapply Rle_trans; [apply Rabs_triang|]. rewrite 2!Rabs_mult.
  apply Rplus_le_compat.
  - apply Rmult_le_compat; auto using Rabs_pos. exact (approx_err _ _ _ _ Hx).
  - apply Rmult_le_compat; auto using Rabs_pos. exact (approx_mag _ _ _ _ Hx). exact (approx_err _ _ _ _ Hy).
Qed.

(* the default magnitude bounds *)
Lemma approx_add x y rx ry ex ey bx by_ :
  approx x rx ex bx -> approx y ry ey by_ -> (bx + ex) + (by_ + ey) <= fmax ->
  approx (x + y)%float (rx + ry) ((ex + ey) + (u * ((bx + ex) + (by_ + ey)) + eta)) (bx + by_).
Proof.
  intros Hx Hy. apply approx_add_b; auto. eapply Rle_trans; [apply Rabs_triang|].
  apply Rplus_le_compat; [exact (approx_mag _ _ _ _ Hx) | exact (approx_mag _ _ _ _ Hy)].
Qed.
Lemma approx_sub x y rx ry ex ey bx by_ :
  approx x rx ex bx -> approx y ry ey by_ -> (bx + ex) + (by_ + ey) <= fmax ->
  approx (x - y)%float (rx - ry) ((ex + ey) + (u * ((bx + ex) + (by_ + ey)) + eta)) (bx + by_).
Proof.
  intros Hx Hy. apply approx_sub_b; auto. unfold Rminus. eapply Rle_trans; [apply Rabs_triang|]. rewrite Rabs_Ropp.
  apply Rplus_le_compat; [exact (approx_mag _ _ _ _ Hx) | exact (approx_mag _ _ _ _ Hy)].
Qed.
Lemma approx_mul x y rx ry ex ey bx by_ :
  approx x rx ex bx -> approx y ry ey by_ -> (bx + ex) * (by_ + ey) <= fmax ->
  approx (x * y)%float (rx * ry) ((ex * (by_ + ey) + bx * ey) + (u * ((bx + ex) * (by_ + ey)) + eta)) (bx * by_).
Proof.
  intros Hx Hy. apply approx_mul_b; auto. rewrite Rabs_mult.
  apply Rmult_le_compat; auto using Rabs_pos; [exact (approx_mag _ _ _ _ Hx) | exact (approx_mag _ _ _ _ Hy)].
Qed.
Lemma approx_opp x r e b : approx x r e b -> approx (- x)%float (- r) e b.
Proof.
  intros (F & He & Hb). repeat split.
  - now apply Fopp_finite.
  - rewrite Fopp_correct. replace (- FR x - - r) with (- (FR x - r)) by ring. now rewrite Rabs_Ropp.
  - now rewrite Rabs_Ropp.
Qed.
Lemma approx_abs x r e b : approx x r e b -> approx (PrimFloat.abs x) (Rabs r) e b.
Proof.
  intros (F & He & Hb). repeat split.
  - now apply Fabs_finite.
  - rewrite Fabs_correct. eapply Rle_trans; [apply Rabs_triang_inv2 | exact He].
  - now rewrite Rabs_Rabsolu.
Qed.

(* how a finished approximation is used *)
Lemma approx_conclude x r e b r' e' : approx x r e b -> r = r' -> e <= e' -> ffinite x /\ Rabs (FR x - r') <= e'.
Proof. intros (F & He & _) <- H. split; [exact F | lra]. Qed.

(* ---- the tactic ----
   Goal:  approx <float term> ?r ?e ?b   (r, e, b may be evars or given; if given they must match what is built).
   The float term is a tree of PrimFloat.add/sub/mul/opp/abs and ZtoF <literal>, over leaves for which a hypothesis
   [approx leaf _ _ _] is in the context.  A hypothesis about an inner node takes precedence over the node's
   lemma (this is how a caller supplies a sharper magnitude bound, e.g. for 1 - t with 0 <= t <= 1).
   [side] solves the no-overflow side conditions  <bound expression> <= fmax. *)
Ltac approx_tree_with side :=
  let rec go :=
    lazymatch goal with
    | |- approx ?x _ _ _ =>
      first
      [ match goal with H : approx x _ _ _ |- _ => exact H end
      | lazymatch x with
        | PrimFloat.add _ _ => eapply approx_add; [go | go | side]
        | PrimFloat.sub _ _ => eapply approx_sub; [go | go | side]
        | PrimFloat.mul _ _ => eapply approx_mul; [go | go | side]
        | PrimFloat.opp _ => eapply approx_opp; go
        | PrimFloat.abs _ => eapply approx_abs; go
        | ZtoF _ => eapply approx_ofZ; vm_compute; reflexivity
        | _ => fail 1 "approx_tree: no [approx] hypothesis for the leaf" x
        end ]
    | |- ?g => fail "approx_tree: not an approx goal:" g
    end
  in go.
(* default side-condition solver: literals for u, eta, fmax, then linear arithmetic over the context *)
Ltac approx_side := fp_consts; cbn [Z.abs]; lra.
Ltac approx_tree := approx_tree_with approx_side.
(* unfold the FOps record projections that generated code uses for arithmetic *)
Ltac fops_unfold := cbv [FOps FOpsT add sub mul neg abs_ ofZ].

(* a sanity example: (a * b + 3) with |a|,|b| <= 10 *)
Example approx_tree_demo a b : ffinite a -> ffinite b -> Rabs (FR a) <= 10 -> Rabs (FR b) <= 10 ->
  ffinite (add FOps (mul FOps a b) (ofZ FOps 3)) /\
  Rabs (FR (add FOps (mul FOps a b) (ofZ FOps 3)) - (FR a * FR b + 3)) <= 204 * u + 3 * eta.
Proof.
  intros Fa Fb Ha Hb.
  assert (Aa := approx_exact a 10 Fa Ha). assert (Ab := approx_exact b 10 Fb Hb).
  fops_unfold.
  eapply approx_conclude; [approx_tree | reflexivity | ].
  approx_side.
Qed.


(* ------------------------------------------------------------------------------------------- *)
(* 7. a reflective bound procedure                                                              *)
(*    Bounds are linear forms  a * M + c  in one real parameter M (0 <= M <= cap) with rational *)
(*    coefficients; they are computed by [bound] (run with vm_compute) over a reified tree.     *)
(* ------------------------------------------------------------------------------------------- *)
Definition lin : Type := (Q * Q)%type.
Definition leval (M : R) (l : lin) : R := Q2R (fst l) * M + Q2R (snd l).
Definition lnn (l : lin) : bool := Qle_bool 0 (fst l) && Qle_bool 0 (snd l).
Definition lle (l1 l2 : lin) : bool := Qle_bool (fst l1) (fst l2) && Qle_bool (snd l1) (snd l2).
Definition ladd (l1 l2 : lin) : lin := (Qred (fst l1 + fst l2), Qred (snd l1 + snd l2))%Q.
(* product, linearised with M * M <= cap * M *)
Definition lmul (cap : Q) (l1 l2 : lin) : lin :=
  (Qred (fst l1 * fst l2 * cap + fst l1 * snd l2 + snd l1 * fst l2), Qred (snd l1 * snd l2))%Q.
Definition lconst (c : Q) : lin := (0%Q, c).
Definition ltop (cap : Q) (l : lin) : Q := (fst l * cap + snd l)%Q.
Definition uQ : Q := 1 # (2 ^ 53).
Definition etaQ : Q := 1 # (2 ^ 1075).
Definition fmaxQ : Q := inject_Z (2 ^ 1023).

Lemma Q2R_uQ : Q2R uQ = u.
Proof. unfold Q2R, uQ, u. cbn [Qnum Qden]. change (bpow radix2 (-53)) with (/ IZR (Z.pos (2 ^ 53))). ring. Qed.
Lemma Q2R_etaQ : Q2R etaQ = eta.
Proof. unfold Q2R, etaQ, eta. cbn [Qnum Qden]. change (bpow radix2 (-1075)) with (/ IZR (Z.pos (2 ^ 1075))). ring. Qed.
Lemma Q2R_fmaxQ : Q2R fmaxQ = fmax.
Proof. unfold Q2R, fmaxQ, fmax, inject_Z. cbn [Qnum Qden]. change (bpow radix2 1023) with (IZR (2 ^ 1023)). field. Qed.
Lemma Q2R_0 : Q2R 0 = 0.
Proof. unfold Q2R. simpl. ring. Qed.
Lemma Q2R_inject_Z z : Q2R (inject_Z z) = IZR z.
Proof. unfold Q2R, inject_Z. simpl. field. Qed.

Lemma lnn_spec l : lnn l = true -> 0 <= Q2R (fst l) /\ 0 <= Q2R (snd l).
Proof.
  unfold lnn. rewrite andb_true_iff, 2!Qle_bool_iff. intros (H1 & H2).
  apply Qle_Rle in H1, H2. rewrite Q2R_0 in *. split; assumption.
Qed.
Lemma lnn_intro l : 0 <= Q2R (fst l) -> 0 <= Q2R (snd l) -> lnn l = true.
Proof.
  intros H1 H2. unfold lnn. rewrite andb_true_iff, 2!Qle_bool_iff. rewrite <- Q2R_0 in H1, H2.
  split; apply Rle_Qle; assumption.
Qed.
Lemma leval_lconst M c : leval M (lconst c) = Q2R c.
Proof. unfold leval, lconst. simpl. rewrite Q2R_0. ring. Qed.
Lemma leval_ladd M l1 l2 : leval M (ladd l1 l2) = leval M l1 + leval M l2.
Proof.
  unfold leval, ladd. cbn [fst snd]. rewrite 2!(Qeq_eqR _ _ (Qred_correct _)), 2!Q2R_plus. ring.
Qed.
Lemma lnn_ladd l1 l2 : lnn l1 = true -> lnn l2 = true -> lnn (ladd l1 l2) = true.
Proof.
  intros H1 H2. apply lnn_spec in H1, H2. apply lnn_intro; unfold ladd; cbn [fst snd];
  rewrite (Qeq_eqR _ _ (Qred_correct _)), Q2R_plus; lra.
Qed.
Lemma lnn_lconst c : Qle_bool 0 c = true -> lnn (lconst c) = true.
Proof. intros H. unfold lnn, lconst. cbn [fst snd]. now rewrite H. Qed.
Lemma leval_nonneg M l : 0 <= M -> lnn l = true -> 0 <= leval M l.
Proof.
  intros HM H. apply lnn_spec in H. unfold leval. destruct H as (H1 & H2).
  apply Rplus_le_le_0_compat; [apply Rmult_le_pos|]; assumption.
Qed.
Lemma lle_leval M l1 l2 : 0 <= M -> lle l1 l2 = true -> leval M l1 <= leval M l2.
Proof.
  intros HM. unfold lle. rewrite andb_true_iff, 2!Qle_bool_iff. intros (H1 & H2).
  apply Qle_Rle in H1, H2. unfold leval. apply Rplus_le_compat; [apply Rmult_le_compat_r|]; assumption.
Qed.

Lemma lnn_uQ : lnn (lconst uQ) = true.
Proof. vm_compute. reflexivity. Qed.
Lemma lnn_etaQ : lnn (lconst etaQ) = true.
Proof. vm_compute. reflexivity. Qed.

Section Lin.
Variables (cap : Q) (M : R).
Hypothesis HM : 0 <= M <= Q2R cap.

Lemma lnn_lmul l1 l2 : lnn l1 = true -> lnn l2 = true -> lnn (lmul cap l1 l2) = true.
Proof.
  intros H1 H2. apply lnn_spec in H1, H2. destruct H1 as (A1 & C1), H2 as (A2 & C2).
  assert (HC : 0 <= Q2R cap) by lra.
  apply lnn_intro; unfold lmul; cbn [fst snd]; rewrite (Qeq_eqR _ _ (Qred_correct _));
  repeat (rewrite ?Q2R_plus, ?Q2R_mult);
  set (a1 := Q2R (fst l1)) in *; set (a2 := Q2R (fst l2)) in *;
  set (c1 := Q2R (snd l1)) in *; set (c2 := Q2R (snd l2)) in *; set (C := Q2R cap) in *.
  - assert (0 <= a1 * a2 * C) by (apply Rmult_le_pos; [apply Rmult_le_pos|]; assumption).
    assert (0 <= a1 * c2) by (apply Rmult_le_pos; assumption).
    assert (0 <= c1 * a2) by (apply Rmult_le_pos; assumption). lra.
  - apply Rmult_le_pos; assumption.
Qed.
Lemma leval_lmul l1 l2 : lnn l1 = true -> lnn l2 = true -> leval M l1 * leval M l2 <= leval M (lmul cap l1 l2).
Proof.
  intros H1 H2. apply lnn_spec in H1, H2. destruct H1 as (A1 & C1), H2 as (A2 & C2).
  unfold leval, lmul. cbn [fst snd]. rewrite 2!(Qeq_eqR _ _ (Qred_correct _)).
  repeat (rewrite ?Q2R_plus, ?Q2R_mult).
  set (a1 := Q2R (fst l1)) in *. set (a2 := Q2R (fst l2)) in *.
  set (c1 := Q2R (snd l1)) in *. set (c2 := Q2R (snd l2)) in *. set (C := Q2R cap) in *.
  assert (H : 0 <= a1 * a2 * M * (C - M)).
  { apply Rmult_le_pos; [apply Rmult_le_pos; [apply Rmult_le_pos|]|]; lra. }
  lra.
Qed.
Lemma leval_ltop l : lnn l = true -> leval M l <= Q2R (ltop cap l).
Proof.
  intros H. apply lnn_spec in H. destruct H as (A & C). unfold leval, ltop. rewrite Q2R_plus, Q2R_mult.
  apply Rplus_le_compat_r. apply Rmult_le_compat_l; lra.
Qed.
End Lin.

(* ---- reified float expression trees ---- *)
Inductive fexpr : Type :=
  | FLeaf (n : nat) | FOfZ (z : Z)
  | FAdd (a b : fexpr) | FSub (a b : fexpr) | FMul (a b : fexpr) | FOpp (a : fexpr) | FAbs (a : fexpr).
Fixpoint evalF (fenv : list float) (e : fexpr) : float :=
  match e with
  | FLeaf n => nth n fenv 0%float
  | FOfZ z => ZtoF z
  | FAdd a b => PrimFloat.add (evalF fenv a) (evalF fenv b)
  | FSub a b => PrimFloat.sub (evalF fenv a) (evalF fenv b)
  | FMul a b => PrimFloat.mul (evalF fenv a) (evalF fenv b)
  | FOpp a => PrimFloat.opp (evalF fenv a)
  | FAbs a => PrimFloat.abs (evalF fenv a)
  end.
Fixpoint evalR (renv : list R) (e : fexpr) : R :=
  match e with
  | FLeaf n => nth n renv 0
  | FOfZ z => IZR z
  | FAdd a b => evalR renv a + evalR renv b
  | FSub a b => evalR renv a - evalR renv b
  | FMul a b => evalR renv a * evalR renv b
  | FOpp a => - evalR renv a
  | FAbs a => Rabs (evalR renv a)
  end.
(* (error bound, magnitude bound) of a node; None when a no-overflow check fails *)
Definition bound_sum (cap : Q) (ea ba eb bb : lin) : option (lin * lin) :=
  let B := ladd (ladd ba ea) (ladd bb eb) in
  if Qle_bool (ltop cap B) fmaxQ
  then Some (ladd (ladd ea eb) (ladd (lmul cap (lconst uQ) B) (lconst etaQ)), ladd ba bb)
  else None.
Definition bound_prod (cap : Q) (ea ba eb bb : lin) : option (lin * lin) :=
  let B := lmul cap (ladd ba ea) (ladd bb eb) in
  if Qle_bool (ltop cap B) fmaxQ
  then Some (ladd (ladd (lmul cap ea (ladd bb eb)) (lmul cap ba eb)) (ladd (lmul cap (lconst uQ) B) (lconst etaQ)),
             lmul cap ba bb)
  else None.
Fixpoint bound (cap : Q) (infos : list (lin * lin)) (e : fexpr) : option (lin * lin) :=
  match e with
  | FLeaf n => nth_error infos n
  | FOfZ z => if Z.ltb (Z.abs z) (2 ^ 53) then Some (lconst 0, lconst (inject_Z (Z.abs z))) else None
  | FAdd a b | FSub a b =>
    match bound cap infos a, bound cap infos b with
    | Some (ea, ba), Some (eb, bb) => bound_sum cap ea ba eb bb
    | _, _ => None
    end
  | FMul a b =>
    match bound cap infos a, bound cap infos b with
    | Some (ea, ba), Some (eb, bb) => bound_prod cap ea ba eb bb
    | _, _ => None
    end
  | FOpp a | FAbs a => bound cap infos a
  end.

(* the leaves: float, the real it approximates, error and magnitude bounds *)
Fixpoint env_ok (M : R) (fenv : list float) (renv : list R) (infos : list (lin * lin)) : Prop :=
  match infos with
  | nil => True
  | (e, b) :: infos' =>
    match fenv, renv with
    | x :: fenv', r :: renv' =>
      (approx x r (leval M e) (leval M b) /\ lnn e = true /\ lnn b = true) /\ env_ok M fenv' renv' infos'
    | _, _ => False
    end
  end.
Lemma env_ok_nth M fenv renv infos n e b :
  env_ok M fenv renv infos -> nth_error infos n = Some (e, b) ->
  approx (nth n fenv 0%float) (nth n renv 0) (leval M e) (leval M b) /\ lnn e = true /\ lnn b = true.
Proof.
  revert fenv renv n. induction infos as [|[e0 b0] infos IH]; intros fenv renv n Hok Hn.
  - destruct n; discriminate.
  - destruct fenv as [|x fenv]; [contradiction|]. destruct renv as [|r renv]; [contradiction|].
    destruct Hok as (H0 & Hok). destruct n as [|n]; simpl in Hn |- *.
    + injection Hn as <- <-. exact H0.
    + apply IH; assumption.
Qed.

Section Sound.
Variables (cap : Q) (M : R).
Hypothesis HM : 0 <= M <= Q2R cap.

Lemma bound_sum_sound x y rx ry ea ba eb bb e b :
  approx x rx (leval M ea) (leval M ba) -> lnn ea = true -> lnn ba = true ->
  approx y ry (leval M eb) (leval M bb) -> lnn eb = true -> lnn bb = true ->
  bound_sum cap ea ba eb bb = Some (e, b) ->
  (approx (x + y)%float (rx + ry) (leval M e) (leval M b) /\
   approx (x - y)%float (rx - ry) (leval M e) (leval M b)) /\ lnn e = true /\ lnn b = true.
Proof.
  intros Hx Nea Nba Hy Neb Nbb. unfold bound_sum.
  set (B := ladd (ladd ba ea) (ladd bb eb)).
  assert (NB : lnn B = true) by (unfold B; auto using lnn_ladd).
  assert (Nu := lnn_uQ).
  destruct (Qle_bool (ltop cap B) fmaxQ) eqn:Hfit; [|discriminate]. intros [= <- <-].
  assert (HB : (leval M ba + leval M ea) + (leval M bb + leval M eb) <= fmax).
  { rewrite <- 3!leval_ladd. fold B. eapply Rle_trans; [apply (leval_ltop cap M HM); exact NB|].
    rewrite <- Q2R_fmaxQ. apply Qle_Rle. now apply Qle_bool_iff. }
  assert (He : (leval M ea + leval M eb) + (u * ((leval M ba + leval M ea) + (leval M bb + leval M eb)) + eta)
               <= leval M (ladd (ladd ea eb) (ladd (lmul cap (lconst uQ) B) (lconst etaQ)))).
  { rewrite 3!leval_ladd, leval_lconst, Q2R_etaQ. apply Rplus_le_compat_l, Rplus_le_compat_r.
    eapply Rle_trans; [|apply (leval_lmul cap M HM); assumption].
    rewrite leval_lconst, Q2R_uQ. unfold B. rewrite 3!leval_ladd. apply Rle_refl. }
  split; [split|split].
  - eapply approx_weaken; [apply approx_add; eassumption | exact He | rewrite leval_ladd; apply Rle_refl].
  - eapply approx_weaken; [apply approx_sub; eassumption | exact He | rewrite leval_ladd; apply Rle_refl].
  - apply lnn_ladd; [apply lnn_ladd; assumption | apply lnn_ladd; [apply (lnn_lmul cap M HM); assumption | exact lnn_etaQ]].
  - apply lnn_ladd; assumption.
Qed.
Lemma bound_prod_sound x y rx ry ea ba eb bb e b :
  approx x rx (leval M ea) (leval M ba) -> lnn ea = true -> lnn ba = true ->
  approx y ry (leval M eb) (leval M bb) -> lnn eb = true -> lnn bb = true ->
  bound_prod cap ea ba eb bb = Some (e, b) ->
  approx (x * y)%float (rx * ry) (leval M e) (leval M b) /\ lnn e = true /\ lnn b = true.
Proof.
  intros Hx Nea Nba Hy Neb Nbb. unfold bound_prod.
  set (B := lmul cap (ladd ba ea) (ladd bb eb)).
  assert (N1 : lnn (ladd ba ea) = true) by auto using lnn_ladd.
  assert (N2 : lnn (ladd bb eb) = true) by auto using lnn_ladd.
  assert (NB : lnn B = true) by (unfold B; apply (lnn_lmul cap M HM); assumption).
  assert (Nu := lnn_uQ).
  destruct (Qle_bool (ltop cap B) fmaxQ) eqn:Hfit; [|discriminate]. intros [= <- <-].
  assert (HB0 : (leval M ba + leval M ea) * (leval M bb + leval M eb) <= leval M B).
  { rewrite <- 2!leval_ladd. apply (leval_lmul cap M HM); assumption. }
  assert (HB : (leval M ba + leval M ea) * (leval M bb + leval M eb) <= fmax).
  { eapply Rle_trans; [exact HB0|]. eapply Rle_trans; [apply (leval_ltop cap M HM); exact NB|].
    rewrite <- Q2R_fmaxQ. apply Qle_Rle. now apply Qle_bool_iff. }
  split; [|split].
  - eapply approx_weaken; [apply approx_mul; eassumption | | apply (leval_lmul cap M HM); assumption].
    rewrite 3!leval_ladd, leval_lconst, Q2R_etaQ.
    apply Rplus_le_compat; [apply Rplus_le_compat | apply Rplus_le_compat_r].
    + rewrite <- leval_ladd. apply (leval_lmul cap M HM); assumption.
    + apply (leval_lmul cap M HM); assumption.
    + eapply Rle_trans; [|apply (leval_lmul cap M HM); assumption].
      rewrite leval_lconst, Q2R_uQ. apply Rmult_le_compat_l; [apply Rlt_le, u_pos | exact HB0].
  - apply lnn_ladd; [apply lnn_ladd; apply (lnn_lmul cap M HM); assumption
                    | apply lnn_ladd; [apply (lnn_lmul cap M HM); assumption | exact lnn_etaQ]].
  - apply (lnn_lmul cap M HM); assumption.
Qed.

Theorem bound_sound fenv renv infos : env_ok M fenv renv infos ->
  forall ast e b, bound cap infos ast = Some (e, b) ->
  approx (evalF fenv ast) (evalR renv ast) (leval M e) (leval M b) /\ lnn e = true /\ lnn b = true.
Proof.
  intros Hok. induction ast as [n|z|a IHa c IHc|a IHa c IHc|a IHa c IHc|a IHa|a IHa]; intros e b Hb; cbn [bound] in Hb.
  - cbn [evalF evalR]. eapply env_ok_nth; eassumption.
  - destruct (Z.ltb (Z.abs z) (2 ^ 53)) eqn:Hz; [|discriminate]. apply Z.ltb_lt in Hz. injection Hb as <- <-. cbn [evalF evalR].
    split; [|split; reflexivity || (apply lnn_lconst; apply Qle_bool_iff; unfold Qle; simpl; lia)].
    rewrite 2!leval_lconst, Q2R_0, Q2R_inject_Z. now apply approx_ofZ.
  - destruct (bound cap infos a) as [[ea ba]|]; [|discriminate]. destruct (bound cap infos c) as [[ec bc]|]; [|discriminate].
    destruct (IHa _ _ eq_refl) as (Ha & Na1 & Na2). destruct (IHc _ _ eq_refl) as (Hc & Nc1 & Nc2).
    destruct (bound_sum_sound _ _ _ _ _ _ _ _ _ _ Ha Na1 Na2 Hc Nc1 Nc2 Hb) as ((H & _) & N). split; assumption.
  - destruct (bound cap infos a) as [[ea ba]|]; [|discriminate]. destruct (bound cap infos c) as [[ec bc]|]; [|discriminate].
    destruct (IHa _ _ eq_refl) as (Ha & Na1 & Na2). destruct (IHc _ _ eq_refl) as (Hc & Nc1 & Nc2).
    destruct (bound_sum_sound _ _ _ _ _ _ _ _ _ _ Ha Na1 Na2 Hc Nc1 Nc2 Hb) as ((_ & H) & N). split; assumption.
  - destruct (bound cap infos a) as [[ea ba]|]; [|discriminate]. destruct (bound cap infos c) as [[ec bc]|]; [|discriminate].
    destruct (IHa _ _ eq_refl) as (Ha & Na1 & Na2). destruct (IHc _ _ eq_refl) as (Hc & Nc1 & Nc2).
    exact (bound_prod_sound _ _ _ _ _ _ _ _ _ _ Ha Na1 Na2 Hc Nc1 Nc2 Hb).
  - destruct (IHa _ _ Hb) as (Ha & N). split; [|exact N]. cbn [evalF evalR]. now apply approx_opp.
  - destruct (IHa _ _ Hb) as (Ha & N). split; [|exact N]. cbn [evalF evalR]. now apply approx_abs.
Qed.

(* the one-shot check used by the tactic: the computed error bound is below the linear form K *)
Definition bound_check (infos : list (lin * lin)) (ast : fexpr) (K : lin) : bool :=
  match bound cap infos ast with Some (e, _) => lle e K | None => false end.
Theorem bound_check_sound fenv renv infos ast K r' :
  env_ok M fenv renv infos -> bound_check infos ast K = true -> evalR renv ast = r' ->
  ffinite (evalF fenv ast) /\ Rabs (FR (evalF fenv ast) - r') <= leval M K.
Proof.
  intros Hok Hc <-. unfold bound_check in Hc. destruct (bound cap infos ast) as [[e b]|] eqn:Hb; [|discriminate].
  destruct (bound_sound _ _ _ Hok _ _ _ Hb) as ((F & He & _) & _). split; [exact F|].
  eapply Rle_trans; [exact He|]. apply lle_leval; [lra | exact Hc].
Qed.
End Sound.

(* K = k1 * u * M + k2 * eta as a linear form *)
Definition lin_u_eta (k1 k2 : Z) : lin := ((inject_Z k1 * uQ)%Q, (inject_Z k2 * etaQ)%Q).
Lemma leval_u_eta M k1 k2 : leval M (lin_u_eta k1 k2) = IZR k1 * u * M + IZR k2 * eta.
Proof. unfold leval, lin_u_eta. cbn [fst snd]. now rewrite 2!Q2R_mult, 2!Q2R_inject_Z, Q2R_uQ, Q2R_etaQ. Qed.

(* leaves in linear form *)
Lemma approx_leaf_M M x : ffinite x -> Rabs (FR x) <= M -> approx x (FR x) (leval M (lconst 0)) (leval M (1%Q, 0%Q)).
Proof.
  intros F H.
  assert (E1 : leval M (lconst 0) = 0) by (rewrite leval_lconst; apply Q2R_0).
  assert (E2 : leval M (1%Q, 0%Q) = M) by (unfold leval; cbn [fst snd]; rewrite Q2R_0; unfold Q2R; simpl; field).
  rewrite E1, E2. apply approx_exact; assumption.
Qed.
Lemma approx_leaf_const M c x : ffinite x -> Rabs (FR x) <= Q2R c -> approx x (FR x) (leval M (lconst 0)) (leval M (lconst c)).
Proof.
  intros F H. rewrite (leval_lconst M 0), (leval_lconst M c), Q2R_0. apply approx_exact; assumption.
Qed.
Lemma env_ok_cons M x r e b fenv renv infos :
  approx x r (leval M e) (leval M b) -> lnn e = true -> lnn b = true -> env_ok M fenv renv infos ->
  env_ok M (x :: fenv) (r :: renv) ((e, b) :: infos).
Proof. intros H1 H2 H3 H4. cbn [env_ok]. exact (conj (conj H1 (conj H2 H3)) H4). Qed.

(* ---- reification ----
   A subterm for which the context has  H : approx x r (leval M e) (leval M b)  is a leaf (also when it is an
   operation: this is how a caller supplies a sharper fact, e.g. for 1 - t); otherwise add/sub/mul/opp/abs/ZtoF. *)
Ltac fe_mem x l :=
  lazymatch l with
  | nil => constr:(false)
  | cons x _ => constr:(true)
  | cons _ ?tl => fe_mem x tl
  end.
Ltac fe_index x l :=
  lazymatch l with
  | cons x _ => constr:(O)
  | cons _ ?tl => let n := fe_index x tl in constr:(S n)
  end.
Ltac fe_is_leaf M x :=
  match goal with
  | _ : approx x _ (leval M _) (leval M _) |- _ => constr:(true)
  | _ => constr:(false)
  end.
Ltac fe_collect M x acc :=
  let lf := fe_is_leaf M x in
  lazymatch lf with
  | true => let m := fe_mem x acc in lazymatch m with true => acc | false => constr:(cons x acc) end
  | false =>
    lazymatch x with
    | PrimFloat.add ?a ?b => let acc1 := fe_collect M a acc in fe_collect M b acc1
    | PrimFloat.sub ?a ?b => let acc1 := fe_collect M a acc in fe_collect M b acc1
    | PrimFloat.mul ?a ?b => let acc1 := fe_collect M a acc in fe_collect M b acc1
    | PrimFloat.opp ?a => fe_collect M a acc
    | PrimFloat.abs ?a => fe_collect M a acc
    | ZtoF _ => acc
    | _ => fail 1000 "fbound: no [approx _ _ (leval M _) (leval M _)] hypothesis for the leaf" x
    end
  end.
Ltac fe_reify M x fenv :=
  let lf := fe_is_leaf M x in
  lazymatch lf with
  | true => let n := fe_index x fenv in constr:(FLeaf n)
  | false =>
    lazymatch x with
    | PrimFloat.add ?a ?b => let ra := fe_reify M a fenv in let rb := fe_reify M b fenv in constr:(FAdd ra rb)
    | PrimFloat.sub ?a ?b => let ra := fe_reify M a fenv in let rb := fe_reify M b fenv in constr:(FSub ra rb)
    | PrimFloat.mul ?a ?b => let ra := fe_reify M a fenv in let rb := fe_reify M b fenv in constr:(FMul ra rb)
    | PrimFloat.opp ?a => let ra := fe_reify M a fenv in constr:(FOpp ra)
    | PrimFloat.abs ?a => let ra := fe_reify M a fenv in constr:(FAbs ra)
    | ZtoF ?z => constr:(FOfZ z)
    end
  end.
Ltac fe_envs M fenv :=
  lazymatch fenv with
  | nil => constr:((@nil R, @nil (lin * lin)))
  | cons ?x ?tl =>
    let rest := fe_envs M tl in
    lazymatch rest with
    | (?rs, ?is) =>
      match goal with
      | _ : approx x ?r (leval M ?e) (leval M ?b) |- _ => constr:((cons r rs, cons (e, b) is))
      end
    end
  end.
(* Goal:  ffinite T /\ Rabs (FR T - r') <= leval M K   with  HM : 0 <= M <= Q2R cap  *)
Ltac fbound cap M HM :=
  lazymatch goal with
  | |- ffinite ?T /\ Rabs (FR ?T - ?r') <= leval M ?K =>
    let fenv := fe_collect M T (@nil float) in
    let ast := fe_reify M T fenv in
    let ri := fe_envs M fenv in
    lazymatch ri with
    | (?renv, ?infos) =>
      change (ffinite (evalF fenv ast) /\ Rabs (FR (evalF fenv ast) - r') <= leval M K);
      apply (bound_check_sound cap M HM fenv renv infos ast K r');
      [ repeat (apply env_ok_cons; [eassumption | vm_compute; reflexivity | vm_compute; reflexivity | ]); exact I
      | first [ vm_compute; reflexivity
              | fail 1 "fbound: the computed error bound exceeds the requested one, or a no-overflow check failed" ]
      | cbv [evalR nth]; first [reflexivity | ring] ]
    end
  | |- ?g => fail "fbound: goal is not of the form  ffinite T /\ Rabs (FR T - r) <= leval M K"
  end.
(* the computed bounds themselves, for inspection:  fbound_show cap M T  prints  Some (error, magnitude) *)
Ltac fbound_show cap M T :=
  let fenv := fe_collect M T (@nil float) in
  let ast := fe_reify M T fenv in
  let ri := fe_envs M fenv in
  lazymatch ri with
  | (?renv, ?infos) => let v := eval vm_compute in (bound cap infos ast) in idtac v
  end.

(* a sanity example of the reflective procedure: (a * b + 3) * c with |a|,|b| <= 10 and |c| <= M <= 2^900 *)
Example fbound_demo M a b c :
  0 <= M <= Q2R (inject_Z (2 ^ 900)) ->
  ffinite a -> ffinite b -> ffinite c -> Rabs (FR a) <= Q2R 10 -> Rabs (FR b) <= Q2R 10 -> Rabs (FR c) <= M ->
  ffinite (mul FOps (add FOps (mul FOps a b) (ofZ FOps 3)) c) /\
  Rabs (FR (mul FOps (add FOps (mul FOps a b) (ofZ FOps 3)) c) - (FR a * FR b + 3) * FR c) <= 308 * u * M + 1 * eta.
Proof.
  intros HM Fa Fb Fc Ha Hb Hc.
  pose proof (approx_leaf_const M 10 a Fa Ha). pose proof (approx_leaf_const M 10 b Fb Hb).
  pose proof (approx_leaf_M M c Fc Hc).
  fops_unfold. rewrite <- (leval_u_eta M 308 1). fbound (inject_Z (2 ^ 900)) M HM.
Qed.

(* addition and subtraction of two floats never lose to underflow: the error is purely relative.
   (The [approx] lemmas above keep the uniform two-term model; this sharper fact is here for callers that need it.) *)
Lemma rnd_error_sum x y : generic_format radix2 b64_exp x -> generic_format radix2 b64_exp y ->
  Rabs (rnd (x + y) - (x + y)) <= u * Rabs (x + y).
Proof.
  intros Fx Fy.
  destruct (@Plus_error.FLT_plus_error_N_ex radix2 (-1074) 53 (eq_refl Lt) (fun n => negb (Z.even n)) x y Fx Fy) as (eps & He & Hr).
  change (round radix2 (FLT_exp (-1074) 53) (Znearest (fun n => negb (Z.even n))) (x + y)) with (rnd (x + y)) in Hr.
  assert (Hu : Rabs eps <= u).
  { eapply Rle_trans; [exact He|]. eapply Rle_trans; [apply u_rod1pu_ro_le_u_ro|].
    change (u_ro radix2 53) with (/ 2 * bpow radix2 (-52)). rewrite bpow_half_u. apply Rle_refl. }
  rewrite Hr. replace ((x + y) * (1 + eps) - (x + y)) with ((x + y) * eps) by ring.
  rewrite Rabs_mult, Rmult_comm. apply Rmult_le_compat_r; [apply Rabs_pos | exact Hu].
Qed.
Lemma Fadd_error_rel x y : ffinite x -> ffinite y -> Rabs (FR x + FR y) <= fmax ->
  Rabs (FR (x + y)%float - (FR x + FR y)) <= u * Rabs (FR x + FR y).
Proof.
  intros Fx Fy H. destruct (Fadd_correct x y Fx Fy H) as (_ & ->). apply rnd_error_sum; apply FR_format.
Qed.
Lemma Fsub_error_rel x y : ffinite x -> ffinite y -> Rabs (FR x - FR y) <= fmax ->
  Rabs (FR (x - y)%float - (FR x - FR y)) <= u * Rabs (FR x - FR y).
Proof.
  intros Fx Fy H. destruct (Fsub_correct x y Fx Fy H) as (_ & ->). unfold Rminus.
  apply rnd_error_sum; [apply FR_format | apply generic_format_opp, FR_format].
Qed.
