(* C19 -- Bounding-box predicates and the sweep pairing match their definitions.
   Statements only; every proof is [exact <lemma of Proofs/C19.v>].  BBox_includes / BBox_overlaps are regenerated
   from /repo on every run (ROps instance); bbox_intersections (Hand/Sweep.v) is the hand-written model of
   utils/linesweep.py (events, stable sort on the key, the two active deques, dequefilter), tied to the code by the
   correspondence check; shapes are identified by their index (Python: distinct objects compare unequal).
   [tie_free A B] is the property's quantifier condition: every (a,b) in A x B either overlaps in an x-interval of
   positive length or is disjoint in x.  Proved: the two predicates are exactly the closed-range definitions (also
   for degenerate boxes), overlap is symmetric; under tie_free the sweep output, read as unordered (A-index,B-index)
   pairs, is a permutation of ALL overlapping pairs, hence each exactly once; soundness and no-duplicates hold with
   no hypothesis at all; the exact condition for completeness is [no_bad_tie] (iff), and without any tie condition
   the statement is false (witness kept as ..._refuted: an A box ending exactly where a B box starts). *)

From Coq Require Import PrimFloat.
From Coq Require Import ZArith List Bool Reals Lra Permutation.
From Coquelicot Require Import Coquelicot.
From BZ Require Import Base.Ops Gen.Point Gen.BBox Hand.Sweep Proofs.C19 Proofs.C19float Base.FloatCmp.
From BZ Require Gen.Sample Gen.Sweep Proofs.Bridge3.
Import ListNotations.
From BZ Require Proofs.Transfer3.
Open Scope R_scope.

Theorem C19_includes_iff :
  forall (b : bbox R) (p : pt R), BBox_includes ROps b p = true <-> (px (bl b) <= px p <= px (tr b) /\ py (bl b) <= py p <= py (tr b)).
Proof. exact includes_iff. Qed.
Theorem C19_overlaps_iff :
  forall (a b : bbox R), BBox_overlaps ROps a b = true <-> ((px (bl a) <= px (tr b) /\ px (bl b) <= px (tr a)) /\ (py (bl a) <= py (tr b) /\ py (bl b) <= py (tr a))).
Proof. exact overlaps_iff. Qed.
Theorem C19_overlaps_sym :
  forall (a b : bbox R), BBox_overlaps ROps a b = BBox_overlaps ROps b a.
Proof. exact overlaps_sym. Qed.
Theorem C19_overlaps_iff_common_point :
  forall (a b : bbox R), px (bl a) <= px (tr a) -> py (bl a) <= py (tr a) -> px (bl b) <= px (tr b) -> py (bl b) <= py (tr b) -> (BBox_overlaps ROps a b = true <-> exists p, BBox_includes ROps a p = true /\ BBox_includes ROps b p = true).
Proof. exact overlaps_iff_common_point. Qed.
Theorem C19_sweep_eq_all_pairs :
  forall (A B : list (bbox R)), wf_boxes A -> wf_boxes B -> tie_free A B -> Permutation (map as_ab (bbox_intersections ROps A B)) (all_overlapping_pairs A B).
Proof. exact sweep_eq_all_pairs. Qed.
Theorem C19_sweep_no_duplicates :
  forall (A B : list (bbox R)), wf_boxes A -> wf_boxes B -> tie_free A B -> NoDup (map as_ab (bbox_intersections ROps A B)).
Proof. exact sweep_no_duplicates. Qed.
Theorem C19_sweep_sound_complete :
  forall (A B : list (bbox R)), wf_boxes A -> wf_boxes B -> tie_free A B -> forall i j, In (i, j) (map as_ab (bbox_intersections ROps A B)) <-> ((i < length A)%nat /\ (j < length B)%nat /\ BBox_overlaps ROps (nth i A dbox) (nth j B dbox) = true).
Proof. exact sweep_sound_complete. Qed.
Theorem C19_sweep_sound :
  forall A B a b, In (a, b) (map as_ab (bbox_intersections ROps A B)) -> (a < length A)%nat /\ (b < length B)%nat /\ BBox_overlaps ROps (nth a A dbox) (nth b B dbox) = true.
Proof. exact sweep_sound. Qed.
Theorem C19_sweep_nodup :
  forall A B, NoDup (map as_ab (bbox_intersections ROps A B)).
Proof. exact sweep_nodup. Qed.
Theorem C19_sweep_eq_all_pairs_iff :
  forall (A B : list (bbox R)), Permutation (map as_ab (bbox_intersections ROps A B)) (all_overlapping_pairs A B) <-> no_bad_tie A B.
Proof. exact sweep_eq_all_pairs_iff. Qed.
Theorem C19_tie_free_no_bad_tie :
  forall A B, tie_free A B -> no_bad_tie A B.
Proof. exact tie_free_no_bad_tie. Qed.
Theorem C19_sweep_eq_all_pairs_without_tie_free_refuted :
  exists A B, wf_boxes A /\ wf_boxes B /\ ~ Permutation (map as_ab (bbox_intersections ROps A B)) (all_overlapping_pairs A B).
Proof. exact sweep_eq_all_pairs_without_tie_free_refuted. Qed.
Theorem C19_includes_zero_width :
  BBox_includes ROps (BB (P 1 0) (P 1 2)) (P 1 1) = true.
Proof. exact includes_zero_width. Qed.
Theorem C19_overlaps_shared_corner :
  BBox_overlaps ROps (BB (P 0 0) (P 1 1)) (BB (P 1 1) (P 2 2)) = true.
Proof. exact overlaps_shared_corner. Qed.
Theorem C19_sweep_example :
  bbox_intersections ROps exA exB = [(false, 0%nat, 0%nat)].
Proof. exact sweep_example. Qed.
Theorem C19_sweep_example_tie_free :
  tie_free exA exB.
Proof. exact sweep_example_tie_free. Qed.
Theorem C19_sweep_example_thm :
  Permutation (map as_ab (bbox_intersections ROps exA exB)) [(0%nat, 0%nat)].
Proof. exact sweep_example_thm. Qed.
Theorem C19_includes_float_eq_real :
  forall (b : bbox float) (p : pt float), bbox_finite b -> pt_finite p -> BBox_includes FOps b p = BBox_includes ROps (bboxR b) (ptR p).
Proof. exact includes_float_eq_real. Qed.
Theorem C19_overlaps_float_eq_real :
  forall (a b : bbox float), bbox_finite a -> bbox_finite b -> BBox_overlaps FOps a b = BBox_overlaps ROps (bboxR a) (bboxR b).
Proof. exact overlaps_float_eq_real. Qed.
Theorem C19_sweep_float_eq_real :
  forall (A B : list (bbox float)), List.Forall bbox_finite A -> List.Forall bbox_finite B -> bbox_intersections FOps A B = bbox_intersections ROps (map bboxR A) (map bboxR B).
Proof. exact sweep_float_eq_real. Qed.
Theorem C19_includes_float_iff :
  forall (b : bbox float) (p : pt float), bbox_finite b -> pt_finite p -> (BBox_includes FOps b p = true <-> (FR (px (bl b)) <= FR (px p) <= FR (px (tr b)) /\ FR (py (bl b)) <= FR (py p) <= FR (py (tr b)))).
Proof. exact includes_float_iff. Qed.
Theorem C19_overlaps_float_iff :
  forall (a b : bbox float), bbox_finite a -> bbox_finite b -> (BBox_overlaps FOps a b = true <-> ((FR (px (bl a)) <= FR (px (tr b)) /\ FR (px (bl b)) <= FR (px (tr a))) /\ (FR (py (bl a)) <= FR (py (tr b)) /\ FR (py (bl b)) <= FR (py (tr a))))).
Proof. exact overlaps_float_iff. Qed.
Theorem C19_overlaps_float_sym :
  forall (a b : bbox float), bbox_finite a -> bbox_finite b -> BBox_overlaps FOps a b = BBox_overlaps FOps b a.
Proof. exact overlaps_float_sym. Qed.
Theorem C19_sweep_float_eq_all_pairs :
  forall (A B : list (bbox float)), List.Forall bbox_finite A -> List.Forall bbox_finite B -> wf_boxesF A -> wf_boxesF B -> tie_freeF A B -> Permutation (map as_ab (bbox_intersections FOps A B)) (all_overlapping_pairsF A B).
Proof. exact sweep_float_eq_all_pairs. Qed.
Theorem C19_sweep_float_sound_complete :
  forall (A B : list (bbox float)), List.Forall bbox_finite A -> List.Forall bbox_finite B -> wf_boxesF A -> wf_boxesF B -> tie_freeF A B -> forall i j, In (i, j) (map as_ab (bbox_intersections FOps A B)) <-> ((i < length A)%nat /\ (j < length B)%nat /\ BBox_overlaps FOps (nth i A dboxF) (nth j B dboxF) = true).
Proof. exact sweep_float_sound_complete. Qed.
Theorem C19_sweep_float_no_duplicates :
  forall (A B : list (bbox float)), List.Forall bbox_finite A -> List.Forall bbox_finite B -> NoDup (map as_ab (bbox_intersections FOps A B)).
Proof. exact sweep_float_no_duplicates. Qed.
Theorem C19_sweep_float_eq_all_pairs_iff :
  forall (A B : list (bbox float)), List.Forall bbox_finite A -> List.Forall bbox_finite B -> (Permutation (map as_ab (bbox_intersections FOps A B)) (all_overlapping_pairsF A B) <-> no_bad_tieF A B).
Proof. exact sweep_float_eq_all_pairs_iff. Qed.
Theorem C19_includes_needs_finite :
  exists (b : bbox float) (p : pt float), bbox_finite b /\ ~ pt_finite p /\ BBox_includes FOps b p = false /\ BBox_includes ROps (bboxR b) (ptR p) = true.
Proof. exact includes_needs_finite. Qed.
Theorem C19_overlaps_nan_true_computed :
  BBox_overlaps FOps (BB (P 0%float 0%float) (P PrimFloat.nan 1%float)) (BB (P 5%float 0%float) (P 6%float 1%float)) = true.
Proof. exact overlaps_nan_true_computed. Qed.
Theorem C19_sweep_float_example_thm :
  Permutation (map as_ab (bbox_intersections FOps exAF exBF)) (all_overlapping_pairsF exAF exBF).
Proof. exact sweep_float_example_thm. Qed.
(* the sweep of the hand model IS the one regenerated from utils/linesweep.py (closures, sorted(key=...), deques; Proofs/Bridge3.v): the regenerated
   function never raises and reports the same index pairs in the same order, for every scalar carrier *)
Theorem C19_sweep_is_generated :
  forall (T : Type) (O : Ops T) (A B : list (bbox T)), exists r, Gen.Sweep.linesweep_bbox_intersections O (Bridge3.index_shapes A) (Bridge3.index_shapes B) = Gen.Sample.Returns r /\ map (fun p : Gen.Sweep.shape T * Gen.Sweep.shape T => (fst (fst p), fst (snd p))) r = map (fun q : bool * nat * nat => (snd (fst q), snd q)) (bbox_intersections O A B).
Proof. exact @Bridge3.bbox_intersections_gen_hand. Qed.
Theorem C19_gen_sweep_never_raises :
  forall (T : Type) (O : Ops T) (A B : list (bbox T)), exists r : list (Sweep.shape T * Sweep.shape T), Sweep.linesweep_bbox_intersections O (Bridge3.index_shapes A) (Bridge3.index_shapes B) = Sample.Returns r.
Proof. exact @Transfer3.C19T.gen_sweep_never_raises. Qed.
Theorem C19_gen_sweep_sound_nodup :
  forall (A B : list (bbox R)) (r : list (Sweep.shape R * Sweep.shape R)), Sweep.linesweep_bbox_intersections ROps (Bridge3.index_shapes A) (Bridge3.index_shapes B) = Sample.Returns r -> exists fl : list bool, length fl = length r /\ NoDup (Transfer3.C19T.oriented fl r) /\ (forall i j : nat, In (i, j) (Transfer3.C19T.oriented fl r) -> Transfer3.C19T.sound_pair A B i j).
Proof. exact @Transfer3.C19T.gen_sweep_sound_nodup. Qed.
Theorem C19_gen_sweep_eq_all_pairs_weak :
  forall (A B : list (bbox R)) (r : list (Sweep.shape R * Sweep.shape R)), no_bad_tie A B -> Sweep.linesweep_bbox_intersections ROps (Bridge3.index_shapes A) (Bridge3.index_shapes B) = Sample.Returns r -> exists fl : list bool, length fl = length r /\ Permutation (Transfer3.C19T.oriented fl r) (all_overlapping_pairs A B).
Proof. exact @Transfer3.C19T.gen_sweep_eq_all_pairs_weak. Qed.
Theorem C19_gen_sweep_eq_all_pairs :
  forall (A B : list (bbox R)) (r : list (Sweep.shape R * Sweep.shape R)), wf_boxes A -> wf_boxes B -> tie_free A B -> Sweep.linesweep_bbox_intersections ROps (Bridge3.index_shapes A) (Bridge3.index_shapes B) = Sample.Returns r -> exists fl : list bool, length fl = length r /\ Permutation (Transfer3.C19T.oriented fl r) (all_overlapping_pairs A B) /\ NoDup (Transfer3.C19T.oriented fl r) /\ (forall i j : nat, In (i, j) (Transfer3.C19T.oriented fl r) <-> Transfer3.C19T.sound_pair A B i j).
Proof. exact @Transfer3.C19T.gen_sweep_eq_all_pairs. Qed.
Theorem C19_gen_sweep_unordered :
  forall (A B : list (bbox R)) (r : list (Sweep.shape R * Sweep.shape R)), wf_boxes A -> wf_boxes B -> tie_free A B -> Sweep.linesweep_bbox_intersections ROps (Bridge3.index_shapes A) (Bridge3.index_shapes B) = Sample.Returns r -> length r = length (all_overlapping_pairs A B) /\ (forall i j : nat, In (i, j) (map Transfer3.C19T.gen_ids r) -> Transfer3.C19T.sound_pair A B i j \/ Transfer3.C19T.sound_pair A B j i) /\ (forall i j : nat, Transfer3.C19T.sound_pair A B i j -> In (i, j) (map Transfer3.C19T.gen_ids r) \/ In (j, i) (map Transfer3.C19T.gen_ids r)).
Proof. exact @Transfer3.C19T.gen_sweep_unordered. Qed.
Theorem C19_gen_sweep_float_eq_all_pairs :
  forall (A B : list (bbox float)) (r : list (Sweep.shape float * Sweep.shape float)), List.Forall bbox_finite A -> List.Forall bbox_finite B -> wf_boxesF A -> wf_boxesF B -> tie_freeF A B -> Sweep.linesweep_bbox_intersections FOps (Bridge3.index_shapes A) (Bridge3.index_shapes B) = Sample.Returns r -> exists fl : list bool, length fl = length r /\ Permutation (Transfer3.C19T.oriented fl r) (all_overlapping_pairsF A B) /\ NoDup (Transfer3.C19T.oriented fl r) /\ (forall i j : nat, In (i, j) (Transfer3.C19T.oriented fl r) <-> (i < length A)%nat /\ (j < length B)%nat /\ BBox_overlaps FOps (nth i A dboxF) (nth j B dboxF) = true).
Proof. exact @Transfer3.C19T.gen_sweep_float_eq_all_pairs. Qed.

Print Assumptions C19_includes_iff.
Print Assumptions C19_overlaps_iff.
Print Assumptions C19_overlaps_sym.
Print Assumptions C19_overlaps_iff_common_point.
Print Assumptions C19_sweep_eq_all_pairs.
Print Assumptions C19_sweep_no_duplicates.
Print Assumptions C19_sweep_sound_complete.
Print Assumptions C19_sweep_sound.
Print Assumptions C19_sweep_nodup.
Print Assumptions C19_sweep_eq_all_pairs_iff.
Print Assumptions C19_tie_free_no_bad_tie.
Print Assumptions C19_sweep_eq_all_pairs_without_tie_free_refuted.
Print Assumptions C19_includes_zero_width.
Print Assumptions C19_overlaps_shared_corner.
Print Assumptions C19_sweep_example.
Print Assumptions C19_sweep_example_tie_free.
Print Assumptions C19_sweep_example_thm.
Print Assumptions C19_includes_float_eq_real.
Print Assumptions C19_overlaps_float_eq_real.
Print Assumptions C19_sweep_float_eq_real.
Print Assumptions C19_includes_float_iff.
Print Assumptions C19_overlaps_float_iff.
Print Assumptions C19_overlaps_float_sym.
Print Assumptions C19_sweep_float_eq_all_pairs.
Print Assumptions C19_sweep_float_sound_complete.
Print Assumptions C19_sweep_float_no_duplicates.
Print Assumptions C19_sweep_float_eq_all_pairs_iff.
Print Assumptions C19_includes_needs_finite.
Print Assumptions C19_overlaps_nan_true_computed.
Print Assumptions C19_sweep_float_example_thm.
Print Assumptions C19_sweep_is_generated.
Print Assumptions C19_gen_sweep_never_raises.
Print Assumptions C19_gen_sweep_sound_nodup.
Print Assumptions C19_gen_sweep_eq_all_pairs_weak.
Print Assumptions C19_gen_sweep_eq_all_pairs.
Print Assumptions C19_gen_sweep_unordered.
Print Assumptions C19_gen_sweep_float_eq_all_pairs.
