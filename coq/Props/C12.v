(* C12 -- Polygon-mode Boolean operations have exact region semantics.
   Statements only; every proof is [exact <lemma of Proofs/C12.v>].
   MODEL.  Hand/Clip.v is the hand-written, executable, value-level model of the GLUE around pyclipper in
   utils/booleanoperationsmixin.py (clip / union / intersection / difference): clone, BezierPath.splitAtPoints (cluster,
   sorted, pop/remap walk, exceptions as values), Line.flatten and the _orig back pointers, the LUT, scaling by 100.0 and
   int() truncation, the AddPath roles, Execute, the reconstruction loop with the closing pair, the flat switch, the
   duplicate suppression, the fallback Line, the removal of a last segment equal to the first (commit d254ad7),
   fromSegments(closed=True).  Point arithmetic, Point.__eq__, Point.rounded,
   Segment.reversed and splitAtTime are the GENERATED definitions (Gen/*.v, regenerated from /repo on every run).
   EXTERN / ORACLES (section variables, never axioms): [clipper] = pyclipper.Pyclipper.Execute (None = ClipperException),
   [flatten2] = Segment.flatten(2) of curved pieces, and the split lists (from Segment.intersections) are inputs.  The
   model is tied to the code by the correspondence: a recording proxy for pyclipper (and recorders on splitAtPoints and
   flatten) captures one real run; the float instance of the model, fed the recorded oracles, must reproduce bit for
   bit the pieces after splitAtPoints, the two integer polygons handed to Clipper and the result paths.
   PROVED, for every input and every value of the oracles:
   * clip_inputs_are_flattened_outlines, selectors_roles, selectors_ops: Clipper is called once; its only SUBJECT polygon
     is the list of int(100.0 * start point) of the flattened edges of the pre-split RECEIVER, its only CLIP polygon the
     same for the ARGUMENT; union/intersection/difference pass CT_UNION/CT_INTERSECTION/CT_DIFFERENCE.
   * result_paths_closed_connected_complete: with flat=True, when preparation succeeds and Clipper answers with polygons
     that are non-empty, have coordinates below 10^9 and a first vertex different from the second (premise
     clipper_poly_ok: Clipper's polygons have no repeated consecutive vertices; needed since commit d254ad7 removes a
     last segment that Segment.__eq__-equals the first -- pop_degenerate_polygon shows the faithful model DOES drop an
     edge of a degenerate all-equal "polygon"), the call returns, for each polygon of n vertices, in order, one path
     flagged closed consisting of exactly n Lines, edge i running from vertex i to vertex (i+1) mod n (the closing edge
     included), coordinates divided by 100.0; consecutive edges share their end points exactly and the last returns
     exactly to the first start.  An empty polygon is IndexError (rebuild_empty_polygon_raises), not a normal result.
   * region_semantics (and region_semantics_all): PREMISES clipper_poly_ok and clipper_spec = Clipper's documented
     even-odd semantics for the call made (at every real point farther than delta from all edges of the two integer polygons, membership in
     the even-odd interior of the returned polygons is op(membership in subject, membership in clip)).  CONCLUSION: at
     every such point q the combined even-odd interior of the RESULT PATHS at q/100 is op of the even-odd interiors of
     the two integer polygons at q -- i.e. of the truncated, scaled, flattened chains of receiver and argument.
   * inputs_unmodified: in the model's store of path variables, self and other hold their old values after the call;
     only the two clones are rebound, and only to the result of splitAtPoints on them.
   * clipper_spec_self, clipper_spec_xor, ex_prepare, ex_clip, ex_far: the premises are jointly satisfiable.
   Definitions used in the statements: clipper_t, flatten_t, flat_edges, start_scaled_trunc, zR, unscale, poly_edges,
   poly_path, crossesb/eo_edges/cyc/eo_poly/eo_polys/eo_paths (even-odd membership by the half-open crossing rule), far,
   bop, clipper_spec, small, clipper_poly_ok: Proofs/C12.v sections 1-3; closed_chain: Hand/Shoelace.v; R_toZ and
   R_truncZ: Hand/Clip.v.
   NOT covered by a theorem (see tools/props/C12.py NOT_PROVED; all watched by the search on the real code):
   Clipper itself; the 2-unit flattening deviation, hence the step from the flattened chains to the true curved
   outlines; the two area identities; object-level non-interference (no input Segment/Point object is written or
   shared with a result: rests on BezierPath.clone cloning every segment, C07). *)

From Coq Require Import PrimFloat.
From Coq Require Import ZArith List Bool Reals Lra Permutation Sorted.
From BZ Require Import Base.Ops Proofs.Tactics Gen.Point Gen.Line Gen.Quad Gen.Cubic Hand.Shoelace Hand.Clip Proofs.C12.
Import ListNotations.
From BZ Require Proofs.Transfer6clip.
From BZ Require Gen.Sample Gen.Clip Proofs.Bridge6.
Open Scope R_scope.

Theorem C12_clip_inputs_are_flattened_outlines :
  forall (flatten2 : flatten_t) self other sl1 sl2 st subj clp l, prepare ROps R_toZ flatten2 self other sl1 sl2 = (st, Ok (subj, clp, l)) -> exists p1 p2 f1 f2, splitAtPoints ROps self sl1 = Ok p1 /\ splitAtPoints ROps other sl2 = Ok p2 /\ flat_edges flatten2 p1 = Some f1 /\ flat_edges flatten2 p2 = Some f2 /\ subj = map start_scaled_trunc f1 /\ clp = map start_scaled_trunc f2.
Proof. exact clip_inputs_are_flattened_outlines. Qed.
Theorem C12_selectors_roles :
  forall (clipper : clipper_t) (flatten2 : flatten_t) self other sl1 sl2 st subj clp l, prepare ROps R_toZ flatten2 self other sl1 sl2 = (st, Ok (subj, clp, l)) -> forall ct flat, clip ROps R_toZ clipper flatten2 self other sl1 sl2 ct flat = match clipper ct [subj] [clp] with None => Raise EClipper | Some polys => rebuild ROps flat l polys end.
Proof. exact selectors_roles. Qed.
Theorem C12_selectors_ops :
  forall (clipper : clipper_t) (flatten2 : flatten_t) self other sl1 sl2 flat, union_ ROps R_toZ clipper flatten2 self other sl1 sl2 flat = clip ROps R_toZ clipper flatten2 self other sl1 sl2 CT_UNION flat /\ intersection_ ROps R_toZ clipper flatten2 self other sl1 sl2 flat = clip ROps R_toZ clipper flatten2 self other sl1 sl2 CT_INTERSECTION flat /\ difference_ ROps R_toZ clipper flatten2 self other sl1 sl2 flat = clip ROps R_toZ clipper flatten2 self other sl1 sl2 CT_DIFFERENCE flat.
Proof. exact selectors_ops. Qed.
Theorem C12_result_paths_closed_connected_complete :
  forall (clipper : clipper_t) (flatten2 : flatten_t) self other sl1 sl2 ct st subj clp l polys, prepare ROps R_toZ flatten2 self other sl1 sl2 = (st, Ok (subj, clp, l)) -> clipper ct [subj] [clp] = Some polys -> Forall clipper_poly_ok polys -> clip ROps R_toZ clipper flatten2 self other sl1 sl2 ct true = Ok (map poly_path polys) /\ Forall (fun p => snd (poly_path p) = true /\ fst (poly_path p) = map SLine (poly_edges p) /\ length (poly_edges p) = length p /\ closed_chain (poly_edges p) /\ forall d i, (i < length p)%nat -> nth i (poly_edges p) (L2 (unscale (zR d)) (unscale (zR d))) = L2 (unscale (zR (nth i p d))) (unscale (zR (nth (S i mod length p) p d)))) polys.
Proof. exact result_paths_closed_connected_complete. Qed.
Theorem C12_rebuild_empty_polygon_raises :
  forall flat l r, rebuild ROps flat l ([] :: r) = Raise EIndex.
Proof. exact rebuild_empty_polygon_raises. Qed.
Theorem C12_pop_degenerate_polygon :
  forall l, rebuild_poly ROps true l [(0, 0); (0, 0); (0, 0)]%Z = Ok (removelast (map SLine (poly_edges [(0, 0); (0, 0); (0, 0)]%Z)), true).
Proof. exact pop_degenerate_polygon. Qed.
Theorem C12_region_semantics :
  forall (clipper : clipper_t) (flatten2 : flatten_t) delta self other sl1 sl2 ct st subj clp l polys, prepare ROps R_toZ flatten2 self other sl1 sl2 = (st, Ok (subj, clp, l)) -> clipper ct [subj] [clp] = Some polys -> Forall clipper_poly_ok polys -> clipper_spec delta ct subj clp polys -> exists paths, clip ROps R_toZ clipper flatten2 self other sl1 sl2 ct true = Ok paths /\ forall q, far delta q (cyc (map zR subj) ++ cyc (map zR clp)) -> eo_paths paths (Point___truediv__ ROps q (precision ROps)) = bop ct (eo_poly (map zR subj) q) (eo_poly (map zR clp) q).
Proof. exact region_semantics. Qed.
Theorem C12_region_semantics_all :
  forall (clipper : clipper_t) (flatten2 : flatten_t) delta, (forall ct s c polys, clipper ct [s] [c] = Some polys -> Forall clipper_poly_ok polys /\ clipper_spec delta ct s c polys) -> forall self other sl1 sl2 ct st subj clp l paths, prepare ROps R_toZ flatten2 self other sl1 sl2 = (st, Ok (subj, clp, l)) -> clip ROps R_toZ clipper flatten2 self other sl1 sl2 ct true = Ok paths -> forall q, far delta q (cyc (map zR subj) ++ cyc (map zR clp)) -> eo_paths paths (Point___truediv__ ROps q (precision ROps)) = bop ct (eo_poly (map zR subj) q) (eo_poly (map zR clp) q).
Proof. exact region_semantics_all. Qed.
Theorem C12_inputs_unmodified :
  forall (clipper : clipper_t) (flatten2 : flatten_t) self other sl1 sl2 ct flat, let st := fst (clip_run ROps R_toZ clipper flatten2 self other sl1 sl2 ct flat) in st_self st = self /\ st_other st = other /\ (st_cloned st = self \/ splitAtPoints ROps self sl1 = Ok (st_cloned st)) /\ (st_clipclone st = other \/ splitAtPoints ROps other sl2 = Ok (st_clipclone st)).
Proof. exact inputs_unmodified. Qed.
Theorem C12_clipper_spec_self :
  forall delta s, clipper_spec delta CT_INTERSECTION s s [s] /\ clipper_spec delta CT_UNION s s [s].
Proof. exact clipper_spec_self. Qed.
Theorem C12_clipper_spec_xor :
  forall delta s c, clipper_spec delta CT_XOR s c [s; c].
Proof. exact clipper_spec_xor. Qed.
Theorem C12_ex_prepare :
  exists st l, prepare ROps R_toZ (fun _ => None) ex_square ex_square [] [] = (st, Ok (ex_poly, ex_poly, l)).
Proof. exact ex_prepare. Qed.
Theorem C12_ex_clip :
  clip ROps R_toZ ex_clipper (fun _ => None) ex_square ex_square [] [] CT_INTERSECTION true = Ok [poly_path ex_poly] /\ Forall clipper_poly_ok [ex_poly] /\ clipper_spec 0 CT_INTERSECTION ex_poly ex_poly [ex_poly].
Proof. exact ex_clip. Qed.
Theorem C12_ex_far :
  far 40 (P 50 50) (cyc (map zR ex_poly) ++ cyc (map zR ex_poly)).
Proof. exact ex_far. Qed.
Theorem C12_clip_tail_gen :
  forall (T : Type) (O : Ops T) (toZ : T -> option Z) (gclipper : Clip.clip_type -> list (list (Z * Z)) -> list (list (Z * Z)) -> option (list (list (Z * Z)))) (hclipper : cliptype -> list zpoly -> list zpoly -> option (list zpoly)) (flatten2 : segment T -> option (list (seg2 T))), (forall a b : T, eqb O a b = eqb O b a) -> (forall a b c : T, eqb O a b = true -> eqb O b c = true -> eqb O a c = true) -> (forall p q : pt T, eqb O (px p) (px q) = true -> eqb O (py p) (py q) = true -> Point___eq__ O p q = true) -> (forall (ct : Clip.clip_type) (s c : list zpoly), hclipper (Bridge6.ClipBridge.ct_of ct) s c = gclipper ct s c) -> forall (fuel : nat) (pieces1 pieces2 : list (segment T)) (ct : Clip.clip_type) (flat : bool), Forall (Bridge6.ClipBridge.flat_ok O flatten2 fuel) pieces1 -> Forall (Bridge6.ClipBridge.flat_ok O flatten2 fuel) pieces2 -> Bridge6.ClipBridge.g_tail O toZ gclipper fuel pieces1 pieces2 ct flat = Bridge6.ClipBridge.embed (Bridge6.ClipBridge.hand_tail O toZ hclipper flatten2 pieces1 pieces2 (Bridge6.ClipBridge.ct_of ct) flat).
Proof. exact @Bridge6.ClipBridge.clip_tail_gen. Qed.
Theorem C12_clip_gen :
  forall (T : Type) (O : Ops T) (toZ : T -> option Z) (gclipper : Clip.clip_type -> list (list (Z * Z)) -> list (list (Z * Z)) -> option (list (list (Z * Z)))) (hclipper : cliptype -> list zpoly -> list zpoly -> option (list zpoly)) (flatten2 : segment T -> option (list (seg2 T))), (forall a b : T, eqb O a b = eqb O b a) -> (forall a b c : T, eqb O a b = true -> eqb O b c = true -> eqb O a c = true) -> (forall p q : pt T, eqb O (px p) (px q) = true -> eqb O (py p) (py q) = true -> Point___eq__ O p q = true) -> (forall (ct : Clip.clip_type) (s c : list zpoly), hclipper (Bridge6.ClipBridge.ct_of ct) s c = gclipper ct s c) -> forall (K : Type) (fmt_2f : T -> K) (keq : K -> K -> bool) (fuel : nat) (self other : list (segment T)) (ct : Clip.clip_type) (flat : bool) (ints : list (pt T * (segment T * segment T * (T * pt T * T)))) (sl1 sl2 : list (segment T * T)) (pieces1 pieces2 : list (segment T)), Bridge6.ClipBridge.g_isect O fmt_2f keq fuel self other = Some (Sample.Returns (ints, sl1, sl2)) -> Split.Path_splitAtPoints O fuel self sl1 = Some pieces1 -> Split.Path_splitAtPoints O fuel other sl2 = Some pieces2 -> splitAtPoints O self sl1 = Ok pieces1 -> splitAtPoints O other sl2 = Ok pieces2 -> Forall (Bridge6.ClipBridge.flat_ok O flatten2 fuel) pieces1 -> Forall (Bridge6.ClipBridge.flat_ok O flatten2 fuel) pieces2 -> Clip.Path_clip O fmt_2f keq toZ gclipper fuel self other ct flat = Bridge6.ClipBridge.embed (clip O toZ hclipper flatten2 self other sl1 sl2 (Bridge6.ClipBridge.ct_of ct) flat).
Proof. exact @Bridge6.ClipBridge.clip_gen. Qed.
Theorem C12_clip_gen_R :
  forall (K : Type) (fmt_2f : R -> K) (keq : K -> K -> bool) (toZ : R -> option Z) (gclipper : Clip.clip_type -> list (list (Z * Z)) -> list (list (Z * Z)) -> option (list (list (Z * Z)))) (hclipper : cliptype -> list (list (Z * Z)) -> list (list (Z * Z)) -> option (list (list (Z * Z)))) (flatten2 : segment R -> option (list (seg2 R))), (forall (ct : Clip.clip_type) (s c : list (list (Z * Z))), hclipper (Bridge6.ClipBridge.ct_of ct) s c = gclipper ct s c) -> forall (fuel : nat) (self other : list (segment R)) (ct : Clip.clip_type) (flat : bool) (ints : list (pt R * (segment R * segment R * (R * pt R * R)))) (sl1 sl2 : list (segment R * R)) (pieces1 pieces2 : list (segment R)), Bridge6.ClipBridge.g_isect ROps fmt_2f keq fuel self other = Some (Sample.Returns (ints, sl1, sl2)) -> Split.Path_splitAtPoints ROps fuel self sl1 = Some pieces1 -> Split.Path_splitAtPoints ROps fuel other sl2 = Some pieces2 -> splitAtPoints ROps self sl1 = Ok pieces1 -> splitAtPoints ROps other sl2 = Ok pieces2 -> Forall (Bridge6.ClipBridge.flat_ok ROps flatten2 fuel) pieces1 -> Forall (Bridge6.ClipBridge.flat_ok ROps flatten2 fuel) pieces2 -> Clip.Path_clip ROps fmt_2f keq toZ gclipper fuel self other ct flat = Bridge6.ClipBridge.embed (clip ROps toZ hclipper flatten2 self other sl1 sl2 (Bridge6.ClipBridge.ct_of ct) flat).
Proof. exact @Bridge6.ClipBridge.clip_gen_R. Qed.
Theorem C12_gen_selectors_ops :
  forall (T : Type) (O : Ops T) (K : Type) (fmt_2f : T -> K) (keq : K -> K -> bool) (toZ : T -> option Z) (gclipper : Clip.clip_type -> list (list (Z * Z)) -> list (list (Z * Z)) -> option (list (list (Z * Z)))) (fuel : nat) (self other : list (segment T)) (flat : bool), Clip.Path_union O fmt_2f keq toZ gclipper fuel self other flat = Clip.Path_clip O fmt_2f keq toZ gclipper fuel self other Clip.Ct_union flat /\ Clip.Path_intersection O fmt_2f keq toZ gclipper fuel self other flat = Clip.Path_clip O fmt_2f keq toZ gclipper fuel self other Clip.Ct_intersection flat /\ Clip.Path_difference O fmt_2f keq toZ gclipper fuel self other flat = Clip.Path_clip O fmt_2f keq toZ gclipper fuel self other Clip.Ct_difference flat.
Proof. exact @Transfer6clip.gen_selectors_ops. Qed.
Theorem C12_ct_of_selectors :
  Bridge6.ClipBridge.ct_of Clip.Ct_union = CT_UNION /\ Bridge6.ClipBridge.ct_of Clip.Ct_intersection = CT_INTERSECTION /\ Bridge6.ClipBridge.ct_of Clip.Ct_difference = CT_DIFFERENCE.
Proof. exact @Transfer6clip.ct_of_selectors. Qed.
Theorem C12_gen_clip_returns_iff :
  forall (K : Type) (fmt_2f : R -> K) (keq : K -> K -> bool) (gclipper : Clip.clip_type -> list (list (Z * Z)) -> list (list (Z * Z)) -> option (list (list (Z * Z)))) (hclipper : clipper_t) (flatten2 : flatten_t), (forall (ct : Clip.clip_type) (s c : list zpoly), hclipper (Bridge6.ClipBridge.ct_of ct) s c = gclipper ct s c) -> forall (fuel : nat) (self other : list (segment R)) (ints : list (pt R * (segment R * segment R * (R * pt R * R)))) (sl1 sl2 : list (segment R * R)) (pieces1 pieces2 : list (segment R)), Bridge6.ClipBridge.g_isect ROps fmt_2f keq fuel self other = Some (Sample.Returns (ints, sl1, sl2)) -> Split.Path_splitAtPoints ROps fuel self sl1 = Some pieces1 -> Split.Path_splitAtPoints ROps fuel other sl2 = Some pieces2 -> splitAtPoints ROps self sl1 = Ok pieces1 -> splitAtPoints ROps other sl2 = Ok pieces2 -> Forall (Bridge6.ClipBridge.flat_ok ROps flatten2 fuel) pieces1 -> Forall (Bridge6.ClipBridge.flat_ok ROps flatten2 fuel) pieces2 -> forall (ct : Clip.clip_type) (flat : bool) (paths : list (list (segment R) * bool)), Clip.Path_clip ROps fmt_2f keq R_toZ gclipper fuel self other ct flat = Some (Sample.Returns paths) <-> clip ROps R_toZ hclipper flatten2 self other sl1 sl2 (Bridge6.ClipBridge.ct_of ct) flat = Ok paths.
Proof. exact @Transfer6clip.gen_clip_returns_iff. Qed.
Theorem C12_gen_clip_not_none :
  forall (K : Type) (fmt_2f : R -> K) (keq : K -> K -> bool) (gclipper : Clip.clip_type -> list (list (Z * Z)) -> list (list (Z * Z)) -> option (list (list (Z * Z)))) (hclipper : clipper_t) (flatten2 : flatten_t), (forall (ct : Clip.clip_type) (s c : list zpoly), hclipper (Bridge6.ClipBridge.ct_of ct) s c = gclipper ct s c) -> forall (fuel : nat) (self other : list (segment R)) (ints : list (pt R * (segment R * segment R * (R * pt R * R)))) (sl1 sl2 : list (segment R * R)) (pieces1 pieces2 : list (segment R)), Bridge6.ClipBridge.g_isect ROps fmt_2f keq fuel self other = Some (Sample.Returns (ints, sl1, sl2)) -> Split.Path_splitAtPoints ROps fuel self sl1 = Some pieces1 -> Split.Path_splitAtPoints ROps fuel other sl2 = Some pieces2 -> splitAtPoints ROps self sl1 = Ok pieces1 -> splitAtPoints ROps other sl2 = Ok pieces2 -> Forall (Bridge6.ClipBridge.flat_ok ROps flatten2 fuel) pieces1 -> Forall (Bridge6.ClipBridge.flat_ok ROps flatten2 fuel) pieces2 -> forall (ct : Clip.clip_type) (flat : bool), Clip.Path_clip ROps fmt_2f keq R_toZ gclipper fuel self other ct flat <> None.
Proof. exact @Transfer6clip.gen_clip_not_none. Qed.
Theorem C12_gen_selectors_roles :
  forall (K : Type) (fmt_2f : R -> K) (keq : K -> K -> bool) (gclipper : Clip.clip_type -> list (list (Z * Z)) -> list (list (Z * Z)) -> option (list (list (Z * Z)))) (hclipper : clipper_t) (flatten2 : flatten_t), (forall (ct : Clip.clip_type) (s c : list zpoly), hclipper (Bridge6.ClipBridge.ct_of ct) s c = gclipper ct s c) -> forall (fuel : nat) (self other : list (segment R)) (ints : list (pt R * (segment R * segment R * (R * pt R * R)))) (sl1 sl2 : list (segment R * R)) (pieces1 pieces2 : list (segment R)), Bridge6.ClipBridge.g_isect ROps fmt_2f keq fuel self other = Some (Sample.Returns (ints, sl1, sl2)) -> Split.Path_splitAtPoints ROps fuel self sl1 = Some pieces1 -> Split.Path_splitAtPoints ROps fuel other sl2 = Some pieces2 -> splitAtPoints ROps self sl1 = Ok pieces1 -> splitAtPoints ROps other sl2 = Ok pieces2 -> Forall (Bridge6.ClipBridge.flat_ok ROps flatten2 fuel) pieces1 -> Forall (Bridge6.ClipBridge.flat_ok ROps flatten2 fuel) pieces2 -> forall (st : store R) (subj clp : zpoly) (l : lut), prepare ROps R_toZ flatten2 self other sl1 sl2 = (st, Ok (subj, clp, l)) -> forall (ct : Clip.clip_type) (flat : bool), Clip.Path_clip ROps fmt_2f keq R_toZ gclipper fuel self other ct flat = match gclipper ct [subj] [clp] with | Some polys => Bridge6.ClipBridge.embed (rebuild ROps flat l polys) | None => Some (Sample.Raises Sample.PyClipperError) end.
Proof. exact @Transfer6clip.gen_selectors_roles. Qed.
Theorem C12_gen_clip_calls_clipper :
  forall (K : Type) (fmt_2f : R -> K) (keq : K -> K -> bool) (gclipper : Clip.clip_type -> list (list (Z * Z)) -> list (list (Z * Z)) -> option (list (list (Z * Z)))) (hclipper : clipper_t) (flatten2 : flatten_t), (forall (ct : Clip.clip_type) (s c : list zpoly), hclipper (Bridge6.ClipBridge.ct_of ct) s c = gclipper ct s c) -> forall (fuel : nat) (self other : list (segment R)) (ints : list (pt R * (segment R * segment R * (R * pt R * R)))) (sl1 sl2 : list (segment R * R)) (pieces1 pieces2 : list (segment R)), Bridge6.ClipBridge.g_isect ROps fmt_2f keq fuel self other = Some (Sample.Returns (ints, sl1, sl2)) -> Split.Path_splitAtPoints ROps fuel self sl1 = Some pieces1 -> Split.Path_splitAtPoints ROps fuel other sl2 = Some pieces2 -> splitAtPoints ROps self sl1 = Ok pieces1 -> splitAtPoints ROps other sl2 = Ok pieces2 -> Forall (Bridge6.ClipBridge.flat_ok ROps flatten2 fuel) pieces1 -> Forall (Bridge6.ClipBridge.flat_ok ROps flatten2 fuel) pieces2 -> forall (ct : Clip.clip_type) (flat : bool) (paths : list (list (segment R) * bool)), Clip.Path_clip ROps fmt_2f keq R_toZ gclipper fuel self other ct flat = Some (Sample.Returns paths) -> exists (f1 f2 : list (seg2 R)) (polys : list (list (Z * Z))), Transfer6clip.g_flat_edges fuel pieces1 = Some f1 /\ Transfer6clip.g_flat_edges fuel pieces2 = Some f2 /\ gclipper ct [map start_scaled_trunc f1] [map start_scaled_trunc f2] = Some polys /\ length paths = length polys.
Proof. exact @Transfer6clip.gen_clip_calls_clipper. Qed.
Theorem C12_gen_result_paths_closed_connected_complete :
  forall (K : Type) (fmt_2f : R -> K) (keq : K -> K -> bool) (gclipper : Clip.clip_type -> list (list (Z * Z)) -> list (list (Z * Z)) -> option (list (list (Z * Z)))) (hclipper : clipper_t) (flatten2 : flatten_t), (forall (ct : Clip.clip_type) (s c : list zpoly), hclipper (Bridge6.ClipBridge.ct_of ct) s c = gclipper ct s c) -> forall (fuel : nat) (self other : list (segment R)) (ints : list (pt R * (segment R * segment R * (R * pt R * R)))) (sl1 sl2 : list (segment R * R)) (pieces1 pieces2 : list (segment R)), Bridge6.ClipBridge.g_isect ROps fmt_2f keq fuel self other = Some (Sample.Returns (ints, sl1, sl2)) -> Split.Path_splitAtPoints ROps fuel self sl1 = Some pieces1 -> Split.Path_splitAtPoints ROps fuel other sl2 = Some pieces2 -> splitAtPoints ROps self sl1 = Ok pieces1 -> splitAtPoints ROps other sl2 = Ok pieces2 -> Forall (Bridge6.ClipBridge.flat_ok ROps flatten2 fuel) pieces1 -> Forall (Bridge6.ClipBridge.flat_ok ROps flatten2 fuel) pieces2 -> forall (ct : Clip.clip_type) (st : store R) (subj clp : zpoly) (l : lut) (polys : list (list (Z * Z))), prepare ROps R_toZ flatten2 self other sl1 sl2 = (st, Ok (subj, clp, l)) -> gclipper ct [subj] [clp] = Some polys -> Forall clipper_poly_ok polys -> Clip.Path_clip ROps fmt_2f keq R_toZ gclipper fuel self other ct true = Some (Sample.Returns (map poly_path polys)) /\ Forall (fun p : zpoly => snd (poly_path p) = true /\ fst (poly_path p) = map SLine (poly_edges p) /\ length (poly_edges p) = length p /\ closed_chain (poly_edges p) /\ (forall (d : zpt) (i : nat), (i < length p)%nat -> nth i (poly_edges p) {| l0 := unscale (zR d); l1 := unscale (zR d) |} = {| l0 := unscale (zR (nth i p d)); l1 := unscale (zR (nth (S i mod length p) p d)) |})) polys.
Proof. exact @Transfer6clip.gen_result_paths_closed_connected_complete. Qed.
Theorem C12_gen_clip_flat_paths :
  forall (K : Type) (fmt_2f : R -> K) (keq : K -> K -> bool) (gclipper : Clip.clip_type -> list (list (Z * Z)) -> list (list (Z * Z)) -> option (list (list (Z * Z)))) (hclipper : clipper_t) (flatten2 : flatten_t), (forall (ct : Clip.clip_type) (s c : list zpoly), hclipper (Bridge6.ClipBridge.ct_of ct) s c = gclipper ct s c) -> forall (fuel : nat) (self other : list (segment R)) (ints : list (pt R * (segment R * segment R * (R * pt R * R)))) (sl1 sl2 : list (segment R * R)) (pieces1 pieces2 : list (segment R)), Bridge6.ClipBridge.g_isect ROps fmt_2f keq fuel self other = Some (Sample.Returns (ints, sl1, sl2)) -> Split.Path_splitAtPoints ROps fuel self sl1 = Some pieces1 -> Split.Path_splitAtPoints ROps fuel other sl2 = Some pieces2 -> splitAtPoints ROps self sl1 = Ok pieces1 -> splitAtPoints ROps other sl2 = Ok pieces2 -> Forall (Bridge6.ClipBridge.flat_ok ROps flatten2 fuel) pieces1 -> Forall (Bridge6.ClipBridge.flat_ok ROps flatten2 fuel) pieces2 -> forall (ct : Clip.clip_type) (paths : list (list (segment R) * bool)), (forall (s c : list (Z * Z)) (polys : list (list (Z * Z))), gclipper ct [s] [c] = Some polys -> Forall clipper_poly_ok polys) -> Clip.Path_clip ROps fmt_2f keq R_toZ gclipper fuel self other ct true = Some (Sample.Returns paths) -> exists (f1 f2 : list (seg2 R)) (polys : list (list (Z * Z))), Transfer6clip.g_flat_edges fuel pieces1 = Some f1 /\ Transfer6clip.g_flat_edges fuel pieces2 = Some f2 /\ gclipper ct [map start_scaled_trunc f1] [map start_scaled_trunc f2] = Some polys /\ paths = map poly_path polys /\ Forall (fun p : zpoly => snd (poly_path p) = true /\ fst (poly_path p) = map SLine (poly_edges p) /\ length (poly_edges p) = length p /\ closed_chain (poly_edges p) /\ (forall (d : zpt) (i : nat), (i < length p)%nat -> nth i (poly_edges p) {| l0 := unscale (zR d); l1 := unscale (zR d) |} = {| l0 := unscale (zR (nth i p d)); l1 := unscale (zR (nth (S i mod length p) p d)) |})) polys.
Proof. exact @Transfer6clip.gen_clip_flat_paths. Qed.
Theorem C12_gen_clip_flat_paths_closed_chains :
  forall (K : Type) (fmt_2f : R -> K) (keq : K -> K -> bool) (gclipper : Clip.clip_type -> list (list (Z * Z)) -> list (list (Z * Z)) -> option (list (list (Z * Z)))) (hclipper : clipper_t) (flatten2 : flatten_t), (forall (ct : Clip.clip_type) (s c : list zpoly), hclipper (Bridge6.ClipBridge.ct_of ct) s c = gclipper ct s c) -> forall (fuel : nat) (self other : list (segment R)) (ints : list (pt R * (segment R * segment R * (R * pt R * R)))) (sl1 sl2 : list (segment R * R)) (pieces1 pieces2 : list (segment R)), Bridge6.ClipBridge.g_isect ROps fmt_2f keq fuel self other = Some (Sample.Returns (ints, sl1, sl2)) -> Split.Path_splitAtPoints ROps fuel self sl1 = Some pieces1 -> Split.Path_splitAtPoints ROps fuel other sl2 = Some pieces2 -> splitAtPoints ROps self sl1 = Ok pieces1 -> splitAtPoints ROps other sl2 = Ok pieces2 -> Forall (Bridge6.ClipBridge.flat_ok ROps flatten2 fuel) pieces1 -> Forall (Bridge6.ClipBridge.flat_ok ROps flatten2 fuel) pieces2 -> forall (ct : Clip.clip_type) (paths : list (list (segment R) * bool)), (forall (s c : list (Z * Z)) (polys : list (list (Z * Z))), gclipper ct [s] [c] = Some polys -> Forall clipper_poly_ok polys) -> Clip.Path_clip ROps fmt_2f keq R_toZ gclipper fuel self other ct true = Some (Sample.Returns paths) -> Forall (fun path : list (segment R) * bool => snd path = true /\ (exists es : list (seg2 R), fst path = map SLine es /\ closed_chain es)) paths.
Proof. exact @Transfer6clip.gen_clip_flat_paths_closed_chains. Qed.
Theorem C12_gen_region_semantics :
  forall (K : Type) (fmt_2f : R -> K) (keq : K -> K -> bool) (gclipper : Clip.clip_type -> list (list (Z * Z)) -> list (list (Z * Z)) -> option (list (list (Z * Z)))) (hclipper : clipper_t) (flatten2 : flatten_t), (forall (ct : Clip.clip_type) (s c : list zpoly), hclipper (Bridge6.ClipBridge.ct_of ct) s c = gclipper ct s c) -> forall (fuel : nat) (self other : list (segment R)) (ints : list (pt R * (segment R * segment R * (R * pt R * R)))) (sl1 sl2 : list (segment R * R)) (pieces1 pieces2 : list (segment R)), Bridge6.ClipBridge.g_isect ROps fmt_2f keq fuel self other = Some (Sample.Returns (ints, sl1, sl2)) -> Split.Path_splitAtPoints ROps fuel self sl1 = Some pieces1 -> Split.Path_splitAtPoints ROps fuel other sl2 = Some pieces2 -> splitAtPoints ROps self sl1 = Ok pieces1 -> splitAtPoints ROps other sl2 = Ok pieces2 -> Forall (Bridge6.ClipBridge.flat_ok ROps flatten2 fuel) pieces1 -> Forall (Bridge6.ClipBridge.flat_ok ROps flatten2 fuel) pieces2 -> forall (delta : R) (ct : Clip.clip_type) (st : store R) (subj clp : zpoly) (l : lut) (polys : list (list (Z * Z))), prepare ROps R_toZ flatten2 self other sl1 sl2 = (st, Ok (subj, clp, l)) -> gclipper ct [subj] [clp] = Some polys -> Forall clipper_poly_ok polys -> clipper_spec delta (Bridge6.ClipBridge.ct_of ct) subj clp polys -> exists paths : list (list (segment R) * bool), Clip.Path_clip ROps fmt_2f keq R_toZ gclipper fuel self other ct true = Some (Sample.Returns paths) /\ (forall q : pt R, far delta q (cyc (map zR subj) ++ cyc (map zR clp)) -> eo_paths paths (Point___truediv__ ROps q (precision ROps)) = bop (Bridge6.ClipBridge.ct_of ct) (eo_poly (map zR subj) q) (eo_poly (map zR clp) q)).
Proof. exact @Transfer6clip.gen_region_semantics. Qed.
Theorem C12_gen_region_semantics_all :
  forall (K : Type) (fmt_2f : R -> K) (keq : K -> K -> bool) (gclipper : Clip.clip_type -> list (list (Z * Z)) -> list (list (Z * Z)) -> option (list (list (Z * Z)))) (hclipper : clipper_t) (flatten2 : flatten_t), (forall (ct : Clip.clip_type) (s c : list zpoly), hclipper (Bridge6.ClipBridge.ct_of ct) s c = gclipper ct s c) -> forall (fuel : nat) (self other : list (segment R)) (ints : list (pt R * (segment R * segment R * (R * pt R * R)))) (sl1 sl2 : list (segment R * R)) (pieces1 pieces2 : list (segment R)), Bridge6.ClipBridge.g_isect ROps fmt_2f keq fuel self other = Some (Sample.Returns (ints, sl1, sl2)) -> Split.Path_splitAtPoints ROps fuel self sl1 = Some pieces1 -> Split.Path_splitAtPoints ROps fuel other sl2 = Some pieces2 -> splitAtPoints ROps self sl1 = Ok pieces1 -> splitAtPoints ROps other sl2 = Ok pieces2 -> Forall (Bridge6.ClipBridge.flat_ok ROps flatten2 fuel) pieces1 -> Forall (Bridge6.ClipBridge.flat_ok ROps flatten2 fuel) pieces2 -> forall (delta : R) (ct : Clip.clip_type) (paths : list (list (segment R) * bool)), (forall (s c : list (Z * Z)) (polys : list (list (Z * Z))), gclipper ct [s] [c] = Some polys -> Forall clipper_poly_ok polys /\ clipper_spec delta (Bridge6.ClipBridge.ct_of ct) s c polys) -> Clip.Path_clip ROps fmt_2f keq R_toZ gclipper fuel self other ct true = Some (Sample.Returns paths) -> exists f1 f2 : list (seg2 R), Transfer6clip.g_flat_edges fuel pieces1 = Some f1 /\ Transfer6clip.g_flat_edges fuel pieces2 = Some f2 /\ (forall q : pt R, far delta q (cyc (map zR (map start_scaled_trunc f1)) ++ cyc (map zR (map start_scaled_trunc f2))) -> eo_paths paths (Point___truediv__ ROps q (precision ROps)) = bop (Bridge6.ClipBridge.ct_of ct) (eo_poly (map zR (map start_scaled_trunc f1)) q) (eo_poly (map zR (map start_scaled_trunc f2)) q)).
Proof. exact @Transfer6clip.gen_region_semantics_all. Qed.
Theorem C12_gen_region_semantics_all_g :
  forall (K : Type) (fmt_2f : R -> K) (keq : K -> K -> bool) (gclipper : Clip.clip_type -> list (list (Z * Z)) -> list (list (Z * Z)) -> option (list (list (Z * Z)))) (flatten2 : flatten_t) (fuel : nat) (self other : list (segment R)) (ints : list (pt R * (segment R * segment R * (R * pt R * R)))) (sl1 sl2 : list (segment R * R)) (pieces1 pieces2 : list (segment R)), Bridge6.ClipBridge.g_isect ROps fmt_2f keq fuel self other = Some (Sample.Returns (ints, sl1, sl2)) -> Split.Path_splitAtPoints ROps fuel self sl1 = Some pieces1 -> Split.Path_splitAtPoints ROps fuel other sl2 = Some pieces2 -> splitAtPoints ROps self sl1 = Ok pieces1 -> splitAtPoints ROps other sl2 = Ok pieces2 -> Forall (Bridge6.ClipBridge.flat_ok ROps flatten2 fuel) pieces1 -> Forall (Bridge6.ClipBridge.flat_ok ROps flatten2 fuel) pieces2 -> forall (delta : R) (ct : Clip.clip_type) (paths : list (list (segment R) * bool)), (forall (s c : list (Z * Z)) (polys : list (list (Z * Z))), gclipper ct [s] [c] = Some polys -> Forall clipper_poly_ok polys /\ clipper_spec delta (Bridge6.ClipBridge.ct_of ct) s c polys) -> Clip.Path_clip ROps fmt_2f keq R_toZ gclipper fuel self other ct true = Some (Sample.Returns paths) -> exists f1 f2 : list (seg2 R), Transfer6clip.g_flat_edges fuel pieces1 = Some f1 /\ Transfer6clip.g_flat_edges fuel pieces2 = Some f2 /\ (forall q : pt R, far delta q (cyc (map zR (map start_scaled_trunc f1)) ++ cyc (map zR (map start_scaled_trunc f2))) -> eo_paths paths (Point___truediv__ ROps q (precision ROps)) = bop (Bridge6.ClipBridge.ct_of ct) (eo_poly (map zR (map start_scaled_trunc f1)) q) (eo_poly (map zR (map start_scaled_trunc f2)) q)).
Proof. exact @Transfer6clip.gen_region_semantics_all_g. Qed.

Print Assumptions C12_clip_inputs_are_flattened_outlines.
Print Assumptions C12_selectors_roles.
Print Assumptions C12_selectors_ops.
Print Assumptions C12_result_paths_closed_connected_complete.
Print Assumptions C12_rebuild_empty_polygon_raises.
Print Assumptions C12_pop_degenerate_polygon.
Print Assumptions C12_region_semantics.
Print Assumptions C12_region_semantics_all.
Print Assumptions C12_inputs_unmodified.
Print Assumptions C12_clipper_spec_self.
Print Assumptions C12_clipper_spec_xor.
Print Assumptions C12_ex_prepare.
Print Assumptions C12_ex_clip.
Print Assumptions C12_ex_far.
Print Assumptions C12_clip_tail_gen.
Print Assumptions C12_clip_gen.
Print Assumptions C12_clip_gen_R.
Print Assumptions C12_gen_selectors_ops.
Print Assumptions C12_ct_of_selectors.
Print Assumptions C12_gen_clip_returns_iff.
Print Assumptions C12_gen_clip_not_none.
Print Assumptions C12_gen_selectors_roles.
Print Assumptions C12_gen_clip_calls_clipper.
Print Assumptions C12_gen_result_paths_closed_connected_complete.
Print Assumptions C12_gen_clip_flat_paths.
Print Assumptions C12_gen_clip_flat_paths_closed_chains.
Print Assumptions C12_gen_region_semantics.
Print Assumptions C12_gen_region_semantics_all.
Print Assumptions C12_gen_region_semantics_all_g.
