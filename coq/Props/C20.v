(* C20 -- Reported minimum distances are realised distances.
   Statements only; every proof is [exact <lemma of Proofs/C20.v>].
   GENERATED from /repo on every run (Gen/CurveDist.v, ROps instance): curvedistance_S_<n1>_<n2> (the method
   MinimumCurveDistanceFinder.S for operands of 2/3/4 control points) and the tables curvedistance_D_<n1>_<n2> of D(r,k);
   X_pointAtTime, Point_squareDistanceFrom, Point_distanceFrom.  HAND MODEL (Hand/MinDist.v, tied to the code by the
   correspondence check): minDist (recursion with explicit fuel, self.bestAlpha / self.iterations threaded through the four
   recursive calls, Python truthiness of None/0.0, first-minimum selection), curveDistance (math.sqrt(max(dist, 0.0)),
   the clamp as Python's max: keeps dist unless 0.0 > dist), SampleMixin.sample, BezierPath.distanceToPath; seg_S / seg_Dtable / seg_point / seg_order dispatch
   on the kinds of the two segments.  seg_dist s1 s2 u v = Point_distanceFrom (seg_point s1 u) (seg_point s2 v).

   PROVED (over the reals, for ALL control points, all fuel):
   - S_is_sqdist_*: S(u,v) = |P(u) - Q(v)|^2 for all nine kind pairs and all real u, v; S_is_bernstein_form: the D table
     holds the Bernstein coefficients of S; seg_Dtable_available: every D(r,k) minDist reads is in the table.
   - minDist_realised / minDist_cell_characterisation: whenever minDist returns (alpha, u, v) from a start rectangle inside
     the unit square, (u,v) is in the rectangle and alpha = S(u',v') for a corner (u',v') of a sub-cell that also contains
     the reported (u,v).  (The reported parameters themselves need NOT realise alpha: they are the cell's mid point, or
     one of its corners; this is all that can be said, and the property does not claim more.)
   - curveDistance_realised, dist_nonneg, dist_ge_true_min, dist_le_max, dist_between_S_bounds: a returned distance is the
     distance between a point of the first and a point of the second operand, parameters in [0,1]; hence non-negative,
     not below any lower bound of the point distances (the true minimum), not above any upper bound (the greatest distance).
   - distanceToPath_segments_belong, path_dist_bounds: the two reported segments are members of the respective segment
     lists, parameters in [0,1], the distance is realised between them; bounds as above over all pairs of segments.
   - clamp_id, clamp_nonneg, clamp_not_below, float_zero_not_below_zero: max(dist, 0.0) is the identity on the (always
     non-negative) real alpha, and on every carrier (floats: NaN, -0.0 included) its result never compares below zero, so math.sqrt
     cannot raise: the model has no ValueError outcome.  curveDistance_outcomes: over the reals the ONLY outcome other than a value is fuel exhaustion.
     *_example: runs that return a value (hypotheses satisfiable).
   NOT covered by a theorem (watched by the search on the real implementation):
   - that the recursion ends within the fuel / CPython's recursion limit for every input ("finite ... for all pairs");
   - how far a float S that rounding pushed slightly below zero (operands at distance 0; clamped to 0 since the fix
     73d2744 of the former ValueError) is from the exact value: the float result is compared with references by the search;
   - float overflow / finiteness of the result for huge coordinates. *)

From Flocq Require Import Core.   (* bpow, radix2 for the float statements; imported first so that [float] below is PrimFloat.float *)
From Coq Require Import PrimFloat.
From Coq Require Import ZArith List Bool Reals Lra Permutation Sorted.
From BZ Require Import Base.Ops Gen.Point Gen.Line Gen.Quad Gen.Cubic Gen.CurveDist Hand.MinDist Proofs.C20 Proofs.C20term Proofs.C20termF Base.FloatCmp.
Import ListNotations.
From BZ Require Proofs.Transfer5.
From BZ Require Gen.PathOps Proofs.Bridge5.
From BZ Require Proofs.Transfer4.
From BZ Require Gen.Sample Gen.MinDist Proofs.Bridge4.
Open Scope R_scope.

Theorem C20_S_is_sqdist_2_2 :
  forall (b1 : seg2 R) (b2 : seg2 R) (u v : R), curvedistance_S_2_2 ROps b1 b2 u v = Point_squareDistanceFrom ROps (Line_pointAtTime ROps b1 u) (Line_pointAtTime ROps b2 v).
Proof. exact S_is_sqdist_2_2. Qed.
Theorem C20_S_is_sqdist_2_3 :
  forall (b1 : seg2 R) (b2 : seg3 R) (u v : R), curvedistance_S_2_3 ROps b1 b2 u v = Point_squareDistanceFrom ROps (Line_pointAtTime ROps b1 u) (Quad_pointAtTime ROps b2 v).
Proof. exact S_is_sqdist_2_3. Qed.
Theorem C20_S_is_sqdist_2_4 :
  forall (b1 : seg2 R) (b2 : seg4 R) (u v : R), curvedistance_S_2_4 ROps b1 b2 u v = Point_squareDistanceFrom ROps (Line_pointAtTime ROps b1 u) (Cubic_pointAtTime ROps b2 v).
Proof. exact S_is_sqdist_2_4. Qed.
Theorem C20_S_is_sqdist_3_2 :
  forall (b1 : seg3 R) (b2 : seg2 R) (u v : R), curvedistance_S_3_2 ROps b1 b2 u v = Point_squareDistanceFrom ROps (Quad_pointAtTime ROps b1 u) (Line_pointAtTime ROps b2 v).
Proof. exact S_is_sqdist_3_2. Qed.
Theorem C20_S_is_sqdist_3_3 :
  forall (b1 : seg3 R) (b2 : seg3 R) (u v : R), curvedistance_S_3_3 ROps b1 b2 u v = Point_squareDistanceFrom ROps (Quad_pointAtTime ROps b1 u) (Quad_pointAtTime ROps b2 v).
Proof. exact S_is_sqdist_3_3. Qed.
Theorem C20_S_is_sqdist_3_4 :
  forall (b1 : seg3 R) (b2 : seg4 R) (u v : R), curvedistance_S_3_4 ROps b1 b2 u v = Point_squareDistanceFrom ROps (Quad_pointAtTime ROps b1 u) (Cubic_pointAtTime ROps b2 v).
Proof. exact S_is_sqdist_3_4. Qed.
Theorem C20_S_is_sqdist_4_2 :
  forall (b1 : seg4 R) (b2 : seg2 R) (u v : R), curvedistance_S_4_2 ROps b1 b2 u v = Point_squareDistanceFrom ROps (Cubic_pointAtTime ROps b1 u) (Line_pointAtTime ROps b2 v).
Proof. exact S_is_sqdist_4_2. Qed.
Theorem C20_S_is_sqdist_4_3 :
  forall (b1 : seg4 R) (b2 : seg3 R) (u v : R), curvedistance_S_4_3 ROps b1 b2 u v = Point_squareDistanceFrom ROps (Cubic_pointAtTime ROps b1 u) (Quad_pointAtTime ROps b2 v).
Proof. exact S_is_sqdist_4_3. Qed.
Theorem C20_S_is_sqdist_4_4 :
  forall (b1 : seg4 R) (b2 : seg4 R) (u v : R), curvedistance_S_4_4 ROps b1 b2 u v = Point_squareDistanceFrom ROps (Cubic_pointAtTime ROps b1 u) (Cubic_pointAtTime ROps b2 v).
Proof. exact S_is_sqdist_4_4. Qed.
Theorem C20_seg_S_is_sqdist :
  forall s1 s2 u v, seg_S ROps s1 s2 u v = seg_sqdist s1 s2 u v.
Proof. exact seg_S_is_sqdist. Qed.
Theorem C20_S_is_bernstein_form :
  forall s1 s2 u v, seg_S ROps s1 s2 u v = bern_form (seg_Dtable ROps s1 s2) (2 * seg_order s1) (2 * seg_order s2) u v.
Proof. exact S_is_bernstein_form. Qed.
Theorem C20_seg_Dtable_available :
  forall s1 s2 r k, (r <= 2 * seg_order s1)%nat -> (k <= Nat.max (2 * seg_order s1) (2 * seg_order s2))%nat -> Dtab (seg_Dtable ROps s1 s2) r k <> None.
Proof. exact seg_Dtable_available. Qed.
Theorem C20_minDist_cell_characterisation :
  forall n m S D fuel st umin umax vmin vmax alpha u v st', umin <= umax -> vmin <= vmax -> minDist ROps n m S D fuel st umin umax vmin vmax = (Ok (alpha, u, v), st') -> exists a b c d u' v', umin <= a /\ a <= b /\ b <= umax /\ vmin <= c /\ c <= d /\ d <= vmax /\ a <= u <= b /\ c <= v <= d /\ (u' = a \/ u' = b) /\ (v' = c \/ v' = d) /\ S u' v' = Some alpha.
Proof. exact minDist_cell_characterisation. Qed.
Theorem C20_minDist_realised :
  forall n m S D fuel st umin umax vmin vmax alpha u v st', 0 <= umin -> umin <= umax -> umax <= 1 -> 0 <= vmin -> vmin <= vmax -> vmax <= 1 -> minDist ROps n m S D fuel st umin umax vmin vmax = (Ok (alpha, u, v), st') -> 0 <= u <= 1 /\ 0 <= v <= 1 /\ exists u' v', 0 <= u' <= 1 /\ 0 <= v' <= 1 /\ S u' v' = Some alpha.
Proof. exact minDist_realised. Qed.
Theorem C20_clamp_id :
  forall (x : R), 0 <= x -> max2 ROps x (lit ROps 0 1 0%float) = x.
Proof. exact clamp_id. Qed.
Theorem C20_clamp_nonneg :
  forall (x : R), 0 <= max2 ROps x (lit ROps 0 1 0%float).
Proof. exact clamp_nonneg. Qed.
Theorem C20_clamp_not_below :
  forall (T : Type) (O : Ops T) (x z : T), ltb O z z = false -> ltb O (max2 O x z) z = false.
Proof. exact clamp_not_below. Qed.
Theorem C20_float_zero_not_below_zero :
  PrimFloat.ltb 0%float 0%float = false.
Proof. exact float_zero_not_below_zero. Qed.
Theorem C20_curveDistance_realised :
  forall fuel s1 s2 d t1 t2, curveDistance ROps fuel s1 s2 = Ok (d, t1, t2) -> 0 <= t1 <= 1 /\ 0 <= t2 <= 1 /\ exists u' v', 0 <= u' <= 1 /\ 0 <= v' <= 1 /\ d = seg_dist s1 s2 u' v'.
Proof. exact curveDistance_realised. Qed.
Theorem C20_dist_nonneg :
  forall fuel s1 s2 d t1 t2, curveDistance ROps fuel s1 s2 = Ok (d, t1, t2) -> 0 <= d.
Proof. exact dist_nonneg. Qed.
Theorem C20_dist_ge_true_min :
  forall fuel s1 s2 d t1 t2 lo, (forall u v, 0 <= u <= 1 -> 0 <= v <= 1 -> lo <= seg_dist s1 s2 u v) -> curveDistance ROps fuel s1 s2 = Ok (d, t1, t2) -> lo <= d.
Proof. exact dist_ge_true_min. Qed.
Theorem C20_dist_le_max :
  forall fuel s1 s2 d t1 t2 hi, (forall u v, 0 <= u <= 1 -> 0 <= v <= 1 -> seg_dist s1 s2 u v <= hi) -> curveDistance ROps fuel s1 s2 = Ok (d, t1, t2) -> d <= hi.
Proof. exact dist_le_max. Qed.
Theorem C20_dist_between_S_bounds :
  forall fuel s1 s2 d t1 t2 lo hi, (forall u v, 0 <= u <= 1 -> 0 <= v <= 1 -> lo <= seg_S ROps s1 s2 u v <= hi) -> curveDistance ROps fuel s1 s2 = Ok (d, t1, t2) -> sqrt lo <= d <= sqrt hi.
Proof. exact dist_between_S_bounds. Qed.
Theorem C20_distanceToPath_segments_belong :
  forall fuel (segs1 segs2 : list (segment R)) d t1 t2 s1 s2, distanceToPath ROps fuel segs1 segs2 = Ok (d, t1, t2, s1, s2) -> In s1 segs1 /\ In s2 segs2 /\ 0 <= t1 <= 1 /\ 0 <= t2 <= 1 /\ exists u' v', 0 <= u' <= 1 /\ 0 <= v' <= 1 /\ d = seg_dist s1 s2 u' v'.
Proof. exact distanceToPath_segments_belong. Qed.
Theorem C20_path_dist_bounds :
  forall fuel (segs1 segs2 : list (segment R)) d t1 t2 s1 s2 lo hi, (forall a b, In a segs1 -> In b segs2 -> forall u v, 0 <= u <= 1 -> 0 <= v <= 1 -> lo <= seg_dist a b u v <= hi) -> distanceToPath ROps fuel segs1 segs2 = Ok (d, t1, t2, s1, s2) -> 0 <= d /\ lo <= d <= hi.
Proof. exact path_dist_bounds. Qed.
Theorem C20_curveDistance_outcomes :
  forall fuel s1 s2, ok_or_fuel (curveDistance ROps fuel s1 s2).
Proof. exact curveDistance_outcomes. Qed.
Theorem C20_minDist_ok_example :
  fst (minDist ROps 1 1 (fun _ _ => Some 1) (fun _ _ => Some 1) 1 (None, 0%nat) 0 1 0 1) = Ok (1, (0 + 1) / 2, (0 + 1) / 2).
Proof. exact minDist_ok_example. Qed.
Theorem C20_curveDistance_ok_example :
  forall fuel, curveDistance ROps (Datatypes.S fuel) pointlike_a pointlike_b = Ok (sqrt 1, (0 + 1) / 2, (0 + 1) / 2).
Proof. exact curveDistance_ok_example. Qed.
Theorem C20_seg_D00 :
  forall s1 s2, Dtab (seg_Dtable ROps s1 s2) 0 0 = Some (seg_S ROps s1 s2 0 0).
Proof. exact seg_D00. Qed.
Theorem C20_seg_minDist_terminates :
  forall fuel s1 s2 st, (80 <= fuel)%nat -> fst (minDist ROps (seg_order s1) (seg_order s2) (fun u v => Some (seg_S ROps s1 s2 u v)) (Dtab (seg_Dtable ROps s1 s2)) fuel st 0 1 0 1) <> OutOfFuel.
Proof. exact seg_minDist_terminates. Qed.
Theorem C20_curveDistance_state_terminates :
  forall fuel s1 s2, (80 <= fuel)%nat -> fst (curveDistance_state ROps (seg_order s1) (seg_order s2) (fun u v => Some (seg_S ROps s1 s2 u v)) (Dtab (seg_Dtable ROps s1 s2)) fuel) <> OutOfFuel.
Proof. exact curveDistance_state_terminates. Qed.
Theorem C20_curveDistance_terminates :
  forall fuel s1 s2, (80 <= fuel)%nat -> curveDistance ROps fuel s1 s2 <> OutOfFuel.
Proof. exact curveDistance_terminates. Qed.
Theorem C20_curveDistance_returns :
  forall fuel s1 s2, (80 <= fuel)%nat -> exists d t1 t2, curveDistance ROps fuel s1 s2 = Ok (d, t1, t2).
Proof. exact curveDistance_returns. Qed.
Theorem C20_curveDistance_returns_realised :
  forall fuel s1 s2, (80 <= fuel)%nat -> exists d t1 t2, curveDistance ROps fuel s1 s2 = Ok (d, t1, t2) /\ 0 <= d /\ 0 <= t1 <= 1 /\ 0 <= t2 <= 1 /\ exists u' v', 0 <= u' <= 1 /\ 0 <= v' <= 1 /\ d = seg_dist s1 s2 u' v'.
Proof. exact curveDistance_returns_realised. Qed.
Theorem C20_curveDistance_fuel_irrelevant :
  forall fuel s1 s2, (80 <= fuel)%nat -> curveDistance ROps fuel s1 s2 = curveDistance ROps 80 s1 s2.
Proof. exact curveDistance_fuel_irrelevant. Qed.
Theorem C20_float_run_ok :
  is_ok (curveDistance FOps 80 cubic_a cubic_b) = true.
Proof. exact float_run_ok. Qed.
Theorem C20_float_run_depth :
  fuel_needed cubic_a cubic_b 80 = Some 11%nat.
Proof. exact float_run_depth. Qed.
Theorem C20_termination_needs_D00 :
  forall fuel, fst (minDist ROps 1 1 Sbad Dbad fuel (None, 0%nat) 0 1 0 1) = OutOfFuel.
Proof. exact termination_needs_D00. Qed.
Theorem C20_minIJ_level_independent :
  forall (D : nat -> nat -> option R) n m alpha1 alpha2 io1 md mij, fold_left (p1_step ROps D alpha1) (index_pairs n m) (Ok (true, None, None)) = Ok (io1, md, mij) -> exists io2, fold_left (p1_step ROps D alpha2) (index_pairs n m) (Ok (true, None, None)) = Ok (io2, md, mij).
Proof. exact @minIJ_level_independent. Qed.
Theorem C20_minIJ_not_origin :
  forall (D : nat -> nat -> option R) n m alpha d00 md i j, (1 <= n)%nat -> (1 <= m)%nat -> D 0%nat 0%nat = Some d00 -> alpha <= d00 -> fold_left (p1_step ROps D alpha) (index_pairs n m) (Ok (true, None, None)) = Ok (false, md, Some (i, j)) -> (i, j) <> (0%nat, 0%nat) /\ (i < 2 * n)%nat /\ (j < 2 * m)%nat.
Proof. exact @minIJ_not_origin. Qed.
Theorem C20_minDist_terminates_abstract :
  forall (n m : nat) (S : R -> R -> option R) (D : nat -> nat -> option R), (1 <= n <= 3)%nat -> (1 <= m <= 3)%nat -> (exists d00, D 0%nat 0%nat = Some d00 /\ S 0 0 = Some d00) -> forall fuel st, (80 <= fuel)%nat -> fst (minDist ROps n m S D fuel st 0 1 0 1) <> OutOfFuel.
Proof. exact @minDist_terminates_abstract. Qed.
Theorem C20_minDist_fuel_irrelevant :
  forall (T : Type) (O : Ops T) (n m : nat) (S : T -> T -> option T) (D : nat -> nat -> option T) f f' st a b c d, (f <= f')%nat -> fst (minDist O n m S D f st a b c d) <> OutOfFuel -> minDist O n m S D f' st a b c d = minDist O n m S D f st a b c d.
Proof. exact @minDist_fuel_irrelevant. Qed.
Theorem C20_seg_D00_F :
  forall s1 s2, (forall r k d, Dtab (seg_Dtable FOps s1 s2) r k = Some d -> ffinite d) -> exists d00, Dtab (seg_Dtable FOps s1 s2) 0 0 = Some d00 /\ ffinite (seg_S FOps s1 s2 (ofZ FOps 0) (ofZ FOps 0)) /\ FR (seg_S FOps s1 s2 (ofZ FOps 0) (ofZ FOps 0)) = FR d00.
Proof. exact seg_D00_F. Qed.
Theorem C20_seg_S_finite :
  forall s1 s2 a b, seg_ok400 s1 -> seg_ok400 s2 -> ffinite a -> ffinite b -> 0 <= FR a <= 1 -> 0 <= FR b <= 1 -> ffinite (seg_S FOps s1 s2 a b).
Proof. exact seg_S_finite. Qed.
Theorem C20_seg_Dtable_finite :
  forall s1 s2, seg_ok400 s1 -> seg_ok400 s2 -> Forall (Forall ffinite) (seg_Dtable FOps s1 s2).
Proof. exact seg_Dtable_finite. Qed.
Theorem C20_curveDistance_terminates_F_bounded :
  forall fuel s1 s2, seg_ok400 s1 -> seg_ok400 s2 -> (81 <= fuel)%nat -> curveDistance FOps fuel s1 s2 <> OutOfFuel.
Proof. exact curveDistance_terminates_F_bounded. Qed.
Theorem C20_curveDistance_fuel_irrelevant_F_bounded :
  forall fuel s1 s2, seg_ok400 s1 -> seg_ok400 s2 -> (81 <= fuel)%nat -> curveDistance FOps fuel s1 s2 = curveDistance FOps 81 s1 s2.
Proof. exact curveDistance_fuel_irrelevant_F_bounded. Qed.
Theorem C20_float_run_any_fuel :
  forall fuel, (81 <= fuel)%nat -> curveDistance FOps fuel cubic_a cubic_b = curveDistance FOps 81 cubic_a cubic_b /\ is_ok (curveDistance FOps fuel cubic_a cubic_b) = true.
Proof. exact float_run_any_fuel. Qed.
Theorem C20_minDist_gen :
  forall (T : Type) (O : Ops T) (n m : nat) (Sg : T -> T -> T) (Shand : T -> T -> option T) (Dgen : Z -> Z -> Sample.outcome T) (Dhand : nat -> nat -> option T), (forall u v : T, Shand u v = Some (Sg u v)) -> (forall r k : nat, Dgen (Z.of_nat r) (Z.of_nat k) = match Dhand r k with | Some d => Sample.Returns d | None => Sample.Raises Sample.PyIndexError end) -> forall (fuel : nat) (best : option T) (i : Z), (0 <= i)%Z -> forall umin umax vmin vmax : T, Bridge4.md_rel (MinDist.curvedistance_minDist O (Z.of_nat n + 1) (Z.of_nat m + 1) Sg Dgen fuel (best, i) (umin, umax) (vmin, vmax) (eps_default O)) (minDist O n m Shand Dhand fuel (best, Z.to_nat i) umin umax vmin vmax).
Proof. exact @Bridge4.minDist_gen. Qed.
Theorem C20_table_get_Dtab :
  forall (T : Type) (tbl : list (list T)) (r k : nat), MinDist.table_get tbl (Z.of_nat r) (Z.of_nat k) = match Dtab tbl r k with | Some d => Sample.Returns d | None => Sample.Raises Sample.PyIndexError end.
Proof. exact @Bridge4.table_get_Dtab. Qed.
Theorem C20_curveDistance_LL_gen :
  forall (T : Type) (O : Ops T) (fuel : nat) (a b : seg2 T), Bridge4.cd_rel (MinDist.curvedistance_curveDistance_Line_Line O fuel a b) (curveDistance O fuel (SLine a) (SLine b)).
Proof. exact @Bridge4.curveDistance_LL_gen. Qed.
Theorem C20_curveDistance_LQ_gen :
  forall (T : Type) (O : Ops T) (fuel : nat) (a : seg2 T) (b : seg3 T), Bridge4.cd_rel (MinDist.curvedistance_curveDistance_Line_Quad O fuel a b) (curveDistance O fuel (SLine a) (SQuad b)).
Proof. exact @Bridge4.curveDistance_LQ_gen. Qed.
Theorem C20_curveDistance_LC_gen :
  forall (T : Type) (O : Ops T) (fuel : nat) (a : seg2 T) (b : seg4 T), Bridge4.cd_rel (MinDist.curvedistance_curveDistance_Line_Cubic O fuel a b) (curveDistance O fuel (SLine a) (SCubic b)).
Proof. exact @Bridge4.curveDistance_LC_gen. Qed.
Theorem C20_curveDistance_QL_gen :
  forall (T : Type) (O : Ops T) (fuel : nat) (a : seg3 T) (b : seg2 T), Bridge4.cd_rel (MinDist.curvedistance_curveDistance_Quad_Line O fuel a b) (curveDistance O fuel (SQuad a) (SLine b)).
Proof. exact @Bridge4.curveDistance_QL_gen. Qed.
Theorem C20_curveDistance_QQ_gen :
  forall (T : Type) (O : Ops T) (fuel : nat) (a b : seg3 T), Bridge4.cd_rel (MinDist.curvedistance_curveDistance_Quad_Quad O fuel a b) (curveDistance O fuel (SQuad a) (SQuad b)).
Proof. exact @Bridge4.curveDistance_QQ_gen. Qed.
Theorem C20_curveDistance_QC_gen :
  forall (T : Type) (O : Ops T) (fuel : nat) (a : seg3 T) (b : seg4 T), Bridge4.cd_rel (MinDist.curvedistance_curveDistance_Quad_Cubic O fuel a b) (curveDistance O fuel (SQuad a) (SCubic b)).
Proof. exact @Bridge4.curveDistance_QC_gen. Qed.
Theorem C20_curveDistance_CL_gen :
  forall (T : Type) (O : Ops T) (fuel : nat) (a : seg4 T) (b : seg2 T), Bridge4.cd_rel (MinDist.curvedistance_curveDistance_Cubic_Line O fuel a b) (curveDistance O fuel (SCubic a) (SLine b)).
Proof. exact @Bridge4.curveDistance_CL_gen. Qed.
Theorem C20_curveDistance_CQ_gen :
  forall (T : Type) (O : Ops T) (fuel : nat) (a : seg4 T) (b : seg3 T), Bridge4.cd_rel (MinDist.curvedistance_curveDistance_Cubic_Quad O fuel a b) (curveDistance O fuel (SCubic a) (SQuad b)).
Proof. exact @Bridge4.curveDistance_CQ_gen. Qed.
Theorem C20_curveDistance_CC_gen :
  forall (T : Type) (O : Ops T) (fuel : nat) (a b : seg4 T), Bridge4.cd_rel (MinDist.curvedistance_curveDistance_Cubic_Cubic O fuel a b) (curveDistance O fuel (SCubic a) (SCubic b)).
Proof. exact @Bridge4.curveDistance_CC_gen. Qed.
Theorem C20_gen_curveDistance_LL_outcomes :
  forall (fuel : nat) (a b : seg2 R), Transfer4.value_or_fuel (MinDist.curvedistance_curveDistance_Line_Line ROps fuel a b).
Proof. exact @Transfer4.gen_curveDistance_LL_outcomes. Qed.
Theorem C20_gen_curveDistance_LL_realised :
  forall (fuel : nat) (a b : seg2 R) (r : R * R * R), MinDist.curvedistance_curveDistance_Line_Line ROps fuel a b = Some (Sample.Returns r) -> Transfer4.realised (SLine a) (SLine b) r.
Proof. exact @Transfer4.gen_curveDistance_LL_realised. Qed.
Theorem C20_gen_curveDistance_LQ_outcomes :
  forall (fuel : nat) (a : seg2 R) (b : seg3 R), Transfer4.value_or_fuel (MinDist.curvedistance_curveDistance_Line_Quad ROps fuel a b).
Proof. exact @Transfer4.gen_curveDistance_LQ_outcomes. Qed.
Theorem C20_gen_curveDistance_LQ_realised :
  forall (fuel : nat) (a : seg2 R) (b : seg3 R) (r : R * R * R), MinDist.curvedistance_curveDistance_Line_Quad ROps fuel a b = Some (Sample.Returns r) -> Transfer4.realised (SLine a) (SQuad b) r.
Proof. exact @Transfer4.gen_curveDistance_LQ_realised. Qed.
Theorem C20_gen_curveDistance_LC_outcomes :
  forall (fuel : nat) (a : seg2 R) (b : seg4 R), Transfer4.value_or_fuel (MinDist.curvedistance_curveDistance_Line_Cubic ROps fuel a b).
Proof. exact @Transfer4.gen_curveDistance_LC_outcomes. Qed.
Theorem C20_gen_curveDistance_LC_realised :
  forall (fuel : nat) (a : seg2 R) (b : seg4 R) (r : R * R * R), MinDist.curvedistance_curveDistance_Line_Cubic ROps fuel a b = Some (Sample.Returns r) -> Transfer4.realised (SLine a) (SCubic b) r.
Proof. exact @Transfer4.gen_curveDistance_LC_realised. Qed.
Theorem C20_gen_curveDistance_QL_outcomes :
  forall (fuel : nat) (a : seg3 R) (b : seg2 R), Transfer4.value_or_fuel (MinDist.curvedistance_curveDistance_Quad_Line ROps fuel a b).
Proof. exact @Transfer4.gen_curveDistance_QL_outcomes. Qed.
Theorem C20_gen_curveDistance_QL_realised :
  forall (fuel : nat) (a : seg3 R) (b : seg2 R) (r : R * R * R), MinDist.curvedistance_curveDistance_Quad_Line ROps fuel a b = Some (Sample.Returns r) -> Transfer4.realised (SQuad a) (SLine b) r.
Proof. exact @Transfer4.gen_curveDistance_QL_realised. Qed.
Theorem C20_gen_curveDistance_QQ_outcomes :
  forall (fuel : nat) (a b : seg3 R), Transfer4.value_or_fuel (MinDist.curvedistance_curveDistance_Quad_Quad ROps fuel a b).
Proof. exact @Transfer4.gen_curveDistance_QQ_outcomes. Qed.
Theorem C20_gen_curveDistance_QQ_realised :
  forall (fuel : nat) (a b : seg3 R) (r : R * R * R), MinDist.curvedistance_curveDistance_Quad_Quad ROps fuel a b = Some (Sample.Returns r) -> Transfer4.realised (SQuad a) (SQuad b) r.
Proof. exact @Transfer4.gen_curveDistance_QQ_realised. Qed.
Theorem C20_gen_curveDistance_QC_outcomes :
  forall (fuel : nat) (a : seg3 R) (b : seg4 R), Transfer4.value_or_fuel (MinDist.curvedistance_curveDistance_Quad_Cubic ROps fuel a b).
Proof. exact @Transfer4.gen_curveDistance_QC_outcomes. Qed.
Theorem C20_gen_curveDistance_QC_realised :
  forall (fuel : nat) (a : seg3 R) (b : seg4 R) (r : R * R * R), MinDist.curvedistance_curveDistance_Quad_Cubic ROps fuel a b = Some (Sample.Returns r) -> Transfer4.realised (SQuad a) (SCubic b) r.
Proof. exact @Transfer4.gen_curveDistance_QC_realised. Qed.
Theorem C20_gen_curveDistance_CL_outcomes :
  forall (fuel : nat) (a : seg4 R) (b : seg2 R), Transfer4.value_or_fuel (MinDist.curvedistance_curveDistance_Cubic_Line ROps fuel a b).
Proof. exact @Transfer4.gen_curveDistance_CL_outcomes. Qed.
Theorem C20_gen_curveDistance_CL_realised :
  forall (fuel : nat) (a : seg4 R) (b : seg2 R) (r : R * R * R), MinDist.curvedistance_curveDistance_Cubic_Line ROps fuel a b = Some (Sample.Returns r) -> Transfer4.realised (SCubic a) (SLine b) r.
Proof. exact @Transfer4.gen_curveDistance_CL_realised. Qed.
Theorem C20_gen_curveDistance_CQ_outcomes :
  forall (fuel : nat) (a : seg4 R) (b : seg3 R), Transfer4.value_or_fuel (MinDist.curvedistance_curveDistance_Cubic_Quad ROps fuel a b).
Proof. exact @Transfer4.gen_curveDistance_CQ_outcomes. Qed.
Theorem C20_gen_curveDistance_CQ_realised :
  forall (fuel : nat) (a : seg4 R) (b : seg3 R) (r : R * R * R), MinDist.curvedistance_curveDistance_Cubic_Quad ROps fuel a b = Some (Sample.Returns r) -> Transfer4.realised (SCubic a) (SQuad b) r.
Proof. exact @Transfer4.gen_curveDistance_CQ_realised. Qed.
Theorem C20_gen_curveDistance_CC_outcomes :
  forall (fuel : nat) (a b : seg4 R), Transfer4.value_or_fuel (MinDist.curvedistance_curveDistance_Cubic_Cubic ROps fuel a b).
Proof. exact @Transfer4.gen_curveDistance_CC_outcomes. Qed.
Theorem C20_gen_curveDistance_CC_realised :
  forall (fuel : nat) (a b : seg4 R) (r : R * R * R), MinDist.curvedistance_curveDistance_Cubic_Cubic ROps fuel a b = Some (Sample.Returns r) -> Transfer4.realised (SCubic a) (SCubic b) r.
Proof. exact @Transfer4.gen_curveDistance_CC_realised. Qed.
Theorem C20_gen_curveDistance_CC_ge_true_min :
  forall (fuel : nat) (a b : seg4 R) (d t1 t2 lo : R), (forall u v : R, 0 <= u <= 1 -> 0 <= v <= 1 -> lo <= seg_dist (SCubic a) (SCubic b) u v) -> MinDist.curvedistance_curveDistance_Cubic_Cubic ROps fuel a b = Some (Sample.Returns (d, t1, t2)) -> lo <= d.
Proof. exact @Transfer4.gen_curveDistance_CC_ge_true_min. Qed.
Theorem C20_gen_seg_sample_times :
  forall (T : Type) (O : Ops T), Bridge2.lit_ok O -> forall (fuel : nat) (s : segment T) (z : Z), Bridge2.gen_seg_sample O fuel s (ofZ O z) = sample O fuel z s.
Proof. exact @Bridge5.gen_seg_sample_times. Qed.
Theorem C20_distanceToPath_bridge :
  forall (T : Type) (O : Ops T), Bridge2.lit_ok O -> forall (fuel : nat) (z : Z) (segs1 segs2 : list (segment T)), let g := PathOps.Path_distanceToPath O fuel segs1 segs2 (ofZ O z) in let h := distanceToPath_gen O (curveDistance O fuel) fuel z segs1 segs2 in (segs2 <> [] -> Bridge5.dp_rel g h) /\ (segs2 = [] -> h = UnboundErr /\ (g = None \/ g = Some (Sample.Raises Sample.PyUnboundLocalError))).
Proof. exact @Bridge5.distanceToPath_bridge. Qed.
Theorem C20_distanceToPath_bridge_some :
  forall (T : Type) (O : Ops T), Bridge2.lit_ok O -> forall (fuel : nat) (z : Z) (segs1 segs2 : list (segment T)) (o : Sample.outcome (T * T * T * segment T * segment T)), PathOps.Path_distanceToPath O fuel segs1 segs2 (ofZ O z) = Some o -> Bridge5.dp_rel (Some o) (distanceToPath_gen O (curveDistance O fuel) fuel z segs1 segs2).
Proof. exact @Bridge5.distanceToPath_bridge_some. Qed.
Theorem C20_distanceToPath_bridge_default :
  forall (T : Type) (O0 : Ops T), Bridge2.lit_ok O0 -> forall (fuel : nat) (segs1 segs2 : list (segment T)), (32 <= fuel)%nat -> sample_times O0 32 (ofZ O0 0) (dvd O0 (ofZ O0 1) (ofZ O0 10)) <> None -> let g := PathOps.Path_distanceToPath O0 fuel segs1 segs2 (ofZ O0 10) in let h := distanceToPath O0 fuel segs1 segs2 in (segs2 <> [] -> Bridge5.dp_rel g h) /\ (segs2 = [] -> h = UnboundErr /\ (g = None \/ g = Some (Sample.Raises Sample.PyUnboundLocalError))).
Proof. exact @Bridge5.distanceToPath_bridge_default. Qed.
Theorem C20_gen_distanceToPath_belongs :
  forall (fuel : nat) (segs1 segs2 : list (segment R)) (d t1 t2 : R) (s1 s2 : segment R), (32 <= fuel)%nat -> segs2 <> [] -> PathOps.Path_distanceToPath ROps fuel segs1 segs2 (ofZ ROps 10) = Some (Sample.Returns (d, t1, t2, s1, s2)) -> In s1 segs1 /\ In s2 segs2 /\ 0 <= t1 <= 1 /\ 0 <= t2 <= 1 /\ (exists u' v' : R, 0 <= u' <= 1 /\ 0 <= v' <= 1 /\ d = seg_dist s1 s2 u' v').
Proof. exact @Transfer5.gen_distanceToPath_belongs. Qed.
Theorem C20_gen_distanceToPath_bounds :
  forall (fuel : nat) (segs1 segs2 : list (segment R)) (d t1 t2 : R) (s1 s2 : segment R) (lo hi : R), (32 <= fuel)%nat -> segs2 <> [] -> (forall a b : segment R, In a segs1 -> In b segs2 -> forall u v : R, 0 <= u <= 1 -> 0 <= v <= 1 -> lo <= seg_dist a b u v <= hi) -> PathOps.Path_distanceToPath ROps fuel segs1 segs2 (ofZ ROps 10) = Some (Sample.Returns (d, t1, t2, s1, s2)) -> 0 <= d /\ lo <= d <= hi.
Proof. exact @Transfer5.gen_distanceToPath_bounds. Qed.
Theorem C20_gen_distanceToPath_empty :
  forall (fuel : nat) (segs1 : list (segment R)), (32 <= fuel)%nat -> let g := PathOps.Path_distanceToPath ROps fuel segs1 [] (ofZ ROps 10) in g = None \/ g = Some (Sample.Raises Sample.PyUnboundLocalError).
Proof. exact @Transfer5.gen_distanceToPath_empty. Qed.

Print Assumptions C20_S_is_sqdist_2_2.
Print Assumptions C20_S_is_sqdist_2_3.
Print Assumptions C20_S_is_sqdist_2_4.
Print Assumptions C20_S_is_sqdist_3_2.
Print Assumptions C20_S_is_sqdist_3_3.
Print Assumptions C20_S_is_sqdist_3_4.
Print Assumptions C20_S_is_sqdist_4_2.
Print Assumptions C20_S_is_sqdist_4_3.
Print Assumptions C20_S_is_sqdist_4_4.
Print Assumptions C20_seg_S_is_sqdist.
Print Assumptions C20_S_is_bernstein_form.
Print Assumptions C20_seg_Dtable_available.
Print Assumptions C20_minDist_cell_characterisation.
Print Assumptions C20_minDist_realised.
Print Assumptions C20_clamp_id.
Print Assumptions C20_clamp_nonneg.
Print Assumptions C20_clamp_not_below.
Print Assumptions C20_float_zero_not_below_zero.
Print Assumptions C20_curveDistance_realised.
Print Assumptions C20_dist_nonneg.
Print Assumptions C20_dist_ge_true_min.
Print Assumptions C20_dist_le_max.
Print Assumptions C20_dist_between_S_bounds.
Print Assumptions C20_distanceToPath_segments_belong.
Print Assumptions C20_path_dist_bounds.
Print Assumptions C20_curveDistance_outcomes.
Print Assumptions C20_minDist_ok_example.
Print Assumptions C20_curveDistance_ok_example.
Print Assumptions C20_seg_D00.
Print Assumptions C20_seg_minDist_terminates.
Print Assumptions C20_curveDistance_state_terminates.
Print Assumptions C20_curveDistance_terminates.
Print Assumptions C20_curveDistance_returns.
Print Assumptions C20_curveDistance_returns_realised.
Print Assumptions C20_curveDistance_fuel_irrelevant.
Print Assumptions C20_float_run_ok.
Print Assumptions C20_float_run_depth.
Print Assumptions C20_termination_needs_D00.
Print Assumptions C20_minIJ_level_independent.
Print Assumptions C20_minIJ_not_origin.
Print Assumptions C20_minDist_terminates_abstract.
Print Assumptions C20_minDist_fuel_irrelevant.
Print Assumptions C20_seg_D00_F.
Print Assumptions C20_seg_S_finite.
Print Assumptions C20_seg_Dtable_finite.
Print Assumptions C20_curveDistance_terminates_F_bounded.
Print Assumptions C20_curveDistance_fuel_irrelevant_F_bounded.
Print Assumptions C20_float_run_any_fuel.
Print Assumptions C20_minDist_gen.
Print Assumptions C20_table_get_Dtab.
Print Assumptions C20_curveDistance_LL_gen.
Print Assumptions C20_curveDistance_LQ_gen.
Print Assumptions C20_curveDistance_LC_gen.
Print Assumptions C20_curveDistance_QL_gen.
Print Assumptions C20_curveDistance_QQ_gen.
Print Assumptions C20_curveDistance_QC_gen.
Print Assumptions C20_curveDistance_CL_gen.
Print Assumptions C20_curveDistance_CQ_gen.
Print Assumptions C20_curveDistance_CC_gen.
Print Assumptions C20_gen_curveDistance_LL_outcomes.
Print Assumptions C20_gen_curveDistance_LL_realised.
Print Assumptions C20_gen_curveDistance_LQ_outcomes.
Print Assumptions C20_gen_curveDistance_LQ_realised.
Print Assumptions C20_gen_curveDistance_LC_outcomes.
Print Assumptions C20_gen_curveDistance_LC_realised.
Print Assumptions C20_gen_curveDistance_QL_outcomes.
Print Assumptions C20_gen_curveDistance_QL_realised.
Print Assumptions C20_gen_curveDistance_QQ_outcomes.
Print Assumptions C20_gen_curveDistance_QQ_realised.
Print Assumptions C20_gen_curveDistance_QC_outcomes.
Print Assumptions C20_gen_curveDistance_QC_realised.
Print Assumptions C20_gen_curveDistance_CL_outcomes.
Print Assumptions C20_gen_curveDistance_CL_realised.
Print Assumptions C20_gen_curveDistance_CQ_outcomes.
Print Assumptions C20_gen_curveDistance_CQ_realised.
Print Assumptions C20_gen_curveDistance_CC_outcomes.
Print Assumptions C20_gen_curveDistance_CC_realised.
Print Assumptions C20_gen_curveDistance_CC_ge_true_min.
Print Assumptions C20_gen_seg_sample_times.
Print Assumptions C20_distanceToPath_bridge.
Print Assumptions C20_distanceToPath_bridge_some.
Print Assumptions C20_distanceToPath_bridge_default.
Print Assumptions C20_gen_distanceToPath_belongs.
Print Assumptions C20_gen_distanceToPath_bounds.
Print Assumptions C20_gen_distanceToPath_empty.
