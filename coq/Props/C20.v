(* C20 -- Reported minimum distances are realised distances.
   Statements only; every proof is [exact <lemma of Proofs/C20.v>].
   GENERATED from /repo on every run (Gen/CurveDist.v, ROps instance): curvedistance_S_<n1>_<n2> (the method
   MinimumCurveDistanceFinder.S for operands of 2/3/4 control points) and the tables curvedistance_D_<n1>_<n2> of D(r,k);
   X_pointAtTime, Point_squareDistanceFrom, Point_distanceFrom.  HAND MODEL (Hand/MinDist.v, tied to the code by the
   correspondence check): minDist (recursion with explicit fuel, self.bestAlpha / self.iterations threaded through the four
   recursive calls, Python truthiness of None/0.0, first-minimum selection), curveDistance (math.sqrt(max(dist, 0.0)),
   the clamp as Python's max: keeps dist unless 0.0 > dist), SampleMixin.sample, BezierPath.distanceToPath; seg_S / seg_Dtable / seg_point / seg_order dispatch
   on the kinds of the two segments.  seg_dist s1 s2 u v = Point_distanceFrom (seg_point s1 u) (seg_point s2 v).

   PROVED (over the reals, for ALL control points, all fuel):
   - S_is_sqdist_*: S(u,v) = |P(u) - Q(v)|^2 for all nine kind pairs and all real u, v; S_is_bernstein_form: the D table
     holds the Bernstein coefficients of S; seg_Dtable_available: every D(r,k) minDist reads is in the table.
   - minDist_realised / minDist_cell_characterisation: whenever minDist returns (alpha, u, v) from a start rectangle inside
     the unit square, (u,v) is in the rectangle and alpha = S(u',v') for a corner (u',v') of a sub-cell that also contains
     the reported (u,v).  (The reported parameters themselves need NOT realise alpha: they are the cell's mid point, or
     one of its corners; this is all that can be said, and the property does not claim more.)
   - curveDistance_realised, dist_nonneg, dist_ge_true_min, dist_le_max, dist_between_S_bounds: a returned distance is the
     distance between a point of the first and a point of the second operand, parameters in [0,1]; hence non-negative,
     not below any lower bound of the point distances (the true minimum), not above any upper bound (the greatest distance).
   - distanceToPath_segments_belong, path_dist_bounds: the two reported segments are members of the respective segment
     lists, parameters in [0,1], the distance is realised between them; bounds as above over all pairs of segments.
   - clamp_id, clamp_nonneg, clamp_not_below, float_zero_not_below_zero: max(dist, 0.0) is the identity on the (always
     non-negative) real alpha, and on every carrier (floats: NaN, -0.0 included) its result never compares below zero, so math.sqrt
     cannot raise: the model has no ValueError outcome.  curveDistance_outcomes: over the reals the ONLY outcome other than a value is fuel exhaustion.
     *_example: runs that return a value (hypotheses satisfiable).
   NOT covered by a theorem (watched by the search on the real implementation):
   - that the recursion ends within the fuel / CPython's recursion limit for every input ("finite ... for all pairs");
   - how far a float S that rounding pushed slightly below zero (operands at distance 0; clamped to 0 since the fix
     73d2744 of the former ValueError) is from the exact value: the float result is compared with references by the search;
   - float overflow / finiteness of the result for huge coordinates. *)

From Coq Require Import PrimFloat.
From Coq Require Import ZArith List Bool Reals Lra Permutation Sorted.
From BZ Require Import Base.Ops Gen.Point Gen.Line Gen.Quad Gen.Cubic Gen.CurveDist Hand.MinDist Proofs.C20.
Import ListNotations.
Open Scope R_scope.

Theorem C20_S_is_sqdist_2_2 :
  forall (b1 : seg2 R) (b2 : seg2 R) (u v : R), curvedistance_S_2_2 ROps b1 b2 u v = Point_squareDistanceFrom ROps (Line_pointAtTime ROps b1 u) (Line_pointAtTime ROps b2 v).
Proof. exact S_is_sqdist_2_2. Qed.
Theorem C20_S_is_sqdist_2_3 :
  forall (b1 : seg2 R) (b2 : seg3 R) (u v : R), curvedistance_S_2_3 ROps b1 b2 u v = Point_squareDistanceFrom ROps (Line_pointAtTime ROps b1 u) (Quad_pointAtTime ROps b2 v).
Proof. exact S_is_sqdist_2_3. Qed.
Theorem C20_S_is_sqdist_2_4 :
  forall (b1 : seg2 R) (b2 : seg4 R) (u v : R), curvedistance_S_2_4 ROps b1 b2 u v = Point_squareDistanceFrom ROps (Line_pointAtTime ROps b1 u) (Cubic_pointAtTime ROps b2 v).
Proof. exact S_is_sqdist_2_4. Qed.
Theorem C20_S_is_sqdist_3_2 :
  forall (b1 : seg3 R) (b2 : seg2 R) (u v : R), curvedistance_S_3_2 ROps b1 b2 u v = Point_squareDistanceFrom ROps (Quad_pointAtTime ROps b1 u) (Line_pointAtTime ROps b2 v).
Proof. exact S_is_sqdist_3_2. Qed.
Theorem C20_S_is_sqdist_3_3 :
  forall (b1 : seg3 R) (b2 : seg3 R) (u v : R), curvedistance_S_3_3 ROps b1 b2 u v = Point_squareDistanceFrom ROps (Quad_pointAtTime ROps b1 u) (Quad_pointAtTime ROps b2 v).
Proof. exact S_is_sqdist_3_3. Qed.
Theorem C20_S_is_sqdist_3_4 :
  forall (b1 : seg3 R) (b2 : seg4 R) (u v : R), curvedistance_S_3_4 ROps b1 b2 u v = Point_squareDistanceFrom ROps (Quad_pointAtTime ROps b1 u) (Cubic_pointAtTime ROps b2 v).
Proof. exact S_is_sqdist_3_4. Qed.
Theorem C20_S_is_sqdist_4_2 :
  forall (b1 : seg4 R) (b2 : seg2 R) (u v : R), curvedistance_S_4_2 ROps b1 b2 u v = Point_squareDistanceFrom ROps (Cubic_pointAtTime ROps b1 u) (Line_pointAtTime ROps b2 v).
Proof. exact S_is_sqdist_4_2. Qed.
Theorem C20_S_is_sqdist_4_3 :
  forall (b1 : seg4 R) (b2 : seg3 R) (u v : R), curvedistance_S_4_3 ROps b1 b2 u v = Point_squareDistanceFrom ROps (Cubic_pointAtTime ROps b1 u) (Quad_pointAtTime ROps b2 v).
Proof. exact S_is_sqdist_4_3. Qed.
Theorem C20_S_is_sqdist_4_4 :
  forall (b1 : seg4 R) (b2 : seg4 R) (u v : R), curvedistance_S_4_4 ROps b1 b2 u v = Point_squareDistanceFrom ROps (Cubic_pointAtTime ROps b1 u) (Cubic_pointAtTime ROps b2 v).
Proof. exact S_is_sqdist_4_4. Qed.
Theorem C20_seg_S_is_sqdist :
  forall s1 s2 u v, seg_S ROps s1 s2 u v = seg_sqdist s1 s2 u v.
Proof. exact seg_S_is_sqdist. Qed.
Theorem C20_S_is_bernstein_form :
  forall s1 s2 u v, seg_S ROps s1 s2 u v = bern_form (seg_Dtable ROps s1 s2) (2 * seg_order s1) (2 * seg_order s2) u v.
Proof. exact S_is_bernstein_form. Qed.
Theorem C20_seg_Dtable_available :
  forall s1 s2 r k, (r <= 2 * seg_order s1)%nat -> (k <= Nat.max (2 * seg_order s1) (2 * seg_order s2))%nat -> Dtab (seg_Dtable ROps s1 s2) r k <> None.
Proof. exact seg_Dtable_available. Qed.
Theorem C20_minDist_cell_characterisation :
  forall n m S D fuel st umin umax vmin vmax alpha u v st', umin <= umax -> vmin <= vmax -> minDist ROps n m S D fuel st umin umax vmin vmax = (Ok (alpha, u, v), st') -> exists a b c d u' v', umin <= a /\ a <= b /\ b <= umax /\ vmin <= c /\ c <= d /\ d <= vmax /\ a <= u <= b /\ c <= v <= d /\ (u' = a \/ u' = b) /\ (v' = c \/ v' = d) /\ S u' v' = Some alpha.
Proof. exact minDist_cell_characterisation. Qed.
Theorem C20_minDist_realised :
  forall n m S D fuel st umin umax vmin vmax alpha u v st', 0 <= umin -> umin <= umax -> umax <= 1 -> 0 <= vmin -> vmin <= vmax -> vmax <= 1 -> minDist ROps n m S D fuel st umin umax vmin vmax = (Ok (alpha, u, v), st') -> 0 <= u <= 1 /\ 0 <= v <= 1 /\ exists u' v', 0 <= u' <= 1 /\ 0 <= v' <= 1 /\ S u' v' = Some alpha.
Proof. exact minDist_realised. Qed.
Theorem C20_clamp_id :
  forall (x : R), 0 <= x -> max2 ROps x (lit ROps 0 1 0%float) = x.
Proof. exact clamp_id. Qed.
Theorem C20_clamp_nonneg :
  forall (x : R), 0 <= max2 ROps x (lit ROps 0 1 0%float).
Proof. exact clamp_nonneg. Qed.
Theorem C20_clamp_not_below :
  forall (T : Type) (O : Ops T) (x z : T), ltb O z z = false -> ltb O (max2 O x z) z = false.
Proof. exact clamp_not_below. Qed.
Theorem C20_float_zero_not_below_zero :
  PrimFloat.ltb 0%float 0%float = false.
Proof. exact float_zero_not_below_zero. Qed.
Theorem C20_curveDistance_realised :
  forall fuel s1 s2 d t1 t2, curveDistance ROps fuel s1 s2 = Ok (d, t1, t2) -> 0 <= t1 <= 1 /\ 0 <= t2 <= 1 /\ exists u' v', 0 <= u' <= 1 /\ 0 <= v' <= 1 /\ d = seg_dist s1 s2 u' v'.
Proof. exact curveDistance_realised. Qed.
Theorem C20_dist_nonneg :
  forall fuel s1 s2 d t1 t2, curveDistance ROps fuel s1 s2 = Ok (d, t1, t2) -> 0 <= d.
Proof. exact dist_nonneg. Qed.
Theorem C20_dist_ge_true_min :
  forall fuel s1 s2 d t1 t2 lo, (forall u v, 0 <= u <= 1 -> 0 <= v <= 1 -> lo <= seg_dist s1 s2 u v) -> curveDistance ROps fuel s1 s2 = Ok (d, t1, t2) -> lo <= d.
Proof. exact dist_ge_true_min. Qed.
Theorem C20_dist_le_max :
  forall fuel s1 s2 d t1 t2 hi, (forall u v, 0 <= u <= 1 -> 0 <= v <= 1 -> seg_dist s1 s2 u v <= hi) -> curveDistance ROps fuel s1 s2 = Ok (d, t1, t2) -> d <= hi.
Proof. exact dist_le_max. Qed.
Theorem C20_dist_between_S_bounds :
  forall fuel s1 s2 d t1 t2 lo hi, (forall u v, 0 <= u <= 1 -> 0 <= v <= 1 -> lo <= seg_S ROps s1 s2 u v <= hi) -> curveDistance ROps fuel s1 s2 = Ok (d, t1, t2) -> sqrt lo <= d <= sqrt hi.
Proof. exact dist_between_S_bounds. Qed.
Theorem C20_distanceToPath_segments_belong :
  forall fuel (segs1 segs2 : list (segment R)) d t1 t2 s1 s2, distanceToPath ROps fuel segs1 segs2 = Ok (d, t1, t2, s1, s2) -> In s1 segs1 /\ In s2 segs2 /\ 0 <= t1 <= 1 /\ 0 <= t2 <= 1 /\ exists u' v', 0 <= u' <= 1 /\ 0 <= v' <= 1 /\ d = seg_dist s1 s2 u' v'.
Proof. exact distanceToPath_segments_belong. Qed.
Theorem C20_path_dist_bounds :
  forall fuel (segs1 segs2 : list (segment R)) d t1 t2 s1 s2 lo hi, (forall a b, In a segs1 -> In b segs2 -> forall u v, 0 <= u <= 1 -> 0 <= v <= 1 -> lo <= seg_dist a b u v <= hi) -> distanceToPath ROps fuel segs1 segs2 = Ok (d, t1, t2, s1, s2) -> 0 <= d /\ lo <= d <= hi.
Proof. exact path_dist_bounds. Qed.
Theorem C20_curveDistance_outcomes :
  forall fuel s1 s2, ok_or_fuel (curveDistance ROps fuel s1 s2).
Proof. exact curveDistance_outcomes. Qed.
Theorem C20_minDist_ok_example :
  fst (minDist ROps 1 1 (fun _ _ => Some 1) (fun _ _ => Some 1) 1 (None, 0%nat) 0 1 0 1) = Ok (1, (0 + 1) / 2, (0 + 1) / 2).
Proof. exact minDist_ok_example. Qed.
Theorem C20_curveDistance_ok_example :
  forall fuel, curveDistance ROps (Datatypes.S fuel) pointlike_a pointlike_b = Ok (sqrt 1, (0 + 1) / 2, (0 + 1) / 2).
Proof. exact curveDistance_ok_example. Qed.

Print Assumptions C20_S_is_sqdist_2_2.
Print Assumptions C20_S_is_sqdist_2_3.
Print Assumptions C20_S_is_sqdist_2_4.
Print Assumptions C20_S_is_sqdist_3_2.
Print Assumptions C20_S_is_sqdist_3_3.
Print Assumptions C20_S_is_sqdist_3_4.
Print Assumptions C20_S_is_sqdist_4_2.
Print Assumptions C20_S_is_sqdist_4_3.
Print Assumptions C20_S_is_sqdist_4_4.
Print Assumptions C20_seg_S_is_sqdist.
Print Assumptions C20_S_is_bernstein_form.
Print Assumptions C20_seg_Dtable_available.
Print Assumptions C20_minDist_cell_characterisation.
Print Assumptions C20_minDist_realised.
Print Assumptions C20_clamp_id.
Print Assumptions C20_clamp_nonneg.
Print Assumptions C20_clamp_not_below.
Print Assumptions C20_float_zero_not_below_zero.
Print Assumptions C20_curveDistance_realised.
Print Assumptions C20_dist_nonneg.
Print Assumptions C20_dist_ge_true_min.
Print Assumptions C20_dist_le_max.
Print Assumptions C20_dist_between_S_bounds.
Print Assumptions C20_distanceToPath_segments_belong.
Print Assumptions C20_path_dist_bounds.
Print Assumptions C20_curveDistance_outcomes.
Print Assumptions C20_minDist_ok_example.
Print Assumptions C20_curveDistance_ok_example.
