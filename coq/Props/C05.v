(* C05 -- Line-line and curve-line intersections are sound and complete.
   Statements only; every proof is [exact <lemma of Proofs/C05.v>].  Line__line_line_intersections, Line_tOfPoint,
   X__findRoots_y (quadratic formula / Cardano with the degenerate fall-back), Line_alignmentTransformation,
   X__curve_line_intersections(_t) are regenerated from /repo on every run (ROps instance).  [limited] is the final
   withinRange filter of intersections(limited=True) (2e-7 <= t <= 1+2e-7), [general_branch] the negation of the
   early-return guards of the line-line routine, [cubic_thr] = 1e-9*max(|A|,|B|,|C|) (definitions in Proofs/C05.v).
   Proved: line-line, general branch: the candidate is THE common point of the two carriers with exact parameters on
   both, it is reported iff 0 < t1 and t2 < 1 and survives [limited] iff t1 in [2e-7,1+2e-7] and t2 in [2e-7,1);
   exactly-vertical branches exact; parallel -> none; receiver symmetry for crossings interior to both (and the exact
   relation otherwise; full symmetry is false at an end point: witness ..._refuted).  A point is on the line's carrier
   iff its aligned y vanishes, aligned x = |l| * line parameter.  Quadratic roots exact (disc > 0 / exactly linear);
   Cardano: every reported t is a zero in [0,1] of the cubic and every zero in [0,1] is reported (all three
   discriminant branches) when |D| > cubic_thr; below the threshold the result is that of the quadratic solver with
   residual <= 2*cubic_thr.  End to end: reported curve parameters are exactly the t in [0,1] with c(t) on the carrier,
   sorted, each paired with its line parameter.
   NOT covered by a theorem: float accuracy (1e-6), in particular for a leading coefficient that is tiny but above the
   threshold (known finding, see known_findings.json); tangential contacts (disc = 0) are deliberately not reported. *)

From Coq Require Import PrimFloat.
From Coq Require Import ZArith List Bool Reals Lra Permutation Sorted.
From BZ Require Import Base.Ops Gen.Utils Gen.Point Gen.Affine Gen.Line Gen.Quad Gen.Cubic Proofs.C05.
Import ListNotations.
Open Scope R_scope.

Theorem C05_line_line_general_exact :
  forall (s o : seg2 R), general_branch s o -> let p := ll_point s o in let t1 := param_x s p in let t2 := param_x o p in on_carrier s p /\ on_carrier o p /\ (forall p', on_carrier s p' -> on_carrier o p' -> p' = p) /\ Line_pointAtTime ROps s t1 = p /\ Line_pointAtTime ROps o t2 = p /\ (Line__bothPointsAreOnSameSideOfOrigin ROps s p (l1 s) (l0 s) = true <-> 0 < t1) /\ (Line__bothPointsAreOnSameSideOfOrigin ROps s p (l0 o) (l1 o) = true <-> t2 < 1) /\ (0 < t1 /\ t2 < 1 -> Line__line_line_intersections ROps s o = [(t1, p, t2)]) /\ (~ (0 < t1 /\ t2 < 1) -> Line__line_line_intersections ROps s o = []).
Proof. exact line_line_general_exact. Qed.
Theorem C05_line_line_limited_params :
  forall (s o : seg2 R) t1 p t2, In (t1, p, t2) (limited (Line__line_line_intersections ROps s o)) -> my_eps <= t1 <= 1 + my_eps /\ my_eps <= t2 <= 1 + my_eps.
Proof. exact line_line_limited_params. Qed.
Theorem C05_line_line_general_limited_sound :
  forall (s o : seg2 R) i, general_branch s o -> In i (limited (Line__line_line_intersections ROps s o)) -> i = (param_x s (ll_point s o), ll_point s o, param_x o (ll_point s o)) /\ my_eps <= param_x s (ll_point s o) <= 1 + my_eps /\ my_eps <= param_x o (ll_point s o) < 1.
Proof. exact line_line_general_limited_sound. Qed.
Theorem C05_line_line_general_limited_complete :
  forall (s o : seg2 R), general_branch s o -> let p := ll_point s o in my_eps <= param_x s p <= 1 + my_eps -> my_eps <= param_x o p < 1 -> limited (Line__line_line_intersections ROps s o) = [(param_x s p, p, param_x o p)].
Proof. exact line_line_general_limited_complete. Qed.
Theorem C05_line_line_vertical_exact :
  forall (s o : seg2 R), px (l0 s) = px (l1 s) -> isclose ROps (px (l0 o)) (px (l1 o)) = false -> Point___eq__ ROps (l0 o) (l1 o) || Point___eq__ ROps (l0 s) (l1 s) = false -> let p := P (px (l0 s)) (slope o * (px (l0 s) - px (l0 o)) + py (l0 o)) in let t1 := param_y s p in let t2 := param_x o p in Line__line_line_intersections ROps s o = [(t1, p, t2)] /\ px p = px (l0 s) /\ on_carrier o p /\ on_carrier s p /\ Line_pointAtTime ROps s t1 = p /\ Line_pointAtTime ROps o t2 = p.
Proof. exact line_line_vertical_exact. Qed.
Theorem C05_line_line_vertical_second_exact :
  forall (s o : seg2 R), px (l0 o) = px (l1 o) -> isclose ROps (px (l1 s)) (px (l0 s)) = false -> Point___eq__ ROps (l0 o) (l1 o) || Point___eq__ ROps (l0 s) (l1 s) = false -> let p := P (px (l0 o)) (slope s * (px (l0 o) - px (l0 s)) + py (l0 s)) in let t1 := param_x s p in let t2 := param_y o p in Line__line_line_intersections ROps s o = [(t1, p, t2)] /\ px p = px (l0 o) /\ on_carrier s p /\ on_carrier o p /\ Line_pointAtTime ROps s t1 = p /\ Line_pointAtTime ROps o t2 = p.
Proof. exact line_line_vertical_second_exact. Qed.
Theorem C05_line_line_parallel_none :
  forall (s o : seg2 R), (px (l0 s) = px (l1 s) /\ px (l0 o) = px (l1 o)) \/ (py (l0 s) = py (l1 s) /\ py (l0 o) = py (l1 o)) \/ (isclose ROps (px (l1 s)) (px (l0 s)) = false /\ isclose ROps (px (l0 o)) (px (l1 o)) = false /\ slope s = slope o) -> Line__line_line_intersections ROps s o = [].
Proof. exact line_line_parallel_none. Qed.
Theorem C05_line_line_receiver_relation :
  forall (s o : seg2 R), general_branch s o -> let p := ll_point s o in let t1 := param_x s p in let t2 := param_x o p in Line__line_line_intersections ROps s o = (if Rlt_dec 0 t1 then if Rlt_dec t2 1 then [(t1, p, t2)] else [] else []) /\ Line__line_line_intersections ROps o s = (if Rlt_dec 0 t2 then if Rlt_dec t1 1 then [(t2, p, t1)] else [] else []).
Proof. exact line_line_receiver_relation. Qed.
Theorem C05_line_line_receiver_symmetric_interior :
  forall (s o : seg2 R), general_branch s o -> let p := ll_point s o in 0 < param_x s p < 1 -> 0 < param_x o p < 1 -> Line__line_line_intersections ROps s o = [(param_x s p, p, param_x o p)] /\ Line__line_line_intersections ROps o s = [(param_x o p, p, param_x s p)].
Proof. exact line_line_receiver_symmetric_interior. Qed.
Theorem C05_line_line_receiver_symmetric_refuted :
  exists s o, general_branch s o /\ Line__line_line_intersections ROps s o = [] /\ Line__line_line_intersections ROps o s = [(1, P 1 1, 1 / 2)] /\ limited (Line__line_line_intersections ROps o s) = [(1, P 1 1, 1 / 2)].
Proof. exact line_line_receiver_symmetric_refuted. Qed.
Theorem C05_on_carrier_iff_aligned_root :
  forall (l : seg2 R) (p : pt R), l0 l <> l1 l -> let q := Point_transformed ROps p (Line_alignmentTransformation ROps l) in let len := Line_length ROps l in let u := proj_param l p in 0 < len /\ (on_carrier l p <-> py q = 0) /\ px q = len * u /\ (0 <= px q <= len <-> 0 <= u <= 1) /\ (on_carrier l p -> Line_pointAtTime ROps l u = p).
Proof. exact on_carrier_iff_aligned_root. Qed.
Theorem C05_quad_findRoots_exact :
  forall (q : seg3 R) (t : R), (1 / 1000000000 * Rabs (quad_b q) < Rabs (quad_a q) /\ 0 < quad_b q * quad_b q - 4 * quad_a q * quad_c q) \/ (quad_a q = 0 /\ quad_b q <> 0) -> (In t (Quad__findRoots_y ROps q) <-> 0 <= t <= 1 /\ py (Quad_pointAtTime ROps q t) = 0).
Proof. exact quad_findRoots_exact. Qed.
Theorem C05_cubic_findRoots_unfold :
  forall (c : seg4 R), Cubic__findRoots_y ROps c = if leb ROps (Rabs (cubic_D c)) (cubic_thr c) then utils_quadraticRoots ROps (cubic_A c) (cubic_B c) (cubic_C c) else cardano_monic (cubic_A c / cubic_D c) (cubic_B c / cubic_D c) (cubic_C c / cubic_D c).
Proof. exact cubic_findRoots_unfold. Qed.
Theorem C05_cubic_findRoots_sound :
  forall (c : seg4 R) (t : R), cubic_thr c < Rabs (cubic_D c) -> In t (Cubic__findRoots_y ROps c) -> 0 <= t <= 1 /\ py (Cubic_pointAtTime ROps c t) = 0.
Proof. exact cubic_findRoots_sound. Qed.
Theorem C05_cubic_findRoots_complete :
  forall (c : seg4 R) (t : R), cubic_thr c < Rabs (cubic_D c) -> 0 <= t <= 1 -> py (Cubic_pointAtTime ROps c t) = 0 -> In t (Cubic__findRoots_y ROps c).
Proof. exact cubic_findRoots_complete. Qed.
Theorem C05_cubic_findRoots_exact :
  forall (c : seg4 R) (t : R), cubic_thr c < Rabs (cubic_D c) -> (In t (Cubic__findRoots_y ROps c) <-> 0 <= t <= 1 /\ py (Cubic_pointAtTime ROps c t) = 0).
Proof. exact cubic_findRoots_exact. Qed.
Theorem C05_cubic_findRoots_degenerate :
  forall (c : seg4 R), Rabs (cubic_D c) <= cubic_thr c -> Cubic__findRoots_y ROps c = utils_quadraticRoots ROps (cubic_A c) (cubic_B c) (cubic_C c) /\ forall t, In t (Cubic__findRoots_y ROps c) -> 0 <= t <= 1 /\ Rabs (py (Cubic_pointAtTime ROps c t)) <= 2 * cubic_thr c /\ (1 / 1000000000 * Rabs (cubic_B c) < Rabs (cubic_A c) -> py (Cubic_pointAtTime ROps c t) = cubic_D c * (t * t * t) /\ Rabs (py (Cubic_pointAtTime ROps c t)) <= cubic_thr c).
Proof. exact cubic_findRoots_degenerate. Qed.
Theorem C05_curve_line_params :
  (forall (c : seg3 R) l, Sorted Rle (Quad__curve_line_intersections_t ROps c l) /\ forall i, In i (Quad__curve_line_intersections ROps c l) <-> exists t, In t (Quad__curve_line_intersections_t ROps c l) /\ i = quad_ix c l t) /\ (forall (c : seg4 R) l, Sorted Rle (Cubic__curve_line_intersections_t ROps c l) /\ forall i, In i (Cubic__curve_line_intersections ROps c l) <-> exists t, In t (Cubic__curve_line_intersections_t ROps c l) /\ i = cubic_ix c l t).
Proof. exact curve_line_params. Qed.
Theorem C05_cubic_curve_line_exact :
  forall (c : seg4 R) (l : seg2 R) (t : R), l0 l <> l1 l -> let c' := Cubic_transformed ROps c (Line_alignmentTransformation ROps l) in cubic_thr c' < Rabs (cubic_D c') -> (In t (Cubic__curve_line_intersections_t ROps c l) <-> 0 <= t <= 1 /\ on_carrier l (Cubic_pointAtTime ROps c t)).
Proof. exact cubic_curve_line_exact. Qed.
Theorem C05_cubic_curve_line_exact_quadratic :
  forall (c : seg4 R) (l : seg2 R) (t : R), l0 l <> l1 l -> let c' := Cubic_transformed ROps c (Line_alignmentTransformation ROps l) in cubic_D c' = 0 -> 1 / 1000000000 * Rabs (cubic_B c') < Rabs (cubic_A c') -> 0 < cubic_B c' * cubic_B c' - 4 * cubic_A c' * cubic_C c' -> (In t (Cubic__curve_line_intersections_t ROps c l) <-> 0 <= t <= 1 /\ on_carrier l (Cubic_pointAtTime ROps c t)).
Proof. exact cubic_curve_line_exact_quadratic. Qed.
Theorem C05_quad_curve_line_exact :
  forall (c : seg3 R) (l : seg2 R) (t : R), l0 l <> l1 l -> let c' := Quad_transformed ROps c (Line_alignmentTransformation ROps l) in (1 / 1000000000 * Rabs (quad_b c') < Rabs (quad_a c') /\ 0 < quad_b c' * quad_b c' - 4 * quad_a c' * quad_c c') \/ (quad_a c' = 0 /\ quad_b c' <> 0) -> (In t (Quad__curve_line_intersections_t ROps c l) <-> 0 <= t <= 1 /\ on_carrier l (Quad_pointAtTime ROps c t)).
Proof. exact quad_curve_line_exact. Qed.
Theorem C05_cubic_curve_line_intersection_record :
  forall (c : seg4 R) (l : seg2 R) (i : R * pt R * R), l0 l <> l1 l -> isclose ROps (px (l1 l)) (px (l0 l)) = false \/ isclose ROps (py (l1 l)) (py (l0 l)) = false -> let c' := Cubic_transformed ROps c (Line_alignmentTransformation ROps l) in cubic_thr c' < Rabs (cubic_D c') -> In i (Cubic__curve_line_intersections ROps c l) -> let t1 := fst (fst i) in let p := snd (fst i) in let t2 := snd i in 0 <= t1 <= 1 /\ p = Cubic_pointAtTime ROps c t1 /\ on_carrier l p /\ t2 = proj_param l p /\ Line_pointAtTime ROps l t2 = p.
Proof. exact cubic_curve_line_intersection_record. Qed.
Theorem C05_line_line_crossing_example :
  Line__line_line_intersections ROps seg_s seg_x = [(1 / 2, P 1 1, 1 / 2)] /\ limited (Line__line_line_intersections ROps seg_s seg_x) = [(1 / 2, P 1 1, 1 / 2)].
Proof. exact line_line_crossing_example. Qed.
Theorem C05_arch_line_y50_end_to_end :
  Cubic__curve_line_intersections_t ROps arch line_y50 = [1 / 2 - sqrt 30000 / 600; 1 / 2 + sqrt 30000 / 600] /\ forall t, In t (Cubic__curve_line_intersections_t ROps arch line_y50) -> 0 <= t <= 1 /\ py (Cubic_pointAtTime ROps arch t) = 50.
Proof. exact arch_line_y50_end_to_end. Qed.
Theorem C05_quad_findRoots_tangent_missed :
  let q := Q3 (P 0 1) (P 1 (-1)) (P 2 1) in py (Quad_pointAtTime ROps q (1 / 2)) = 0 /\ Quad__findRoots_y ROps q = [].
Proof. exact quad_findRoots_tangent_missed. Qed.

Print Assumptions C05_line_line_general_exact.
Print Assumptions C05_line_line_limited_params.
Print Assumptions C05_line_line_general_limited_sound.
Print Assumptions C05_line_line_general_limited_complete.
Print Assumptions C05_line_line_vertical_exact.
Print Assumptions C05_line_line_vertical_second_exact.
Print Assumptions C05_line_line_parallel_none.
Print Assumptions C05_line_line_receiver_relation.
Print Assumptions C05_line_line_receiver_symmetric_interior.
Print Assumptions C05_line_line_receiver_symmetric_refuted.
Print Assumptions C05_on_carrier_iff_aligned_root.
Print Assumptions C05_quad_findRoots_exact.
Print Assumptions C05_cubic_findRoots_unfold.
Print Assumptions C05_cubic_findRoots_sound.
Print Assumptions C05_cubic_findRoots_complete.
Print Assumptions C05_cubic_findRoots_exact.
Print Assumptions C05_cubic_findRoots_degenerate.
Print Assumptions C05_curve_line_params.
Print Assumptions C05_cubic_curve_line_exact.
Print Assumptions C05_cubic_curve_line_exact_quadratic.
Print Assumptions C05_quad_curve_line_exact.
Print Assumptions C05_cubic_curve_line_intersection_record.
Print Assumptions C05_line_line_crossing_example.
Print Assumptions C05_arch_line_y50_end_to_end.
Print Assumptions C05_quad_findRoots_tangent_missed.
