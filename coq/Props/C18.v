(* C18 -- Tangent, normal and curvature agree with the exact derivatives.
   Statements only; every proof is [exact <lemma of Proofs/C18.v>].  All X_tangentAtTime / X_normalAtTime /
   X_startAngle / X_endAngle / X_curvatureAtTime are regenerated from /repo on every run (ROps instance).
   Proved for all segments and all real t where the derivative does not vanish: the tangent is the derivative divided
   by its norm (also stated with Coquelicot's Derive of the evaluation map); a line's tangent is its unit chord; the
   normal is the tangent turned a quarter counter-clockwise, the same convention for lines and curves; start/end angles
   are atan2 of the first/last control-polygon leg (and (cos,sin) of them is the unit leg); curvature of a cubic and of
   a quadratic equals (x'y''-y'x'')/(x'^2+y'^2)^(3/2) with x'',y'' the derivative of the hodograph (also in Derive /
   Derive_n 2 form); a line's curvature is 2^-52.
   Floating-point clause (Proofs/C18float.v, Flocq, binary64 instance FOps of the same regenerated text): for finite control coordinates
   of magnitude <= M in [2^-300, 2^480], finite t in [0,1] and exact speed s >= 2^-32 M, the binary64 tangent and normal of a cubic
   (quadratic) are finite, each component within 550 u M/s (135 u M/s) of the exact unit derivative, u = 2^-53, and of Euclidean norm
   within 5 u of 1; with s >= M/1024 that is within 1e-10; the arch at t = 1/4 as a closed example.
   NOT covered by a theorem: floating-point error of the curvature and of the angles; x ** 1.5 and x ** 2 are libm pow and atan2 is libm
   in CPython (compared at 1e-12). *)

From Flocq Require Import Core.   (* bpow, radix2 for the float-clause statements; imported first so that [float] below is PrimFloat.float *)
From Coq Require Import PrimFloat.
From Coq Require Import ZArith List Bool Reals Lra Permutation.
From Coquelicot Require Import Coquelicot.
From BZ Require Import Base.Ops Gen.Point Gen.Line Gen.Quad Gen.Cubic Proofs.C18 Base.FloatErr Proofs.C01float.
Import ListNotations.
From BZ Require Proofs.C18float.
Open Scope R_scope.

Theorem C18_tangent_is_unit_derivative_quad :
  forall (q : seg3 R) t, let d := Line_pointAtTime ROps (Quad_derivative ROps q) t in let dx := px d in let dy := py d in dx * dx + dy * dy <> 0 -> Quad_tangentAtTime ROps q t = P (dx / sqrt (dx * dx + dy * dy)) (dy / sqrt (dx * dx + dy * dy)).
Proof. exact tangent_is_unit_derivative_quad. Qed.
Theorem C18_tangent_is_unit_derivative_cubic :
  forall (c : seg4 R) t, let d := Quad_pointAtTime ROps (Cubic_derivative ROps c) t in let dx := px d in let dy := py d in dx * dx + dy * dy <> 0 -> Cubic_tangentAtTime ROps c t = P (dx / sqrt (dx * dx + dy * dy)) (dy / sqrt (dx * dx + dy * dy)).
Proof. exact tangent_is_unit_derivative_cubic. Qed.
Theorem C18_tangent_is_unit_Derive_quad :
  forall (q : seg3 R) t, let dx := Derive (fun u => px (Quad_pointAtTime ROps q u)) t in let dy := Derive (fun u => py (Quad_pointAtTime ROps q u)) t in dx * dx + dy * dy <> 0 -> Quad_tangentAtTime ROps q t = P (dx / sqrt (dx * dx + dy * dy)) (dy / sqrt (dx * dx + dy * dy)).
Proof. exact tangent_is_unit_Derive_quad. Qed.
Theorem C18_tangent_is_unit_Derive_cubic :
  forall (c : seg4 R) t, let dx := Derive (fun u => px (Cubic_pointAtTime ROps c u)) t in let dy := Derive (fun u => py (Cubic_pointAtTime ROps c u)) t in dx * dx + dy * dy <> 0 -> Cubic_tangentAtTime ROps c t = P (dx / sqrt (dx * dx + dy * dy)) (dy / sqrt (dx * dx + dy * dy)).
Proof. exact tangent_is_unit_Derive_cubic. Qed.
Theorem C18_line_tangent_is_unit_chord :
  forall (l : seg2 R) t, let dx := px (l1 l) - px (l0 l) in let dy := py (l1 l) - py (l0 l) in let m := sqrt (dx * dx + dy * dy) in dx * dx + dy * dy <> 0 -> Line_tangentAtTime ROps l t = P (dx / m) (dy / m).
Proof. exact line_tangent_is_unit_chord. Qed.
Theorem C18_normal_is_ccw_quarter_turn_line :
  forall (l : seg2 R) t, Line_normalAtTime ROps l t = P (- py (Line_tangentAtTime ROps l t)) (px (Line_tangentAtTime ROps l t)).
Proof. exact normal_is_ccw_quarter_turn_line. Qed.
Theorem C18_normal_is_ccw_quarter_turn_quad :
  forall (q : seg3 R) t, Quad_normalAtTime ROps q t = P (- py (Quad_tangentAtTime ROps q t)) (px (Quad_tangentAtTime ROps q t)).
Proof. exact normal_is_ccw_quarter_turn_quad. Qed.
Theorem C18_normal_is_ccw_quarter_turn_cubic :
  forall (c : seg4 R) t, Cubic_normalAtTime ROps c t = P (- py (Cubic_tangentAtTime ROps c t)) (px (Cubic_tangentAtTime ROps c t)).
Proof. exact normal_is_ccw_quarter_turn_cubic. Qed.
Theorem C18_start_end_angle_legs_line :
  forall (l : seg2 R), Line_startAngle ROps l = R_atan2 (py (l1 l) - py (l0 l)) (px (l1 l) - px (l0 l)) /\ Line_endAngle ROps l = R_atan2 (py (l1 l) - py (l0 l)) (px (l1 l) - px (l0 l)).
Proof. exact start_end_angle_legs_line. Qed.
Theorem C18_start_end_angle_legs_quad :
  forall (q : seg3 R), Quad_startAngle ROps q = R_atan2 (py (q1 q) - py (q0 q)) (px (q1 q) - px (q0 q)) /\ Quad_endAngle ROps q = R_atan2 (py (q2 q) - py (q1 q)) (px (q2 q) - px (q1 q)).
Proof. exact start_end_angle_legs_quad. Qed.
Theorem C18_start_end_angle_legs_cubic :
  forall (c : seg4 R), Cubic_startAngle ROps c = R_atan2 (py (c1 c) - py (c0 c)) (px (c1 c) - px (c0 c)) /\ Cubic_endAngle ROps c = R_atan2 (py (c3 c) - py (c2 c)) (px (c3 c) - px (c2 c)).
Proof. exact start_end_angle_legs_cubic. Qed.
Theorem C18_leg_angle_direction :
  forall (a b : pt R), let dx := px b - px a in let dy := py b - py a in let th := R_atan2 dy dx in dx * dx + dy * dy <> 0 -> cos th = dx / sqrt (dx * dx + dy * dy) /\ sin th = dy / sqrt (dx * dx + dy * dy).
Proof. exact leg_angle_direction. Qed.
Theorem C18_cubic_curvature_formula :
  forall (c : seg4 R) t, let d1 := Quad_pointAtTime ROps (Cubic_derivative ROps c) t in let d2 := Line_pointAtTime ROps (Quad_derivative ROps (Cubic_derivative ROps c)) t in let x' := px d1 in let y' := py d1 in let x'' := px d2 in let y'' := py d2 in let speed2 := x' * x' + y' * y' in 0 < speed2 -> Cubic_curvatureAtTime ROps c t = (x' * y'' - y' * x'') / (speed2 * sqrt speed2).
Proof. exact cubic_curvature_formula. Qed.
Theorem C18_quad_curvature_formula :
  forall (q : seg3 R) t, let d1 := Line_pointAtTime ROps (Quad_derivative ROps q) t in let x' := px d1 in let y' := py d1 in let x'' := 2 * (px (q0 q) - 2 * px (q1 q) + px (q2 q)) in let y'' := 2 * (py (q0 q) - 2 * py (q1 q) + py (q2 q)) in let speed2 := x' * x' + y' * y' in 0 < speed2 -> Quad_curvatureAtTime ROps q t = (x' * y'' - y' * x'') / (speed2 * sqrt speed2).
Proof. exact quad_curvature_formula. Qed.
Theorem C18_quad_curvature_formula_hodograph :
  forall (q : seg3 R) t, let d := Quad_derivative ROps q in let d1 := Line_pointAtTime ROps d t in let x' := px d1 in let y' := py d1 in let x'' := px (l1 d) - px (l0 d) in let y'' := py (l1 d) - py (l0 d) in let speed2 := x' * x' + y' * y' in 0 < speed2 -> Quad_curvatureAtTime ROps q t = (x' * y'' - y' * x'') / (speed2 * sqrt speed2).
Proof. exact quad_curvature_formula_hodograph. Qed.
Theorem C18_cubic_curvature_Derive :
  forall (c : seg4 R) t, let x := fun u => px (Cubic_pointAtTime ROps c u) in let y := fun u => py (Cubic_pointAtTime ROps c u) in let x' := Derive x t in let y' := Derive y t in let x'' := Derive_n x 2 t in let y'' := Derive_n y 2 t in let speed2 := x' * x' + y' * y' in 0 < speed2 -> Cubic_curvatureAtTime ROps c t = (x' * y'' - y' * x'') / (speed2 * sqrt speed2).
Proof. exact cubic_curvature_Derive. Qed.
Theorem C18_quad_curvature_Derive :
  forall (q : seg3 R) t, let x := fun u => px (Quad_pointAtTime ROps q u) in let y := fun u => py (Quad_pointAtTime ROps q u) in let x' := Derive x t in let y' := Derive y t in let x'' := Derive_n x 2 t in let y'' := Derive_n y 2 t in let speed2 := x' * x' + y' * y' in 0 < speed2 -> Quad_curvatureAtTime ROps q t = (x' * y'' - y' * x'') / (speed2 * sqrt speed2).
Proof. exact quad_curvature_Derive. Qed.
Theorem C18_line_curvature_eps :
  forall (l : seg2 R) t, Line_curvatureAtTime ROps l t = IZR 1 / IZR 4503599627370496.
Proof. exact line_curvature_eps. Qed.
Theorem C18_line_curvature_negligible :
  forall (l : seg2 R) t, 0 < Line_curvatureAtTime ROps l t < 1 / 1000000000000000.
Proof. exact line_curvature_negligible. Qed.
Theorem C18_quad_curvature_example :
  Quad_curvatureAtTime ROps (Q3 (P 0 0) (P 1 1) (P 2 0)) (1 / 2) = -1.
Proof. exact quad_curvature_example. Qed.
Theorem C18_cubic_tangent_example_mid :
  Cubic_tangentAtTime ROps (C4 (P 0 0) (P 1 0) (P 1 1) (P 2 1)) (1 / 2) = P (/ sqrt 2) (/ sqrt 2).
Proof. exact cubic_tangent_example_mid. Qed.
Theorem C18_cubic_normal_example :
  Cubic_normalAtTime ROps (C4 (P 0 0) (P 1 0) (P 1 1) (P 2 1)) 0 = P 0 1.
Proof. exact cubic_normal_example. Qed.
Theorem C18_cubic_tangent_float_close :
  forall (M : R) (c : seg4 float) (t : float), bpow radix2 (-300) <= M <= bpow radix2 480 -> seg4_ok M c -> t_ok t -> M <= bpow radix2 32 * C18float.cubic_speed c t -> pt_close (Cubic_tangentAtTime FOps c t) (Cubic_tangentAtTime ROps (seg4R c) (FR t)) (550 * u * (M / C18float.cubic_speed c t)) /\ Rabs (C18float.norm2 (FR (px (Cubic_tangentAtTime FOps c t))) (FR (py (Cubic_tangentAtTime FOps c t))) - 1) <= 5 * u.
Proof. exact @C18float.cubic_tangent_float_close. Qed.
Theorem C18_quad_tangent_float_close :
  forall (M : R) (q : seg3 float) (t : float), bpow radix2 (-300) <= M <= bpow radix2 480 -> seg3_ok M q -> t_ok t -> M <= bpow radix2 32 * C18float.quad_speed q t -> pt_close (Quad_tangentAtTime FOps q t) (Quad_tangentAtTime ROps (seg3R q) (FR t)) (135 * u * (M / C18float.quad_speed q t)) /\ Rabs (C18float.norm2 (FR (px (Quad_tangentAtTime FOps q t))) (FR (py (Quad_tangentAtTime FOps q t))) - 1) <= 5 * u.
Proof. exact @C18float.quad_tangent_float_close. Qed.
Theorem C18_cubic_tangent_float_unit_derivative :
  forall (M : R) (c : seg4 float) (t : float), bpow radix2 (-300) <= M <= bpow radix2 480 -> seg4_ok M c -> t_ok t -> let d := Quad_pointAtTime ROps (Cubic_derivative ROps (seg4R c)) (FR t) in let s := sqrt (px d * px d + py d * py d) in M <= bpow radix2 32 * s -> let T := Cubic_tangentAtTime FOps c t in ffinite (px T) /\ ffinite (py T) /\ Rabs (FR (px T) - px d / s) <= 550 * u * (M / s) /\ Rabs (FR (py T) - py d / s) <= 550 * u * (M / s) /\ Rabs (sqrt (FR (px T) * FR (px T) + FR (py T) * FR (py T)) - 1) <= 5 * u.
Proof. exact @C18float.cubic_tangent_float_unit_derivative. Qed.
Theorem C18_quad_tangent_float_unit_derivative :
  forall (M : R) (q : seg3 float) (t : float), bpow radix2 (-300) <= M <= bpow radix2 480 -> seg3_ok M q -> t_ok t -> let d := Line_pointAtTime ROps (Quad_derivative ROps (seg3R q)) (FR t) in let s := sqrt (px d * px d + py d * py d) in M <= bpow radix2 32 * s -> let T := Quad_tangentAtTime FOps q t in ffinite (px T) /\ ffinite (py T) /\ Rabs (FR (px T) - px d / s) <= 135 * u * (M / s) /\ Rabs (FR (py T) - py d / s) <= 135 * u * (M / s) /\ Rabs (sqrt (FR (px T) * FR (px T) + FR (py T) * FR (py T)) - 1) <= 5 * u.
Proof. exact @C18float.quad_tangent_float_unit_derivative. Qed.
Theorem C18_cubic_normal_float_close :
  forall (M : R) (c : seg4 float) (t : float), bpow radix2 (-300) <= M <= bpow radix2 480 -> seg4_ok M c -> t_ok t -> M <= bpow radix2 32 * C18float.cubic_speed c t -> pt_close (Cubic_normalAtTime FOps c t) (Cubic_normalAtTime ROps (seg4R c) (FR t)) (550 * u * (M / C18float.cubic_speed c t)) /\ Rabs (C18float.norm2 (FR (px (Cubic_normalAtTime FOps c t))) (FR (py (Cubic_normalAtTime FOps c t))) - 1) <= 5 * u.
Proof. exact @C18float.cubic_normal_float_close. Qed.
Theorem C18_quad_normal_float_close :
  forall (M : R) (q : seg3 float) (t : float), bpow radix2 (-300) <= M <= bpow radix2 480 -> seg3_ok M q -> t_ok t -> M <= bpow radix2 32 * C18float.quad_speed q t -> pt_close (Quad_normalAtTime FOps q t) (Quad_normalAtTime ROps (seg3R q) (FR t)) (135 * u * (M / C18float.quad_speed q t)) /\ Rabs (C18float.norm2 (FR (px (Quad_normalAtTime FOps q t))) (FR (py (Quad_normalAtTime FOps q t))) - 1) <= 5 * u.
Proof. exact @C18float.quad_normal_float_close. Qed.
Theorem C18_cubic_tangent_float_1e10 :
  forall (M : R) (c : seg4 float) (t : float), bpow radix2 (-300) <= M <= bpow radix2 480 -> seg4_ok M c -> t_ok t -> M <= 1024 * C18float.cubic_speed c t -> pt_close (Cubic_tangentAtTime FOps c t) (Cubic_tangentAtTime ROps (seg4R c) (FR t)) 1e-10 /\ pt_close (Cubic_normalAtTime FOps c t) (Cubic_normalAtTime ROps (seg4R c) (FR t)) 1e-10.
Proof. exact @C18float.cubic_tangent_float_1e10. Qed.
Theorem C18_quad_tangent_float_1e10 :
  forall (M : R) (q : seg3 float) (t : float), bpow radix2 (-300) <= M <= bpow radix2 480 -> seg3_ok M q -> t_ok t -> M <= 1024 * C18float.quad_speed q t -> pt_close (Quad_tangentAtTime FOps q t) (Quad_tangentAtTime ROps (seg3R q) (FR t)) 1e-10 /\ pt_close (Quad_normalAtTime FOps q t) (Quad_normalAtTime ROps (seg3R q) (FR t)) 1e-10.
Proof. exact @C18float.quad_tangent_float_1e10. Qed.
Theorem C18_toUnitVector_float_norm :
  forall X Y : float, ffinite X -> ffinite Y -> Rabs (FR X) <= bpow radix2 500 -> Rabs (FR Y) <= bpow radix2 500 -> bpow radix2 (-400) <= C18float.norm2 (FR X) (FR Y) -> Rabs (C18float.norm2 (FR (px (Point_toUnitVector FOps {| px := X; py := Y |}))) (FR (py (Point_toUnitVector FOps {| px := X; py := Y |}))) - 1) <= 5 * u.
Proof. exact @C18float.toUnitVector_float_norm. Qed.
Theorem C18_arch_tangent_example :
  let T := Cubic_tangentAtTime FOps C18float.ex_arch C18float.ex_quarter in T = {| px := 0x1.3333333333333p-1%float; py := 0x1.999999999999ap-1%float |} /\ ffinite (px T) /\ ffinite (py T) /\ Rabs (FR (px T) - 3 / 5) <= 550 * u * (100 / (375 / 2)) /\ Rabs (FR (py T) - 4 / 5) <= 550 * u * (100 / (375 / 2)) /\ Rabs (C18float.norm2 (FR (px T)) (FR (py T)) - 1) <= 5 * u.
Proof. exact @C18float.arch_tangent_example. Qed.

Print Assumptions C18_tangent_is_unit_derivative_quad.
Print Assumptions C18_tangent_is_unit_derivative_cubic.
Print Assumptions C18_tangent_is_unit_Derive_quad.
Print Assumptions C18_tangent_is_unit_Derive_cubic.
Print Assumptions C18_line_tangent_is_unit_chord.
Print Assumptions C18_normal_is_ccw_quarter_turn_line.
Print Assumptions C18_normal_is_ccw_quarter_turn_quad.
Print Assumptions C18_normal_is_ccw_quarter_turn_cubic.
Print Assumptions C18_start_end_angle_legs_line.
Print Assumptions C18_start_end_angle_legs_quad.
Print Assumptions C18_start_end_angle_legs_cubic.
Print Assumptions C18_leg_angle_direction.
Print Assumptions C18_cubic_curvature_formula.
Print Assumptions C18_quad_curvature_formula.
Print Assumptions C18_quad_curvature_formula_hodograph.
Print Assumptions C18_cubic_curvature_Derive.
Print Assumptions C18_quad_curvature_Derive.
Print Assumptions C18_line_curvature_eps.
Print Assumptions C18_line_curvature_negligible.
Print Assumptions C18_quad_curvature_example.
Print Assumptions C18_cubic_tangent_example_mid.
Print Assumptions C18_cubic_normal_example.
Print Assumptions C18_cubic_tangent_float_close.
Print Assumptions C18_quad_tangent_float_close.
Print Assumptions C18_cubic_tangent_float_unit_derivative.
Print Assumptions C18_quad_tangent_float_unit_derivative.
Print Assumptions C18_cubic_normal_float_close.
Print Assumptions C18_quad_normal_float_close.
Print Assumptions C18_cubic_tangent_float_1e10.
Print Assumptions C18_quad_tangent_float_1e10.
Print Assumptions C18_toUnitVector_float_norm.
Print Assumptions C18_arch_tangent_example.
