(* C17 -- Flattening yields an on-curve polyline from start to end.
   Statements only; every proof is [exact <lemma of Proofs/C17.v>].
   MODELLED.  Hand/Sample.v: Cubic_flatten (regularSample(length/degree)), Quad_flatten (sample(length/degree), the
   sample count is a non-integer float), Line_flatten (the line itself with the _orig it already has), path_flatten
   (concatenation, closed flag copied).  An edge is a pair (line, _orig) with _orig : option segment.  Tied to the code
   by the bit-exact correspondence check.  chain_from p ls q (Hand/Shoelace.v): every edge starts exactly where the
   previous one ended, the first at p, the last ending at q.  param_list ts: head exactly 0, last exactly 1, all in
   [0,1], non-decreasing.  vertices p ls = p :: ends of the edges.
   PROVED (over R, for every step d > 0 and every successful call).  The edges of a flattened cubic / quadratic form a
   chain from the curve's start to its end; the vertex list is exactly the curve evaluated at a param_list (so every
   vertex lies on the curve, in non-decreasing parameter order, first = start, last = end); for a quadratic at least d
   long the k-th cut is at parameter k*d/length; every edge carries the curve as its origin; a curve shorter than d
   becomes the single chord start->end with the origin recorded; a line is returned unchanged with its own origin; a path
   flattens to the concatenation of its segments' results with the closed flag copied, and for a connected path the
   result is one chain from the path's start to its end.  No exception for d > 0 when the fuel cap covers length and
   length/d.
   REFUTED.  The edge-count clause is false of the faithful float model for short, unevenly parametrised cubics:
   (0,0)(0,0)(0,0)(1.5,0) with d = 0.5 flattens to its bare chord although length/(2d) = 1.5 (C17_edge_count_refuted).
   EDGE COUNT for gentle cubics (Proofs/C16space.v): a cubic whose speed stays within a factor 2, at least d long, is cut into more than length/(2d)
   edges whenever 2.01 + 5e-4 L <= d (consecutive cuts are at most d + M/len + 4e-4 L of exact arc length apart).
   EDGE COUNT for ALL quadratics (Proofs/C10path.v): INR(#edges) - 1 <= length/d < INR(#edges) for a quadratic at least d long, hence more than length/(2d) edges.
   NOT covered by a theorem: the edge-count clause for cubics with cusps or retracted handles -- searched only;
   "the original is not modified": the model is purely functional and cannot express mutation -- the search compares
   repr(receiver) before and after and checks object identity for lines. *)

From Coq Require Import PrimFloat.
From Coq Require Import ZArith List Bool Reals Lra Permutation Sorted.
From BZ Require Import Base.Ops Gen.Point Gen.Line Gen.Quad Gen.Cubic Gen.Sample Hand.Sample Hand.Shoelace Proofs.C16 Proofs.C17 Proofs.Bridge2.
Import ListNotations.
From BZ Require Proofs.C10path.
From BZ Require Proofs.C04 Proofs.C10flat Proofs.C16space.
From BZ Require Gen.PathOps Proofs.Bridge5.
Open Scope R_scope.

Theorem C17_curve_flatten_spec :
  forall cap d, 0 < d -> (forall (c : seg4 R) es, Cubic_flatten ROps cap c d = Ok es -> chain_from (c0 c) (map fst es) (c3 c) /\ es <> [] /\ Forall (fun e => snd e = Some (SCubic c)) es /\ exists ts, param_list ts /\ vertices (c0 c) (map fst es) = map (Cubic_pointAtTime ROps c) ts /\ (~ Cubic_length ROps c < d -> S (length es) = length ts)) /\ (forall (q : seg3 R) es, Quad_flatten ROps cap q d = Ok es -> chain_from (q0 q) (map fst es) (q2 q) /\ es <> [] /\ Forall (fun e => snd e = Some (SQuad q)) es /\ exists ts, param_list ts /\ vertices (q0 q) (map fst es) = map (Quad_pointAtTime ROps q) ts /\ (~ Quad_length ROps q < d -> S (length es) = length ts)).
Proof. exact curve_flatten_spec. Qed.
Theorem C17_quad_flatten_uniform :
  forall cap (q : seg3 R) d es, 0 < d -> ~ Quad_length ROps q < d -> Quad_flatten ROps cap q d = Ok es -> forall i, (S i < length es)%nat -> exists e, nth_error es i = Some e /\ l1 (fst e) = Quad_pointAtTime ROps q (INR (S i) * (d / Quad_length ROps q)).
Proof. exact quad_flatten_uniform. Qed.
Theorem C17_short_chord_and_line_identity :
  forall cap d, 0 < d -> (forall c : seg4 R, Cubic_length ROps c < d -> Cubic_flatten ROps cap c d = Ok [(L2 (c0 c) (c3 c), Some (SCubic c))]) /\ (forall q : seg3 R, Quad_length ROps q < d -> Quad_flatten ROps cap q d = Ok [(L2 (q0 q) (q2 q), Some (SQuad q))]) /\ (forall (l : seg2 R) (o : option (segment R)), Line_flatten l o d = Ok [(l, o)] /\ seg_flatten ROps cap (SLine l, o) d = Ok [(l, o)]).
Proof. exact short_chord_and_line_identity. Qed.
Theorem C17_origin_recorded :
  forall cap (s : segment R) (o : option (segment R)) d es, seg_flatten ROps cap (s, o) d = Ok es -> match s with SLine l => es = [(l, o)] | _ => Forall (fun e => snd e = Some s) es end.
Proof. exact origin_recorded. Qed.
Theorem C17_flatten_no_raise :
  forall cap d, 0 < d -> (forall c : seg4 R, Cubic_length ROps c <= INR cap -> Cubic_length ROps c / d <= INR cap -> exists es, Cubic_flatten ROps cap c d = Ok es) /\ (forall q : seg3 R, Quad_length ROps q / d <= INR cap -> exists es, Quad_flatten ROps cap q d = Ok es).
Proof. exact flatten_no_raise. Qed.
Theorem C17_path_flatten_spec :
  forall cap (segs : list (segment R * option (segment R))) closed d es cl, path_flatten ROps cap segs closed d = Ok (es, cl) -> (cl = closed /\ exists ls, Forall2 (fun s l => seg_flatten ROps cap s d = Ok l) segs ls /\ es = concat ls) /\ (forall s0 s1, 0 < d -> connected (map fst segs) -> hd_error (map fst segs) = Some s0 -> last_opt (map fst segs) = Some s1 -> chain_from (seg_start s0) (map fst es) (seg_end s1) /\ es <> []).
Proof. exact path_flatten_spec. Qed.
Theorem C17_edge_count_refuted :
  PrimFloat.leb 0.5 (Cubic_length FOps short_uneven_cubic) = true /\ exists es, Cubic_flatten FOps 4096 short_uneven_cubic 0.5%float = Ok es /\ length es = 1%nat /\ PrimFloat.ltb 1 (Cubic_length FOps short_uneven_cubic / (2 * 0.5)) = true.
Proof. exact edge_count_refuted. Qed.
Theorem C17_flatten_nonvacuous :
  Cubic_flatten FOps 4096 arch 1000%float = Ok [(L2 (P 0 0) (P 100 0), Some (SCubic arch))]%float /\ match Cubic_flatten FOps 4096 arch 8%float with Ok es => length es | Raise _ => 0%nat end = 25%nat /\ (let c := C4 (P 0 0) (P 1 0) (P 2 0) (P 3 0) in ~ Cubic_length ROps c < 1 /\ exists es, Cubic_flatten ROps 8 c 1 = Ok es).
Proof. exact flatten_nonvacuous. Qed.
(* the hand-written sampling loops ARE the loops regenerated from the source by the translator (Proofs/Bridge2.v): for every scalar carrier whose
   literals 1.0 / 0.0 are the integers 1 / 0 (true of R and of binary64: lit_ok_R, lit_ok_F), with out-of-fuel on one side iff on the other *)
Theorem C17_seg_flatten_is_generated :
  forall (T : Type) (O : Ops T), lit_ok O -> forall cap (s : segment T * option (segment T)) (degree : T) fuel, eqb O degree (zero O) = false -> eqb O (dvd O (seg_length O (fst s)) degree) (zero O) = false -> (fuel_of O cap (seg_length O (fst s)) + 3 <= fuel)%nat -> (fuel_of O cap (dvd O (seg_length O (fst s)) degree) + 3 <= fuel)%nat -> finished (seg_flatten O cap s degree) -> seg_flatten O cap s degree = res_of (gen_seg_flatten O fuel s degree).
Proof. exact @seg_flatten_gen. Qed.
Theorem C17_Path_flatten_fuel_gen :
  forall (T : Type) (O : Ops T) (fuel : nat) (segs : list (segment T * option (segment T))) (closed : bool) (degree : T), res_of (PathOps.Path_flatten O fuel (segs, closed) degree) = bind (mapM (fun s : segment T * option (segment T) => res_of (gen_seg_flatten O fuel s degree)) segs) (fun ls : list (list (seg2 T * option (segment T))) => Ok (concat ls, closed)).
Proof. exact @Bridge5.Path_flatten_fuel_gen. Qed.
Theorem C17_path_flatten_gen :
  forall (T : Type) (O : Ops T), lit_ok O -> forall (cap : nat) (segs : list (segment T * option (segment T))) (closed : bool) (degree : T) (fuel : nat), eqb O degree (zero O) = false -> Forall (Bridge5.flatten_ok O cap fuel degree) segs -> path_flatten O cap segs closed degree = res_of (PathOps.Path_flatten O fuel (segs, closed) degree).
Proof. exact @Bridge5.path_flatten_gen. Qed.
Theorem C17_gentle_cubic_flatten_fine :
  forall (s : seg4 R) (m M : R), 0 < m -> (forall u : R, 0 <= u <= 1 -> m <= C04.cubic_speed s u <= M) -> M <= 2 * m -> forall (cap : nat) (d : R) (es : list edge), 0 < d -> ~ Cubic_length ROps s < d -> Cubic_flatten ROps cap s d = Ok es -> exists ts : list R, param_list ts /\ map fst es = C10flat.chords_of (Cubic_pointAtTime ROps s) ts /\ S (length es) = length ts /\ C10flat.fine_partition_01 (C10flat.cubic_arclen s) (d + M * (1 / Cubic_length ROps s) + 4 / 10 ^ 4 * C10flat.cubic_arclen s 0 1) ts.
Proof. exact @C16space.gentle_cubic_flatten_fine. Qed.
Theorem C17_gentle_cubic_edge_count :
  forall (s : seg4 R) (m M : R), 0 < m -> (forall u : R, 0 <= u <= 1 -> m <= C04.cubic_speed s u <= M) -> M <= 2 * m -> forall (cap : nat) (d : R) (es : list edge), 0 < d -> ~ Cubic_length ROps s < d -> Cubic_flatten ROps cap s d = Ok es -> C10flat.cubic_arclen s 0 1 <= INR (length es) * (d + M * (1 / Cubic_length ROps s) + 4 / 10 ^ 4 * C10flat.cubic_arclen s 0 1) /\ ((1 + 2 / 10 ^ 4) * (d + M * (1 / Cubic_length ROps s) + 4 / 10 ^ 4 * C10flat.cubic_arclen s 0 1) < 2 * d -> Cubic_length ROps s / (2 * d) < INR (length es)) /\ (201 / 100 + 5 / 10 ^ 4 * C10flat.cubic_arclen s 0 1 <= d -> Cubic_length ROps s / (2 * d) < INR (length es)).
Proof. exact @C16space.gentle_cubic_edge_count. Qed.
Theorem C17_arch_gentle :
  forall k : R, 0 < k -> forall u : R, 0 <= u <= 1 -> 3 * k / 2 <= C04.cubic_speed (C10flat.arch k) u <= 3 * k.
Proof. exact @C16space.arch_gentle. Qed.
Theorem C17_arch100_flatten_gentle :
  exists es : list edge, Cubic_flatten ROps 256 (C10flat.arch 100) 8 = Ok es /\ Rabs (Cubic_area ROps (C10flat.arch 100) - C10.sum_line_areas (map fst es)) <= 10 * 200 /\ Cubic_length ROps (C10flat.arch 100) / (2 * 8) < INR (length es).
Proof. exact @C16space.arch100_flatten_gentle. Qed.
Theorem C17_quad_flatten_edge_count_exact :
  forall (cap : nat) (q : seg3 R) (d : R) (es : list edge), 0 < d -> ~ Quad_length ROps q < d -> Quad_flatten ROps cap q d = Ok es -> INR (length es) - 1 <= Quad_length ROps q / d < INR (length es).
Proof. exact @C10path.quad_flatten_edge_count_exact. Qed.
Theorem C17_quad_flatten_edge_count :
  forall (cap : nat) (q : seg3 R) (d : R) (es : list edge), 0 < d -> ~ Quad_length ROps q < d -> Quad_flatten ROps cap q d = Ok es -> Quad_length ROps q / (2 * d) < INR (length es).
Proof. exact @C10path.quad_flatten_edge_count. Qed.
Theorem C17_qarch_flatten_gentle :
  exists es : list edge, Quad_flatten ROps 64 C10path.qarch 8 = Ok es /\ Rabs (Quad_area ROps C10path.qarch - C10.sum_line_areas (map fst es)) <= 4002 / 1000 * C10flat.quad_arclen C10path.qarch 0 1 /\ Quad_length ROps C10path.qarch / 8 < INR (length es) /\ Quad_length ROps C10path.qarch / (2 * 8) < INR (length es).
Proof. exact @C10path.qarch_flatten_gentle. Qed.

Print Assumptions C17_curve_flatten_spec.
Print Assumptions C17_quad_flatten_uniform.
Print Assumptions C17_short_chord_and_line_identity.
Print Assumptions C17_origin_recorded.
Print Assumptions C17_flatten_no_raise.
Print Assumptions C17_path_flatten_spec.
Print Assumptions C17_edge_count_refuted.
Print Assumptions C17_flatten_nonvacuous.
Print Assumptions C17_seg_flatten_is_generated.
Print Assumptions C17_Path_flatten_fuel_gen.
Print Assumptions C17_path_flatten_gen.
Print Assumptions C17_gentle_cubic_flatten_fine.
Print Assumptions C17_gentle_cubic_edge_count.
Print Assumptions C17_arch_gentle.
Print Assumptions C17_arch100_flatten_gentle.
Print Assumptions C17_quad_flatten_edge_count_exact.
Print Assumptions C17_quad_flatten_edge_count.
Print Assumptions C17_qarch_flatten_gentle.
