(* C16 -- Arc-length parametrisation is monotone, complete and evenly spaced.
   Statements only; every proof is [exact <lemma of Proofs/C16.v or Proofs/C16cont.v>].
   MODELLED.  X_lengthAtTime, X_length, X_pointAtTime (X = Line, Quad, Cubic) are regenerated from /repo on every run
   (ROps instance).  Hand/Sample.v is the hand-written model, generic in the scalar carrier, of SampleMixin.sample /
   regularSample / regularSampleTValue (the two while loops take explicit fuel and return [Raise OutOfFuel] when it runs
   out; the _auto wrappers used by seg_* / path_* compute fuel = min(cap, ceil x) + 3 from the inputs), and of
   BezierPath.length / pointAtTime / lengthAtTime (index floor(t*n); IndexError, ZeroDivisionError, ValueError,
   OverflowError are values [Raise _]).  It is tied to the code by the bit-exact correspondence check (float instance),
   which includes receivers whose 1/length stepping lands exactly on 1.0.
   PROVED (over R).  Segments: lengthAt 0 = 0 and lengthAt 1 = length, exactly, for the three kinds.  Paths:
   lengthAtTime 1 = length, lengthAtTime 0 = 0 (non-empty); pointAtTime t is segment number floor(t*n) at the fractional
   parameter for t in [0,1) and the last segment's end at t = 1; for a connected chain the same formula holds on the
   CLOSED parameter interval of every segment, so at a joint the value equals both one-sided limits, and the path is a
   continuous function of t on [0,1] (epsilon-delta, C16_path_continuous).  sample: for n > 0 the points are pointAtTime at
   0, 1/n, 2/n, ... (all <= 1) and then at 1: non-decreasing parameters in [0,1], first point = pointAt 0 = start, last
   point = pointAt 1 = end.  regularSampleTValue: on a receiver of positive length every successful result starts with
   exactly 0, ends with exactly 1, lies in [0,1] and is NON-DECREASING; regularSample's first/last points are the
   receiver's start/end.  No query raises: for length > 0, n > 0, fuel1 > floor(length) + 1, fuel2 > ceil(n) (hence for
   the _auto wrappers whenever length <= cap and n <= cap) sample / regularSampleTValue / regularSample return Ok, and
   path pointAtTime / lengthAtTime return Ok for every t in [0,1] including 1.0 on a non-empty path.
   REFUTED.  STRICT increase of the regular-sampling parameters is false of the faithful float model: a path with one
   dominant segment (lengths 46,1,1,1,1; n = 12 <= 50/4) returns the same parameter twice (C16_regular_not_strict_refuted).
   ACCURACY OF lengthAtTime (Proofs/C16acc.v, from the quadrature accuracy theorem of Proofs/C04acc.v): for a cubic or quadratic whose speed stays
   within a factor 2, lengthAtTime t is within 2e-4 of the exact arc length over [0,t]; between two parameters it increases by the true arc
   length between them (at least m (t2 - t1)) minus at most 4e-4 of the curve's length: non-decreasing up to that tolerance.
   SPACING (Proofs/C16space.v): consecutive parameters of regularSampleTValue enclose at most len/samples + K/len + 2 eps of any length function A that the
   recorded lengths approximate to eps and that grows by at most K per unit parameter; for gentle cubics and quadratics: at most length/n + 2.001 + 4e-4 L of
   exact arc length (an UPPER bound on every gap, the appended end included).
   NOT covered by a theorem: the same for curves whose speed varies by more than a factor 2, and the LOWER half of the spacing clause (gaps not
   smaller than length/n minus tolerance: false in general, see the refutation above); termination and
   absence of exceptions in FLOAT arithmetic (exercised bit-exactly by the correspondence, not proved). *)

From Coq Require Import PrimFloat.
From Coq Require Import ZArith List Bool Reals Lra Permutation Sorted.
From BZ Require Import Base.Ops Gen.Point Gen.Line Gen.Quad Gen.Cubic Gen.Sample Hand.Sample Proofs.C16 Proofs.C16cont Proofs.Bridge2.
Import ListNotations.
From BZ Require Proofs.C16space.
From BZ Require Proofs.C04 Proofs.C10flat Proofs.C16acc.
Open Scope R_scope.

Theorem C16_segment_lengthAt_ends :
  (forall s : seg2 R, Line_lengthAtTime ROps s 0 = 0 /\ Line_lengthAtTime ROps s 1 = Line_length ROps s) /\ (forall s : seg3 R, Quad_lengthAtTime ROps s 0 = 0 /\ Quad_lengthAtTime ROps s 1 = Quad_length ROps s) /\ (forall s : seg4 R, Cubic_lengthAtTime ROps s 0 = 0 /\ Cubic_lengthAtTime ROps s 1 = Cubic_length ROps s).
Proof. exact segment_lengthAt_ends. Qed.
Theorem C16_path_lengthAt_ends :
  forall (segs : list (segment R)), path_lengthAtTime ROps segs 1 = Ok (path_length ROps segs) /\ (segs <> [] -> path_lengthAtTime ROps segs 0 = Ok 0).
Proof. exact path_lengthAt_ends. Qed.
Theorem C16_path_eval_formula :
  forall (segs : list (segment R)), (forall t (k : nat) s, t <> 1 -> INR k <= t * INR (length segs) < INR k + 1 -> nth_error segs k = Some s -> path_pointAtTime ROps segs t = Ok (seg_pointAt ROps s (t * INR (length segs) - INR k))) /\ (forall s, last_opt segs = Some s -> path_pointAtTime ROps segs 1 = Ok (seg_end s)) /\ (segs <> [] -> forall t, 0 <= t <= 1 -> (exists p, path_pointAtTime ROps segs t = Ok p) /\ (exists v, path_lengthAtTime ROps segs t = Ok v)).
Proof. exact path_eval_formula. Qed.
Theorem C16_path_eval_joints :
  forall (segs : list (segment R)), connected segs -> (forall t (k : nat) s, nth_error segs k = Some s -> INR k <= t * INR (length segs) <= INR k + 1 -> path_pointAtTime ROps segs t = Ok (seg_pointAt ROps s (t * INR (length segs) - INR k))) /\ (forall (k : nat) a b, nth_error segs k = Some a -> nth_error segs (S k) = Some b -> path_pointAtTime ROps segs (INR (S k) / INR (length segs)) = Ok (seg_start b) /\ seg_pointAt ROps a 1 = seg_start b /\ seg_pointAt ROps b 0 = seg_start b).
Proof. exact path_eval_joints. Qed.
Theorem C16_sample_spec :
  forall (pointAt : R -> res (pt R)) fuel samples pts, 0 < samples -> sample ROps pointAt fuel samples = Ok pts -> (exists ts, mapM pointAt ts = Ok pts /\ nondecr ts /\ Forall in01 ts /\ hd_error ts = Some 0 /\ last_opt ts = Some 1 /\ forall i, (S i < length ts)%nat -> nth i ts 0 = INR i * (1 / samples)) /\ (exists p0 p1, pointAt 0 = Ok p0 /\ pointAt 1 = Ok p1 /\ hd_error pts = Some p0 /\ last_opt pts = Some p1).
Proof. exact sample_spec. Qed.
Theorem C16_sample_no_raise :
  forall (pointAt : R -> res (pt R)) f samples, 0 < samples -> samples < INR f -> (forall t, 0 <= t <= 1 -> exists p, pointAt t = Ok p) -> exists pts, sample ROps pointAt (S f) samples = Ok pts.
Proof. exact sample_no_raise. Qed.
Theorem C16_regular_spec :
  forall (lengthAt : R -> res R) (len : R) fuel1 fuel2 samples l, 0 < len -> regularSampleTValue ROps lengthAt len fuel1 fuel2 samples = Ok l -> last_opt l = Some 1 /\ Forall in01 l /\ nondecr l /\ ((forall v, lengthAt 0 = Ok v -> ~ v < 0) -> hd_error l = Some 0).
Proof. exact regular_spec. Qed.
Theorem C16_regular_no_raise_all :
  forall (pointAt : R -> res (pt R)) (lengthAt : R -> res R) (len : R) f1 f2 samples, 0 < len -> 0 < samples -> len < INR f1 -> samples <= INR f2 -> (forall t, 0 <= t <= 1 -> exists v, lengthAt t = Ok v) -> (forall v, lengthAt 0 = Ok v -> ~ v < 0) -> (exists l, regularSampleTValue ROps lengthAt len (S f1) (S f2) samples = Ok l /\ l <> []) /\ ((forall t, 0 <= t <= 1 -> exists p, pointAt t = Ok p) -> exists pts, regularSample ROps pointAt lengthAt len (S f1) (S f2) samples = Ok pts).
Proof. exact regular_no_raise_all. Qed.
Theorem C16_regularSample_first_last :
  forall (pointAt : R -> res (pt R)) (lengthAt : R -> res R) (len : R) fuel1 fuel2 samples pts, 0 < len -> (forall v, lengthAt 0 = Ok v -> ~ v < 0) -> regularSample ROps pointAt lengthAt len fuel1 fuel2 samples = Ok pts -> exists ts p0 p1, regularSampleTValue ROps lengthAt len fuel1 fuel2 samples = Ok ts /\ mapM pointAt ts = Ok pts /\ pointAt 0 = Ok p0 /\ pointAt 1 = Ok p1 /\ hd_error pts = Some p0 /\ last_opt pts = Some p1.
Proof. exact regularSample_first_last. Qed.
Theorem C16_seg_sampling :
  forall cap (s : segment R) samples, (0 < seg_length ROps s <= INR cap -> 0 < samples <= INR cap -> (exists pts, seg_sample ROps cap s samples = Ok pts) /\ (exists ts, seg_regularSampleTValue ROps cap s samples = Ok ts /\ ts <> []) /\ (exists pts, seg_regularSample ROps cap s samples = Ok pts)) /\ (forall ts, 0 < seg_length ROps s -> seg_regularSampleTValue ROps cap s samples = Ok ts -> hd_error ts = Some 0 /\ last_opt ts = Some 1 /\ Forall in01 ts /\ nondecr ts) /\ (forall pts, 0 < samples -> seg_sample ROps cap s samples = Ok pts -> hd_error pts = Some (seg_start s) /\ last_opt pts = Some (seg_end s)) /\ (forall pts, 0 < seg_length ROps s -> seg_regularSample ROps cap s samples = Ok pts -> hd_error pts = Some (seg_start s) /\ last_opt pts = Some (seg_end s)).
Proof. exact seg_sampling. Qed.
Theorem C16_path_sampling :
  forall cap (segs : list (segment R)) samples, (0 < path_length ROps segs <= INR cap -> 0 < samples <= INR cap -> (forall t, 0 <= t <= 1 -> (exists p, path_pointAtTime ROps segs t = Ok p) /\ (exists v, path_lengthAtTime ROps segs t = Ok v)) /\ (exists pts, path_sample ROps cap segs samples = Ok pts) /\ (exists ts, path_regularSampleTValue ROps cap segs samples = Ok ts /\ ts <> []) /\ (exists pts, path_regularSample ROps cap segs samples = Ok pts)) /\ (forall ts, 0 < path_length ROps segs -> path_regularSampleTValue ROps cap segs samples = Ok ts -> hd_error ts = Some 0 /\ last_opt ts = Some 1 /\ Forall in01 ts /\ nondecr ts) /\ (forall pts s0 s1, 0 < samples -> hd_error segs = Some s0 -> last_opt segs = Some s1 -> path_sample ROps cap segs samples = Ok pts -> hd_error pts = Some (seg_start s0) /\ last_opt pts = Some (seg_end s1)) /\ (forall pts s0 s1, 0 < path_length ROps segs -> hd_error segs = Some s0 -> last_opt segs = Some s1 -> path_regularSample ROps cap segs samples = Ok pts -> hd_error pts = Some (seg_start s0) /\ last_opt pts = Some (seg_end s1)).
Proof. exact path_sampling. Qed.
Theorem C16_regular_not_strict_refuted :
  path_length FOps dominant_path = 50%float /\ exists ts, path_regularSampleTValue FOps 4096 dominant_path 12%float = Ok ts /\ has_adjacent_equal ts = true.
Proof. exact regular_not_strict_refuted. Qed.
Theorem C16_nonvacuous :
  connected rect4 /\ path_length ROps rect4 = 16 /\ (exists ts, path_regularSampleTValue ROps 32 rect4 4 = Ok ts /\ ts <> []) /\ path_regularSampleTValue FOps 4096 [SLine (L2 (P (-2) 2) (P 2 2)); SLine (L2 (P 2 2) (P 2 (-2))); SLine (L2 (P 2 (-2)) (P (-2) (-2))); SLine (L2 (P (-2) (-2)) (P (-2) 2))]%float 4%float = Ok [0; 0.25; 0.5; 0.75; 1]%float /\ path_pointAtTime ROps [] 1 = Raise IndexError /\ path_lengthAtTime ROps [] (1/2) = Raise IndexError.
Proof. exact nonvacuous. Qed.
Theorem C16_path_continuous :
  forall segs t, connected segs -> segs <> [] -> 0 <= t <= 1 -> forall eps, 0 < eps -> exists delta, 0 < delta /\ forall t', 0 <= t' <= 1 -> Rabs (t' - t) < delta -> Rabs (px (path_pt segs t') - px (path_pt segs t)) < eps /\ Rabs (py (path_pt segs t') - py (path_pt segs t)) < eps.
Proof. exact path_continuous. Qed.
(* the hand-written sampling loops ARE the loops regenerated from the source by the translator (Proofs/Bridge2.v): for every scalar carrier whose
   literals 1.0 / 0.0 are the integers 1 / 0 (true of R and of binary64: lit_ok_R, lit_ok_F), with out-of-fuel on one side iff on the other *)
Theorem C16_lit_ok_carriers :
  lit_ok ROps /\ lit_ok FOps.
Proof. exact (conj lit_ok_R lit_ok_F). Qed.
Theorem C16_Cubic_sample_is_generated :
  forall (T : Type) (O : Ops T), lit_ok O -> forall fuel (s : seg4 T) samples, eqb O samples (zero O) = false -> res_of_fuel (Cubic_sample O fuel s samples) = Hand.Sample.sample O (fun t => Ok (Cubic_pointAtTime O s t)) fuel samples.
Proof. exact @Cubic_sample_gen. Qed.
Theorem C16_Quad_sample_is_generated :
  forall (T : Type) (O : Ops T), lit_ok O -> forall fuel (s : seg3 T) samples, eqb O samples (zero O) = false -> res_of_fuel (Quad_sample O fuel s samples) = Hand.Sample.sample O (fun t => Ok (Quad_pointAtTime O s t)) fuel samples.
Proof. exact @Quad_sample_gen. Qed.
Theorem C16_Cubic_regularSampleTValue_is_generated :
  forall (T : Type) (O : Ops T), lit_ok O -> forall fuel (s : seg4 T) samples, eqb O samples (zero O) = false -> res_of (Cubic_regularSampleTValue O fuel s samples) = regularSampleTValue O (fun t => Ok (Cubic_lengthAtTime O s t)) (Cubic_length O s) fuel fuel samples.
Proof. exact @Cubic_regularSampleTValue_gen. Qed.
Theorem C16_Line_regularSampleTValue_is_generated :
  forall (T : Type) (O : Ops T), lit_ok O -> forall fuel (s : seg2 T) samples, eqb O samples (zero O) = false -> res_of (Line_regularSampleTValue O fuel s samples) = regularSampleTValue O (fun t => Ok (Line_lengthAtTime O s t)) (Line_length O s) fuel fuel samples.
Proof. exact @Line_regularSampleTValue_gen. Qed.
Theorem C16_Path_length_is_generated :
  forall (T : Type) (O : Ops T) (segs : list (segment T)), Path_length O segs = path_length O segs.
Proof. exact @Path_length_gen. Qed.
Theorem C16_Path_pointAtTime_is_generated :
  forall (T : Type) (O : Ops T), lit_ok O -> forall (segs : list (segment T)) (t : T), res_of_outcome (Path_pointAtTime O segs t) = path_pointAtTime O segs t.
Proof. exact @Path_pointAtTime_gen. Qed.
Theorem C16_Path_lengthAtTime_is_generated :
  forall (T : Type) (O : Ops T), lit_ok O -> forall (segs : list (segment T)) (t : T), res_of_outcome (Path_lengthAtTime O segs t) = path_lengthAtTime O segs t.
Proof. exact @Path_lengthAtTime_gen. Qed.
Theorem C16_cubic_lengthAtTime_accuracy :
  forall (s : seg4 R) (m M t : R), 0 < m -> (forall u : R, 0 <= u <= 1 -> m <= C04.cubic_speed s u <= M) -> M <= 2 * m -> 0 < t <= 1 -> Rabs (Cubic_lengthAtTime ROps s t - C10flat.cubic_arclen s 0 t) <= 2 / 10 ^ 4 * C10flat.cubic_arclen s 0 t.
Proof. exact @C16acc.cubic_lengthAtTime_accuracy. Qed.
Theorem C16_quad_lengthAtTime_accuracy :
  forall (s : seg3 R) (m M t : R), 0 < m -> (forall u : R, 0 <= u <= 1 -> m <= C04.quad_speed s u <= M) -> M <= 2 * m -> 0 < t <= 1 -> Rabs (Quad_lengthAtTime ROps s t - C10flat.quad_arclen s 0 t) <= 2 / 10 ^ 4 * C10flat.quad_arclen s 0 t.
Proof. exact @C16acc.quad_lengthAtTime_accuracy. Qed.
Theorem C16_cubic_lengthAtTime_increase :
  forall (s : seg4 R) (m M t1 t2 : R), 0 < m -> (forall u : R, 0 <= u <= 1 -> m <= C04.cubic_speed s u <= M) -> M <= 2 * m -> 0 < t1 <= t2 -> t2 <= 1 -> Cubic_lengthAtTime ROps s t2 - Cubic_lengthAtTime ROps s t1 >= C10flat.cubic_arclen s t1 t2 - 4 / 10 ^ 4 * C10flat.cubic_arclen s 0 1 /\ C10flat.cubic_arclen s t1 t2 >= m * (t2 - t1).
Proof. exact @C16acc.cubic_lengthAtTime_increase. Qed.
Theorem C16_regular_gaps :
  forall (lengthAt : R -> res R) (len : R) (A : R -> R) (eps K samples : R), 0 < len -> 0 < samples -> 0 <= eps -> 0 <= K -> (forall t v : R, 0 <= t <= 1 -> lengthAt t = Ok v -> Rabs (v - A t) <= eps) -> Rabs (len - A 1) <= eps -> (forall t h : R, 0 <= t -> 0 <= h -> t + h <= 1 -> A (t + h) - A t <= K * h) -> forall (fuel1 fuel2 : nat) (ts : list R), regularSampleTValue ROps lengthAt len fuel1 fuel2 samples = Ok ts -> C16space.arc_gaps A (len / samples + K * (1 / len) + 2 * eps) ts.
Proof. exact @C16space.regular_gaps. Qed.
Theorem C16_regular_fine_partition :
  forall (lengthAt : R -> res R) (len : R) (A : R -> R) (eps K samples : R), 0 < len -> 0 < samples -> 0 <= eps -> 0 <= K -> (forall t v : R, 0 <= t <= 1 -> lengthAt t = Ok v -> Rabs (v - A t) <= eps) -> Rabs (len - A 1) <= eps -> (forall t h : R, 0 <= t -> 0 <= h -> t + h <= 1 -> A (t + h) - A t <= K * h) -> forall (fuel1 fuel2 : nat) (ts : list R), regularSampleTValue ROps lengthAt len fuel1 fuel2 samples = Ok ts -> exists (t0 : R) (r : list R), ts = t0 :: r /\ C10flat.fine_partition (fun a b : R => A b - A a) (len / samples + K * (1 / len) + 2 * eps) t0 r 1.
Proof. exact @C16space.regular_fine_partition. Qed.
Theorem C16_cubic_regular_spacing :
  forall (s : seg4 R) (m M : R), 0 < m -> (forall u : R, 0 <= u <= 1 -> m <= C04.cubic_speed s u <= M) -> M <= 2 * m -> forall (cap : nat) (samples : R) (ts : list R), 0 < samples -> seg_regularSampleTValue ROps cap (SCubic s) samples = Ok ts -> C10flat.fine_partition_01 (C10flat.cubic_arclen s) (Cubic_length ROps s / samples + M * (1 / Cubic_length ROps s) + 4 / 10 ^ 4 * C10flat.cubic_arclen s 0 1) ts.
Proof. exact @C16space.cubic_regular_spacing. Qed.
Theorem C16_cubic_regular_spacing_const :
  forall (s : seg4 R) (m M : R), 0 < m -> (forall u : R, 0 <= u <= 1 -> m <= C04.cubic_speed s u <= M) -> M <= 2 * m -> forall (cap : nat) (samples : R) (ts : list R), 0 < samples -> seg_regularSampleTValue ROps cap (SCubic s) samples = Ok ts -> C10flat.fine_partition_01 (C10flat.cubic_arclen s) (Cubic_length ROps s / samples + 2001 / 1000 + 4 / 10 ^ 4 * C10flat.cubic_arclen s 0 1) ts.
Proof. exact @C16space.cubic_regular_spacing_const. Qed.
Theorem C16_quad_regular_spacing :
  forall (s : seg3 R) (m M : R), 0 < m -> (forall u : R, 0 <= u <= 1 -> m <= C04.quad_speed s u <= M) -> M <= 2 * m -> forall (cap : nat) (samples : R) (ts : list R), 0 < samples -> seg_regularSampleTValue ROps cap (SQuad s) samples = Ok ts -> C10flat.fine_partition_01 (C10flat.quad_arclen s) (Quad_length ROps s / samples + M * (1 / Quad_length ROps s) + 4 / 10 ^ 4 * C10flat.quad_arclen s 0 1) ts.
Proof. exact @C16space.quad_regular_spacing. Qed.

Print Assumptions C16_segment_lengthAt_ends.
Print Assumptions C16_path_lengthAt_ends.
Print Assumptions C16_path_eval_formula.
Print Assumptions C16_path_eval_joints.
Print Assumptions C16_sample_spec.
Print Assumptions C16_sample_no_raise.
Print Assumptions C16_regular_spec.
Print Assumptions C16_regular_no_raise_all.
Print Assumptions C16_regularSample_first_last.
Print Assumptions C16_seg_sampling.
Print Assumptions C16_path_sampling.
Print Assumptions C16_regular_not_strict_refuted.
Print Assumptions C16_nonvacuous.
Print Assumptions C16_path_continuous.
Print Assumptions C16_lit_ok_carriers.
Print Assumptions C16_Cubic_sample_is_generated.
Print Assumptions C16_Quad_sample_is_generated.
Print Assumptions C16_Cubic_regularSampleTValue_is_generated.
Print Assumptions C16_Line_regularSampleTValue_is_generated.
Print Assumptions C16_Path_length_is_generated.
Print Assumptions C16_Path_pointAtTime_is_generated.
Print Assumptions C16_Path_lengthAtTime_is_generated.
Print Assumptions C16_cubic_lengthAtTime_accuracy.
Print Assumptions C16_quad_lengthAtTime_accuracy.
Print Assumptions C16_cubic_lengthAtTime_increase.
Print Assumptions C16_regular_gaps.
Print Assumptions C16_regular_fine_partition.
Print Assumptions C16_cubic_regular_spacing.
Print Assumptions C16_cubic_regular_spacing_const.
Print Assumptions C16_quad_regular_spacing.
