(* C08 -- Segment, node-list and textual representations are lossless.
   Statements only; every proof is [exact <lemma of Proofs/C08.v>].  toNodelist / fromNodelist / asSegments / asNodelist /
   svg_path / repr_* / parse_* (Hand/Nodelist.v) are the hand-written, executable model of
   path/representations/Segment.py, Nodelist.py, BezierPath.asSVGPath and the __repr__/fromRepr pairs (the four regexes
   as explicit backtracking matchers), tied to the code by the correspondence check.
   Proved: segments -> node list -> segments is the identity for every connected open chain and every closed chain
   whose end equals its start, for any number of repetitions; the closing rule adds exactly one segment ending at the
   first on-curve node (and nothing when the list already returns to it); for a closed node list in which no two
   cyclically adjacent on-curve nodes coincide (in particular: the start is not repeated at the end), EVERY rotation,
   including those starting on an off-curve node, yields a cyclic rotation of the same segment list; without that
   hypothesis the statement is false (witness ..._refuted: the node list of a closed triangle that repeats its start);
   the SVG string has one M, one L/Q/C part per segment with exactly its control points, Z iff closed.
   The textual round trips are proved relative to runtime hypotheses on CPython's repr(float)/float(str)
   (parse (fmt x) = Some x; fmt x is non-empty and contains none of ',' '>' newline): premises, not axioms; they are
   exercised on every class of double by the correspondence, not proved. *)

From Coq Require Import PrimFloat.
From Coq Require Import ZArith List Bool Reals Lra Permutation.
From BZ Require Import Base.Ops Hand.Nodelist Proofs.C08.
From BZ Require Gen.Sample Gen.Nodelist Proofs.Bridge3.
Import ListNotations.
From BZ Require Proofs.Transfer3.
Open Scope R_scope.

Theorem C08_nodes_roundtrip_open :
  forall (segs : list (segment R)), wf_chain segs -> segs <> [] -> obind (fromNodelist ROps false) (toNodelist segs) = Some segs.
Proof. exact nodes_roundtrip_open. Qed.
Theorem C08_nodes_roundtrip_closed :
  forall (segs : list (segment R)), wf_chain segs -> segs <> [] -> last_end segs = first_start segs -> obind (fromNodelist ROps true) (toNodelist segs) = Some segs.
Proof. exact nodes_roundtrip_closed. Qed.
Theorem C08_roundtrip_iterated :
  forall (closed : bool) (segs : list (segment R)) (n : nat), wf_chain segs -> segs <> [] -> (closed = true -> last_end segs = first_start segs) -> Nat.iter n (obind (roundtrip ROps closed)) (Some segs) = Some segs.
Proof. exact roundtrip_iterated. Qed.
Theorem C08_path_roundtrip :
  forall (closed : bool) (segs : list (segment R)), wf_chain segs -> segs <> [] -> (closed = true -> last_end segs = first_start segs) -> exists nl, asNodelist (SegRep segs, closed) = Some ((NodeRep nl, closed), nl) /\ asSegments ROps (NodeRep nl, closed) = Some ((SegRep segs, closed), segs).
Proof. exact path_roundtrip. Qed.
Theorem C08_closing_segment_unique :
  forall (nl : list (node R)) segs f l, first_on nl = Some f -> last_on nl = Some l -> pclose ROps l f = false -> fromNodelist ROps false nl = Some segs -> forall r, fromNodelist ROps true nl = Some r -> exists s, r = segs ++ [s] /\ seg_start s = l /\ seg_end s = f.
Proof. exact closing_segment_unique. Qed.
Theorem C08_closing_segment_exists :
  forall (nl : list (node R)) segs f l, first_on nl = Some f -> last_on nl = Some l -> pclose ROps l f = false -> fromNodelist ROps false nl = Some segs -> (trailing_offs nl + leading_offs nl <= 2)%nat -> exists s, fromNodelist ROps true nl = Some (segs ++ [s]) /\ seg_start s = l /\ seg_end s = f.
Proof. exact closing_segment_exists. Qed.
Theorem C08_closing_adds_nothing :
  forall (nl : list (node R)) f l, first_on nl = Some f -> last_on nl = Some l -> pclose ROps l f = true -> trailing_offs nl = 0%nat -> leading_offs nl = 0%nat -> fromNodelist ROps true nl = fromNodelist ROps false nl.
Proof. exact closing_adds_nothing. Qed.
Theorem C08_nodes_roundtrip_closed_unclosed :
  forall (segs : list (segment R)) e f, wf_chain segs -> last_end segs = Some e -> first_start segs = Some f -> pclose ROps e f = false -> obind (fromNodelist ROps true) (toNodelist segs) = Some (segs ++ [SLine (L2 e f)]).
Proof. exact nodes_roundtrip_closed_unclosed. Qed.
Theorem C08_rotation_invariant :
  forall (nl : list (node R)) segs, has_on nl = true -> cyc_no_close_adj ROps nl -> fromNodelist ROps true nl = Some segs -> forall k, exists j, fromNodelist ROps true (rotl k nl) = Some (rotl j segs).
Proof. exact rotation_invariant. Qed.
Theorem C08_rotation_invariant_refuted :
  exists (nl : list (node R)) segs k, has_on nl = true /\ fromNodelist ROps true nl = Some segs /\ forall j, fromNodelist ROps true (rotl k nl) <> Some (rotl j segs).
Proof. exact rotation_invariant_refuted. Qed.
Theorem C08_ex_roundtrip_open :
  obind (fromNodelist ROps false) (toNodelist ex_segs) = Some ex_segs.
Proof. exact ex_roundtrip_open. Qed.
Theorem C08_ex_roundtrip_closed :
  obind (fromNodelist ROps true) (toNodelist ex_segs) = Some ex_segs.
Proof. exact ex_roundtrip_closed. Qed.
Theorem C08_ex_roundtrip_5 :
  Nat.iter 5 (obind (roundtrip ROps true)) (Some ex_segs) = Some ex_segs.
Proof. exact ex_roundtrip_5. Qed.
Theorem C08_ex_rotation_offcurve :
  fromNodelist ROps true (rotl 1 ex_nl) = Some ex_nl_segs.
Proof. exact ex_rotation_offcurve. Qed.
Theorem C08_ex_nl_cyc :
  cyc_no_close_adj ROps ex_nl.
Proof. exact ex_nl_cyc. Qed.

From Coq Require Import String.
Open Scope string_scope.
Theorem C08_svg_shape :
  forall (T : Type) (fmt6 : T -> String.string) (closed : bool) (segs : list (segment T)),
  svg_path fmt6 closed segs =
  match segs with
  | nil => None
  | s0 :: _ => Some (String.concat " " (svg_move fmt6 s0 :: map (svg_part fmt6) segs ++ (if closed then "Z" :: nil else nil)))
  end.
Proof. exact (fun T => @svg_shape T). Qed.
Theorem C08_parse_point_repr :
  forall (T : Type) (fmt : T -> String.string) (parse : String.string -> option T),
  (forall x : T, parse (fmt x) = Some x) -> (forall x : T, fmt x <> "") -> (forall x : T, str_all fmt_char_ok (fmt x) = true) ->
  forall p : pt T, parse_point parse (repr_point fmt p) = Some p.
Proof. exact parse_point_repr. Qed.
Theorem C08_parse_line_repr :
  forall (T : Type) (fmt : T -> String.string) (parse : String.string -> option T),
  (forall x : T, parse (fmt x) = Some x) -> (forall x : T, fmt x <> "") -> (forall x : T, str_all fmt_char_ok (fmt x) = true) ->
  forall s : seg2 T, parse_line parse (repr_line fmt s) = Some s.
Proof. exact parse_line_repr. Qed.
Theorem C08_parse_quad_repr :
  forall (T : Type) (fmt : T -> String.string) (parse : String.string -> option T),
  (forall x : T, parse (fmt x) = Some x) -> (forall x : T, fmt x <> "") -> (forall x : T, str_all fmt_char_ok (fmt x) = true) ->
  forall s : seg3 T, parse_quad parse (repr_quad fmt s) = Some s.
Proof. exact parse_quad_repr. Qed.
Theorem C08_parse_cubic_repr :
  forall (T : Type) (fmt : T -> String.string) (parse : String.string -> option T),
  (forall x : T, parse (fmt x) = Some x) -> (forall x : T, fmt x <> "") -> (forall x : T, str_all fmt_char_ok (fmt x) = true) ->
  forall s : seg4 T, parse_cubic parse (repr_cubic fmt s) = Some s.
Proof. exact parse_cubic_repr. Qed.
(* the node-list conversions of the hand model ARE the ones regenerated from the source (Proofs/Bridge3.v), for every scalar carrier; node types
   "line"/"curve"/"offcurve" are the three constructors on both sides (node_of is a bijection), a Python exception is None on the hand side *)
Theorem C08_toNodelist_is_generated :
  forall (T : Type) (O : Ops T) (c : bool) (segs : list (segment T)), toNodelist segs = option_map (map (@Bridge3.node_of T)) (Bridge3.opt_of_outcome (Gen.Nodelist.SegRep_toNodelist O (Gen.Nodelist.MkSegRep c segs))).
Proof. exact @Bridge3.toNodelist_gen. Qed.
Theorem C08_fromNodelist_is_generated :
  forall (T : Type) (O : Ops T) (c : bool) (nl : list (Gen.Nodelist.gnode T)), fromNodelist O c (map (@Bridge3.node_of T) nl) = option_map (@Gen.Nodelist.sr_segments T) (Bridge3.opt_of_outcome (Gen.Nodelist.SegRep_fromNodelist O c nl)).
Proof. exact @Bridge3.fromNodelist_gen. Qed.
Theorem C08_gen_nodes_roundtrip_open :
  forall (T : Type) (O : Ops T) (segs : list (segment T)), wf_chain segs -> segs <> [] -> Transfer3.C08T.gen_roundtrips O false segs segs.
Proof. exact @Transfer3.C08T.gen_nodes_roundtrip_open. Qed.
Theorem C08_gen_nodes_roundtrip_closed :
  forall segs : list (segment R), wf_chain segs -> segs <> [] -> last_end segs = first_start segs -> Transfer3.C08T.gen_roundtrips ROps true segs segs.
Proof. exact @Transfer3.C08T.gen_nodes_roundtrip_closed. Qed.
Theorem C08_gen_nodes_roundtrip_closed_unclosed :
  forall (segs : list (segment R)) (e f : pt R), wf_chain segs -> last_end segs = Some e -> first_start segs = Some f -> pclose ROps e f = false -> Transfer3.C08T.gen_roundtrips ROps true segs (segs ++ [SLine {| l0 := e; l1 := f |}])%list.
Proof. exact @Transfer3.C08T.gen_nodes_roundtrip_closed_unclosed. Qed.
Theorem C08_gen_toNodelist_empty_raises :
  forall (T : Type) (O : Ops T) (closed : bool), Nodelist.SegRep_toNodelist O {| Nodelist.sr_path := closed; Nodelist.sr_segments := [] |} = Sample.Raises Sample.PyIndexError.
Proof. exact @Transfer3.C08T.gen_toNodelist_empty_raises. Qed.
Theorem C08_gen_rotation_invariant :
  forall (T : Type) (O : Ops T) (gl : list (Nodelist.gnode T)) (r : Nodelist.segrep T), has_on (map Bridge3.node_of gl) = true -> cyc_no_close_adj O (map Bridge3.node_of gl) -> Nodelist.SegRep_fromNodelist O true gl = Sample.Returns r -> forall k : nat, exists r' : Nodelist.segrep T, Nodelist.SegRep_fromNodelist O true (rotl k gl) = Sample.Returns r' /\ Nodelist.sr_path r' = true /\ Nodelist.sr_segments r' = rotl (passed k (map Bridge3.node_of gl)) (Nodelist.sr_segments r).
Proof. exact @Transfer3.C08T.gen_rotation_invariant. Qed.
Theorem C08_gen_closing_segment_exists :
  forall (T : Type) (O0 : Ops T) (gl : list (Nodelist.gnode T)) (r : Nodelist.segrep T) (f l : pt T), first_on (map Bridge3.node_of gl) = Some f -> last_on (map Bridge3.node_of gl) = Some l -> pclose O0 l f = false -> Nodelist.SegRep_fromNodelist O0 false gl = Sample.Returns r -> (trailing_offs (map Bridge3.node_of gl) + leading_offs (map Bridge3.node_of gl) <= 2)%nat -> exists (r' : Nodelist.segrep T) (s : segment T), Nodelist.SegRep_fromNodelist O0 true gl = Sample.Returns r' /\ Nodelist.sr_path r' = true /\ Nodelist.sr_segments r' = (Nodelist.sr_segments r ++ [s])%list /\ seg_start s = l /\ seg_end s = f.
Proof. exact @Transfer3.C08T.gen_closing_segment_exists. Qed.
Theorem C08_gen_closing_adds_nothing :
  forall (T : Type) (O0 : Ops T) (gl : list (Nodelist.gnode T)) (r : Nodelist.segrep T) (f l : pt T), first_on (map Bridge3.node_of gl) = Some f -> last_on (map Bridge3.node_of gl) = Some l -> pclose O0 l f = true -> trailing_offs (map Bridge3.node_of gl) = 0%nat -> leading_offs (map Bridge3.node_of gl) = 0%nat -> Nodelist.SegRep_fromNodelist O0 false gl = Sample.Returns r -> exists r' : Nodelist.segrep T, Nodelist.SegRep_fromNodelist O0 true gl = Sample.Returns r' /\ Nodelist.sr_path r' = true /\ Nodelist.sr_segments r' = Nodelist.sr_segments r.
Proof. exact @Transfer3.C08T.gen_closing_adds_nothing. Qed.
Theorem C08_gen_closing_segment_fails :
  forall (T : Type) (O0 : Ops T) (gl : list (Nodelist.gnode T)), has_on (map Bridge3.node_of gl) = true -> (trailing_offs (map Bridge3.node_of gl) + leading_offs (map Bridge3.node_of gl) > 2)%nat -> exists e : Sample.pyexc, Nodelist.SegRep_fromNodelist O0 true gl = Sample.Raises e.
Proof. exact @Transfer3.C08T.gen_closing_segment_fails. Qed.

Print Assumptions C08_nodes_roundtrip_open.
Print Assumptions C08_nodes_roundtrip_closed.
Print Assumptions C08_roundtrip_iterated.
Print Assumptions C08_path_roundtrip.
Print Assumptions C08_closing_segment_unique.
Print Assumptions C08_closing_segment_exists.
Print Assumptions C08_closing_adds_nothing.
Print Assumptions C08_nodes_roundtrip_closed_unclosed.
Print Assumptions C08_rotation_invariant.
Print Assumptions C08_rotation_invariant_refuted.
Print Assumptions C08_ex_roundtrip_open.
Print Assumptions C08_ex_roundtrip_closed.
Print Assumptions C08_ex_roundtrip_5.
Print Assumptions C08_ex_rotation_offcurve.
Print Assumptions C08_ex_nl_cyc.
Print Assumptions C08_svg_shape.
Print Assumptions C08_parse_point_repr.
Print Assumptions C08_parse_line_repr.
Print Assumptions C08_parse_quad_repr.
Print Assumptions C08_parse_cubic_repr.
Print Assumptions C08_toNodelist_is_generated.
Print Assumptions C08_fromNodelist_is_generated.
Print Assumptions C08_gen_nodes_roundtrip_open.
Print Assumptions C08_gen_nodes_roundtrip_closed.
Print Assumptions C08_gen_nodes_roundtrip_closed_unclosed.
Print Assumptions C08_gen_toNodelist_empty_raises.
Print Assumptions C08_gen_rotation_invariant.
Print Assumptions C08_gen_closing_segment_exists.
Print Assumptions C08_gen_closing_adds_nothing.
Print Assumptions C08_gen_closing_segment_fails.
