(* C02 -- Bounding boxes enclose the curve and are tight.
   Statements only; every proof is [exact <lemma of Proofs/C02.v>].  utils_quadraticRoots, X_findExtremes,
   X_pointAtTime, X_derivative, BBox_includes are regenerated from /repo on every run (ROps instance);
   extend_pt / bounds_of / X_bounds / path_bounds (Hand/Bounds.v) are the hand-written model of BoundingBox.extend,
   Segment.bounds and BezierPath.bounds, tied to the code by the correspondence check.
   [sigma e] = 6/10000 * e, [cubic_ext]/[quad_ext] = max - min of the control values in a coordinate.
   Proved for ALL segments and all t in [0,1]: the reported box, enlarged by 0.06% of the control-polygon extent,
   contains the point at t (no hypothesis at all: cubic_bounds_enclose_total, quad_bounds_enclose); with no derivative
   zero in the end slivers (0,0.01) U (0.99,1) -- and, for cubics, a derivative whose leading coefficient is 0 or
   non-negligible -- the box itself contains it (sigma = 0); lines exactly; tightness: each side is the coordinate of
   the curve at 0, 1 or a reported extremum; the path box is the join (least upper bound) of the segment boxes.
   NOT covered by a theorem: float placement of the roots (a root misplaced by 1 ulp protrudes by O(ulp^2)). *)

From Coq Require Import PrimFloat.
From Coq Require Import ZArith List Bool Reals Lra Permutation.
From BZ Require Import Base.Ops Gen.Utils Gen.Point Gen.BBox Gen.Line Gen.Quad Gen.Cubic Hand.Bounds Proofs.C02 Proofs.Bridge.
Import ListNotations.
Open Scope R_scope.

Theorem C02_quadraticRoots_spec :
  forall a b c t, (Rabs a > tiny * Rabs b -> 0 < b*b - 4*a*c -> (In t (utils_quadraticRoots ROps a b c) <-> 0 <= t <= 1 /\ a*t*t + b*t + c = 0)) /\ (Rabs a > tiny * Rabs b -> b*b - 4*a*c <= 0 -> utils_quadraticRoots ROps a b c = []) /\ (a = 0 -> (In t (utils_quadraticRoots ROps a b c) <-> b <> 0 /\ 0 <= t <= 1 /\ b*t + c = 0)) /\ (Rabs a <= tiny * Rabs b -> (In t (utils_quadraticRoots ROps a b c) <-> b <> 0 /\ 0 <= t <= 1 /\ b*t + c = 0)).
Proof. exact quadraticRoots_spec. Qed.
Theorem C02_quadraticRoots_near_linear :
  forall a b c t, Rabs a <= tiny * Rabs b -> In t (utils_quadraticRoots ROps a b c) -> b <> 0 /\ 0 <= t <= 1 /\ b*t + c = 0 /\ Rabs (a*t*t + b*t + c) <= Rabs a /\ Rabs a <= tiny * Rabs b.
Proof. exact quadraticRoots_near_linear. Qed.
Theorem C02_cubic_bounds_enclose_total :
  forall c b, Cubic_bounds ROps c = Some b -> forall t, 0 <= t <= 1 -> px (bl b) - sigma (cubic_ext px c) <= px (Cubic_pointAtTime ROps c t) <= px (tr b) + sigma (cubic_ext px c) /\ py (bl b) - sigma (cubic_ext py c) <= py (Cubic_pointAtTime ROps c t) <= py (tr b) + sigma (cubic_ext py c).
Proof. exact cubic_bounds_enclose_total. Qed.
Theorem C02_cubic_bounds_enclose :
  forall c b, genuine c -> Cubic_bounds ROps c = Some b -> forall t, 0 <= t <= 1 -> px (bl b) - sigma (cubic_ext px c) <= px (Cubic_pointAtTime ROps c t) <= px (tr b) + sigma (cubic_ext px c) /\ py (bl b) - sigma (cubic_ext py c) <= py (Cubic_pointAtTime ROps c t) <= py (tr b) + sigma (cubic_ext py c).
Proof. exact cubic_bounds_enclose. Qed.
Theorem C02_cubic_bounds_enclose_exact :
  forall c b, genuine c -> no_sliver_zero (fun u => px (Quad_pointAtTime ROps (Cubic_derivative ROps c) u)) -> no_sliver_zero (fun u => py (Quad_pointAtTime ROps (Cubic_derivative ROps c) u)) -> Cubic_bounds ROps c = Some b -> forall t, 0 <= t <= 1 -> BBox_includes ROps b (Cubic_pointAtTime ROps c t) = true.
Proof. exact cubic_bounds_enclose_exact. Qed.
Theorem C02_quad_bounds_enclose :
  forall q b, Quad_bounds ROps q = Some b -> forall t, 0 <= t <= 1 -> px (bl b) - sigma (quad_ext px q) <= px (Quad_pointAtTime ROps q t) <= px (tr b) + sigma (quad_ext px q) /\ py (bl b) - sigma (quad_ext py q) <= py (Quad_pointAtTime ROps q t) <= py (tr b) + sigma (quad_ext py q).
Proof. exact quad_bounds_enclose. Qed.
Theorem C02_quad_bounds_enclose_exact :
  forall q b, no_sliver_zero (fun u => px (Line_pointAtTime ROps (Quad_derivative ROps q) u)) -> no_sliver_zero (fun u => py (Line_pointAtTime ROps (Quad_derivative ROps q) u)) -> Quad_bounds ROps q = Some b -> forall t, 0 <= t <= 1 -> BBox_includes ROps b (Quad_pointAtTime ROps q t) = true.
Proof. exact quad_bounds_enclose_exact. Qed.
Theorem C02_line_bounds_enclose :
  forall l b, Line_bounds ROps l = Some b -> forall t, 0 <= t <= 1 -> BBox_includes ROps b (Line_pointAtTime ROps l t) = true.
Proof. exact line_bounds_enclose. Qed.
Theorem C02_bounds_tight_cubic :
  forall c b, Cubic_bounds ROps c = Some b -> tight (Cubic_pointAtTime ROps c) (Cubic_findExtremes_False ROps c ++ [0; 1]) b.
Proof. exact bounds_tight_cubic. Qed.
Theorem C02_bounds_tight_quad :
  forall q b, Quad_bounds ROps q = Some b -> tight (Quad_pointAtTime ROps q) (Quad_findExtremes ROps q ++ [0; 1]) b.
Proof. exact bounds_tight_quad. Qed.
Theorem C02_bounds_tight_line :
  forall l b, Line_bounds ROps l = Some b -> tight (Line_pointAtTime ROps l) (Line_findExtremes ROps l ++ [0; 1]) b.
Proof. exact bounds_tight_line. Qed.
Theorem C02_segment_bounds_some :
  forall (s : segment R), exists b, segment_bounds ROps s = Some b /\ wf_box b.
Proof. exact segment_bounds_some. Qed.
Theorem C02_path_bounds_is_join :
  forall boxes b, path_bounds ROps boxes = Some b -> (forall x, In x boxes -> wf_box x) -> (forall x, In x boxes -> contains b x) /\ (forall b', (forall x, In x boxes -> contains b' x) -> contains b' b).
Proof. exact path_bounds_is_join. Qed.
Theorem C02_path_bounds_some :
  forall boxes, boxes <> [] -> exists b, path_bounds ROps boxes = Some b.
Proof. exact path_bounds_some. Qed.
Theorem C02_arch_needs_linear_branch :
  In (1/2) (Cubic_findExtremes_False ROps arch) /\ cfA py arch = 0 /\ exists b, Cubic_bounds ROps arch = Some b /\ py (tr b) = 75.
Proof. exact arch_needs_linear_branch. Qed.
Theorem C02_arch_genuine :
  genuine arch.
Proof. exact arch_genuine. Qed.
(* the hand models ARE the definitions regenerated from the source (Proofs/Bridge.v), for every scalar carrier *)
Theorem C02_extend_pt_is_generated :
  forall (T : Type) (O : Ops T) (b : option (bbox T)) (p : pt T), extend_pt O b p = BBox_extend_Point O b p.
Proof. exact @extend_pt_gen. Qed.
Theorem C02_extend_box_is_generated :
  forall (T : Type) (O : Ops T) (b : option (bbox T)) (o : bbox T), extend_box O b o = BBox_extend_BBox O b o.
Proof. exact @extend_box_gen. Qed.
Theorem C02_Line_bounds_is_generated :
  forall (T : Type) (O : Ops T) (s : seg2 T), Hand.Bounds.Line_bounds O s = Gen.Line.Line_bounds O s.
Proof. exact @Line_bounds_gen. Qed.
Theorem C02_Quad_bounds_is_generated :
  forall (T : Type) (O : Ops T) (s : seg3 T), Hand.Bounds.Quad_bounds O s = Gen.Quad.Quad_bounds O s.
Proof. exact @Quad_bounds_gen. Qed.
Theorem C02_Cubic_bounds_is_generated :
  forall (T : Type) (O : Ops T) (s : seg4 T), Hand.Bounds.Cubic_bounds O s = Gen.Cubic.Cubic_bounds O s.
Proof. exact @Cubic_bounds_gen. Qed.
Theorem C02_path_bounds_is_generated :
  forall (T : Type) (O : Ops T) (boxes : list (bbox T)), path_bounds O boxes = fold_left (BBox_extend_BBox O) boxes None.
Proof. exact @path_bounds_gen. Qed.

Print Assumptions C02_quadraticRoots_spec.
Print Assumptions C02_quadraticRoots_near_linear.
Print Assumptions C02_cubic_bounds_enclose_total.
Print Assumptions C02_cubic_bounds_enclose.
Print Assumptions C02_cubic_bounds_enclose_exact.
Print Assumptions C02_quad_bounds_enclose.
Print Assumptions C02_quad_bounds_enclose_exact.
Print Assumptions C02_line_bounds_enclose.
Print Assumptions C02_bounds_tight_cubic.
Print Assumptions C02_bounds_tight_quad.
Print Assumptions C02_bounds_tight_line.
Print Assumptions C02_segment_bounds_some.
Print Assumptions C02_path_bounds_is_join.
Print Assumptions C02_path_bounds_some.
Print Assumptions C02_arch_needs_linear_branch.
Print Assumptions C02_arch_genuine.
Print Assumptions C02_extend_pt_is_generated.
Print Assumptions C02_extend_box_is_generated.
Print Assumptions C02_Line_bounds_is_generated.
Print Assumptions C02_Quad_bounds_is_generated.
Print Assumptions C02_Cubic_bounds_is_generated.
Print Assumptions C02_path_bounds_is_generated.
