(* C10 -- Signed area is exact per segment and consistent for closed paths.
   Statements only; every proof is [exact <lemma of Proofs/C10.v>].  Line_/Quad_/Cubic_area, pointAtTime, derivative,
   splitAtTime, reversed, toCubicBezier, translated, scaled are regenerated from /repo on every run (ROps instance);
   signed_area_lines / area_lines / direction_lines / Rectangle_lines (Hand/Shoelace.v) are the hand-written model of
   BezierPath.signed_area/area/direction over the flattened edge list and of geometricshapes.Rectangle, tied to the
   code by the correspondence check.  Proved for all inputs: a segment's area IS the integral of y dx; additivity under
   splitting; negation under reversal; equality under degree elevation; for closed chains of straight edges the
   shoelace value is minus the sum of the edge areas (Green), negated by reversal, invariant under translation and
   rotation, multiplied by k*k under scaling, area = |.|, direction = sign; Rectangle has signed area -w*h.
   NOT covered by a theorem: |signed_area - Green area| <= 10*length for curved paths (needs a chord-deviation bound
   for regularSample), positivity for every simple counter-clockwise contour (no formal notion of simple), ellipse and
   circle signs -- all watched by the search against exact Green integrals. *)

From Coq Require Import PrimFloat.
From Coq Require Import ZArith List Bool Reals Lra Permutation.
From Coquelicot Require Import Coquelicot.
From BZ Require Import Base.Ops Gen.Point Gen.Affine Gen.Line Gen.Quad Gen.Cubic Hand.Shoelace Proofs.C10.
Import ListNotations.
Open Scope R_scope.

Theorem C10_area_is_integral_line :
  forall (s : seg2 R), is_RInt (fun t => py (Line_pointAtTime ROps s t) * (px (l1 s) - px (l0 s))) 0 1 (Line_area ROps s).
Proof. exact area_is_integral_line. Qed.
Theorem C10_area_is_integral_quad :
  forall (s : seg3 R), is_RInt (fun t => py (Quad_pointAtTime ROps s t) * px (Line_pointAtTime ROps (Quad_derivative ROps s) t)) 0 1 (Quad_area ROps s).
Proof. exact area_is_integral_quad. Qed.
Theorem C10_area_is_integral_cubic :
  forall (s : seg4 R), is_RInt (fun t => py (Cubic_pointAtTime ROps s t) * px (Quad_pointAtTime ROps (Cubic_derivative ROps s) t)) 0 1 (Cubic_area ROps s).
Proof. exact area_is_integral_cubic. Qed.
Theorem C10_area_split_additive_line :
  forall (s : seg2 R) t, Line_area ROps s = Line_area ROps (fst (Line_splitAtTime ROps s t)) + Line_area ROps (snd (Line_splitAtTime ROps s t)).
Proof. exact area_split_additive_line. Qed.
Theorem C10_area_split_additive_quad :
  forall (s : seg3 R) t, Quad_area ROps s = Quad_area ROps (fst (Quad_splitAtTime ROps s t)) + Quad_area ROps (snd (Quad_splitAtTime ROps s t)).
Proof. exact area_split_additive_quad. Qed.
Theorem C10_area_split_additive_cubic :
  forall (s : seg4 R) t, Cubic_area ROps s = Cubic_area ROps (fst (Cubic_splitAtTime ROps s t)) + Cubic_area ROps (snd (Cubic_splitAtTime ROps s t)).
Proof. exact area_split_additive_cubic. Qed.
Theorem C10_area_reversed_neg_line :
  forall (s : seg2 R), Line_area ROps (Line_reversed ROps s) = - Line_area ROps s.
Proof. exact area_reversed_neg_line. Qed.
Theorem C10_area_reversed_neg_quad :
  forall (s : seg3 R), Quad_area ROps (Quad_reversed ROps s) = - Quad_area ROps s.
Proof. exact area_reversed_neg_quad. Qed.
Theorem C10_area_reversed_neg_cubic :
  forall (s : seg4 R), Cubic_area ROps (Cubic_reversed ROps s) = - Cubic_area ROps s.
Proof. exact area_reversed_neg_cubic. Qed.
Theorem C10_area_elevation_equal :
  (forall a b : pt R, Line_area ROps (L2 a b) = Quad_area ROps (Q3 a (P ((px a + px b) / 2) ((py a + py b) / 2)) b)) /\ (forall q : seg3 R, Quad_area ROps q = Cubic_area ROps (Quad_toCubicBezier ROps q)).
Proof. exact area_elevation_equal. Qed.
Theorem C10_shoelace_is_minus_line_areas :
  forall (ls : list (seg2 R)), closed_chain ls -> signed_area_lines ROps ls = - sum_line_areas ls.
Proof. exact shoelace_is_minus_line_areas. Qed.
Theorem C10_signed_area_reverse_neg :
  forall (ls : list (seg2 R)), signed_area_lines ROps (reverse_lines ROps ls) = - signed_area_lines ROps ls.
Proof. exact signed_area_reverse_neg. Qed.
Theorem C10_closed_chain_reverse :
  forall (ls : list (seg2 R)), closed_chain ls -> closed_chain (reverse_lines ROps ls).
Proof. exact closed_chain_reverse. Qed.
Theorem C10_signed_area_translate_inv :
  forall (v : pt R) (ls : list (seg2 R)), closed_chain ls -> signed_area_lines ROps (map (fun l => Line_translated ROps l v) ls) = signed_area_lines ROps ls.
Proof. exact signed_area_translate_inv. Qed.
Theorem C10_signed_area_rotate_inv :
  forall (a : R) (ls : list (seg2 R)), signed_area_lines ROps (map (rotate_line a) ls) = signed_area_lines ROps ls.
Proof. exact signed_area_rotate_inv. Qed.
Theorem C10_signed_area_scale_sq :
  forall (k : R) (ls : list (seg2 R)), signed_area_lines ROps (map (fun l => Line_scaled ROps l k) ls) = k * k * signed_area_lines ROps ls.
Proof. exact signed_area_scale_sq. Qed.
Theorem C10_area_abs :
  forall (ls : list (seg2 R)), area_lines ROps ls = Rabs (signed_area_lines ROps ls).
Proof. exact area_abs. Qed.
Theorem C10_direction_sign :
  forall (ls : list (seg2 R)), (0 <= signed_area_lines ROps ls -> direction_lines ROps ls = 1) /\ (signed_area_lines ROps ls < 0 -> direction_lines ROps ls = -1).
Proof. exact direction_sign. Qed.
Theorem C10_rectangle_closed :
  forall (w h ox oy : R), closed_chain (rectangle_chain w h ox oy).
Proof. exact rectangle_closed. Qed.
Theorem C10_rectangle_signed_area :
  forall (w h ox oy : R), signed_area_lines ROps (rectangle_chain w h ox oy) = - (w * h).
Proof. exact rectangle_signed_area. Qed.
Theorem C10_Rectangle_lines_chain :
  forall (w h ox oy : R), Rectangle_lines ROps w h (P ox oy) = rectangle_chain w h ox oy.
Proof. exact Rectangle_lines_chain. Qed.
Theorem C10_triangle_closed :
  closed_chain triangle.
Proof. exact triangle_closed. Qed.
Theorem C10_triangle_signed_area :
  signed_area_lines ROps triangle = 6.
Proof. exact triangle_signed_area. Qed.
Theorem C10_open_chain_differs :
  signed_area_lines ROps [L2 (P 1 1) (P 2 2)] <> - sum_line_areas [L2 (P 1 1) (P 2 2)].
Proof. exact open_chain_differs. Qed.

Print Assumptions C10_area_is_integral_line.
Print Assumptions C10_area_is_integral_quad.
Print Assumptions C10_area_is_integral_cubic.
Print Assumptions C10_area_split_additive_line.
Print Assumptions C10_area_split_additive_quad.
Print Assumptions C10_area_split_additive_cubic.
Print Assumptions C10_area_reversed_neg_line.
Print Assumptions C10_area_reversed_neg_quad.
Print Assumptions C10_area_reversed_neg_cubic.
Print Assumptions C10_area_elevation_equal.
Print Assumptions C10_shoelace_is_minus_line_areas.
Print Assumptions C10_signed_area_reverse_neg.
Print Assumptions C10_closed_chain_reverse.
Print Assumptions C10_signed_area_translate_inv.
Print Assumptions C10_signed_area_rotate_inv.
Print Assumptions C10_signed_area_scale_sq.
Print Assumptions C10_area_abs.
Print Assumptions C10_direction_sign.
Print Assumptions C10_rectangle_closed.
Print Assumptions C10_rectangle_signed_area.
Print Assumptions C10_Rectangle_lines_chain.
Print Assumptions C10_triangle_closed.
Print Assumptions C10_triangle_signed_area.
Print Assumptions C10_open_chain_differs.
