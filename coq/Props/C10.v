(* C10 -- Signed area is exact per segment and consistent for closed paths.
   Statements only; every proof is [exact <lemma of Proofs/C10.v>].  Line_/Quad_/Cubic_area, pointAtTime, derivative,
   splitAtTime, reversed, toCubicBezier, translated, scaled are regenerated from /repo on every run (ROps instance);
   signed_area_lines / area_lines / direction_lines / Rectangle_lines (Hand/Shoelace.v) are the hand-written model of
   BezierPath.signed_area/area/direction over the flattened edge list and of geometricshapes.Rectangle, tied to the
   code by the correspondence check.  Proved for all inputs: a segment's area IS the integral of y dx; additivity under
   splitting; negation under reversal; equality under degree elevation; for closed chains of straight edges the
   shoelace value is minus the sum of the edge areas (Green), negated by reversal, invariant under translation and
   rotation, multiplied by k*k under scaling, area = |.|, direction = sign; Rectangle has signed area -w*h.
   FLATTENING ERROR (Proofs/C10flat.v, C10flat2.v; definitions arclen / arc_chord_area / fine_partition / chords_from / flat_ok / flat_chords
   are there): for any C1 plane curve the area between an arc and its chord is at most (arc length)^2/4 (chord <= arc by projection,
   |(g - g(a)) x g'| <= sigma * sigma'); for a partition whose pieces have arc length <= d the chords miss the area integral by at most
   d/4 * arc length; for a closed chain of lines, quadratics and cubics each flattened by such a partition the shoelace value of all the
   chords differs from the exact Green area by at most d/4 * total arc length, hence by at most 10 * length when d <= 40; and the edges
   returned by the model's Cubic_flatten / Quad_flatten ARE the chords of a parameter list from 0 to 1 (joined with C17's specification),
   so the bound holds of what the flatteners return.  Arc length is the exact integral of the speed, not the 24-point quadrature.
   For curves whose speed stays within a factor 2 the cut spacing is a theorem as well (Proofs/C16space.v, C10path.v, from the quadrature accuracy
   theorem of C04): the flatten area error of a gentle cubic / quadratic holds with no hypothesis, and for a closed chain of lines and such curves
   flattened by path_flatten with step <= 8 the shoelace value is within 10 * total arc length of the exact Green area (C10_path_flatten_signed_area_error).
   NOT covered by a theorem: the cut spacing for curves with cusps or retracted handles (a hypothesis of the general statements above), positivity for
   every simple counter-clockwise contour (no formal notion of simple), ellipse and circle signs -- watched by the search against exact Green integrals. *)

From Flocq Require Import Core.   (* bpow, radix2 for the float statements; imported first so that [float] below is PrimFloat.float *)
From Coq Require Import PrimFloat.
From Coq Require Import ZArith List Bool Reals Lra Permutation.
From Coquelicot Require Import Coquelicot.
From BZ Require Import Base.Ops Gen.Point Gen.Affine Gen.Line Gen.Quad Gen.Cubic Hand.Shoelace Proofs.C10 Proofs.C10pos Proofs.C10shapes Hand.Shapes Gen.Shapes Proofs.Bridge Proofs.C10float Base.FloatErr Proofs.C01float.
Import ListNotations.
From BZ Require Proofs.C10path.
From BZ Require Proofs.C16space.
From BZ Require Gen.PathOps Proofs.Bridge5.
From BZ Require Hand.Sample Proofs.C04 Proofs.C16 Proofs.C17 Proofs.C10flat Proofs.C10flat2.
Open Scope R_scope.

Theorem C10_area_is_integral_line :
  forall (s : seg2 R), is_RInt (fun t => py (Line_pointAtTime ROps s t) * (px (l1 s) - px (l0 s))) 0 1 (Line_area ROps s).
Proof. exact area_is_integral_line. Qed.
Theorem C10_area_is_integral_quad :
  forall (s : seg3 R), is_RInt (fun t => py (Quad_pointAtTime ROps s t) * px (Line_pointAtTime ROps (Quad_derivative ROps s) t)) 0 1 (Quad_area ROps s).
Proof. exact area_is_integral_quad. Qed.
Theorem C10_area_is_integral_cubic :
  forall (s : seg4 R), is_RInt (fun t => py (Cubic_pointAtTime ROps s t) * px (Quad_pointAtTime ROps (Cubic_derivative ROps s) t)) 0 1 (Cubic_area ROps s).
Proof. exact area_is_integral_cubic. Qed.
Theorem C10_area_split_additive_line :
  forall (s : seg2 R) t, Line_area ROps s = Line_area ROps (fst (Line_splitAtTime ROps s t)) + Line_area ROps (snd (Line_splitAtTime ROps s t)).
Proof. exact area_split_additive_line. Qed.
Theorem C10_area_split_additive_quad :
  forall (s : seg3 R) t, Quad_area ROps s = Quad_area ROps (fst (Quad_splitAtTime ROps s t)) + Quad_area ROps (snd (Quad_splitAtTime ROps s t)).
Proof. exact area_split_additive_quad. Qed.
Theorem C10_area_split_additive_cubic :
  forall (s : seg4 R) t, Cubic_area ROps s = Cubic_area ROps (fst (Cubic_splitAtTime ROps s t)) + Cubic_area ROps (snd (Cubic_splitAtTime ROps s t)).
Proof. exact area_split_additive_cubic. Qed.
Theorem C10_area_reversed_neg_line :
  forall (s : seg2 R), Line_area ROps (Line_reversed ROps s) = - Line_area ROps s.
Proof. exact area_reversed_neg_line. Qed.
Theorem C10_area_reversed_neg_quad :
  forall (s : seg3 R), Quad_area ROps (Quad_reversed ROps s) = - Quad_area ROps s.
Proof. exact area_reversed_neg_quad. Qed.
Theorem C10_area_reversed_neg_cubic :
  forall (s : seg4 R), Cubic_area ROps (Cubic_reversed ROps s) = - Cubic_area ROps s.
Proof. exact area_reversed_neg_cubic. Qed.
Theorem C10_area_elevation_equal :
  (forall a b : pt R, Line_area ROps (L2 a b) = Quad_area ROps (Q3 a (P ((px a + px b) / 2) ((py a + py b) / 2)) b)) /\ (forall q : seg3 R, Quad_area ROps q = Cubic_area ROps (Quad_toCubicBezier ROps q)).
Proof. exact area_elevation_equal. Qed.
Theorem C10_shoelace_is_minus_line_areas :
  forall (ls : list (seg2 R)), closed_chain ls -> signed_area_lines ROps ls = - sum_line_areas ls.
Proof. exact shoelace_is_minus_line_areas. Qed.
Theorem C10_signed_area_reverse_neg :
  forall (ls : list (seg2 R)), signed_area_lines ROps (reverse_lines ROps ls) = - signed_area_lines ROps ls.
Proof. exact signed_area_reverse_neg. Qed.
Theorem C10_closed_chain_reverse :
  forall (ls : list (seg2 R)), closed_chain ls -> closed_chain (reverse_lines ROps ls).
Proof. exact closed_chain_reverse. Qed.
Theorem C10_signed_area_translate_inv :
  forall (v : pt R) (ls : list (seg2 R)), closed_chain ls -> signed_area_lines ROps (map (fun l => Line_translated ROps l v) ls) = signed_area_lines ROps ls.
Proof. exact signed_area_translate_inv. Qed.
Theorem C10_signed_area_rotate_inv :
  forall (a : R) (ls : list (seg2 R)), signed_area_lines ROps (map (rotate_line a) ls) = signed_area_lines ROps ls.
Proof. exact signed_area_rotate_inv. Qed.
Theorem C10_signed_area_scale_sq :
  forall (k : R) (ls : list (seg2 R)), signed_area_lines ROps (map (fun l => Line_scaled ROps l k) ls) = k * k * signed_area_lines ROps ls.
Proof. exact signed_area_scale_sq. Qed.
Theorem C10_area_abs :
  forall (ls : list (seg2 R)), area_lines ROps ls = Rabs (signed_area_lines ROps ls).
Proof. exact area_abs. Qed.
Theorem C10_direction_sign :
  forall (ls : list (seg2 R)), (0 <= signed_area_lines ROps ls -> direction_lines ROps ls = 1) /\ (signed_area_lines ROps ls < 0 -> direction_lines ROps ls = -1).
Proof. exact direction_sign. Qed.
Theorem C10_rectangle_closed :
  forall (w h ox oy : R), closed_chain (rectangle_chain w h ox oy).
Proof. exact rectangle_closed. Qed.
Theorem C10_rectangle_signed_area :
  forall (w h ox oy : R), signed_area_lines ROps (rectangle_chain w h ox oy) = - (w * h).
Proof. exact rectangle_signed_area. Qed.
Theorem C10_Rectangle_lines_chain :
  forall (w h ox oy : R), Rectangle_lines ROps w h (P ox oy) = rectangle_chain w h ox oy.
Proof. exact Rectangle_lines_chain. Qed.
Theorem C10_triangle_closed :
  closed_chain triangle.
Proof. exact triangle_closed. Qed.
Theorem C10_triangle_signed_area :
  signed_area_lines ROps triangle = 6.
Proof. exact triangle_signed_area. Qed.
Theorem C10_open_chain_differs :
  signed_area_lines ROps [L2 (P 1 1) (P 2 2)] <> - sum_line_areas [L2 (P 1 1) (P 2 2)].
Proof. exact open_chain_differs. Qed.
Theorem C10_edges_of_closed :
  forall (poly : list (pt R)), closed_chain (edges_of poly).
Proof. exact edges_of_closed. Qed.
Theorem C10_signed_area_about :
  forall (c : pt R) (ls : list (seg2 R)), closed_chain ls -> signed_area_lines ROps ls = cross_sum_about c ls / 2.
Proof. exact signed_area_about. Qed.
Theorem C10_fan_decomposition :
  forall (v0 : pt R) (vs : list (pt R)), signed_area_lines ROps (edges_of (v0 :: vs)) = fan_sum v0 vs / 2.
Proof. exact fan_decomposition. Qed.
Theorem C10_star_ccw_positive :
  forall (c : pt R) (ls : list (seg2 R)), closed_chain ls -> star_ccw c ls -> 0 < signed_area_lines ROps ls.
Proof. exact star_ccw_positive. Qed.
Theorem C10_star_cw_negative :
  forall (c : pt R) (ls : list (seg2 R)), closed_chain ls -> star_cw c ls -> signed_area_lines ROps ls < 0.
Proof. exact star_cw_negative. Qed.
Theorem C10_fan_ccw_positive :
  forall (v0 : pt R) (vs : list (pt R)), fan_ccw v0 vs -> 0 < signed_area_lines ROps (edges_of (v0 :: vs)).
Proof. exact fan_ccw_positive. Qed.
Theorem C10_convex_ccw_positive :
  forall (poly : list (pt R)), convex_ccw poly -> 0 < signed_area_lines ROps (edges_of poly).
Proof. exact convex_ccw_positive. Qed.
Theorem C10_convex_cw_negative :
  forall (poly : list (pt R)), convex_cw poly -> signed_area_lines ROps (edges_of poly) < 0.
Proof. exact convex_cw_negative. Qed.
Theorem C10_ear_ccw_closed_positive :
  forall (ls : list (seg2 R)), ear_ccw ls -> closed_chain ls /\ 0 < signed_area_lines ROps ls.
Proof. exact ear_ccw_closed_positive. Qed.
Theorem C10_ear_cw_closed_negative :
  forall (ls : list (seg2 R)), ear_cw ls -> closed_chain ls /\ signed_area_lines ROps ls < 0.
Proof. exact ear_cw_closed_negative. Qed.
Theorem C10_star_ccw_direction :
  forall (c : pt R) (ls : list (seg2 R)), closed_chain ls -> star_ccw c ls -> direction_lines ROps ls = 1.
Proof. exact star_ccw_direction. Qed.
Theorem C10_star_cw_direction :
  forall (c : pt R) (ls : list (seg2 R)), closed_chain ls -> star_cw c ls -> direction_lines ROps ls = -1.
Proof. exact star_cw_direction. Qed.
Theorem C10_Rectangle_star_cw :
  forall (w h : R) (o : pt R), 0 < w -> 0 < h -> star_cw_strict o (Rectangle_lines ROps w h o).
Proof. exact Rectangle_star_cw. Qed.
Theorem C10_Rectangle_negative :
  forall (w h : R) (o : pt R), 0 < w -> 0 < h -> signed_area_lines ROps (Rectangle_lines ROps w h o) < 0 /\ direction_lines ROps (Rectangle_lines ROps w h o) = -1.
Proof. exact Rectangle_negative. Qed.
Theorem C10_tri_positive :
  0 < signed_area_lines ROps triangle /\ direction_lines ROps triangle = 1.
Proof. exact tri_positive. Qed.
Theorem C10_ell_positive :
  signed_area_lines ROps (edges_of ell_pts) = 3.
Proof. exact ell_positive. Qed.
Theorem C10_Ellipse_sum_cubic_areas :
  forall (xr yr : R) (o : pt R) (s : R), sum_cubic_areas (Ellipse_cubics ROps xr yr o s) = ellipse_K s * xr * yr.
Proof. exact Ellipse_sum_cubic_areas. Qed.
Theorem C10_Ellipse_green_area :
  forall (xr yr : R) (o : pt R) (s : R), green_area_cubics (Ellipse_cubics ROps xr yr o s) = - (ellipse_K s * xr * yr).
Proof. exact Ellipse_green_area. Qed.
Theorem C10_Circle_green_area :
  forall (r : R) (o : pt R) (s : R), green_area_cubics (Circle_cubics ROps r o s) = - (ellipse_K s * (r * r)).
Proof. exact Circle_green_area. Qed.
Theorem C10_Ellipse_green_negative :
  forall (xr yr : R) (o : pt R) (s : R), 0 < xr * yr -> 0 < ellipse_K s -> green_area_cubics (Ellipse_cubics ROps xr yr o s) < 0.
Proof. exact Ellipse_green_negative. Qed.
Theorem C10_ellipse_K_circular_bounds :
  31424 / 10000 < ellipse_K (circular_superness ROps) < 31425 / 10000.
Proof. exact ellipse_K_circular_bounds. Qed.
Theorem C10_Ellipse_default_negative :
  forall (xr yr : R) (o : option (pt R)), 0 < xr * yr -> green_area_cubics (Ellipse_cubics_opt ROps xr yr o None) < 0.
Proof. exact Ellipse_default_negative. Qed.
Theorem C10_Circle_default_negative :
  forall (r : R) (o : option (pt R)), r <> 0 -> green_area_cubics (Circle_cubics_opt ROps r o None) < 0.
Proof. exact Circle_default_negative. Qed.
Theorem C10_Ellipse_control_polygon_area :
  forall (xr yr : R) (o : pt R) (s : R), signed_area_lines ROps (edges_of (Ellipse_control_polygon xr yr o s)) = - (2 * (1 + 2 * s - s * s) * xr * yr).
Proof. exact Ellipse_control_polygon_area. Qed.
Theorem C10_Ellipse_control_polygon_star_cw :
  forall (xr yr : R) (o : pt R) (s : R), 0 < xr -> 0 < yr -> 0 < s <= 1 -> star_cw o (edges_of (Ellipse_control_polygon xr yr o s)).
Proof. exact Ellipse_control_polygon_star_cw. Qed.
Theorem C10_Square_signed_area :
  forall (w : R) (o : pt R), signed_area_lines ROps (Square_lines ROps w o) = - (w * w).
Proof. exact Square_signed_area. Qed.
Theorem C10_Ellipse_cubics_closed :
  forall (T : Type) (O : Ops T) (xr yr : T) (o : pt T) (s : T), closed_cubic_chain (Ellipse_cubics O xr yr o s).
Proof. exact @Ellipse_cubics_closed. Qed.
(* the hand models ARE the definitions regenerated from the source (Proofs/Bridge.v), for every scalar carrier *)
Theorem C10_Rectangle_is_generated :
  forall (T : Type) (O : Ops T) (w h : T) (o : option (pt T)), Rectangle_lines O w h (default_origin O o) = geometricshapes_Rectangle O w h o.
Proof. exact @Rectangle_lines_opt_gen. Qed.
Theorem C10_Square_is_generated :
  forall (T : Type) (O : Ops T) (w : T) (o : option (pt T)), Square_lines_opt O w o = geometricshapes_Square O w o.
Proof. exact @Square_lines_opt_gen. Qed.
Theorem C10_Ellipse_is_generated :
  forall (T : Type) (O : Ops T) (xr yr : T) (o : option (pt T)) (s : option T), Ellipse_cubics_opt O xr yr o s = geometricshapes_Ellipse O xr yr o (superness_or_default O s).
Proof. exact @Ellipse_cubics_opt_gen. Qed.
Theorem C10_Circle_is_generated :
  forall (T : Type) (O : Ops T) (r : T) (o : option (pt T)) (s : option T), Circle_cubics_opt O r o s = geometricshapes_Circle O r o (superness_or_default O s).
Proof. exact @Circle_cubics_opt_gen. Qed.
Theorem C10_circular_superness_is_generated :
  forall (T : Type) (O : Ops T), circular_superness O = geometricshapes_CIRCULAR_SUPERNESS O.
Proof. exact @circular_superness_gen. Qed.
Theorem C10_line_area_float_close :
  forall M (s : seg2 float), M <= Acap -> seg2_ok M s -> val_close (Line_area FOps s) (Line_area ROps (seg2R s)) (9 * u * (M * M) + 5 * eta * M + 2 * eta).
Proof. exact line_area_float_close. Qed.
Theorem C10_quad_area_float_close :
  forall M (s : seg3 float), M <= Acap -> seg3_ok M s -> val_close (Quad_area FOps s) (Quad_area ROps (seg3R s)) (20 * u * (M * M) + 7 * eta).
Proof. exact quad_area_float_close. Qed.
Theorem C10_cubic_area_float_close :
  forall M (s : seg4 float), M <= Acap -> seg4_ok M s -> val_close (Cubic_area FOps s) (Cubic_area ROps (seg4R s)) (28 * u * (M * M) + 7 * eta).
Proof. exact cubic_area_float_close. Qed.
Theorem C10_cubic_area_float_integral :
  forall M (s : seg4 float), M <= Acap -> seg4_ok M s -> val_close (Cubic_area FOps s) (RIntR (fun t => py (Cubic_pointAtTime ROps (seg4R s) t) * px (Quad_pointAtTime ROps (Cubic_derivative ROps (seg4R s)) t))) (28 * u * (M * M) + 7 * eta).
Proof. exact cubic_area_float_integral. Qed.
Theorem C10_line_area_reversed_float :
  forall M (s : seg2 float), M <= Acap -> seg2_ok M s -> neg_close (Line_area FOps (Line_reversed FOps s)) (Line_area FOps s) (2 * (9 * u * (M * M) + 5 * eta * M + 2 * eta)).
Proof. exact line_area_reversed_float. Qed.
Theorem C10_quad_area_reversed_float :
  forall M (s : seg3 float), M <= Acap -> seg3_ok M s -> neg_close (Quad_area FOps (Quad_reversed FOps s)) (Quad_area FOps s) (2 * (20 * u * (M * M) + 7 * eta)).
Proof. exact quad_area_reversed_float. Qed.
Theorem C10_cubic_area_reversed_float :
  forall M (s : seg4 float), M <= Acap -> seg4_ok M s -> neg_close (Cubic_area FOps (Cubic_reversed FOps s)) (Cubic_area FOps s) (2 * (28 * u * (M * M) + 7 * eta)).
Proof. exact cubic_area_reversed_float. Qed.
Theorem C10_cubic_area_float_1e14 :
  forall M (s : seg4 float), M <= Acap -> seg4_ok M s -> val_close (Cubic_area FOps s) (Cubic_area ROps (seg4R s)) (1e-14 * (M * M) + bpow radix2 (-1070)).
Proof. exact cubic_area_float_1e14. Qed.
Theorem C10_quad_area_example :
  val_close (Quad_area FOps ex_quad) (- 4675 / 3) (1e-14 * (150 * 150) + bpow radix2 (-1070)).
Proof. exact quad_area_example. Qed.
Theorem C10_arc_chord_area_bound :
  forall x y x' y' : R -> R, (forall t : R_AbsRing, is_derive x t (x' t)) -> (forall t : R_AbsRing, is_derive y t (y' t)) -> (forall t : R_UniformSpace, continuous x' t) -> (forall t : R_UniformSpace, continuous y' t) -> forall a b : R, a <= b -> Rabs (C10flat.arc_chord_area x y x' a b) <= C10flat.arclen x' y' a b * C10flat.arclen x' y' a b / 4.
Proof. exact @C10flat.arc_chord_area_bound. Qed.
Theorem C10_chord_le_arclen :
  forall x y x' y' : R -> R, (forall t : R_AbsRing, is_derive x t (x' t)) -> (forall t : R_AbsRing, is_derive y t (y' t)) -> (forall t : R_UniformSpace, continuous x' t) -> (forall t : R_UniformSpace, continuous y' t) -> forall a t : R, a <= t -> C04.norm2 (x t - x a) (y t - y a) <= C10flat.arclen x' y' a t.
Proof. exact @C10flat.chord_le_arclen. Qed.
Theorem C10_flatten_error :
  forall x y x' y' : R -> R, (forall t : R_AbsRing, is_derive x t (x' t)) -> (forall t : R_AbsRing, is_derive y t (y' t)) -> (forall t : R_UniformSpace, continuous x' t) -> (forall t : R_UniformSpace, continuous y' t) -> forall (d a : R) (ts : list R) (b : R), C10flat.fine_partition (C10flat.arclen x' y') d a ts b -> Rabs (RInt (C10flat.ydx y x') a b - sum_line_areas (C10flat.chords_from (C10flat.gpt x y) a ts)) <= d / 4 * C10flat.arclen x' y' a b.
Proof. exact @C10flat.flatten_error. Qed.
Theorem C10_cubic_arc_chord_area_bound :
  forall (s : seg4 R) (a b : R), a <= b -> Rabs (RInt (fun t : R => py (Cubic_pointAtTime ROps s t) * C04.cubic_dx s t) a b - Line_area ROps (C10flat.cubic_chord s a b)) <= C10flat.cubic_arclen s a b * C10flat.cubic_arclen s a b / 4.
Proof. exact @C10flat.cubic_arc_chord_area_bound. Qed.
Theorem C10_quad_arc_chord_area_bound :
  forall (s : seg3 R) (a b : R), a <= b -> Rabs (RInt (fun t : R => py (Quad_pointAtTime ROps s t) * C04.quad_dx s t) a b - Line_area ROps (C10flat.quad_chord2 s a b)) <= C10flat.quad_arclen s a b * C10flat.quad_arclen s a b / 4.
Proof. exact @C10flat.quad_arc_chord_area_bound. Qed.
Theorem C10_cubic_chord_le_arclen :
  forall (s : seg4 R) (a b : R), a <= b -> Line_length ROps (C10flat.cubic_chord s a b) <= C10flat.cubic_arclen s a b.
Proof. exact @C10flat.cubic_chord_le_arclen. Qed.
Theorem C10_quad_chord_le_arclen :
  forall (s : seg3 R) (a b : R), a <= b -> Line_length ROps (C10flat.quad_chord2 s a b) <= C10flat.quad_arclen s a b.
Proof. exact @C10flat.quad_chord_le_arclen. Qed.
Theorem C10_cubic_flatten_error :
  forall (s : seg4 R) (d : R) (ts : list R), C10flat.fine_partition (C10flat.cubic_arclen s) d 0 ts 1 -> Rabs (Cubic_area ROps s - sum_line_areas (C10flat.chords_from (Cubic_pointAtTime ROps s) 0 ts)) <= d / 4 * C10flat.cubic_arclen s 0 1.
Proof. exact @C10flat.cubic_flatten_error. Qed.
Theorem C10_quad_flatten_error :
  forall (s : seg3 R) (d : R) (ts : list R), C10flat.fine_partition (C10flat.quad_arclen s) d 0 ts 1 -> Rabs (Quad_area ROps s - sum_line_areas (C10flat.chords_from (Quad_pointAtTime ROps s) 0 ts)) <= d / 4 * C10flat.quad_arclen s 0 1.
Proof. exact @C10flat.quad_flatten_error. Qed.
Theorem C10_flat_chords_closed :
  forall (d : R) (fl : list (segment R * list R)), List.Forall (C10flat.flat_ok d) fl -> C10flat.closed_seg_chain (map fst fl) -> closed_chain (C10flat.flat_chords fl).
Proof. exact @C10flat.flat_chords_closed. Qed.
Theorem C10_flat_chords_area_error :
  forall (d : R) (fl : list (segment R * list R)), 0 <= d -> List.Forall (C10flat.flat_ok d) fl -> Rabs (C10flat.sum_seg_areas (map fst fl) - sum_line_areas (C10flat.flat_chords fl)) <= d / 4 * C10flat.total_length (map fst fl).
Proof. exact @C10flat.flat_chords_area_error. Qed.
Theorem C10_flattened_signed_area_error :
  forall (d : R) (fl : list (segment R * list R)), 0 <= d -> List.Forall (C10flat.flat_ok d) fl -> C10flat.closed_seg_chain (map fst fl) -> Rabs (signed_area_lines ROps (C10flat.flat_chords fl) - - C10flat.sum_seg_areas (map fst fl)) <= d / 4 * C10flat.total_length (map fst fl).
Proof. exact @C10flat.flattened_signed_area_error. Qed.
Theorem C10_flattened_signed_area_within_10_length :
  forall (d : R) (fl : list (segment R * list R)), 0 <= d <= 40 -> List.Forall (C10flat.flat_ok d) fl -> C10flat.closed_seg_chain (map fst fl) -> Rabs (signed_area_lines ROps (C10flat.flat_chords fl) - - C10flat.sum_seg_areas (map fst fl)) <= 10 * C10flat.total_length (map fst fl).
Proof. exact @C10flat.flattened_signed_area_within_10_length. Qed.
Theorem C10_arch100_partition :
  C10flat.fine_partition (C10flat.cubic_arclen (C10flat.arch 100)) 100 0 [1 / 2; 1] 1.
Proof. exact @C10flat.arch100_partition. Qed.
Theorem C10_arch100_flatten_error :
  Rabs (Cubic_area ROps (C10flat.arch 100) - sum_line_areas (C10flat.chords_from (Cubic_pointAtTime ROps (C10flat.arch 100)) 0 [1 / 2; 1])) <= 5000.
Proof. exact @C10flat.arch100_flatten_error. Qed.
Theorem C10_arch100_actual_defect :
  Cubic_area ROps (C10flat.arch 100) - sum_line_areas (C10flat.chords_from (Cubic_pointAtTime ROps (C10flat.arch 100)) 0 [1 / 2; 1]) = 2250.
Proof. exact @C10flat.arch100_actual_defect. Qed.
Theorem C10_dshape10_within_10_length :
  Rabs (signed_area_lines ROps (C10flat.flat_chords (C10flat.dshape 10)) - - C10flat.sum_seg_areas (map fst (C10flat.dshape 10))) <= 10 * C10flat.total_length (map fst (C10flat.dshape 10)).
Proof. exact @C10flat.dshape10_within_10_length. Qed.
Theorem C10_dshape10_values :
  - C10flat.sum_seg_areas (map fst (C10flat.dshape 10)) = -60 /\ signed_area_lines ROps (C10flat.flat_chords (C10flat.dshape 10)) = -75 / 2.
Proof. exact @C10flat.dshape10_values. Qed.
Theorem C10_cubic_flatten_edges_are_chords :
  forall (cap : nat) (c : seg4 R) (d : R) (es : list Sample.edge), 0 < d -> Sample.Cubic_flatten ROps cap c d = Sample.Ok es -> exists ts : list R, C17.param_list ts /\ map fst es = C10flat.chords_of (Cubic_pointAtTime ROps c) ts.
Proof. exact @C10flat2.cubic_flatten_edges_are_chords. Qed.
Theorem C10_quad_flatten_edges_are_chords :
  forall (cap : nat) (q : seg3 R) (d : R) (es : list Sample.edge), 0 < d -> Sample.Quad_flatten ROps cap q d = Sample.Ok es -> exists ts : list R, C17.param_list ts /\ map fst es = C10flat.chords_of (Quad_pointAtTime ROps q) ts.
Proof. exact @C10flat2.quad_flatten_edges_are_chords. Qed.
Theorem C10_cubic_flatten_area_error :
  forall (cap : nat) (c : seg4 R) (d : R) (es : list Sample.edge), 0 < d -> Sample.Cubic_flatten ROps cap c d = Sample.Ok es -> exists ts : list R, C17.param_list ts /\ map fst es = C10flat.chords_of (Cubic_pointAtTime ROps c) ts /\ (forall D : R, C10flat.fine_partition_01 (C10flat.cubic_arclen c) D ts -> Rabs (Cubic_area ROps c - sum_line_areas (map fst es)) <= D / 4 * C10flat.cubic_arclen c 0 1).
Proof. exact @C10flat2.cubic_flatten_area_error. Qed.
Theorem C10_quad_flatten_area_error :
  forall (cap : nat) (q : seg3 R) (d : R) (es : list Sample.edge), 0 < d -> Sample.Quad_flatten ROps cap q d = Sample.Ok es -> exists ts : list R, C17.param_list ts /\ map fst es = C10flat.chords_of (Quad_pointAtTime ROps q) ts /\ (forall D : R, C10flat.fine_partition_01 (C10flat.quad_arclen q) D ts -> Rabs (Quad_area ROps q - sum_line_areas (map fst es)) <= D / 4 * C10flat.quad_arclen q 0 1).
Proof. exact @C10flat2.quad_flatten_area_error. Qed.
Theorem C10_cubic_short_chord_area_error :
  forall (cap : nat) (c : seg4 R) (d : R), 0 < d -> Cubic_length ROps c < d -> exists es : list Sample.edge, Sample.Cubic_flatten ROps cap c d = Sample.Ok es /\ map fst es = [{| l0 := c0 c; l1 := c3 c |}] /\ Rabs (Cubic_area ROps c - sum_line_areas (map fst es)) <= C10flat.cubic_arclen c 0 1 * C10flat.cubic_arclen c 0 1 / 4.
Proof. exact @C10flat2.cubic_short_chord_area_error. Qed.
Theorem C10_Path_signed_area_gen :
  forall (T : Type) (O : Ops T) (fuel : nat) (p : list (segment T * option (segment T)) * bool), PathOps.Path_signed_area O fuel p = Bridge5.after_flatten O fuel p (signed_area_lines O).
Proof. exact @Bridge5.Path_signed_area_gen. Qed.
Theorem C10_Path_area_gen :
  forall (T : Type) (O : Ops T) (fuel : nat) (p : list (segment T * option (segment T)) * bool), PathOps.Path_area O fuel p = Bridge5.after_flatten O fuel p (area_lines O).
Proof. exact @Bridge5.Path_area_gen. Qed.
Theorem C10_Path_direction_gen :
  forall (T : Type) (O : Ops T) (fuel : nat) (p : list (segment T * option (segment T)) * bool), PathOps.Path_direction O fuel p = Bridge5.after_flatten O fuel p (direction_lines O).
Proof. exact @Bridge5.Path_direction_gen. Qed.
Theorem C10_signed_area_hand :
  forall (T : Type) (O : Ops T), Bridge2.lit_ok O -> forall (cap : nat) (segs : list (segment T * option (segment T))) (closed : bool) (fuel : nat) (k : list (seg2 T) -> T), eqb O (ofZ O 8) (Sample.zero O) = false -> List.Forall (Bridge5.flatten_ok O cap fuel (ofZ O 8)) segs -> Bridge2.res_of (Bridge5.after_flatten O fuel (segs, closed) k) = Sample.bind (Sample.path_flatten O cap segs closed (ofZ O 8)) (fun f : list Sample.edge * bool => Sample.Ok (k (Bridge5.lines_of f))).
Proof. exact @Bridge5.signed_area_hand. Qed.
Theorem C10_gentle_cubic_flatten_area_error :
  forall (s : seg4 R) (m M : R), 0 < m -> (forall u : R, 0 <= u <= 1 -> m <= C04.cubic_speed s u <= M) -> M <= 2 * m -> forall (cap : nat) (d : R) (es : list Sample.edge), 0 < d -> Sample.Cubic_flatten ROps cap s d = Sample.Ok es -> Rabs (Cubic_area ROps s - sum_line_areas (map fst es)) <= (d * (1 + 3 / 10 ^ 4) + 2001 / 1000 + 4 / 10 ^ 4 * C10flat.cubic_arclen s 0 1) / 4 * C10flat.cubic_arclen s 0 1.
Proof. exact @C16space.gentle_cubic_flatten_area_error. Qed.
Theorem C10_gentle_cubic_flatten_area_error_10 :
  forall (s : seg4 R) (m M : R), 0 < m -> (forall u : R, 0 <= u <= 1 -> m <= C04.cubic_speed s u <= M) -> M <= 2 * m -> forall (cap : nat) (d : R) (es : list Sample.edge), 0 < d <= 8 -> C10flat.cubic_arclen s 0 1 <= 70000 -> Sample.Cubic_flatten ROps cap s d = Sample.Ok es -> Rabs (Cubic_area ROps s - sum_line_areas (map fst es)) <= 10 * C10flat.cubic_arclen s 0 1.
Proof. exact @C16space.gentle_cubic_flatten_area_error_10. Qed.
Theorem C10_gentle_quad_flatten_fine :
  forall (s : seg3 R) (m M : R), 0 < m -> (forall u : R, 0 <= u <= 1 -> m <= C04.quad_speed s u <= M) -> M <= 2 * m -> forall (cap : nat) (d : R) (es : list Sample.edge), 0 < d -> ~ Quad_length ROps s < d -> Sample.Quad_flatten ROps cap s d = Sample.Ok es -> exists ts : list R, C17.param_list ts /\ map fst es = C10flat.chords_of (Quad_pointAtTime ROps s) ts /\ S (length es) = length ts /\ C10flat.fine_partition_01 (C10flat.quad_arclen s) (M * (d / Quad_length ROps s)) ts.
Proof. exact @C10path.gentle_quad_flatten_fine. Qed.
Theorem C10_gentle_quad_flatten_area_error :
  forall (s : seg3 R) (m M : R), 0 < m -> (forall u : R, 0 <= u <= 1 -> m <= C04.quad_speed s u <= M) -> M <= 2 * m -> forall (cap : nat) (d : R) (es : list Sample.edge), 0 < d -> Sample.Quad_flatten ROps cap s d = Sample.Ok es -> Rabs (Quad_area ROps s - sum_line_areas (map fst es)) <= 2001 / 1000 * d / 4 * C10flat.quad_arclen s 0 1.
Proof. exact @C10path.gentle_quad_flatten_area_error. Qed.
Theorem C10_gentle_quad_flatten_area_error_10 :
  forall (s : seg3 R) (m M : R), 0 < m -> (forall u : R, 0 <= u <= 1 -> m <= C04.quad_speed s u <= M) -> M <= 2 * m -> forall (cap : nat) (d : R) (es : list Sample.edge), 0 < d <= 1999 / 100 -> Sample.Quad_flatten ROps cap s d = Sample.Ok es -> Rabs (Quad_area ROps s - sum_line_areas (map fst es)) <= 10 * C10flat.quad_arclen s 0 1.
Proof. exact @C10path.gentle_quad_flatten_area_error_10. Qed.
Theorem C10_flattened_path_signed_area_error :
  forall (cap : nat) (d : R) (segs : list (segment R * option (segment R))) (ls : list (list (seg2 R * option (segment R)))), 0 < d <= 8 -> List.Forall C10path.gentle_seg (map fst segs) -> C10flat.closed_seg_chain (map fst segs) -> Forall2 (fun (s : Sample.tseg) (l : list Sample.edge) => Sample.seg_flatten ROps cap s d = Sample.Ok l) segs ls -> Rabs (signed_area_lines ROps (map fst (concat ls)) - - C10flat.sum_seg_areas (map fst segs)) <= 10 * C10flat.total_length (map fst segs).
Proof. exact @C10path.flattened_path_signed_area_error. Qed.
Theorem C10_path_flatten_signed_area_error :
  forall (cap : nat) (d : R) (segs : list (segment R * option (segment R))) (closed : bool) (es : list Sample.edge) (cl : bool), 0 < d <= 8 -> List.Forall C10path.gentle_seg (map fst segs) -> C10flat.closed_seg_chain (map fst segs) -> Sample.path_flatten ROps cap segs closed d = Sample.Ok (es, cl) -> Rabs (signed_area_lines ROps (map fst es) - - C10flat.sum_seg_areas (map fst segs)) <= 10 * C10flat.total_length (map fst segs).
Proof. exact @C10path.path_flatten_signed_area_error. Qed.
Theorem C10_dpath_flatten_area :
  exists es : list Sample.edge, Sample.path_flatten ROps 256 C10path.dpath true 8 = Sample.Ok (es, true) /\ Rabs (signed_area_lines ROps (map fst es) - -6000) <= 10 * 300.
Proof. exact @C10path.dpath_flatten_area. Qed.
Theorem C10_qpath_flatten_area :
  exists es : list Sample.edge, Sample.path_flatten ROps 64 C10path.qpath true 8 = Sample.Ok (es, true) /\ Rabs (signed_area_lines ROps (map fst es) - - (5000 / 3)) <= 10 * (C10flat.quad_arclen C10path.qarch 0 1 + 100).
Proof. exact @C10path.qpath_flatten_area. Qed.

Print Assumptions C10_area_is_integral_line.
Print Assumptions C10_area_is_integral_quad.
Print Assumptions C10_area_is_integral_cubic.
Print Assumptions C10_area_split_additive_line.
Print Assumptions C10_area_split_additive_quad.
Print Assumptions C10_area_split_additive_cubic.
Print Assumptions C10_area_reversed_neg_line.
Print Assumptions C10_area_reversed_neg_quad.
Print Assumptions C10_area_reversed_neg_cubic.
Print Assumptions C10_area_elevation_equal.
Print Assumptions C10_shoelace_is_minus_line_areas.
Print Assumptions C10_signed_area_reverse_neg.
Print Assumptions C10_closed_chain_reverse.
Print Assumptions C10_signed_area_translate_inv.
Print Assumptions C10_signed_area_rotate_inv.
Print Assumptions C10_signed_area_scale_sq.
Print Assumptions C10_area_abs.
Print Assumptions C10_direction_sign.
Print Assumptions C10_rectangle_closed.
Print Assumptions C10_rectangle_signed_area.
Print Assumptions C10_Rectangle_lines_chain.
Print Assumptions C10_triangle_closed.
Print Assumptions C10_triangle_signed_area.
Print Assumptions C10_open_chain_differs.
Print Assumptions C10_edges_of_closed.
Print Assumptions C10_signed_area_about.
Print Assumptions C10_fan_decomposition.
Print Assumptions C10_star_ccw_positive.
Print Assumptions C10_star_cw_negative.
Print Assumptions C10_fan_ccw_positive.
Print Assumptions C10_convex_ccw_positive.
Print Assumptions C10_convex_cw_negative.
Print Assumptions C10_ear_ccw_closed_positive.
Print Assumptions C10_ear_cw_closed_negative.
Print Assumptions C10_star_ccw_direction.
Print Assumptions C10_star_cw_direction.
Print Assumptions C10_Rectangle_star_cw.
Print Assumptions C10_Rectangle_negative.
Print Assumptions C10_tri_positive.
Print Assumptions C10_ell_positive.
Print Assumptions C10_Ellipse_sum_cubic_areas.
Print Assumptions C10_Ellipse_green_area.
Print Assumptions C10_Circle_green_area.
Print Assumptions C10_Ellipse_green_negative.
Print Assumptions C10_ellipse_K_circular_bounds.
Print Assumptions C10_Ellipse_default_negative.
Print Assumptions C10_Circle_default_negative.
Print Assumptions C10_Ellipse_control_polygon_area.
Print Assumptions C10_Ellipse_control_polygon_star_cw.
Print Assumptions C10_Square_signed_area.
Print Assumptions C10_Ellipse_cubics_closed.
Print Assumptions C10_Rectangle_is_generated.
Print Assumptions C10_Square_is_generated.
Print Assumptions C10_Ellipse_is_generated.
Print Assumptions C10_Circle_is_generated.
Print Assumptions C10_circular_superness_is_generated.
Print Assumptions C10_line_area_float_close.
Print Assumptions C10_quad_area_float_close.
Print Assumptions C10_cubic_area_float_close.
Print Assumptions C10_cubic_area_float_integral.
Print Assumptions C10_line_area_reversed_float.
Print Assumptions C10_quad_area_reversed_float.
Print Assumptions C10_cubic_area_reversed_float.
Print Assumptions C10_cubic_area_float_1e14.
Print Assumptions C10_quad_area_example.
Print Assumptions C10_arc_chord_area_bound.
Print Assumptions C10_chord_le_arclen.
Print Assumptions C10_flatten_error.
Print Assumptions C10_cubic_arc_chord_area_bound.
Print Assumptions C10_quad_arc_chord_area_bound.
Print Assumptions C10_cubic_chord_le_arclen.
Print Assumptions C10_quad_chord_le_arclen.
Print Assumptions C10_cubic_flatten_error.
Print Assumptions C10_quad_flatten_error.
Print Assumptions C10_flat_chords_closed.
Print Assumptions C10_flat_chords_area_error.
Print Assumptions C10_flattened_signed_area_error.
Print Assumptions C10_flattened_signed_area_within_10_length.
Print Assumptions C10_arch100_partition.
Print Assumptions C10_arch100_flatten_error.
Print Assumptions C10_arch100_actual_defect.
Print Assumptions C10_dshape10_within_10_length.
Print Assumptions C10_dshape10_values.
Print Assumptions C10_cubic_flatten_edges_are_chords.
Print Assumptions C10_quad_flatten_edges_are_chords.
Print Assumptions C10_cubic_flatten_area_error.
Print Assumptions C10_quad_flatten_area_error.
Print Assumptions C10_cubic_short_chord_area_error.
Print Assumptions C10_Path_signed_area_gen.
Print Assumptions C10_Path_area_gen.
Print Assumptions C10_Path_direction_gen.
Print Assumptions C10_signed_area_hand.
Print Assumptions C10_gentle_cubic_flatten_area_error.
Print Assumptions C10_gentle_cubic_flatten_area_error_10.
Print Assumptions C10_gentle_quad_flatten_fine.
Print Assumptions C10_gentle_quad_flatten_area_error.
Print Assumptions C10_gentle_quad_flatten_area_error_10.
Print Assumptions C10_flattened_path_signed_area_error.
Print Assumptions C10_path_flatten_signed_area_error.
Print Assumptions C10_dpath_flatten_area.
Print Assumptions C10_qpath_flatten_area.
