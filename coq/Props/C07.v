(* C07 -- Paths stay connected chains under any history of operations.
   Statements only; every proof is [exact <lemma of Proofs/C07.v>].

   MODEL (Hand/Heap.v, hand-written, executable, generic over the scalar carrier; tied to the code by the correspondence
   check, which replays random histories on the real objects and compares, after every step and for every live path,
   kinds, control points (bit for bit), closed flags, representation kind, the `_orig` links and the ALIASING GRAPH of
   list and segment objects): a heap of Python list objects, Segment objects and BezierPath objects; [step] transcribes,
   for each of translate, rotate, scale, reverse, addExtremes, splitAtPoints, balance, round, quadraticsToCubics,
   removeIrrelevantSegments, flatten, append, clone, asNodelist, asSegments, fromSegments, fromNodelist, which objects are
   rebound, mutated in place, shared or freshly allocated; the numbers come from the generated kernels (Gen/*.v).
   Points are values (no listed operation mutates a Point in place: re-checked dynamically by the search).  flatten takes
   the sampled points of each long curve as an oracle input which the model only accepts if it has at least two points and
   starts / ends at the curve's ends.  Python exceptions are the value OErr.  [view] is the observable value of a path
   (what asSegments() would return, and closed).

   PROVED, for an arbitrary carrier unless marked R (the "up to length 12" of the property is the exploration bound of the
   correspondence, not of the theorems; histories are lists of ANY length):
   * step_inv / run_inv: heap well-formedness (allocation counters, no dangling ids) is an invariant.
   * step_closed / run_closed: NO operation, successful or not, changes the closed flag of any existing path.
   * step_np: an operation allocates at most the one path it returns.
   * mutators_frame: segment objects are written only by round / balance / removeIrrelevantSegments and only those held by
     the receiver's list; list objects are written only by quadraticsToCubics / append and only the receiver's (append
     links but never writes the argument's objects); only the receiver (and, through asSegments, the argument of append)
     is rebound.  pure_ops_frame: every other operation (in particular clone and flatten, "returns a new object") leaves
     every pre-existing segment and list object unchanged and the value of every other path unchanged;
     clone_flatten_receiver: and their own receiver keeps its value.  (The segment-level translated / rotated / scaled /
     reversed are pure Gallina functions of values in the model, i.e. cannot modify anything by construction.)
   * step_view / step_view_append: the exact value of the receiver (and of the created path) after each operation, as a
     function of its value before (for append: under the stated separation of receiver and argument).
   * step_wf (premise: eqb decides equality; step_wf_R: closed instance over the reals), step_endpoints (the same in terms
     of [ends]), step_wf_append: the receiver stays
     a non-empty connected chain with EXACT equality of consecutive end/start points, keeps its closed flag, no segment
     object occurs twice, and its end points are the image of the old ones: identity for addExtremes / splitAtPoints /
     balance / quadraticsToCubics / removeIrrelevantSegments / flatten / clone / asSegments / fromSegments, swapped for
     reverse, p+v / rotated / k*p / truncated for translate / rotate / scale / round; for asNodelist / fromNodelist either
     unchanged or (closed path whose end is not isclose to its start) start kept and end = start because the conversion
     appends a closing line (closed_roundtrip_R: unchanged when the closed path ends exactly where it starts); for append:
     starts where the receiver started, ends at the argument's end (or start, when reversed), PROVIDED the join is exact
     (join_exact: whenever the two ends are isclose they are equal) -- see the refutation below.  A path created by
     flatten / clone / fromSegments / fromNodelist is a chain with the receiver's end points.
   * step_preserves_wf / run_preserves_wf (and _R): along any history whose steps succeed and are [safe] (the receiver of a
     mutator shares no list / segment object with another live path; append has distinct receiver and argument and an
     exact join) every live path stays well formed.
   * group_frame, clone_apart, clone_independent: after c = p.clone() the objects reachable from c are disjoint from those
     reachable from every other path; no sequence (any length) of operations on c and on paths created later changes the
     value of any earlier path, and no sequence of operations that does not mention c changes the value of c.

   REFUTED on the bit-exact float instance (vm_compute), i.e. the corresponding unconditional claims are FALSE of the
   faithful model and of the code (minimal histories are reported by the search as findings):
   * append_round_refuted: [append; round] -- the argument is a closed loop starting 1e-10 away from the receiver's end,
     `!=` is isclose-based so no joining line is inserted, and truncation then leaves a gap of one unit.
   * flatten_round_refuted: [flatten; round on the result] -- flatten returns the receiver's Line OBJECTS, so rounding the
     "new" path moves the receiver's lines but not its curves: the receiver is no longer connected.
   * append_closed_refuted: append to a closed path leaves closed = True although the path no longer ends where it starts.

   NOT covered by a theorem: that the oracle samples equal what sample() / regularSample() compute; empty paths (the model
   handles them, the wf theorems assume non-empty paths); histories that mutate a path while another live path shares its
   objects (exactly where the refutations live); NaN / infinities / -0.0 vs 0.0 (equality of points is Leibniz equality);
   "a closed path still ends where it starts" is proved in the preserved-if-it-held form through the end-point clause
   (end points map by the same function, so equal ends stay equal) and is false for append (refutation above). *)

From Coq Require Import PrimFloat.
From Coq Require Import ZArith List Bool Reals Lra Lia Psatz Arith.
From BZ Require Import Base.Ops Hand.Nodelist Hand.Heap Proofs.C08 Proofs.C07 Gen.Line Gen.Quad Gen.Cubic Proofs.Bridge.
Import ListNotations.

Theorem C07_step_inv :
  forall (T : Type) (O : Ops T) (st : state T) (o : op T), inv st -> inv (fst (step O st o)).
Proof. exact (@step_inv). Qed.
Theorem C07_run_inv :
  forall (T : Type) (O : Ops T) (ops : list (op T)) (st : state T), inv st -> inv (run O st ops).
Proof. exact (@run_inv). Qed.
Theorem C07_step_closed :
  forall (T : Type) (O : Ops T) (st : state T) (o : op T) (pid : nat) (hp : hpath T),
  inv st -> st_paths st pid = Some hp -> exists hp' : hpath T, st_paths (fst (step O st o)) pid = Some hp' /\ hp_closed hp' = hp_closed hp.
Proof. exact (@step_closed). Qed.
Theorem C07_run_closed :
  forall (T : Type) (O : Ops T) (ops : list (op T)) (st : state T) (pid : nat) (hp : hpath T),
  inv st -> st_paths st pid = Some hp -> exists hp' : hpath T, st_paths (run O st ops) pid = Some hp' /\ hp_closed hp' = hp_closed hp.
Proof. exact (@run_closed). Qed.
Theorem C07_step_np :
  forall (T : Type) (O : Ops T) (st : state T) (o : op T) (st' : state T) (r : out),
  inv st -> step O st o = (st', r) -> st_np st' = st_np st /\ (forall np : nat, r <> ONew np) \/ r = ONew (st_np st) /\ st_np st' = S (st_np st).
Proof. exact (@step_np). Qed.
Theorem C07_mutators_frame :
  forall (T : Type) (O : Ops T) (st : state T) (o : op T),
  inv st ->
  let st' := fst (step O st o) in
  (forall id : nat, (id < st_ns st)%nat -> ~ (mutates_segs o = true /\ In id (pids st (receiver o))) -> st_segs st' id = st_segs st id) /\
  (forall lid : nat, (lid < st_nl st)%nat -> ~ (mutates_list o = true /\ plist st (receiver o) = Some lid) -> st_lists st' lid = st_lists st lid) /\
  (forall x : nat, (x < st_np st)%nat -> x <> receiver o -> x <> arg o -> st_paths st' x = st_paths st x).
Proof. exact (@mutators_frame). Qed.
Theorem C07_pure_ops_frame :
  forall (T : Type) (O : Ops T) (st : state T) (o : op T),
  inv st ->
  is_pure o = true ->
  let st' := fst (step O st o) in
  (forall id : nat, (id < st_ns st)%nat -> st_segs st' id = st_segs st id) /\
  (forall lid : nat, (lid < st_nl st)%nat -> st_lists st' lid = st_lists st lid) /\
  (forall x : nat, x <> receiver o -> st_paths st x <> None -> view O st' x = view O st x).
Proof. exact (@pure_ops_frame). Qed.
Theorem C07_clone_flatten_receiver :
  forall (T : Type) (O : Ops T) (st : state T) (o : op T) (st' : state T) (r : out) (vals : list (segment T)) (cl : bool),
  inv st ->
  (exists p : nat, o = OClone p) \/ (exists (p : nat) (d : T) (s : list (list (pt T))), o = OFlatten p d s) ->
  view O st (receiver o) = Some (vals, cl) ->
  NoDup (pids st (receiver o)) -> step O st o = (st', r) -> r <> OErr -> view O st' (receiver o) = Some (vals, cl).
Proof. exact (@clone_flatten_receiver). Qed.
Theorem C07_step_view :
  forall (T : Type) (O : Ops T) (st : state T) (o : op T) (st' : state T) (r : out) (vals : list (segment T)) (cl : bool),
  inv st -> view O st (receiver o) = Some (vals, cl) -> NoDup (pids st (receiver o)) -> step O st o = (st', r) -> r <> OErr -> view_post O o vals cl st' r.
Proof. exact (@step_view). Qed.
Theorem C07_step_view_append :
  forall (T : Type) (O : Ops T) (st : state T) (p q : nat) (st' : state T) (r : out) (vals1 : list (segment T)) (cl : bool) (vals2 : list (segment T))
  (cl2 : bool),
  inv st ->
  p <> q ->
  view O st p = Some (vals1, cl) ->
  view O st q = Some (vals2, cl2) ->
  NoDup (pids st p) ->
  NoDup (pids st q) ->
  apart st p q ->
  step O st (OAppend p q) = (st', r) ->
  r <> OErr -> view O st' p = Some (v_append O vals1 vals2, cl) /\ NoDup (pids st' p) /\ view O st' q = Some (vals2, cl2) /\ NoDup (pids st' q).
Proof. exact (@step_view_append). Qed.
Theorem C07_step_wf :
  forall (T : Type) (O : Ops T),
  (forall x y : T, eqb O x y = true -> x = y) ->
  forall (st : state T) (o : op T) (st' : state T) (r : out) (vals : list (segment T)) (cl : bool) (a b : pt T),
  inv st ->
  (forall p q : nat, o <> OAppend p q) ->
  view O st (receiver o) = Some (vals, cl) ->
  NoDup (pids st (receiver o)) ->
  linked a vals b ->
  vals <> [] ->
  step O st o = (st', r) ->
  r <> OErr ->
  (exists vals' : list (segment T),
  view O st' (receiver o) = Some (vals', cl) /\
  NoDup (pids st' (receiver o)) /\
  vals' <> [] /\
  match o with
  | OReverse _ => linked b vals' a
  | OAsNodelist _ | OFromNodelist _ => linked a vals' b \/ cl = true /\ linked a vals' a
  | _ => linked (img O o a) vals' (img O o b)
  end) /\
  (forall np : nat,
  r = ONew np ->
  exists (nvals : list (segment T)) (cl' : bool),
  view O st' np = Some (nvals, cl') /\
  NoDup (pids st' np) /\ nvals <> [] /\ (cl' = cl \/ (exists p : nat, o = OFromSegments p)) /\ (linked a nvals b \/ cl = true /\ linked a nvals a)).
Proof. exact (@step_wf). Qed.
Theorem C07_step_endpoints :
  forall (T : Type) (O : Ops T),
  (forall x y : T, eqb O x y = true -> x = y) ->
  forall (st : state T) (o : op T) (st' : state T) (r : out) (vals : list (segment T)) (cl : bool) (a b : pt T),
  inv st ->
  (forall p q : nat, o <> OAppend p q) ->
  view O st (receiver o) = Some (vals, cl) ->
  NoDup (pids st (receiver o)) ->
  wf_chain vals ->
  ends vals = Some (a, b) ->
  step O st o = (st', r) ->
  r <> OErr ->
  exists vals' : list (segment T),
  view O st' (receiver o) = Some (vals', cl) /\
  wf_chain vals' /\
  match o with
  | OReverse _ => ends vals' = Some (b, a)
  | OAsNodelist _ | OFromNodelist _ => ends vals' = Some (a, b) \/ cl = true /\ ends vals' = Some (a, a)
  | _ => ends vals' = Some (img O o a, img O o b)
  end.
Proof. exact (@step_endpoints). Qed.
Theorem C07_step_wf_append :
  forall (T : Type) (O : Ops T) (st : state T) (p q : nat) (st' : state T) (r : out) (vals1 : list (segment T)) (cl : bool) (vals2 : list (segment T))
  (cl2 : bool) (a b c d : pt T),
  inv st ->
  p <> q ->
  view O st p = Some (vals1, cl) ->
  view O st q = Some (vals2, cl2) ->
  NoDup (pids st p) ->
  NoDup (pids st q) ->
  apart st p q ->
  linked a vals1 b ->
  linked c vals2 d ->
  vals1 <> [] ->
  vals2 <> [] ->
  join_exact O vals1 vals2 ->
  step O st (OAppend p q) = (st', r) ->
  r <> OErr ->
  exists vals' : list (segment T),
  view O st' p = Some (vals', cl) /\
  NoDup (pids st' p) /\ vals' <> [] /\ (linked a vals' d \/ linked a vals' c) /\ view O st' q = Some (vals2, cl2) /\ NoDup (pids st' q).
Proof. exact (@step_wf_append). Qed.
Theorem C07_step_preserves_wf :
  forall (T : Type) (O : Ops T),
  (forall x y : T, eqb O x y = true -> x = y) ->
  forall (st : state T) (o : op T) (st' : state T) (r : out),
  inv st -> (forall x : nat, live st x -> wfp O st x) -> safe O st o -> step O st o = (st', r) -> r <> OErr -> forall x : nat, live st' x -> wfp O st' x.
Proof. exact (@step_preserves_wf). Qed.
Theorem C07_run_preserves_wf :
  forall (T : Type) (O : Ops T),
  (forall x y : T, eqb O x y = true -> x = y) ->
  forall (ops : list (op T)) (st : state T),
  inv st -> (forall x : nat, live st x -> wfp O st x) -> safe_run O st ops -> forall x : nat, live (run O st ops) x -> wfp O (run O st ops) x.
Proof. exact (@run_preserves_wf). Qed.
Theorem C07_group_frame :
  forall (T : Type) (O : Ops T) (ops : list (op T)) (st : state T) (G : nat -> Prop),
  inv st ->
  gsep st G ->
  (forall n : nat, (st_np st <= n)%nat -> G n) ->
  mentions_in G ops ->
  forall y : nat,
  ~ G y -> live st y -> view O (run O st ops) y = view O st y /\ st_paths (run O st ops) y = st_paths st y /\ pids (run O st ops) y = pids st y.
Proof. exact (@group_frame). Qed.
Theorem C07_clone_apart :
  forall (T : Type) (O : Ops T) (st : state T) (p : nat) (st1 : state T) (c : nat),
  inv st ->
  step O st (OClone p) = (st1, ONew c) ->
  c = st_np st /\ st_np st1 = S (st_np st) /\ live st1 c /\ (forall y : nat, y <> c -> live st1 y -> apart st1 c y).
Proof. exact (@clone_apart). Qed.
Theorem C07_clone_independent :
  forall (T : Type) (O : Ops T) (st : state T) (p : nat) (st1 : state T) (c : nat),
  inv st ->
  step O st (OClone p) = (st1, ONew c) ->
  (forall ops : list (op T),
  mentions_in (fun x : nat => x = c \/ (st_np st1 <= x)%nat) ops -> forall y : nat, y <> c -> live st1 y -> view O (run O st1 ops) y = view O st1 y) /\
  (forall ops : list (op T), mentions_in (fun x : nat => x <> c) ops -> view O (run O st1 ops) c = view O st1 c).
Proof. exact (@clone_independent). Qed.
Theorem C07_roundtrip_linked :
  forall (T : Type) (O : Ops T) (cl : bool) (vals : list (segment T)) (a b : pt T),
  linked a vals b ->
  vals <> [] ->
  exists vals' : list (segment T),
  obind (fromNodelist O cl) (toNodelist vals) = Some vals' /\ (vals' = vals \/ cl = true /\ vals' = vals ++ [SLine {| l0 := b; l1 := a |}]).
Proof. exact (@roundtrip_linked). Qed.
Theorem C07_linked_v_append :
  forall (T : Type) (O : Ops T) (vals1 vals2 : list (segment T)) (a b c d : pt T),
  linked a vals1 b ->
  linked c vals2 d ->
  vals1 <> [] ->
  vals2 <> [] -> join_exact O vals1 vals2 -> v_append O vals1 vals2 <> [] /\ (linked a (v_append O vals1 vals2) d \/ linked a (v_append O vals1 vals2) c).
Proof. exact (@linked_v_append). Qed.
Theorem C07_step_wf_R :
  forall (st : state R) (o : op R) (st' : state R) (r : out) (vals : list (segment R)) (cl : bool) (a b : pt R),
  inv st ->
  (forall p q : nat, o <> OAppend p q) ->
  view ROps st (receiver o) = Some (vals, cl) ->
  NoDup (pids st (receiver o)) ->
  linked a vals b ->
  vals <> [] ->
  step ROps st o = (st', r) ->
  r <> OErr ->
  (exists vals' : list (segment R),
  view ROps st' (receiver o) = Some (vals', cl) /\
  NoDup (pids st' (receiver o)) /\
  vals' <> [] /\
  match o with
  | OReverse _ => linked b vals' a
  | OAsNodelist _ | OFromNodelist _ => linked a vals' b \/ cl = true /\ linked a vals' a
  | _ => linked (img ROps o a) vals' (img ROps o b)
  end) /\
  (forall np : nat,
  r = ONew np ->
  exists (nvals : list (segment R)) (cl' : bool),
  view ROps st' np = Some (nvals, cl') /\
  NoDup (pids st' np) /\ nvals <> [] /\ (cl' = cl \/ (exists p : nat, o = OFromSegments p)) /\ (linked a nvals b \/ cl = true /\ linked a nvals a)).
Proof. exact (@step_wf_R). Qed.
Theorem C07_step_endpoints_R :
  forall (st : state R) (o : op R) (st' : state R) (r : out) (vals : list (segment R)) (cl : bool) (a b : pt R),
  inv st ->
  (forall p q : nat, o <> OAppend p q) ->
  view ROps st (receiver o) = Some (vals, cl) ->
  NoDup (pids st (receiver o)) ->
  wf_chain vals ->
  ends vals = Some (a, b) ->
  step ROps st o = (st', r) ->
  r <> OErr ->
  exists vals' : list (segment R),
  view ROps st' (receiver o) = Some (vals', cl) /\
  wf_chain vals' /\
  match o with
  | OReverse _ => ends vals' = Some (b, a)
  | OAsNodelist _ | OFromNodelist _ => ends vals' = Some (a, b) \/ cl = true /\ ends vals' = Some (a, a)
  | _ => ends vals' = Some (img ROps o a, img ROps o b)
  end.
Proof. exact (@step_endpoints_R). Qed.
Theorem C07_step_preserves_wf_R :
  forall (st : state R) (o : op R) (st' : state R) (r : out),
  inv st ->
  (forall x : nat, live st x -> wfp ROps st x) -> safe ROps st o -> step ROps st o = (st', r) -> r <> OErr -> forall x : nat, live st' x -> wfp ROps st' x.
Proof. exact (@step_preserves_wf_R). Qed.
Theorem C07_run_preserves_wf_R :
  forall (ops : list (op R)) (st : state R),
  inv st ->
  (forall x : nat, live st x -> wfp ROps st x) -> safe_run ROps st ops -> forall x : nat, live (run ROps st ops) x -> wfp ROps (run ROps st ops) x.
Proof. exact (@run_preserves_wf_R). Qed.
Theorem C07_closed_roundtrip_R :
  forall (vals : list (segment R)) (a : pt R), linked a vals a -> vals <> [] -> obind (fromNodelist ROps true) (toNodelist vals) = Some vals.
Proof. exact (@closed_roundtrip_R). Qed.
Theorem C07_exR_inv :
  inv exR_st.
Proof. exact (@exR_inv). Qed.
Theorem C07_exR_wf :
  forall x : nat, live exR_st x -> wfp ROps exR_st x.
Proof. exact (@exR_wf). Qed.
Theorem C07_exR_safe :
  safe ROps exR_st (ORound 0).
Proof. exact (@exR_safe). Qed.
Theorem C07_append_round_refuted :
  inv r1_st /\
  (forall x : nat, live r1_st x -> wfp FOps r1_st x) /\
  run_ok FOps r1_st r1_ops = true /\
  (exists (vals : list (segment float)) (cl : bool), view FOps (run FOps r1_st r1_ops) 0 = Some (vals, cl) /\ ~ wf_chain vals).
Proof. exact (@append_round_refuted). Qed.
Theorem C07_flatten_round_refuted :
  inv r2_st /\
  (forall x : nat, live r2_st x -> wfp FOps r2_st x) /\
  run_ok FOps r2_st r2_ops = true /\
  (exists (vals : list (segment float)) (cl : bool), view FOps (run FOps r2_st r2_ops) 0 = Some (vals, cl) /\ ~ wf_chain vals).
Proof. exact (@flatten_round_refuted). Qed.
Theorem C07_append_closed_refuted :
  inv r3_st /\
  (forall x : nat, live r3_st x -> wfp FOps r3_st x) /\
  view FOps r3_st 0 = Some ([fl 0 0 4 0; fl 4 0 0 0], true) /\
  ends [fl 0 0 4 0; fl 4 0 0 0] = Some ({| px := 0%float; py := 0%float |}, {| px := 0%float; py := 0%float |}) /\
  (exists (vals : list (segment float)) (a b : pt float),
  view FOps (fst (step FOps r3_st (OAppend 0 1))) 0 = Some (vals, true) /\ wf_chain vals /\ ends vals = Some (a, b) /\ a <> b).
Proof. exact (@append_closed_refuted). Qed.
(* the hand models ARE the definitions regenerated from the source (Proofs/Bridge.v), for every scalar carrier *)
Theorem C07_seg_clone_is_generated :
  forall (T : Type) (O : Ops T) (s : segment T), seg_clone O s = match s with SLine l => SLine (Line_clone O l) | SQuad q => SQuad (Quad_clone O q) | SCubic c => SCubic (Cubic_clone O c) end.
Proof. exact @seg_clone_gen. Qed.
Theorem C07_seg_rounded_is_generated :
  forall (T : Type) (O : Ops T) (s : segment T), seg_rounded O s = match s with SLine l => SLine (Line_round O l) | SQuad q => SQuad (Quad_round O q) | SCubic c => SCubic (Cubic_round O c) end.
Proof. exact @seg_rounded_gen. Qed.

Print Assumptions C07_step_inv.
Print Assumptions C07_run_inv.
Print Assumptions C07_step_closed.
Print Assumptions C07_run_closed.
Print Assumptions C07_step_np.
Print Assumptions C07_mutators_frame.
Print Assumptions C07_pure_ops_frame.
Print Assumptions C07_clone_flatten_receiver.
Print Assumptions C07_step_view.
Print Assumptions C07_step_view_append.
Print Assumptions C07_step_wf.
Print Assumptions C07_step_endpoints.
Print Assumptions C07_step_wf_append.
Print Assumptions C07_step_preserves_wf.
Print Assumptions C07_run_preserves_wf.
Print Assumptions C07_group_frame.
Print Assumptions C07_clone_apart.
Print Assumptions C07_clone_independent.
Print Assumptions C07_roundtrip_linked.
Print Assumptions C07_linked_v_append.
Print Assumptions C07_step_wf_R.
Print Assumptions C07_step_endpoints_R.
Print Assumptions C07_step_preserves_wf_R.
Print Assumptions C07_run_preserves_wf_R.
Print Assumptions C07_closed_roundtrip_R.
Print Assumptions C07_exR_inv.
Print Assumptions C07_exR_wf.
Print Assumptions C07_exR_safe.
Print Assumptions C07_append_round_refuted.
Print Assumptions C07_flatten_round_refuted.
Print Assumptions C07_append_closed_refuted.
Print Assumptions C07_seg_clone_is_generated.
Print Assumptions C07_seg_rounded_is_generated.
