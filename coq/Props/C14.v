(* C14 -- Curve fitting honours its error bound and interpolates the end points.
   Statements only; every proof is [exact <lemma of Proofs/C14.v>].

   WHAT IS MODELLED (Hand/Fit.v, hand-written, generic over the scalar carrier, executable, tied to the code by the
   correspondence check, which compares result AND the log of every _fitCurve call -- arguments, final
   (maxErrorRatio, splitPoint), decision -- bit for bit with CPython on the float instance):
     * [fitC O fit1 ctan fuel points t1 t2 B]: the recursion skeleton of CurveFit._fitCurve over an ABSTRACT numeric
       core fit1 (one call's generateBezier + reparameterize + computeMaxError + iteration loop: an exception,
       "degenerate", or the final (bez, ratio, splitPoint)) and ctan (centerTangent).  Result: RNone | RList | RRaise;
       unbounded recursion (Python: RecursionError) is RRaise OutOfFuel.  The log records per call what it decided:
       DAccept / DSplit / DReenter1,2 / and the three `return []` exits DDegenerate, DBadCorner, DNoBudget.
     * [fit1_num O error cT], [centerTangent O]: the numeric core transcribed operation by operation (B0..B3, fitLine,
       chordLengthParameterize, leftTangent, rightTangent, estimateLengths, estimateBi, generateBezier,
       newtonRaphsonFind, reparameterize, computeHook, computeMaxError) on the GENERATED Point / CubicBezier kernels;
       ZeroDivisionError / IndexError / ValueError are values.   [fitCurve O ...] = dedup + fitC on that core.

   WHAT IS PROVED
   (1) about the skeleton, for EVERY numeric core and every carrier (T, O arbitrary):
       count_le_budget (no hypothesis: the number of cubics never exceeds maxSegments >= 1);
       result_covers / accepted_pieces (if no call took a `return []` exit, the result is a sequence of ACCEPTED fits
       -- abs(ratio) <= 1.0, or the two-point fitLine -- of consecutive runs of the input that share their end points,
       and every input point lies in such a run); chain_if_no_empty / ends_interpolated / chain_connected_if_no_empty
       (then the chain starts exactly at the first point, ends exactly at the last, consecutive cubics share the split
       point exactly) under ends_ok (a fit starts/ends at the first/last point of its run: proved for the transcribed core
       on any carrier, ends_ok_num, fitLine_ends); count_le_points (k >= 2 points give at most k-1 cubics) and
       budget_suffices (a budget >= number of points - 1 never reaches the final `else: return []`: left gets B-1,
       right gets B - len(left)); no_empty_return (none of the three `return []` exits is taken); reentry_diverges (a
       corner reported at index 0 while tangent1 is already Point(0.0,0.0) re-enters with identical arguments for ever)
       and fuel_suffices (conversely, if the core never does that, fuel 2*len is enough: the model runs out of fuel ONLY
       through that re-entry); total_or_diverges (no other exception escapes).
       The hypotheses on the core used there are named predicates: split_in_range / split_interior (an unaccepted
       non-corner split point lies in 1..len-2), corner_in_range (a corner index lies in 0..len-2), no_degenerate,
       no_raise_inv, ctan_ok.
   (2) about the transcribed core over the REALS these hypotheses are theorems: split_interior_num (the point of
       largest error is never the last one: chord-length u[-1] = v/v = 1, Newton leaves u = 1 at the end point where the
       curve is exact), corner_in_range_num, no_degenerate_num (the `u[-1] == 0.0: return []` exit is dead code),
       ctan_ok_num (no IndexError), no_raise_num (no exception on >= 3 points whose neighbours differ, error + 1e-9 > 0,
       cornerTolerance > 0), no_fuel_raise_num; accepted_within_tolerance_num: an accepted fit passes within
       tolerance = sqrt(error + 1e-9) of every point of its run at a parameter in [0,1] -- also when the accepted ratio
       is the negated hook ratio (then distRatio < maxHookRatio <= 1).
   (3) fitCurve's duplicate filter removes exactly the points equal to their predecessor (dedup_consecutive_only, with
       an index-wise specification), keeps the first and the last point (dedup_first_last: a closing stroke ends where
       it should), leaves neighbours distinct (dedup_adjdist) and keeps >= 2 points if two differ (dedup_two_distinct).
   (4) assembled (fitCurve_sound_R): over the reals, for data with two distinct points, error + 1e-9 > 0,
       cornerTolerance > 0 and budget >= number of points, fitCurve either diverges by the re-entry (OutOfFuel) or
       returns a non-empty connected chain from exactly the first to exactly the last point, of at most `budget` cubics,
       every input point within sqrt(error + 1e-9) of a cubic of the chain at a parameter in [0,1], and no call took a
       `return []` exit; fitCurve_terminates_R: it does not diverge if the core never reports the stuck corner.
   (5) budget_refuted_old: with the arithmetic before commit 46cfad4 (right half gets maxSegments-1-len(left)) six
       points with budget six run out of budget (3 cubics and a hole); budget_present_arithmetic: the same run now.

   WHAT IS NOT PROVED (watched by the search only)
     * that the binary64 run takes the same decisions as the real-number model (rounding), finiteness of control points;
     * that the transcribed core never reports the stuck corner (so termination of the re-entry is NOT proved: it is
       a hypothesis of fitCurve_terminates_R; neither the search over 20 000 inputs nor 35 000 direct _fitCurve calls with
       tangent1 = Point(0,0) ever produced it);
     * "within sqrt(error)": the implementation's own tolerance is sqrt(error + 1e-9).
   History: fitCurve compared neighbours by hash(); CPython has hash(-1.0) == hash(-2.0), so [P(-1,-1), P(-2,-2)] was
   "one point" (result None) and [P(0,0), P(-1,0), P(-2,0)] ended at (-1,0).  Found while writing this model, repaired
   in /repo by c16e58b (coordinates are compared); the model and dedup_consecutive_only are about the repaired text. *)

From Coq Require Import PrimFloat.
From Coq Require Import ZArith List Bool Reals Lra.
From BZ Require Import Base.Ops Gen.Point Gen.Cubic Hand.Fit Proofs.C14 Gen.Fit Proofs.Bridge.
Import ListNotations.
From BZ Require Proofs.Transfer6.
From BZ Require Gen.Sample Proofs.Bridge6.
Open Scope R_scope.

Theorem C14_count_le_budget :
  forall (T : Type) (O : Ops T) (fit1 : list (pt T) -> option (pt T) -> option (pt T) -> fitres T) (ctan : list (pt T) -> Z -> option (pt T)) (fuel : nat) (points : list (pt T)) (t1 t2 : option (pt T)) (B : Z) (l : list (seg4 T)) (lg : list (event T)), (1 <= B)%Z -> fitC O fit1 ctan fuel points t1 t2 B = (RList l, lg) -> (Z.of_nat (length l) <= B)%Z.
Proof. exact @count_le_budget. Qed.
Theorem C14_result_covers :
  forall (T : Type) (O : Ops T) (fit1 : list (pt T) -> option (pt T) -> option (pt T) -> fitres T) (ctan : list (pt T) -> Z -> option (pt T)), split_in_range O fit1 -> forall (fuel : nat) (points : list (pt T)) (t1 t2 : option (pt T)) (B : Z) (l : list (seg4 T)) (lg : list (event T)), fitC O fit1 ctan fuel points t1 t2 B = (RList l, lg) -> no_empty lg -> covers O fit1 points l.
Proof. exact @result_covers. Qed.
Theorem C14_chain_if_no_empty :
  forall (T : Type) (O : Ops T) (fit1 : list (pt T) -> option (pt T) -> option (pt T) -> fitres T) (ctan : list (pt T) -> Z -> option (pt T)), split_in_range O fit1 -> ends_ok fit1 -> forall (fuel : nat) (a : pt T) (m : list (pt T)) (t1 t2 : option (pt T)) (B : Z) (l : list (seg4 T)) (lg : list (event T)), fitC O fit1 ctan fuel (a :: m) t1 t2 B = (RList l, lg) -> no_empty lg -> chain_from a l (last (a :: m) a) /\ l <> [].
Proof. exact @chain_if_no_empty. Qed.
Theorem C14_ends_interpolated :
  forall (T : Type) (O : Ops T) (fit1 : list (pt T) -> option (pt T) -> option (pt T) -> fitres T) (ctan : list (pt T) -> Z -> option (pt T)), split_in_range O fit1 -> ends_ok fit1 -> forall (fuel : nat) (a : pt T) (m : list (pt T)) (t1 t2 : option (pt T)) (B : Z) (l : list (seg4 T)) (lg : list (event T)) (d : seg4 T), fitC O fit1 ctan fuel (a :: m) t1 t2 B = (RList l, lg) -> no_empty lg -> l <> [] /\ c0 (hd d l) = a /\ c3 (last l d) = last (a :: m) a.
Proof. exact @ends_interpolated. Qed.
Theorem C14_chain_connected_if_no_empty :
  forall (T : Type) (O : Ops T) (fit1 : list (pt T) -> option (pt T) -> option (pt T) -> fitres T) (ctan : list (pt T) -> Z -> option (pt T)), split_in_range O fit1 -> ends_ok fit1 -> forall (fuel : nat) (a : pt T) (m : list (pt T)) (t1 t2 : option (pt T)) (B : Z) (l : list (seg4 T)) (lg : list (event T)) (l1 : list (seg4 T)) (c c' : seg4 T) (l2 : list (seg4 T)), fitC O fit1 ctan fuel (a :: m) t1 t2 B = (RList l, lg) -> no_empty lg -> l = l1 ++ c :: c' :: l2 -> c3 c = c0 c'.
Proof. exact @chain_connected_if_no_empty. Qed.
Theorem C14_accepted_pieces :
  forall (T : Type) (O : Ops T) (fit1 : list (pt T) -> option (pt T) -> option (pt T) -> fitres T) (ctan : list (pt T) -> Z -> option (pt T)), split_in_range O fit1 -> forall (fuel : nat) (points : list (pt T)) (t1 t2 : option (pt T)) (B : Z) (l : list (seg4 T)) (lg : list (event T)), fitC O fit1 ctan fuel points t1 t2 B = (RList l, lg) -> no_empty lg -> (forall c : seg4 T, In c l -> exists sub pre post : list (pt T), accepted O fit1 sub c /\ points = pre ++ sub ++ post) /\ (forall p : pt T, In p points -> exists (sub : list (pt T)) (c : seg4 T), In c l /\ accepted O fit1 sub c /\ In p sub).
Proof. exact @accepted_pieces. Qed.
Theorem C14_count_le_points :
  forall (T : Type) (O0 : Ops T) (fit1 : list (pt T) -> option (pt T) -> option (pt T) -> fitres T) (ctan : list (pt T) -> Z -> option (pt T)), split_interior O0 fit1 -> forall (fuel : nat) (points : list (pt T)) (t1 t2 : option (pt T)) (B : Z) (l : list (seg4 T)) (lg : list (event T)), (2 <= length points)%nat -> fitC O0 fit1 ctan fuel points t1 t2 B = (RList l, lg) -> (length l <= length points - 1)%nat.
Proof. exact @count_le_points. Qed.
Theorem C14_budget_suffices :
  forall (T : Type) (O0 : Ops T) (fit1 : list (pt T) -> option (pt T) -> option (pt T) -> fitres T) (ctan : list (pt T) -> Z -> option (pt T)), split_interior O0 fit1 -> forall (fuel : nat) (points : list (pt T)) (t1 t2 : option (pt T)) (B : Z) (x : pyres (seg4 T)) (lg : list (event T)), (2 <= length points)%nat -> (Z.of_nat (length points) - 1 <= B)%Z -> fitC O0 fit1 ctan fuel points t1 t2 B = (x, lg) -> forall e : event T, In e lg -> forall (r : T) (sp : Z), ev_dec e <> DNoBudget r sp.
Proof. exact @budget_suffices. Qed.
Theorem C14_no_empty_return :
  forall (T : Type) (O0 : Ops T) (fit1 : list (pt T) -> option (pt T) -> option (pt T) -> fitres T) (ctan : list (pt T) -> Z -> option (pt T)), split_interior O0 fit1 -> corner_in_range O0 fit1 -> no_degenerate fit1 -> forall (fuel : nat) (points : list (pt T)) (t1 t2 : option (pt T)) (B : Z) (x : pyres (seg4 T)) (lg : list (event T)), (2 <= length points)%nat -> (Z.of_nat (length points) - 1 <= B)%Z -> fitC O0 fit1 ctan fuel points t1 t2 B = (x, lg) -> no_empty lg.
Proof. exact @no_empty_return. Qed.
Theorem C14_reentry_diverges :
  forall (T : Type) (O : Ops T) (fit1 : list (pt T) -> option (pt T) -> option (pt T) -> fitres T) (ctan : list (pt T) -> Z -> option (pt T)) (points : list (pt T)) (t2 : option (pt T)) (B : Z) (bez : seg4 T) (r : T), fit_len points = true -> fit1 points (Some (zeroP O)) t2 = FitOk bez r 0 -> leb O (abs_ O r) (f1 O) = false -> ltb O r (ofZ O 0) = true -> forall fuel : nat, fst (fitC O fit1 ctan fuel points (Some (zeroP O)) t2 B) = RRaise OutOfFuel.
Proof. exact @reentry_diverges. Qed.
Theorem C14_total_or_diverges :
  forall (T : Type) (O0 : Ops T) (fit1 : list (pt T) -> option (pt T) -> option (pt T) -> fitres T) (ctan : list (pt T) -> Z -> option (pt T)) (Inv : list (pt T) -> Prop), split_interior O0 fit1 -> corner_in_range O0 fit1 -> inv_slices Inv -> no_raise_inv fit1 Inv -> ctan_ok ctan -> forall (fuel : nat) (points : list (pt T)) (t1 t2 : option (pt T)) (B : Z) (x : pyres (seg4 T)) (lg : list (event T)), Inv points -> (2 <= length points)%nat -> fitC O0 fit1 ctan fuel points t1 t2 B = (x, lg) -> x = RRaise OutOfFuel \/ (exists l : list (seg4 T), x = RList l).
Proof. exact @total_or_diverges. Qed.
Theorem C14_fuel_suffices :
  forall (T : Type) (O0 : Ops T) (fit1 : list (pt T) -> option (pt T) -> option (pt T) -> fitres T) (ctan : list (pt T) -> Z -> option (pt T)), split_interior O0 fit1 -> corner_in_range O0 fit1 -> no_stuck_reentry O0 fit1 -> no_fuel_raise fit1 -> forall (n : nat) (points : list (pt T)) (t1 t2 : option (pt T)) (B : Z) (fuel : nat), (2 <= length points <= n)%nat -> (2 * n <= fuel)%nat -> fst (fitC O0 fit1 ctan fuel points t1 t2 B) <> RRaise OutOfFuel.
Proof. exact @fuel_suffices. Qed.
Theorem C14_ends_ok_num :
  forall (T : Type) (O : Ops T) (error cT : T), ends_ok (fit1_num O error cT).
Proof. exact @ends_ok_num. Qed.
Theorem C14_fitLine_ends :
  forall (T : Type) (O : Ops T) (a b : pt T) (t1 t2 : option (pt T)), c0 (fitLine O a b t1 t2) = a /\ c3 (fitLine O a b t1 t2) = b.
Proof. exact @fitLine_ends. Qed.
Theorem C14_ctan_ok_num :
  forall (T : Type) (O : Ops T), ctan_ok (centerTangent O).
Proof. exact @ctan_ok_num. Qed.
Theorem C14_dedup_consecutive_only :
  forall l : list (pt R), dedup ROps l = kept_spec l.
Proof. exact @dedup_consecutive_only. Qed.
Theorem C14_dedup_first_last :
  forall (x : pt R) (r : list (pt R)), exists r' : list (pt R), dedup ROps (x :: r) = x :: r' /\ last (dedup ROps (x :: r)) x = last (x :: r) x.
Proof. exact @dedup_first_last. Qed.
Theorem C14_dedup_adjdist :
  forall l : list (pt R), adjdist (dedup ROps l).
Proof. exact @dedup_adjdist. Qed.
Theorem C14_dedup_two_distinct :
  forall (l : list (pt R)) (a b : pt R), In a l -> In b l -> a <> b -> (2 <= length (dedup ROps l))%nat.
Proof. exact @dedup_two_distinct. Qed.
Theorem C14_dedup_closing_stroke :
  dedup ROps [{| px := 0; py := 0 |}; {| px := 0; py := 0 |}; {| px := 1; py := 0 |}; {| px := 1; py := 1 |}; {| px := 1; py := 1 |}; {| px := 0; py := 0 |}] = [{| px := 0; py := 0 |}; {| px := 1; py := 0 |}; {| px := 1; py := 1 |}; {| px := 0; py := 0 |}].
Proof. exact @dedup_closing_stroke. Qed.
Theorem C14_no_degenerate_num :
  forall error cT : R, no_degenerate (fit1_num ROps error cT).
Proof. exact @no_degenerate_num. Qed.
Theorem C14_split_interior_num :
  forall error cT : R, split_interior ROps (fit1_num ROps error cT).
Proof. exact @split_interior_num. Qed.
Theorem C14_corner_in_range_num :
  forall error cT : R, corner_in_range ROps (fit1_num ROps error cT).
Proof. exact @corner_in_range_num. Qed.
Theorem C14_accepted_within_tolerance_num :
  forall (error cT : R) (pts : list (pt R)) (t1 t2 : option (pt R)) (bez : seg4 R) (r : R) (sp : Z), fit1_num ROps error cT pts t1 t2 = FitOk bez r sp -> leb ROps (abs_ ROps r) (f1 ROps) = true -> forall p : pt R, In p pts -> exists u : R, 0 <= u <= 1 /\ Point_distanceFrom ROps (Cubic_pointAtTime ROps bez u) p <= tol_of error.
Proof. exact @accepted_within_tolerance_num. Qed.
Theorem C14_no_raise_num :
  forall error cT : R, 0 < radicand error -> 0 < cT -> forall (pts : list (pt R)) (t1 t2 : option (pt R)) (e : exn), adjdist pts -> (3 <= length pts)%nat -> fit1_num ROps error cT pts t1 t2 <> FitRaise e.
Proof. exact @no_raise_num. Qed.
Theorem C14_no_fuel_raise_num :
  forall error cT : R, no_fuel_raise (fit1_num ROps error cT).
Proof. exact @no_fuel_raise_num. Qed.
Theorem C14_inv_slices_adjdist :
  inv_slices adjdist.
Proof. exact @inv_slices_adjdist. Qed.
Theorem C14_fitCurve_sound_R :
  forall (error cT : R) (fuel : nat) (data : list (pt R)) (B : Z) (x : pyres (seg4 R)) (lg : list (event R)) (a b : pt R), 0 < radicand error -> 0 < cT -> In a data -> In b data -> a <> b -> (Z.of_nat (length data) <= B)%Z -> fitCurve ROps fuel data error cT B = (x, lg) -> x = RRaise OutOfFuel \/ (exists (l : list (seg4 R)) (first : pt R) (rest : list (pt R)), x = RList l /\ data = first :: rest /\ l <> [] /\ chain_from first l (last data first) /\ (Z.of_nat (length l) <= B)%Z /\ (forall p : pt R, In p data -> exists (c : seg4 R) (u : R), In c l /\ 0 <= u <= 1 /\ Point_distanceFrom ROps (Cubic_pointAtTime ROps c u) p <= tol_of error) /\ no_empty lg).
Proof. exact @fitCurve_sound_R. Qed.
Theorem C14_fitCurve_terminates_R :
  forall (error cT : R) (fuel : nat) (data : list (pt R)) (B : Z), no_stuck_reentry ROps (fit1_num ROps error cT) -> (2 * length data <= fuel)%nat -> fst (fitCurve ROps fuel data error cT B) <> RRaise OutOfFuel.
Proof. exact @fitCurve_terminates_R. Qed.
Theorem C14_budget_refuted_old :
  exists (l : list (seg4 Z)) (lg : list (event Z)), fitC_old ZOps split1_core (fun (_ : list (pt Z)) (_ : Z) => Some {| px := 1%Z; py := 0%Z |}) 20 six_points None None 6 = (RList l, lg) /\ has_nobudget lg = true /\ length l = 3%nat.
Proof. exact @budget_refuted_old. Qed.
Theorem C14_budget_present_arithmetic :
  exists (l : list (seg4 Z)) (lg : list (event Z)), fitC ZOps split1_core (fun (_ : list (pt Z)) (_ : Z) => Some {| px := 1%Z; py := 0%Z |}) 20 six_points None None 6 = (RList l, lg) /\ has_nobudget lg = false /\ length l = 5%nat.
Proof. exact @budget_present_arithmetic. Qed.
Theorem C14_fit_two_points_R :
  fitCurve ROps 3 [{| px := 0; py := 0 |}; {| px := 3; py := 0 |}] 1 1 2 = (RList [{| c0 := {| px := 0; py := 0 |}; c1 := {| px := 1; py := 0 |}; c2 := {| px := 2; py := 0 |}; c3 := {| px := 3; py := 0 |} |}], [{| ev_n := 2; ev_t1 := None; ev_t2 := None; ev_budget := 2; ev_dec := DLine |}]).
Proof. exact @fit_two_points_R. Qed.
Theorem C14_fit_two_points_sound :
  exists l : list (seg4 R), fitCurve ROps 3 [{| px := 0; py := 0 |}; {| px := 3; py := 0 |}] 1 1 2 = (RList l, [{| ev_n := 2; ev_t1 := None; ev_t2 := None; ev_budget := 2; ev_dec := DLine |}]) /\ chain_from {| px := 0; py := 0 |} l {| px := 3; py := 0 |}.
Proof. exact @fit_two_points_sound. Qed.
Theorem C14_reentry_example :
  fst (fitC ROps (fun (_ : list (pt R)) (_ _ : option (pt R)) => FitOk {| c0 := {| px := 0; py := 0 |}; c1 := {| px := 0; py := 0 |}; c2 := {| px := 0; py := 0 |}; c3 := {| px := 0; py := 0 |} |} (-2) 0) (fun (_ : list (pt R)) (_ : Z) => None) 1000 [{| px := 0; py := 0 |}; {| px := 1; py := 0 |}; {| px := 2; py := 0 |}] (Some (zeroP ROps)) None 5) = RRaise OutOfFuel.
Proof. exact @reentry_example. Qed.
(* the hand models ARE the definitions regenerated from the source (Proofs/Bridge.v), for every scalar carrier *)
Theorem C14_B_are_generated :
  forall (T : Type) (O : Ops T) (u : T), B0 O u = curvefitter_B0 O u /\ B1 O u = curvefitter_B1 O u /\ B2 O u = curvefitter_B2 O u /\ B3 O u = curvefitter_B3 O u.
Proof. exact (fun T O u => conj (@B0_gen T O u) (conj (@B1_gen T O u) (conj (@B2_gen T O u) (@B3_gen T O u)))). Qed.
Theorem C14_estimateBi_is_generated :
  forall (T : Type) (O : Ops T) (bez : seg4 T) (data : list (pt T)) (u : list T), estimateBi O bez data u = CurveFit_estimateBi O bez data u.
Proof. exact @estimateBi_gen. Qed.
Theorem C14_computeHook_is_generated :
  forall (T : Type) (O : Ops T) (ffrom to : pt T) (parameter : T) (bez : seg4 T) (cT x : T), computeHook O ffrom to parameter bez cT = Some x -> x = CurveFit_computeHook O ffrom to parameter bez cT.
Proof. exact @computeHook_gen. Qed.
Theorem C14_chordLengthParameterize_is_generated :
  forall (T : Type) (O : Ops T) (points : list (pt T)) (l : list T), chordLengthParameterize O points = Some l -> l = CurveFit_chordLengthParameterize O points.
Proof. exact @chordLengthParameterize_gen. Qed.
Theorem C14_fitCurve_inner_gen :
  forall (T : Type) (O0 : Ops T), lit O0 98 100 0x1.f5c28f5c28f5cp-1 = lit O0 49 50 0x1.f5c28f5c28f5cp-1 -> eqb O0 (ofZ O0 0) (ofZ O0 0) = true -> forall (fuel depth : nat) (points : list (pt T)) (t1 t2 : option (pt T)) (error cT : T) (ms : Z), (10 <= fuel)%nat -> (length points <= fuel)%nat -> fst (fitCurve_inner O0 depth points t1 t2 error cT ms) <> RRaise OutOfFuel -> Bridge6.pyres_of (CurveFit__fitCurve O0 fuel depth points t1 t2 error cT ms) = Some (fst (fitCurve_inner O0 depth points t1 t2 error cT ms)).
Proof. exact @Bridge6.fitCurve_inner_gen. Qed.
Theorem C14_fitCurve_gen :
  forall (T : Type) (O0 : Ops T), lit O0 98 100 0x1.f5c28f5c28f5cp-1 = lit O0 49 50 0x1.f5c28f5c28f5cp-1 -> eqb O0 (ofZ O0 0) (ofZ O0 0) = true -> forall (fuel depth : nat) (data : list (pt T)) (error cT : T) (ms : Z), (10 <= fuel)%nat -> (length data <= fuel)%nat -> fst (fitCurve O0 depth data error cT ms) <> RRaise OutOfFuel -> Bridge6.pyres_of (CurveFit_fitCurve O0 fuel depth data error cT ms) = Some (fst (fitCurve O0 depth data error cT ms)).
Proof. exact @Bridge6.fitCurve_gen. Qed.
Theorem C14_fromPoints_hand :
  forall (T : Type) (O0 : Ops T), lit O0 98 100 0x1.f5c28f5c28f5cp-1 = lit O0 49 50 0x1.f5c28f5c28f5cp-1 -> eqb O0 (ofZ O0 0) (ofZ O0 0) = true -> forall (fuel depth : nat) (data : list (pt T)) (error cT : T) (ms : Z), (10 <= fuel)%nat -> (length data <= fuel)%nat -> match fst (fitCurve O0 depth data error cT ms) with | RNone => Path_fromPoints O0 fuel depth data error cT ms = Some (Sample.Returns ([], false)) | RList l => Path_fromPoints O0 fuel depth data error cT ms = Some (Sample.Returns (l, false)) | RRaise (ZeroDivisionError as e) | RRaise (IndexError as e) | RRaise (TypeError as e) | RRaise (ValueError as e) => exists x : Sample.pyexc, Path_fromPoints O0 fuel depth data error cT ms = Some (Sample.Raises x) /\ Bridge6.exn_of x = Some e | RRaise OutOfFuel => True end.
Proof. exact @Bridge6.fromPoints_hand. Qed.
Theorem C14_fitCurve_gen_R :
  forall (fuel depth : nat) (data : list (pt R)) (error cT : R) (ms : Z), (10 <= fuel)%nat -> (length data <= fuel)%nat -> fst (fitCurve ROps depth data error cT ms) <> RRaise OutOfFuel -> Bridge6.pyres_of (CurveFit_fitCurve ROps fuel depth data error cT ms) = Some (fst (fitCurve ROps depth data error cT ms)).
Proof. exact @Bridge6.fitCurve_gen_R. Qed.
Theorem C14_fitCurve_inner_gen_R :
  forall (fuel depth : nat) (points : list (pt R)) (t1 t2 : option (pt R)) (error cT : R) (ms : Z), (10 <= fuel)%nat -> (length points <= fuel)%nat -> fst (fitCurve_inner ROps depth points t1 t2 error cT ms) <> RRaise OutOfFuel -> Bridge6.pyres_of (CurveFit__fitCurve ROps fuel depth points t1 t2 error cT ms) = Some (fst (fitCurve_inner ROps depth points t1 t2 error cT ms)).
Proof. exact @Bridge6.fitCurve_inner_gen_R. Qed.
Theorem C14_fitCurve_gen_F :
  forall (tbl : list libm_entry) (fuel depth : nat) (data : list (pt float)) (error cT : float) (ms : Z), (10 <= fuel)%nat -> (length data <= fuel)%nat -> fst (fitCurve (FOpsT tbl) depth data error cT ms) <> RRaise OutOfFuel -> Bridge6.pyres_of (CurveFit_fitCurve (FOpsT tbl) fuel depth data error cT ms) = Some (fst (fitCurve (FOpsT tbl) depth data error cT ms)).
Proof. exact @Bridge6.fitCurve_gen_F. Qed.
Theorem C14_fitCurve_inner_gen_F :
  forall (tbl : list libm_entry) (fuel depth : nat) (points : list (pt float)) (t1 t2 : option (pt float)) (error cT : float) (ms : Z), (10 <= fuel)%nat -> (length points <= fuel)%nat -> fst (fitCurve_inner (FOpsT tbl) depth points t1 t2 error cT ms) <> RRaise OutOfFuel -> Bridge6.pyres_of (CurveFit__fitCurve (FOpsT tbl) fuel depth points t1 t2 error cT ms) = Some (fst (fitCurve_inner (FOpsT tbl) depth points t1 t2 error cT ms)).
Proof. exact @Bridge6.fitCurve_inner_gen_F. Qed.
Theorem C14_gen_fitCurve_sound_R :
  forall (error cT : R) (fuel depth : nat) (data : list (pt R)) (B : Z) (a b : pt R), 0 < radicand error -> 0 < cT -> In a data -> In b data -> a <> b -> (Z.of_nat (length data) <= B)%Z -> (10 <= fuel)%nat -> (length data <= fuel)%nat -> fst (fitCurve ROps depth data error cT B) <> RRaise OutOfFuel -> exists (l : list (seg4 R)) (first : pt R) (rest : list (pt R)), CurveFit_fitCurve ROps fuel depth data error cT B = Some (Sample.Returns (Some l)) /\ data = first :: rest /\ l <> [] /\ chain_from first l (last data first) /\ (Z.of_nat (length l) <= B)%Z /\ (forall p : pt R, In p data -> exists (c : seg4 R) (u : R), In c l /\ 0 <= u <= 1 /\ Point_distanceFrom ROps (Cubic_pointAtTime ROps c u) p <= tol_of error).
Proof. exact @Transfer6.gen_fitCurve_sound_R. Qed.

Print Assumptions C14_count_le_budget.
Print Assumptions C14_result_covers.
Print Assumptions C14_chain_if_no_empty.
Print Assumptions C14_ends_interpolated.
Print Assumptions C14_chain_connected_if_no_empty.
Print Assumptions C14_accepted_pieces.
Print Assumptions C14_count_le_points.
Print Assumptions C14_budget_suffices.
Print Assumptions C14_no_empty_return.
Print Assumptions C14_reentry_diverges.
Print Assumptions C14_total_or_diverges.
Print Assumptions C14_fuel_suffices.
Print Assumptions C14_ends_ok_num.
Print Assumptions C14_fitLine_ends.
Print Assumptions C14_ctan_ok_num.
Print Assumptions C14_dedup_consecutive_only.
Print Assumptions C14_dedup_first_last.
Print Assumptions C14_dedup_adjdist.
Print Assumptions C14_dedup_two_distinct.
Print Assumptions C14_dedup_closing_stroke.
Print Assumptions C14_no_degenerate_num.
Print Assumptions C14_split_interior_num.
Print Assumptions C14_corner_in_range_num.
Print Assumptions C14_accepted_within_tolerance_num.
Print Assumptions C14_no_raise_num.
Print Assumptions C14_no_fuel_raise_num.
Print Assumptions C14_inv_slices_adjdist.
Print Assumptions C14_fitCurve_sound_R.
Print Assumptions C14_fitCurve_terminates_R.
Print Assumptions C14_budget_refuted_old.
Print Assumptions C14_budget_present_arithmetic.
Print Assumptions C14_fit_two_points_R.
Print Assumptions C14_fit_two_points_sound.
Print Assumptions C14_reentry_example.
Print Assumptions C14_B_are_generated.
Print Assumptions C14_estimateBi_is_generated.
Print Assumptions C14_computeHook_is_generated.
Print Assumptions C14_chordLengthParameterize_is_generated.
Print Assumptions C14_fitCurve_inner_gen.
Print Assumptions C14_fitCurve_gen.
Print Assumptions C14_fromPoints_hand.
Print Assumptions C14_fitCurve_gen_R.
Print Assumptions C14_fitCurve_inner_gen_R.
Print Assumptions C14_fitCurve_gen_F.
Print Assumptions C14_fitCurve_inner_gen_F.
Print Assumptions C14_gen_fitCurve_sound_R.
