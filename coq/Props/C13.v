(* C13 -- Curve-preserving Boolean operations invent no geometry.
   Statements only; every proof is [exact <lemma of Proofs/C13.v or Proofs/C12.v>].  Model, oracles and the tie to the
   code: as in Props/C12.v (Hand/Clip.v with flat=False: LUT look-up by rounded scaled end-point pairs, later inserts
   shadow earlier ones, consecutive-duplicate suppression by Segment.__ne__, straight-edge fallback, removal of a last
   segment equal to the first -- commit d254ad7).
   PROVED, for every input and every value of the oracles (Clipper's answer, flatten(2), the split lists):
   * result_segments_provenance: every segment of every result path is a fresh Line between two cyclically consecutive
     vertices (closed_pairs_in) of a polygon Clipper returned, scaled by 1/100, or -- only when flat=False -- a value
     stored in the LUT; every result path is flagged closed; rebuild_length: one path per polygon.
   * lut_values_are_pieces: every LUT value is one of the pre-split pieces (the _orig of a flattened edge, or the edge
     itself for a Line piece) or the .reversed() of one.
   * split_pieces_are_subcurves (with split_walk_fuel: the walk never runs out of fuel): provided no split parameter
     exceeds 1, every segment after splitAtPoints is p(u) = s(a + u (b - a)) for all real u, for a segment s of the
     path before and 0 <= a <= b <= 1 (by the split retrace lemmas of Proofs/C01.v).
   * curve_mode_invents_no_geometry: the three together for a successful clip(flat=False): every result segment is a
     straight edge between consecutive Clipper vertices, or a sub-arc of an input segment of the receiver or of the
     argument, or the reverse of such a sub-arc.
   * empty_clip_empty_result: when Clipper returns no polygon the result is [].
   * inputs_unmodified (as C12).  ex_split, ex_subcurve: non-vacuity.
   Definitions used in the statements: seg_eval, same_kind, subcurve, is_piece_of, reversed_or_same (Proofs/C13.v);
   zR, unscale, clipper_t, flatten_t (Proofs/C12.v).
   NOT covered by a theorem: the distance clause (1.5 / 0.1 units: needs Clipper's vertices to lie on the input edges
   and the flattening deviation); connectivity and region semantics of the curve-mode result for transversally
   crossing outlines -- search only, and VIOLATED on the current tree: any polygon edge of Clipper's that is not a LUT key
   (its own intersection vertices; edges merged from collinear vertices) interrupts a piece, which is then emitted whole
   before and after it (known finding C13-curve-mode-disconnected, DESIGN D17); Clipper itself;
   object-level non-interference (C07). *)

From Coq Require Import PrimFloat.
From Coq Require Import ZArith List Bool Reals Lra Permutation Sorted.
From BZ Require Import Base.Ops Proofs.Tactics Gen.Point Gen.Line Gen.Quad Gen.Cubic Hand.Shoelace Hand.Clip Proofs.C13 Proofs.C12.
Import ListNotations.
From BZ Require Proofs.Transfer6clip.
From BZ Require Gen.Sample Gen.Clip Proofs.Bridge6.
Open Scope R_scope.

Theorem C13_result_segments_provenance :
  forall flat l polys, forall paths, rebuild ROps flat l polys = Ok paths -> forall path, In path paths -> snd path = true /\ forall s, In s (fst path) -> (exists p a b, In p polys /\ In (a, b) (closed_pairs p) /\ s = SLine (L2 (unscale (zR a)) (unscale (zR b)))) \/ (flat = false /\ exists k, In (k, s) l).
Proof. exact result_segments_provenance. Qed.
Theorem C13_closed_pairs_in :
  forall p a b d, In (a, b) (closed_pairs p) -> exists i, (i < length p)%nat /\ a = nth i p d /\ b = nth (S i mod length p) p d.
Proof. exact closed_pairs_in. Qed.
Theorem C13_rebuild_length :
  forall flat (l : @lut R) polys, forall paths, rebuild ROps flat l polys = Ok paths -> length paths = length polys.
Proof. exact rebuild_length. Qed.
Theorem C13_lut_values_are_pieces :
  forall (flatten2 : flatten_t) pieces, forall (l0 : @lut R) es l, flatten_fill ROps flatten2 pieces l0 = Ok (es, l) -> forall k v, In (k, v) l -> In (k, v) l0 \/ exists s, In s pieces /\ (v = s \/ v = seg_reversed ROps s).
Proof. exact lut_values_are_pieces. Qed.
Theorem C13_split_pieces_are_subcurves :
  forall segs sl pieces, Forall (fun st => snd st <= 1) sl -> splitAtPoints ROps segs sl = Ok pieces -> Forall (fun p => exists s, In s segs /\ is_piece_of s p) pieces.
Proof. exact split_pieces_are_subcurves. Qed.
Theorem C13_split_walk_fuel :
  forall fuel tl cur, (length tl <= fuel)%nat -> split_walk ROps fuel cur tl <> Raise EOracle.
Proof. exact split_walk_fuel. Qed.
Theorem C13_curve_mode_invents_no_geometry :
  forall (clipper : clipper_t) (flatten2 : flatten_t) self other sl1 sl2 ct paths, Forall (fun st => snd st <= 1) sl1 -> Forall (fun st => snd st <= 1) sl2 -> clip ROps R_toZ clipper flatten2 self other sl1 sl2 ct false = Ok paths -> forall path, In path paths -> snd path = true /\ forall v, In v (fst path) -> (exists polys p a b st subj clp l, prepare ROps R_toZ flatten2 self other sl1 sl2 = (st, Ok (subj, clp, l)) /\ clipper ct [subj] [clp] = Some polys /\ In p polys /\ In (a, b) (closed_pairs p) /\ v = SLine (L2 (unscale (zR a)) (unscale (zR b)))) \/ (exists piece s, In s (self ++ other) /\ is_piece_of s piece /\ reversed_or_same piece v).
Proof. exact curve_mode_invents_no_geometry. Qed.
Theorem C13_empty_clip_empty_result :
  forall (clipper : clipper_t) (flatten2 : flatten_t) self other sl1 sl2 st subj clp l ct flat, prepare ROps R_toZ flatten2 self other sl1 sl2 = (st, Ok (subj, clp, l)) -> clipper ct [subj] [clp] = Some [] -> clip ROps R_toZ clipper flatten2 self other sl1 sl2 ct flat = Ok [].
Proof. exact empty_clip_empty_result. Qed.
Theorem C13_ex_split :
  splitAtPoints ROps [SLine (L2 (P 0 0) (P 2 0))] [(SLine (L2 (P 0 0) (P 2 0)), 1 / 2)] = Ok [SLine (L2 (P 0 0) (P 1 0)); SLine (L2 (P 1 0) (P 2 0))].
Proof. exact ex_split. Qed.
Theorem C13_ex_subcurve :
  subcurve (SLine (L2 (P 0 0) (P 2 0))) (1 / 2) 1 (SLine (L2 (P 1 0) (P 2 0))).
Proof. exact ex_subcurve. Qed.
Theorem C13_inputs_unmodified :
  forall (clipper : clipper_t) (flatten2 : flatten_t) self other sl1 sl2 ct flat, let st := fst (clip_run ROps R_toZ clipper flatten2 self other sl1 sl2 ct flat) in st_self st = self /\ st_other st = other /\ (st_cloned st = self \/ splitAtPoints ROps self sl1 = Ok (st_cloned st)) /\ (st_clipclone st = other \/ splitAtPoints ROps other sl2 = Ok (st_clipclone st)).
Proof. exact inputs_unmodified. Qed.
Theorem C13_clip_gen :
  forall (T : Type) (O : Ops T) (toZ : T -> option Z) (gclipper : Clip.clip_type -> list (list (Z * Z)) -> list (list (Z * Z)) -> option (list (list (Z * Z)))) (hclipper : cliptype -> list zpoly -> list zpoly -> option (list zpoly)) (flatten2 : segment T -> option (list (seg2 T))), (forall a b : T, eqb O a b = eqb O b a) -> (forall a b c : T, eqb O a b = true -> eqb O b c = true -> eqb O a c = true) -> (forall p q : pt T, eqb O (px p) (px q) = true -> eqb O (py p) (py q) = true -> Point___eq__ O p q = true) -> (forall (ct : Clip.clip_type) (s c : list zpoly), hclipper (Bridge6.ClipBridge.ct_of ct) s c = gclipper ct s c) -> forall (K : Type) (fmt_2f : T -> K) (keq : K -> K -> bool) (fuel : nat) (self other : list (segment T)) (ct : Clip.clip_type) (flat : bool) (ints : list (pt T * (segment T * segment T * (T * pt T * T)))) (sl1 sl2 : list (segment T * T)) (pieces1 pieces2 : list (segment T)), Bridge6.ClipBridge.g_isect O fmt_2f keq fuel self other = Some (Sample.Returns (ints, sl1, sl2)) -> Split.Path_splitAtPoints O fuel self sl1 = Some pieces1 -> Split.Path_splitAtPoints O fuel other sl2 = Some pieces2 -> splitAtPoints O self sl1 = Ok pieces1 -> splitAtPoints O other sl2 = Ok pieces2 -> Forall (Bridge6.ClipBridge.flat_ok O flatten2 fuel) pieces1 -> Forall (Bridge6.ClipBridge.flat_ok O flatten2 fuel) pieces2 -> Clip.Path_clip O fmt_2f keq toZ gclipper fuel self other ct flat = Bridge6.ClipBridge.embed (clip O toZ hclipper flatten2 self other sl1 sl2 (Bridge6.ClipBridge.ct_of ct) flat).
Proof. exact @Bridge6.ClipBridge.clip_gen. Qed.
Theorem C13_clip_gen_R :
  forall (K : Type) (fmt_2f : R -> K) (keq : K -> K -> bool) (toZ : R -> option Z) (gclipper : Clip.clip_type -> list (list (Z * Z)) -> list (list (Z * Z)) -> option (list (list (Z * Z)))) (hclipper : cliptype -> list (list (Z * Z)) -> list (list (Z * Z)) -> option (list (list (Z * Z)))) (flatten2 : segment R -> option (list (seg2 R))), (forall (ct : Clip.clip_type) (s c : list (list (Z * Z))), hclipper (Bridge6.ClipBridge.ct_of ct) s c = gclipper ct s c) -> forall (fuel : nat) (self other : list (segment R)) (ct : Clip.clip_type) (flat : bool) (ints : list (pt R * (segment R * segment R * (R * pt R * R)))) (sl1 sl2 : list (segment R * R)) (pieces1 pieces2 : list (segment R)), Bridge6.ClipBridge.g_isect ROps fmt_2f keq fuel self other = Some (Sample.Returns (ints, sl1, sl2)) -> Split.Path_splitAtPoints ROps fuel self sl1 = Some pieces1 -> Split.Path_splitAtPoints ROps fuel other sl2 = Some pieces2 -> splitAtPoints ROps self sl1 = Ok pieces1 -> splitAtPoints ROps other sl2 = Ok pieces2 -> Forall (Bridge6.ClipBridge.flat_ok ROps flatten2 fuel) pieces1 -> Forall (Bridge6.ClipBridge.flat_ok ROps flatten2 fuel) pieces2 -> Clip.Path_clip ROps fmt_2f keq toZ gclipper fuel self other ct flat = Bridge6.ClipBridge.embed (clip ROps toZ hclipper flatten2 self other sl1 sl2 (Bridge6.ClipBridge.ct_of ct) flat).
Proof. exact @Bridge6.ClipBridge.clip_gen_R. Qed.
Theorem C13_gen_curve_mode_invents_no_geometry :
  forall (K : Type) (fmt_2f : R -> K) (keq : K -> K -> bool) (gclipper : Clip.clip_type -> list (list (Z * Z)) -> list (list (Z * Z)) -> option (list (list (Z * Z)))) (hclipper : clipper_t) (flatten2 : flatten_t), (forall (ct : Clip.clip_type) (s c : list zpoly), hclipper (Bridge6.ClipBridge.ct_of ct) s c = gclipper ct s c) -> forall (fuel : nat) (self other : list (segment R)) (ints : list (pt R * (segment R * segment R * (R * pt R * R)))) (sl1 sl2 : list (segment R * R)) (pieces1 pieces2 : list (segment R)), Bridge6.ClipBridge.g_isect ROps fmt_2f keq fuel self other = Some (Sample.Returns (ints, sl1, sl2)) -> Split.Path_splitAtPoints ROps fuel self sl1 = Some pieces1 -> Split.Path_splitAtPoints ROps fuel other sl2 = Some pieces2 -> splitAtPoints ROps self sl1 = Ok pieces1 -> splitAtPoints ROps other sl2 = Ok pieces2 -> Forall (Bridge6.ClipBridge.flat_ok ROps flatten2 fuel) pieces1 -> Forall (Bridge6.ClipBridge.flat_ok ROps flatten2 fuel) pieces2 -> forall (ct : Clip.clip_type) (paths : list (list (segment R) * bool)), Forall (fun st : segment R * R => snd st <= 1) sl1 -> Forall (fun st : segment R * R => snd st <= 1) sl2 -> Clip.Path_clip ROps fmt_2f keq R_toZ gclipper fuel self other ct false = Some (Sample.Returns paths) -> forall path : list (segment R) * bool, In path paths -> snd path = true /\ (forall v : segment R, In v (fst path) -> (exists (polys : list (list (Z * Z))) (p : list (Z * Z)) (a b : zpt) (st : store R) (subj clp : zpoly) (l : lut), prepare ROps R_toZ flatten2 self other sl1 sl2 = (st, Ok (subj, clp, l)) /\ gclipper ct [subj] [clp] = Some polys /\ In p polys /\ In (a, b) (closed_pairs p) /\ v = SLine {| l0 := unscale (zR a); l1 := unscale (zR b) |}) \/ (exists piece s : segment R, In s (self ++ other) /\ is_piece_of s piece /\ reversed_or_same piece v)).
Proof. exact @Transfer6clip.gen_curve_mode_invents_no_geometry. Qed.
Theorem C13_gen_curve_mode_segments_are_pieces :
  forall (K : Type) (fmt_2f : R -> K) (keq : K -> K -> bool) (gclipper : Clip.clip_type -> list (list (Z * Z)) -> list (list (Z * Z)) -> option (list (list (Z * Z)))) (hclipper : clipper_t) (flatten2 : flatten_t), (forall (ct : Clip.clip_type) (s c : list zpoly), hclipper (Bridge6.ClipBridge.ct_of ct) s c = gclipper ct s c) -> forall (fuel : nat) (self other : list (segment R)) (ints : list (pt R * (segment R * segment R * (R * pt R * R)))) (sl1 sl2 : list (segment R * R)) (pieces1 pieces2 : list (segment R)), Bridge6.ClipBridge.g_isect ROps fmt_2f keq fuel self other = Some (Sample.Returns (ints, sl1, sl2)) -> Split.Path_splitAtPoints ROps fuel self sl1 = Some pieces1 -> Split.Path_splitAtPoints ROps fuel other sl2 = Some pieces2 -> splitAtPoints ROps self sl1 = Ok pieces1 -> splitAtPoints ROps other sl2 = Ok pieces2 -> Forall (Bridge6.ClipBridge.flat_ok ROps flatten2 fuel) pieces1 -> Forall (Bridge6.ClipBridge.flat_ok ROps flatten2 fuel) pieces2 -> forall (ct : Clip.clip_type) (paths : list (list (segment R) * bool)), Clip.Path_clip ROps fmt_2f keq R_toZ gclipper fuel self other ct false = Some (Sample.Returns paths) -> exists (f1 f2 : list (seg2 R)) (polys : list (list (Z * Z))), Transfer6clip.g_flat_edges fuel pieces1 = Some f1 /\ Transfer6clip.g_flat_edges fuel pieces2 = Some f2 /\ gclipper ct [map start_scaled_trunc f1] [map start_scaled_trunc f2] = Some polys /\ (forall path : list (segment R) * bool, In path paths -> snd path = true /\ (forall v : segment R, In v (fst path) -> (exists (p : list (Z * Z)) (a b : zpt), In p polys /\ In (a, b) (closed_pairs p) /\ v = SLine {| l0 := unscale (zR a); l1 := unscale (zR b) |}) \/ (exists piece : segment R, In piece (pieces1 ++ pieces2) /\ reversed_or_same piece v))).
Proof. exact @Transfer6clip.gen_curve_mode_segments_are_pieces. Qed.
Theorem C13_gen_curve_mode_subarcs :
  forall (K : Type) (fmt_2f : R -> K) (keq : K -> K -> bool) (gclipper : Clip.clip_type -> list (list (Z * Z)) -> list (list (Z * Z)) -> option (list (list (Z * Z)))) (hclipper : clipper_t) (flatten2 : flatten_t), (forall (ct : Clip.clip_type) (s c : list zpoly), hclipper (Bridge6.ClipBridge.ct_of ct) s c = gclipper ct s c) -> forall (fuel : nat) (self other : list (segment R)) (ints : list (pt R * (segment R * segment R * (R * pt R * R)))) (sl1 sl2 : list (segment R * R)) (pieces1 pieces2 : list (segment R)), Bridge6.ClipBridge.g_isect ROps fmt_2f keq fuel self other = Some (Sample.Returns (ints, sl1, sl2)) -> Split.Path_splitAtPoints ROps fuel self sl1 = Some pieces1 -> Split.Path_splitAtPoints ROps fuel other sl2 = Some pieces2 -> splitAtPoints ROps self sl1 = Ok pieces1 -> splitAtPoints ROps other sl2 = Ok pieces2 -> Forall (Bridge6.ClipBridge.flat_ok ROps flatten2 fuel) pieces1 -> Forall (Bridge6.ClipBridge.flat_ok ROps flatten2 fuel) pieces2 -> forall (ct : Clip.clip_type) (paths : list (list (segment R) * bool)), Forall (fun st : segment R * R => snd st <= 1) sl1 -> Forall (fun st : segment R * R => snd st <= 1) sl2 -> Clip.Path_clip ROps fmt_2f keq R_toZ gclipper fuel self other ct false = Some (Sample.Returns paths) -> exists (f1 f2 : list (seg2 R)) (polys : list (list (Z * Z))), Transfer6clip.g_flat_edges fuel pieces1 = Some f1 /\ Transfer6clip.g_flat_edges fuel pieces2 = Some f2 /\ gclipper ct [map start_scaled_trunc f1] [map start_scaled_trunc f2] = Some polys /\ (forall path : list (segment R) * bool, In path paths -> snd path = true /\ (forall v : segment R, In v (fst path) -> (exists (p : list (Z * Z)) (a b : zpt), In p polys /\ In (a, b) (closed_pairs p) /\ v = SLine {| l0 := unscale (zR a); l1 := unscale (zR b) |}) \/ (exists piece s : segment R, In piece (pieces1 ++ pieces2) /\ In s (self ++ other) /\ is_piece_of s piece /\ reversed_or_same piece v))).
Proof. exact @Transfer6clip.gen_curve_mode_subarcs. Qed.
Theorem C13_gen_empty_clip_empty_result :
  forall (K : Type) (fmt_2f : R -> K) (keq : K -> K -> bool) (gclipper : Clip.clip_type -> list (list (Z * Z)) -> list (list (Z * Z)) -> option (list (list (Z * Z)))) (hclipper : clipper_t) (flatten2 : flatten_t), (forall (ct : Clip.clip_type) (s c : list zpoly), hclipper (Bridge6.ClipBridge.ct_of ct) s c = gclipper ct s c) -> forall (fuel : nat) (self other : list (segment R)) (ints : list (pt R * (segment R * segment R * (R * pt R * R)))) (sl1 sl2 : list (segment R * R)) (pieces1 pieces2 : list (segment R)), Bridge6.ClipBridge.g_isect ROps fmt_2f keq fuel self other = Some (Sample.Returns (ints, sl1, sl2)) -> Split.Path_splitAtPoints ROps fuel self sl1 = Some pieces1 -> Split.Path_splitAtPoints ROps fuel other sl2 = Some pieces2 -> splitAtPoints ROps self sl1 = Ok pieces1 -> splitAtPoints ROps other sl2 = Ok pieces2 -> Forall (Bridge6.ClipBridge.flat_ok ROps flatten2 fuel) pieces1 -> Forall (Bridge6.ClipBridge.flat_ok ROps flatten2 fuel) pieces2 -> forall (st : store R) (subj clp : zpoly) (l : lut) (ct : Clip.clip_type) (flat : bool), prepare ROps R_toZ flatten2 self other sl1 sl2 = (st, Ok (subj, clp, l)) -> gclipper ct [subj] [clp] = Some [] -> Clip.Path_clip ROps fmt_2f keq R_toZ gclipper fuel self other ct flat = Some (Sample.Returns []).
Proof. exact @Transfer6clip.gen_empty_clip_empty_result. Qed.
Theorem C13_gen_empty_clip_no_paths :
  forall (K : Type) (fmt_2f : R -> K) (keq : K -> K -> bool) (gclipper : Clip.clip_type -> list (list (Z * Z)) -> list (list (Z * Z)) -> option (list (list (Z * Z)))) (hclipper : clipper_t) (flatten2 : flatten_t), (forall (ct : Clip.clip_type) (s c : list zpoly), hclipper (Bridge6.ClipBridge.ct_of ct) s c = gclipper ct s c) -> forall (fuel : nat) (self other : list (segment R)) (ints : list (pt R * (segment R * segment R * (R * pt R * R)))) (sl1 sl2 : list (segment R * R)) (pieces1 pieces2 : list (segment R)), Bridge6.ClipBridge.g_isect ROps fmt_2f keq fuel self other = Some (Sample.Returns (ints, sl1, sl2)) -> Split.Path_splitAtPoints ROps fuel self sl1 = Some pieces1 -> Split.Path_splitAtPoints ROps fuel other sl2 = Some pieces2 -> splitAtPoints ROps self sl1 = Ok pieces1 -> splitAtPoints ROps other sl2 = Ok pieces2 -> Forall (Bridge6.ClipBridge.flat_ok ROps flatten2 fuel) pieces1 -> Forall (Bridge6.ClipBridge.flat_ok ROps flatten2 fuel) pieces2 -> forall (ct : Clip.clip_type) (flat : bool) (paths : list (list (segment R) * bool)) (f1 f2 : list (seg2 R)), Transfer6clip.g_flat_edges fuel pieces1 = Some f1 -> Transfer6clip.g_flat_edges fuel pieces2 = Some f2 -> gclipper ct [map start_scaled_trunc f1] [map start_scaled_trunc f2] = Some [] -> Clip.Path_clip ROps fmt_2f keq R_toZ gclipper fuel self other ct flat = Some (Sample.Returns paths) -> paths = [].
Proof. exact @Transfer6clip.gen_empty_clip_no_paths. Qed.
Theorem C13_gen_curve_mode_segments_are_pieces_g :
  forall (K : Type) (fmt_2f : R -> K) (keq : K -> K -> bool) (gclipper : Clip.clip_type -> list (list (Z * Z)) -> list (list (Z * Z)) -> option (list (list (Z * Z)))) (flatten2 : flatten_t) (fuel : nat) (self other : list (segment R)) (ints : list (pt R * (segment R * segment R * (R * pt R * R)))) (sl1 sl2 : list (segment R * R)) (pieces1 pieces2 : list (segment R)), Bridge6.ClipBridge.g_isect ROps fmt_2f keq fuel self other = Some (Sample.Returns (ints, sl1, sl2)) -> Split.Path_splitAtPoints ROps fuel self sl1 = Some pieces1 -> Split.Path_splitAtPoints ROps fuel other sl2 = Some pieces2 -> splitAtPoints ROps self sl1 = Ok pieces1 -> splitAtPoints ROps other sl2 = Ok pieces2 -> Forall (Bridge6.ClipBridge.flat_ok ROps flatten2 fuel) pieces1 -> Forall (Bridge6.ClipBridge.flat_ok ROps flatten2 fuel) pieces2 -> forall (ct : Clip.clip_type) (paths : list (list (segment R) * bool)), Clip.Path_clip ROps fmt_2f keq R_toZ gclipper fuel self other ct false = Some (Sample.Returns paths) -> exists (f1 f2 : list (seg2 R)) (polys : list (list (Z * Z))), Transfer6clip.g_flat_edges fuel pieces1 = Some f1 /\ Transfer6clip.g_flat_edges fuel pieces2 = Some f2 /\ gclipper ct [map start_scaled_trunc f1] [map start_scaled_trunc f2] = Some polys /\ (forall path : list (segment R) * bool, In path paths -> snd path = true /\ (forall v : segment R, In v (fst path) -> (exists (p : list (Z * Z)) (a b : zpt), In p polys /\ In (a, b) (closed_pairs p) /\ v = SLine {| l0 := unscale (zR a); l1 := unscale (zR b) |}) \/ (exists piece : segment R, In piece (pieces1 ++ pieces2) /\ reversed_or_same piece v))).
Proof. exact @Transfer6clip.gen_curve_mode_segments_are_pieces_g. Qed.

Print Assumptions C13_result_segments_provenance.
Print Assumptions C13_closed_pairs_in.
Print Assumptions C13_rebuild_length.
Print Assumptions C13_lut_values_are_pieces.
Print Assumptions C13_split_pieces_are_subcurves.
Print Assumptions C13_split_walk_fuel.
Print Assumptions C13_curve_mode_invents_no_geometry.
Print Assumptions C13_empty_clip_empty_result.
Print Assumptions C13_ex_split.
Print Assumptions C13_ex_subcurve.
Print Assumptions C13_inputs_unmodified.
Print Assumptions C13_clip_gen.
Print Assumptions C13_clip_gen_R.
Print Assumptions C13_gen_curve_mode_invents_no_geometry.
Print Assumptions C13_gen_curve_mode_segments_are_pieces.
Print Assumptions C13_gen_curve_mode_subarcs.
Print Assumptions C13_gen_empty_clip_empty_result.
Print Assumptions C13_gen_empty_clip_no_paths.
Print Assumptions C13_gen_curve_mode_segments_are_pieces_g.
