(* C11 -- Point containment follows the even-odd rule.
   Statements only; every proof is [exact <lemma of Proofs/C11.v>].

   MODELLED (coq/Hand/Winding.v, generic over the scalar carrier, executed on floats in the correspondence):
   BezierPath.windingNumberOfPoint / pointIsInside as written (after 31e747a: the tangent is taken on i.seg1): bounds()
   + addMargin(10), the two horizontal rays from the padded box to the query point, s.intersections(ray) = the
   generated kernels Line__line_line_intersections / Quad__ / Cubic__curve_line_intersections followed by the
   withinRange filter 2e-7 <= t <= 1+2e-7 on both parameters, the two dicts keyed by the intersection POINT (two keys
   collide iff their coordinates are equal floats and Point.__eq__ holds; a colliding insert replaces the value and keeps
   the position), the sums of int(copysign(1, tangent.y)), max(abs, abs), li % 2 == 1.  An empty path is an error (None).

   PROVED (real carrier ROps unless stated otherwise):
   * for ANY carrier: |sum of n signs| has the parity of n; hence the result's parity is the parity of the number of dict
     entries on the side attaining the max, and pointIsInside = odd(result);
   * one straight edge against a horizontal ray ([edge_ray_crossing]): in general position [edge_gp] (the level keeps clear
     of both end ordinates by more than 2e-7 of the edge's height; an isclose-horizontal edge is not crossed; a crossed
     isclose-vertical edge is exactly vertical; a crossed edge has |slope| >= 2e-7) and with the crossing clear of the
     2e-7 windows at the two ends of the ray, the edge contributes exactly its crossing, with exact parameters, iff the
     level separates its end points and the crossing lies on the ray (query point excluded); otherwise nothing;
   * closed polygons ([polygon_query] bundles the hypotheses: closed chain, b0 = bounds(), [edge_gp] for every edge, rays
     not isclose-degenerate, 2e-7 * ray length <= 10, query point off the path by 2e-7 ray lengths, no two crossing points
     of the level coincide): up- and down-crossings of the level cancel ([closed_polygon_balance], telescoping), every
     crossing is seen by exactly one ray, so windingNumberOfPoint = |signed number of edges crossed by the leftward ray| =
     the same for the rightward ray ([polygon_winding_number]); pointIsInside = odd(number of edges crossed by the
     leftward ray) and both rays agree on the parity ([polygon_even_odd]); a point outside the unpadded bounding box has
     winding number 0 ([bbox_outside_zero]);
   * non-vacuity: triangle (0,0)(10,10)(20,0) with the query (10,5) satisfies [polygon_query] and is inside;
   * curved segments, per segment only ([cubic_ray_hits_partial], [quad_ray_hits_partial]): under C05's non-degeneracy
     hypothesis in the ray's frame, a cubic / quadratic contributes exactly the parameters t in [2e-7, 1] at which the curve
     is at height y with its abscissa in the ray's window [2e-7, 1+2e-7], each with its exact point and ray parameter.
   REFUTED (the property as written is false of the faithful model; each witness is a recorded finding, and each shows that
   one hypothesis of [polygon_query] / [edge_gp] cannot be dropped; in every witness the path is a closed chain with the
   stated bounding box and the verdict contradicts the even-odd rule):
   * [C11_refuted] (D11, level general position): a ray level with an on-curve node counts the node once: the triangle
     "contains" (30,10), a point outside its bounding box;
   * [merged_crossing_refuted] ([pq_distinct]): bowtie (0,0)(10,10)(10,0)(0,10), query (-5,5), outside the box, every edge in
     general position: reported inside (the two crossings at (5,5) share a dict key);
   * [vertical_recheck_refuted] (exactly-vertical clause of [edge_gp]): triangle (1000,0)(1000.0000005,10)(1020,5), query
     (985,5.5), outside the box: the isclose-vertical edge's crossing is discarded by tOfPoint's 2e-7 re-check; inside;
   * [long_ray_refuted] ([pq_size]): triangle (0,0)(1e9,5e8)(0,1e9), query (2e9,4e8), outside the box, general position,
     rays not degenerate: the crossing at parameter 10/(2e9+10) < 2e-7 of the left ray is dropped; reported inside;
   * [degenerate_ray_refuted] ([pq_rayL]/[pq_rayR]): rectangle (3e10,0)(3e10,100)(3e10+20,100)(3e10+20,0), its centre:
     one edge crossed on the left (odd), but both rays have isclose ends and meet nothing: reported outside.
   NOT covered by a theorem: the even-odd statement for paths WITH curved segments (per segment the reported roots are
   the level crossings, see above; that their total number has the parity required by the even-odd rule needs a count of
   the roots of a polynomial between its end values, and C05's hypothesis fails at tangential contacts; searched only); floating-point rounding of the crossing parameters and points (the
   float instance is compared with the implementation bit for bit, not proved accurate); non-finite coordinates; hash
   collisions of Point.__hash__ between distinct coordinate pairs; float division by zero inside the kernels. *)

From Coq Require Import PrimFloat.
From Coq Require Import ZArith List Bool Reals Lra Permutation Sorted.
From BZ Require Import Base.Ops Gen.Point Gen.BBox Gen.Line Gen.Quad Gen.Cubic Hand.Bounds Hand.Shoelace Hand.Winding Proofs.C05 Proofs.C11 Proofs.C11curves Proofs.C11box Proofs.C11infl.
Import ListNotations.
From BZ Require Proofs.Transfer4.
From BZ Require Gen.Sample Gen.Winding Proofs.Bridge4.
Open Scope R_scope.

Theorem C11_abs_sum_signs_parity :
  forall (l : list Z), Forall is_sign l -> Z.odd (Z.abs (fold_left Z.add l 0%Z)) = Nat.odd (length l).
Proof. exact abs_sum_signs_parity. Qed.
Theorem C11_winding_sum_parity_any :
  forall (T : Type) (O : Ops T) (d : list (pt T * hit)), Z.odd (Z.abs (winding_sum O d)) = Nat.odd (length d).
Proof. exact winding_sum_parity_any. Qed.
Theorem C11_windingNumber_parity_any :
  forall (T : Type) (O : Ops T) (segs : list (segment T)) (p : pt T) (w : Z) (ray1 ray2 : seg2 T), rays O segs p = Some (ray1, ray2) -> windingNumberOfPoint O segs p = Some w -> let nL := length (collect O segs ray1) in let nR := length (collect O segs ray2) in (Z.odd w = Nat.odd nL \/ Z.odd w = Nat.odd nR) /\ (Nat.odd nL = Nat.odd nR -> Z.odd w = Nat.odd nL) /\ (0 <= w)%Z.
Proof. exact windingNumber_parity_any. Qed.
Theorem C11_pointIsInside_parity_any :
  forall (T : Type) (O : Ops T) (segs : list (segment T)) (p : pt T) (w : Z), windingNumberOfPoint O segs p = Some w -> pointIsInside O segs p = Some (Z.odd w).
Proof. exact pointIsInside_parity_any. Qed.
Theorem C11_edge_ray_crossing :
  forall (e : seg2 R) (x0 x y : R), edge_gp e y -> isclose ROps x0 x = false -> window_clear x0 x y e -> seg_ray_intersections ROps (SLine e) (hray x0 x y) = if hitb x0 x y e then [(et e y, P (cross_x e y) y, rt x0 x (cross_x e y))] else [].
Proof. exact edge_ray_crossing. Qed.
Theorem C11_closed_polygon_balance :
  forall y l, closed_chain l -> (forall e, In e l -> y <> py (l0 e) /\ y <> py (l1 e)) -> zsum (map (contrib y) l) = 0%Z.
Proof. exact closed_polygon_balance. Qed.
Theorem C11_polygon_winding_number :
  forall ls b0 x y, polygon_query ls b0 x y -> windingNumberOfPoint ROps (map SLine ls) (P x y) = Some (Z.abs (leftSum ls x y)) /\ Z.abs (leftSum ls x y) = Z.abs (rightSum ls x y).
Proof. exact polygon_winding_number. Qed.
Theorem C11_polygon_even_odd :
  forall ls b0 x y, polygon_query ls b0 x y -> pointIsInside ROps (map SLine ls) (P x y) = Some (Nat.odd (length (filter (left_of x y) ls))) /\ Nat.odd (length (filter (left_of x y) ls)) = Nat.odd (length (filter (right_of x y) ls)).
Proof. exact polygon_even_odd. Qed.
Theorem C11_bbox_outside_zero :
  forall ls b0 x y, polygon_query ls b0 x y -> BBox_includes ROps b0 (P x y) = false -> windingNumberOfPoint ROps (map SLine ls) (P x y) = Some 0%Z.
Proof. exact bbox_outside_zero. Qed.
Theorem C11_cubic_ray_hits_partial :
  forall (c : seg4 R) (x0 x y : R) (i : ixn), isclose ROps x0 x = false -> let c' := Cubic_transformed ROps c (Line_alignmentTransformation ROps (hray x0 x y)) in cubic_thr c' < Rabs (cubic_D c') -> (In i (seg_ray_intersections ROps (SCubic c) (hray x0 x y)) <-> exists t, my_eps <= t <= 1 /\ py (Cubic_pointAtTime ROps c t) = y /\ my_eps <= rt x0 x (px (Cubic_pointAtTime ROps c t)) <= 1 + my_eps /\ i = (t, Cubic_pointAtTime ROps c t, rt x0 x (px (Cubic_pointAtTime ROps c t)))).
Proof. exact cubic_ray_hits_partial. Qed.
Theorem C11_quad_ray_hits_partial :
  forall (c : seg3 R) (x0 x y : R) (i : ixn), isclose ROps x0 x = false -> let c' := Quad_transformed ROps c (Line_alignmentTransformation ROps (hray x0 x y)) in (1 / 1000000000 * Rabs (quad_b c') < Rabs (quad_a c') /\ 0 < quad_b c' * quad_b c' - 4 * quad_a c' * quad_c c') \/ (quad_a c' = 0 /\ quad_b c' <> 0) -> (In i (seg_ray_intersections ROps (SQuad c) (hray x0 x y)) <-> exists t, my_eps <= t <= 1 /\ py (Quad_pointAtTime ROps c t) = y /\ my_eps <= rt x0 x (px (Quad_pointAtTime ROps c t)) <= 1 + my_eps /\ i = (t, Quad_pointAtTime ROps c t, rt x0 x (px (Quad_pointAtTime ROps c t)))).
Proof. exact quad_ray_hits_partial. Qed.
Theorem C11_tri_query_inside :
  polygon_query tri tri_box 10 5.
Proof. exact tri_query_inside. Qed.
Theorem C11_tri_query_inside_result :
  pointIsInside ROps (map SLine tri) (P 10 5) = Some true.
Proof. exact tri_query_inside_result. Qed.
Theorem C11_triangle_level_with_node :
  windingNumberOfPoint ROps (map SLine tri) (P 30 10) = Some 1%Z /\ pointIsInside ROps (map SLine tri) (P 30 10) = Some true.
Proof. exact triangle_level_with_node. Qed.
Theorem C11_refuted :
  exists ls b0 x y, closed_chain ls /\ path_box ROps (map SLine ls) = Some b0 /\ BBox_includes ROps b0 (P x y) = false /\ pointIsInside ROps (map SLine ls) (P x y) = Some true.
Proof. exact level_with_node_refuted. Qed.
Theorem C11_bowtie_merged_crossing :
  windingNumberOfPoint ROps (map SLine bow) (P (-5) 5) = Some 1%Z /\ pointIsInside ROps (map SLine bow) (P (-5) 5) = Some true.
Proof. exact bowtie_merged_crossing. Qed.
Theorem C11_merged_crossing_refuted :
  exists ls b0 x y, closed_chain ls /\ path_box ROps (map SLine ls) = Some b0 /\ (forall e, In e ls -> edge_gp e y) /\ BBox_includes ROps b0 (P x y) = false /\ pointIsInside ROps (map SLine ls) (P x y) = Some true.
Proof. exact merged_crossing_refuted. Qed.
Theorem C11_vertical_recheck_refuted :
  exists ls b0 x y, closed_chain ls /\ path_box ROps (map SLine ls) = Some b0 /\ isclose ROps (px (bl b0) - 10) x = false /\ isclose ROps (px (tr b0) + 10) x = false /\ BBox_includes ROps b0 (P x y) = false /\ pointIsInside ROps (map SLine ls) (P x y) = Some true.
Proof. exact vertical_recheck_refuted. Qed.
Theorem C11_long_ray_refuted :
  exists ls b0 x y, closed_chain ls /\ path_box ROps (map SLine ls) = Some b0 /\ (forall e, In e ls -> edge_gp e y) /\ isclose ROps (px (bl b0) - 10) x = false /\ isclose ROps (px (tr b0) + 10) x = false /\ BBox_includes ROps b0 (P x y) = false /\ pointIsInside ROps (map SLine ls) (P x y) = Some true.
Proof. exact long_ray_refuted. Qed.
Theorem C11_degenerate_ray_refuted :
  exists ls b0 x y, closed_chain ls /\ path_box ROps (map SLine ls) = Some b0 /\ (forall e, In e ls -> edge_gp e y) /\ Nat.odd (length (filter (left_of x y) ls)) = true /\ pointIsInside ROps (map SLine ls) (P x y) = Some false.
Proof. exact degenerate_ray_refuted. Qed.
Theorem C11_poly_root_parity :
  forall (l : list R) (roots : list R), NoDup roots -> (forall r, In r roots <-> 0 < r < 1 /\ peval l r = 0) -> (forall r, In r roots -> pderiv l r <> 0) -> peval l 0 <> 0 -> peval l 1 <> 0 -> (Nat.odd (length roots) = true <-> peval l 0 * peval l 1 < 0).
Proof. exact poly_root_parity. Qed.
Theorem C11_cubic_root_parity :
  forall (a b c d : R) (roots : list R), let p := fun t => a * t * t * t + b * t * t + c * t + d in let p' := fun t => 3 * a * t * t + 2 * b * t + c in NoDup roots -> (forall r, In r roots <-> 0 < r < 1 /\ p r = 0) -> (forall r, In r roots -> p' r <> 0) -> p 0 <> 0 -> p 1 <> 0 -> (Nat.odd (length roots) = true <-> p 0 * p 1 < 0).
Proof. exact cubic_root_parity. Qed.
Theorem C11_quadratic_root_parity :
  forall (a b c : R) (roots : list R), let p := fun t => a * t * t + b * t + c in let p' := fun t => 2 * a * t + b in NoDup roots -> (forall r, In r roots <-> 0 < r < 1 /\ p r = 0) -> (forall r, In r roots -> p' r <> 0) -> p 0 <> 0 -> p 1 <> 0 -> (Nat.odd (length roots) = true <-> p 0 * p 1 < 0).
Proof. exact quadratic_root_parity. Qed.
Theorem C11_poly_roots_finite :
  forall (l : list R), (exists t, peval l t <> 0) -> exists roots, NoDup roots /\ forall r, In r roots <-> 0 < r < 1 /\ peval l r = 0.
Proof. exact poly_roots_finite. Qed.
Theorem C11_segment_crossing_parity :
  forall (y : R) (s : segment R) (rs : list R), level_roots y s rs -> py (seg_start s) <> y -> py (seg_end s) <> y -> (Nat.odd (length rs) = true <-> (py (seg_start s) - y) * (py (seg_end s) - y) < 0).
Proof. exact segment_crossing_parity. Qed.
Theorem C11_segment_crossings_finite :
  forall (y : R) (s : segment R), py (seg_start s) <> y -> exists rs, NoDup rs /\ forall r, In r rs <-> 0 < r < 1 /\ py (seg_point s r) = y.
Proof. exact segment_crossings_finite. Qed.
Theorem C11_closed_mixed_balance :
  forall (y : R) (srs : xpath), mclosed_chain (map fst srs) -> (forall sr, In sr srs -> level_ok y sr) -> Nat.even (total_crossings srs) = true.
Proof. exact closed_mixed_balance. Qed.
Theorem C11_left_right_parity :
  forall (x y : R) (srs : xpath), mclosed_chain (map fst srs) -> (forall sr, In sr srs -> level_ok y sr) -> off_path (map fst srs) (P x y) -> (count_if (left_c x) srs + count_if (right_c x) srs = total_crossings srs)%nat /\ Nat.odd (count_if (left_c x) srs) = Nat.odd (count_if (right_c x) srs).
Proof. exact left_right_parity. Qed.
Theorem C11_closed_mixed_signed_balance :
  forall (y : R) (srs : xpath), mclosed_chain (map fst srs) -> (forall sr, In sr srs -> level_ok y sr) -> signed_total srs = 0%Z.
Proof. exact closed_mixed_signed_balance. Qed.
Theorem C11_left_right_signed :
  forall (x y : R) (srs : xpath), mclosed_chain (map fst srs) -> (forall sr, In sr srs -> level_ok y sr) -> (forall sr, In sr srs -> forall r, In r (snd sr) -> px (seg_point (fst sr) r) <> x) -> (signed_if (left_c x) srs + signed_if (right_c x) srs = 0)%Z /\ Z.abs (signed_if (left_c x) srs) = Z.abs (signed_if (right_c x) srs).
Proof. exact left_right_signed. Qed.
Theorem C11_mixed_dict_counts :
  forall srs b0 x y, mixed_query srs b0 x y -> length (collect ROps (map fst srs) (hray (px (bl b0) - 10) x y)) = count_if (left_c x) srs /\ length (collect ROps (map fst srs) (hray (px (tr b0) + 10) x y)) = count_if (right_c x) srs.
Proof. exact mixed_dict_counts. Qed.
Theorem C11_mixed_winding_number :
  forall srs b0 x y, mixed_query srs b0 x y -> windingNumberOfPoint ROps (map fst srs) (P x y) = Some (Z.abs (signed_if (left_c x) srs)) /\ Z.abs (signed_if (left_c x) srs) = Z.abs (signed_if (right_c x) srs).
Proof. exact mixed_winding_number. Qed.
Theorem C11_mixed_even_odd :
  forall srs b0 x y, mixed_query srs b0 x y -> pointIsInside ROps (map fst srs) (P x y) = Some (Nat.odd (count_if (left_c x) srs)) /\ Nat.odd (count_if (left_c x) srs) = Nat.odd (count_if (right_c x) srs).
Proof. exact mixed_even_odd. Qed.
Theorem C11_polygon_mixed_query :
  forall ls b0 x y, polygon_query ls b0 x y -> mixed_query (polygon_xpath y ls) b0 x y.
Proof. exact polygon_mixed_query. Qed.
Theorem C11_tri_mixed_query :
  mixed_query (polygon_xpath 5 tri) tri_box 10 5.
Proof. exact tri_mixed_query. Qed.
Theorem C11_dD_at_4_balance :
  mclosed_chain (map fst dD_at_4) /\ (forall sr, In sr dD_at_4 -> level_ok 4 sr) /\ total_crossings dD_at_4 = 2%nat /\ Nat.even (total_crossings dD_at_4) = true.
Proof. exact dD_at_4_balance. Qed.
Theorem C11_lens_query :
  mixed_query lens_x lens_box 1 (15 / 4).
Proof. exact lens_query. Qed.
Theorem C11_lens_inside :
  pointIsInside ROps lens (P 1 (15 / 4)) = Some true.
Proof. exact lens_inside. Qed.
Theorem C11_lens_winding :
  windingNumberOfPoint ROps lens (P 1 (15 / 4)) = Some 1%Z.
Proof. exact lens_winding. Qed.
Theorem C11_crossing_in_padded_box :
  forall (segs : list (segment R)) (b0 : bbox R) (s : segment R) (t : R), path_box ROps segs = Some b0 -> In s segs -> 0 <= t <= 1 -> px (bl b0) - C02.sigma (C03.seg_ext px s) <= px (seg_point s t) <= px (tr b0) + C02.sigma (C03.seg_ext px s).
Proof. exact crossing_in_padded_box. Qed.
Theorem C11_mixed_query_sized_is_between :
  forall srs b0 x y, mixed_query_sized srs b0 x y -> mixed_query_between srs b0 x y.
Proof. exact mixed_query_sized_is_between. Qed.
Theorem C11_mixed_dict_counts_sized :
  forall srs b0 x y, mixed_query_sized srs b0 x y -> length (collect ROps (map fst srs) (hray (px (bl b0) - 10) x y)) = count_if (left_c x) srs /\ length (collect ROps (map fst srs) (hray (px (tr b0) + 10) x y)) = count_if (right_c x) srs.
Proof. exact mixed_dict_counts_sized. Qed.
Theorem C11_mixed_winding_number_sized :
  forall srs b0 x y, mixed_query_sized srs b0 x y -> windingNumberOfPoint ROps (map fst srs) (P x y) = Some (Z.abs (signed_if (left_c x) srs)) /\ Z.abs (signed_if (left_c x) srs) = Z.abs (signed_if (right_c x) srs).
Proof. exact mixed_winding_number_sized. Qed.
Theorem C11_mixed_even_odd_sized :
  forall srs b0 x y, mixed_query_sized srs b0 x y -> pointIsInside ROps (map fst srs) (P x y) = Some (Nat.odd (count_if (left_c x) srs)) /\ Nat.odd (count_if (left_c x) srs) = Nat.odd (count_if (right_c x) srs).
Proof. exact mixed_even_odd_sized. Qed.
Theorem C11_polygon_mixed_query_sized :
  forall ls b0 x y, polygon_query ls b0 x y -> mixed_query_sized (polygon_xpath y ls) b0 x y.
Proof. exact polygon_mixed_query_sized. Qed.
Theorem C11_polygon_even_odd_via_sized :
  forall ls b0 x y, polygon_query ls b0 x y -> pointIsInside ROps (map SLine ls) (P x y) = Some (Nat.odd (length (filter (left_of x y) ls))) /\ Nat.odd (length (filter (left_of x y) ls)) = Nat.odd (length (filter (right_of x y) ls)).
Proof. exact polygon_even_odd_via_sized. Qed.
Theorem C11_lens_query_sized :
  mixed_query_sized lens_x lens_box 1 (15 / 4).
Proof. exact lens_query_sized. Qed.
Theorem C11_Path_bounds_gen :
  forall (T : Type) (O : Ops T) (segs : list (segment T)), Winding.Path_bounds O segs = match all_some (map (segment_bounds O) segs) with | Some boxes => Sample.Returns (path_bounds O boxes) | None => Sample.Raises Sample.PyNoneError end.
Proof. exact @Bridge4.Path_bounds_gen. Qed.
Theorem C11_windingNumberOfPoint_gen :
  forall (T : Type) (O : Ops T), neg O (ofZ O 10) = ofZ O (-10) -> forall (segs : list (segment T)) (p : pt T), Winding.Path_windingNumberOfPoint O segs p = Bridge4.outcome_of_option (windingNumberOfPoint O segs p).
Proof. exact @Bridge4.windingNumberOfPoint_gen. Qed.
Theorem C11_pointIsInside_gen :
  forall (T : Type) (O : Ops T), neg O (ofZ O 10) = ofZ O (-10) -> forall (segs : list (segment T)) (p : pt T), Winding.Path_pointIsInside O segs p = Bridge4.outcome_of_option (pointIsInside O segs p).
Proof. exact @Bridge4.pointIsInside_gen. Qed.
Theorem C11_Hneg_R :
  neg ROps (ofZ ROps 10) = ofZ ROps (-10).
Proof. exact @Bridge4.Hneg_R. Qed.
Theorem C11_Hneg_F :
  neg FOps (ofZ FOps 10) = ofZ FOps (-10).
Proof. exact @Bridge4.Hneg_F. Qed.
Theorem C11_horizontal_inflection_float_refuted :
  let O := FOpsT infl_tbl in (match path_box O infl_path with Some b => BBox_includes O b infl_query | None => true end) = false /\ windingNumberOfPoint O infl_path infl_query = Some 2%Z /\ pointIsInside O infl_path infl_query = Some false.
Proof. exact horizontal_inflection_float_refuted. Qed.
Theorem C11_gen_pointIsInside_parity :
  forall (T : Type) (O : Ops T), neg O (ofZ O 10) = ofZ O (-10) -> forall (segs : list (segment T)) (p : pt T) (w : Z), Winding.Path_windingNumberOfPoint O segs p = Sample.Returns w -> Winding.Path_pointIsInside O segs p = Sample.Returns (Z.odd w).
Proof. exact @Transfer4.gen_pointIsInside_parity. Qed.
Theorem C11_gen_polygon_even_odd :
  forall (ls : list (seg2 R)) (b0 : bbox R) (x y : R), polygon_query ls b0 x y -> Winding.Path_pointIsInside ROps (map SLine ls) {| px := x; py := y |} = Sample.Returns (Nat.odd (length (filter (left_of x y) ls))) /\ Nat.odd (length (filter (left_of x y) ls)) = Nat.odd (length (filter (right_of x y) ls)).
Proof. exact @Transfer4.gen_polygon_even_odd. Qed.
Theorem C11_gen_polygon_winding_number :
  forall (ls : list (seg2 R)) (b0 : bbox R) (x y : R), polygon_query ls b0 x y -> Winding.Path_windingNumberOfPoint ROps (map SLine ls) {| px := x; py := y |} = Sample.Returns (Z.abs (leftSum ls x y)) /\ Z.abs (leftSum ls x y) = Z.abs (rightSum ls x y).
Proof. exact @Transfer4.gen_polygon_winding_number. Qed.
Theorem C11_gen_bbox_outside_zero :
  forall (ls : list (seg2 R)) (b0 : bbox R) (x y : R), polygon_query ls b0 x y -> BBox_includes ROps b0 {| px := x; py := y |} = false -> Winding.Path_windingNumberOfPoint ROps (map SLine ls) {| px := x; py := y |} = Sample.Returns 0%Z.
Proof. exact @Transfer4.gen_bbox_outside_zero. Qed.
Theorem C11_gen_mixed_even_odd :
  forall (srs : xpath) (b0 : bbox R) (x y : R), mixed_query srs b0 x y -> Winding.Path_pointIsInside ROps (map fst srs) {| px := x; py := y |} = Sample.Returns (Nat.odd (count_if (left_c x) srs)) /\ Nat.odd (count_if (left_c x) srs) = Nat.odd (count_if (right_c x) srs).
Proof. exact @Transfer4.gen_mixed_even_odd. Qed.
Theorem C11_gen_mixed_winding_number :
  forall (srs : xpath) (b0 : bbox R) (x y : R), mixed_query srs b0 x y -> Winding.Path_windingNumberOfPoint ROps (map fst srs) {| px := x; py := y |} = Sample.Returns (Z.abs (signed_if (left_c x) srs)) /\ Z.abs (signed_if (left_c x) srs) = Z.abs (signed_if (right_c x) srs).
Proof. exact @Transfer4.gen_mixed_winding_number. Qed.

Print Assumptions C11_abs_sum_signs_parity.
Print Assumptions C11_winding_sum_parity_any.
Print Assumptions C11_windingNumber_parity_any.
Print Assumptions C11_pointIsInside_parity_any.
Print Assumptions C11_edge_ray_crossing.
Print Assumptions C11_closed_polygon_balance.
Print Assumptions C11_polygon_winding_number.
Print Assumptions C11_polygon_even_odd.
Print Assumptions C11_bbox_outside_zero.
Print Assumptions C11_cubic_ray_hits_partial.
Print Assumptions C11_quad_ray_hits_partial.
Print Assumptions C11_tri_query_inside.
Print Assumptions C11_tri_query_inside_result.
Print Assumptions C11_triangle_level_with_node.
Print Assumptions C11_refuted.
Print Assumptions C11_bowtie_merged_crossing.
Print Assumptions C11_merged_crossing_refuted.
Print Assumptions C11_vertical_recheck_refuted.
Print Assumptions C11_long_ray_refuted.
Print Assumptions C11_degenerate_ray_refuted.
Print Assumptions C11_poly_root_parity.
Print Assumptions C11_cubic_root_parity.
Print Assumptions C11_quadratic_root_parity.
Print Assumptions C11_poly_roots_finite.
Print Assumptions C11_segment_crossing_parity.
Print Assumptions C11_segment_crossings_finite.
Print Assumptions C11_closed_mixed_balance.
Print Assumptions C11_left_right_parity.
Print Assumptions C11_closed_mixed_signed_balance.
Print Assumptions C11_left_right_signed.
Print Assumptions C11_mixed_dict_counts.
Print Assumptions C11_mixed_winding_number.
Print Assumptions C11_mixed_even_odd.
Print Assumptions C11_polygon_mixed_query.
Print Assumptions C11_tri_mixed_query.
Print Assumptions C11_dD_at_4_balance.
Print Assumptions C11_lens_query.
Print Assumptions C11_lens_inside.
Print Assumptions C11_lens_winding.
Print Assumptions C11_crossing_in_padded_box.
Print Assumptions C11_mixed_query_sized_is_between.
Print Assumptions C11_mixed_dict_counts_sized.
Print Assumptions C11_mixed_winding_number_sized.
Print Assumptions C11_mixed_even_odd_sized.
Print Assumptions C11_polygon_mixed_query_sized.
Print Assumptions C11_polygon_even_odd_via_sized.
Print Assumptions C11_lens_query_sized.
Print Assumptions C11_Path_bounds_gen.
Print Assumptions C11_windingNumberOfPoint_gen.
Print Assumptions C11_pointIsInside_gen.
Print Assumptions C11_Hneg_R.
Print Assumptions C11_Hneg_F.
Print Assumptions C11_horizontal_inflection_float_refuted.
Print Assumptions C11_gen_pointIsInside_parity.
Print Assumptions C11_gen_polygon_even_odd.
Print Assumptions C11_gen_polygon_winding_number.
Print Assumptions C11_gen_bbox_outside_zero.
Print Assumptions C11_gen_mixed_even_odd.
Print Assumptions C11_gen_mixed_winding_number.
