(* C01 -- Evaluation and subdivision reproduce the Bezier polynomial exactly.
   Statements only; every proof is [exact <lemma of Proofs/C01.v>].  The model functions (Line_/Quad_/Cubic_
   pointAtTime, splitAtTime, derivative, Point_lerp) are regenerated from /repo/src/beziers by tools/py2v.py
   on every run, instantiated at the reals (ROps).
   The floating-point clause (<= 1e-12 * max|coord|) IS covered for evaluation, lerp, splitting and the derivative
   segments (C01_*_float_close, C01_*_float_1e12): with Flocq's model of binary64 (through the standard library's
   FloatAxioms specification of the primitive operations), for finite control coordinates of magnitude <= M <= 2^1000
   and finite t in [0,1] the binary64 instance of the SAME regenerated text is within k*2^-53*M + k'*2^-1075 (k <= 74
   for evaluation, 199 for the cubic hodograph) of the real instance on the real values of the inputs, hence within
   1e-12*M + 2^-1070, and within 1e-12*M when M >= 2^-1000 (the absolute term is underflow and cannot be dropped:
   coordinates 2^-1074 at t = 1/2 evaluate to 0).  NOT covered: the two retrace identities in floating point for
   arbitrary s (they follow from the above by the triangle inequality plus the real identity; measured only). *)
From Flocq Require Import Core.   (* bpow, radix2 for the float-clause statements; imported first so that [float] below is PrimFloat.float *)
From Coq Require Import PrimFloat.
From Coq Require Import ZArith List Bool Reals.
From Coquelicot Require Import Coquelicot.
From BZ Require Import Base.Ops Gen.Point Gen.Line Gen.Quad Gen.Cubic Proofs.C01 Proofs.C01float Base.FloatErr Proofs.C01retrace.
Import ListNotations.
Open Scope R_scope.

(* evaluation is the Bernstein polynomial of the control points, for every real t *)
Theorem C01_line_eval_is_bernstein : forall (s : seg2 R) t, Line_pointAtTime ROps s t = bern [l0 s; l1 s] t.
Proof. exact line_eval_bern. Qed.
Theorem C01_quad_eval_is_bernstein : forall (s : seg3 R) t, Quad_pointAtTime ROps s t = bern [q0 s; q1 s; q2 s] t.
Proof. exact quad_eval_bern. Qed.
Theorem C01_cubic_eval_is_bernstein : forall (s : seg4 R) t, Cubic_pointAtTime ROps s t = bern [c0 s; c1 s; c2 s; c3 s] t.
Proof. exact cubic_eval_bern. Qed.
(* start at t = 0, end at t = 1 *)
Theorem C01_eval_ends : forall (a : seg2 R) (b : seg3 R) (c : seg4 R),
  Line_pointAtTime ROps a 0 = l0 a /\ Line_pointAtTime ROps a 1 = l1 a /\
  Quad_pointAtTime ROps b 0 = q0 b /\ Quad_pointAtTime ROps b 1 = q2 b /\
  Cubic_pointAtTime ROps c 0 = c0 c /\ Cubic_pointAtTime ROps c 1 = c3 c.
Proof. exact (fun a b c => conj (line_eval_0 a) (conj (line_eval_1 a) (conj (quad_eval_0 b) (conj (quad_eval_1 b) (conj (cubic_eval_0 c) (cubic_eval_1 c)))))). Qed.
(* the derivative segment evaluates to the exact parametric derivative *)
Theorem C01_cubic_derivative : forall (s : seg4 R) t,
  is_derive (fun u => px (Cubic_pointAtTime ROps s u)) t (px (Quad_pointAtTime ROps (Cubic_derivative ROps s) t)) /\
  is_derive (fun u => py (Cubic_pointAtTime ROps s u)) t (py (Quad_pointAtTime ROps (Cubic_derivative ROps s) t)).
Proof. exact (fun s t => conj (cubic_derivative_x s t) (cubic_derivative_y s t)). Qed.
Theorem C01_quad_derivative : forall (s : seg3 R) t,
  is_derive (fun u => px (Quad_pointAtTime ROps s u)) t (px (Line_pointAtTime ROps (Quad_derivative ROps s) t)) /\
  is_derive (fun u => py (Quad_pointAtTime ROps s u)) t (py (Line_pointAtTime ROps (Quad_derivative ROps s) t)).
Proof. exact (fun s t => conj (quad_derivative_x s t) (quad_derivative_y s t)). Qed.
(* splitting: same kind (by typing), the pieces meet at the point at t and keep the outer ends *)
Theorem C01_line_split_meet : forall (s : seg2 R) t, let '(a, b) := Line_splitAtTime ROps s t in
  l1 a = Line_pointAtTime ROps s t /\ l0 b = Line_pointAtTime ROps s t /\ l0 a = l0 s /\ l1 b = l1 s.
Proof. exact line_split_meet. Qed.
Theorem C01_quad_split_meet : forall (s : seg3 R) t, let '(a, b) := Quad_splitAtTime ROps s t in
  q2 a = Quad_pointAtTime ROps s t /\ q0 b = Quad_pointAtTime ROps s t /\ q0 a = q0 s /\ q2 b = q2 s.
Proof. exact quad_split_meet. Qed.
Theorem C01_cubic_split_meet : forall (s : seg4 R) t, let '(a, b) := Cubic_splitAtTime ROps s t in
  c3 a = Cubic_pointAtTime ROps s t /\ c0 b = Cubic_pointAtTime ROps s t /\ c0 a = c0 s /\ c3 b = c3 s.
Proof. exact cubic_split_meet. Qed.
(* ... and together retrace the original: first piece at u is the original at u*t, second at t + u*(1-t) *)
Theorem C01_line_split_retrace : forall (s : seg2 R) t u,
  Line_pointAtTime ROps (fst (Line_splitAtTime ROps s t)) u = Line_pointAtTime ROps s (u * t) /\
  Line_pointAtTime ROps (snd (Line_splitAtTime ROps s t)) u = Line_pointAtTime ROps s (t + u * (1 - t)).
Proof. exact (fun s t u => conj (line_split_left s t u) (line_split_right s t u)). Qed.
Theorem C01_quad_split_retrace : forall (s : seg3 R) t u,
  Quad_pointAtTime ROps (fst (Quad_splitAtTime ROps s t)) u = Quad_pointAtTime ROps s (u * t) /\
  Quad_pointAtTime ROps (snd (Quad_splitAtTime ROps s t)) u = Quad_pointAtTime ROps s (t + u * (1 - t)).
Proof. exact (fun s t u => conj (quad_split_left s t u) (quad_split_right s t u)). Qed.
Theorem C01_cubic_split_retrace : forall (s : seg4 R) t u,
  Cubic_pointAtTime ROps (fst (Cubic_splitAtTime ROps s t)) u = Cubic_pointAtTime ROps s (u * t) /\
  Cubic_pointAtTime ROps (snd (Cubic_splitAtTime ROps s t)) u = Cubic_pointAtTime ROps s (t + u * (1 - t)).
Proof. exact (fun s t u => conj (cubic_split_left s t u) (cubic_split_right s t u)). Qed.
Theorem C01_lerp : forall (a b : pt R) t, Point_lerp ROps a b t = P ((1 - t) * px a + t * px b) ((1 - t) * py a + t * py b).
Proof. exact lerp_spec. Qed.
(* non-vacuity on the suite's quadratic *)
Theorem C01_example_split : q1 (fst (Quad_splitAtTime ROps (Q3 (P 150 40) (P 80 30) (P 105 150)) (1/5))) = P 136 38.
Proof. exact quad_split_example. Qed.
Theorem C01_lerp_float_close :
  forall M (a b : pt float) t, M <= Mcap -> pt_ok M a -> pt_ok M b -> t_ok t -> pt_close (Point_lerp FOps a b t) (Point_lerp ROps (ptR a) (ptR b) (FR t)) (7 * u * M + 4 * eta).
Proof. exact lerp_float_close. Qed.
Theorem C01_line_eval_float_close :
  forall M (s : seg2 float) t, M <= Mcap -> seg2_ok M s -> t_ok t -> pt_close (Line_pointAtTime FOps s t) (Line_pointAtTime ROps (seg2R s) (FR t)) (7 * u * M + 4 * eta).
Proof. exact line_eval_float_close. Qed.
Theorem C01_quad_eval_float_close :
  forall M (s : seg3 float) t, M <= Mcap -> seg3_ok M s -> t_ok t -> pt_close (Quad_pointAtTime FOps s t) (Quad_pointAtTime ROps (seg3R s) (FR t)) (26 * u * M + 6 * eta).
Proof. exact quad_eval_float_close. Qed.
Theorem C01_cubic_eval_float_close :
  forall M (s : seg4 float) t, M <= Mcap -> seg4_ok M s -> t_ok t -> pt_close (Cubic_pointAtTime FOps s t) (Cubic_pointAtTime ROps (seg4R s) (FR t)) (74 * u * M + 8 * eta).
Proof. exact cubic_eval_float_close. Qed.
Theorem C01_line_split_float_close :
  forall M (s : seg2 float) t, M <= Mcap -> seg2_ok M s -> t_ok t -> seg2_close (fst (Line_splitAtTime FOps s t)) (fst (Line_splitAtTime ROps (seg2R s) (FR t))) (7 * u * M + 4 * eta) /\ seg2_close (snd (Line_splitAtTime FOps s t)) (snd (Line_splitAtTime ROps (seg2R s) (FR t))) (7 * u * M + 4 * eta).
Proof. exact line_split_float_close. Qed.
Theorem C01_quad_split_float_close :
  forall M (s : seg3 float) t, M <= Mcap -> seg3_ok M s -> t_ok t -> seg3_close (fst (Quad_splitAtTime FOps s t)) (fst (Quad_splitAtTime ROps (seg3R s) (FR t))) (25 * u * M + 10 * eta) /\ seg3_close (snd (Quad_splitAtTime FOps s t)) (snd (Quad_splitAtTime ROps (seg3R s) (FR t))) (25 * u * M + 10 * eta).
Proof. exact quad_split_float_close. Qed.
Theorem C01_cubic_split_float_close :
  forall M (s : seg4 float) t, M <= Mcap -> seg4_ok M s -> t_ok t -> seg4_close (fst (Cubic_splitAtTime FOps s t)) (fst (Cubic_splitAtTime ROps (seg4R s) (FR t))) (73 * u * M + 22 * eta) /\ seg4_close (snd (Cubic_splitAtTime FOps s t)) (snd (Cubic_splitAtTime ROps (seg4R s) (FR t))) (73 * u * M + 22 * eta).
Proof. exact cubic_split_float_close. Qed.
Theorem C01_quad_derivative_float_close :
  forall M (s : seg3 float) t, M <= Mcap -> seg3_ok M s -> t_ok t -> pt_close (Line_pointAtTime FOps (Quad_derivative FOps s) t) (Line_pointAtTime ROps (Quad_derivative ROps (seg3R s)) (FR t)) (41 * u * M + 10 * eta).
Proof. exact quad_derivative_float_close. Qed.
Theorem C01_cubic_derivative_float_close :
  forall M (s : seg4 float) t, M <= Mcap -> seg4_ok M s -> t_ok t -> pt_close (Quad_pointAtTime FOps (Cubic_derivative FOps s) t) (Quad_pointAtTime ROps (Cubic_derivative ROps (seg4R s)) (FR t)) (199 * u * M + 22 * eta).
Proof. exact cubic_derivative_float_close. Qed.
Theorem C01_line_eval_float_1e12 :
  forall M (s : seg2 float) t, M <= Mcap -> seg2_ok M s -> t_ok t -> pt_close (Line_pointAtTime FOps s t) (Line_pointAtTime ROps (seg2R s) (FR t)) (1e-12 * M + bpow radix2 (-1070)).
Proof. exact line_eval_float_1e12. Qed.
Theorem C01_quad_eval_float_1e12 :
  forall M (s : seg3 float) t, M <= Mcap -> seg3_ok M s -> t_ok t -> pt_close (Quad_pointAtTime FOps s t) (Quad_pointAtTime ROps (seg3R s) (FR t)) (1e-12 * M + bpow radix2 (-1070)).
Proof. exact quad_eval_float_1e12. Qed.
Theorem C01_cubic_eval_float_1e12 :
  forall M (s : seg4 float) t, M <= Mcap -> seg4_ok M s -> t_ok t -> pt_close (Cubic_pointAtTime FOps s t) (Cubic_pointAtTime ROps (seg4R s) (FR t)) (1e-12 * M + bpow radix2 (-1070)).
Proof. exact cubic_eval_float_1e12. Qed.
Theorem C01_line_eval_float_1e12_rel :
  forall M (s : seg2 float) t, bpow radix2 (-1000) <= M <= Mcap -> seg2_ok M s -> t_ok t -> pt_close (Line_pointAtTime FOps s t) (Line_pointAtTime ROps (seg2R s) (FR t)) (1e-12 * M).
Proof. exact line_eval_float_1e12_rel. Qed.
Theorem C01_quad_eval_float_1e12_rel :
  forall M (s : seg3 float) t, bpow radix2 (-1000) <= M <= Mcap -> seg3_ok M s -> t_ok t -> pt_close (Quad_pointAtTime FOps s t) (Quad_pointAtTime ROps (seg3R s) (FR t)) (1e-12 * M).
Proof. exact quad_eval_float_1e12_rel. Qed.
Theorem C01_cubic_eval_float_1e12_rel :
  forall M (s : seg4 float) t, bpow radix2 (-1000) <= M <= Mcap -> seg4_ok M s -> t_ok t -> pt_close (Cubic_pointAtTime FOps s t) (Cubic_pointAtTime ROps (seg4R s) (FR t)) (1e-12 * M).
Proof. exact cubic_eval_float_1e12_rel. Qed.
Theorem C01_lerp_float_1e12 :
  forall M (a b : pt float) t, M <= Mcap -> pt_ok M a -> pt_ok M b -> t_ok t -> pt_close (Point_lerp FOps a b t) (Point_lerp ROps (ptR a) (ptR b) (FR t)) (1e-12 * M + bpow radix2 (-1070)).
Proof. exact lerp_float_1e12. Qed.
Theorem C01_line_split_float_1e12 :
  forall M (s : seg2 float) t, M <= Mcap -> seg2_ok M s -> t_ok t -> seg2_close (fst (Line_splitAtTime FOps s t)) (fst (Line_splitAtTime ROps (seg2R s) (FR t))) (1e-12 * M + bpow radix2 (-1070)) /\ seg2_close (snd (Line_splitAtTime FOps s t)) (snd (Line_splitAtTime ROps (seg2R s) (FR t))) (1e-12 * M + bpow radix2 (-1070)).
Proof. exact line_split_float_1e12. Qed.
Theorem C01_quad_split_float_1e12 :
  forall M (s : seg3 float) t, M <= Mcap -> seg3_ok M s -> t_ok t -> seg3_close (fst (Quad_splitAtTime FOps s t)) (fst (Quad_splitAtTime ROps (seg3R s) (FR t))) (1e-12 * M + bpow radix2 (-1070)) /\ seg3_close (snd (Quad_splitAtTime FOps s t)) (snd (Quad_splitAtTime ROps (seg3R s) (FR t))) (1e-12 * M + bpow radix2 (-1070)).
Proof. exact quad_split_float_1e12. Qed.
Theorem C01_cubic_split_float_1e12 :
  forall M (s : seg4 float) t, M <= Mcap -> seg4_ok M s -> t_ok t -> seg4_close (fst (Cubic_splitAtTime FOps s t)) (fst (Cubic_splitAtTime ROps (seg4R s) (FR t))) (1e-12 * M + bpow radix2 (-1070)) /\ seg4_close (snd (Cubic_splitAtTime FOps s t)) (snd (Cubic_splitAtTime ROps (seg4R s) (FR t))) (1e-12 * M + bpow radix2 (-1070)).
Proof. exact cubic_split_float_1e12. Qed.
Theorem C01_quad_derivative_float_1e12 :
  forall M (s : seg3 float) t, M <= Mcap -> seg3_ok M s -> t_ok t -> pt_close (Line_pointAtTime FOps (Quad_derivative FOps s) t) (Line_pointAtTime ROps (Quad_derivative ROps (seg3R s)) (FR t)) (1e-12 * M + bpow radix2 (-1070)).
Proof. exact quad_derivative_float_1e12. Qed.
Theorem C01_cubic_derivative_float_1e12 :
  forall M (s : seg4 float) t, M <= Mcap -> seg4_ok M s -> t_ok t -> pt_close (Quad_pointAtTime FOps (Cubic_derivative FOps s) t) (Quad_pointAtTime ROps (Cubic_derivative ROps (seg4R s)) (FR t)) (1e-12 * M + bpow radix2 (-1070)).
Proof. exact cubic_derivative_float_1e12. Qed.
Theorem C01_quad_eval_example :
  pt_close (Quad_pointAtTime FOps ex_quad ex_t) (Quad_pointAtTime ROps (seg3R ex_quad) (FR ex_t)) (1e-12 * 150).
Proof. exact quad_eval_example. Qed.
Theorem C01_cubic_eval_lipschitz :
  forall (a b : seg4 R) s e, 0 <= s <= 1 -> rseg4_close a b e -> rpt_close (Cubic_pointAtTime ROps a s) (Cubic_pointAtTime ROps b s) e.
Proof. exact cubic_eval_lipschitz. Qed.
Theorem C01_cubic_split_pieces_ok :
  forall M (s : seg4 float) t, M <= Mcap -> seg4_ok M s -> t_ok t -> seg4_ok (M + (73 * u * M + 22 * eta)) (fst (Cubic_splitAtTime FOps s t)) /\ seg4_ok (M + (73 * u * M + 22 * eta)) (snd (Cubic_splitAtTime FOps s t)).
Proof. exact cubic_split_pieces_ok. Qed.
Theorem C01_line_split_retrace_float :
  forall M (s : seg2 float) t v, M <= Mcap / 2 -> seg2_ok M s -> t_ok t -> t_ok v -> pt_close (Line_pointAtTime FOps (fst (Line_splitAtTime FOps s t)) v) (Line_pointAtTime ROps (seg2R s) (FR v * FR t)) (15 * u * M + 9 * eta) /\ pt_close (Line_pointAtTime FOps (snd (Line_splitAtTime FOps s t)) v) (Line_pointAtTime ROps (seg2R s) (FR t + FR v * (1 - FR t))) (15 * u * M + 9 * eta).
Proof. exact line_split_retrace_float. Qed.
Theorem C01_quad_split_retrace_float :
  forall M (s : seg3 float) t v, M <= Mcap / 2 -> seg3_ok M s -> t_ok t -> t_ok v -> pt_close (Quad_pointAtTime FOps (fst (Quad_splitAtTime FOps s t)) v) (Quad_pointAtTime ROps (seg3R s) (FR v * FR t)) (52 * u * M + 17 * eta) /\ pt_close (Quad_pointAtTime FOps (snd (Quad_splitAtTime FOps s t)) v) (Quad_pointAtTime ROps (seg3R s) (FR t + FR v * (1 - FR t))) (52 * u * M + 17 * eta).
Proof. exact quad_split_retrace_float. Qed.
Theorem C01_cubic_split_retrace_float :
  forall M (s : seg4 float) t v, M <= Mcap / 2 -> seg4_ok M s -> t_ok t -> t_ok v -> pt_close (Cubic_pointAtTime FOps (fst (Cubic_splitAtTime FOps s t)) v) (Cubic_pointAtTime ROps (seg4R s) (FR v * FR t)) (148 * u * M + 31 * eta) /\ pt_close (Cubic_pointAtTime FOps (snd (Cubic_splitAtTime FOps s t)) v) (Cubic_pointAtTime ROps (seg4R s) (FR t + FR v * (1 - FR t))) (148 * u * M + 31 * eta).
Proof. exact cubic_split_retrace_float. Qed.
Theorem C01_line_split_meet_float :
  forall M (s : seg2 float) t, M <= Mcap -> seg2_ok M s -> t_ok t -> l1 (fst (Line_splitAtTime FOps s t)) = l0 (snd (Line_splitAtTime FOps s t)) /\ pt_close (l1 (fst (Line_splitAtTime FOps s t))) (Line_pointAtTime ROps (seg2R s) (FR t)) (7 * u * M + 4 * eta) /\ pt_close (l0 (snd (Line_splitAtTime FOps s t))) (Line_pointAtTime ROps (seg2R s) (FR t)) (7 * u * M + 4 * eta).
Proof. exact line_split_meet_float. Qed.
Theorem C01_quad_split_meet_float :
  forall M (s : seg3 float) t, M <= Mcap -> seg3_ok M s -> t_ok t -> q2 (fst (Quad_splitAtTime FOps s t)) = q0 (snd (Quad_splitAtTime FOps s t)) /\ pt_close (q2 (fst (Quad_splitAtTime FOps s t))) (Quad_pointAtTime ROps (seg3R s) (FR t)) (25 * u * M + 10 * eta) /\ pt_close (q0 (snd (Quad_splitAtTime FOps s t))) (Quad_pointAtTime ROps (seg3R s) (FR t)) (25 * u * M + 10 * eta).
Proof. exact quad_split_meet_float. Qed.
Theorem C01_cubic_split_meet_float :
  forall M (s : seg4 float) t, M <= Mcap -> seg4_ok M s -> t_ok t -> c3 (fst (Cubic_splitAtTime FOps s t)) = c0 (snd (Cubic_splitAtTime FOps s t)) /\ pt_close (c3 (fst (Cubic_splitAtTime FOps s t))) (Cubic_pointAtTime ROps (seg4R s) (FR t)) (73 * u * M + 22 * eta) /\ pt_close (c0 (snd (Cubic_splitAtTime FOps s t))) (Cubic_pointAtTime ROps (seg4R s) (FR t)) (73 * u * M + 22 * eta).
Proof. exact cubic_split_meet_float. Qed.
Theorem C01_line_split_retrace_float_1e12 :
  forall M (s : seg2 float) t v, M <= Mcap / 2 -> seg2_ok M s -> t_ok t -> t_ok v -> pt_close (Line_pointAtTime FOps (fst (Line_splitAtTime FOps s t)) v) (Line_pointAtTime ROps (seg2R s) (FR v * FR t)) (1e-12 * M + bpow radix2 (-1070)) /\ pt_close (Line_pointAtTime FOps (snd (Line_splitAtTime FOps s t)) v) (Line_pointAtTime ROps (seg2R s) (FR t + FR v * (1 - FR t))) (1e-12 * M + bpow radix2 (-1070)).
Proof. exact line_split_retrace_float_1e12. Qed.
Theorem C01_quad_split_retrace_float_1e12 :
  forall M (s : seg3 float) t v, M <= Mcap / 2 -> seg3_ok M s -> t_ok t -> t_ok v -> pt_close (Quad_pointAtTime FOps (fst (Quad_splitAtTime FOps s t)) v) (Quad_pointAtTime ROps (seg3R s) (FR v * FR t)) (1e-12 * M + bpow radix2 (-1070)) /\ pt_close (Quad_pointAtTime FOps (snd (Quad_splitAtTime FOps s t)) v) (Quad_pointAtTime ROps (seg3R s) (FR t + FR v * (1 - FR t))) (1e-12 * M + bpow radix2 (-1070)).
Proof. exact quad_split_retrace_float_1e12. Qed.
Theorem C01_cubic_split_retrace_float_1e12 :
  forall M (s : seg4 float) t v, M <= Mcap / 2 -> seg4_ok M s -> t_ok t -> t_ok v -> pt_close (Cubic_pointAtTime FOps (fst (Cubic_splitAtTime FOps s t)) v) (Cubic_pointAtTime ROps (seg4R s) (FR v * FR t)) (1e-12 * M + bpow radix2 (-1070)) /\ pt_close (Cubic_pointAtTime FOps (snd (Cubic_splitAtTime FOps s t)) v) (Cubic_pointAtTime ROps (seg4R s) (FR t + FR v * (1 - FR t))) (1e-12 * M + bpow radix2 (-1070)).
Proof. exact cubic_split_retrace_float_1e12. Qed.
Theorem C01_cubic_split_retrace_float_1e12_rel :
  forall M (s : seg4 float) t v, bpow radix2 (-1000) <= M <= Mcap / 2 -> seg4_ok M s -> t_ok t -> t_ok v -> pt_close (Cubic_pointAtTime FOps (fst (Cubic_splitAtTime FOps s t)) v) (Cubic_pointAtTime ROps (seg4R s) (FR v * FR t)) (1e-12 * M) /\ pt_close (Cubic_pointAtTime FOps (snd (Cubic_splitAtTime FOps s t)) v) (Cubic_pointAtTime ROps (seg4R s) (FR t + FR v * (1 - FR t))) (1e-12 * M).
Proof. exact cubic_split_retrace_float_1e12_rel. Qed.
Theorem C01_quad_split_retrace_example :
  pt_close (Quad_pointAtTime FOps (fst (Quad_splitAtTime FOps ex_quad ex_t)) ex_v) (Quad_pointAtTime ROps (seg3R ex_quad) (FR ex_v * FR ex_t)) (1e-12 * 150) /\ pt_close (Quad_pointAtTime FOps (snd (Quad_splitAtTime FOps ex_quad ex_t)) ex_v) (Quad_pointAtTime ROps (seg3R ex_quad) (FR ex_t + FR ex_v * (1 - FR ex_t))) (1e-12 * 150).
Proof. exact quad_split_retrace_example. Qed.

Print Assumptions C01_line_eval_is_bernstein.
Print Assumptions C01_quad_eval_is_bernstein.
Print Assumptions C01_cubic_eval_is_bernstein.
Print Assumptions C01_eval_ends.
Print Assumptions C01_cubic_derivative.
Print Assumptions C01_quad_derivative.
Print Assumptions C01_line_split_meet.
Print Assumptions C01_quad_split_meet.
Print Assumptions C01_cubic_split_meet.
Print Assumptions C01_line_split_retrace.
Print Assumptions C01_quad_split_retrace.
Print Assumptions C01_cubic_split_retrace.
Print Assumptions C01_lerp.
Print Assumptions C01_example_split.
Print Assumptions C01_lerp_float_close.
Print Assumptions C01_line_eval_float_close.
Print Assumptions C01_quad_eval_float_close.
Print Assumptions C01_cubic_eval_float_close.
Print Assumptions C01_line_split_float_close.
Print Assumptions C01_quad_split_float_close.
Print Assumptions C01_cubic_split_float_close.
Print Assumptions C01_quad_derivative_float_close.
Print Assumptions C01_cubic_derivative_float_close.
Print Assumptions C01_line_eval_float_1e12.
Print Assumptions C01_quad_eval_float_1e12.
Print Assumptions C01_cubic_eval_float_1e12.
Print Assumptions C01_line_eval_float_1e12_rel.
Print Assumptions C01_quad_eval_float_1e12_rel.
Print Assumptions C01_cubic_eval_float_1e12_rel.
Print Assumptions C01_lerp_float_1e12.
Print Assumptions C01_line_split_float_1e12.
Print Assumptions C01_quad_split_float_1e12.
Print Assumptions C01_cubic_split_float_1e12.
Print Assumptions C01_quad_derivative_float_1e12.
Print Assumptions C01_cubic_derivative_float_1e12.
Print Assumptions C01_quad_eval_example.
Print Assumptions C01_cubic_eval_lipschitz.
Print Assumptions C01_cubic_split_pieces_ok.
Print Assumptions C01_line_split_retrace_float.
Print Assumptions C01_quad_split_retrace_float.
Print Assumptions C01_cubic_split_retrace_float.
Print Assumptions C01_line_split_meet_float.
Print Assumptions C01_quad_split_meet_float.
Print Assumptions C01_cubic_split_meet_float.
Print Assumptions C01_line_split_retrace_float_1e12.
Print Assumptions C01_quad_split_retrace_float_1e12.
Print Assumptions C01_cubic_split_retrace_float_1e12.
Print Assumptions C01_cubic_split_retrace_float_1e12_rel.
Print Assumptions C01_quad_split_retrace_example.
