(* C01 -- Evaluation and subdivision reproduce the Bezier polynomial exactly.
   Statements only; every proof is [exact <lemma of Proofs/C01.v>].  The model functions (Line_/Quad_/Cubic_
   pointAtTime, splitAtTime, derivative, Point_lerp) are regenerated from /repo/src/beziers by tools/py2v.py
   on every run, instantiated at the reals (ROps).
   NOT covered by a theorem: the floating-point clause (<= 1e-12 * max|coord|); it is measured against exact
   rational evaluation by the correspondence/search stage and reported as tested. *)
From Coq Require Import PrimFloat.
From Coq Require Import ZArith List Bool Reals.
From Coquelicot Require Import Coquelicot.
From BZ Require Import Base.Ops Gen.Point Gen.Line Gen.Quad Gen.Cubic Proofs.C01.
Import ListNotations.
Open Scope R_scope.

(* evaluation is the Bernstein polynomial of the control points, for every real t *)
Theorem C01_line_eval_is_bernstein : forall (s : seg2 R) t, Line_pointAtTime ROps s t = bern [l0 s; l1 s] t.
Proof. exact line_eval_bern. Qed.
Theorem C01_quad_eval_is_bernstein : forall (s : seg3 R) t, Quad_pointAtTime ROps s t = bern [q0 s; q1 s; q2 s] t.
Proof. exact quad_eval_bern. Qed.
Theorem C01_cubic_eval_is_bernstein : forall (s : seg4 R) t, Cubic_pointAtTime ROps s t = bern [c0 s; c1 s; c2 s; c3 s] t.
Proof. exact cubic_eval_bern. Qed.
(* start at t = 0, end at t = 1 *)
Theorem C01_eval_ends : forall (a : seg2 R) (b : seg3 R) (c : seg4 R),
  Line_pointAtTime ROps a 0 = l0 a /\ Line_pointAtTime ROps a 1 = l1 a /\
  Quad_pointAtTime ROps b 0 = q0 b /\ Quad_pointAtTime ROps b 1 = q2 b /\
  Cubic_pointAtTime ROps c 0 = c0 c /\ Cubic_pointAtTime ROps c 1 = c3 c.
Proof. exact (fun a b c => conj (line_eval_0 a) (conj (line_eval_1 a) (conj (quad_eval_0 b) (conj (quad_eval_1 b) (conj (cubic_eval_0 c) (cubic_eval_1 c)))))). Qed.
(* the derivative segment evaluates to the exact parametric derivative *)
Theorem C01_cubic_derivative : forall (s : seg4 R) t,
  is_derive (fun u => px (Cubic_pointAtTime ROps s u)) t (px (Quad_pointAtTime ROps (Cubic_derivative ROps s) t)) /\
  is_derive (fun u => py (Cubic_pointAtTime ROps s u)) t (py (Quad_pointAtTime ROps (Cubic_derivative ROps s) t)).
Proof. exact (fun s t => conj (cubic_derivative_x s t) (cubic_derivative_y s t)). Qed.
Theorem C01_quad_derivative : forall (s : seg3 R) t,
  is_derive (fun u => px (Quad_pointAtTime ROps s u)) t (px (Line_pointAtTime ROps (Quad_derivative ROps s) t)) /\
  is_derive (fun u => py (Quad_pointAtTime ROps s u)) t (py (Line_pointAtTime ROps (Quad_derivative ROps s) t)).
Proof. exact (fun s t => conj (quad_derivative_x s t) (quad_derivative_y s t)). Qed.
(* splitting: same kind (by typing), the pieces meet at the point at t and keep the outer ends *)
Theorem C01_line_split_meet : forall (s : seg2 R) t, let '(a, b) := Line_splitAtTime ROps s t in
  l1 a = Line_pointAtTime ROps s t /\ l0 b = Line_pointAtTime ROps s t /\ l0 a = l0 s /\ l1 b = l1 s.
Proof. exact line_split_meet. Qed.
Theorem C01_quad_split_meet : forall (s : seg3 R) t, let '(a, b) := Quad_splitAtTime ROps s t in
  q2 a = Quad_pointAtTime ROps s t /\ q0 b = Quad_pointAtTime ROps s t /\ q0 a = q0 s /\ q2 b = q2 s.
Proof. exact quad_split_meet. Qed.
Theorem C01_cubic_split_meet : forall (s : seg4 R) t, let '(a, b) := Cubic_splitAtTime ROps s t in
  c3 a = Cubic_pointAtTime ROps s t /\ c0 b = Cubic_pointAtTime ROps s t /\ c0 a = c0 s /\ c3 b = c3 s.
Proof. exact cubic_split_meet. Qed.
(* ... and together retrace the original: first piece at u is the original at u*t, second at t + u*(1-t) *)
Theorem C01_line_split_retrace : forall (s : seg2 R) t u,
  Line_pointAtTime ROps (fst (Line_splitAtTime ROps s t)) u = Line_pointAtTime ROps s (u * t) /\
  Line_pointAtTime ROps (snd (Line_splitAtTime ROps s t)) u = Line_pointAtTime ROps s (t + u * (1 - t)).
Proof. exact (fun s t u => conj (line_split_left s t u) (line_split_right s t u)). Qed.
Theorem C01_quad_split_retrace : forall (s : seg3 R) t u,
  Quad_pointAtTime ROps (fst (Quad_splitAtTime ROps s t)) u = Quad_pointAtTime ROps s (u * t) /\
  Quad_pointAtTime ROps (snd (Quad_splitAtTime ROps s t)) u = Quad_pointAtTime ROps s (t + u * (1 - t)).
Proof. exact (fun s t u => conj (quad_split_left s t u) (quad_split_right s t u)). Qed.
Theorem C01_cubic_split_retrace : forall (s : seg4 R) t u,
  Cubic_pointAtTime ROps (fst (Cubic_splitAtTime ROps s t)) u = Cubic_pointAtTime ROps s (u * t) /\
  Cubic_pointAtTime ROps (snd (Cubic_splitAtTime ROps s t)) u = Cubic_pointAtTime ROps s (t + u * (1 - t)).
Proof. exact (fun s t u => conj (cubic_split_left s t u) (cubic_split_right s t u)). Qed.
Theorem C01_lerp : forall (a b : pt R) t, Point_lerp ROps a b t = P ((1 - t) * px a + t * px b) ((1 - t) * py a + t * py b).
Proof. exact lerp_spec. Qed.
(* non-vacuity on the suite's quadratic *)
Theorem C01_example_split : q1 (fst (Quad_splitAtTime ROps (Q3 (P 150 40) (P 80 30) (P 105 150)) (1/5))) = P 136 38.
Proof. exact quad_split_example. Qed.

Print Assumptions C01_line_eval_is_bernstein.
Print Assumptions C01_quad_eval_is_bernstein.
Print Assumptions C01_cubic_eval_is_bernstein.
Print Assumptions C01_eval_ends.
Print Assumptions C01_cubic_derivative.
Print Assumptions C01_quad_derivative.
Print Assumptions C01_line_split_meet.
Print Assumptions C01_quad_split_meet.
Print Assumptions C01_cubic_split_meet.
Print Assumptions C01_line_split_retrace.
Print Assumptions C01_quad_split_retrace.
Print Assumptions C01_cubic_split_retrace.
Print Assumptions C01_lerp.
Print Assumptions C01_example_split.
