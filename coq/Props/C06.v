(* C06 -- Curve-curve and self intersections: no phantoms, no missed crossings.   PARTIAL.
   Statements only; every proof is [exact <lemma of Proofs/C06.v>].

   MODELLED.  Hand/CurveCurve.v (hand-written, generic over the scalar carrier, tied to the code by the bit-exact
   correspondence of tools/props/C06.py): [cc_t] = IntersectionsMixin._curve_curve_intersections_t with explicit fuel
   (recursive halving of both curves with `_range` bookkeeping [piece], pruning by bounds().overlaps, stop when BOTH boxes have
   area < 1e-3, per-level duplicate filter [dedup] keyed on "%.2f" % t1 -- an arbitrary key function [key2] with boolean equality
   [keq] in the theorems, the exact decimal rounding [key2F] on binary64); [cc_raw] = the same with a filter that never drops;
   [intersections] = Segment.intersections (swap by degree, dispatch, withinRange filter); [self_intersections] =
   BezierPath.getSelfIntersections (loop reports, then ALL pairs i1 < i2, adjacent ones included, t1 filter).  Python exceptions
   are values: Err OutOfFuel | RangeAssert | NoBounds | DispatchError.  Cubic_hasLoop, BBox_overlaps, BBox_area, X_splitAtTime,
   X_pointAtTime, X_findExtremes are regenerated from /repo on every run (ROps instance); X_bounds is Hand/Bounds.v (C02).
   [Desc k p0 p]: p is one of the 2^k pieces obtained from p0 by k halvings; [repr orig p]: piece(u) = orig(lo + u*(hi - lo)) for
   all real u; [encloses p]: the box reported for p contains p(u) for all u in [0,1]; [sigma e] = 0.06% of e (C02).

   PROVED (over the reals, for every key function):
   * range_invariant: a piece at depth k has range width (b0-a0)/2^k inside [a0,b0] and IS the sub-curve over its range.
   * reported_from_small_overlapping_boxes / report_distance_bound: every reported (t1,t2) -- before or after the filter -- is the
     pair of range mid-points of two visited pieces of equal depth whose boxes overlap and both have area < 1/1000; hence
     |B1(t1) - B2(t2)| <= width1 + width2 + sigma-slack in x and height1 + height2 + sigma-slack in y.
   * no_miss_modulo_enclosure / no_miss_within_half_range: if B1(s) = B2(t) inside the current ranges, every visited piece is
     enclosed by its reported box and the fuel suffices, the RAW run reports (t1,t2) with |t1-s|, |t2-t| <= half the final range;
     sliver_free_encloses: the enclosure hypothesis follows from C02 when no derivative zero lies in a piece's 1% end slivers;
     no_miss_example: all hypotheses are simultaneously satisfiable (two concrete quadratics crossing at (1/2,3/4)).
   * dedup_one_per_key: the filter returns an order-preserving sub-list with pairwise different keys, keeps the first report of
     each key and only drops reports whose key equals that of a kept one; raw_report_survives_by_key: through ALL nested levels,
     the filtered run succeeds whenever the raw one does, invents nothing, and keeps for every raw report one with an equal key.
   * cc_error_is_fuel: over R the asserts cannot fail and boxes always exist; the only error is running out of fuel.
   * hasLoop_double_point: a returned pair has t1 <> t2 and evaluates to the same point; hasLoop_false_iff_disc_nonneg /
     hasLoop_some_iff_disc_neg: it returns False exactly when 3*d2^2 - 4*d1*d3 >= 0.
   * intersections_curves_spec / intersections_curves_reports, selfintersections_pairs, pair_block_in, loop_report_in: the dispatch
     and the self-intersection loops do exactly what the docstring of the model says (order, indices, filters).

   REFUTED for the faithful model (and replayed on the real code by the search): quantitative_clause_refuted -- two straight
   axis-parallel cubics crossing at 90 degrees at (10,0): the run reports the single pair (1/2,1/2), whose points are 40 apart,
   40 away from the crossing (joint extent 100 x 100).  The stop rule bounds box AREA, not diameter.

   NOT covered by a theorem: "within 0.2% of the combined extent" (both clauses) and operand-order independence up to that
   tolerance -- false in general (above; known findings C06-area-stop, C06-dedup-bucket), watched by the search only;
   no-miss AFTER the filter beyond "a report with the same 2-decimal key survives" (the survivor's t2 and its distance within
   the 0.01-wide bucket are unconstrained); pieces whose box does not enclose them (sliver rule of findExtremes);
   floating-point rounding of control points and boxes (ranges are dyadic, hence exact). *)

From Coq Require Import PrimFloat.
From Coq Require Import ZArith List Bool Reals Lra Permutation Sorted.
From BZ Require Import Base.Ops Gen.Point Gen.BBox Gen.Line Gen.Quad Gen.Cubic Hand.Bounds Hand.CurveCurve Proofs.C02 Proofs.C06 Proofs.C06sym.
Import ListNotations.
From BZ Require Proofs.Transfer3.
From BZ Require Gen.PathOps Proofs.Bridge5.
From BZ Require Proofs.Transfer4.
From BZ Require Gen.Sample Gen.CurveCurve Proofs.Bridge4.
Open Scope R_scope.

Theorem C06_range_invariant :
  forall (orig : curve R) (p0 : piece R) (k : nat) (p : piece R), Desc k p0 p -> plo p0 < phi p0 -> repr orig p0 -> repr orig p /\ phi p - plo p = (phi p0 - plo p0) / 2 ^ k /\ plo p0 <= plo p /\ plo p < phi p <= phi p0.
Proof. exact (@range_invariant). Qed.
Theorem C06_repr_whole :
  forall c : curve R, repr c (whole ROps c).
Proof. exact (@repr_whole). Qed.
Theorem C06_reported_from_small_overlapping_boxes :
  forall (K : Type) (key2 : R -> K) (keq : K -> K -> bool) (fuel : nat) (this that : piece R) (l : list (R * R)) (t1 t2 : R), cc_t ROps key2 keq fuel this that = Ok l -> In (t1, t2) l -> exists (k : nat) (p q : piece R) (b1 b2 : bbox R), Desc k this p /\ Desc k that q /\ curve_bounds ROps (pc p) = Some b1 /\ curve_bounds ROps (pc q) = Some b2 /\ BBox_overlaps ROps b1 b2 = true /\ BBox_area ROps b1 < 1 / 1000 /\ BBox_area ROps b2 < 1 / 1000 /\ t1 = (plo p + phi p) / 2 /\ t2 = (plo q + phi q) / 2.
Proof. exact (@reported_from_small_overlapping_boxes). Qed.
Theorem C06_report_distance_bound :
  forall (K : Type) (key2 : R -> K) (keq : K -> K -> bool) (fuel : nat) (o1 o2 : curve R) (this that : piece R) (l : list (R * R)) (t1 t2 : R), plo this < phi this -> plo that < phi that -> repr o1 this -> repr o2 that -> cc_t ROps key2 keq fuel this that = Ok l -> In (t1, t2) l -> exists (k : nat) (p q : piece R) (b1 b2 : bbox R), Desc k this p /\ Desc k that q /\ curve_bounds ROps (pc p) = Some b1 /\ curve_bounds ROps (pc q) = Some b2 /\ BBox_area ROps b1 < 1 / 1000 /\ BBox_area ROps b2 < 1 / 1000 /\ t1 = (plo p + phi p) / 2 /\ t2 = (plo q + phi q) / 2 /\ Rabs (px (curve_point ROps o1 t1) - px (curve_point ROps o2 t2)) <= px (tr b1) - px (bl b1) + (px (tr b2) - px (bl b2)) + sigma (curve_ext px (pc p)) + sigma (curve_ext px (pc q)) /\ Rabs (py (curve_point ROps o1 t1) - py (curve_point ROps o2 t2)) <= py (tr b1) - py (bl b1) + (py (tr b2) - py (bl b2)) + sigma (curve_ext py (pc p)) + sigma (curve_ext py (pc q)).
Proof. exact (@report_distance_bound). Qed.
Theorem C06_no_miss_modulo_enclosure :
  forall (fuel : nat) (o1 o2 : curve R) (this that : piece R) (l : list (R * R)) (s t : R), plo this < phi this -> plo that < phi that -> repr o1 this -> repr o2 that -> (forall (k : nat) (p : piece R), Desc k this p -> encloses p) -> (forall (k : nat) (q : piece R), Desc k that q -> encloses q) -> plo this <= s <= phi this -> plo that <= t <= phi that -> curve_point ROps o1 s = curve_point ROps o2 t -> cc_raw ROps fuel this that = Ok l -> exists (k : nat) (p q : piece R), Desc k this p /\ Desc k that q /\ plo p <= s <= phi p /\ plo q <= t <= phi q /\ In ((plo p + phi p) / 2, (plo q + phi q) / 2) l.
Proof. exact (@no_miss_modulo_enclosure). Qed.
Theorem C06_no_miss_within_half_range :
  forall (fuel : nat) (o1 o2 : curve R) (this that : piece R) (l : list (R * R)) (s t : R), plo this < phi this -> plo that < phi that -> repr o1 this -> repr o2 that -> (forall (k : nat) (p : piece R), Desc k this p -> encloses p) -> (forall (k : nat) (q : piece R), Desc k that q -> encloses q) -> plo this <= s <= phi this -> plo that <= t <= phi that -> curve_point ROps o1 s = curve_point ROps o2 t -> cc_raw ROps fuel this that = Ok l -> exists (k : nat) (t1 t2 : R), In (t1, t2) l /\ Rabs (t1 - s) <= (phi this - plo this) / 2 ^ S k /\ Rabs (t2 - t) <= (phi that - plo that) / 2 ^ S k.
Proof. exact (@no_miss_within_half_range). Qed.
Theorem C06_sliver_free_encloses :
  forall p : piece R, sliver_free (pc p) -> encloses p.
Proof. exact (@sliver_free_encloses). Qed.
Theorem C06_dedup_one_per_key :
  forall (T K : Type) (key2 : T -> K) (keq : K -> K -> bool) (l : list (T * T)), subseq (dedup key2 keq [] l) l /\ (forall (pre : list (T * T)) (x : T * T) (post : list (T * T)), dedup key2 keq [] l = pre ++ x :: post -> forall y : T * T, In y pre -> keq (key2 (fst x)) (key2 (fst y)) = false) /\ (forall (l1 : list (T * T)) (x : T * T) (l2 : list (T * T)), l = l1 ++ x :: l2 -> (forall y : T * T, In y l1 -> keq (key2 (fst x)) (key2 (fst y)) = false) -> In x (dedup key2 keq [] l)) /\ (forall x : T * T, In x l -> In x (dedup key2 keq [] l) \/ (exists y : T * T, In y (dedup key2 keq [] l) /\ keq (key2 (fst x)) (key2 (fst y)) = true)).
Proof. exact (@dedup_one_per_key). Qed.
Theorem C06_raw_report_survives_by_key :
  forall (K : Type) (key2 : R -> K) (keq : K -> K -> bool), (forall a : K, keq a a = true) -> (forall a b c : K, keq a b = true -> keq b c = true -> keq a c = true) -> forall (fuel : nat) (this that : piece R) (lr : list (R * R)), cc_raw ROps fuel this that = Ok lr -> exists l : list (R * R), cc_t ROps key2 keq fuel this that = Ok l /\ (forall x : R * R, In x l -> In x lr) /\ (forall x : R * R, In x lr -> exists y : R * R, In y l /\ keq (key2 (fst x)) (key2 (fst y)) = true).
Proof. exact (@raw_report_survives_by_key). Qed.
Theorem C06_cc_error_is_fuel :
  forall (K : Type) (key2 : R -> K) (keq : K -> K -> bool) (fuel : nat) (this that : piece R) (e : cc_error), plo this < phi this -> plo that < phi that -> cc_t ROps key2 keq fuel this that = Err e -> e = OutOfFuel.
Proof. exact (@cc_error_is_fuel). Qed.
Theorem C06_hasLoop_double_point :
  forall (c : seg4 R) (t1 t2 : R), Cubic_hasLoop ROps c = Some (t1, t2) -> t1 <> t2 /\ Cubic_pointAtTime ROps c t1 = Cubic_pointAtTime ROps c t2.
Proof. exact (@hasLoop_double_point). Qed.
Theorem C06_hasLoop_false_iff_disc_nonneg :
  forall c : seg4 R, Cubic_hasLoop ROps c = None <-> 0 <= loop_disc c.
Proof. exact (@hasLoop_false_iff_disc_nonneg). Qed.
Theorem C06_hasLoop_some_iff_disc_neg :
  forall c : seg4 R, (exists t1 t2 : R, Cubic_hasLoop ROps c = Some (t1, t2)) <-> loop_disc c < 0.
Proof. exact (@hasLoop_some_iff_disc_neg). Qed.
Theorem C06_intersections_curves_spec :
  forall (K : Type) (key2 : R -> K) (keq : K -> K -> bool) (fuel : nat) (self other : segment R) (c1 c2 : curve R) (limited : bool), as_curve self = Some c1 -> as_curve other = Some c2 -> intersections ROps key2 keq fuel self other limited = (let '(a, b) := if swapped self other then (c2, c1) else (c1, c2) in bind (cc_t ROps key2 keq fuel (whole ROps a) (whole ROps b)) (fun lt : list (R * R) => let l := map (fun t : R * R => (fst t, curve_point ROps a (fst t), snd t)) lt in Ok (if limited then filter (fun i : R * pt R * R => within_range ROps (fst (fst i)) && within_range ROps (snd i)) l else l))).
Proof. exact (@intersections_curves_spec). Qed.
Theorem C06_intersections_curves_reports :
  forall (K : Type) (key2 : R -> K) (keq : K -> K -> bool) (fuel : nat) (self other : segment R) (c1 c2 : curve R) (l : list (R * pt R * R)) (t1 : R) (pnt : pt R) (t2 : R), as_curve self = Some c1 -> as_curve other = Some c2 -> intersections ROps key2 keq fuel self other true = Ok l -> In (t1, pnt, t2) l -> exists (a b : curve R) (lt : list (R * R)), (a, b) = (if swapped self other then (c2, c1) else (c1, c2)) /\ cc_t ROps key2 keq fuel (whole ROps a) (whole ROps b) = Ok lt /\ In (t1, t2) lt /\ pnt = curve_point ROps a t1 /\ 2 / 10000000 <= t1 <= 1 + 2 / 10000000 /\ 2 / 10000000 <= t2 <= 1 + 2 / 10000000.
Proof. exact (@intersections_curves_reports). Qed.
Theorem C06_selfintersections_pairs :
  forall (K : Type) (key2 : R -> K) (keq : K -> K -> bool) (fuel : nat) (segs : list (segment R)) (l : list (nat * nat * (R * pt R * R))), self_intersections ROps key2 keq fuel segs = Ok l -> l = loop_reports ROps 0 segs ++ pairs_spec key2 keq fuel segs /\ (forall (i1 i2 : nat) (s1 s2 : segment R), (i1 < i2)%nat -> nth_error segs i1 = Some s1 -> nth_error segs i2 = Some s2 -> exists li : list (R * pt R * R), intersections ROps key2 keq fuel s1 s2 true = Ok li).
Proof. exact (@selfintersections_pairs). Qed.
Theorem C06_pair_block_in :
  forall (K : Type) (key2 : R -> K) (keq : K -> K -> bool) (fuel : nat) (segs : list (segment R)) (i1 i2 a b : nat) (i : R * pt R * R), In (a, b, i) (pair_block key2 keq fuel segs i1 i2) <-> (exists (s1 s2 : segment R) (li : list (R * pt R * R)), nth_error segs i1 = Some s1 /\ nth_error segs i2 = Some s2 /\ intersections ROps key2 keq fuel s1 s2 true = Ok li /\ In i li /\ 1 / 100 < fst (fst i) < 1 - 1 / 100 /\ (a, b) = (if swapped s1 s2 then (i2, i1) else (i1, i2))).
Proof. exact (@pair_block_in). Qed.
Theorem C06_loop_report_in :
  forall (i : nat) (s : segment R) (a b : nat) (t1 : R) (pnt : pt R) (t2 : R), In (a, b, (t1, pnt, t2)) (loop_report ROps i s) <-> (exists c : seg4 R, s = SCubic c /\ Cubic_hasLoop ROps c = Some (t1, t2) /\ 0 < t1 < 1 /\ 0 < t2 < 1 /\ a = i /\ b = i /\ pnt = Cubic_pointAtTime ROps c t1).
Proof. exact (@loop_report_in). Qed.
Theorem C06_hasLoop_example_loop :
  loop_disc {| c0 := {| px := 0; py := 0 |}; c1 := {| px := 150; py := 100 |}; c2 := {| px := -50; py := 100 |}; c3 := {| px := 100; py := 0 |} |} < 0.
Proof. exact (@hasLoop_example_loop). Qed.
Theorem C06_hasLoop_example_noloop :
  Cubic_hasLoop ROps {| c0 := {| px := 0; py := 0 |}; c1 := {| px := 100; py := 100 |}; c2 := {| px := 0; py := 100 |}; c3 := {| px := 100; py := 0 |} |} = None.
Proof. exact (@hasLoop_example_noloop). Qed.
Theorem C06_no_miss_example :
  forall (fuel : nat) (l : list (R * R)), cc_raw ROps fuel (whole ROps (CQuad ex_a)) (whole ROps (CQuad ex_b)) = Ok l -> exists (k : nat) (t1 t2 : R), In (t1, t2) l /\ Rabs (t1 - 1 / 2) <= 1 / 2 ^ S k /\ Rabs (t2 - 1 / 2) <= 1 / 2 ^ S k.
Proof. exact (@no_miss_example). Qed.
Theorem C06_quantitative_clause_refuted :
  Cubic_pointAtTime ROps rf_a (1 / 10) = Cubic_pointAtTime ROps rf_b (1 / 2) /\ (forall (K : Type) (key2 : R -> K) (keq : K -> K -> bool) (fuel : nat), cc_t ROps key2 keq (S fuel) (whole ROps (CCubic rf_a)) (whole ROps (CCubic rf_b)) = Ok [(1 / 2, 1 / 2)] /\ px (Cubic_pointAtTime ROps rf_a (1 / 2)) - px (Cubic_pointAtTime ROps rf_b (1 / 2)) = 40 /\ px (Cubic_pointAtTime ROps rf_a (1 / 2)) - px (Cubic_pointAtTime ROps rf_a (1 / 10)) = 40).
Proof. exact (@quantitative_clause_refuted). Qed.
Theorem C06_cc_raw_sym_R_ok :
  forall fuel (a b : piece R) (l : list (R * R)), cc_raw ROps fuel a b = Ok l -> exists l', cc_raw ROps fuel b a = Ok l' /\ Permutation (map swap_pair l) l'.
Proof. exact cc_raw_sym_R_ok. Qed.
Theorem C06_cc_raw_sym_R_err :
  forall fuel (a b : piece R) (e : cc_error), cc_raw ROps fuel a b = Err e -> cc_raw ROps fuel b a = Err e.
Proof. exact cc_raw_sym_R_err. Qed.
Theorem C06_intersections_raw_sym_R :
  forall fuel (c1 c2 : curve R) limited (l : list (R * pt R * R)), order (seg_of c1) = order (seg_of c2) -> intersections ROps (fun _ : R => tt) (fun _ _ : unit => false) fuel (seg_of c1) (seg_of c2) limited = Ok l -> exists l', intersections ROps (fun _ : R => tt) (fun _ _ : unit => false) fuel (seg_of c2) (seg_of c1) limited = Ok l' /\ Permutation (map (flip_ix ROps c2) l) l' /\ Permutation (map swap_pair (map (fun i : R * pt R * R => (fst (fst i), snd i)) l)) (map (fun i : R * pt R * R => (fst (fst i), snd i)) l').
Proof. exact intersections_raw_sym_R. Qed.
Theorem C06_dedup_order_dependence_witness :
  cc_raw FOps 60 (whole FOps (CQuad wa)) (whole FOps (CQuad wb)) = Ok [(0x1.ffp-2, 0x1.7ap-3); (0x1.008p-1, 0x1.a18p-1)]%float /\ cc_raw FOps 60 (whole FOps (CQuad wb)) (whole FOps (CQuad wa)) = Ok [(0x1.7ap-3, 0x1.ffp-2); (0x1.a18p-1, 0x1.008p-1)]%float /\ cc_t FOps key2F keyF_eqb 60 (whole FOps (CQuad wa)) (whole FOps (CQuad wb)) = Ok [(0x1.ffp-2, 0x1.7ap-3)]%float /\ cc_t FOps key2F keyF_eqb 60 (whole FOps (CQuad wb)) (whole FOps (CQuad wa)) = Ok [(0x1.7ap-3, 0x1.ffp-2); (0x1.a18p-1, 0x1.008p-1)]%float /\ keyF_eqb (key2F 0x1.ffp-2%float) (key2F 0x1.008p-1%float) = true /\ (exists i1, intersections FOps key2F keyF_eqb 60 (SQuad wa) (SQuad wb) true = Ok [i1]) /\ (exists j1 j2, intersections FOps key2F keyF_eqb 60 (SQuad wb) (SQuad wa) true = Ok [j1; j2]).
Proof. exact dedup_order_dependence_witness. Qed.
Theorem C06_dedup_count_symmetry_refuted :
  ~ (forall (fuel : nat) (a b : piece float) (l l' : list (float * float)), cc_t FOps key2F keyF_eqb fuel a b = Ok l -> cc_t FOps key2F keyF_eqb fuel b a = Ok l' -> length l = length l').
Proof. exact dedup_count_symmetry_refuted. Qed.
Theorem C06_dedup_swap_membership_refuted :
  ~ (forall (fuel : nat) (a b : piece float) (l l' : list (float * float)) (x : float * float), cc_t FOps key2F keyF_eqb fuel a b = Ok l -> cc_t FOps key2F keyF_eqb fuel b a = Ok l' -> In x l -> exists y, In y l' /\ PrimFloat.eqb (fst y) (snd x) = true /\ PrimFloat.eqb (snd y) (fst x) = true).
Proof. exact dedup_swap_membership_refuted. Qed.
Theorem C06_raw_sym_example :
  exists l l', cc_raw FOps 60 (whole FOps (CQuad na)) (whole FOps (CQuad nb)) = Ok l /\ cc_raw FOps 60 (whole FOps (CQuad nb)) (whole FOps (CQuad na)) = Ok l' /\ l <> [] /\ l' <> [] /\ Permutation (map swap_pair l) l'.
Proof. exact raw_sym_example. Qed.
Theorem C06_cc_raw_sym_any_carrier :
  forall (T : Type) (O : Ops T) fuel (a b : piece T) l, cc_raw O fuel a b = Ok l -> exists l', cc_raw O fuel b a = Ok l' /\ Permutation (map swap_pair l) l'.
Proof. exact @cc_raw_sym_ok. Qed.
Theorem C06_cc_raw_sym_in :
  forall (T : Type) (O : Ops T) fuel (a b : piece T) l l' t1 t2, cc_raw O fuel a b = Ok l -> cc_raw O fuel b a = Ok l' -> (In (t1, t2) l <-> In (t2, t1) l').
Proof. exact @cc_raw_sym_in. Qed.
Theorem C06_intersections_mixed_degree_eq :
  forall (T : Type) (O : Ops T) (K : Type) (key2 : T -> K) (keq : K -> K -> bool) fuel (self other : segment T) limited, order self <> order other -> intersections O key2 keq fuel self other limited = intersections O key2 keq fuel other self limited.
Proof. exact @intersections_mixed_degree_eq. Qed.
Theorem C06_cc_err_sym :
  forall (K : Type) (key2 : R -> K) (keq : K -> K -> bool), (forall a, keq a a = true) -> (forall a b c, keq a b = true -> keq b c = true -> keq a c = true) -> forall fuel a b e, cc_t ROps key2 keq fuel a b = Err e -> cc_t ROps key2 keq fuel b a = Err e.
Proof. exact @cc_err_sym. Qed.
Theorem C06_cc_dedup_sym :
  forall (K : Type) (key2 : R -> K) (keq : K -> K -> bool), (forall a, keq a a = true) -> (forall a b c, keq a b = true -> keq b c = true -> keq a c = true) -> forall fuel a b l, cc_t ROps key2 keq fuel a b = Ok l -> exists lr lr' l', cc_raw ROps fuel a b = Ok lr /\ cc_raw ROps fuel b a = Ok lr' /\ cc_t ROps key2 keq fuel b a = Ok l' /\ Permutation (map swap_pair lr) lr' /\ (forall x, In x l -> In x lr) /\ (forall x, In x l' -> In x lr') /\ (forall x, In x l -> In (swap_pair x) lr') /\ (forall x, In x l' -> In (swap_pair x) lr) /\ (forall x, In x lr -> exists y, In y l /\ keq (key2 (fst x)) (key2 (fst y)) = true) /\ (forall x, In x lr' -> exists y, In y l' /\ keq (key2 (fst x)) (key2 (fst y)) = true) /\ (forall t1 t2, In (t1, t2) l -> exists u v, In (u, v) l' /\ keq (key2 t2) (key2 u) = true /\ In (v, u) lr).
Proof. exact @cc_dedup_sym. Qed.
Theorem C06_cc_t_QQ_gen :
  forall (T : Type) (O : Ops T) (K : Type) (key2 : T -> K) (keq : K -> K -> bool) (fuel : nat) (a b : seg3 T) (lo hi lo' hi' : T), Bridge4.result_of (CurveCurve.Quad__curve_curve_intersections_t_Quad O key2 keq fuel {| CurveCurve.rg_seg := a; CurveCurve.rg_lo := lo; CurveCurve.rg_hi := hi |} {| CurveCurve.rg_seg := b; CurveCurve.rg_lo := lo'; CurveCurve.rg_hi := hi' |}) = cc_t O key2 (Bridge4.flip keq) fuel {| pc := CQuad a; plo := lo; phi := hi |} {| pc := CQuad b; plo := lo'; phi := hi' |}.
Proof. exact @Bridge4.cc_t_QQ_gen. Qed.
Theorem C06_cc_t_QC_gen :
  forall (T : Type) (O : Ops T) (K : Type) (key2 : T -> K) (keq : K -> K -> bool) (fuel : nat) (a : seg3 T) (b : seg4 T) (lo hi lo' hi' : T), Bridge4.result_of (CurveCurve.Quad__curve_curve_intersections_t_Cubic O key2 keq fuel {| CurveCurve.rg_seg := a; CurveCurve.rg_lo := lo; CurveCurve.rg_hi := hi |} {| CurveCurve.rg_seg := b; CurveCurve.rg_lo := lo'; CurveCurve.rg_hi := hi' |}) = cc_t O key2 (Bridge4.flip keq) fuel {| pc := CQuad a; plo := lo; phi := hi |} {| pc := CCubic b; plo := lo'; phi := hi' |}.
Proof. exact @Bridge4.cc_t_QC_gen. Qed.
Theorem C06_cc_t_CQ_gen :
  forall (T : Type) (O : Ops T) (K : Type) (key2 : T -> K) (keq : K -> K -> bool) (fuel : nat) (a : seg4 T) (b : seg3 T) (lo hi lo' hi' : T), Bridge4.result_of (CurveCurve.Cubic__curve_curve_intersections_t_Quad O key2 keq fuel {| CurveCurve.rg_seg := a; CurveCurve.rg_lo := lo; CurveCurve.rg_hi := hi |} {| CurveCurve.rg_seg := b; CurveCurve.rg_lo := lo'; CurveCurve.rg_hi := hi' |}) = cc_t O key2 (Bridge4.flip keq) fuel {| pc := CCubic a; plo := lo; phi := hi |} {| pc := CQuad b; plo := lo'; phi := hi' |}.
Proof. exact @Bridge4.cc_t_CQ_gen. Qed.
Theorem C06_cc_t_CC_gen :
  forall (T : Type) (O : Ops T) (K : Type) (key2 : T -> K) (keq : K -> K -> bool) (fuel : nat) (a b : seg4 T) (lo hi lo' hi' : T), Bridge4.result_of (CurveCurve.Cubic__curve_curve_intersections_t_Cubic O key2 keq fuel {| CurveCurve.rg_seg := a; CurveCurve.rg_lo := lo; CurveCurve.rg_hi := hi |} {| CurveCurve.rg_seg := b; CurveCurve.rg_lo := lo'; CurveCurve.rg_hi := hi' |}) = cc_t O key2 (Bridge4.flip keq) fuel {| pc := CCubic a; plo := lo; phi := hi |} {| pc := CCubic b; plo := lo'; phi := hi' |}.
Proof. exact @Bridge4.cc_t_CC_gen. Qed.
Theorem C06_cci_QQ_gen :
  forall (T : Type) (O : Ops T) (K : Type) (key2 : T -> K) (keq : K -> K -> bool) (fuel : nat) (a b : seg3 T), Bridge4.result_of (CurveCurve.Quad__curve_curve_intersections_Quad O key2 keq fuel a b) = curve_curve_intersections O key2 (Bridge4.flip keq) fuel (CQuad a) (CQuad b).
Proof. exact @Bridge4.cci_QQ_gen. Qed.
Theorem C06_cci_QC_gen :
  forall (T : Type) (O : Ops T) (K : Type) (key2 : T -> K) (keq : K -> K -> bool) (fuel : nat) (a : seg3 T) (b : seg4 T), Bridge4.result_of (CurveCurve.Quad__curve_curve_intersections_Cubic O key2 keq fuel a b) = curve_curve_intersections O key2 (Bridge4.flip keq) fuel (CQuad a) (CCubic b).
Proof. exact @Bridge4.cci_QC_gen. Qed.
Theorem C06_cci_CQ_gen :
  forall (T : Type) (O : Ops T) (K : Type) (key2 : T -> K) (keq : K -> K -> bool) (fuel : nat) (a : seg4 T) (b : seg3 T), Bridge4.result_of (CurveCurve.Cubic__curve_curve_intersections_Quad O key2 keq fuel a b) = curve_curve_intersections O key2 (Bridge4.flip keq) fuel (CCubic a) (CQuad b).
Proof. exact @Bridge4.cci_CQ_gen. Qed.
Theorem C06_cci_CC_gen :
  forall (T : Type) (O : Ops T) (K : Type) (key2 : T -> K) (keq : K -> K -> bool) (fuel : nat) (a b : seg4 T), Bridge4.result_of (CurveCurve.Cubic__curve_curve_intersections_Cubic O key2 keq fuel a b) = curve_curve_intersections O key2 (Bridge4.flip keq) fuel (CCubic a) (CCubic b).
Proof. exact @Bridge4.cci_CC_gen. Qed.
Theorem C06_intersections_QQ_gen :
  forall (T : Type) (O : Ops T) (K : Type) (key2 : T -> K) (keq : K -> K -> bool) (fuel : nat) (a b : seg3 T) (limited : bool), Bridge4.result_of (CurveCurve.Quad_intersections_Quad O key2 keq fuel a b limited) = intersections O key2 (Bridge4.flip keq) fuel (SQuad a) (SQuad b) limited.
Proof. exact @Bridge4.intersections_QQ_gen. Qed.
Theorem C06_intersections_QC_gen :
  forall (T : Type) (O : Ops T) (K : Type) (key2 : T -> K) (keq : K -> K -> bool) (fuel : nat) (a : seg3 T) (b : seg4 T) (limited : bool), Bridge4.result_of (CurveCurve.Quad_intersections_Cubic O key2 keq fuel a b limited) = intersections O key2 (Bridge4.flip keq) fuel (SQuad a) (SCubic b) limited.
Proof. exact @Bridge4.intersections_QC_gen. Qed.
Theorem C06_intersections_CQ_gen :
  forall (T : Type) (O : Ops T) (K : Type) (key2 : T -> K) (keq : K -> K -> bool) (fuel : nat) (a : seg4 T) (b : seg3 T) (limited : bool), Bridge4.result_of (CurveCurve.Cubic_intersections_Quad O key2 keq fuel a b limited) = intersections O key2 (Bridge4.flip keq) fuel (SCubic a) (SQuad b) limited.
Proof. exact @Bridge4.intersections_CQ_gen. Qed.
Theorem C06_intersections_CC_gen :
  forall (T : Type) (O : Ops T) (K : Type) (key2 : T -> K) (keq : K -> K -> bool) (fuel : nat) (a b : seg4 T) (limited : bool), Bridge4.result_of (CurveCurve.Cubic_intersections_Cubic O key2 keq fuel a b limited) = intersections O key2 (Bridge4.flip keq) fuel (SCubic a) (SCubic b) limited.
Proof. exact @Bridge4.intersections_CC_gen. Qed.
Theorem C06_intersections_LL_gen :
  forall (T : Type) (O : Ops T) (K : Type) (key2 : T -> K) (keq : K -> K -> bool) (fuel : nat) (a b : seg2 T) (limited : bool), Ok (CurveCurve.Line_intersections_Line O a b limited) = intersections O key2 (Bridge4.flip keq) fuel (SLine a) (SLine b) limited.
Proof. exact @Bridge4.intersections_LL_gen. Qed.
Theorem C06_intersections_LQ_gen :
  forall (T : Type) (O : Ops T) (K : Type) (key2 : T -> K) (keq : K -> K -> bool) (fuel : nat) (a : seg2 T) (b : seg3 T) (limited : bool), Ok (CurveCurve.Line_intersections_Quad O a b limited) = intersections O key2 (Bridge4.flip keq) fuel (SLine a) (SQuad b) limited.
Proof. exact @Bridge4.intersections_LQ_gen. Qed.
Theorem C06_intersections_LC_gen :
  forall (T : Type) (O : Ops T) (K : Type) (key2 : T -> K) (keq : K -> K -> bool) (fuel : nat) (a : seg2 T) (b : seg4 T) (limited : bool), Ok (CurveCurve.Line_intersections_Cubic O a b limited) = intersections O key2 (Bridge4.flip keq) fuel (SLine a) (SCubic b) limited.
Proof. exact @Bridge4.intersections_LC_gen. Qed.
Theorem C06_intersections_QL_gen :
  forall (T : Type) (O : Ops T) (K : Type) (key2 : T -> K) (keq : K -> K -> bool) (fuel : nat) (a : seg3 T) (b : seg2 T) (limited : bool), Ok (CurveCurve.Quad_intersections_Line O a b limited) = intersections O key2 (Bridge4.flip keq) fuel (SQuad a) (SLine b) limited.
Proof. exact @Bridge4.intersections_QL_gen. Qed.
Theorem C06_intersections_CL_gen :
  forall (T : Type) (O : Ops T) (K : Type) (key2 : T -> K) (keq : K -> K -> bool) (fuel : nat) (a : seg4 T) (b : seg2 T) (limited : bool), Ok (CurveCurve.Cubic_intersections_Line O a b limited) = intersections O key2 (Bridge4.flip keq) fuel (SCubic a) (SLine b) limited.
Proof. exact @Bridge4.intersections_CL_gen. Qed.
Theorem C06_cc_t_CC_gen_sym :
  forall (T : Type) (O : Ops T) (K : Type) (key2 : T -> K) (keq : K -> K -> bool), (forall x y : K, keq x y = keq y x) -> forall (fuel : nat) (a b : seg4 T) (lo hi lo' hi' : T), Bridge4.result_of (CurveCurve.Cubic__curve_curve_intersections_t_Cubic O key2 keq fuel {| CurveCurve.rg_seg := a; CurveCurve.rg_lo := lo; CurveCurve.rg_hi := hi |} {| CurveCurve.rg_seg := b; CurveCurve.rg_lo := lo'; CurveCurve.rg_hi := hi' |}) = cc_t O key2 keq fuel {| pc := CCubic a; plo := lo; phi := hi |} {| pc := CCubic b; plo := lo'; phi := hi' |}.
Proof. exact @Bridge4.cc_t_CC_gen_sym. Qed.
Theorem C06_intersections_CC_gen_sym :
  forall (T : Type) (O : Ops T) (K : Type) (key2 : T -> K) (keq : K -> K -> bool), (forall x y : K, keq x y = keq y x) -> forall (fuel : nat) (a b : seg4 T) (limited : bool), Bridge4.result_of (CurveCurve.Cubic_intersections_Cubic O key2 keq fuel a b limited) = intersections O key2 keq fuel (SCubic a) (SCubic b) limited.
Proof. exact @Bridge4.intersections_CC_gen_sym. Qed.
Theorem C06_keyF_eqb_sym :
  forall x y : Z * Z, keyF_eqb x y = keyF_eqb y x.
Proof. exact @Bridge4.keyF_eqb_sym. Qed.
Theorem C06_cc_t_CC_gen_float :
  forall (fuel : nat) (a b : seg4 float) (lo hi lo' hi' : float), Bridge4.result_of (CurveCurve.Cubic__curve_curve_intersections_t_Cubic FOps key2F keyF_eqb fuel {| CurveCurve.rg_seg := a; CurveCurve.rg_lo := lo; CurveCurve.rg_hi := hi |} {| CurveCurve.rg_seg := b; CurveCurve.rg_lo := lo'; CurveCurve.rg_hi := hi' |}) = cc_t FOps key2F keyF_eqb fuel {| pc := CCubic a; plo := lo; phi := hi |} {| pc := CCubic b; plo := lo'; phi := hi' |}.
Proof. exact @Bridge4.cc_t_CC_gen_float. Qed.
Theorem C06_intersections_CC_gen_float :
  forall (fuel : nat) (a b : seg4 float) (limited : bool), Bridge4.result_of (CurveCurve.Cubic_intersections_Cubic FOps key2F keyF_eqb fuel a b limited) = intersections FOps key2F keyF_eqb fuel (SCubic a) (SCubic b) limited.
Proof. exact @Bridge4.intersections_CC_gen_float. Qed.
Theorem C06_gen_cc_t_QQ_outcomes :
  forall (K : Type) (key2 : R -> K) (keq : K -> K -> bool) (fuel : nat) (a b : seg3 R) (lo hi lo' hi' : R), (lo < hi)%R -> (lo' < hi')%R -> Transfer4.value_or_fuel (CurveCurve.Quad__curve_curve_intersections_t_Quad ROps key2 keq fuel {| CurveCurve.rg_seg := a; CurveCurve.rg_lo := lo; CurveCurve.rg_hi := hi |} {| CurveCurve.rg_seg := b; CurveCurve.rg_lo := lo'; CurveCurve.rg_hi := hi' |}).
Proof. exact @Transfer4.gen_cc_t_QQ_outcomes. Qed.
Theorem C06_gen_cc_t_QC_outcomes :
  forall (K : Type) (key2 : R -> K) (keq : K -> K -> bool) (fuel : nat) (a : seg3 R) (b : seg4 R) (lo hi lo' hi' : R), (lo < hi)%R -> (lo' < hi')%R -> Transfer4.value_or_fuel (CurveCurve.Quad__curve_curve_intersections_t_Cubic ROps key2 keq fuel {| CurveCurve.rg_seg := a; CurveCurve.rg_lo := lo; CurveCurve.rg_hi := hi |} {| CurveCurve.rg_seg := b; CurveCurve.rg_lo := lo'; CurveCurve.rg_hi := hi' |}).
Proof. exact @Transfer4.gen_cc_t_QC_outcomes. Qed.
Theorem C06_gen_cc_t_CQ_outcomes :
  forall (K : Type) (key2 : R -> K) (keq : K -> K -> bool) (fuel : nat) (a : seg4 R) (b : seg3 R) (lo hi lo' hi' : R), (lo < hi)%R -> (lo' < hi')%R -> Transfer4.value_or_fuel (CurveCurve.Cubic__curve_curve_intersections_t_Quad ROps key2 keq fuel {| CurveCurve.rg_seg := a; CurveCurve.rg_lo := lo; CurveCurve.rg_hi := hi |} {| CurveCurve.rg_seg := b; CurveCurve.rg_lo := lo'; CurveCurve.rg_hi := hi' |}).
Proof. exact @Transfer4.gen_cc_t_CQ_outcomes. Qed.
Theorem C06_gen_cc_t_CC_outcomes :
  forall (K : Type) (key2 : R -> K) (keq : K -> K -> bool) (fuel : nat) (a b : seg4 R) (lo hi lo' hi' : R), (lo < hi)%R -> (lo' < hi')%R -> Transfer4.value_or_fuel (CurveCurve.Cubic__curve_curve_intersections_t_Cubic ROps key2 keq fuel {| CurveCurve.rg_seg := a; CurveCurve.rg_lo := lo; CurveCurve.rg_hi := hi |} {| CurveCurve.rg_seg := b; CurveCurve.rg_lo := lo'; CurveCurve.rg_hi := hi' |}).
Proof. exact @Transfer4.gen_cc_t_CC_outcomes. Qed.
Theorem C06_getSelfIntersections_gen :
  forall (T : Type) (O : Ops T) (K : Type) (key2 : T -> K) (keq : K -> K -> bool) (fuel : nat) (d : segment T) (segs : list (segment T)), Bridge4.result_of (PathOps.Path_getSelfIntersections O key2 keq fuel segs) = bind (self_intersections O key2 (Bridge4.flip keq) fuel segs) (fun l : list sx => Ok (map (Bridge5.resolve d segs) l)).
Proof. exact @Bridge5.getSelfIntersections_gen. Qed.
Theorem C06_getSelfIntersections_gen_sym :
  forall (T : Type) (O : Ops T) (K : Type) (key2 : T -> K) (keq : K -> K -> bool) (fuel : nat) (d : segment T) (segs : list (segment T)), (forall x y : K, keq x y = keq y x) -> Bridge4.result_of (PathOps.Path_getSelfIntersections O key2 keq fuel segs) = bind (self_intersections O key2 keq fuel segs) (fun l : list sx => Ok (map (Bridge5.resolve d segs) l)).
Proof. exact @Bridge5.getSelfIntersections_gen_sym. Qed.
Theorem C06_self_intersections_indices :
  forall (T : Type) (O : Ops T) (K : Type) (key2 : T -> K) (keq : K -> K -> bool) (fuel : nat) (segs : list (segment T)) (l : list sx), self_intersections O key2 (Bridge4.flip keq) fuel segs = Ok l -> Forall (fun x : nat * nat * (T * pt T * T) => (fst (fst x) < length segs)%nat /\ (snd (fst x) < length segs)%nat) l.
Proof. exact @Bridge5.self_intersections_indices. Qed.
Theorem C06_getSelfIntersections_gen_float :
  forall (fuel : nat) (d : segment float) (segs : list (segment float)), Bridge4.result_of (PathOps.Path_getSelfIntersections FOps key2F keyF_eqb fuel segs) = bind (self_intersections FOps key2F keyF_eqb fuel segs) (fun l : list sx => Ok (map (Bridge5.resolve d segs) l)).
Proof. exact @Bridge5.getSelfIntersections_gen_float. Qed.
Theorem C06_gen_cc_t_CC_reported_from_small_overlapping_boxes :
  forall (K : Type) (key2 : R -> K) (keq : K -> K -> bool) (fuel : nat) (a b : seg4 R) (lo hi lo' hi' : R) (l : list (R * R)) (t1 t2 : R), CurveCurve.Cubic__curve_curve_intersections_t_Cubic ROps key2 keq fuel {| CurveCurve.rg_seg := a; CurveCurve.rg_lo := lo; CurveCurve.rg_hi := hi |} {| CurveCurve.rg_seg := b; CurveCurve.rg_lo := lo'; CurveCurve.rg_hi := hi' |} = Some (Sample.Returns l) -> In (t1, t2) l -> Transfer3.C06T.from_small_boxes {| pc := CCubic a; plo := lo; phi := hi |} {| pc := CCubic b; plo := lo'; phi := hi' |} t1 t2.
Proof. exact @Transfer3.C06T.gen_cc_t_CC_reported_from_small_overlapping_boxes. Qed.
Theorem C06_gen_cc_t_CC_report_distance_bound :
  forall (K : Type) (key2 : R -> K) (keq : K -> K -> bool) (fuel : nat) (o1 o2 : curve R) (a b : seg4 R) (lo hi lo' hi' : R) (l : list (R * R)) (t1 t2 : R), (lo < hi)%R -> (lo' < hi')%R -> repr o1 {| pc := CCubic a; plo := lo; phi := hi |} -> repr o2 {| pc := CCubic b; plo := lo'; phi := hi' |} -> CurveCurve.Cubic__curve_curve_intersections_t_Cubic ROps key2 keq fuel {| CurveCurve.rg_seg := a; CurveCurve.rg_lo := lo; CurveCurve.rg_hi := hi |} {| CurveCurve.rg_seg := b; CurveCurve.rg_lo := lo'; CurveCurve.rg_hi := hi' |} = Some (Sample.Returns l) -> In (t1, t2) l -> Transfer3.C06T.distance_bounded o1 o2 {| pc := CCubic a; plo := lo; phi := hi |} {| pc := CCubic b; plo := lo'; phi := hi' |} t1 t2.
Proof. exact @Transfer3.C06T.gen_cc_t_CC_report_distance_bound. Qed.
Theorem C06_gen_cc_t_CC_no_miss_within_half_range :
  forall (fuel : nat) (o1 o2 : curve R) (a b : seg4 R) (lo hi lo' hi' : R) (l : list (R * R)) (s t : R), (lo < hi)%R -> (lo' < hi')%R -> repr o1 {| pc := CCubic a; plo := lo; phi := hi |} -> repr o2 {| pc := CCubic b; plo := lo'; phi := hi' |} -> (forall (k : nat) (p : piece R), Desc k {| pc := CCubic a; plo := lo; phi := hi |} p -> encloses p) -> (forall (k : nat) (q : piece R), Desc k {| pc := CCubic b; plo := lo'; phi := hi' |} q -> encloses q) -> (lo <= s <= hi)%R -> (lo' <= t <= hi')%R -> ceval o1 s = ceval o2 t -> CurveCurve.Cubic__curve_curve_intersections_t_Cubic ROps (fun _ : R => tt) (fun _ _ : unit => false) fuel {| CurveCurve.rg_seg := a; CurveCurve.rg_lo := lo; CurveCurve.rg_hi := hi |} {| CurveCurve.rg_seg := b; CurveCurve.rg_lo := lo'; CurveCurve.rg_hi := hi' |} = Some (Sample.Returns l) -> Transfer3.C06T.within_half_range lo hi lo' hi' s t l.
Proof. exact @Transfer3.C06T.gen_cc_t_CC_no_miss_within_half_range. Qed.
Theorem C06_gen_cc_t_CC_raw_report_survives_by_key :
  forall (K : Type) (key2 : R -> K) (keq : K -> K -> bool), (forall k : K, keq k k = true) -> (forall k1 k2 k3 : K, keq k1 k2 = true -> keq k2 k3 = true -> keq k1 k3 = true) -> forall (fuel : nat) (a b : seg4 R) (lo hi lo' hi' : R) (lr : list (R * R)), CurveCurve.Cubic__curve_curve_intersections_t_Cubic ROps (fun _ : R => tt) (fun _ _ : unit => false) fuel {| CurveCurve.rg_seg := a; CurveCurve.rg_lo := lo; CurveCurve.rg_hi := hi |} {| CurveCurve.rg_seg := b; CurveCurve.rg_lo := lo'; CurveCurve.rg_hi := hi' |} = Some (Sample.Returns lr) -> exists l : list (R * R), CurveCurve.Cubic__curve_curve_intersections_t_Cubic ROps key2 keq fuel {| CurveCurve.rg_seg := a; CurveCurve.rg_lo := lo; CurveCurve.rg_hi := hi |} {| CurveCurve.rg_seg := b; CurveCurve.rg_lo := lo'; CurveCurve.rg_hi := hi' |} = Some (Sample.Returns l) /\ Transfer3.C06T.survives_by_key key2 keq lr l.
Proof. exact @Transfer3.C06T.gen_cc_t_CC_raw_report_survives_by_key. Qed.
Theorem C06_gen_cc_t_QQ_reported_from_small_overlapping_boxes :
  forall (K : Type) (key2 : R -> K) (keq : K -> K -> bool) (fuel : nat) (a b : seg3 R) (lo hi lo' hi' : R) (l : list (R * R)) (t1 t2 : R), CurveCurve.Quad__curve_curve_intersections_t_Quad ROps key2 keq fuel {| CurveCurve.rg_seg := a; CurveCurve.rg_lo := lo; CurveCurve.rg_hi := hi |} {| CurveCurve.rg_seg := b; CurveCurve.rg_lo := lo'; CurveCurve.rg_hi := hi' |} = Some (Sample.Returns l) -> In (t1, t2) l -> Transfer3.C06T.from_small_boxes {| pc := CQuad a; plo := lo; phi := hi |} {| pc := CQuad b; plo := lo'; phi := hi' |} t1 t2.
Proof. exact @Transfer3.C06T.gen_cc_t_QQ_reported_from_small_overlapping_boxes. Qed.
Theorem C06_gen_cc_t_CQ_reported_from_small_overlapping_boxes :
  forall (K : Type) (key2 : R -> K) (keq : K -> K -> bool) (fuel : nat) (a : seg4 R) (b : seg3 R) (lo hi lo' hi' : R) (l : list (R * R)) (t1 t2 : R), CurveCurve.Cubic__curve_curve_intersections_t_Quad ROps key2 keq fuel {| CurveCurve.rg_seg := a; CurveCurve.rg_lo := lo; CurveCurve.rg_hi := hi |} {| CurveCurve.rg_seg := b; CurveCurve.rg_lo := lo'; CurveCurve.rg_hi := hi' |} = Some (Sample.Returns l) -> In (t1, t2) l -> Transfer3.C06T.from_small_boxes {| pc := CCubic a; plo := lo; phi := hi |} {| pc := CQuad b; plo := lo'; phi := hi' |} t1 t2.
Proof. exact @Transfer3.C06T.gen_cc_t_CQ_reported_from_small_overlapping_boxes. Qed.
Theorem C06_gen_cc_t_QC_reported_from_small_overlapping_boxes :
  forall (K : Type) (key2 : R -> K) (keq : K -> K -> bool) (fuel : nat) (a : seg3 R) (b : seg4 R) (lo hi lo' hi' : R) (l : list (R * R)) (t1 t2 : R), CurveCurve.Quad__curve_curve_intersections_t_Cubic ROps key2 keq fuel {| CurveCurve.rg_seg := a; CurveCurve.rg_lo := lo; CurveCurve.rg_hi := hi |} {| CurveCurve.rg_seg := b; CurveCurve.rg_lo := lo'; CurveCurve.rg_hi := hi' |} = Some (Sample.Returns l) -> In (t1, t2) l -> Transfer3.C06T.from_small_boxes {| pc := CQuad a; plo := lo; phi := hi |} {| pc := CCubic b; plo := lo'; phi := hi' |} t1 t2.
Proof. exact @Transfer3.C06T.gen_cc_t_QC_reported_from_small_overlapping_boxes. Qed.
Theorem C06_gen_cc_t_CC_report_distance_bound_whole :
  forall (K : Type) (key2 : R -> K) (keq : K -> K -> bool) (fuel : nat) (a b : seg4 R) (l : list (R * R)) (t1 t2 : R), CurveCurve.Cubic__curve_curve_intersections_t_Cubic ROps key2 keq fuel {| CurveCurve.rg_seg := a; CurveCurve.rg_lo := ofZ ROps 0; CurveCurve.rg_hi := ofZ ROps 1 |} {| CurveCurve.rg_seg := b; CurveCurve.rg_lo := ofZ ROps 0; CurveCurve.rg_hi := ofZ ROps 1 |} = Some (Sample.Returns l) -> In (t1, t2) l -> Transfer3.C06T.distance_bounded (CCubic a) (CCubic b) (whole ROps (CCubic a)) (whole ROps (CCubic b)) t1 t2.
Proof. exact @Transfer3.C06T.gen_cc_t_CC_report_distance_bound_whole. Qed.
Theorem C06_gen_intersections_CC_reports :
  forall (K : Type) (key2 : R -> K) (keq : K -> K -> bool) (fuel : nat) (a b : seg4 R) (limited : bool) (l : list (R * pt R * R)) (t1 : R) (pnt : pt R) (t2 : R), CurveCurve.Cubic_intersections_Cubic ROps key2 keq fuel a b limited = Some (Sample.Returns l) -> In (t1, pnt, t2) l -> Transfer3.C06T.from_small_boxes (whole ROps (CCubic a)) (whole ROps (CCubic b)) t1 t2 /\ pnt = Cubic_pointAtTime ROps a t1 /\ (limited = true -> Transfer3.C06T.in_window t1 /\ Transfer3.C06T.in_window t2).
Proof. exact @Transfer3.C06T.gen_intersections_CC_reports. Qed.

Print Assumptions C06_range_invariant.
Print Assumptions C06_repr_whole.
Print Assumptions C06_reported_from_small_overlapping_boxes.
Print Assumptions C06_report_distance_bound.
Print Assumptions C06_no_miss_modulo_enclosure.
Print Assumptions C06_no_miss_within_half_range.
Print Assumptions C06_sliver_free_encloses.
Print Assumptions C06_dedup_one_per_key.
Print Assumptions C06_raw_report_survives_by_key.
Print Assumptions C06_cc_error_is_fuel.
Print Assumptions C06_hasLoop_double_point.
Print Assumptions C06_hasLoop_false_iff_disc_nonneg.
Print Assumptions C06_hasLoop_some_iff_disc_neg.
Print Assumptions C06_intersections_curves_spec.
Print Assumptions C06_intersections_curves_reports.
Print Assumptions C06_selfintersections_pairs.
Print Assumptions C06_pair_block_in.
Print Assumptions C06_loop_report_in.
Print Assumptions C06_hasLoop_example_loop.
Print Assumptions C06_hasLoop_example_noloop.
Print Assumptions C06_no_miss_example.
Print Assumptions C06_quantitative_clause_refuted.
Print Assumptions C06_cc_raw_sym_R_ok.
Print Assumptions C06_cc_raw_sym_R_err.
Print Assumptions C06_intersections_raw_sym_R.
Print Assumptions C06_dedup_order_dependence_witness.
Print Assumptions C06_dedup_count_symmetry_refuted.
Print Assumptions C06_dedup_swap_membership_refuted.
Print Assumptions C06_raw_sym_example.
Print Assumptions C06_cc_raw_sym_any_carrier.
Print Assumptions C06_cc_raw_sym_in.
Print Assumptions C06_intersections_mixed_degree_eq.
Print Assumptions C06_cc_err_sym.
Print Assumptions C06_cc_dedup_sym.
Print Assumptions C06_cc_t_QQ_gen.
Print Assumptions C06_cc_t_QC_gen.
Print Assumptions C06_cc_t_CQ_gen.
Print Assumptions C06_cc_t_CC_gen.
Print Assumptions C06_cci_QQ_gen.
Print Assumptions C06_cci_QC_gen.
Print Assumptions C06_cci_CQ_gen.
Print Assumptions C06_cci_CC_gen.
Print Assumptions C06_intersections_QQ_gen.
Print Assumptions C06_intersections_QC_gen.
Print Assumptions C06_intersections_CQ_gen.
Print Assumptions C06_intersections_CC_gen.
Print Assumptions C06_intersections_LL_gen.
Print Assumptions C06_intersections_LQ_gen.
Print Assumptions C06_intersections_LC_gen.
Print Assumptions C06_intersections_QL_gen.
Print Assumptions C06_intersections_CL_gen.
Print Assumptions C06_cc_t_CC_gen_sym.
Print Assumptions C06_intersections_CC_gen_sym.
Print Assumptions C06_keyF_eqb_sym.
Print Assumptions C06_cc_t_CC_gen_float.
Print Assumptions C06_intersections_CC_gen_float.
Print Assumptions C06_gen_cc_t_QQ_outcomes.
Print Assumptions C06_gen_cc_t_QC_outcomes.
Print Assumptions C06_gen_cc_t_CQ_outcomes.
Print Assumptions C06_gen_cc_t_CC_outcomes.
Print Assumptions C06_getSelfIntersections_gen.
Print Assumptions C06_getSelfIntersections_gen_sym.
Print Assumptions C06_self_intersections_indices.
Print Assumptions C06_getSelfIntersections_gen_float.
Print Assumptions C06_gen_cc_t_CC_reported_from_small_overlapping_boxes.
Print Assumptions C06_gen_cc_t_CC_report_distance_bound.
Print Assumptions C06_gen_cc_t_CC_no_miss_within_half_range.
Print Assumptions C06_gen_cc_t_CC_raw_report_survives_by_key.
Print Assumptions C06_gen_cc_t_QQ_reported_from_small_overlapping_boxes.
Print Assumptions C06_gen_cc_t_CQ_reported_from_small_overlapping_boxes.
Print Assumptions C06_gen_cc_t_QC_reported_from_small_overlapping_boxes.
Print Assumptions C06_gen_cc_t_CC_report_distance_bound_whole.
Print Assumptions C06_gen_intersections_CC_reports.
