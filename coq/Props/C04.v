(* C04 -- Arc length is accurate, additive and invariant under rigid motion.
   Statements only; every proof is [exact <lemma of Proofs/C04.v>].  Line_/Quad_/Cubic_length (the unrolled 24-point
   Gauss-Legendre sum of ArcLengthMixin.length with the table of utils/legendregauss.py) are regenerated from /repo
   on every run (ROps instance); [gl_length] is the structured specification of that sum, and cubic_/quad_length_is_gl
   (closed by reflexivity against the generated text) tie it to the code: a changed node, weight, interval map or
   derivative factor breaks them or the moment lemma by computation.
   Proved for all inputs: table shape (12 symmetric pairs, positive weights, nodes inside the interval); the rule
   integrates t^k, k<=5, on [0,1] exactly up to 1e-30; a line's length is Euclidean; length is EXACTLY invariant under
   reversal, translation and rotation (any c,s with c^2+s^2=1, plus translation) and multiplied by |k| under scaling;
   chord - 1e-25*polygon <= length <= (1+1e-25)*polygon; a line's length is additive under splitting.
   ACCURACY (Proofs/C04poly.v, C04acc.v; definitions peval / pl1 / pint there, cubic_arclen = RInt of the speed in Proofs/C10flat.v):
   the rule integrates t^k exactly up to 1e-39 for EVERY k <= 47 (one vm_compute over integers on the common denominator 10^40), hence any
   polynomial of degree <= 47 up to 1e-39 * (sum of |coefficients|); if a continuous f is within e of such a polynomial on [0,1] then
   |rule(f) - integral(f)| <= (2 + 1e-39) e + 1e-39 * l1 (gl_approx_error); sqrt(1+u) is within rho^12/60 of the degree-11 binomial
   polynomial for |u| <= rho <= 3/5, proved ALGEBRAICALLY (P(u)^2 = 1 + u + u^12 Q(u) by field, no Taylor remainder); therefore, for a cubic or
   quadratic whose speed stays in [m, M] with M <= 2m, |length - true arc length| <= 2e-4 * arc length (1e-6 for M <= 3m/2, 3e-5 for
   M <= 9m/5): the property's 2% clause -- and its 0.01% clause -- for every gently parametrised curve, with no hypothesis on the control
   polygon.  Example: the arc (0,0)(30,10)(60,10)(90,0) has speed in [90,95].
   NOT covered by a theorem (watched by the search against adaptive Gauss-Kronrod): the 2% clause for curves whose speed varies by more than
   a factor 2 (cusps, retracted handles: the integrand |B'| is then not uniformly approximable by degree-47 polynomials to that accuracy),
   and hence additivity of curve lengths under splitting for those.  BezierPath.length = sum of the segment lengths is a fold in the hand
   model checked by the correspondence (and regenerated: Gen/Sample.v). *)

From Coquelicot Require Import Coquelicot.   (* RInt for the accuracy statements; imported first so that List.Forall below is not shadowed *)
From Flocq Require Import Core.   (* bpow, radix2 for the float statements; imported first so that [float] below is PrimFloat.float *)
From Coq Require Import PrimFloat.
From Coq Require Import ZArith List Bool Reals Lra Permutation.
From BZ Require Import Base.Ops Gen.Point Gen.Affine Gen.Line Gen.Quad Gen.Cubic Proofs.C04 Proofs.C15float Base.FloatErr Proofs.C01float Proofs.C04add.
Import ListNotations.
From BZ Require Proofs.C10flat Proofs.C04poly Proofs.C04acc.
Open Scope R_scope.

Theorem C04_cubic_length_is_gl :
  forall (s : seg4 R), Cubic_length ROps s = gl_length (fun t => sqrt (cubic_dx s t * cubic_dx s t + cubic_dy s t * cubic_dy s t)).
Proof. exact cubic_length_is_gl. Qed.
Theorem C04_quad_length_is_gl :
  forall (s : seg3 R), Quad_length ROps s = gl_length (fun t => sqrt (quad_dx s t * quad_dx s t + quad_dy s t * quad_dy s t)).
Proof. exact quad_length_is_gl. Qed.
Theorem C04_gl_table_shape :
  gl_nodes = flat_map (fun p => [(- fst p, snd p); (fst p, snd p)]) gl_half /\ length gl_half = 12%nat /\ length gl_nodes = 24%nat /\ Forall (fun p => 0 < snd p /\ 0 < fst p < 1) gl_half /\ Forall (fun p => 0 < snd p /\ -1 < fst p < 1 /\ 0 < 1/2 * fst p + 1/2 < 1) gl_nodes.
Proof. exact gl_table_shape. Qed.
Theorem C04_gl_moments :
  forall k, (k <= 5)%nat -> Rabs (gl_length (fun t => t ^ k) - 1 / INR (S k)) <= / 10 ^ 30.
Proof. exact gl_moments. Qed.
Theorem C04_line_length_euclid :
  forall (s : seg2 R), Line_length ROps s = sqrt ((px (l1 s) - px (l0 s)) ^ 2 + (py (l1 s) - py (l0 s)) ^ 2).
Proof. exact line_length_euclid. Qed.
Theorem C04_length_reversed_cubic :
  forall (s : seg4 R), Cubic_length ROps (Cubic_reversed ROps s) = Cubic_length ROps s.
Proof. exact length_reversed_cubic. Qed.
Theorem C04_length_reversed_quad :
  forall (s : seg3 R), Quad_length ROps (Quad_reversed ROps s) = Quad_length ROps s.
Proof. exact length_reversed_quad. Qed.
Theorem C04_length_reversed_line :
  forall (s : seg2 R), Line_length ROps (Line_reversed ROps s) = Line_length ROps s.
Proof. exact length_reversed_line. Qed.
Theorem C04_length_translated_cubic :
  forall (s : seg4 R) v, Cubic_length ROps (Cubic_translated ROps s v) = Cubic_length ROps s.
Proof. exact length_translated_cubic. Qed.
Theorem C04_length_translated_quad :
  forall (s : seg3 R) v, Quad_length ROps (Quad_translated ROps s v) = Quad_length ROps s.
Proof. exact length_translated_quad. Qed.
Theorem C04_length_translated_line :
  forall (s : seg2 R) v, Line_length ROps (Line_translated ROps s v) = Line_length ROps s.
Proof. exact length_translated_line. Qed.
Theorem C04_length_scaled_cubic :
  forall (s : seg4 R) k, Cubic_length ROps (Cubic_scaled ROps s k) = Rabs k * Cubic_length ROps s.
Proof. exact length_scaled_cubic. Qed.
Theorem C04_length_scaled_quad :
  forall (s : seg3 R) k, Quad_length ROps (Quad_scaled ROps s k) = Rabs k * Quad_length ROps s.
Proof. exact length_scaled_quad. Qed.
Theorem C04_length_scaled_line :
  forall (s : seg2 R) k, Line_length ROps (Line_scaled ROps s k) = Rabs k * Line_length ROps s.
Proof. exact length_scaled_line. Qed.
Theorem C04_length_rotated_cubic :
  forall (s : seg4 R) c sn tx ty, c * c + sn * sn = 1 -> Cubic_length ROps (Cubic_transformed ROps s (M3 c (- sn) tx sn c ty 0 0 1)) = Cubic_length ROps s.
Proof. exact length_rotated_cubic. Qed.
Theorem C04_length_rotated_quad :
  forall (s : seg3 R) c sn tx ty, c * c + sn * sn = 1 -> Quad_length ROps (Quad_transformed ROps s (M3 c (- sn) tx sn c ty 0 0 1)) = Quad_length ROps s.
Proof. exact length_rotated_quad. Qed.
Theorem C04_length_rotated_line :
  forall (s : seg2 R) c sn tx ty, c * c + sn * sn = 1 -> Line_length ROps (Line_transformed ROps s (M3 c (- sn) tx sn c ty 0 0 1)) = Line_length ROps s.
Proof. exact length_rotated_line. Qed.
Theorem C04_length_le_polygon_cubic :
  forall (s : seg4 R), Cubic_length ROps s <= (1 + / 10 ^ 25) * cubic_polygon s.
Proof. exact length_le_polygon_cubic. Qed.
Theorem C04_chord_le_length_cubic :
  forall (s : seg4 R), cubic_chord s - / 10 ^ 25 * cubic_polygon s <= Cubic_length ROps s.
Proof. exact chord_le_length_cubic. Qed.
Theorem C04_length_le_polygon_quad :
  forall (s : seg3 R), Quad_length ROps s <= (1 + / 10 ^ 25) * quad_polygon s.
Proof. exact length_le_polygon_quad. Qed.
Theorem C04_chord_le_length_quad :
  forall (s : seg3 R), quad_chord s - / 10 ^ 25 * quad_polygon s <= Quad_length ROps s.
Proof. exact chord_le_length_quad. Qed.
Theorem C04_line_length_additive :
  forall (s : seg2 R) t, 0 <= t <= 1 -> Line_length ROps (fst (Line_splitAtTime ROps s t)) + Line_length ROps (snd (Line_splitAtTime ROps s t)) = Line_length ROps s.
Proof. exact line_length_additive. Qed.
Theorem C04_straight_cubic_length :
  Rabs (Cubic_length ROps (C4 (P 0 0) (P 1 0) (P 2 0) (P 3 0)) - 3) <= / 10 ^ 20.
Proof. exact straight_cubic_length. Qed.
Theorem C04_arch_cubic_length :
  let s := C4 (P 0 0) (P 0 1) (P 1 1) (P 1 0) in 1 - 3 / 10 ^ 25 <= Cubic_length ROps s <= 3 + 3 / 10 ^ 25.
Proof. exact arch_cubic_length. Qed.
Theorem C04_line_length_float_close :
  forall M (l : seg2 float), M <= bpow radix2 500 -> seg2_ok M l -> ffinite (Line_length FOps l) /\ Rabs (FR (Line_length FOps l) - Line_length ROps (seg2R l)) <= (3 + /32) * u * Line_length ROps (seg2R l) + bpow radix2 (-535).
Proof. exact line_length_float_close. Qed.
Theorem C04_line_length_float_close_rel :
  forall M (l : seg2 float), M <= bpow radix2 500 -> seg2_ok M l -> bpow radix2 (-400) <= Line_length ROps (seg2R l) -> ffinite (Line_length FOps l) /\ Rabs (FR (Line_length FOps l) - Line_length ROps (seg2R l)) <= 4 * u * Line_length ROps (seg2R l).
Proof. exact line_length_float_close_rel. Qed.
Theorem C04_line_length_float_close_M :
  forall M (l : seg2 float), M <= bpow radix2 500 -> seg2_ok M l -> ffinite (Line_length FOps l) /\ Rabs (FR (Line_length FOps l) - Line_length ROps (seg2R l)) <= 10 * u * M + bpow radix2 (-535).
Proof. exact line_length_float_close_M. Qed.
Theorem C04_line_length_example :
  ffinite (Line_length FOps ex_line) /\ Rabs (FR (Line_length FOps ex_line) - Line_length ROps (seg2R ex_line)) <= (3 + / 32) * u * Line_length ROps (seg2R ex_line) + bpow radix2 (-535).
Proof. exact line_length_example. Qed.
Theorem C04_gl_moments_47 :
  forall k : nat, (k <= 47)%nat -> Rabs (gl_length (fun t : R => t ^ k) - 1 / INR (S k)) <= / 10 ^ 39.
Proof. exact @C04poly.gl_moments_47. Qed.
Theorem C04_RInt_peval :
  forall cs : list R, RInt.RInt (C04poly.peval cs) 0 1 = C04poly.pint cs.
Proof. exact @C04poly.RInt_peval. Qed.
Theorem C04_gl_peval_error :
  forall cs : list R, (length cs <= 48)%nat -> Rabs (gl_length (C04poly.peval cs) - C04poly.pint cs) <= / 10 ^ 39 * C04poly.pl1 cs.
Proof. exact @C04poly.gl_peval_error. Qed.
Theorem C04_gl_approx_error :
  forall (f : R -> Hierarchy.NormedModule.sort Hierarchy.R_AbsRing Hierarchy.R_NormedModule) (cs : list R) (e : R), RInt.ex_RInt f 0 1 -> (length cs <= 48)%nat -> (forall t : R, 0 <= t <= 1 -> Rabs (f t - C04poly.peval cs t) <= e) -> Rabs (gl_length f - RInt.RInt f 0 1) <= (2 + / 10 ^ 39) * e + / 10 ^ 39 * C04poly.pl1 cs.
Proof. exact @C04poly.gl_approx_error. Qed.
Theorem C04_sqA_square :
  forall u : R, C04poly.peval C04acc.sqA u * C04poly.peval C04acc.sqA u = 1 + u + u ^ 12 * C04poly.peval C04acc.sqQ u.
Proof. exact @C04acc.sqA_square. Qed.
Theorem C04_sqrt_series_error :
  forall u rho : R, Rabs u <= rho -> rho <= 3 / 5 -> Rabs (sqrt (1 + u) - C04poly.peval C04acc.sqA u) <= rho ^ 12 / 60.
Proof. exact @C04acc.sqrt_series_error. Qed.
Theorem C04_sqrt_quartic_gl :
  forall g0 g1 g2 g3 g4 m M rho : R, 0 < m -> (forall t : R, 0 <= t <= 1 -> m * m <= C04poly.peval [g0; g1; g2; g3; g4] t <= M * M) -> M * M - m * m <= rho * (M * M + m * m) -> rho <= 3 / 5 -> Rabs (gl_length (fun t : R => sqrt (C04poly.peval [g0; g1; g2; g3; g4] t)) - RInt.RInt (fun t : R => sqrt (C04poly.peval [g0; g1; g2; g3; g4] t)) 0 1) <= sqrt ((m * m + M * M) / 2) * ((2 + / 10 ^ 39) * (rho ^ 12 / 60) + / 10 ^ 9).
Proof. exact @C04acc.sqrt_quartic_gl. Qed.
Theorem C04_cubic_length_accuracy_gen :
  forall (s : seg4 R) (m M rho : R), 0 < m -> (forall t : R, 0 <= t <= 1 -> m <= cubic_speed s t <= M) -> M * M - m * m <= rho * (M * M + m * m) -> rho <= 3 / 5 -> Rabs (Cubic_length ROps s - C10flat.cubic_arclen s 0 1) <= sqrt ((m * m + M * M) / 2) * ((2 + / 10 ^ 39) * (rho ^ 12 / 60) + / 10 ^ 9).
Proof. exact @C04acc.cubic_length_accuracy_gen. Qed.
Theorem C04_quad_length_accuracy_gen :
  forall (s : seg3 R) (m M rho : R), 0 < m -> (forall t : R, 0 <= t <= 1 -> m <= quad_speed s t <= M) -> M * M - m * m <= rho * (M * M + m * m) -> rho <= 3 / 5 -> Rabs (Quad_length ROps s - C10flat.quad_arclen s 0 1) <= sqrt ((m * m + M * M) / 2) * ((2 + / 10 ^ 39) * (rho ^ 12 / 60) + / 10 ^ 9).
Proof. exact @C04acc.quad_length_accuracy_gen. Qed.
Theorem C04_cubic_length_accuracy :
  forall (s : seg4 R) (m M : R), 0 < m -> (forall t : R, 0 <= t <= 1 -> m <= cubic_speed s t <= M) -> M <= 3 / 2 * m -> Rabs (Cubic_length ROps s - C10flat.cubic_arclen s 0 1) <= / 10 ^ 6 * C10flat.cubic_arclen s 0 1.
Proof. exact @C04acc.cubic_length_accuracy. Qed.
Theorem C04_cubic_length_accuracy_95 :
  forall (s : seg4 R) (m M : R), 0 < m -> (forall t : R, 0 <= t <= 1 -> m <= cubic_speed s t <= M) -> M <= 9 / 5 * m -> Rabs (Cubic_length ROps s - C10flat.cubic_arclen s 0 1) <= 3 / 10 ^ 5 * C10flat.cubic_arclen s 0 1.
Proof. exact @C04acc.cubic_length_accuracy_95. Qed.
Theorem C04_cubic_length_accuracy_2 :
  forall (s : seg4 R) (m M : R), 0 < m -> (forall t : R, 0 <= t <= 1 -> m <= cubic_speed s t <= M) -> M <= 2 * m -> Rabs (Cubic_length ROps s - C10flat.cubic_arclen s 0 1) <= 2 / 10 ^ 4 * C10flat.cubic_arclen s 0 1.
Proof. exact @C04acc.cubic_length_accuracy_2. Qed.
Theorem C04_cubic_length_accuracy_2pc :
  forall (s : seg4 R) (m M : R), 0 < m -> (forall t : R, 0 <= t <= 1 -> m <= cubic_speed s t <= M) -> M <= 2 * m -> Rabs (Cubic_length ROps s - C10flat.cubic_arclen s 0 1) <= 2 / 100 * C10flat.cubic_arclen s 0 1.
Proof. exact @C04acc.cubic_length_accuracy_2pc. Qed.
Theorem C04_quad_length_accuracy :
  forall (s : seg3 R) (m M : R), 0 < m -> (forall t : R, 0 <= t <= 1 -> m <= quad_speed s t <= M) -> M <= 3 / 2 * m -> Rabs (Quad_length ROps s - C10flat.quad_arclen s 0 1) <= / 10 ^ 6 * C10flat.quad_arclen s 0 1.
Proof. exact @C04acc.quad_length_accuracy. Qed.
Theorem C04_quad_length_accuracy_2 :
  forall (s : seg3 R) (m M : R), 0 < m -> (forall t : R, 0 <= t <= 1 -> m <= quad_speed s t <= M) -> M <= 2 * m -> Rabs (Quad_length ROps s - C10flat.quad_arclen s 0 1) <= 2 / 10 ^ 4 * C10flat.quad_arclen s 0 1.
Proof. exact @C04acc.quad_length_accuracy_2. Qed.
Theorem C04_gentle_arc_speed :
  forall t : R, 0 <= t <= 1 -> 90 <= cubic_speed C04acc.gentle_arc t <= 95.
Proof. exact @C04acc.gentle_arc_speed. Qed.
Theorem C04_gentle_arc_accuracy :
  Rabs (Cubic_length ROps C04acc.gentle_arc - C10flat.cubic_arclen C04acc.gentle_arc 0 1) <= / 10 ^ 6 * C10flat.cubic_arclen C04acc.gentle_arc 0 1.
Proof. exact @C04acc.gentle_arc_accuracy. Qed.
Theorem C04_gentle_quad_accuracy :
  Rabs (Quad_length ROps C04acc.gentle_quad - C10flat.quad_arclen C04acc.gentle_quad 0 1) <= / 10 ^ 6 * C10flat.quad_arclen C04acc.gentle_quad 0 1.
Proof. exact @C04acc.gentle_quad_accuracy. Qed.
Theorem C04_cubic_speed_left :
  forall (s : seg4 R) t u, 0 <= t -> cubic_speed (fst (Cubic_splitAtTime ROps s t)) u = t * cubic_speed s (u * t).
Proof. exact cubic_speed_left. Qed.
Theorem C04_cubic_speed_right :
  forall (s : seg4 R) t u, t <= 1 -> cubic_speed (snd (Cubic_splitAtTime ROps s t)) u = (1 - t) * cubic_speed s (t + u * (1 - t)).
Proof. exact cubic_speed_right. Qed.
Theorem C04_cubic_arclen_left :
  forall (s : seg4 R) t, 0 <= t -> C10flat.cubic_arclen (fst (Cubic_splitAtTime ROps s t)) 0 1 = C10flat.cubic_arclen s 0 t.
Proof. exact cubic_arclen_left. Qed.
Theorem C04_cubic_arclen_right :
  forall (s : seg4 R) t, t <= 1 -> C10flat.cubic_arclen (snd (Cubic_splitAtTime ROps s t)) 0 1 = C10flat.cubic_arclen s t 1.
Proof. exact cubic_arclen_right. Qed.
Theorem C04_cubic_length_additive_gentle :
  forall (s : seg4 R) (m M t : R), 0 < m -> (forall u, 0 <= u <= 1 -> m <= cubic_speed s u <= M) -> M <= 2 * m -> 0 < t < 1 -> let l := fst (Cubic_splitAtTime ROps s t) in let r := snd (Cubic_splitAtTime ROps s t) in Rabs (Cubic_length ROps s - (Cubic_length ROps l + Cubic_length ROps r)) <= 4 / 10 ^ 4 * C10flat.cubic_arclen s 0 1.
Proof. exact cubic_length_additive_gentle. Qed.
Theorem C04_quad_arclen_left :
  forall (s : seg3 R) t, 0 <= t -> C10flat.quad_arclen (fst (Quad_splitAtTime ROps s t)) 0 1 = C10flat.quad_arclen s 0 t.
Proof. exact quad_arclen_left. Qed.
Theorem C04_quad_arclen_right :
  forall (s : seg3 R) t, t <= 1 -> C10flat.quad_arclen (snd (Quad_splitAtTime ROps s t)) 0 1 = C10flat.quad_arclen s t 1.
Proof. exact quad_arclen_right. Qed.
Theorem C04_quad_length_additive_gentle :
  forall (s : seg3 R) (m M t : R), 0 < m -> (forall u, 0 <= u <= 1 -> m <= quad_speed s u <= M) -> M <= 2 * m -> 0 < t < 1 -> let l := fst (Quad_splitAtTime ROps s t) in let r := snd (Quad_splitAtTime ROps s t) in Rabs (Quad_length ROps s - (Quad_length ROps l + Quad_length ROps r)) <= 4 / 10 ^ 4 * C10flat.quad_arclen s 0 1.
Proof. exact quad_length_additive_gentle. Qed.

Print Assumptions C04_cubic_length_is_gl.
Print Assumptions C04_quad_length_is_gl.
Print Assumptions C04_gl_table_shape.
Print Assumptions C04_gl_moments.
Print Assumptions C04_line_length_euclid.
Print Assumptions C04_length_reversed_cubic.
Print Assumptions C04_length_reversed_quad.
Print Assumptions C04_length_reversed_line.
Print Assumptions C04_length_translated_cubic.
Print Assumptions C04_length_translated_quad.
Print Assumptions C04_length_translated_line.
Print Assumptions C04_length_scaled_cubic.
Print Assumptions C04_length_scaled_quad.
Print Assumptions C04_length_scaled_line.
Print Assumptions C04_length_rotated_cubic.
Print Assumptions C04_length_rotated_quad.
Print Assumptions C04_length_rotated_line.
Print Assumptions C04_length_le_polygon_cubic.
Print Assumptions C04_chord_le_length_cubic.
Print Assumptions C04_length_le_polygon_quad.
Print Assumptions C04_chord_le_length_quad.
Print Assumptions C04_line_length_additive.
Print Assumptions C04_straight_cubic_length.
Print Assumptions C04_arch_cubic_length.
Print Assumptions C04_line_length_float_close.
Print Assumptions C04_line_length_float_close_rel.
Print Assumptions C04_line_length_float_close_M.
Print Assumptions C04_line_length_example.
Print Assumptions C04_gl_moments_47.
Print Assumptions C04_RInt_peval.
Print Assumptions C04_gl_peval_error.
Print Assumptions C04_gl_approx_error.
Print Assumptions C04_sqA_square.
Print Assumptions C04_sqrt_series_error.
Print Assumptions C04_sqrt_quartic_gl.
Print Assumptions C04_cubic_length_accuracy_gen.
Print Assumptions C04_quad_length_accuracy_gen.
Print Assumptions C04_cubic_length_accuracy.
Print Assumptions C04_cubic_length_accuracy_95.
Print Assumptions C04_cubic_length_accuracy_2.
Print Assumptions C04_cubic_length_accuracy_2pc.
Print Assumptions C04_quad_length_accuracy.
Print Assumptions C04_quad_length_accuracy_2.
Print Assumptions C04_gentle_arc_speed.
Print Assumptions C04_gentle_arc_accuracy.
Print Assumptions C04_gentle_quad_accuracy.
Print Assumptions C04_cubic_speed_left.
Print Assumptions C04_cubic_speed_right.
Print Assumptions C04_cubic_arclen_left.
Print Assumptions C04_cubic_arclen_right.
Print Assumptions C04_cubic_length_additive_gentle.
Print Assumptions C04_quad_arclen_left.
Print Assumptions C04_quad_arclen_right.
Print Assumptions C04_quad_length_additive_gentle.
