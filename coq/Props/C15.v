(* C15 -- Parameter lookup inverts evaluation.
   Statements only; every proof is [exact <lemma of Proofs/C15.v>].  Line_tOfPoint, Quad_tOfPoint, utils_quadraticRoots
   are regenerated from /repo on every run (ROps instance).
   Proved: for every line whose x- or y-extent is not isclose-degenerate and EVERY real t, looking up the point at t
   returns t (with and without the 2e-7 re-check); a point at distance >= 2e-7 from the carrier (in particular
   farther than 1e-6*length for lines >= 1 unit... the theorem is stated with the absolute 2e-7 the code uses, and in
   cross-product form) yields -1; for a quadratic and t in [0,1] that is not a stationary parameter in x or y (and
   whose coordinate polynomials are exactly linear or genuinely quadratic), the lookup succeeds, lies in [0,1], and is
   an x-root within 2e-7 of a y-root of the query point; it is exactly t when t is the only parameter with that
   abscissa.  The excluded cases are necessary (witnesses: apex of a parabola returns -1; a leading coefficient in the
   band 0<|a|<=1e-9|b| is dropped).
   Float witness (C15_line_end_rounding_float_refuted, binary64 instance, vm_compute): far from the origin the point at
   t = 1e-12 rounds to before the start and the lookup returns -1.1e-10, outside [0,1] -- known finding C15-line-end-rounding.
   Cubic lookup (Proofs/C15cubic.v, directly about Gen/Lookup.v's Cubic_tOfPoint regenerated from cubicbezier.py): whenever it returns t,
   0 <= t <= 1 and the point at t is at least as close to the query as every regular sample; it returns once the fuel exceeds the length
   and 50; for a cubic whose speed stays within a factor 2 and a query ON the curve the point at the returned parameter is within 2% of
   the length as soon as the curve is 103 units long.
   NOT covered by a theorem: the 2% clause of the cubic lookup for curves whose speed varies by more than a factor 2 or shorter than 103
   units (short cubics: known finding C15-cubic-short-lookup), searched only; floating-point tolerances of the quadratic lookup (1e-6);
   the line lookup's float clause is in the C15float statements below. *)

From Flocq Require Import Core.   (* bpow, radix2 for the float statements; imported first so that [float] below is PrimFloat.float *)
From Coq Require Import PrimFloat.
From Coq Require Import ZArith List Bool Reals Lra Permutation.
From BZ Require Import Base.Ops Gen.Utils Gen.Point Gen.Line Gen.Quad Proofs.C15 Proofs.C15float Base.FloatErr Proofs.C01float.
Import ListNotations.
From BZ Require Gen.Sample Gen.Lookup Proofs.C04 Proofs.C10flat Proofs.C15cubic.
Open Scope R_scope.

Theorem C15_line_tOfPoint_inverse :
  forall (l : seg2 R) (t : R) (sw : bool), isclose ROps (px (l1 l)) (px (l0 l)) = false \/ isclose ROps (py (l1 l)) (py (l0 l)) = false -> Line_tOfPoint ROps l (Line_pointAtTime ROps l t) sw = t.
Proof. exact line_tOfPoint_inverse. Qed.
Theorem C15_line_tOfPoint_degenerate :
  forall (l : seg2 R) p sw, isclose ROps (px (l1 l)) (px (l0 l)) = true -> isclose ROps (py (l1 l)) (py (l0 l)) = true -> Line_tOfPoint ROps l p sw = -1.
Proof. exact line_tOfPoint_degenerate. Qed.
Theorem C15_line_off_carrier :
  forall (l : seg2 R) (p : pt R), (forall u, 1 / 5000000 <= Point_distanceFrom ROps (Line_pointAtTime ROps l u) p) -> Line_tOfPoint ROps l p false = -1.
Proof. exact line_off_carrier. Qed.
Theorem C15_line_off_carrier_cross :
  forall (l : seg2 R) (p : pt R), let dx := px (l1 l) - px (l0 l) in let dy := py (l1 l) - py (l0 l) in 1 / 5000000 * sqrt (dx * dx + dy * dy) <= Rabs ((px p - px (l0 l)) * dy - (py p - py (l0 l)) * dx) -> Line_tOfPoint ROps l p false = -1.
Proof. exact line_off_carrier_cross. Qed.
Theorem C15_In_quadraticRoots :
  forall a b c r, In r (utils_quadraticRoots ROps a b c) <-> (Rabs a <= 1 / 1000000000 * Rabs b /\ b <> 0 /\ r = - c / b /\ 0 <= r <= 1) \/ (1 / 1000000000 * Rabs b < Rabs a /\ 0 < b * b - 4 * a * c /\ (r = - b / (2 * a) - sqrt (b * b - 4 * a * c) / (2 * a) \/ r = - b / (2 * a) + sqrt (b * b - 4 * a * c) / (2 * a)) /\ 0 <= r <= 1).
Proof. exact In_quadraticRoots. Qed.
Theorem C15_quad_tOfPoint_inverse :
  forall (q : seg3 R) (t : R), 0 <= t <= 1 -> coord_ok (px (q0 q)) (px (q1 q)) (px (q2 q)) t -> coord_ok (py (q0 q)) (py (q1 q)) (py (q2 q)) t -> let tau := Quad_tOfPoint ROps q (Quad_pointAtTime ROps q t) in tau <> -1 /\ 0 <= tau <= 1 /\ exists rx ry, 0 <= rx <= 1 /\ 0 <= ry <= 1 /\ px (Quad_pointAtTime ROps q rx) = px (Quad_pointAtTime ROps q t) /\ py (Quad_pointAtTime ROps q ry) = py (Quad_pointAtTime ROps q t) /\ Rabs (rx - ry) < 1 / 5000000 /\ tau = rx.
Proof. exact quad_tOfPoint_inverse. Qed.
Theorem C15_quad_tOfPoint_inverse_unique :
  forall (q : seg3 R) (t : R), 0 <= t <= 1 -> coord_ok (px (q0 q)) (px (q1 q)) (px (q2 q)) t -> coord_ok (py (q0 q)) (py (q1 q)) (py (q2 q)) t -> (forall s, 0 <= s <= 1 -> px (Quad_pointAtTime ROps q s) = px (Quad_pointAtTime ROps q t) -> s = t) -> Quad_tOfPoint ROps q (Quad_pointAtTime ROps q t) = t.
Proof. exact quad_tOfPoint_inverse_unique. Qed.
Theorem C15_quad_tOfPoint_inverse_monotone_x :
  forall (q : seg3 R) (t : R), 0 <= t <= 1 -> px (q0 q) < px (q1 q) -> px (q1 q) < px (q2 q) -> (let a := px (q0 q) - 2 * px (q1 q) + px (q2 q) in let b := 2 * (px (q1 q) - px (q0 q)) in a = 0 \/ 1 / 1000000000 * Rabs b < Rabs a) -> coord_ok (py (q0 q)) (py (q1 q)) (py (q2 q)) t -> Quad_tOfPoint ROps q (Quad_pointAtTime ROps q t) = t.
Proof. exact quad_tOfPoint_inverse_monotone_x. Qed.
Theorem C15_line_inverse_example :
  forall t, Line_tOfPoint ROps (L2 (P 1 1) (P 4 5)) (Line_pointAtTime ROps (L2 (P 1 1) (P 4 5)) t) false = t.
Proof. exact line_inverse_example. Qed.
Theorem C15_line_inverse_vertical :
  forall t, Line_tOfPoint ROps (L2 (P 2 0) (P 2 10)) (Line_pointAtTime ROps (L2 (P 2 0) (P 2 10)) t) false = t.
Proof. exact line_inverse_vertical. Qed.
Theorem C15_line_off_carrier_example :
  Line_tOfPoint ROps (L2 (P 0 0) (P 10 0)) (P 0 1) false = -1.
Proof. exact line_off_carrier_example. Qed.
Theorem C15_quad_inverse_example :
  forall t, 0 <= t <= 1 -> t <> 1 / 2 -> Quad_tOfPoint ROps (Q3 (P 0 0) (P 1 2) (P 2 0)) (Quad_pointAtTime ROps (Q3 (P 0 0) (P 1 2) (P 2 0)) t) = t.
Proof. exact quad_inverse_example. Qed.
Theorem C15_quad_tOfPoint_apex_not_found :
  Quad_tOfPoint ROps (Q3 (P 0 0) (P 1 2) (P 2 0)) (Quad_pointAtTime ROps (Q3 (P 0 0) (P 1 2) (P 2 0)) (1 / 2)) = -1.
Proof. exact quad_tOfPoint_apex_not_found. Qed.
Theorem C15_quad_tOfPoint_near_linear_inexact :
  let q := Q3 (P 0 0) (P (1 / 2) (1 / 2)) (P (1 + 1 / 10000000000) 1) in Quad_tOfPoint ROps q (Quad_pointAtTime ROps q (1 / 2)) = 1 / 2 + 1 / 40000000000.
Proof. exact quad_tOfPoint_near_linear_inexact. Qed.
Theorem C15_line_end_rounding_float_refuted :
  let l := line_end_rounding_witness in PrimFloat.ltb (Line_tOfPoint FOps l (Line_pointAtTime FOps l 0x1.19799812dea11p-40%float) false) 0%float = true.
Proof. exact line_end_rounding_float_refuted. Qed.
Theorem C15_line_tOfPoint_float_close :
  forall M (l : seg2 float) (t : float), 1 <= M -> M <= M25 -> seg2_ok M l -> t_ok t -> / 2 <= extent l -> let q := Line_pointAtTime FOps l t in let tau := Line_tOfPoint FOps l q false in tau = Line_tOfPoint FOps l q true /\ line_recheck FOps l q tau = true /\ solved_in l q tau /\ ffinite tau /\ Rabs (FR tau - FR t) <= 14 * u * (M / extent l) /\ pt_near (Line_pointAtTime FOps l tau) q (30 * u * M).
Proof. exact line_tOfPoint_float_close. Qed.
Theorem C15_line_tOfPoint_sworn_float_close :
  forall M (l : seg2 float) (t : float), 1 <= M -> M <= M26 -> seg2_ok M l -> t_ok t -> / 2 <= extent l -> let q := Line_pointAtTime FOps l t in let tau := Line_tOfPoint FOps l q true in solved_in l q tau /\ ffinite tau /\ Rabs (FR tau - FR t) <= 14 * u * (M / extent l) /\ pt_near (Line_pointAtTime FOps l tau) q (30 * u * M).
Proof. exact line_tOfPoint_sworn_float_close. Qed.
Theorem C15_line_tOfPoint_float_range :
  forall M (l : seg2 float) (t : float), 1 <= M -> M <= M25 -> seg2_ok M l -> t_ok t -> / 2 <= extent l -> let tau := Line_tOfPoint FOps l (Line_pointAtTime FOps l t) false in - bpow radix2 (-23) <= FR tau <= 1 + bpow radix2 (-23) /\ FR tau <> -1.
Proof. exact line_tOfPoint_float_range. Qed.
Theorem C15_line_tOfPoint_float_1e9 :
  forall M (l : seg2 float) (t : float), 1 <= M -> M <= M25 -> seg2_ok M l -> t_ok t -> / 2 <= extent l -> let q := Line_pointAtTime FOps l t in pt_near (Line_pointAtTime FOps l (Line_tOfPoint FOps l q false)) q (1e-9 * M).
Proof. exact line_tOfPoint_float_1e9. Qed.
Theorem C15_line_tOfPoint_example :
  let q := Line_pointAtTime FOps ex_line ex_t3 in let tau := Line_tOfPoint FOps ex_line q false in tau = Line_tOfPoint FOps ex_line q true /\ line_recheck FOps ex_line q tau = true /\ solved_in ex_line q tau /\ ffinite tau /\ Rabs (FR tau - FR ex_t3) <= 14 * u * (5 / 4) /\ pt_near (Line_pointAtTime FOps ex_line tau) q (30 * u * 5).
Proof. exact line_tOfPoint_example. Qed.
Theorem C15_line_tOfPoint_float_leaves_unit_interval :
  let q := Line_pointAtTime FOps w_line w_t in let tau := Line_tOfPoint FOps w_line q false in (ffinite tau /\ Rabs (FR tau - FR w_t) <= 14 * u * (M25 / extent w_line) /\ pt_near (Line_pointAtTime FOps w_line tau) q (30 * u * M25)) /\ FR tau < 0.
Proof. exact line_tOfPoint_float_leaves_unit_interval. Qed.
Theorem C15_Cubic_tOfPoint_range_best :
  forall (fuel : nat) (c : seg4 R) (p : pt R) (t : R), Lookup.Cubic_tOfPoint ROps fuel c p = Some (Sample.Returns t) -> 0 <= t <= 1 /\ (exists ts : list R, Sample.Cubic_regularSampleTValue ROps fuel c 50 = Some (Sample.Returns ts) /\ Forall (fun s : R => 0 <= s <= 1) ts /\ Forall (fun s : R => Point_distanceFrom ROps (Cubic.Cubic_pointAtTime ROps c t) p <= Point_distanceFrom ROps (Cubic.Cubic_pointAtTime ROps c s) p) ts).
Proof. exact @C15cubic.Cubic_tOfPoint_range_best. Qed.
Theorem C15_cubic_length_0_const :
  forall c : seg4 R, Cubic.Cubic_length ROps c = 0 -> forall t : R, Cubic.Cubic_pointAtTime ROps c t = c0 c.
Proof. exact @C15cubic.cubic_length_0_const. Qed.
Theorem C15_Cubic_tOfPoint_returns :
  forall (f : nat) (c : seg4 R) (p : pt R), Cubic.Cubic_length ROps c < INR f -> (50 <= f)%nat -> exists t : R, Lookup.Cubic_tOfPoint ROps (S f) c p = Some (Sample.Returns t).
Proof. exact @C15cubic.Cubic_tOfPoint_returns. Qed.
Theorem C15_gen_regular_spacing :
  forall (c : seg4 R) (m M : R), 0 < m -> (forall u : R, 0 <= u <= 1 -> m <= C04.cubic_speed c u <= M) -> M <= 2 * m -> forall (fuel : nat) (samples : R) (ts : list R), 0 < samples -> Sample.Cubic_regularSampleTValue ROps fuel c samples = Some (Sample.Returns ts) -> C10flat.fine_partition_01 (C10flat.cubic_arclen c) (Cubic.Cubic_length ROps c / samples + 2001 / 1000 + 4 / 10 ^ 4 * C10flat.cubic_arclen c 0 1) ts.
Proof. exact @C15cubic.gen_regular_spacing. Qed.
Theorem C15_Cubic_tOfPoint_on_curve :
  forall (c : seg4 R) (m M : R), 0 < m -> (forall u : R, 0 <= u <= 1 -> m <= C04.cubic_speed c u <= M) -> M <= 2 * m -> forall (fuel : nat) (t0 t : R), 0 <= t0 <= 1 -> Lookup.Cubic_tOfPoint ROps fuel c (Cubic.Cubic_pointAtTime ROps c t0) = Some (Sample.Returns t) -> 0 <= t <= 1 /\ Point_distanceFrom ROps (Cubic.Cubic_pointAtTime ROps c t) (Cubic.Cubic_pointAtTime ROps c t0) <= (Cubic.Cubic_length ROps c / 50 + 2001 / 1000 + 4 / 10 ^ 4 * C10flat.cubic_arclen c 0 1) / 2.
Proof. exact @C15cubic.Cubic_tOfPoint_on_curve. Qed.
Theorem C15_Cubic_tOfPoint_on_curve_2pc :
  forall (c : seg4 R) (m M : R), 0 < m -> (forall u : R, 0 <= u <= 1 -> m <= C04.cubic_speed c u <= M) -> M <= 2 * m -> forall (fuel : nat) (t0 t : R), 0 <= t0 <= 1 -> 103 <= C10flat.cubic_arclen c 0 1 -> Lookup.Cubic_tOfPoint ROps fuel c (Cubic.Cubic_pointAtTime ROps c t0) = Some (Sample.Returns t) -> Point_distanceFrom ROps (Cubic.Cubic_pointAtTime ROps c t) (Cubic.Cubic_pointAtTime ROps c t0) <= 2 / 100 * C10flat.cubic_arclen c 0 1 /\ Point_distanceFrom ROps (Cubic.Cubic_pointAtTime ROps c t) (Cubic.Cubic_pointAtTime ROps c t0) <= 2 / 100 * Cubic.Cubic_length ROps c.
Proof. exact @C15cubic.Cubic_tOfPoint_on_curve_2pc. Qed.
Theorem C15_Cubic_tOfPoint_on_curve_2pc_len :
  forall (c : seg4 R) (m M : R), 0 < m -> (forall u : R, 0 <= u <= 1 -> m <= C04.cubic_speed c u <= M) -> M <= 2 * m -> forall (fuel : nat) (t0 t : R), 0 <= t0 <= 1 -> 103 <= Cubic.Cubic_length ROps c -> Lookup.Cubic_tOfPoint ROps fuel c (Cubic.Cubic_pointAtTime ROps c t0) = Some (Sample.Returns t) -> Point_distanceFrom ROps (Cubic.Cubic_pointAtTime ROps c t) (Cubic.Cubic_pointAtTime ROps c t0) <= 2 / 100 * Cubic.Cubic_length ROps c.
Proof. exact @C15cubic.Cubic_tOfPoint_on_curve_2pc_len. Qed.
Theorem C15_arch100_lookup :
  forall t0 : R, 0 <= t0 <= 1 -> exists t : R, Lookup.Cubic_tOfPoint ROps 302 (C10flat.arch 100) (Cubic.Cubic_pointAtTime ROps (C10flat.arch 100) t0) = Some (Sample.Returns t) /\ 0 <= t <= 1 /\ Point_distanceFrom ROps (Cubic.Cubic_pointAtTime ROps (C10flat.arch 100) t) (Cubic.Cubic_pointAtTime ROps (C10flat.arch 100) t0) <= 4.
Proof. exact @C15cubic.arch100_lookup. Qed.

Print Assumptions C15_line_tOfPoint_inverse.
Print Assumptions C15_line_tOfPoint_degenerate.
Print Assumptions C15_line_off_carrier.
Print Assumptions C15_line_off_carrier_cross.
Print Assumptions C15_In_quadraticRoots.
Print Assumptions C15_quad_tOfPoint_inverse.
Print Assumptions C15_quad_tOfPoint_inverse_unique.
Print Assumptions C15_quad_tOfPoint_inverse_monotone_x.
Print Assumptions C15_line_inverse_example.
Print Assumptions C15_line_inverse_vertical.
Print Assumptions C15_line_off_carrier_example.
Print Assumptions C15_quad_inverse_example.
Print Assumptions C15_quad_tOfPoint_apex_not_found.
Print Assumptions C15_quad_tOfPoint_near_linear_inexact.
Print Assumptions C15_line_end_rounding_float_refuted.
Print Assumptions C15_line_tOfPoint_float_close.
Print Assumptions C15_line_tOfPoint_sworn_float_close.
Print Assumptions C15_line_tOfPoint_float_range.
Print Assumptions C15_line_tOfPoint_float_1e9.
Print Assumptions C15_line_tOfPoint_example.
Print Assumptions C15_line_tOfPoint_float_leaves_unit_interval.
Print Assumptions C15_Cubic_tOfPoint_range_best.
Print Assumptions C15_cubic_length_0_const.
Print Assumptions C15_Cubic_tOfPoint_returns.
Print Assumptions C15_gen_regular_spacing.
Print Assumptions C15_Cubic_tOfPoint_on_curve.
Print Assumptions C15_Cubic_tOfPoint_on_curve_2pc.
Print Assumptions C15_Cubic_tOfPoint_on_curve_2pc_len.
Print Assumptions C15_arch100_lookup.
