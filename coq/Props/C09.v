(* C09 -- Affine maps commute with evaluation and compose in call order.
   Statements only; every proof is [exact <lemma of Proofs/C09.v>].  All functions named Point_*, Affine_*, Line_*,
   Quad_*, Cubic_* are regenerated from /repo/src/beziers by tools/py2v.py on every run and instantiated at the
   reals (ROps); [call], [apply_call], [act], [identity], [affine_row] are defined in Proofs/C09.v:
   apply_call uses the generated in-place composers translate/rotate/scale/reflect, act is the primitive action.
   Full statement over R: commutation with evaluation for any matrix and all real t; call-order composition for
   call lists of ANY length; scale factors on their own axes including 0; inverse (nonzero determinant), rigid ccw
   rotation fixing the centre; alignment.  Floating-point clause (Proofs/C09float.v, Flocq, binary64 instance FOps of the
   same regenerated text): transform/translate/scale-then-evaluate and evaluate-then-transform are each within a few roundoff units
   (e.g. cubic: 276 u N + 40 eta, N = A*M + B) of the exact transform of the exact evaluation, hence of each other.
   NOT covered by a theorem: floating-point error of rotation, inverse and composition (measured at 1e-9 by the search),
   libm's cos/sin/atan2 (oracle values in the correspondence). *)

From Flocq Require Import Core.   (* bpow, radix2 for the float statements; imported first so that [float] below is PrimFloat.float *)
From Coq Require Import PrimFloat.
From Coq Require Import ZArith List Bool Reals Lra Permutation String.
From Coquelicot Require Import Coquelicot.
From BZ Require Import Base.Ops Gen.Point Gen.Affine Gen.Line Gen.Quad Gen.Cubic Proofs.C09 Proofs.C09float Base.FloatErr Proofs.C01float.
Import ListNotations.
Open Scope R_scope.

Theorem C09_transformed_commutes_eval_line :
  forall (s : seg2 R) (m : mat3 R) t, Line_pointAtTime ROps (Line_transformed ROps s m) t = Point_transformed ROps (Line_pointAtTime ROps s t) m.
Proof. exact transformed_commutes_eval_line. Qed.
Theorem C09_transformed_commutes_eval_quad :
  forall (s : seg3 R) (m : mat3 R) t, Quad_pointAtTime ROps (Quad_transformed ROps s m) t = Point_transformed ROps (Quad_pointAtTime ROps s t) m.
Proof. exact transformed_commutes_eval_quad. Qed.
Theorem C09_transformed_commutes_eval_cubic :
  forall (s : seg4 R) (m : mat3 R) t, Cubic_pointAtTime ROps (Cubic_transformed ROps s m) t = Point_transformed ROps (Cubic_pointAtTime ROps s t) m.
Proof. exact transformed_commutes_eval_cubic. Qed.
Theorem C09_translated_commutes_eval_line :
  forall (s : seg2 R) (v : pt R) t, Line_pointAtTime ROps (Line_translated ROps s v) t = Point___add__ ROps (Line_pointAtTime ROps s t) v.
Proof. exact translated_commutes_eval_line. Qed.
Theorem C09_translated_commutes_eval_quad :
  forall (s : seg3 R) (v : pt R) t, Quad_pointAtTime ROps (Quad_translated ROps s v) t = Point___add__ ROps (Quad_pointAtTime ROps s t) v.
Proof. exact translated_commutes_eval_quad. Qed.
Theorem C09_translated_commutes_eval_cubic :
  forall (s : seg4 R) (v : pt R) t, Cubic_pointAtTime ROps (Cubic_translated ROps s v) t = Point___add__ ROps (Cubic_pointAtTime ROps s t) v.
Proof. exact translated_commutes_eval_cubic. Qed.
Theorem C09_scaled_commutes_eval_line :
  forall (s : seg2 R) (k : R) t, Line_pointAtTime ROps (Line_scaled ROps s k) t = Point___mul__ ROps (Line_pointAtTime ROps s t) k.
Proof. exact scaled_commutes_eval_line. Qed.
Theorem C09_scaled_commutes_eval_quad :
  forall (s : seg3 R) (k : R) t, Quad_pointAtTime ROps (Quad_scaled ROps s k) t = Point___mul__ ROps (Quad_pointAtTime ROps s t) k.
Proof. exact scaled_commutes_eval_quad. Qed.
Theorem C09_scaled_commutes_eval_cubic :
  forall (s : seg4 R) (k : R) t, Cubic_pointAtTime ROps (Cubic_scaled ROps s k) t = Point___mul__ ROps (Cubic_pointAtTime ROps s t) k.
Proof. exact scaled_commutes_eval_cubic. Qed.
Theorem C09_rotated_commutes_eval_line :
  forall (s : seg2 R) (c : pt R) a t, Line_pointAtTime ROps (Line_rotated ROps s c a) t = Point_rotated ROps (Line_pointAtTime ROps s t) c a.
Proof. exact rotated_commutes_eval_line. Qed.
Theorem C09_rotated_commutes_eval_quad :
  forall (s : seg3 R) (c : pt R) a t, Quad_pointAtTime ROps (Quad_rotated ROps s c a) t = Point_rotated ROps (Quad_pointAtTime ROps s t) c a.
Proof. exact rotated_commutes_eval_quad. Qed.
Theorem C09_rotated_commutes_eval_cubic :
  forall (s : seg4 R) (c : pt R) a t, Cubic_pointAtTime ROps (Cubic_rotated ROps s c a) t = Point_rotated ROps (Cubic_pointAtTime ROps s t) c a.
Proof. exact rotated_commutes_eval_cubic. Qed.
Theorem C09_compose_in_call_order :
  forall (cs : list call) p, Point_transformed ROps p (fold_left apply_call cs identity) = fold_left (fun q c => act c q) cs p.
Proof. exact compose_in_call_order. Qed.
Theorem C09_scale_axes :
  forall p fx fy, Point_transformed ROps p (Affine_scaling ROps fx (Some fy)) = P (fx * px p) (fy * py p).
Proof. exact scale_axes. Qed.
Theorem C09_scale_uniform :
  forall p fx, Point_transformed ROps p (Affine_scaling ROps fx None) = P (fx * px p) (fx * py p).
Proof. exact scale_uniform. Qed.
Theorem C09_invert_right :
  forall m p, affine_row m -> m00 m * m11 m - m01 m * m10 m <> 0 -> Point_transformed ROps (Point_transformed ROps p m) (Affine_invert ROps m) = p.
Proof. exact invert_right. Qed.
Theorem C09_invert_left :
  forall m p, affine_row m -> m00 m * m11 m - m01 m * m10 m <> 0 -> Point_transformed ROps (Point_transformed ROps p (Affine_invert ROps m)) m = p.
Proof. exact invert_left. Qed.
Theorem C09_invert_singular_noop :
  forall m, det3 m = 0 -> Affine_invert ROps m = m.
Proof. exact invert_singular_noop. Qed.
Theorem C09_rotation_ccw :
  forall p a, Point_transformed ROps p (Affine_rotation ROps a) = P (px p * cos a - py p * sin a) (px p * sin a + py p * cos a).
Proof. exact rotation_ccw. Qed.
Theorem C09_point_rotated_spec :
  forall p c a, Point_rotated ROps p c a = P (px c + (px p - px c) * cos a - (py p - py c) * sin a) (py c + (px p - px c) * sin a + (py p - py c) * cos a).
Proof. exact point_rotated_spec. Qed.
Theorem C09_point_rotated_fixes_centre :
  forall c a, Point_rotated ROps c c a = c.
Proof. exact point_rotated_fixes_centre. Qed.
Theorem C09_point_rotated_preserves_distance :
  forall p c a, Point_squareDistanceFrom ROps (Point_rotated ROps p c a) c = Point_squareDistanceFrom ROps p c.
Proof. exact point_rotated_preserves_distance. Qed.
Theorem C09_aligned_spec_line :
  forall s : seg2 R, let dx := px (l1 s) - px (l0 s) in let dy := py (l1 s) - py (l0 s) in l0 (Line_aligned ROps s) = P 0 0 /\ l1 (Line_aligned ROps s) = P (sqrt (dx * dx + dy * dy)) 0.
Proof. exact aligned_spec_line. Qed.
Theorem C09_aligned_spec_quad :
  forall s : seg3 R, let dx := px (q2 s) - px (q0 s) in let dy := py (q2 s) - py (q0 s) in q0 (Quad_aligned ROps s) = P 0 0 /\ q2 (Quad_aligned ROps s) = P (sqrt (dx * dx + dy * dy)) 0.
Proof. exact aligned_spec_quad. Qed.
Theorem C09_aligned_spec_cubic :
  forall s : seg4 R, let dx := px (c3 s) - px (c0 s) in let dy := py (c3 s) - py (c0 s) in c0 (Cubic_aligned ROps s) = P 0 0 /\ c3 (Cubic_aligned ROps s) = P (sqrt (dx * dx + dy * dy)) 0.
Proof. exact aligned_spec_cubic. Qed.
Theorem C09_call_order_example :
  Point_transformed ROps (P 1 0) (fold_left apply_call [CTranslate (P 1 0); CRotate (PI / 2)] identity) = P 0 2.
Proof. exact call_order_example. Qed.
Theorem C09_call_order_example_swapped :
  Point_transformed ROps (P 1 0) (fold_left apply_call [CRotate (PI / 2); CTranslate (P 1 0)] identity) = P 1 1.
Proof. exact call_order_example_swapped. Qed.
Theorem C09_scale_axes_zero :
  Point_transformed ROps (P 3 4) (Affine_scaling ROps 2 (Some 0)) = P 6 0.
Proof. exact scale_axes_zero. Qed.
Theorem C09_invert_hypotheses_satisfiable :
  let m := M3 2 1 5 1 1 7 0 0 1 in affine_row m /\ m00 m * m11 m - m01 m * m10 m <> 0 /\ Point_transformed ROps (Point_transformed ROps (P 3 4) m) (Affine_invert ROps m) = P 3 4.
Proof. exact invert_hypotheses_satisfiable. Qed.
Theorem C09_line_transformed_eval_float_close :
  forall A B M (s : seg2 float) (m : mat3 float) t, A * M + B <= Mcap -> seg2_ok M s -> mat_ok A B m -> t_ok t -> pt_close (Line_pointAtTime FOps (Line_transformed FOps s m) t) (Point_transformed ROps (Line_pointAtTime ROps (seg2R s) (FR t)) (matR m)) (33 * u * (A * M + B) + 12 * eta).
Proof. exact line_transformed_eval_float_close. Qed.
Theorem C09_quad_transformed_eval_float_close :
  forall A B M (s : seg3 float) (m : mat3 float) t, A * M + B <= Mcap -> seg3_ok M s -> mat_ok A B m -> t_ok t -> pt_close (Quad_pointAtTime FOps (Quad_transformed FOps s m) t) (Point_transformed ROps (Quad_pointAtTime ROps (seg3R s) (FR t)) (matR m)) (104 * u * (A * M + B) + 22 * eta).
Proof. exact quad_transformed_eval_float_close. Qed.
Theorem C09_cubic_transformed_eval_float_close :
  forall A B M (s : seg4 float) (m : mat3 float) t, A * M + B <= Mcap -> seg4_ok M s -> mat_ok A B m -> t_ok t -> pt_close (Cubic_pointAtTime FOps (Cubic_transformed FOps s m) t) (Point_transformed ROps (Cubic_pointAtTime ROps (seg4R s) (FR t)) (matR m)) (276 * u * (A * M + B) + 40 * eta).
Proof. exact cubic_transformed_eval_float_close. Qed.
Theorem C09_cubic_eval_transformed_float_close :
  forall A B M (s : seg4 float) (m : mat3 float) t, M <= Mcap -> A * M + A + B <= Mcap -> seg4_ok M s -> mat_ok A B m -> t_ok t -> pt_close (Point_transformed FOps (Cubic_pointAtTime FOps s t) m) (Point_transformed ROps (Cubic_pointAtTime ROps (seg4R s) (FR t)) (matR m)) (156 * u * (A * M + A + B) + 5 * eta).
Proof. exact cubic_eval_transformed_float_close. Qed.
Theorem C09_line_transformed_commutes_float :
  forall A B M (s : seg2 float) (m : mat3 float) t, M <= Mcap -> A * M + A + B <= Mcap -> seg2_ok M s -> mat_ok A B m -> t_ok t -> pt_near (Line_pointAtTime FOps (Line_transformed FOps s m) t) (Point_transformed FOps (Line_pointAtTime FOps s t) m) ((33 * u * (A * M + B) + 12 * eta) + (22 * u * (A * M + A + B) + 5 * eta)).
Proof. exact line_transformed_commutes_float. Qed.
Theorem C09_quad_transformed_commutes_float :
  forall A B M (s : seg3 float) (m : mat3 float) t, M <= Mcap -> A * M + A + B <= Mcap -> seg3_ok M s -> mat_ok A B m -> t_ok t -> pt_near (Quad_pointAtTime FOps (Quad_transformed FOps s m) t) (Point_transformed FOps (Quad_pointAtTime FOps s t) m) ((104 * u * (A * M + B) + 22 * eta) + (60 * u * (A * M + A + B) + 5 * eta)).
Proof. exact quad_transformed_commutes_float. Qed.
Theorem C09_cubic_transformed_commutes_float :
  forall A B M (s : seg4 float) (m : mat3 float) t, M <= Mcap -> A * M + A + B <= Mcap -> seg4_ok M s -> mat_ok A B m -> t_ok t -> pt_near (Cubic_pointAtTime FOps (Cubic_transformed FOps s m) t) (Point_transformed FOps (Cubic_pointAtTime FOps s t) m) ((276 * u * (A * M + B) + 40 * eta) + (156 * u * (A * M + A + B) + 5 * eta)).
Proof. exact cubic_transformed_commutes_float. Qed.
Theorem C09_cubic_translated_commutes_float :
  forall B M (s : seg4 float) (v : pt float) t, M + B <= Mcap -> seg4_ok M s -> pt_ok B v -> t_ok t -> pt_near (Cubic_pointAtTime FOps (Cubic_translated FOps s v) t) (Point___add__ FOps (Cubic_pointAtTime FOps s t) v) ((163 * u * (M + B) + 16 * eta) + (83 * u * (M + B) + 9 * eta)).
Proof. exact cubic_translated_commutes_float. Qed.
Theorem C09_cubic_scaled_commutes_float :
  forall A M (s : seg4 float) (k : float) t, M <= Mcap -> A * M + A <= Mcap -> seg4_ok M s -> ent_ok A k -> t_ok t -> pt_near (Cubic_pointAtTime FOps (Cubic_scaled FOps s k) t) (Point___mul__ FOps (Cubic_pointAtTime FOps s t) k) ((82 * u * (A * M) + 16 * eta) + (76 * u * (A * M + A) + 1 * eta)).
Proof. exact cubic_scaled_commutes_float. Qed.
Theorem C09_quad_transformed_commutes_example_1e11 :
  pt_near (Quad_pointAtTime FOps (Quad_transformed FOps ex_quad ex_mat) ex_t) (Point_transformed FOps (Quad_pointAtTime FOps ex_quad ex_t) ex_mat) 1e-11.
Proof. exact quad_transformed_commutes_example_1e11. Qed.

Print Assumptions C09_transformed_commutes_eval_line.
Print Assumptions C09_transformed_commutes_eval_quad.
Print Assumptions C09_transformed_commutes_eval_cubic.
Print Assumptions C09_translated_commutes_eval_line.
Print Assumptions C09_translated_commutes_eval_quad.
Print Assumptions C09_translated_commutes_eval_cubic.
Print Assumptions C09_scaled_commutes_eval_line.
Print Assumptions C09_scaled_commutes_eval_quad.
Print Assumptions C09_scaled_commutes_eval_cubic.
Print Assumptions C09_rotated_commutes_eval_line.
Print Assumptions C09_rotated_commutes_eval_quad.
Print Assumptions C09_rotated_commutes_eval_cubic.
Print Assumptions C09_compose_in_call_order.
Print Assumptions C09_scale_axes.
Print Assumptions C09_scale_uniform.
Print Assumptions C09_invert_right.
Print Assumptions C09_invert_left.
Print Assumptions C09_invert_singular_noop.
Print Assumptions C09_rotation_ccw.
Print Assumptions C09_point_rotated_spec.
Print Assumptions C09_point_rotated_fixes_centre.
Print Assumptions C09_point_rotated_preserves_distance.
Print Assumptions C09_aligned_spec_line.
Print Assumptions C09_aligned_spec_quad.
Print Assumptions C09_aligned_spec_cubic.
Print Assumptions C09_call_order_example.
Print Assumptions C09_call_order_example_swapped.
Print Assumptions C09_scale_axes_zero.
Print Assumptions C09_invert_hypotheses_satisfiable.
Print Assumptions C09_line_transformed_eval_float_close.
Print Assumptions C09_quad_transformed_eval_float_close.
Print Assumptions C09_cubic_transformed_eval_float_close.
Print Assumptions C09_cubic_eval_transformed_float_close.
Print Assumptions C09_line_transformed_commutes_float.
Print Assumptions C09_quad_transformed_commutes_float.
Print Assumptions C09_cubic_transformed_commutes_float.
Print Assumptions C09_cubic_translated_commutes_float.
Print Assumptions C09_cubic_scaled_commutes_float.
Print Assumptions C09_quad_transformed_commutes_example_1e11.
