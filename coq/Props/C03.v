(* C03 -- Extreme finding is exact and adding extremes makes segments monotone.
   Statements only; every proof is [exact <lemma of Proofs/C02.v or Proofs/C03.v>].

   MODELLED.  X_findExtremes, utils_quadraticRoots, X_splitAtTime, X_pointAtTime, X_derivative are regenerated from /repo
   on every run (Gen/, ROps instance here).  Hand/Split.v is the hand-written model of BezierPath.splitAtPoints and
   BezierPath.addExtremes at value level: [split_walk] = the pop / `t < 1e-8: continue` / splitAtTime / remap-in-place loop
   (ZeroDivisionError of mapx and fuel exhaustion are explicit error values; the theorems show neither occurs for parameters
   below 1), [splitAtPoints] = grouping of the requests in a dictionary keyed by segment VALUE (numerical equality of every
   coordinate, the observable behaviour of hash + __eq__), sorting, and the walk that CONSUMES a value's list the first time the
   value is met; [addExtremes] = splitAtPoints on the (segment, t) pairs of every findExtremes().  `self.closed` is neither
   read nor written by the two functions: it is not an input of the model, so closedness is untouched by construction.  The
   model is tied to the code by the correspondence check (bit for bit on floats).
   Vocabulary: [seg_eval s u] point of s at u; [retrace s p (a,b)]: p has the kind of s and p(u) = s(a + u (b - a)) for ALL real u;
   [windows c0 cs] consecutive windows (c0,c1),(c1,c2),..; [kept 0 ts] the requests that are actually cut (a request whose
   local parameter is below 1e-8 is skipped); [refines_seg s g]: the group g retraces s over windows of an increasing chain
   0 = c0 < c1 < .. < ck = 1; [chained l]: each element ends where the next starts; [mono_up_to e f 0 1]: f never moves
   against ONE direction (the same for the whole piece) by more than e; [piece_mono s p]: that in x and in y with
   e = sigma(extent) = 0.06% of the control-polygon extent of the ORIGINAL segment s; [genuine c]: neither derivative
   coordinate of the cubic c has a leading coefficient in the band 0 < |a| <= 1e-9 |b|.

   PROVED (all over the reals, for all segments / paths):
   - first sentence: findExtremes of a quadratic, and of a genuine cubic, is exactly the set of parameters in [0.01,0.99] where
     x' or y' changes sign; none for a line; genuineness cannot be dropped (witness);
   - mapx is the right re-parametrisation; the walk on any parameters below 1 returns one piece per window between the cuts
     kept, retracing the segment; the pieces meet exactly, start and end where the segment does; for ANY request list on ANY
     path, whenever splitAtPoints does not raise, every segment is replaced in place by pieces of its kind retracing it;
   - addExtremes never raises; on EVERY path (repeated values included) its result is, segment by segment, a run of pieces that
     retrace the segment in order over an increasing chain of windows: same curve, same order, every original node kept, a
     connected chain stays connected, same start point, same end point;
   - one coordinate on one window: if every simple zero of p' strictly inside the window lies within 1% of the parameter
     range from a window end, p is monotone up to K/10000 there (K bounds |p''|/2 at t = 0 and t = 1); exactly monotone when
     there is no simple zero inside; hence: on a path WITHOUT repeated segment values and with genuine cubics every resulting
     piece is monotone in x and in y up to 0.06% of the extent of the segment it was cut from (one direction per piece and
     coordinate), and exactly monotone when x', y' have no simple zero in the end slivers and no extreme was skipped;
   - REFUTED for repeated values (defect D14): a path that contains a segment value twice returns the second occurrence
     unsplit whatever is requested; [addExtremes_duplicate_refuted] exhibits arch, line back, same arch: the third segment of
     the result is the whole arch, not monotone in y; [splitAtPoints_duplicate_refuted] is the concrete computation for a
     single request, [duplicate_requests_collapse] shows why the FIRST occurrence is still cut correctly by addExtremes: the
     requests [1/2; 1/2] pile up under the one key, the second is remapped to mapx(1/2, 1/2) = 0 < 1e-8 and skipped.  (The
     same three computations on the float instance, i.e. what CPython returns, are Examples *_float in Proofs/C03.v.)
   - the fuel of the model's loop is never exhausted, on any carrier and any request list (the error value OutOfFuel is
     unreachable; ZeroDiv is reachable only through a request equal to 1.0 followed by another one).

   NOT covered by a theorem: (1) floating-point placement of the cuts and of the control points of the pieces (measured by the
   search: the theorems are about the real-number instance of the same program text); (2) monotonicity of the pieces of a
   NON-genuine cubic (leading derivative coefficient in the 1e-9 band: quadraticRoots then solves the truncated linear
   equation and the cut is off the true turning point by up to 1e-9 of the parameter range; structure / retrace theorems do not
   need genuineness); (3) the 1e-9 tolerance of Point.__eq__ behind a hash collision, NaN coordinates (see Hand/Split.v). *)

From Coq Require Import PrimFloat.
From Coq Require Import ZArith List Bool Reals Lra Permutation Sorted.
From BZ Require Import Base.Ops Gen.Utils Gen.Point Gen.BBox Gen.Line Gen.Quad Gen.Cubic Hand.Bounds Hand.Split Proofs.C02 Proofs.C03 Proofs.C03band.
From BZ Require Gen.Sample Gen.Split Proofs.Bridge3.
Import ListNotations.
From BZ Require Proofs.Transfer3.
Open Scope R_scope.

Theorem C03_quad_findExtremes_exact :
  forall q t, In t (Quad_findExtremes ROps q) <-> 1/100 <= t <= 99/100 /\ (sign_change (fun u => px (Line_pointAtTime ROps (Quad_derivative ROps q) u)) t \/ sign_change (fun u => py (Line_pointAtTime ROps (Quad_derivative ROps q) u)) t).
Proof. exact quad_findExtremes_exact. Qed.
Theorem C03_cubic_findExtremes_exact :
  forall c t, genuine c -> (In t (Cubic_findExtremes_False ROps c) <-> 1/100 <= t <= 99/100 /\ (sign_change (fun u => px (Quad_pointAtTime ROps (Cubic_derivative ROps c) u)) t \/ sign_change (fun u => py (Quad_pointAtTime ROps (Cubic_derivative ROps c) u)) t)).
Proof. exact cubic_findExtremes_exact. Qed.
Theorem C03_line_no_extremes :
  forall (l : seg2 R), Line_findExtremes ROps l = [].
Proof. exact line_no_extremes. Qed.
Theorem C03_cubic_findExtremes_exact_needs_genuine :
  exists c t, In t (Cubic_findExtremes_False ROps c) /\ ~ sign_change (fun u => px (Quad_pointAtTime ROps (Cubic_derivative ROps c) u)) t /\ ~ sign_change (fun u => py (Quad_pointAtTime ROps (Cubic_derivative ROps c) u)) t.
Proof. exact cubic_findExtremes_exact_needs_genuine. Qed.
Theorem C03_mapx_correct :
  forall s t1 t2, t1 <> 1 -> seg_eval (snd (seg_split ROps s t1)) (mapx ROps t2 t1) = seg_eval s t2.
Proof. exact mapx_correct. Qed.
Theorem C03_mapx_range :
  forall t1 t2, 0 <= t1 < t2 -> t2 <= 1 -> 0 < mapx ROps t2 t1 <= 1.
Proof. exact mapx_range. Qed.
Theorem C03_split_walk_retraces :
  forall s ts, List.Forall (fun t => t < 1) ts -> exists pieces, split_walk ROps s ts = Ok pieces /\ Forall2 (retrace s) pieces (windows 0 (kept 0 ts ++ [1])).
Proof. exact split_walk_retraces. Qed.
Theorem C03_split_walk_count :
  forall s ts, List.Forall (fun t => t < 1) ts -> well_separated 0 ts -> exists pieces, split_walk ROps s ts = Ok pieces /\ length pieces = S (length ts) /\ Forall2 (retrace s) pieces (windows 0 (ts ++ [1])).
Proof. exact split_walk_count. Qed.
Theorem C03_split_walk_retraces_any :
  forall cur ts pieces, split_walk ROps cur ts = Ok pieces -> exists cs, Forall2 (retrace cur) pieces (windows 0 (cs ++ [1])).
Proof. exact split_walk_retraces_any. Qed.
Theorem C03_split_walk_chain :
  forall s ts pieces, List.Forall (fun t => t < 1) ts -> split_walk ROps s ts = Ok pieces -> chained pieces.
Proof. exact split_walk_chain. Qed.
Theorem C03_split_walk_ends :
  forall s ts pieces, List.Forall (fun t => t < 1) ts -> split_walk ROps s ts = Ok pieces -> exists p ps, pieces = p :: ps /\ seg_start p = seg_start s /\ seg_end (last_seg p ps) = seg_end s.
Proof. exact split_walk_ends. Qed.
Theorem C03_splitAtPoints_abs :
  forall segs sl, splitAtPoints ROps segs sl = walk_abs (fun k => sort_ ROps (requests k sl)) segs.
Proof. exact splitAtPoints_abs. Qed.
Theorem C03_splitAtPoints_retraces :
  forall segs sl out, splitAtPoints ROps segs sl = Ok out -> exists groups, out = concat groups /\ Forall2 retraces_seg segs groups.
Proof. exact splitAtPoints_retraces. Qed.
Theorem C03_addExtremes_same_trace :
  forall segs, exists out groups, addExtremes ROps segs = Ok out /\ out = concat groups /\ Forall2 refines_seg segs groups.
Proof. exact addExtremes_same_trace. Qed.
Theorem C03_addExtremes_keeps_nodes :
  forall segs out, addExtremes ROps segs = Ok out -> forall s, In s segs -> (exists p, In p out /\ seg_start p = seg_start s) /\ (exists p, In p out /\ seg_end p = seg_end s).
Proof. exact addExtremes_keeps_nodes. Qed.
Theorem C03_addExtremes_wf :
  forall segs out, addExtremes ROps segs = Ok out -> chained segs -> match segs with | [] => out = [] | s0 :: rest => exists p ps, out = p :: ps /\ chained out /\ seg_start p = seg_start s0 /\ seg_end (last_seg p ps) = seg_end (last_seg s0 rest) end.
Proof. exact addExtremes_wf. Qed.
Theorem C03_cpoly_piece_monotone :
  forall A B C D K a b, 0 <= a -> a <= b -> b <= 1 -> Rabs B <= K -> Rabs (3*A + B) <= K -> (forall r, a < r < b -> simple_zero A B C r -> r - a < 1/100 \/ b - r < 1/100) -> mono_up_to (K / 10000) (cpoly A B C D) a b.
Proof. exact cpoly_piece_monotone. Qed.
Theorem C03_cpoly_piece_monotone_exact :
  forall A B C D a b, (forall r, a < r < b -> ~ simple_zero A B C r) -> inc_on (cpoly A B C D) a b \/ dec_on (cpoly A B C D) a b.
Proof. exact cpoly_piece_monotone_exact. Qed.
Theorem C03_piece_monotone :
  forall s g, genuine_seg s -> split_walk ROps s (sort_ ROps (seg_extremes ROps s)) = Ok g -> forall p, In p g -> piece_mono s p.
Proof. exact piece_monotone. Qed.
Theorem C03_piece_monotone_exact :
  forall s g, genuine_seg s -> no_sliver_turn s -> (forall r, In r (seg_extremes ROps s) -> In r (kept 0 (sort_ ROps (seg_extremes ROps s)))) -> split_walk ROps s (sort_ ROps (seg_extremes ROps s)) = Ok g -> forall p, In p g -> piece_mono_exact p.
Proof. exact piece_monotone_exact. Qed.
Theorem C03_addExtremes_monotone :
  forall segs, NoDup segs -> (forall s, In s segs -> genuine_seg s) -> exists out groups, addExtremes ROps segs = Ok out /\ out = concat groups /\ Forall2 (fun s g => refines_seg s g /\ forall p, In p g -> piece_mono s p) segs groups.
Proof. exact addExtremes_monotone. Qed.
Theorem C03_addExtremes_monotone_pieces :
  forall segs out, NoDup segs -> (forall s, In s segs -> genuine_seg s) -> addExtremes ROps segs = Ok out -> forall p, In p out -> exists s, In s segs /\ piece_mono s p.
Proof. exact addExtremes_monotone_pieces. Qed.
Theorem C03_splitAtPoints_duplicate_unsplit :
  forall l1 s l2 l3 sl out, splitAtPoints ROps (l1 ++ s :: l2 ++ s :: l3) sl = Ok out -> In s out.
Proof. exact splitAtPoints_duplicate_unsplit. Qed.
Theorem C03_addExtremes_duplicate_refuted :
  exists segs out p, chained segs /\ addExtremes ROps segs = Ok out /\ In p out /\ forall s, In s segs -> same_kind s p -> ~ piece_mono s p.
Proof. exact addExtremes_duplicate_refuted. Qed.
Theorem C03_splitAtPoints_duplicate_refuted :
  splitAtPoints ROps [arch_q; back_l; arch_q] [(arch_q, 1/2)] = Ok [SQuad (Q3 (P 0 0) (P 25 50) (P 50 50)); SQuad (Q3 (P 50 50) (P 75 50) (P 100 0)); back_l; arch_q].
Proof. exact splitAtPoints_duplicate_refuted. Qed.
Theorem C03_duplicate_requests_collapse :
  split_walk ROps arch_q [1/2; 1/2] = Ok [SQuad (Q3 (P 0 0) (P 25 50) (P 50 50)); SQuad (Q3 (P 50 50) (P 75 50) (P 100 0))].
Proof. exact duplicate_requests_collapse. Qed.
Theorem C03_split_walk_never_out_of_fuel :
  forall (T : Type) (O : Ops T) n seg ts, le (length ts) n -> split_walk_fuel O n seg ts <> OutOfFuel.
Proof. exact split_walk_never_out_of_fuel. Qed.
Theorem C03_splitAtPoints_never_out_of_fuel :
  forall (T : Type) (O : Ops T) segs sl, splitAtPoints O segs sl <> OutOfFuel.
Proof. exact splitAtPoints_never_out_of_fuel. Qed.
Theorem C03_well_separated_example :
  well_separated 0 [1/4; 1/2] /\ List.Forall (fun t => t < 1) [1/4; 1/2].
Proof. exact well_separated_example. Qed.
Theorem C03_monotone_hyps_example :
  let segs := [SCubic arch; SLine (L2 (P 100 0) (P 0 0))] in NoDup segs /\ (forall s, In s segs -> genuine_seg s) /\ chained segs.
Proof. exact monotone_hyps_example. Qed.
Theorem C03_arch_pieces_exactly_monotone :
  exists g, split_walk ROps (SCubic arch) (sort_ ROps (seg_extremes ROps (SCubic arch))) = Ok g /\ forall p, In p g -> piece_mono_exact p.
Proof. exact arch_pieces_exactly_monotone. Qed.
Theorem C03_cpoly_piece_monotone_band :
  forall A B C D E a b, in_band (3*A) (2*B) -> Rabs B <= 4 * E + Rabs A -> 0 <= a -> a <= b -> b <= 1 -> (forall r, a < r < b -> dcpoly A B C r = 0 -> r - a <= 1/100 + 2 * tiny \/ b - r <= 1/100 + 2 * tiny) -> mono_up_to (sigma E) (cpoly A B C D) a b.
Proof. exact cpoly_piece_monotone_band. Qed.
Theorem C03_piece_monotone_total :
  forall s g, split_walk ROps s (sort_ ROps (seg_extremes ROps s)) = Ok g -> forall p, In p g -> piece_mono s p.
Proof. exact piece_monotone_total. Qed.
Theorem C03_addExtremes_monotone_total :
  forall segs, NoDup segs -> exists out groups, addExtremes ROps segs = Ok out /\ out = concat groups /\ Forall2 (fun s g => refines_seg s g /\ forall p, In p g -> piece_mono s p) segs groups.
Proof. exact addExtremes_monotone_total. Qed.
Theorem C03_addExtremes_monotone_pieces_total :
  forall segs out, NoDup segs -> addExtremes ROps segs = Ok out -> forall p, In p out -> exists s, In s segs /\ piece_mono s p.
Proof. exact addExtremes_monotone_pieces_total. Qed.
Theorem C03_band_arch_not_genuine :
  ~ genuine band_arch.
Proof. exact band_arch_not_genuine. Qed.
Theorem C03_band_arch_pieces_monotone :
  ~ genuine_seg (SCubic band_arch) /\ In (1/2) (seg_extremes ROps (SCubic band_arch)) /\ px (Quad_pointAtTime ROps (Cubic_derivative ROps band_arch) (1/2)) <> 0 /\ exists g, split_walk ROps (SCubic band_arch) (sort_ ROps (seg_extremes ROps (SCubic band_arch))) = Ok g /\ forall p, In p g -> piece_mono (SCubic band_arch) p.
Proof. exact band_arch_pieces_monotone. Qed.
Theorem C03_band_arch_path :
  let segs := [SCubic band_arch; SLine (L2 (P (2/10000000000) 0) (P 0 0))] in NoDup segs /\ ~ (forall s, In s segs -> genuine_seg s) /\ exists out, addExtremes ROps segs = Ok out /\ forall p, In p out -> exists s, In s segs /\ piece_mono s p.
Proof. exact band_arch_path. Qed.
(* the split walk of the hand model IS the one regenerated from BezierPath.splitAtPoints / addExtremes (value-keyed dict idioms, sorted, pop(0), the
   re-mapping; Proofs/Bridge3.v): whenever the hand model returns Ok the regenerated function returns the same list, given fuel > number of requests *)
Theorem C03_splitAtPoints_is_generated :
  forall (T : Type) (O : Ops T) (fuel : nat) (segs : list (segment T)) (sl : list (segment T * T)) (r : list (segment T)), splitAtPoints O segs sl = Ok r -> (length sl < fuel)%nat -> Gen.Split.Path_splitAtPoints O fuel segs sl = Some r.
Proof. exact @Bridge3.splitAtPoints_gen. Qed.
Theorem C03_addExtremes_is_generated :
  forall (T : Type) (O : Ops T) (fuel : nat) (segs r : list (segment T)), addExtremes O segs = Ok r -> (length (extremes_splitlist O segs) < fuel)%nat -> Gen.Split.Path_addExtremes O fuel segs = Some r.
Proof. exact @Bridge3.addExtremes_gen. Qed.
Theorem C03_gen_addExtremes_same_trace :
  forall (fuel : nat) (segs : list (segment R)), (Transfer3.C03T.extremes_count segs < fuel)%nat -> exists (out : list (segment R)) (groups : list (list (segment R))), Split.Path_addExtremes ROps fuel segs = Some out /\ out = concat groups /\ Forall2 refines_seg segs groups.
Proof. exact @Transfer3.C03T.gen_addExtremes_same_trace. Qed.
Theorem C03_gen_addExtremes_keeps_nodes :
  forall (fuel : nat) (segs out : list (segment R)), (Transfer3.C03T.extremes_count segs < fuel)%nat -> Split.Path_addExtremes ROps fuel segs = Some out -> forall s : segment R, In s segs -> (exists p : segment R, In p out /\ seg_start p = seg_start s) /\ (exists p : segment R, In p out /\ seg_end p = seg_end s).
Proof. exact @Transfer3.C03T.gen_addExtremes_keeps_nodes. Qed.
Theorem C03_gen_addExtremes_wf :
  forall (fuel : nat) (segs out : list (segment R)), (Transfer3.C03T.extremes_count segs < fuel)%nat -> Split.Path_addExtremes ROps fuel segs = Some out -> chained segs -> match segs with | [] => out = [] | s0 :: rest => exists (p : segment R) (ps : list (segment R)), out = p :: ps /\ chained out /\ seg_start p = seg_start s0 /\ seg_end (last_seg p ps) = seg_end (last_seg s0 rest) end.
Proof. exact @Transfer3.C03T.gen_addExtremes_wf. Qed.
Theorem C03_gen_addExtremes_monotone_total :
  forall (fuel : nat) (segs : list (segment R)), (Transfer3.C03T.extremes_count segs < fuel)%nat -> NoDup segs -> exists (out : list (segment R)) (groups : list (list (segment R))), Split.Path_addExtremes ROps fuel segs = Some out /\ out = concat groups /\ Forall2 (fun (s : segment R) (g : list (segment R)) => refines_seg s g /\ (forall p : segment R, In p g -> piece_mono s p)) segs groups.
Proof. exact @Transfer3.C03T.gen_addExtremes_monotone_total. Qed.
Theorem C03_gen_addExtremes_monotone_pieces_total :
  forall (fuel : nat) (segs out : list (segment R)), (Transfer3.C03T.extremes_count segs < fuel)%nat -> NoDup segs -> Split.Path_addExtremes ROps fuel segs = Some out -> forall p : segment R, In p out -> exists s : segment R, In s segs /\ piece_mono s p.
Proof. exact @Transfer3.C03T.gen_addExtremes_monotone_pieces_total. Qed.
Theorem C03_gen_addExtremes_duplicate_refuted :
  exists (segs out : list (segment R)) (p : segment R), chained segs /\ (forall fuel : nat, (Transfer3.C03T.extremes_count segs < fuel)%nat -> Split.Path_addExtremes ROps fuel segs = Some out) /\ In p out /\ (forall s : segment R, In s segs -> same_kind s p -> ~ piece_mono s p).
Proof. exact @Transfer3.C03T.gen_addExtremes_duplicate_refuted. Qed.
Theorem C03_gen_splitAtPoints_retraces :
  forall (fuel : nat) (segs : list (segment R)) (sl : list (segment R * R)), (length sl < fuel)%nat -> Forall (fun p : segment R * R => snd p < 1) sl -> exists (out : list (segment R)) (groups : list (list (segment R))), Split.Path_splitAtPoints ROps fuel segs sl = Some out /\ out = concat groups /\ Forall2 retraces_seg segs groups.
Proof. exact @Transfer3.C03T.gen_splitAtPoints_retraces. Qed.
Theorem C03_gen_splitAtPoints_duplicate_unsplit :
  forall (fuel : nat) (l1 : list (segment R)) (s : segment R) (l2 l3 : list (segment R)) (sl : list (segment R * R)), (length sl < fuel)%nat -> Forall (fun p : segment R * R => snd p < 1) sl -> exists out : list (segment R), Split.Path_splitAtPoints ROps fuel (l1 ++ s :: l2 ++ s :: l3) sl = Some out /\ In s out.
Proof. exact @Transfer3.C03T.gen_splitAtPoints_duplicate_unsplit. Qed.

Print Assumptions C03_quad_findExtremes_exact.
Print Assumptions C03_cubic_findExtremes_exact.
Print Assumptions C03_line_no_extremes.
Print Assumptions C03_cubic_findExtremes_exact_needs_genuine.
Print Assumptions C03_mapx_correct.
Print Assumptions C03_mapx_range.
Print Assumptions C03_split_walk_retraces.
Print Assumptions C03_split_walk_count.
Print Assumptions C03_split_walk_retraces_any.
Print Assumptions C03_split_walk_chain.
Print Assumptions C03_split_walk_ends.
Print Assumptions C03_splitAtPoints_abs.
Print Assumptions C03_splitAtPoints_retraces.
Print Assumptions C03_addExtremes_same_trace.
Print Assumptions C03_addExtremes_keeps_nodes.
Print Assumptions C03_addExtremes_wf.
Print Assumptions C03_cpoly_piece_monotone.
Print Assumptions C03_cpoly_piece_monotone_exact.
Print Assumptions C03_piece_monotone.
Print Assumptions C03_piece_monotone_exact.
Print Assumptions C03_addExtremes_monotone.
Print Assumptions C03_addExtremes_monotone_pieces.
Print Assumptions C03_splitAtPoints_duplicate_unsplit.
Print Assumptions C03_addExtremes_duplicate_refuted.
Print Assumptions C03_splitAtPoints_duplicate_refuted.
Print Assumptions C03_duplicate_requests_collapse.
Print Assumptions C03_split_walk_never_out_of_fuel.
Print Assumptions C03_splitAtPoints_never_out_of_fuel.
Print Assumptions C03_well_separated_example.
Print Assumptions C03_monotone_hyps_example.
Print Assumptions C03_arch_pieces_exactly_monotone.
Print Assumptions C03_cpoly_piece_monotone_band.
Print Assumptions C03_piece_monotone_total.
Print Assumptions C03_addExtremes_monotone_total.
Print Assumptions C03_addExtremes_monotone_pieces_total.
Print Assumptions C03_band_arch_not_genuine.
Print Assumptions C03_band_arch_pieces_monotone.
Print Assumptions C03_band_arch_path.
Print Assumptions C03_splitAtPoints_is_generated.
Print Assumptions C03_addExtremes_is_generated.
Print Assumptions C03_gen_addExtremes_same_trace.
Print Assumptions C03_gen_addExtremes_keeps_nodes.
Print Assumptions C03_gen_addExtremes_wf.
Print Assumptions C03_gen_addExtremes_monotone_total.
Print Assumptions C03_gen_addExtremes_monotone_pieces_total.
Print Assumptions C03_gen_addExtremes_duplicate_refuted.
Print Assumptions C03_gen_splitAtPoints_retraces.
Print Assumptions C03_gen_splitAtPoints_duplicate_unsplit.
