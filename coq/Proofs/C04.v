(* C04: arc length (24-point Gauss-Legendre quadrature of the speed) is accurate, and invariant under rigid motion. *)
From Coq Require Import PrimFloat.
From Coq Require Import ZArith List Bool Reals Lra Lia Psatz.
From Coq Require Import QArith Qreals.
From BZ Require Import Base.Ops Proofs.Tactics Gen.Point Gen.Line Gen.Quad Gen.Cubic.
Import ListNotations.
Open Scope R_scope.

(* ------------------------------------------------------------------------------------------------ *)
(* 1. The quadrature rule as a structured specification                                             *)
(* ------------------------------------------------------------------------------------------------ *)

(* The positive half of the table of utils/legendregauss.py: (T, C) as the exact decimal values of the Python
   literals, written as the reduced fractions the translator emits. *)
Definition gl_half : list (R * R) := [
  (IZR 640568928626056260850430826247450385909 / IZR 10000000000000000000000000000000000000000,
   IZR 1279381953467521569740561652246953718517 / IZR 10000000000000000000000000000000000000000);
  (IZR 477797168684040772896599551892674079601 / IZR 2500000000000000000000000000000000000000,
   IZR 39324205108383842537929807034744902727 / IZR 312500000000000000000000000000000000000);
  (IZR 393803349620204217983491614149762800983 / IZR 1250000000000000000000000000000000000000,
   IZR 121670472927803391204463153476262425607 / IZR 1000000000000000000000000000000000000000);
  (IZR 1084483769065112846217710579783374281131 / IZR 2500000000000000000000000000000000000000,
   IZR 577528340268628006766722419533917799311 / IZR 5000000000000000000000000000000000000000);
  (IZR 5454214713888395356583756172183723700107 / IZR 10000000000000000000000000000000000000000,
   IZR 537221350579828173912886712233031113973 / IZR 5000000000000000000000000000000000000000);
  (IZR 810117064921219461565619733638434533337 / IZR 1250000000000000000000000000000000000000,
   IZR 976186521041138882698806644642471544279 / IZR 10000000000000000000000000000000000000000);
  (IZR 28911101233537279853274535277342907247 / IZR 39062500000000000000000000000000000000,
   IZR 17238032306390655183437040596748533437 / IZR 200000000000000000000000000000000000000);
  (IZR 8200019859739029219539498726697452080761 / IZR 10000000000000000000000000000000000000000,
   IZR 733464814110803057340336152531165181193 / IZR 10000000000000000000000000000000000000000);
  (IZR 8864155270044010342131543419821967550873 / IZR 10000000000000000000000000000000000000000,
   IZR 148246462288591951865919396250271461353 / IZR 2500000000000000000000000000000000000000);
  (IZR 2345686380006831896309122504271803624137 / IZR 2500000000000000000000000000000000000000,
   IZR 442774388174198061686027482113382288593 / IZR 10000000000000000000000000000000000000000);
  (IZR 9747285559713094981983919930081690617411 / IZR 10000000000000000000000000000000000000000,
   IZR 285313886289336631813078159518782864491 / IZR 10000000000000000000000000000000000000000);
  (IZR 1990374439994042720359994819401473623749 / IZR 2000000000000000000000000000000000000000,
   IZR 123412297999871995468056670700372915759 / IZR 10000000000000000000000000000000000000000)].

Definition gl_half_Q : list (Q * Q) := [
  (640568928626056260850430826247450385909 # 10000000000000000000000000000000000000000,
   1279381953467521569740561652246953718517 # 10000000000000000000000000000000000000000);
  (477797168684040772896599551892674079601 # 2500000000000000000000000000000000000000,
   39324205108383842537929807034744902727 # 312500000000000000000000000000000000000);
  (393803349620204217983491614149762800983 # 1250000000000000000000000000000000000000,
   121670472927803391204463153476262425607 # 1000000000000000000000000000000000000000);
  (1084483769065112846217710579783374281131 # 2500000000000000000000000000000000000000,
   577528340268628006766722419533917799311 # 5000000000000000000000000000000000000000);
  (5454214713888395356583756172183723700107 # 10000000000000000000000000000000000000000,
   537221350579828173912886712233031113973 # 5000000000000000000000000000000000000000);
  (810117064921219461565619733638434533337 # 1250000000000000000000000000000000000000,
   976186521041138882698806644642471544279 # 10000000000000000000000000000000000000000);
  (28911101233537279853274535277342907247 # 39062500000000000000000000000000000000,
   17238032306390655183437040596748533437 # 200000000000000000000000000000000000000);
  (8200019859739029219539498726697452080761 # 10000000000000000000000000000000000000000,
   733464814110803057340336152531165181193 # 10000000000000000000000000000000000000000);
  (8864155270044010342131543419821967550873 # 10000000000000000000000000000000000000000,
   148246462288591951865919396250271461353 # 2500000000000000000000000000000000000000);
  (2345686380006831896309122504271803624137 # 2500000000000000000000000000000000000000,
   442774388174198061686027482113382288593 # 10000000000000000000000000000000000000000);
  (9747285559713094981983919930081690617411 # 10000000000000000000000000000000000000000,
   285313886289336631813078159518782864491 # 10000000000000000000000000000000000000000);
  (1990374439994042720359994819401473623749 # 2000000000000000000000000000000000000000,
   123412297999871995468056670700372915759 # 10000000000000000000000000000000000000000)]%Q.

(* the 24 (T_i, C_i) in the order of the generated code: -T, +T for each entry of the half table *)
Definition gl_nodes : list (R * R) :=
  flat_map (fun p => [(- fst p, snd p); (fst p, snd p)]) gl_half.

Definition gl_length (speed : R -> R) : R :=
  fold_left (fun acc p => acc + snd p * speed (1/2 * fst p + 1/2)) gl_nodes 0 * (1/2).

Definition norm2 (x y : R) : R := sqrt (x * x + y * y).
Definition cubic_dx (s : seg4 R) (t : R) : R := px (Quad_pointAtTime ROps (Cubic_derivative ROps s) t).
Definition cubic_dy (s : seg4 R) (t : R) : R := py (Quad_pointAtTime ROps (Cubic_derivative ROps s) t).
Definition quad_dx (s : seg3 R) (t : R) : R := px (Line_pointAtTime ROps (Quad_derivative ROps s) t).
Definition quad_dy (s : seg3 R) (t : R) : R := py (Line_pointAtTime ROps (Quad_derivative ROps s) t).
Definition cubic_speed (s : seg4 R) (t : R) : R := norm2 (cubic_dx s t) (cubic_dy s t).
Definition quad_speed (s : seg3 R) (t : R) : R := norm2 (quad_dx s t) (quad_dy s t).

(* the generated, unrolled definitions are this rule applied to the speed |B'(t)| *)
Lemma cubic_length_is_gl (s : seg4 R) :
  Cubic_length ROps s =
  gl_length (fun t => sqrt (cubic_dx s t * cubic_dx s t + cubic_dy s t * cubic_dy s t)).
Proof. first [ reflexivity | unfold gl_length, cubic_dx, cubic_dy; rcbv; ring ]. Qed.
Lemma quad_length_is_gl (s : seg3 R) :
  Quad_length ROps s =
  gl_length (fun t => sqrt (quad_dx s t * quad_dx s t + quad_dy s t * quad_dy s t)).
Proof. first [ reflexivity | unfold gl_length, quad_dx, quad_dy; rcbv; ring ]. Qed.
Lemma cubic_length_speed (s : seg4 R) : Cubic_length ROps s = gl_length (cubic_speed s).
Proof. exact (cubic_length_is_gl s). Qed.
Lemma quad_length_speed (s : seg3 R) : Quad_length ROps s = gl_length (quad_speed s).
Proof. exact (quad_length_is_gl s). Qed.

(* ------------------------------------------------------------------------------------------------ *)
(* 2. Generic facts about the rule (over an arbitrary half table, then instantiated)                 *)
(* ------------------------------------------------------------------------------------------------ *)
Definition sumR (l : list R) : R := fold_right Rplus 0 l.
Definition node (T : R) : R := 1/2 * T + 1/2.
(* contribution of a symmetric pair of nodes *)
Definition pair_term (f : R -> R) (p : R * R) : R := snd p * f (node (- fst p)) + snd p * f (node (fst p)).
Definition glh (l : list (R * R)) (f : R -> R) : R := sumR (map (pair_term f) l).

Lemma fold_left_acc (g : R * R -> R) (l : list (R * R)) (a : R) :
  fold_left (fun acc p => acc + g p) l a = a + sumR (map g l).
Proof.
  revert a; induction l as [|p l IH]; intro a; cbn [fold_left map sumR fold_right].
  - ring.
  - rewrite IH. unfold sumR. ring.
Qed.
Lemma sumR_flat_pairs (g : R * R -> R) (l : list (R * R)) :
  sumR (map g (flat_map (fun p => [(- fst p, snd p); (fst p, snd p)]) l)) =
  sumR (map (fun p => g (- fst p, snd p) + g (fst p, snd p)) l).
Proof.
  induction l as [|p l IH]; cbn [flat_map map sumR fold_right app]; [reflexivity|].
  unfold sumR in IH. rewrite IH. ring.
Qed.
Lemma gl_length_glh (f : R -> R) : gl_length f = glh gl_half f * (1/2).
Proof.
  unfold gl_length, gl_nodes. rewrite fold_left_acc, sumR_flat_pairs.
  unfold glh, pair_term, node. cbn [fst snd]. ring.
Qed.

Lemma glh_ext l f g : (forall t, f t = g t) -> glh l f = glh l g.
Proof.
  intro H. unfold glh. f_equal. apply map_ext. intro p. unfold pair_term. now rewrite !H.
Qed.
Lemma glh_scal l k f : glh l (fun t => k * f t) = k * glh l f.
Proof.
  unfold glh. induction l as [|p l IH]; cbn [map sumR fold_right]; [ring|].
  unfold sumR in IH. rewrite IH. unfold pair_term. ring.
Qed.
Lemma glh_plus l f g : glh l (fun t => f t + g t) = glh l f + glh l g.
Proof.
  unfold glh. induction l as [|p l IH]; cbn [map sumR fold_right]; [ring|].
  unfold sumR in IH. rewrite IH. unfold pair_term. ring.
Qed.
Lemma glh_reflect l f : glh l (fun t => f (1 - t)) = glh l f.
Proof.
  unfold glh. induction l as [|p l IH]; cbn [map sumR fold_right]; [reflexivity|].
  unfold sumR in IH. rewrite IH. unfold pair_term, node.
  replace (1 - (1/2 * - fst p + 1/2)) with (1/2 * fst p + 1/2) by field.
  replace (1 - (1/2 * fst p + 1/2)) with (1/2 * - fst p + 1/2) by field.
  ring.
Qed.
Definition half_ok (p : R * R) : Prop := 0 < snd p /\ 0 < fst p < 1.
Lemma node_range T : -1 < T < 1 -> 0 < node T < 1.
Proof. unfold node; intros; lra. Qed.
Lemma glh_le l f g :
  Forall half_ok l -> (forall t, 0 < t < 1 -> f t <= g t) -> glh l f <= glh l g.
Proof.
  intros Hl H. unfold glh. induction Hl as [|p l Hp Hl IH]; cbn [map sumR fold_right]; [lra|].
  destruct Hp as [Hc Ht].
  unfold sumR in IH. apply Rplus_le_compat; [|exact IH]. unfold pair_term.
  assert (H1 : f (node (- fst p)) <= g (node (- fst p))) by (apply H, node_range; lra).
  assert (H2 : f (node (fst p)) <= g (node (fst p))) by (apply H, node_range; lra).
  nra.
Qed.

(* the same facts for the rule itself *)
Lemma gl_length_ext f g : (forall t, f t = g t) -> gl_length f = gl_length g.
Proof. intro H. rewrite !gl_length_glh. now rewrite (glh_ext _ f g H). Qed.
Lemma gl_length_scal k f : gl_length (fun t => k * f t) = k * gl_length f.
Proof. rewrite !gl_length_glh, glh_scal. ring. Qed.
Lemma gl_length_plus f g : gl_length (fun t => f t + g t) = gl_length f + gl_length g.
Proof. rewrite !gl_length_glh, glh_plus. ring. Qed.
Lemma gl_length_reflect f : gl_length (fun t => f (1 - t)) = gl_length f.
Proof. rewrite !gl_length_glh, glh_reflect. ring. Qed.

(* ------------------------------------------------------------------------------------------------ *)
(* 3. The table: shape (exact rational computation)                                                 *)
(* ------------------------------------------------------------------------------------------------ *)
Definition Q2R2 (p : Q * Q) : R * R := (Q2R (fst p), Q2R (snd p)).
Lemma gl_half_Q2R : gl_half = map Q2R2 gl_half_Q.
Proof. reflexivity. Qed.

Definition qltb (a b : Q) : bool := if Qlt_le_dec a b then true else false.
Definition half_okQ (p : Q * Q) : bool := (qltb 0 (snd p) && qltb 0 (fst p) && qltb (fst p) 1)%bool.
Lemma half_okQ_ok p : half_okQ p = true -> half_ok (Q2R2 p).
Proof.
  unfold half_okQ, half_ok, Q2R2, qltb; cbn [fst snd].
  destruct (Qlt_le_dec 0 (snd p)) as [H1|]; [|discriminate].
  destruct (Qlt_le_dec 0 (fst p)) as [H2|]; [|discriminate].
  destruct (Qlt_le_dec (fst p) 1) as [H3|]; [|discriminate]. intros _.
  apply Qlt_Rlt in H1, H2, H3. rewrite RMicromega.Q2R_0 in H1, H2. rewrite RMicromega.Q2R_1 in H3. lra.
Qed.
Lemma gl_half_ok : Forall half_ok gl_half.
Proof.
  rewrite gl_half_Q2R. apply Forall_forall. intros p Hp. apply in_map_iff in Hp.
  destruct Hp as [q [<- Hq]]. apply half_okQ_ok.
  assert (Hall : forallb half_okQ gl_half_Q = true) by (vm_compute; reflexivity).
  rewrite forallb_forall in Hall. now apply Hall.
Qed.

(* the nodes come in 12 symmetric pairs (-T, C), (T, C) with C > 0 and 0 < T < 1 *)
Lemma gl_table_shape :
  gl_nodes = flat_map (fun p => [(- fst p, snd p); (fst p, snd p)]) gl_half /\
  length gl_half = 12%nat /\ length gl_nodes = 24%nat /\
  Forall (fun p => 0 < snd p /\ 0 < fst p < 1) gl_half /\
  Forall (fun p => 0 < snd p /\ -1 < fst p < 1 /\ 0 < 1/2 * fst p + 1/2 < 1) gl_nodes.
Proof.
  split; [reflexivity|]. split; [reflexivity|]. split; [reflexivity|]. split; [exact gl_half_ok|].
  unfold gl_nodes. assert (H := gl_half_ok). induction H as [|p l Hp Hl IH]; cbn [flat_map app]; [constructor|].
  destruct Hp as [Hc Ht]. repeat (constructor; [cbn [fst snd]; lra|]). exact IH.
Qed.

Lemma gl_length_le f g : (forall t, 0 < t < 1 -> f t <= g t) -> gl_length f <= gl_length g.
Proof. intro H. rewrite !gl_length_glh. assert (H1 := glh_le _ f g gl_half_ok H). lra. Qed.
Lemma gl_length_nonneg f : (forall t, 0 < t < 1 -> 0 <= f t) -> 0 <= gl_length f.
Proof.
  intro H. replace 0 with (gl_length (fun _ => 0)); [now apply gl_length_le|].
  replace (fun _ : R => 0) with (fun t : R => 0 * 0) by (apply (f_equal (fun x : R => fun _ : R => x)); ring).
  rewrite (gl_length_scal 0 (fun _ => 0)). ring.
Qed.

(* ------------------------------------------------------------------------------------------------ *)
(* 4. The table: moments (exact rational computation), i.e. polynomials of degree <= 5 are          *)
(*    integrated over [0,1] exactly up to the rounding of the table itself                           *)
(* ------------------------------------------------------------------------------------------------ *)
Fixpoint qpow (q : Q) (k : nat) : Q := match k with O => 1%Q | S k' => (q * qpow q k')%Q end.
Definition nodeQ (T : Q) : Q := ((1#2) * T + (1#2))%Q.
Definition pair_termQ (k : nat) (p : Q * Q) : Q :=
  (snd p * qpow (nodeQ (- fst p)) k + snd p * qpow (nodeQ (fst p)) k)%Q.
(* reduced to lowest terms at each step, only to keep the numerators small *)
Definition momQ (k : nat) : Q :=
  (fold_right (fun x acc => Qred (Qred x + acc)) 0%Q (map (pair_termQ k) gl_half_Q) * (1#2))%Q.
Lemma Q2R_Qred q : Q2R (Qred q) = Q2R q.
Proof. apply Qeq_eqR, Qred_correct. Qed.

Lemma Q2R_half : Q2R (1#2) = 1/2.
Proof. unfold Q2R; cbn [Qnum Qden]. field. Qed.
Lemma Q2R_qpow q k : Q2R (qpow q k) = Q2R q ^ k.
Proof. induction k as [|k IH]; cbn [qpow pow]; [apply RMicromega.Q2R_1| now rewrite Q2R_mult, IH]. Qed.
Lemma Q2R_nodeQ T : Q2R (nodeQ T) = node (Q2R T).
Proof. unfold nodeQ, node. now rewrite Q2R_plus, Q2R_mult, Q2R_half. Qed.
Lemma Q2R_pair_term k p : Q2R (pair_termQ k p) = pair_term (fun t => t ^ k) (Q2R2 p).
Proof.
  unfold pair_termQ, pair_term, Q2R2; cbn [fst snd].
  now rewrite Q2R_plus, !Q2R_mult, !Q2R_qpow, !Q2R_nodeQ, Q2R_opp.
Qed.
Lemma Q2R_momQ k : Q2R (momQ k) = gl_length (fun t => t ^ k).
Proof.
  rewrite gl_length_glh, gl_half_Q2R. unfold momQ, glh. rewrite Q2R_mult, Q2R_half. f_equal.
  induction gl_half_Q as [|p l IH]; cbn [map fold_right sumR]; [apply RMicromega.Q2R_0|].
  rewrite Q2R_Qred, Q2R_plus, Q2R_Qred, Q2R_pair_term. unfold sumR in IH. now rewrite IH.
Qed.

Definition mom_okQ (k : nat) (eps : Q) : bool :=
  let e := (momQ k - (1 # Pos.of_nat (S k)))%Q in
  (Qle_bool (- eps) e && Qle_bool e eps)%bool.
Lemma mom_ok k eps : mom_okQ k eps = true ->
  Rabs (gl_length (fun t => t ^ k) - Q2R (1 # Pos.of_nat (S k))) <= Q2R eps.
Proof.
  unfold mom_okQ. intro H. apply andb_prop in H. destruct H as [H1 H2].
  apply Qle_bool_iff, Qle_Rle in H1, H2. rewrite Q2R_minus, Q2R_momQ in H1, H2.
  rewrite Q2R_opp in H1. apply Rabs_le. lra.
Qed.
Definition eps39 : Q := 1 # 1000000000000000000000000000000000000000.
Lemma Q2R_eps39 : Q2R eps39 = / 10 ^ 39.
Proof. unfold Q2R, eps39; cbn [Qnum Qden]. rewrite pow_IZR, Rmult_1_l. reflexivity. Qed.

Lemma gl_moment_39 (k : nat) (c : R) :
  mom_okQ k eps39 = true -> Q2R (1 # Pos.of_nat (S k)) = c ->
  Rabs (gl_length (fun t => t ^ k) - c) <= / 10 ^ 39.
Proof. intros H <-. rewrite <- Q2R_eps39. now apply mom_ok. Qed.
Ltac moment_tac := apply gl_moment_39; [vm_compute; reflexivity | unfold Q2R; cbn; lra].

Lemma gl_moment_0 : Rabs (gl_length (fun t => t ^ 0) - 1) <= / 10 ^ 39.
Proof. moment_tac. Qed.
Lemma gl_moment_1 : Rabs (gl_length (fun t => t ^ 1) - 1/2) <= / 10 ^ 39.
Proof. moment_tac. Qed.
Lemma gl_moment_2 : Rabs (gl_length (fun t => t ^ 2) - 1/3) <= / 10 ^ 39.
Proof. moment_tac. Qed.
Lemma gl_moment_3 : Rabs (gl_length (fun t => t ^ 3) - 1/4) <= / 10 ^ 39.
Proof. moment_tac. Qed.
Lemma gl_moment_4 : Rabs (gl_length (fun t => t ^ 4) - 1/5) <= / 10 ^ 39.
Proof. moment_tac. Qed.
Lemma gl_moment_5 : Rabs (gl_length (fun t => t ^ 5) - 1/6) <= / 10 ^ 39.
Proof. moment_tac. Qed.

Lemma eps39_30 : / 10 ^ 39 <= / 10 ^ 30.
Proof. apply Rinv_le_contravar; [apply pow_lt; lra|]. apply Rle_pow; [lra|lia]. Qed.

(* | (1/2) * sum_i C_i * (1/2*T_i + 1/2)^k - 1/(k+1) | <= 10^-30 for k = 0..5 *)
Lemma gl_moments : forall k, (k <= 5)%nat ->
  Rabs (gl_length (fun t => t ^ k) - 1 / INR (S k)) <= / 10 ^ 30.
Proof.
  intros k Hk. apply Rle_trans with (2 := eps39_30).
  do 6 (destruct k as [|k]; [ cbn [INR]; first
    [ replace (1 / 1) with 1 by field; exact gl_moment_0
    | replace (1 / (1 + 1)) with (1/2) by field; exact gl_moment_1
    | replace (1 / (1 + 1 + 1)) with (1/3) by field; exact gl_moment_2
    | replace (1 / (1 + 1 + 1 + 1)) with (1/4) by field; exact gl_moment_3
    | replace (1 / (1 + 1 + 1 + 1 + 1)) with (1/5) by field; exact gl_moment_4
    | replace (1 / (1 + 1 + 1 + 1 + 1 + 1)) with (1/6) by field; exact gl_moment_5 ] |]).
  lia.
Qed.

(* ------------------------------------------------------------------------------------------------ *)
(* 5. The Euclidean norm                                                                             *)
(* ------------------------------------------------------------------------------------------------ *)
Lemma norm2_nonneg x y : 0 <= norm2 x y.
Proof. apply sqrt_pos. Qed.
Lemma norm2_sqr x y : norm2 x y * norm2 x y = x * x + y * y.
Proof. unfold norm2. apply sqrt_sqrt. nra. Qed.
Lemma norm2_eq x y u v : x * x + y * y = u * u + v * v -> norm2 x y = norm2 u v.
Proof. unfold norm2. now intros ->. Qed.
Lemma norm2_scal k x y : norm2 (k * x) (k * y) = Rabs k * norm2 x y.
Proof.
  unfold norm2. replace (k * x * (k * x) + k * y * (k * y)) with (Rsqr k * (x * x + y * y)) by (unfold Rsqr; ring).
  rewrite sqrt_mult_alt by apply Rle_0_sqr. now rewrite sqrt_Rsqr_abs.
Qed.
Lemma norm2_scal_r k x y : norm2 (x * k) (y * k) = Rabs k * norm2 x y.
Proof. rewrite <- norm2_scal. apply norm2_eq. ring. Qed.
Lemma norm2_rot c sn x y : c * c + sn * sn = 1 -> norm2 (c * x - sn * y) (sn * x + c * y) = norm2 x y.
Proof.
  intro H. apply norm2_eq.
  transitivity ((c * c + sn * sn) * (x * x + y * y)); [ring | rewrite H; ring].
Qed.
Lemma cauchy a b c d : a * c + b * d <= norm2 a b * norm2 c d.
Proof.
  apply Rsqr_incr_0_var; [|apply Rmult_le_pos; apply norm2_nonneg].
  unfold Rsqr.
  replace (norm2 a b * norm2 c d * (norm2 a b * norm2 c d))
    with ((norm2 a b * norm2 a b) * (norm2 c d * norm2 c d)) by ring.
  rewrite !norm2_sqr. assert (H := Rle_0_sqr (a * d - b * c)). unfold Rsqr in H. lra.
Qed.
Lemma cauchy_abs a b c d : Rabs (a * c + b * d) <= norm2 a b * norm2 c d.
Proof.
  apply Rabs_le. split; [|apply cauchy].
  assert (H := cauchy (- a) (- b) c d).
  replace (norm2 (- a) (- b)) with (norm2 a b) in H by (apply norm2_eq; ring). lra.
Qed.
Lemma norm2_triangle a b c d : norm2 (a + c) (b + d) <= norm2 a b + norm2 c d.
Proof.
  apply Rsqr_incr_0_var; [|apply Rplus_le_le_0_compat; apply norm2_nonneg].
  unfold Rsqr. rewrite norm2_sqr.
  assert (H := cauchy a b c d). assert (Ha := norm2_sqr a b). assert (Hc := norm2_sqr c d). nra.
Qed.
Lemma norm2_comb2 a b x0 y0 x1 y1 : 0 <= a -> 0 <= b ->
  norm2 (a * x0 + b * x1) (a * y0 + b * y1) <= a * norm2 x0 y0 + b * norm2 x1 y1.
Proof.
  intros Ha Hb. eapply Rle_trans; [apply norm2_triangle|].
  rewrite !norm2_scal, !Rabs_pos_eq by assumption. lra.
Qed.
Lemma norm2_comb3 a b c x0 y0 x1 y1 x2 y2 : 0 <= a -> 0 <= b -> 0 <= c ->
  norm2 (a * x0 + b * x1 + c * x2) (a * y0 + b * y1 + c * y2)
  <= a * norm2 x0 y0 + b * norm2 x1 y1 + c * norm2 x2 y2.
Proof.
  intros Ha Hb Hc. eapply Rle_trans; [apply norm2_triangle|].
  rewrite (norm2_scal c), (Rabs_pos_eq c) by assumption.
  apply Rplus_le_compat_r. now apply norm2_comb2.
Qed.
Lemma distanceFrom_norm2 (a b : pt R) : Point_distanceFrom ROps a b = norm2 (px b - px a) (py b - py a).
Proof. destruct_pts. rcbv. f_equal. ring. Qed.

(* ------------------------------------------------------------------------------------------------ *)
(* 6. Lines, reversal, translation, scaling, rotation                                                *)
(* ------------------------------------------------------------------------------------------------ *)
Lemma line_length_euclid (s : seg2 R) :
  Line_length ROps s = sqrt ((px (l1 s) - px (l0 s)) ^ 2 + (py (l1 s) - py (l0 s)) ^ 2).
Proof. destruct_pts. rcbv. f_equal. ring. Qed.

(* speed of the transformed curve, pointwise *)
Lemma cubic_speed_reversed s t : cubic_speed (Cubic_reversed ROps s) t = cubic_speed s (1 - t).
Proof. destruct_pts. apply norm2_eq. rcbv. ring. Qed.
Lemma quad_speed_reversed s t : quad_speed (Quad_reversed ROps s) t = quad_speed s (1 - t).
Proof. destruct_pts. apply norm2_eq. rcbv. ring. Qed.
Lemma cubic_speed_translated s v t : cubic_speed (Cubic_translated ROps s v) t = cubic_speed s t.
Proof. destruct_pts. apply norm2_eq. rcbv. ring. Qed.
Lemma quad_speed_translated s v t : quad_speed (Quad_translated ROps s v) t = quad_speed s t.
Proof. destruct_pts. apply norm2_eq. rcbv. ring. Qed.
Lemma cubic_speed_scaled s k t : cubic_speed (Cubic_scaled ROps s k) t = Rabs k * cubic_speed s t.
Proof.
  unfold cubic_speed. rewrite <- norm2_scal. destruct_pts. apply norm2_eq. rcbv. ring.
Qed.
Lemma quad_speed_scaled s k t : quad_speed (Quad_scaled ROps s k) t = Rabs k * quad_speed s t.
Proof.
  unfold quad_speed. rewrite <- norm2_scal. destruct_pts. apply norm2_eq. rcbv. ring.
Qed.
Definition rigid (c sn tx ty : R) : mat3 R := M3 c (- sn) tx sn c ty 0 0 1.
Lemma cubic_speed_rigid s c sn tx ty t : c * c + sn * sn = 1 ->
  cubic_speed (Cubic_transformed ROps s (rigid c sn tx ty)) t = cubic_speed s t.
Proof.
  intro H. unfold cubic_speed at 2. rewrite <- (norm2_rot c sn _ _ H).
  destruct_pts. apply norm2_eq. rcbv. ring.
Qed.
Lemma quad_speed_rigid s c sn tx ty t : c * c + sn * sn = 1 ->
  quad_speed (Quad_transformed ROps s (rigid c sn tx ty)) t = quad_speed s t.
Proof.
  intro H. unfold quad_speed at 2. rewrite <- (norm2_rot c sn _ _ H).
  destruct_pts. apply norm2_eq. rcbv. ring.
Qed.

Theorem length_reversed_cubic (s : seg4 R) : Cubic_length ROps (Cubic_reversed ROps s) = Cubic_length ROps s.
Proof.
  rewrite !cubic_length_speed. rewrite (gl_length_ext _ _ (cubic_speed_reversed s)).
  apply (gl_length_reflect (cubic_speed s)).
Qed.
Theorem length_reversed_quad (s : seg3 R) : Quad_length ROps (Quad_reversed ROps s) = Quad_length ROps s.
Proof.
  rewrite !quad_length_speed. rewrite (gl_length_ext _ _ (quad_speed_reversed s)).
  apply (gl_length_reflect (quad_speed s)).
Qed.
Theorem length_reversed_line (s : seg2 R) : Line_length ROps (Line_reversed ROps s) = Line_length ROps s.
Proof. destruct_pts. rcbv. f_equal. ring. Qed.

Theorem length_translated_cubic (s : seg4 R) v : Cubic_length ROps (Cubic_translated ROps s v) = Cubic_length ROps s.
Proof. rewrite !cubic_length_speed. apply gl_length_ext, cubic_speed_translated. Qed.
Theorem length_translated_quad (s : seg3 R) v : Quad_length ROps (Quad_translated ROps s v) = Quad_length ROps s.
Proof. rewrite !quad_length_speed. apply gl_length_ext, quad_speed_translated. Qed.
Theorem length_translated_line (s : seg2 R) v : Line_length ROps (Line_translated ROps s v) = Line_length ROps s.
Proof. destruct_pts. rcbv. f_equal. ring. Qed.

Theorem length_scaled_cubic (s : seg4 R) k : Cubic_length ROps (Cubic_scaled ROps s k) = Rabs k * Cubic_length ROps s.
Proof.
  rewrite !cubic_length_speed. rewrite (gl_length_ext _ _ (cubic_speed_scaled s k)). apply gl_length_scal.
Qed.
Theorem length_scaled_quad (s : seg3 R) k : Quad_length ROps (Quad_scaled ROps s k) = Rabs k * Quad_length ROps s.
Proof.
  rewrite !quad_length_speed. rewrite (gl_length_ext _ _ (quad_speed_scaled s k)). apply gl_length_scal.
Qed.
Theorem length_scaled_line (s : seg2 R) k : Line_length ROps (Line_scaled ROps s k) = Rabs k * Line_length ROps s.
Proof.
  unfold Line_length. rewrite !distanceFrom_norm2, <- norm2_scal. destruct_pts. apply norm2_eq. rcbv. ring.
Qed.

(* rotation about the origin by the angle with cosine c and sine sn, followed by any translation *)
Theorem length_rotated_cubic (s : seg4 R) c sn tx ty : c * c + sn * sn = 1 ->
  Cubic_length ROps (Cubic_transformed ROps s (M3 c (- sn) tx sn c ty 0 0 1)) = Cubic_length ROps s.
Proof. intro H. rewrite !cubic_length_speed. apply gl_length_ext. intro t. now apply cubic_speed_rigid. Qed.
Theorem length_rotated_quad (s : seg3 R) c sn tx ty : c * c + sn * sn = 1 ->
  Quad_length ROps (Quad_transformed ROps s (M3 c (- sn) tx sn c ty 0 0 1)) = Quad_length ROps s.
Proof. intro H. rewrite !quad_length_speed. apply gl_length_ext. intro t. now apply quad_speed_rigid. Qed.
Theorem length_rotated_line (s : seg2 R) c sn tx ty : c * c + sn * sn = 1 ->
  Line_length ROps (Line_transformed ROps s (M3 c (- sn) tx sn c ty 0 0 1)) = Line_length ROps s.
Proof.
  intro H. unfold Line_length. rewrite !distanceFrom_norm2.
  rewrite <- (norm2_rot c sn (px (l1 s) - px (l0 s)) _ H). destruct_pts. apply norm2_eq. rcbv. ring.
Qed.

(* ------------------------------------------------------------------------------------------------ *)
(* 7. Accuracy: chord <= length <= control polygon, up to the rounding of the table                  *)
(* ------------------------------------------------------------------------------------------------ *)
(* Bernstein forms of degree 1 and 2 *)
Definition bern1 (a0 a1 t : R) : R := (1 - t) * a0 + t * a1.
Definition bern2 (a0 a1 a2 t : R) : R := (1 - t) * (1 - t) * a0 + 2 * (1 - t) * t * a1 + t * t * a2.

Definition M0 : R := gl_length (fun t => t ^ 0).
Definition M1 : R := gl_length (fun t => t ^ 1).
Definition M2 : R := gl_length (fun t => t ^ 2).
Definition eps : R := / 10 ^ 39.
Lemma eps_pos : 0 < eps.
Proof. apply Rinv_0_lt_compat, pow_lt; lra. Qed.
Lemma eps_small : 12 * eps <= / 10 ^ 25.
Proof.
  unfold eps. replace (10 ^ 39) with (10 ^ 25 * 10 ^ 14) by (rewrite <- pow_add; reflexivity).
  assert (H25 : 0 < 10 ^ 25) by (apply pow_lt; lra).
  assert (H14 : 12 <= 10 ^ 14) by lra.
  rewrite Rinv_mult by lra.
  assert (Hi : 0 < / 10 ^ 25) by now apply Rinv_0_lt_compat.
  assert (H : 12 * / 10 ^ 14 <= 1).
  { apply (Rmult_le_reg_r (10 ^ 14)); [lra|]. rewrite Rmult_assoc, Rinv_l by lra. lra. }
  nra.
Qed.
Lemma abs_le_inv x b : Rabs x <= b -> - b <= x <= b.
Proof. unfold Rabs. destruct (Rcase_abs x); lra. Qed.
Lemma M0_bound : Rabs (M0 - 1) <= eps. Proof. exact gl_moment_0. Qed.
Lemma M1_bound : Rabs (M1 - 1/2) <= eps. Proof. exact gl_moment_1. Qed.
Lemma M2_bound : Rabs (M2 - 1/3) <= eps. Proof. exact gl_moment_2. Qed.

Lemma gl_quadratic a b c : gl_length (fun t => a + b * t + c * (t * t)) = a * M0 + b * M1 + c * M2.
Proof.
  rewrite (gl_length_ext _ (fun t => a * t ^ 0 + (b * t ^ 1 + c * t ^ 2))) by (intro t; ring).
  rewrite (gl_length_plus (fun t => a * t ^ 0) (fun t => b * t ^ 1 + c * t ^ 2)).
  rewrite (gl_length_plus (fun t => b * t ^ 1) (fun t => c * t ^ 2)).
  rewrite !gl_length_scal. unfold M0, M1, M2. ring.
Qed.
Lemma gl_bern1 a0 a1 : gl_length (bern1 a0 a1) = a0 * (M0 - M1) + a1 * M1.
Proof.
  rewrite (gl_length_ext _ (fun t => a0 + (a1 - a0) * t + 0 * (t * t))) by (intro t; unfold bern1; ring).
  rewrite gl_quadratic. ring.
Qed.
Lemma gl_bern2 a0 a1 a2 : gl_length (bern2 a0 a1 a2) = a0 * (M0 - 2 * M1 + M2) + a1 * (2 * M1 - 2 * M2) + a2 * M2.
Proof.
  rewrite (gl_length_ext _ (fun t => a0 + (2 * a1 - 2 * a0) * t + (a0 - 2 * a1 + a2) * (t * t)))
    by (intro t; unfold bern2; ring).
  rewrite gl_quadratic. ring.
Qed.

(* the quadrature weights of the Bernstein basis polynomials *)
Lemma w1_bounds : Rabs ((M0 - M1) - 1/2) <= 2 * eps /\ Rabs (M1 - 1/2) <= 2 * eps.
Proof.
  assert (H0 := M0_bound). assert (H1 := M1_bound). assert (He := eps_pos).
  apply abs_le_inv in H0, H1. split; apply Rabs_le; lra.
Qed.
Lemma w2_bounds :
  Rabs ((M0 - 2 * M1 + M2) - 1/3) <= 4 * eps /\ Rabs ((2 * M1 - 2 * M2) - 1/3) <= 4 * eps /\ Rabs (M2 - 1/3) <= 4 * eps.
Proof.
  assert (H0 := M0_bound). assert (H1 := M1_bound). assert (H2 := M2_bound). assert (He := eps_pos).
  apply abs_le_inv in H0, H1, H2. repeat split; apply Rabs_le; lra.
Qed.

Lemma wsum_upper w c d n : Rabs (w - c) <= d -> 0 <= n -> n * w <= (c + d) * n.
Proof. intros H Hn. apply abs_le_inv in H. nra. Qed.
Lemma wsum_lower w c d a b : Rabs (w - c) <= d -> Rabs a <= b -> c * a - d * b <= a * w.
Proof.
  intros H Ha.
  assert (H1 : Rabs (a * (w - c)) <= b * d).
  { rewrite Rabs_mult. apply Rmult_le_compat; auto using Rabs_pos. }
  apply abs_le_inv in H1. lra.
Qed.

(* degree 2 (the derivative of a cubic) *)
Definition sp2 (x0 y0 x1 y1 x2 y2 t : R) : R := norm2 (bern2 x0 x1 x2 t) (bern2 y0 y1 y2 t).
Lemma sp2_upper x0 y0 x1 y1 x2 y2 :
  gl_length (sp2 x0 y0 x1 y1 x2 y2) <= (1/3 + 4 * eps) * (norm2 x0 y0 + norm2 x1 y1 + norm2 x2 y2).
Proof.
  apply Rle_trans with (gl_length (bern2 (norm2 x0 y0) (norm2 x1 y1) (norm2 x2 y2))).
  - apply gl_length_le. intros t Ht. unfold sp2, bern2. apply norm2_comb3; nra.
  - rewrite gl_bern2. destruct w2_bounds as [H0 [H1 H2]].
    assert (A0 := wsum_upper _ _ _ _ H0 (norm2_nonneg x0 y0)).
    assert (A1 := wsum_upper _ _ _ _ H1 (norm2_nonneg x1 y1)).
    assert (A2 := wsum_upper _ _ _ _ H2 (norm2_nonneg x2 y2)). lra.
Qed.
Lemma sp2_lower x0 y0 x1 y1 x2 y2 cx cy :
  1/3 * ((x0 + x1 + x2) * cx + (y0 + y1 + y2) * cy)
    - 4 * eps * (norm2 cx cy * (norm2 x0 y0 + norm2 x1 y1 + norm2 x2 y2))
  <= norm2 cx cy * gl_length (sp2 x0 y0 x1 y1 x2 y2).
Proof.
  rewrite <- gl_length_scal.
  apply Rle_trans with (gl_length (bern2 (x0 * cx + y0 * cy) (x1 * cx + y1 * cy) (x2 * cx + y2 * cy))).
  - rewrite gl_bern2. destruct w2_bounds as [H0 [H1 H2]].
    assert (A0 := wsum_lower _ _ _ _ _ H0 (cauchy_abs x0 y0 cx cy)).
    assert (A1 := wsum_lower _ _ _ _ _ H1 (cauchy_abs x1 y1 cx cy)).
    assert (A2 := wsum_lower _ _ _ _ _ H2 (cauchy_abs x2 y2 cx cy)). lra.
  - apply gl_length_le. intros t _. unfold sp2.
    assert (H := cauchy (bern2 x0 x1 x2 t) (bern2 y0 y1 y2 t) cx cy).
    replace (bern2 (x0 * cx + y0 * cy) (x1 * cx + y1 * cy) (x2 * cx + y2 * cy) t)
      with (bern2 x0 x1 x2 t * cx + bern2 y0 y1 y2 t * cy) by (unfold bern2; ring).
    lra.
Qed.

(* degree 1 (the derivative of a quadratic) *)
Definition sp1 (x0 y0 x1 y1 t : R) : R := norm2 (bern1 x0 x1 t) (bern1 y0 y1 t).
Lemma sp1_upper x0 y0 x1 y1 :
  gl_length (sp1 x0 y0 x1 y1) <= (1/2 + 2 * eps) * (norm2 x0 y0 + norm2 x1 y1).
Proof.
  apply Rle_trans with (gl_length (bern1 (norm2 x0 y0) (norm2 x1 y1))).
  - apply gl_length_le. intros t Ht. unfold sp1, bern1. apply norm2_comb2; lra.
  - rewrite gl_bern1. destruct w1_bounds as [H0 H1].
    assert (A0 := wsum_upper _ _ _ _ H0 (norm2_nonneg x0 y0)).
    assert (A1 := wsum_upper _ _ _ _ H1 (norm2_nonneg x1 y1)). lra.
Qed.
Lemma sp1_lower x0 y0 x1 y1 cx cy :
  1/2 * ((x0 + x1) * cx + (y0 + y1) * cy) - 2 * eps * (norm2 cx cy * (norm2 x0 y0 + norm2 x1 y1))
  <= norm2 cx cy * gl_length (sp1 x0 y0 x1 y1).
Proof.
  rewrite <- gl_length_scal.
  apply Rle_trans with (gl_length (bern1 (x0 * cx + y0 * cy) (x1 * cx + y1 * cy))).
  - rewrite gl_bern1. destruct w1_bounds as [H0 H1].
    assert (A0 := wsum_lower _ _ _ _ _ H0 (cauchy_abs x0 y0 cx cy)).
    assert (A1 := wsum_lower _ _ _ _ _ H1 (cauchy_abs x1 y1 cx cy)). lra.
  - apply gl_length_le. intros t _. unfold sp1.
    assert (H := cauchy (bern1 x0 x1 t) (bern1 y0 y1 t) cx cy).
    replace (bern1 (x0 * cx + y0 * cy) (x1 * cx + y1 * cy) t)
      with (bern1 x0 x1 t * cx + bern1 y0 y1 t * cy) by (unfold bern1; ring).
    lra.
Qed.

(* from N * L >= N^2 - e * N * P to L >= N - e * P *)
Lemma divide_out N L e P : 0 <= N -> 0 <= L -> 0 <= e -> 0 <= P ->
  N * N - e * (N * P) <= N * L -> N - e * P <= L.
Proof.
  intros HN HL He HP H. destruct (Rle_lt_or_eq_dec 0 N HN) as [Hpos | <-].
  - apply (Rmult_le_reg_l N); [exact Hpos|]. lra.
  - assert (0 <= e * P) by now apply Rmult_le_pos. lra.
Qed.

Definition cubic_chord (s : seg4 R) : R := Point_distanceFrom ROps (c0 s) (c3 s).
Definition cubic_polygon (s : seg4 R) : R :=
  Point_distanceFrom ROps (c0 s) (c1 s) + Point_distanceFrom ROps (c1 s) (c2 s) + Point_distanceFrom ROps (c2 s) (c3 s).
Definition quad_chord (s : seg3 R) : R := Point_distanceFrom ROps (q0 s) (q2 s).
Definition quad_polygon (s : seg3 R) : R :=
  Point_distanceFrom ROps (q0 s) (q1 s) + Point_distanceFrom ROps (q1 s) (q2 s).

Lemma cubic_speed_sp2 s t :
  cubic_speed s t =
  sp2 (3 * (px (c1 s) - px (c0 s))) (3 * (py (c1 s) - py (c0 s)))
      (3 * (px (c2 s) - px (c1 s))) (3 * (py (c2 s) - py (c1 s)))
      (3 * (px (c3 s) - px (c2 s))) (3 * (py (c3 s) - py (c2 s))) t.
Proof. destruct_pts. apply norm2_eq. rcbv. ring. Qed.
Lemma quad_speed_sp1 s t :
  quad_speed s t =
  sp1 (2 * (px (q1 s) - px (q0 s))) (2 * (py (q1 s) - py (q0 s)))
      (2 * (px (q2 s) - px (q1 s))) (2 * (py (q2 s) - py (q1 s))) t.
Proof. destruct_pts. apply norm2_eq. rcbv. ring. Qed.

Lemma Rabs_3 : Rabs 3 = 3. Proof. apply Rabs_pos_eq; lra. Qed.
Lemma Rabs_2 : Rabs 2 = 2. Proof. apply Rabs_pos_eq; lra. Qed.

Lemma cubic_length_nonneg s : 0 <= Cubic_length ROps s.
Proof. rewrite cubic_length_speed. apply gl_length_nonneg. intros. apply norm2_nonneg. Qed.
Lemma quad_length_nonneg s : 0 <= Quad_length ROps s.
Proof. rewrite quad_length_speed. apply gl_length_nonneg. intros. apply norm2_nonneg. Qed.
Lemma cubic_polygon_nonneg s : 0 <= cubic_polygon s.
Proof. unfold cubic_polygon. rewrite !distanceFrom_norm2. repeat apply Rplus_le_le_0_compat; apply norm2_nonneg. Qed.
Lemma quad_polygon_nonneg s : 0 <= quad_polygon s.
Proof. unfold quad_polygon. rewrite !distanceFrom_norm2. repeat apply Rplus_le_le_0_compat; apply norm2_nonneg. Qed.

(* sharp forms, with the error constant 12 * 10^-39 (cubic) and 4 * 10^-39 (quadratic) *)
Lemma length_le_polygon_cubic_sharp s : Cubic_length ROps s <= (1 + 12 * eps) * cubic_polygon s.
Proof.
  rewrite cubic_length_speed, (gl_length_ext _ _ (cubic_speed_sp2 s)).
  eapply Rle_trans; [apply sp2_upper|].
  rewrite !norm2_scal, Rabs_3. unfold cubic_polygon. rewrite !distanceFrom_norm2. lra.
Qed.
Lemma chord_le_length_cubic_sharp s : cubic_chord s - 12 * eps * cubic_polygon s <= Cubic_length ROps s.
Proof.
  assert (He := eps_pos).
  apply divide_out; [apply sqrt_pos | apply cubic_length_nonneg | lra | apply cubic_polygon_nonneg |].
  rewrite cubic_length_speed, (gl_length_ext _ _ (cubic_speed_sp2 s)).
  unfold cubic_chord, cubic_polygon. rewrite !distanceFrom_norm2.
  eapply Rle_trans; [|apply sp2_lower]. rewrite !norm2_scal, Rabs_3, norm2_sqr. lra.
Qed.
Lemma length_le_polygon_quad_sharp s : Quad_length ROps s <= (1 + 4 * eps) * quad_polygon s.
Proof.
  rewrite quad_length_speed, (gl_length_ext _ _ (quad_speed_sp1 s)).
  eapply Rle_trans; [apply sp1_upper|].
  rewrite !norm2_scal, Rabs_2. unfold quad_polygon. rewrite !distanceFrom_norm2. lra.
Qed.
Lemma chord_le_length_quad_sharp s : quad_chord s - 4 * eps * quad_polygon s <= Quad_length ROps s.
Proof.
  assert (He := eps_pos).
  apply divide_out; [apply sqrt_pos | apply quad_length_nonneg | lra | apply quad_polygon_nonneg |].
  rewrite quad_length_speed, (gl_length_ext _ _ (quad_speed_sp1 s)).
  unfold quad_chord, quad_polygon. rewrite !distanceFrom_norm2.
  eapply Rle_trans; [|apply sp1_lower]. rewrite !norm2_scal, Rabs_2, norm2_sqr. lra.
Qed.

Theorem length_le_polygon_cubic (s : seg4 R) : Cubic_length ROps s <= (1 + / 10 ^ 25) * cubic_polygon s.
Proof.
  assert (H := length_le_polygon_cubic_sharp s). assert (HP := cubic_polygon_nonneg s). assert (He := eps_small). nra.
Qed.
Theorem chord_le_length_cubic (s : seg4 R) : cubic_chord s - / 10 ^ 25 * cubic_polygon s <= Cubic_length ROps s.
Proof.
  assert (H := chord_le_length_cubic_sharp s). assert (HP := cubic_polygon_nonneg s). assert (He := eps_small). nra.
Qed.
Theorem length_le_polygon_quad (s : seg3 R) : Quad_length ROps s <= (1 + / 10 ^ 25) * quad_polygon s.
Proof.
  assert (H := length_le_polygon_quad_sharp s). assert (HP := quad_polygon_nonneg s). assert (He := eps_small).
  assert (He0 := eps_pos). nra.
Qed.
Theorem chord_le_length_quad (s : seg3 R) : quad_chord s - / 10 ^ 25 * quad_polygon s <= Quad_length ROps s.
Proof.
  assert (H := chord_le_length_quad_sharp s). assert (HP := quad_polygon_nonneg s). assert (He := eps_small).
  assert (He0 := eps_pos). nra.
Qed.
(* a line is its own chord and control polygon *)
Theorem line_length_chord (s : seg2 R) : Line_length ROps s = Point_distanceFrom ROps (l0 s) (l1 s).
Proof. reflexivity. Qed.

(* ------------------------------------------------------------------------------------------------ *)
(* 8. Non-vacuity                                                                                    *)
(* ------------------------------------------------------------------------------------------------ *)
(* the straight cubic (0,0) (1,0) (2,0) (3,0) has length 3 *)
Example straight_cubic_length :
  Rabs (Cubic_length ROps (C4 (P 0 0) (P 1 0) (P 2 0) (P 3 0)) - 3) <= / 10 ^ 20.
Proof.
  rewrite cubic_length_speed.
  rewrite (gl_length_ext _ (fun t => 3 * t ^ 0)).
  2:{ intro t. unfold cubic_speed, norm2. transitivity (sqrt (3 * 3)).
      - f_equal. rcbv. ring.
      - rewrite sqrt_square by lra. ring. }
  rewrite gl_length_scal. fold M0. assert (H := M0_bound). apply abs_le_inv in H.
  assert (He : 3 * eps <= / 10 ^ 20).
  { assert (H1 := eps_small). assert (H2 : / 10 ^ 25 <= / 10 ^ 20).
    { apply Rinv_le_contravar; [apply pow_lt; lra|]. apply Rle_pow; [lra|lia]. }
    assert (He0 := eps_pos). lra. }
  apply Rabs_le. lra.
Qed.
(* a genuinely curved cubic: the bounds are not vacuous, chord 1 and polygon 3 *)
Example arch_cubic_length :
  let s := C4 (P 0 0) (P 0 1) (P 1 1) (P 1 0) in
  1 - 3 / 10 ^ 25 <= Cubic_length ROps s <= 3 + 3 / 10 ^ 25.
Proof.
  intro s. assert (Hc : cubic_chord s = 1).
  { unfold cubic_chord, s. rewrite distanceFrom_norm2. cbn [px py c0 c3]. unfold norm2.
    transitivity (sqrt 1); [f_equal; ring | apply sqrt_1]. }
  assert (Hp : cubic_polygon s = 3).
  { unfold cubic_polygon, s. rewrite !distanceFrom_norm2. cbn [px py c0 c1 c2 c3]. unfold norm2.
    replace ((0 - 0) * (0 - 0) + (1 - 0) * (1 - 0)) with 1 by ring.
    replace ((1 - 0) * (1 - 0) + (1 - 1) * (1 - 1)) with 1 by ring.
    replace ((1 - 1) * (1 - 1) + (0 - 1) * (0 - 1)) with 1 by ring.
    rewrite sqrt_1. ring. }
  assert (H1 := chord_le_length_cubic s). assert (H2 := length_le_polygon_cubic s).
  rewrite Hc, Hp in *. lra.
Qed.

(* ------------------------------------------------------------------------------------------------ *)
(* 9. Additivity for lines (exact): the two pieces of a split at t in [0,1] add up                   *)
(* ------------------------------------------------------------------------------------------------ *)
Theorem line_length_additive (s : seg2 R) t : 0 <= t <= 1 ->
  Line_length ROps (fst (Line_splitAtTime ROps s t)) + Line_length ROps (snd (Line_splitAtTime ROps s t))
  = Line_length ROps s.
Proof.
  intro Ht. unfold Line_length. rewrite !distanceFrom_norm2.
  set (dx := px (l1 s) - px (l0 s)). set (dy := py (l1 s) - py (l0 s)).
  replace (norm2 _ _) with (norm2 (t * dx) (t * dy)) at 1
    by (subst dx dy; destruct_pts; apply norm2_eq; rcbv; ring).
  replace (norm2 (px (l1 (snd _)) - _) _) with (norm2 ((1 - t) * dx) ((1 - t) * dy))
    by (subst dx dy; destruct_pts; apply norm2_eq; rcbv; ring).
  rewrite !norm2_scal, !Rabs_pos_eq by lra. ring.
Qed.
Corollary line_lengthAtTime_spec (s : seg2 R) t : 0 <= t ->
  Line_lengthAtTime ROps s t = t * Line_length ROps s.
Proof.
  intro Ht. unfold Line_lengthAtTime, Line_splitAtTime, Line_length. rewrite !distanceFrom_norm2.
  set (N := norm2 (px (l1 s) - px (l0 s)) (py (l1 s) - py (l0 s))).
  replace (t * N) with (Rabs t * N) by (now rewrite Rabs_pos_eq). subst N. rewrite <- norm2_scal.
  destruct_pts. apply norm2_eq. rcbv. ring.
Qed.
