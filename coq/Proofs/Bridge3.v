(* Bridge, third part: drivers moved under the translator in the third round.

   1. Node lists (property C08).  Hand/Nodelist.v models SegmentRepresentation.toNodelist / appendSegment / fromNodelist with
      nodes as pairs (point, ntype), structural recursion (flat_map, [walk], [find_oncurve] with nat indices) and every
      exception as [None].  Gen/Nodelist.v is REGENERATED from path/representations/Segment.py: records [gnode] / [segrep],
      the loops as folds ([fold_left] with a break flag over [enumerate_Z], [fold_outcome] where the body may raise), run-time
      ints as Z with Python's reading of negative indices and slices, and the exceptions as [Raises PyIndexError] /
      [Raises PyValueError].  The representations differ, so the lemmas state the precise relation through the bijection
      [node_of] / [gnode_of] between the two node types, for EVERY scalar carrier [O : Ops T]:

          Hand.toNodelist segs                     = option_map (map node_of) (opt_of_outcome (SegRep_toNodelist O (MkSegRep c segs)))
          mk_segment seg                           ~ SegRep_appendSegment O (MkSegRep c acc) (map xy_of seg)
          Hand.fromNodelist O c (map node_of nl)   = option_map sr_segments (opt_of_outcome (SegRep_fromNodelist O c nl))

      (Raises e on one side iff None on the other; the generated side also says WHICH exception.) *)
From Coq Require Import PrimFloat.
From Coq Require Import ZArith List Bool Lia.
Import ListNotations.
From BZ Require Import Base.Ops Gen.Point Gen.BBox Gen.Sample Gen.Nodelist.
From BZ Require Import Hand.Nodelist.

Definition opt_of_outcome {A : Type} (r : outcome A) : option A :=
  match r with Returns a => Some a | Raises _ => None end.

(* ====================================================================================================== *)
(* 1. path/representations/Segment.py                                                                      *)
Definition ntype_of (t : nodetype) : ntype :=
  match t with Nt_line => NLine | Nt_curve => NCurve | Nt_offcurve => NOff end.
Definition nodetype_of (t : ntype) : nodetype :=
  match t with NLine => Nt_line | NCurve => Nt_curve | NOff => Nt_offcurve end.
Definition node_of {T : Type} (n : gnode T) : node T := (n_point n, ntype_of (n_type n)).
Definition gnode_of {T : Type} (n : node T) : gnode T := GNode (fst n) (nodetype_of (snd n)).
Lemma node_of_gnode_of {T : Type} (n : node T) : node_of (gnode_of n) = n.
Proof. destruct n as [p []]; reflexivity. Qed.
Lemma gnode_of_node_of {T : Type} (n : gnode T) : gnode_of (node_of n) = n.
Proof. destruct n as [p []]; reflexivity. Qed.

Section NodelistBridge.
Context {T : Type} (O : Ops T).

Lemma pt_eta (p : pt T) : P (px p) (py p) = p.
Proof. destruct p; reflexivity. Qed.

(* ---------- toNodelist ---------- *)
(* the body of `for seg in self.segments:` as generated *)
Definition tn_step (nl : list (gnode T)) (s : segment T) : list (gnode T) :=
  match s with
  | SLine s => nl ++ [GNode (P (px (l1 s)) (py (l1 s))) Nt_line]
  | SQuad s => (nl ++ [GNode (P (px (q1 s)) (py (q1 s))) Nt_offcurve]) ++ [GNode (P (px (q2 s)) (py (q2 s))) Nt_curve]
  | SCubic s => ((nl ++ [GNode (P (px (c1 s)) (py (c1 s))) Nt_offcurve]) ++ [GNode (P (px (c2 s)) (py (c2 s))) Nt_offcurve])
                  ++ [GNode (P (px (c3 s)) (py (c3 s))) Nt_curve]
  end.
Lemma tn_step_spec nl s : map node_of (tn_step nl s) = map node_of nl ++ seg_nodes s.
Proof.
  destruct s as [[a b]|[a b c]|[a b c d]]; cbn [tn_step seg_nodes l1 q1 q2 c1 c2 c3];
    rewrite ?map_app, <- ?app_assoc; cbn [map app node_of n_point n_type ntype_of]; rewrite ?pt_eta; reflexivity.
Qed.
Lemma tn_fold l nl : map node_of (fold_left tn_step l nl) = map node_of nl ++ flat_map seg_nodes l.
Proof.
  revert nl. induction l as [|s l IH]; intro nl; cbn [fold_left flat_map]; [rewrite app_nil_r; reflexivity|].
  rewrite IH, tn_step_spec, <- app_assoc. reflexivity.
Qed.

Theorem toNodelist_gen (c : bool) (segs : list (segment T)) :
  toNodelist segs = option_map (map node_of) (opt_of_outcome (SegRep_toNodelist O (MkSegRep c segs))).
Proof.
  destruct segs as [|s r]; [reflexivity|].
  assert (E : SegRep_toNodelist O (MkSegRep c (s :: r)) =
              Returns (fold_left tn_step (s :: r)
                         [GNode (P (px (seg_start s)) (py (seg_start s))) (match s with SLine _ => Nt_line | _ => Nt_curve end)])).
  { destruct s; reflexivity. }
  rewrite E. cbn [opt_of_outcome option_map toNodelist]. rewrite tn_fold. cbn [map app node_of n_point n_type].
  rewrite pt_eta. destruct s; reflexivity.
Qed.
(* in particular the generated definition raises exactly on the empty list, and then IndexError *)
Lemma toNodelist_gen_raises (c : bool) : SegRep_toNodelist O (MkSegRep c []) = Raises PyIndexError.
Proof. reflexivity. Qed.

(* ---------- appendSegment ---------- *)
(* fromNodelist accumulates coordinate pairs (n.x, n.y); appendSegment turns them back into Points *)
Definition xy_of (p : pt T) : T * T := (px p, py p).
Lemma points_of_xy (seg : list (pt T)) : map (fun v => P (fst v) (snd v)) (map xy_of seg) = seg.
Proof. induction seg as [|p r IH]; [reflexivity|]. cbn [map xy_of fst snd]. rewrite pt_eta, IH. reflexivity. Qed.

Theorem appendSegment_gen (c : bool) (acc : list (segment T)) (seg : list (pt T)) :
  SegRep_appendSegment O (MkSegRep c acc) (map xy_of seg) =
  match mk_segment seg with
  | Some s => Returns (MkSegRep c (acc ++ [s]))
  | None => Raises PyValueError                   (* ValueError("Unknown segment type") *)
  end.
Proof.
  unfold SegRep_appendSegment. rewrite points_of_xy.
  destruct seg as [|p1 [|p2 [|p3 [|p4 [|p5 r]]]]]; reflexivity.
Qed.

(* ---------- fromNodelist ---------- *)
Lemma is_off_node_of (n : gnode T) : is_off (node_of n) = nodetype_eqb (n_type n) Nt_offcurve.
Proof. destruct n as [p []]; reflexivity. Qed.

(* `for ix, n in enumerate(nodelist): if n.type != "offcurve": firstOncurve = ix; break` as generated: a fold with a break flag *)
Definition fo_step (st : bool * Z) : Z * gnode T -> bool * Z :=
  let '(brk, fo) := st in fun x => let '(ix, n) := x in
  if brk then (brk, fo) else if negb (nodetype_eqb (n_type n) Nt_offcurve) then (true, ix) else (false, fo).
Lemma fo_done (l : list (Z * gnode T)) (x : Z) : fold_left fo_step l (true, x) = (true, x).
Proof. induction l as [|[i n] l IH]; [reflexivity|]. exact IH. Qed.
Lemma fo_search (l : list (gnode T)) (k d : Z) :
  fold_left fo_step (enumerate_from k l) (false, d) =
  match find_oncurve (map node_of l) with Some i => (true, (k + Z.of_nat i)%Z) | None => (false, d) end.
Proof.
  revert k. induction l as [|n l IH]; intro k; [reflexivity|].
  cbn [enumerate_from fold_left map find_oncurve]. unfold fo_step at 2. rewrite is_off_node_of.
  destruct (nodetype_eqb (n_type n) Nt_offcurve); cbn [negb].
  - rewrite IH. destruct (find_oncurve (map node_of l)) as [i|]; cbn [option_map]; [|reflexivity].
    f_equal. rewrite Nat2Z.inj_succ. lia.
  - rewrite fo_done. f_equal. cbn. lia.
Qed.

(* Python indexing and slicing by an int, on the two values firstOncurve can have: a position, or -1 *)
Lemma py_index_Z_nat {A : Type} (l : list A) (i : nat) : py_index_Z l (0 + Z.of_nat i) = nth_error l i.
Proof. unfold py_index_Z. destruct (Z.ltb_spec (0 + Z.of_nat i) 0); [lia|]. replace (Z.to_nat (0 + Z.of_nat i)) with i by lia. reflexivity. Qed.
Lemma py_slice_from_Z_nat {A : Type} (l : list A) (i : nat) : py_slice_from_Z l (0 + Z.of_nat i + 1) = skipn (S i) l.
Proof.
  unfold py_slice_from_Z. destruct (Z.ltb_spec (0 + Z.of_nat i + 1) 0); [lia|].
  replace (Z.to_nat (0 + Z.of_nat i + 1)) with (S i) by lia. reflexivity.
Qed.
Lemma py_slice_to_Z_nat {A : Type} (l : list A) (i : nat) : py_slice_to_Z l (0 + Z.of_nat i) = firstn i l.
Proof.
  unfold py_slice_to_Z. destruct (Z.ltb_spec (0 + Z.of_nat i) 0); [lia|].
  replace (Z.to_nat (0 + Z.of_nat i)) with i by lia. reflexivity.
Qed.
Lemma py_index_Z_m1 {A : Type} (l : list A) : py_index_Z l (-1) = hd_error (rev l).
Proof. unfold py_index_Z. cbn. destruct (rev l); reflexivity. Qed.
Lemma py_slice_from_Z_m1 {A : Type} (l : list A) : py_slice_from_Z l (-1 + 1) = l.
Proof. reflexivity. Qed.
Lemma py_slice_to_Z_m1 {A : Type} (l : list A) : py_slice_to_Z l (-1) = removelast l.
Proof.
  unfold py_slice_to_Z. cbn [Z.ltb Z.compare Z.opp]. change (Z.to_nat 1) with 1%nat.
  rewrite removelast_firstn_len. f_equal. lia.
Qed.
Lemma removelast_map {A B : Type} (f : A -> B) (l : list A) : removelast (map f l) = map f (removelast l).
Proof. rewrite !removelast_firstn_len, firstn_map, map_length. reflexivity. Qed.

(* (nodelist[firstOncurve], nodelist[firstOncurve+1:], nodelist[:firstOncurve]) *)
Lemma split_first_gen (nl : list (gnode T)) :
  split_first (map node_of nl) =
  let '(_, fo) := fold_left fo_step (enumerate_Z nl) (false, (-1)%Z) in
  match py_index_Z nl fo with
  | Some g => Some (node_of g, map node_of (py_slice_from_Z nl (fo + 1)), map node_of (py_slice_to_Z nl fo))
  | None => None
  end.
Proof.
  unfold split_first, enumerate_Z. rewrite fo_search.
  destruct (find_oncurve (map node_of nl)) as [i|]; cbv beta iota.
  - rewrite py_index_Z_nat, py_slice_from_Z_nat, py_slice_to_Z_nat, nth_error_map, skipn_map, firstn_map.
    destruct (nth_error nl i); reflexivity.
  - rewrite py_index_Z_m1, py_slice_from_Z_m1, py_slice_to_Z_m1, <- map_rev, removelast_map.
    destruct (rev nl); reflexivity.
Qed.

(* the body of the two `for n in ...` loops as generated; state (seg, self) *)
Definition fn_step (st : list (T * T) * segrep T) : gnode T -> outcome (list (T * T) * segrep T) :=
  let '(seg, self) := st in fun n =>
  let seg1 := if nodetype_eqb (n_type n) Nt_offcurve then seg ++ [(Node_x O n, Node_y O n)] else seg in
  if orb (nodetype_eqb (n_type n) Nt_line) (nodetype_eqb (n_type n) Nt_curve) then
    match SegRep_appendSegment O self (seg1 ++ [(Node_x O n, Node_y O n)]) with
    | Raises e => Raises e
    | Returns r => Returns ([(Node_x O n, Node_y O n)], r)
    end
  else Returns (seg1, self).

Lemma fn_step_gen (c : bool) (acc : list (segment T)) (seg : list (pt T)) (n : gnode T) :
  fn_step (map xy_of seg, MkSegRep c acc) n =
  match wstep (acc, seg) (node_of n) with
  | Some (acc', seg') => Returns (map xy_of seg', MkSegRep c acc')
  | None => Raises PyValueError
  end.
Proof.
  destruct n as [p ty]. unfold fn_step, wstep, node_of, Node_x, Node_y. cbn [n_point n_type fst snd].
  change (px p, py p) with (xy_of p).
  destruct ty; cbn [nodetype_eqb ntype_of orb];
    change (map xy_of seg ++ [xy_of p]) with (map xy_of seg ++ map xy_of [p]); rewrite <- map_app.
  - rewrite appendSegment_gen. destruct (mk_segment (seg ++ [p])); reflexivity.
  - rewrite appendSegment_gen. destruct (mk_segment (seg ++ [p])); reflexivity.
  - reflexivity.
Qed.

Lemma walk_gen (c : bool) (l : list (gnode T)) (acc : list (segment T)) (seg : list (pt T)) :
  fold_outcome fn_step l (map xy_of seg, MkSegRep c acc) =
  match walk (acc, seg) (map node_of l) with
  | Some (acc', seg') => Returns (map xy_of seg', MkSegRep c acc')
  | None => Raises PyValueError
  end.
Proof.
  revert acc seg. induction l as [|n l IH]; intros acc seg; [reflexivity|].
  cbn [fold_outcome map walk]. rewrite fn_step_gen.
  destruct (wstep (acc, seg) (node_of n)) as [[acc' seg']|]; [apply IH|reflexivity].
Qed.

(* the `if self.path.closed:` block as generated *)
Definition fn_finish (first : gnode T) (seg : list (T * T)) (self : segrep T) : outcome (segrep T) :=
  if sr_path self then
    if match seg with
       | [it] => andb (isclose O (fst it) (Node_x O first)) (isclose O (snd it) (Node_y O first))
       | _ => false
       end
    then Returns self
    else match SegRep_appendSegment O self (seg ++ [(Node_x O first, Node_y O first)]) with
         | Raises e => Raises e
         | Returns r => Returns r
         end
  else Returns self.

Lemma finish_gen (c : bool) (first : gnode T) (acc : list (segment T)) (seg : list (pt T)) :
  option_map sr_segments (opt_of_outcome (fn_finish first (map xy_of seg) (MkSegRep c acc))) =
  finish O c (n_point first) (acc, seg).
Proof.
  unfold fn_finish, finish, Node_x, Node_y. cbn [sr_path]. destruct c; [|reflexivity].
  change (px (n_point first), py (n_point first)) with (xy_of (n_point first)).
  assert (E : match map xy_of seg with
              | [it] => andb (isclose O (fst it) (px (n_point first))) (isclose O (snd it) (py (n_point first)))
              | _ => false
              end = match seg with [p] => pclose O p (n_point first) | _ => false end).
  { destruct seg as [|p [|q r]]; reflexivity. }
  rewrite E. destruct (match seg with [p] => pclose O p (n_point first) | _ => false end); [reflexivity|].
  change (map xy_of seg ++ [xy_of (n_point first)]) with (map xy_of seg ++ map xy_of [n_point first]).
  rewrite <- map_app, appendSegment_gen. destruct (mk_segment (seg ++ [n_point first])); reflexivity.
Qed.

(* the generated definition, with its three loop bodies and the closing rule named *)
Lemma fromNodelist_unfold (c : bool) (nl : list (gnode T)) :
  SegRep_fromNodelist O c nl =
  let '(_, fo) := fold_left fo_step (enumerate_Z nl) (false, (-1)%Z) in
  match py_index_Z nl fo with
  | None => Raises PyIndexError
  | Some first =>
      match fold_outcome fn_step (py_slice_from_Z nl (fo + 1)) ([(Node_x O first, Node_y O first)], MkSegRep c []) with
      | Raises e => Raises e
      | Returns (seg1, self1) =>
          match fold_outcome fn_step (py_slice_to_Z nl fo) (seg1, self1) with
          | Raises e => Raises e
          | Returns (seg2, self2) => fn_finish first seg2 self2
          end
      end
  end.
Proof. reflexivity. Qed.

Theorem fromNodelist_gen (c : bool) (nl : list (gnode T)) :
  fromNodelist O c (map node_of nl) = option_map sr_segments (opt_of_outcome (SegRep_fromNodelist O c nl)).
Proof.
  rewrite fromNodelist_unfold. unfold fromNodelist. rewrite split_first_gen.
  destruct (fold_left fo_step (enumerate_Z nl) (false, (-1)%Z)) as [b fo].
  destruct (py_index_Z nl fo) as [first|]; [|reflexivity].
  cbn [node_of fst]. unfold Node_x at 1, Node_y at 1.
  change [(px (n_point first), py (n_point first))] with (map xy_of [n_point first]).
  rewrite walk_gen.
  destruct (walk ([], [n_point first]) (map node_of (py_slice_from_Z nl (fo + 1)))) as [[acc1 seg1]|]; [|reflexivity].
  rewrite walk_gen.
  destruct (walk (acc1, seg1) (map node_of (py_slice_to_Z nl fo))) as [[acc2 seg2]|]; [|reflexivity].
  symmetry. apply finish_gen.
Qed.

(* the hand model, stated on its own node type: every hand node list is the image of a generated one *)
Corollary fromNodelist_gen' (c : bool) (nl : list (node T)) :
  fromNodelist O c nl = option_map sr_segments (opt_of_outcome (SegRep_fromNodelist O c (map gnode_of nl))).
Proof.
  rewrite <- fromNodelist_gen, map_map. f_equal. symmetry. erewrite map_ext; [apply map_id|]. intro a. apply node_of_gnode_of.
Qed.

(* the returned representation keeps the `closed` flag of the path it was built for *)
Lemma fromNodelist_gen_path (c : bool) (nl : list (gnode T)) (r : segrep T) :
  SegRep_fromNodelist O c nl = Returns r -> sr_path r = c.
Proof.
  rewrite fromNodelist_unfold.
  destruct (fold_left fo_step (enumerate_Z nl) (false, (-1)%Z)) as [b fo].
  destruct (py_index_Z nl fo) as [first|]; [|discriminate].
  unfold Node_x at 1, Node_y at 1. change [(px (n_point first), py (n_point first))] with (map xy_of [n_point first]).
  rewrite walk_gen. destruct (walk _ _) as [[acc1 seg1]|]; [|discriminate].
  rewrite walk_gen. destruct (walk _ _) as [[acc2 seg2]|]; [|discriminate].
  unfold fn_finish. cbn [sr_path]. destruct c.
  - destruct (match map xy_of seg2 with [it] => _ | _ => false end); [intro H; injection H as <-; reflexivity|].
    unfold Node_x, Node_y. change (px (n_point first), py (n_point first)) with (xy_of (n_point first)).
    change (map xy_of seg2 ++ [xy_of (n_point first)]) with (map xy_of seg2 ++ map xy_of [n_point first]).
    rewrite <- map_app, appendSegment_gen. destruct (mk_segment _); [intro H; injection H as <-; reflexivity|discriminate].
  - intro H; injection H as <-; reflexivity.
Qed.
End NodelistBridge.

(* ====================================================================================================== *)
(* 2. utils/linesweep.py (property C19)

   Hand/Sweep.v identifies a shape with its INDEX in its collection, takes the collections as lists of boxes, keeps an event
   record with two booleans, and reports (first-is-from-A?, index, index).  Gen/Sweep.v is REGENERATED from the Python text:
   a shape is (tag, bounds()) -- the tag standing for the identity of the object -- the instruction tuples
   (key, o, bounds, verb, activelist) keep `verb` / `activelist` as bools (which of the two local functions / deques, decided
   by the translator from the closure / deque the tuple refers to), the closures add_to / remove_from are expanded where they
   are called, dequefilter is the literal pop-and-append loop with its IndexError, `sorted(key=)` is [sorted_by], and the
   report is the list of pairs (o, o2) -- Python's return value, which does not say which collection o came from.

   Neither output determines the other (one has the orientation flag, the other the boxes), so the relation is stated through
   the run they are both projections of, [sweep_run] (pairs WITH flag and shapes):

       linesweep_dequefilter O deck cond           = Returns (filter cond deck)                      (never IndexError)
       linesweep_bbox_intersections O seta setb    = Returns (map pair_of (sweep_run seta setb))     (for ALL collections)
       Hand.bbox_intersections O A B               = map ids_of (sweep_run (index_shapes A) (index_shapes B))

   for every carrier O; hence (corollary) on collections tagged by position the generated sweep never raises and reports
   exactly the hand model's pairs of indices, in the same order. *)
From BZ Require Import Gen.Sweep.
From BZ Require Hand.Sweep.
Module HS := Hand.Sweep.

Section SweepBridge.
Context {T : Type} (O : Ops T).

(* ---------- dequefilter ---------- *)
Definition dq_step {A : Type} (cond : A -> bool) (deck : list A) (_ : unit) : outcome (list A) :=
  match deck with
  | [] => Raises PyIndexError
  | h :: t => Returns (if cond h then t ++ [h] else t)
  end.
Lemma dq_loop {A : Type} (cond : A -> bool) (rest done : list A) :
  fold_outcome (dq_step cond) (repeat tt (length rest)) (rest ++ done) = Returns (done ++ filter cond rest).
Proof.
  revert done. induction rest as [|a rest IH]; intro done; [cbn; rewrite app_nil_r; reflexivity|].
  cbn [length repeat fold_outcome app dq_step filter]. destruct (cond a).
  - rewrite <- app_assoc, IH, <- app_assoc. reflexivity.
  - apply IH.
Qed.
Theorem dequefilter_gen (deck : list (shape T * bbox T)) (cond : shape T * bbox T -> bool) :
  linesweep_dequefilter O deck cond = Returns (filter cond deck).
Proof.
  change (linesweep_dequefilter O deck cond) with
    (match fold_outcome (dq_step cond) (repeat tt (length deck)) deck with Raises e => Raises e | Returns d => Returns d end).
  rewrite <- (app_nil_r deck) at 2. rewrite dq_loop. reflexivity.
Qed.

(* ---------- the run both models are projections of ---------- *)
Definition instr : Type := (T * shape T * bbox T * bool * bool)%type.      (* key, o, bounds, verb is add_to?, activelist is active_a? *)
Definition ikey (i : instr) : T := fst (fst (fst (fst i))).
Definition instrs_of (isA : bool) (l : list (shape T)) : list instr :=
  flat_map (fun a => [(BBox_left O (snd a), a, snd a, true, isA); (BBox_right O (snd a), a, snd a, false, isA)]) l.
Definition ritem : Type := (shape T * bbox T)%type.
Definition rstate : Type := (list ritem * list ritem * list (bool * shape T * shape T))%type.
Definition rstep (st : rstate) (i : instr) : rstate :=
  let '(aa, ab, out) := st in
  let '(key, o, b, verb, isA) := i in
  if verb then
    let aa' := if isA then aa ++ [(o, b)] else aa in
    let ab' := if isA then ab else ab ++ [(o, b)] in
    let other := if isA then ab' else aa' in
    (aa', ab', out ++ map (fun ob : ritem => (isA, o, fst ob)) (filter (fun ob : ritem => BBox_overlaps O b (snd ob)) other))
  else
    (if isA then filter (fun it : ritem => negb (shape_eqb (fst it) o)) aa else aa,
     if isA then ab else filter (fun it : ritem => negb (shape_eqb (fst it) o)) ab, out).
Definition sweep_run (seta setb : list (shape T)) : list (bool * shape T * shape T) :=
  snd (fold_left rstep (sorted_by O ikey (instrs_of true seta ++ instrs_of false setb)) ([], [], [])).
Definition pair_of (r : bool * shape T * shape T) : shape T * shape T := (snd (fst r), snd r).
Definition ids_of (r : bool * shape T * shape T) : bool * nat * nat := (fst (fst r), fst (snd (fst r)), fst (snd r)).

(* ---------- the generated sweep is the run, without the flags ---------- *)
(* the body of `for key, o, bounds, verb, activelist in instructions:` as generated (add_to / remove_from expanded) *)
Definition gstate : Type := (list ritem * list ritem * list (shape T * shape T))%type.
Definition gstep (st : gstate) : instr -> outcome gstate :=
  let '(aa, ab, out) := st in fun i =>
  let '(key, o, b, verb, lst) := i in
  if verb then
    let aa' := if lst then aa ++ [(o, b)] else aa in
    let ab' := if lst then ab else ab ++ [(o, b)] in
    let other := if lst then false else true in
    let out' := fold_left (fun acc '(o2, b2) => if BBox_overlaps O b b2 then acc ++ [(o, o2)] else acc) (if other then aa' else ab') out in
    Returns (aa', ab', out')
  else
    match linesweep_dequefilter O (if lst then aa else ab) (fun it : ritem => negb (shape_eqb (fst it) o)) with
    | Raises e => Raises e
    | Returns r => Returns (if lst then r else aa, if lst then ab else r, out)
    end.

Lemma report_fold (o : shape T) (b : bbox T) (other : list ritem) (acc : list (shape T * shape T)) :
  fold_left (fun acc '(o2, b2) => if BBox_overlaps O b b2 then acc ++ [(o, o2)] else acc) other acc =
  acc ++ map (fun ob : ritem => (o, fst ob)) (filter (fun ob : ritem => BBox_overlaps O b (snd ob)) other).
Proof.
  revert acc. induction other as [|[o2 b2] other IH]; intro acc; [cbn; rewrite app_nil_r; reflexivity|].
  cbn [fold_left filter snd]. destruct (BBox_overlaps O b b2); rewrite IH; [rewrite <- app_assoc|]; reflexivity.
Qed.

Definition unflag (st : rstate) : gstate := let '(aa, ab, out) := st in (aa, ab, map pair_of out).
Lemma gstep_run (st : rstate) (i : instr) : gstep (unflag st) i = Returns (unflag (rstep st i)).
Proof.
  destruct st as [[aa ab] out]. destruct i as [[[[key o] b] verb] lst]. unfold gstep, rstep, unflag.
  destruct verb.
  - rewrite report_fold. destruct lst; rewrite map_app, map_map; reflexivity.
  - rewrite dequefilter_gen. destruct lst; reflexivity.
Qed.
Lemma gfold_run (l : list instr) (st : rstate) : fold_outcome gstep l (unflag st) = Returns (unflag (fold_left rstep l st)).
Proof.
  revert st. induction l as [|i l IH]; intro st; [reflexivity|]. cbn [fold_outcome fold_left]. rewrite gstep_run. apply IH.
Qed.

(* the two `for a in seta:` loops as generated *)
Lemma instrs_fold (isA : bool) (l : list (shape T)) (acc : list instr) :
  fold_left (fun acc a => (acc ++ [(BBox_left O (snd a), a, snd a, true, isA)]) ++ [(BBox_right O (snd a), a, snd a, false, isA)]) l acc
  = acc ++ instrs_of isA l.
Proof.
  revert acc. induction l as [|a l IH]; intro acc; [cbn; rewrite app_nil_r; reflexivity|].
  cbn [fold_left]. rewrite IH. unfold instrs_of. cbn [flat_map]. rewrite <- !app_assoc. reflexivity.
Qed.

Theorem bbox_intersections_gen (seta setb : list (shape T)) :
  linesweep_bbox_intersections O seta setb = Returns (map pair_of (sweep_run seta setb)).
Proof.
  change (linesweep_bbox_intersections O seta setb) with
    (match fold_outcome gstep
             (sorted_by O ikey
                (fold_left (fun acc a => (acc ++ [(BBox_left O (snd a), a, snd a, true, false)]) ++ [(BBox_right O (snd a), a, snd a, false, false)]) setb
                   (fold_left (fun acc a => (acc ++ [(BBox_left O (snd a), a, snd a, true, true)]) ++ [(BBox_right O (snd a), a, snd a, false, true)]) seta [])))
             (unflag ([], [], [])) with
     | Raises e => Raises e
     | Returns (_, _, r) => Returns r
     end).
  rewrite !instrs_fold, gfold_run. unfold sweep_run. cbn [app].
  destruct (fold_left rstep _ _) as [[aa ab] out]. reflexivity.
Qed.

(* ---------- the hand model is the run on collections tagged by position, without the boxes of the reports ---------- *)
Definition index_from (k : nat) (l : list (bbox T)) : list (shape T) := combine (seq k (length l)) l.
Definition index_shapes (l : list (bbox T)) : list (shape T) := index_from 0 l.      (* shape i = (i, box i) *)
Definition ev_of (i : instr) : HS.ev (T := T) :=
  let '(key, o, b, verb, isA) := i in HS.Ev key isA verb (fst o) b.
Definition strip (it : ritem) : nat * bbox T := (fst (fst it), snd it).
Definition hstate_of (st : rstate) : HS.state (T := T) :=
  let '(aa, ab, out) := st in (map strip aa, map strip ab, map ids_of out).

Lemma events_of_instrs (isA : bool) (l : list (bbox T)) (k : nat) :
  map ev_of (instrs_of isA (index_from k l)) = HS.events_from isA k l.
Proof.
  revert k. induction l as [|b l IH]; intro k; [reflexivity|].
  unfold index_from in *. cbn [length seq combine instrs_of flat_map app map HS.events_from]. unfold instrs_of in IH.
  rewrite IH. reflexivity.
Qed.

Lemma insert_ev_of (x : instr) (l : list instr) :
  map ev_of (insert_by O ikey x l) = HS.insert_ev O (ev_of x) (map ev_of l).
Proof.
  assert (K : forall i, HS.ekey (ev_of i) = ikey i) by (intros [[[[? ?] ?] ?] ?]; reflexivity).
  induction l as [|y l IH]; [reflexivity|]. cbn [insert_by map HS.insert_ev]. rewrite !K.
  destruct (ltb O (ikey x) (ikey y)); [reflexivity|]. cbn [map]. rewrite IH. reflexivity.
Qed.
Lemma sort_ev_of (l : list instr) : map ev_of (sorted_by O ikey l) = HS.sort_ev O (map ev_of l).
Proof.
  unfold sorted_by, HS.sort_ev. change (@nil HS.ev) with (map ev_of []). generalize (@nil instr).
  induction l as [|x l IH]; intro acc; [reflexivity|]. cbn [fold_left map]. rewrite IH, insert_ev_of. reflexivity.
Qed.

Lemma filter_strip (f : nat * bbox T -> bool) (l : list ritem) :
  filter f (map strip l) = map strip (filter (fun it => f (strip it)) l).
Proof. induction l as [|a l IH]; [reflexivity|]. cbn [map filter]. destruct (f (strip a)); cbn [map]; rewrite IH; reflexivity. Qed.

Lemma hstep_run (st : rstate) (i : instr) : HS.step O (hstate_of st) (ev_of i) = hstate_of (rstep st i).
Proof.
  destruct st as [[aa ab] out]. destruct i as [[[[key [oi ob]] b] verb] isA].
  unfold HS.step, rstep, hstate_of, ev_of. cbn [HS.eadd HS.eisA HS.eid HS.ebox fst snd].
  destruct verb.
  - destruct isA; rewrite !map_app, filter_strip, !map_map; reflexivity.
  - destruct isA; rewrite filter_strip; reflexivity.
Qed.
Lemma hfold_run (l : list instr) (st : rstate) :
  fold_left (HS.step O) (map ev_of l) (hstate_of st) = hstate_of (fold_left rstep l st).
Proof. revert st. induction l as [|i l IH]; intro st; [reflexivity|]. cbn [map fold_left]. rewrite hstep_run. apply IH. Qed.

Theorem bbox_intersections_hand (A B : list (bbox T)) :
  HS.bbox_intersections O A B = map ids_of (sweep_run (index_shapes A) (index_shapes B)).
Proof.
  unfold HS.bbox_intersections, sweep_run, index_shapes.
  rewrite <- !events_of_instrs, <- map_app, <- sort_ev_of.
  change (@nil (nat * bbox T), @nil (nat * bbox T), @nil (bool * nat * nat)) with (hstate_of ([], [], [])).
  rewrite hfold_run. destruct (fold_left rstep _ _) as [[aa ab] out]. reflexivity.
Qed.

(* Hence: on collections tagged by position the regenerated sweep never raises, and what it returns is, pair for pair and in
   the same order, what the hand model reports (the hand model adds which collection the first shape came from, the generated
   definition the boxes). *)
Corollary bbox_intersections_gen_hand (A B : list (bbox T)) :
  exists r, linesweep_bbox_intersections O (index_shapes A) (index_shapes B) = Returns r /\
            map (fun p : shape T * shape T => (fst (fst p), fst (snd p))) r =
            map (fun q : bool * nat * nat => (snd (fst q), snd q)) (HS.bbox_intersections O A B).
Proof.
  eexists. split; [apply bbox_intersections_gen|]. rewrite bbox_intersections_hand, !map_map. reflexivity.
Qed.
End SweepBridge.

(* ====================================================================================================== *)
(* 3. path/__init__.py: BezierPath.splitAtPoints / addExtremes (property C03)

   Hand/Split.v: the dictionary as an association list with [dict_append] / [dict_take] (which hands the stored list out and
   leaves [] behind), the inner `while` as a recursion that conses the pieces on the way back, its own fuel (the length of the
   list), and ZeroDivisionError of mapx as the value [ZeroDiv].  Gen/Split.v is REGENERATED from the Python text: the three
   dict idioms the translator knows (the grouping loop is [dict_append], `for k in d: d[k] = sorted(d[k])` a map over the
   items, `if seg in d: tList = d[seg]` a [dict_get] whose result is stored back with [dict_set] when the block ends), the
   `while` as a fuelled Fixpoint carrying (newsegs, seg, tList), the `for i in range(len(tList)): tList[i] = mapx(..)` loop
   as a map, the walk as [fold_option].  `/` is the total [dvd] in Gen, so ZeroDivisionError exists on the hand side only;
   the relation is, for every carrier O:

       HSp.splitAtPoints O segs sl = Ok r  ->  length sl < fuel  ->  Path_splitAtPoints O fuel segs sl = Some r
       HSp.addExtremes O segs = Ok r  ->  length (HSp.extremes_splitlist O segs) < fuel  ->  Path_addExtremes O fuel segs = Some r

   (whenever the hand model returns a path, the regenerated definition returns the same path, given fuel beyond the number
   of split points; Proofs/C03.v shows the hand model never returns OutOfFuel). *)
From BZ Require Import Gen.Line Gen.Quad Gen.Cubic Gen.Split.
From BZ Require Hand.Split.
Module HSp := BZ.Hand.Split.

Section SplitBridge.
Context {T : Type} (O : Ops T).

Lemma segment_keyeq_hand (a b : segment T) : HSp.seg_keyeq O a b = segment_keyeq O a b.
Proof. destruct a, b; reflexivity. Qed.

Lemma dict_append_hand (d : list (segment T * list T)) (k : segment T) (t : T) :
  HSp.dict_append O d k t = dict_append (segment_keyeq O) d k t.
Proof.
  induction d as [|[k' l] d IH]; [reflexivity|]. cbn [HSp.dict_append dict_append]. rewrite segment_keyeq_hand, IH. reflexivity.
Qed.
Lemma group_hand (sl : list (segment T * T)) (d : list (segment T * list T)) :
  fold_left (fun d p => HSp.dict_append O d (fst p) (snd p)) sl d =
  fold_left (fun d '(s, t) => dict_append (segment_keyeq O) d s t) sl d.
Proof.
  revert d. induction sl as [|[s t] sl IH]; intro d; [reflexivity|]. cbn [fold_left fst snd]. rewrite dict_append_hand. apply IH.
Qed.

(* `if seg in d: tList = d[seg]` ... the list is empty when the while loop ends, and is stored back *)
Lemma dict_take_hand (d : list (segment T * list T)) (k : segment T) :
  HSp.dict_take O d k =
  match dict_get (segment_keyeq O) d k with
  | Some l => Some (l, dict_set (segment_keyeq O) d k [])
  | None => None
  end.
Proof.
  induction d as [|[k' l] d IH]; [reflexivity|]. cbn [HSp.dict_take dict_get dict_set]. rewrite segment_keyeq_hand.
  destruct (segment_keyeq O k' k); [reflexivity|]. rewrite IH. destruct (dict_get (segment_keyeq O) d k); reflexivity.
Qed.

(* the inner while loop *)
Lemma split_loop_hand : forall (n fuel : nat) (seg : segment T) (ts : list T) (acc ps : list (segment T)),
  HSp.split_walk_fuel O n seg ts = HSp.Ok ps -> (length ts < fuel)%nat ->
  exists pre last, ps = pre ++ [last] /\ Path_splitAtPoints_loop1 O fuel acc seg ts = Some (acc ++ pre, last, []).
Proof.
  induction n as [|n IH]; intros fuel seg ts acc ps H Hf.
  - destruct ts as [|t rest]; [|discriminate H]. cbn in H. injection H as <-.
    exists [], seg. split; [reflexivity|]. destruct fuel; [lia|]. rewrite app_nil_r. reflexivity.
  - destruct ts as [|t rest].
    + cbn in H. injection H as <-. exists [], seg. split; [reflexivity|]. destruct fuel; [lia|]. rewrite app_nil_r. reflexivity.
    + destruct fuel as [|fuel]; [lia|]. cbn [length] in Hf.
      cbn [HSp.split_walk_fuel] in H. cbn [Path_splitAtPoints_loop1].
      destruct (ltb O t (lit O 1 100000000 0x1.5798ee2308c3ap-27%float)).
      * apply (IH fuel seg rest acc ps H). lia.
      * unfold HSp.remap in H.
        assert (S2 : HSp.seg_split O seg t =
                     match seg with
                     | SLine s_ => let '(y0_, y1_) := Line_splitAtTime O s_ t in (SLine y0_, SLine y1_)
                     | SQuad s_ => let '(y0_, y1_) := Quad_splitAtTime O s_ t in (SQuad y0_, SQuad y1_)
                     | SCubic s_ => let '(y0_, y1_) := Cubic_splitAtTime O s_ t in (SCubic y0_, SCubic y1_)
                     end) by reflexivity.
        rewrite <- S2. destruct (HSp.seg_split O seg t) as [s1 s2].
        assert (R : exists rest', match rest with
                                   | [] => HSp.Ok []
                                   | _ :: _ => if eqb O (sub O (ofZ O 1) t) (ofZ O 0) then HSp.ZeroDiv else HSp.Ok (map (fun v => HSp.mapx O v t) rest)
                                   end = HSp.Ok rest' /\ rest' = map (fun x_ => dvd O (sub O x_ t) (sub O (ofZ O 1) t)) rest
                                \/ match rest with
                                   | [] => HSp.Ok []
                                   | _ :: _ => if eqb O (sub O (ofZ O 1) t) (ofZ O 0) then HSp.ZeroDiv else HSp.Ok (map (fun v => HSp.mapx O v t) rest)
                                   end = @HSp.ZeroDiv (list T)).
        { destruct rest as [|r0 rest0]; [exists []; left; split; reflexivity|].
          destruct (eqb O (sub O (ofZ O 1) t) (ofZ O 0)); [exists []; right; reflexivity|].
          eexists; left; split; reflexivity. }
        destruct R as [rest' [[R1 R2]|R1]]; rewrite R1 in H; [|discriminate H].
        destruct (HSp.split_walk_fuel O n s2 rest') as [ps'| |] eqn:E; cbn [HSp.res_map] in H; try discriminate H.
        injection H as <-.
        destruct (IH fuel s2 rest' (acc ++ [s1]) ps' E) as [pre [last [-> L]]].
        { subst rest'. rewrite map_length. lia. }
        exists (s1 :: pre), last. split; [reflexivity|]. subst rest'. rewrite L, <- app_assoc. reflexivity.
Qed.

(* the body of `for seg in segs:` as generated; state (newsplitlist, newsegs) *)
Definition sp_step (fuel : nat) (st : list (segment T * list T) * list (segment T)) : segment T -> option (list (segment T * list T) * list (segment T)) :=
  let '(d, newsegs) := st in fun seg =>
  match dict_get (segment_keyeq O) d seg with
  | Some tl =>
      match Path_splitAtPoints_loop1 O fuel newsegs seg tl with
      | None => None
      | Some (newsegs', seg', tl') => Some (dict_set (segment_keyeq O) d seg tl', newsegs' ++ [seg'])
      end
  | None => Some (d, newsegs ++ [seg])
  end.

Definition short_lists (fuel : nat) (d : list (segment T * list T)) : Prop := Forall (fun kv => (length (snd kv) < fuel)%nat) d.
Lemma short_get fuel d k l : short_lists fuel d -> dict_get (segment_keyeq O) d k = Some l -> (length l < fuel)%nat.
Proof.
  induction 1 as [|[k' l'] d H _ IH]; [discriminate|]. cbn [dict_get]. destruct (segment_keyeq O k' k); [|exact IH].
  intro E; injection E as <-. exact H.
Qed.
Lemma short_set fuel d k : (0 < fuel)%nat -> short_lists fuel d -> short_lists fuel (dict_set (segment_keyeq O) d k []).
Proof.
  intros Hf. induction 1 as [|[k' l'] d H H0 IH]; [repeat constructor; exact Hf|]. cbn [dict_set].
  destruct (segment_keyeq O k' k); constructor; first [assumption | exact Hf].
Qed.

Lemma walk_hand (fuel : nat) : forall (segs : list (segment T)) (d : list (segment T * list T)) (acc r : list (segment T)),
  (0 < fuel)%nat -> short_lists fuel d -> HSp.walk_path O d segs = HSp.Ok r ->
  exists d', fold_option (sp_step fuel) segs (d, acc) = Some (d', acc ++ r).
Proof.
  induction segs as [|s segs IH]; intros d acc r Hf Hd H.
  - cbn in H. injection H as <-. exists d. rewrite app_nil_r. reflexivity.
  - cbn [HSp.walk_path] in H. cbn [fold_option]. unfold sp_step at 1. rewrite dict_take_hand in H.
    destruct (dict_get (segment_keyeq O) d s) as [tl|] eqn:G.
    + unfold HSp.split_walk in H.
      destruct (HSp.split_walk_fuel O (length tl) s tl) as [ps| |] eqn:E; try discriminate H.
      destruct (split_loop_hand _ fuel s tl acc ps E (short_get _ _ _ _ Hd G)) as [pre [last [-> L]]]. rewrite L.
      destruct (HSp.walk_path O (dict_set (segment_keyeq O) d s []) segs) as [r'| |] eqn:W; cbn [HSp.res_map] in H; try discriminate H.
      injection H as <-.
      destruct (IH _ ((acc ++ pre) ++ [last]) r' Hf (short_set _ _ _ Hf Hd) W) as [d' F]. exists d'. rewrite F, <- !app_assoc. reflexivity.
    + destruct (HSp.walk_path O d segs) as [r'| |] eqn:W; cbn [HSp.res_map] in H; try discriminate H.
      injection H as <-.
      destruct (IH _ (acc ++ [s]) r' Hf Hd W) as [d' F]. exists d'. rewrite F, <- app_assoc. reflexivity.
Qed.

(* every list stored by the grouping loop is no longer than the split list; sorting keeps lengths *)
Lemma insert_sorted_length (x : T) (l : list T) : length (insert_sorted O x l) = S (length l).
Proof. induction l as [|y l IH]; [reflexivity|]. cbn [insert_sorted]. destruct (ltb O x y); cbn [length]; [reflexivity|]. rewrite IH. reflexivity. Qed.
Lemma sort_length (l : list T) : length (sort_ O l) = length l.
Proof.
  unfold sort_. assert (G : forall acc, length (fold_left (fun acc x => insert_sorted O x acc) l acc) = (length acc + length l)%nat).
  { induction l as [|x l IH]; intro acc; cbn [fold_left length]; [lia|]. rewrite IH, insert_sorted_length. lia. }
  rewrite G. reflexivity.
Qed.
Definition total_length (d : list (segment T * list T)) : nat := fold_right (fun kv n => (length (snd kv) + n)%nat) 0%nat d.
Lemma dict_append_total d k t : total_length (dict_append (segment_keyeq O) d k t) = S (total_length d).
Proof.
  induction d as [|[k' l] d IH]; [reflexivity|]. cbn [dict_append]. destruct (segment_keyeq O k' k); cbn [total_length fold_right snd].
  - rewrite app_length. cbn [length]. fold (total_length d). lia.
  - fold (total_length (dict_append (segment_keyeq O) d k t)). fold (total_length d). rewrite IH. lia.
Qed.
Lemma group_total (sl : list (segment T * T)) d :
  total_length (fold_left (fun d '(s, t) => dict_append (segment_keyeq O) d s t) sl d) = (total_length d + length sl)%nat.
Proof.
  revert d. induction sl as [|[s t] sl IH]; intro d; cbn [fold_left length]; [lia|]. rewrite IH, dict_append_total. lia.
Qed.
Lemma short_of_total fuel d : (total_length d < fuel)%nat -> short_lists fuel (map (fun kv => (fst kv, sort_ O (snd kv))) d).
Proof.
  induction d as [|[k l] d IH]; intro H; [constructor|]. cbn [total_length fold_right snd] in H. fold (total_length d) in H.
  cbn [map]. constructor; [cbn [snd fst]; rewrite sort_length; lia|]. apply IH. lia.
Qed.

Theorem splitAtPoints_gen (fuel : nat) (segs : list (segment T)) (sl : list (segment T * T)) (r : list (segment T)) :
  HSp.splitAtPoints O segs sl = HSp.Ok r -> (length sl < fuel)%nat -> Path_splitAtPoints O fuel segs sl = Some r.
Proof.
  intros H Hf. unfold HSp.splitAtPoints, HSp.sort_values, HSp.group in H. rewrite group_hand in H.
  change (Path_splitAtPoints O fuel segs sl) with
    (match fold_option (sp_step fuel) segs
             (map (fun kv_ => (fst kv_, sort_ O (snd kv_))) (fold_left (fun d '(s, t) => dict_append (segment_keyeq O) d s t) sl []), []) with
     | None => None
     | Some (_, newsegs) => Some newsegs
     end).
  assert (Hs : short_lists fuel (map (fun kv => (fst kv, sort_ O (snd kv))) (fold_left (fun d '(s, t) => dict_append (segment_keyeq O) d s t) sl []))).
  { apply short_of_total. rewrite group_total. cbn. lia. }
  assert (Hp : (0 < fuel)%nat) by lia.
  destruct (walk_hand fuel segs _ [] r Hp Hs H) as [d' F]. rewrite F. reflexivity.
Qed.

(* addExtremes: the split list is built by two nested loops *)
Lemma extremes_fold (segs : list (segment T)) (acc : list (segment T * T)) :
  fold_left (fun sl seg => fold_left (fun sl t => sl ++ [(seg, t)])
                             (match seg with SLine s_ => Line_findExtremes O s_ | SQuad s_ => Quad_findExtremes O s_ | SCubic s_ => Cubic_findExtremes_False O s_ end) sl)
            segs acc = acc ++ HSp.extremes_splitlist O segs.
Proof.
  revert acc. induction segs as [|s segs IH]; intro acc; [cbn; rewrite app_nil_r; reflexivity|].
  cbn [fold_left]. rewrite IH. unfold HSp.extremes_splitlist. cbn [flat_map]. rewrite app_assoc. f_equal.
  change (match s with SLine s_ => Line_findExtremes O s_ | SQuad s_ => Quad_findExtremes O s_ | SCubic s_ => Cubic_findExtremes_False O s_ end)
    with (HSp.seg_extremes O s).
  generalize (HSp.seg_extremes O s) as ts. intro ts. revert acc. induction ts as [|t ts IHt]; intro acc; [cbn; rewrite app_nil_r; reflexivity|].
  cbn [fold_left map]. rewrite IHt, <- app_assoc. reflexivity.
Qed.

Theorem addExtremes_gen (fuel : nat) (segs r : list (segment T)) :
  HSp.addExtremes O segs = HSp.Ok r -> (length (HSp.extremes_splitlist O segs) < fuel)%nat -> Path_addExtremes O fuel segs = Some r.
Proof.
  intros H Hf. unfold HSp.addExtremes in H.
  unfold Path_addExtremes. cbv zeta. rewrite (extremes_fold segs []). cbn [app].
  rewrite (splitAtPoints_gen fuel segs _ r H Hf). reflexivity.
Qed.
End SplitBridge.
