(* C08: segment, node-list and textual representations are lossless.
   Proofs about the hand-written model Hand/Nodelist.v. *)
From Coq Require Import PrimFloat.
From Coq Require Import Ascii String.
From Coq Require Import ZArith List Bool Reals Lra Lia Psatz.
From BZ Require Import Base.Ops Proofs.Tactics Hand.Nodelist.
Import ListNotations.
Open Scope R_scope.

(* ------------------------------------------------------------------------------------------------ *)
(* Specification vocabulary                                                                          *)
(* ------------------------------------------------------------------------------------------------ *)
(* each segment starts exactly where the previous one ends *)
Fixpoint wf_chain {T : Type} (l : list (segment T)) : Prop :=
  match l with
  | [] => True
  | s :: r => match r with [] => True | s' :: _ => seg_end s = seg_start s' end /\ wf_chain r
  end.
Definition first_start {T : Type} (l : list (segment T)) : option (pt T) := option_map seg_start (hd_error l).
Definition last_end {T : Type} (l : list (segment T)) : option (pt T) := option_map seg_end (hd_error (rev l)).

(* one trip segments -> node list -> segments *)
Definition roundtrip {T : Type} (O : Ops T) (closed : bool) (segs : list (segment T)) : option (list (segment T)) :=
  obind (fromNodelist O closed) (toNodelist segs).

(* first on-curve point in list order; last on-curve point in list order *)
Definition first_on {T : Type} (nl : list (node T)) : option (pt T) :=
  option_map fst (find (fun n => negb (is_off n)) nl).
Definition upd_on {T : Type} (a : option (pt T)) (n : node T) : option (pt T) :=
  if is_off n then a else Some (fst n).
Definition last_on {T : Type} (nl : list (node T)) : option (pt T) := fold_left upd_on nl None.
Definition has_on {T : Type} (nl : list (node T)) : bool := existsb (fun n => negb (is_off n)) nl.
(* number of off-curve nodes after the last on-curve node, in list order *)
Definition trailing_offs {T : Type} (nl : list (node T)) : nat :=
  fold_left (fun k n => if is_off n then S k else 0%nat) nl 0%nat.
(* number of off-curve nodes before the first on-curve node *)
Fixpoint leading_offs {T : Type} (nl : list (node T)) : nat :=
  match nl with [] => 0%nat | n :: r => if is_off n then S (leading_offs r) else 0%nat end.

(* rotation of a list to the left *)
Definition rotl1 {A : Type} (l : list A) : list A := match l with [] => [] | x :: r => r ++ [x] end.
Definition rotl {A : Type} (k : nat) (l : list A) : list A := Nat.iter k rotl1 l.

(* ------------------------------------------------------------------------------------------------ *)
(* Generic lemmas about the walk (any carrier)                                                       *)
(* ------------------------------------------------------------------------------------------------ *)
Section Generic.
Context {T : Type} (O : Ops T).
Implicit Types (nl l pre rest : list (node T)) (f : node T) (acc : list (segment T)) (seg : list (pt T)) (p : pt T).

Lemma walk_app (st : @wstate T) l1 l2 :
  walk st (l1 ++ l2) = obind (fun st' => walk st' l2) (walk st l1).
Proof.
  revert st; induction l1 as [|n r IH]; intros st; simpl; [reflexivity|].
  destruct (wstep st n) as [st'|]; [apply IH | reflexivity].
Qed.

Lemma wstep_on acc seg (n : node T) :
  is_off n = false ->
  wstep (acc, seg) n = option_map (fun s => (acc ++ [s], [fst n])) (mk_segment (seg ++ [fst n])).
Proof.
  unfold is_off, wstep. destruct (snd n); try discriminate; intros _;
  destruct (mk_segment (seg ++ [fst n])); reflexivity.
Qed.

(* the segments already collected are only ever extended *)
Lemma walk_acc acc seg l :
  walk (acc, seg) l = option_map (fun st => (acc ++ fst st, snd st)) (walk ([], seg) l).
Proof.
  revert acc seg; induction l as [|n r IH]; intros acc seg; simpl.
  - now rewrite app_nil_r.
  - destruct (snd n).
    + destruct (mk_segment (seg ++ [fst n])) as [s|]; [|reflexivity].
      rewrite (IH (acc ++ [s])), (IH ([] ++ [s])). simpl.
      destruct (walk ([], [fst n]) r) as [[a b]|]; simpl; [|reflexivity].
      now rewrite <- app_assoc.
    + destruct (mk_segment (seg ++ [fst n])) as [s|]; [|reflexivity].
      rewrite (IH (acc ++ [s])), (IH ([] ++ [s])). simpl.
      destruct (walk ([], [fst n]) r) as [[a b]|]; simpl; [|reflexivity].
      now rewrite <- app_assoc.
    + apply IH.
Qed.

(* off-curve nodes are just collected *)
Lemma walk_offs acc seg l :
  forallb is_off l = true -> walk (acc, seg) l = Some (acc, seg ++ map fst l).
Proof.
  revert seg; induction l as [|n r IH]; intros seg H; simpl in *.
  - now rewrite app_nil_r.
  - apply andb_prop in H as [Hn Hr]. unfold is_off in Hn.
    destruct (snd n); try discriminate. rewrite (IH _ Hr). now rewrite <- app_assoc.
Qed.

(* the pending list always starts with the last on-curve point seen *)
Lemma walk_head acc p seg0 l acc' seg' :
  walk (acc, p :: seg0) l = Some (acc', seg') ->
  exists q seg0', seg' = q :: seg0' /\ fold_left upd_on l (Some p) = Some q.
Proof.
  revert acc p seg0; induction l as [|n r IH]; intros acc p seg0 H.
  - simpl in *. inversion H; subst. eauto.
  - cbn [walk] in H. cbn [fold_left]. unfold wstep in H. unfold upd_on at 2, is_off.
    destruct (snd n).
    + destruct (mk_segment ((p :: seg0) ++ [fst n])); [|discriminate]. eapply IH; eauto.
    + destruct (mk_segment ((p :: seg0) ++ [fst n])); [|discriminate]. eapply IH; eauto.
    + eapply IH. exact H.
Qed.

Lemma mk_segment_end seg p s : mk_segment (seg ++ [p]) = Some s -> seg_end s = p.
Proof.
  destruct seg as [|a [|b [|c [|d [|e r]]]]]; simpl; intros H; inversion H; subst; reflexivity.
Qed.
Lemma mk_segment_start p seg s : mk_segment (p :: seg) = Some s -> seg_start s = p.
Proof.
  destruct seg as [|b [|c [|d [|e r]]]]; simpl; intros H; inversion H; subst; reflexivity.
Qed.
Lemma mk_segment_points seg s : mk_segment seg = Some s -> seg_points s = seg.
Proof.
  destruct seg as [|a [|b [|c [|d [|e r]]]]]; simpl; intros H; inversion H; subst; reflexivity.
Qed.
Lemma mk_segment_some seg : (2 <= List.length seg <= 4)%nat -> exists s, mk_segment seg = Some s.
Proof.
  destruct seg as [|a [|b [|c [|d [|e r]]]]]; simpl; intros H; try lia; eauto.
Qed.

(* --- splitting a node list at its first on-curve node --- *)
Lemma has_on_decomp nl :
  has_on nl = true ->
  exists pre f rest, nl = pre ++ f :: rest /\ forallb is_off pre = true /\ is_off f = false.
Proof.
  induction nl as [|n r IH]; simpl; [discriminate|].
  destruct (is_off n) eqn:E; simpl; intros H.
  - destruct (IH H) as (pre & f & rest & -> & Hp & Hf).
    exists (n :: pre), f, rest. simpl. rewrite E. auto.
  - exists [], n, r. auto.
Qed.

Lemma find_oncurve_decomp pre f rest :
  forallb is_off pre = true -> is_off f = false ->
  find_oncurve (pre ++ f :: rest) = Some (List.length pre).
Proof.
  intros Hp Hf; induction pre as [|n r IH]; simpl in *.
  - now rewrite Hf.
  - apply andb_prop in Hp as [Hn Hr]. rewrite Hn, (IH Hr). reflexivity.
Qed.
Lemma skipn_decomp {A} (pre : list A) (f : A) (rest : list A) : skipn (S (List.length pre)) (pre ++ f :: rest) = rest.
Proof. induction pre; simpl; auto. Qed.
Lemma firstn_decomp {A} (pre : list A) (f : A) (rest : list A) : firstn (List.length pre) (pre ++ f :: rest) = pre.
Proof. induction pre; simpl; auto; now f_equal. Qed.
Lemma nth_error_decomp {A} (pre : list A) (f : A) (rest : list A) : nth_error (pre ++ f :: rest) (List.length pre) = Some f.
Proof. induction pre; simpl; auto. Qed.

Lemma split_first_decomp pre f rest :
  forallb is_off pre = true -> is_off f = false ->
  split_first (pre ++ f :: rest) = Some (f, rest, pre).
Proof.
  intros Hp Hf. unfold split_first.
  rewrite (find_oncurve_decomp _ _ _ Hp Hf), nth_error_decomp, skipn_decomp, firstn_decomp. reflexivity.
Qed.

(* the walk goes once around the cycle, starting just after the first on-curve node *)
Lemma fromNodelist_decomp closed pre f rest :
  forallb is_off pre = true -> is_off f = false ->
  fromNodelist O closed (pre ++ f :: rest) =
  obind (finish O closed (fst f)) (walk ([], [fst f]) (rest ++ pre)).
Proof.
  intros Hp Hf. unfold fromNodelist. rewrite (split_first_decomp _ _ _ Hp Hf), walk_app.
  destruct (walk ([], [fst f]) rest) as [st1|]; simpl; [|reflexivity].
  destruct (walk st1 pre); reflexivity.
Qed.

(* --- the walk over the image of toNodelist --- *)
Lemma last_cons_default {A} (a : A) (l0 : list A) d : last (a :: l0) d = last l0 a.
Proof.
  revert a d; induction l0 as [|b l' IH]; intros a d; [reflexivity|].
  change (last (a :: b :: l') d) with (last (b :: l') d). now rewrite !IH.
Qed.
Lemma walk_chain segs acc p :
  wf_chain segs -> first_start segs = Some p \/ segs = [] ->
  walk (acc, [p]) (flat_map seg_nodes segs) = Some (acc ++ segs, [last (map seg_end segs) p]).
Proof.
  revert acc p; induction segs as [|s r IH]; intros acc p Hwf Hs.
  - simpl. now rewrite app_nil_r.
  - destruct Hs as [Hs|Hs]; [|discriminate]. simpl in Hs. injection Hs as Hs.
    destruct Hwf as [Hj Hwf].
    assert (Hr : first_start r = Some (seg_end s) \/ r = []).
    { destruct r as [|s' r']; [now right|left]. simpl. now rewrite Hj. }
    specialize (IH (acc ++ [s]) (seg_end s) Hwf Hr).
    change (flat_map seg_nodes (s :: r)) with (seg_nodes s ++ flat_map seg_nodes r).
    rewrite walk_app.
    assert (E : walk (acc, [p]) (seg_nodes s) = Some (acc ++ [s], [seg_end s])).
    { subst p. destruct s as [[a b]|[a b c]|[a b c d]]; reflexivity. }
    rewrite E. simpl obind. rewrite IH. rewrite <- app_assoc. simpl.
    f_equal. f_equal. f_equal. symmetry. apply last_cons_default.
Qed.

Lemma toNodelist_cons (s : segment T) r :
  toNodelist (s :: r) =
  Some ((seg_start s, match s with SLine _ => NLine | _ => NCurve end) :: flat_map seg_nodes (s :: r)).
Proof. reflexivity. Qed.

Lemma roundtrip_walk closed (s : segment T) r :
  wf_chain (s :: r) ->
  roundtrip O closed (s :: r) =
  finish O closed (seg_start s) (s :: r, [last (map seg_end (s :: r)) (seg_start s)]).
Proof.
  intros Hwf. unfold roundtrip. rewrite toNodelist_cons. cbn [obind].
  set (ty := match s with SLine _ => NLine | _ => NCurve end).
  assert (Hty : is_off (seg_start s, ty) = false) by (destruct s; reflexivity).
  pose proof (fromNodelist_decomp closed [] _ (flat_map seg_nodes (s :: r)) eq_refl Hty) as E.
  cbn [app] in E. etransitivity; [exact E|]. rewrite app_nil_r. cbn [fst].
  rewrite (walk_chain (s :: r) [] (seg_start s) Hwf (or_introl eq_refl)). reflexivity.
Qed.

(* Theorem 1, for every carrier: the open round trip is the identity *)
Theorem nodes_roundtrip_open_gen segs :
  wf_chain segs -> segs <> [] -> obind (fromNodelist O false) (toNodelist segs) = Some segs.
Proof.
  intros Hwf Hne. destruct segs as [|s r]; [congruence|].
  exact (roundtrip_walk false s r Hwf).
Qed.

Lemma last_rev {A B} (g : A -> B) (l : list A) x d : hd_error (rev l) = Some x -> last (map g l) d = g x.
Proof.
  intros H. destruct (rev l) as [|y l'] eqn:E; [discriminate|]. injection H as ->.
  assert (l = rev l' ++ [x]) as -> by (rewrite <- (rev_involutive l), E; reflexivity).
  rewrite map_app. simpl. apply last_last.
Qed.
End Generic.

(* ------------------------------------------------------------------------------------------------ *)
(* Theorems 1, 2 over the reals                                                                      *)
(* ------------------------------------------------------------------------------------------------ *)
Lemma isclose_refl (a : R) : isclose ROps a a = true.
Proof. unfold isclose. assert (E : eqb ROps a a = true) by now apply Reqb_true. now rewrite E. Qed.
Lemma pclose_refl (p : pt R) : pclose ROps p p = true.
Proof. unfold pclose. now rewrite !isclose_refl. Qed.

Theorem nodes_roundtrip_open (segs : list (segment R)) :
  wf_chain segs -> segs <> [] -> obind (fromNodelist ROps false) (toNodelist segs) = Some segs.
Proof. apply nodes_roundtrip_open_gen. Qed.

Theorem nodes_roundtrip_closed (segs : list (segment R)) :
  wf_chain segs -> segs <> [] -> last_end segs = first_start segs ->
  obind (fromNodelist ROps true) (toNodelist segs) = Some segs.
Proof.
  intros Hwf Hne Hcl. destruct segs as [|s r]; [congruence|].
  change (roundtrip ROps true (s :: r) = Some (s :: r)).
  rewrite (roundtrip_walk ROps true s r Hwf).
  unfold last_end in Hcl. destruct (hd_error (rev (s :: r))) as [x|] eqn:E; [|discriminate].
  rewrite (last_rev seg_end _ x _ E). simpl in Hcl. injection Hcl as Hcl. rewrite Hcl.
  unfold finish. now rewrite pclose_refl.
Qed.

(* any number of round trips *)
Theorem roundtrip_iterated (closed : bool) (segs : list (segment R)) (n : nat) :
  wf_chain segs -> segs <> [] -> (closed = true -> last_end segs = first_start segs) ->
  Nat.iter n (obind (roundtrip ROps closed)) (Some segs) = Some segs.
Proof.
  intros Hwf Hne Hcl. induction n as [|n IH]; simpl; [reflexivity|]. rewrite IH. simpl.
  destruct closed.
  - apply nodes_roundtrip_closed; auto.
  - apply nodes_roundtrip_open; auto.
Qed.

(* the same at the level of paths: asNodelist then asSegments gives back the path and its segments *)
Theorem path_roundtrip (closed : bool) (segs : list (segment R)) :
  wf_chain segs -> segs <> [] -> (closed = true -> last_end segs = first_start segs) ->
  exists nl, asNodelist (SegRep segs, closed) = Some ((NodeRep nl, closed), nl) /\
             asSegments ROps (NodeRep nl, closed) = Some ((SegRep segs, closed), segs).
Proof.
  intros Hwf Hne Hcl. destruct segs as [|s r]; [congruence|].
  eexists. split; [reflexivity|]. unfold asSegments. cbn [fst snd].
  assert (E : obind (fromNodelist ROps closed) (toNodelist (s :: r)) = Some (s :: r)).
  { destruct closed; [apply nodes_roundtrip_closed | apply nodes_roundtrip_open]; auto. }
  rewrite toNodelist_cons in E. cbn [obind] in E. rewrite E. reflexivity.
Qed.
(* the switches do nothing when the active representation already has the requested kind *)
Lemma asSegments_idle {T} (O : Ops T) segs closed : asSegments O (SegRep segs, closed) = Some ((SegRep segs, closed), segs).
Proof. reflexivity. Qed.
Lemma asNodelist_idle {T} (nl : list (node T)) closed : asNodelist (NodeRep nl, closed) = Some ((NodeRep nl, closed), nl).
Proof. reflexivity. Qed.

(* ------------------------------------------------------------------------------------------------ *)
(* Theorem 3: the closing rule                                                                       *)
(* ------------------------------------------------------------------------------------------------ *)
Section Closing.
Context {T : Type} (O : Ops T).
Implicit Types (nl pre rest : list (node T)) (n : node T) (acc : list (segment T)) (seg : list (pt T)) (p f l : pt T).

Lemma first_on_decomp nl f :
  first_on nl = Some f ->
  exists pre ty rest, nl = pre ++ (f, ty) :: rest /\ forallb is_off pre = true /\ is_off (f, ty) = false.
Proof.
  unfold first_on. induction nl as [|n r IH]; simpl; [discriminate|].
  destruct (is_off n) eqn:E; simpl; intros H.
  - destruct (IH H) as (pre & ty & rest & -> & Hp & Hf).
    exists (n :: pre), ty, rest. simpl. rewrite E. auto.
  - injection H as <-. exists [], (snd n), r. destruct n as [q ty]. simpl in *. auto.
Qed.

Lemma upd_on_offs nl (a : option (pt T)) : forallb is_off nl = true -> fold_left upd_on nl a = a.
Proof.
  revert a; induction nl as [|n r IH]; intros a H; simpl in *; [reflexivity|].
  apply andb_prop in H as [Hn Hr]. unfold upd_on at 2. rewrite Hn. auto.
Qed.

Lemma last_on_decomp pre n rest :
  forallb is_off pre = true -> is_off n = false ->
  last_on (pre ++ n :: rest) = fold_left upd_on rest (Some (fst n)).
Proof.
  intros Hp Hn. unfold last_on. rewrite fold_left_app, (upd_on_offs _ _ Hp). simpl.
  unfold upd_on at 2. now rewrite Hn.
Qed.

(* what the walk leaves pending: the last on-curve point, then the off-curve points after it *)
Lemma walk_cycle_head pre n rest acc seg :
  forallb is_off pre = true -> is_off n = false ->
  walk ([], [fst n]) (rest ++ pre) = Some (acc, seg) ->
  exists q seg0, seg = q :: seg0 /\ last_on (pre ++ n :: rest) = Some q.
Proof.
  intros Hp Hn W. destruct (walk_head _ _ _ _ _ _ W) as (q & seg0 & -> & Hq).
  exists q, seg0. split; [reflexivity|].
  rewrite (last_on_decomp _ _ _ Hp Hn). rewrite fold_left_app, (upd_on_offs _ _ Hp) in Hq. exact Hq.
Qed.

(* For a closed node list whose last on-curve point is not close to its first on-curve point, the result is
   the open result followed by exactly one more segment, which runs from that last point to the first. *)
Theorem closing_segment_unique_gen nl segs f l :
  first_on nl = Some f -> last_on nl = Some l -> pclose O l f = false ->
  fromNodelist O false nl = Some segs ->
  forall r, fromNodelist O true nl = Some r ->
  exists s, r = segs ++ [s] /\ seg_start s = l /\ seg_end s = f.
Proof.
  intros Hf Hl Hnc Hopen r Hclosed.
  destruct (first_on_decomp _ _ Hf) as (pre & ty & rest & -> & Hp & Hn).
  rewrite (fromNodelist_decomp O false _ _ _ Hp Hn) in Hopen.
  rewrite (fromNodelist_decomp O true _ _ _ Hp Hn) in Hclosed. cbn [fst] in *.
  destruct (walk ([], [f]) (rest ++ pre)) as [[acc seg]|] eqn:W; [|discriminate].
  destruct (walk_cycle_head pre (f, ty) rest acc seg Hp Hn W) as (q & seg0 & -> & Hq).
  pose proof (eq_trans (eq_sym Hq) Hl) as Eq. injection Eq as ->.
  cbn [obind finish] in Hopen, Hclosed. injection Hopen as ->.
  assert (E : match l :: seg0 with [p] => pclose O p f | _ => false end = false).
  { destruct seg0; [exact Hnc | reflexivity]. }
  rewrite E in Hclosed.
  destruct (mk_segment ((l :: seg0) ++ [f])) as [s|] eqn:M; [|discriminate].
  injection Hclosed as <-. exists s. split; [reflexivity|]. split.
  - exact (mk_segment_start _ _ _ M).
  - exact (mk_segment_end _ _ _ M).
Qed.

(* the pending list has length 1 + the number of off-curve nodes since the last on-curve node *)
Lemma walk_pending_length : forall nl0 acc0 p seg0 acc1 seg1,
  walk (acc0, p :: seg0) nl0 = Some (acc1, seg1) ->
  List.length seg1 = S (fold_left (fun k n => if is_off n then S k else 0%nat) nl0 (List.length seg0)).
Proof.
  induction nl0 as [|n0 r0 IH]; intros acc0 p seg0 acc1 seg1 H.
  - simpl in *. now inversion H.
  - cbn [walk] in H. unfold wstep in H. cbn [fold_left]. unfold is_off at 2.
    destruct (snd n0).
    + destruct (mk_segment ((p :: seg0) ++ [fst n0])); [|discriminate]. exact (IH _ _ _ _ _ H).
    + destruct (mk_segment ((p :: seg0) ++ [fst n0])); [|discriminate]. exact (IH _ _ _ _ _ H).
    + rewrite (IH _ _ _ _ _ H). now rewrite app_length, Nat.add_1_r.
Qed.

(* the complementary case: the closing rule adds nothing exactly when the walk ends on an on-curve node
   (no trailing or leading off-curve nodes) whose point is close to the first one *)
Theorem closing_adds_nothing_gen nl f l :
  first_on nl = Some f -> last_on nl = Some l -> pclose O l f = true ->
  trailing_offs nl = 0%nat -> leading_offs nl = 0%nat ->
  fromNodelist O true nl = fromNodelist O false nl.
Proof.
  intros Hf Hl Hc Ht Hlead.
  destruct (first_on_decomp _ _ Hf) as (pre & ty & rest & -> & Hp & Hn).
  assert (pre = []) as ->.
  { destruct pre as [|n0 pre']; [reflexivity|]. simpl in Hlead, Hp.
    apply andb_prop in Hp as [Hp0 _]. rewrite Hp0 in Hlead. discriminate. }
  rewrite !(fromNodelist_decomp O _ [] _ _ eq_refl Hn). cbn [fst]. rewrite app_nil_r.
  destruct (walk ([], [f]) rest) as [[acc seg]|] eqn:W; [|reflexivity].
  cbn [obind finish].
  enough (seg = [l]) as -> by now rewrite Hc.
  pose proof walk_pending_length as G.
  pose proof (G _ _ _ _ _ _ W) as Hlen.
  unfold trailing_offs in Ht. cbn [app fold_left] in Ht. rewrite Hn in Ht.
  cbn [List.length] in Hlen. rewrite Ht in Hlen.
  pose proof (walk_cycle_head [] (f, ty) rest acc seg eq_refl Hn) as Hh. rewrite app_nil_r in Hh.
  destruct (Hh W) as (q & seg0 & -> & Hq). cbn [app] in Hq.
  pose proof (eq_trans (eq_sym Hq) Hl) as Eq. injection Eq as ->.
  destruct seg0; [reflexivity | discriminate].
Qed.

Lemma cnt_offs pre k :
  forallb is_off pre = true ->
  fold_left (fun k n => if is_off n then S k else 0%nat) pre k = (k + List.length pre)%nat.
Proof.
  revert k; induction pre as [|n r IH]; intros k H; simpl in *; [lia|].
  apply andb_prop in H as [Hn Hr]. rewrite Hn, (IH _ Hr). lia.
Qed.
Lemma leading_decomp pre n rest :
  forallb is_off pre = true -> is_off n = false -> leading_offs (pre ++ n :: rest) = List.length pre.
Proof.
  intros Hp Hn. induction pre as [|x r IH]; simpl in *.
  - now rewrite Hn.
  - apply andb_prop in Hp as [Hx Hr]. now rewrite Hx, (IH Hr).
Qed.
Lemma trailing_decomp pre n rest :
  is_off n = false ->
  trailing_offs (pre ++ n :: rest) = fold_left (fun k n => if is_off n then S k else 0%nat) rest 0%nat.
Proof. intros Hn. unfold trailing_offs. rewrite fold_left_app. cbn [fold_left]. now rewrite Hn. Qed.

(* ... and that extra segment exists exactly when at most two off-curve nodes separate (cyclically) the last
   on-curve node from the first; with more, Python raises ValueError("Unknown segment type") *)
Theorem closing_segment_exists_gen nl segs f l :
  first_on nl = Some f -> last_on nl = Some l -> pclose O l f = false ->
  fromNodelist O false nl = Some segs ->
  (trailing_offs nl + leading_offs nl <= 2)%nat ->
  exists s, fromNodelist O true nl = Some (segs ++ [s]) /\ seg_start s = l /\ seg_end s = f.
Proof.
  intros Hf Hl Hnc Hopen Hk.
  enough (E : exists r, fromNodelist O true nl = Some r).
  { destruct E as [r Hr]. destruct (closing_segment_unique_gen nl segs f l Hf Hl Hnc Hopen r Hr) as (s & -> & Hs).
    exists s. auto. }
  destruct (first_on_decomp _ _ Hf) as (pre & ty & rest & -> & Hp & Hn).
  rewrite (fromNodelist_decomp O false _ _ _ Hp Hn) in Hopen.
  rewrite (fromNodelist_decomp O true _ _ _ Hp Hn). cbn [fst] in *.
  destruct (walk ([], [f]) (rest ++ pre)) as [[acc seg]|] eqn:W; [|discriminate].
  pose proof (walk_pending_length _ _ _ _ _ _ W) as Hlen.
  rewrite fold_left_app, (cnt_offs _ _ Hp) in Hlen. cbn [List.length] in Hlen.
  rewrite (leading_decomp _ _ _ Hp Hn), (trailing_decomp _ _ _ Hn) in Hk.
  cbn [obind finish].
  destruct (match seg with [p] => pclose O p f | _ => false end); [eauto|].
  destruct (mk_segment_some (seg ++ [f])) as [s Hs].
  { rewrite app_length. simpl. lia. }
  rewrite Hs. eauto.
Qed.
Theorem closing_segment_fails_gen nl :
  has_on nl = true -> (trailing_offs nl + leading_offs nl > 2)%nat -> fromNodelist O true nl = None.
Proof.
  intros Hon Hk. destruct (has_on_decomp nl Hon) as (pre & n & rest & -> & Hp & Hn).
  rewrite (fromNodelist_decomp O true _ _ _ Hp Hn).
  destruct (walk ([], [fst n]) (rest ++ pre)) as [[acc seg]|] eqn:W; [|reflexivity].
  pose proof (walk_pending_length _ _ _ _ _ _ W) as Hlen.
  rewrite fold_left_app, (cnt_offs _ _ Hp) in Hlen. cbn [List.length] in Hlen.
  rewrite (leading_decomp _ _ _ Hp Hn), (trailing_decomp _ _ _ Hn) in Hk.
  cbn [obind finish].
  destruct seg as [|a [|b [|c [|d seg']]]]; simpl in Hlen; try lia. destruct seg'; reflexivity.
Qed.
End Closing.

Theorem closing_segment_unique (nl : list (node R)) segs f l :
  first_on nl = Some f -> last_on nl = Some l -> pclose ROps l f = false ->
  fromNodelist ROps false nl = Some segs ->
  forall r, fromNodelist ROps true nl = Some r ->
  exists s, r = segs ++ [s] /\ seg_start s = l /\ seg_end s = f.
Proof. apply closing_segment_unique_gen. Qed.

Theorem closing_adds_nothing (nl : list (node R)) f l :
  first_on nl = Some f -> last_on nl = Some l -> pclose ROps l f = true ->
  trailing_offs nl = 0%nat -> leading_offs nl = 0%nat ->
  fromNodelist ROps true nl = fromNodelist ROps false nl.
Proof. apply closing_adds_nothing_gen. Qed.

(* ------------------------------------------------------------------------------------------------ *)
(* Theorem 5: the shape of asSVGPath                                                                 *)
(* ------------------------------------------------------------------------------------------------ *)
Section SVG.
Context {T : Type} (fmt6 : T -> string).
Local Open Scope string_scope.

(* "%f %f " % (pt.x, pt.y) *)
Definition svg_pt (p : pt T) : string := fmt6 (px p) ++ " " ++ fmt6 (py p) ++ " ".
(* one part per segment: its letter, a space, and every control point but the first *)
Definition svg_part (s : segment T) : string :=
  match s with
  | SLine (L2 _ b) => "L " ++ svg_pt b
  | SQuad (Q3 _ b c) => "Q " ++ svg_pt b ++ svg_pt c
  | SCubic (C4 _ b c d) => "C " ++ svg_pt b ++ svg_pt c ++ svg_pt d
  end.
Definition svg_move (s : segment T) : string :=
  "M " ++ fmt6 (px (seg_start s)) ++ " " ++ fmt6 (py (seg_start s)).

Lemma sapp_assoc (a b c : string) : (a ++ b) ++ c = a ++ (b ++ c).
Proof. induction a as [|ch a IH]; simpl; [reflexivity | now rewrite IH]. Qed.

Lemma svg_op_part s : svg_op fmt6 s = svg_part s.
Proof.
  destruct s as [[a b]|[a b c]|[a b c d]]; try reflexivity.
  unfold svg_op, svg_part. cbn [seg_points tl fold_left]. fold (svg_pt b) (svg_pt c) (svg_pt d).
  rewrite !sapp_assoc. reflexivity.
Qed.

Lemma fold_append_map {A B} (g : A -> B) (l : list A) (init : list B) :
  fold_left (fun parts s => (parts ++ [g s])%list) l init = (init ++ map g l)%list.
Proof.
  revert init; induction l as [|a r IH]; intros init; simpl.
  - now rewrite app_nil_r.
  - rewrite IH, <- app_assoc. reflexivity.
Qed.

Theorem svg_shape closed (segs : list (segment T)) :
  svg_path fmt6 closed segs =
  match segs with
  | [] => None
  | s0 :: _ => Some (String.concat " " (svg_move s0 :: map svg_part segs ++ (if closed then ["Z"] else []))%list)
  end.
Proof.
  destruct segs as [|s0 r]; [reflexivity|]. unfold svg_path.
  rewrite fold_append_map. rewrite (map_ext _ _ svg_op_part).
  f_equal. f_equal. destruct closed.
  - rewrite <- app_assoc. reflexivity.
  - now rewrite app_nil_r.
Qed.

(* the number of parts: "M", one per segment, and "Z" iff closed *)
Corollary svg_parts_count (closed : bool) (s0 : segment T) r :
  List.length (svg_move s0 :: map svg_part (s0 :: r) ++ (if closed then ["Z"] else []))%list
  = (1 + List.length (s0 :: r) + (if closed then 1 else 0))%nat.
Proof. cbn [List.length]. rewrite app_length, map_length. destruct closed; simpl; lia. Qed.
End SVG.

(* ------------------------------------------------------------------------------------------------ *)
(* Theorem 4: rotating a closed node list rotates the segment list                                   *)
(* ------------------------------------------------------------------------------------------------ *)
(* The closing rule drops the segment between the last and the first on-curve node when they are adjacent and
   close.  Which pair plays that role depends on where the list starts, so invariance under rotation needs:
   no two cyclically adjacent on-curve nodes are close ([cyc_no_close_adj]); in particular the list must not
   repeat its start at its end.  See [rotation_invariant_refuted] for what happens otherwise. *)
Definition pair_ok {T : Type} (O : Ops T) (a b : node T) : Prop :=
  ~ (is_off a = false /\ is_off b = false /\ pclose O (fst a) (fst b) = true).
Fixpoint no_close_adj {T : Type} (O : Ops T) (l : list (node T)) : Prop :=
  match l with
  | [] => True
  | a :: r => match r with [] => True | b :: _ => pair_ok O a b end /\ no_close_adj O r
  end.
Definition cyc_no_close_adj {T : Type} (O : Ops T) (nl : list (node T)) : Prop :=
  match nl with [] => True | n :: _ => no_close_adj O (nl ++ [n]) end.

(* number of on-curve nodes that k single rotations move from the front to the back *)
Fixpoint passed {T : Type} (k : nat) (nl : list (node T)) : nat :=
  match k with
  | O => O
  | S k' => (passed k' nl + match rotl k' nl with n :: _ => if is_off n then 0 else 1 | [] => 0 end)%nat
  end.

Section Rotation.
Context {T : Type} (O : Ops T).
Implicit Types (nl pre rest : list (node T)) (n g m : node T) (acc : list (segment T)) (seg : list (pt T)) (p q : pt T).

Lemma nca_tail2 nl n m : no_close_adj O (nl ++ [n; m]) -> pair_ok O n m.
Proof.
  induction nl as [|x r IH]; simpl.
  - tauto.
  - intros [_ H]. exact (IH H).
Qed.
Lemma nca_snoc nl n m : no_close_adj O (nl ++ [n]) -> pair_ok O n m -> no_close_adj O (nl ++ [n; m]).
Proof.
  intros H Hp. induction nl as [|x r IH].
  - simpl. tauto.
  - cbn [app no_close_adj] in *. destruct H as [Hx Hr]. split; [|exact (IH Hr)].
    destruct r; exact Hx.
Qed.

Lemma cyc_rotl1 nl : cyc_no_close_adj O nl -> cyc_no_close_adj O (rotl1 nl).
Proof.
  destruct nl as [|n [|b r]]; [trivial | trivial |].
  unfold cyc_no_close_adj, rotl1. cbn [app]. intros H.
  change (no_close_adj O (b :: (r ++ [n]) ++ [b])). rewrite <- app_assoc. cbn [app].
  destruct H as [Hnb H]. exact (nca_snoc (b :: r) n b H Hnb).
Qed.
Lemma has_on_rotl1 nl : has_on (rotl1 nl) = has_on nl.
Proof.
  destruct nl as [|n r]; [reflexivity|]. unfold has_on, rotl1. rewrite existsb_app. simpl.
  rewrite orb_false_r. apply orb_comm.
Qed.

Lemma no_on_all_off nl : has_on nl = false -> forallb is_off nl = true.
Proof.
  induction nl as [|n r IH]; simpl; [reflexivity|]. intros H. apply orb_false_elim in H as [Hn Hr].
  rewrite (IH Hr). destruct (is_off n); [reflexivity | discriminate].
Qed.

(* when the walk leaves exactly one pending point, it stopped on an on-curve node (or never moved) *)
Lemma walk_pending_single q nl acc p :
  walk ([], [q]) nl = Some (acc, [p]) ->
  (nl = [] /\ p = q) \/ (exists nl' m, nl = nl' ++ [m] /\ is_off m = false /\ fst m = p).
Proof.
  intros W. destruct nl as [|n0 r0].
  - left. simpl in W. inversion W. auto.
  - right. destruct (@exists_last _ (n0 :: r0)) as (nl' & m & Em); [discriminate|].
    rewrite Em in W. exists nl', m. split; [exact Em|].
    rewrite walk_app in W. destruct (walk ([], [q]) nl') as [[acc1 seg1]|] eqn:W1; [|discriminate].
    cbn [obind walk] in W. unfold wstep in W.
    destruct (walk_head _ _ _ _ _ _ W1) as (q1 & seg0 & -> & _).
    unfold is_off. destruct (snd m).
    + destruct (mk_segment ((q1 :: seg0) ++ [fst m])); [|discriminate]. inversion W; auto.
    + destruct (mk_segment ((q1 :: seg0) ++ [fst m])); [|discriminate]. inversion W; auto.
    + inversion W as [[Ha Hs]]. destruct seg0; discriminate.
Qed.

(* one rotation step: an off-curve node moved to the back changes nothing; an on-curve node moved to the back
   rotates the segment list by one *)
Lemma rotation_step nl segs :
  has_on nl = true -> cyc_no_close_adj O nl ->
  fromNodelist O true nl = Some segs ->
  fromNodelist O true (rotl1 nl) =
  Some (match nl with n :: _ => if is_off n then segs else rotl1 segs | [] => segs end).
Proof.
  intros Hon Hcyc HF. destruct nl as [|n r]; [discriminate|].
  destruct (is_off n) eqn:En.
  - (* the list starts on an off-curve node: same cyclic walk *)
    unfold has_on in Hon. cbn [existsb] in Hon. rewrite En in Hon. cbn [negb orb] in Hon.
    destruct (has_on_decomp r Hon) as (pre & f & rest & -> & Hp & Hf).
    assert (Hp' : forallb is_off (n :: pre) = true) by (simpl; now rewrite En, Hp).
    pose proof (fromNodelist_decomp O true (n :: pre) f rest Hp' Hf) as E1.
    cbn [app] in E1. rewrite E1 in HF.
    unfold rotl1. rewrite <- app_assoc. cbn [app].
    rewrite (fromNodelist_decomp O true pre f (rest ++ [n]) Hp Hf).
    rewrite <- app_assoc. cbn [app]. exact HF.
  - (* the list starts on an on-curve node *)
    pose proof (fromNodelist_decomp O true [] n r eq_refl En) as E1. cbn [app] in E1.
    rewrite E1, app_nil_r in HF. clear E1.
    destruct (has_on r) eqn:Hr.
    + (* there is a second on-curve node g *)
      destruct (has_on_decomp r Hr) as (pre & g & rest & -> & Hp & Hg).
      (* the original walk *)
      rewrite walk_app, (walk_offs _ _ _ Hp) in HF. cbn [obind walk] in HF.
      rewrite (wstep_on _ _ _ Hg) in HF.
      destruct (mk_segment (([fst n] ++ map fst pre) ++ [fst g])) as [S0|] eqn:M0; [|discriminate].
      cbn [option_map] in HF.
      assert (HF' : obind (finish O true (fst n)) (walk ([] ++ [S0], [fst g]) rest) = Some segs) by exact HF.
      clear HF. rewrite walk_acc in HF'.
      destruct (walk ([], [fst g]) rest) as [[acc2 seg2]|] eqn:W2; [|discriminate].
      cbn [option_map obind fst snd finish] in HF'.
      (* the closing check of the original fails, by the hypothesis on adjacent nodes *)
      assert (C1 : match seg2 with [p] => pclose O p (fst n) | _ => false end = false).
      { destruct seg2 as [|p [|? ?]]; try reflexivity.
        destruct (pclose O p (fst n)) eqn:Ec; [exfalso | reflexivity].
        unfold cyc_no_close_adj in Hcyc.
        destruct (walk_pending_single _ _ _ _ W2) as [[-> ->]|(nl' & m & -> & Hm & <-)].
        - assert (Hc2 : no_close_adj O ((n :: pre) ++ [g; n])).
          { cbn [app] in *. rewrite <- app_assoc in Hcyc. exact Hcyc. }
          apply nca_tail2 in Hc2. apply Hc2. auto.
        - assert (Hc2 : no_close_adj O ((n :: pre ++ g :: nl') ++ [m; n])).
          { cbn [app] in *. repeat (rewrite <- app_assoc in Hcyc; cbn [app] in Hcyc).
            rewrite <- app_assoc. cbn [app]. exact Hcyc. }
          apply nca_tail2 in Hc2. apply Hc2. auto. }
      rewrite C1 in HF'.
      destruct (mk_segment (seg2 ++ [fst n])) as [Sc|] eqn:Mc; [|discriminate].
      injection HF' as <-.
      (* the rotated walk *)
      unfold rotl1. rewrite <- app_assoc. cbn [app].
      rewrite (fromNodelist_decomp O true pre g (rest ++ [n]) Hp Hg).
      rewrite !walk_app, W2. cbn [obind walk]. rewrite (wstep_on _ _ _ En), Mc. cbn [option_map obind].
      rewrite (walk_offs _ _ _ Hp). cbn [obind finish].
      assert (C2 : match [fst n] ++ map fst pre with [p] => pclose O p (fst g) | _ => false end = false).
      { destruct pre as [|x pre']; [|destruct pre'; reflexivity].
        cbn [map app]. destruct (pclose O (fst n) (fst g)) eqn:Ec; [exfalso | reflexivity].
        unfold cyc_no_close_adj in Hcyc. cbn [app no_close_adj] in Hcyc.
        destruct Hcyc as [Hng _]. apply Hng. auto. }
      rewrite C2, M0. cbn [app rotl1]. reflexivity.
    + (* n is the only on-curve node: the walk is literally the same, and there is at most one segment *)
      pose proof (no_on_all_off r Hr) as Hoff.
      unfold rotl1.
      rewrite (fromNodelist_decomp O true r n [] Hoff En). cbn [app]. rewrite HF. f_equal.
      rewrite (walk_offs _ _ _ Hoff) in HF. cbn [obind finish] in HF.
      destruct (match [fst n] ++ map fst r with [p] => pclose O p (fst n) | _ => false end).
      * injection HF as <-. reflexivity.
      * destruct (mk_segment (([fst n] ++ map fst r) ++ [fst n])); [|discriminate].
        injection HF as <-. reflexivity.
Qed.

Lemma rotl_S {A} k (l : list A) : rotl (S k) l = rotl1 (rotl k l).
Proof. reflexivity. Qed.
Lemma cyc_rotl k nl : cyc_no_close_adj O nl -> cyc_no_close_adj O (rotl k nl).
Proof. intros H; induction k; [exact H | rewrite rotl_S; now apply cyc_rotl1]. Qed.
Lemma has_on_rotl k nl : has_on (rotl k nl) = has_on nl.
Proof. induction k; [reflexivity | rewrite rotl_S, has_on_rotl1; assumption]. Qed.

(* k rotations of the node list rotate the segment list by the number of on-curve nodes passed *)
Theorem rotation_invariant_gen nl segs :
  has_on nl = true -> cyc_no_close_adj O nl ->
  fromNodelist O true nl = Some segs ->
  forall k, fromNodelist O true (rotl k nl) = Some (rotl (passed k nl) segs).
Proof.
  intros Hon Hcyc HF k. induction k as [|k IH]; [exact HF|].
  rewrite rotl_S.
  assert (Hon' : has_on (rotl k nl) = true) by now rewrite has_on_rotl.
  rewrite (rotation_step _ _ Hon' (cyc_rotl k nl Hcyc) IH).
  f_equal. cbn [passed]. destruct (rotl k nl) as [|n r].
  - now rewrite Nat.add_0_r.
  - destruct (is_off n).
    + now rewrite Nat.add_0_r.
    + rewrite Nat.add_1_r. reflexivity.
Qed.
End Rotation.

Theorem rotation_invariant (nl : list (node R)) segs :
  has_on nl = true -> cyc_no_close_adj ROps nl ->
  fromNodelist ROps true nl = Some segs ->
  forall k, exists j, fromNodelist ROps true (rotl k nl) = Some (rotl j segs).
Proof. intros Hon Hcyc HF k. exists (passed k nl). now apply rotation_invariant_gen. Qed.

(* --- what goes wrong without the hypothesis: a node list that repeats its start --- *)
Lemma isclose_0_1 : isclose ROps 0 1 = false.
Proof.
  rcbv. destruct (Req_EM_T 0 1) as [H|_]; [lra|].
  repeat match goal with
  | |- context [Rle_dec ?a ?b] =>
      destruct (Rle_dec a b) as [H|_]; [exfalso; revert H; unfold Rabs; repeat destruct Rcase_abs; lra|]
  end.
  reflexivity.
Qed.

Lemma rotl_length {A} k (l : list A) : List.length (rotl k l) = List.length l.
Proof.
  induction k as [|k IH]; [reflexivity|]. rewrite rotl_S. destruct (rotl k l) as [|x r] eqn:E.
  - exact IH.
  - rewrite <- IH. unfold rotl1. rewrite app_length. simpl. lia.
Qed.

(* the triangle (0,0) (1,0) (0,1) written with its start repeated at the end, as toNodelist writes a closed
   chain: read from node 0 the repeated point is recognised and nothing is added (3 segments); read from node 1
   the two copies are in the middle, give a zero-length line, and a closing line is added too (4 segments) *)
Theorem rotation_invariant_refuted :
  exists (nl : list (node R)) segs k,
    has_on nl = true /\ fromNodelist ROps true nl = Some segs /\
    forall j, fromNodelist ROps true (rotl k nl) <> Some (rotl j segs).
Proof.
  exists [(P 0 0, NLine); (P 1 0, NLine); (P 0 1, NLine); (P 0 0, NLine)].
  exists [SLine (L2 (P 0 0) (P 1 0)); SLine (L2 (P 1 0) (P 0 1)); SLine (L2 (P 0 1) (P 0 0))].
  exists 1%nat. split; [reflexivity|]. split.
  - cbv -[pclose ROps IZR]. now rewrite pclose_refl.
  - intros j H.
    assert (E : fromNodelist ROps true (rotl 1 [(P 0 0, NLine); (P 1 0, NLine); (P 0 1, NLine); (P 0 0, NLine)])
                = Some [SLine (L2 (P 1 0) (P 0 1)); SLine (L2 (P 0 1) (P 0 0)); SLine (L2 (P 0 0) (P 0 0));
                        SLine (L2 (P 0 0) (P 1 0))]).
    { cbv -[pclose ROps IZR]. unfold pclose. cbn [px py]. rewrite isclose_0_1. reflexivity. }
    pose proof (eq_trans (eq_sym E) H) as H2. clear H E. injection H2 as H. apply (f_equal (@List.length _)) in H.
    rewrite rotl_length in H. discriminate.
Qed.

(* ------------------------------------------------------------------------------------------------ *)
(* Theorem 6: the textual forms parse back                                                           *)
(* ------------------------------------------------------------------------------------------------ *)
Fixpoint str_all (p : ascii -> bool) (s : string) : bool :=
  match s with EmptyString => true | String c r => p c && str_all p r end.
(* the characters a printed coordinate must avoid: the two terminators of the point regex, and newline
   (which `.` does not match) *)
Definition fmt_char_ok (c : ascii) : bool :=
  negb (Ascii.eqb c ",") && negb (Ascii.eqb c ">") && negb (Ascii.eqb c newline).

Section TextRoundTrip.
Variable T : Type.
Variables (fmt : T -> string) (parse : string -> option T).
Hypothesis parse_fmt : forall x, parse (fmt x) = Some x.
Hypothesis fmt_nonempty : forall x, fmt x <> EmptyString.
Hypothesis fmt_chars : forall x, str_all fmt_char_ok (fmt x) = true.
Local Open Scope string_scope.

Lemma str_all_impl (p q : ascii -> bool) s :
  (forall c, p c = true -> q c = true) -> str_all p s = true -> str_all q s = true.
Proof.
  intros Hpq. induction s as [|c r IH]; simpl; [auto|]. intros H.
  apply andb_prop in H as [Hc Hr]. now rewrite (Hpq _ Hc), (IH Hr).
Qed.
Lemma str_all_app p a b : str_all p (a ++ b) = str_all p a && str_all p b.
Proof. induction a as [|c r IH]; simpl; [reflexivity|]. now rewrite IH, andb_assoc. Qed.

Lemma split_at_ok c a b :
  str_all (fun d => negb (Ascii.eqb d c)) a = true -> split_at c (a ++ String c b) = Some (a, b).
Proof.
  induction a as [|d r IH]; simpl.
  - now rewrite Ascii.eqb_refl.
  - intros H. apply andb_prop in H as [Hd Hr]. apply negb_true_iff in Hd. now rewrite Hd, (IH Hr).
Qed.

Lemma fmt_no_comma x : str_all (fun d => negb (Ascii.eqb d ",")) (fmt x) = true.
Proof.
  apply (str_all_impl fmt_char_ok); [|apply fmt_chars]. unfold fmt_char_ok. intros c H.
  apply andb_prop in H as [H _]. now apply andb_prop in H as [H _].
Qed.
Lemma fmt_no_gt x : str_all (fun d => negb (Ascii.eqb d ">")) (fmt x) = true.
Proof.
  apply (str_all_impl fmt_char_ok); [|apply fmt_chars]. unfold fmt_char_ok. intros c H.
  apply andb_prop in H as [H _]. now apply andb_prop in H as [_ H].
Qed.
Lemma str_empty_fmt x : str_empty (fmt x) = false.
Proof. pose proof (fmt_nonempty x). destruct (fmt x); [congruence | reflexivity]. Qed.

Theorem parse_point_repr (p : pt T) : parse_point parse (repr_point fmt p) = Some p.
Proof.
  destruct p as [x y]. unfold repr_point, parse_point. cbn [px py].
  change ("<" ++ fmt x ++ "," ++ fmt y ++ ">") with (String "<" (fmt x ++ String "," (fmt y ++ String ">" ""))).
  cbn [strip]. rewrite Ascii.eqb_refl.
  rewrite (split_at_ok _ _ _ (fmt_no_comma x)), str_empty_fmt.
  rewrite (split_at_ok _ _ _ (fmt_no_gt y)), str_empty_fmt.
  cbn [at_end]. now rewrite !parse_fmt.
Qed.

(* the text between the brackets of a printed point *)
Definition body (p : pt T) : string := fmt (px p) ++ String "," (fmt (py p)).
Definition gt_ok (c : ascii) : bool := negb (Ascii.eqb c ">") && negb (Ascii.eqb c newline).
Lemma body_ok p : str_all gt_ok (body p) = true.
Proof.
  assert (H : forall x, str_all gt_ok (fmt x) = true).
  { intros x. apply (str_all_impl fmt_char_ok); [|apply fmt_chars]. unfold fmt_char_ok, gt_ok. intros c H.
    apply andb_prop in H as [H H3]. apply andb_prop in H as [_ H2]. now rewrite H2, H3. }
  unfold body. rewrite str_all_app. simpl. now rewrite !H.
Qed.
Lemma repr_point_app p rest : repr_point fmt p ++ rest = String "<" (body p ++ String ">" rest).
Proof. unfold repr_point, body. simpl. rewrite !sapp_assoc. simpl. rewrite !sapp_assoc. reflexivity. Qed.
Lemma repr_point_body p : repr_point fmt p = String "<" (body p ++ String ">" "").
Proof. unfold repr_point, body. simpl. rewrite !sapp_assoc. reflexivity. Qed.

Lemma lazy_gt_ok {A} (k : string -> option A) x rest a :
  str_all gt_ok x = true -> k rest = Some a -> lazy_gt k (x ++ String ">" rest) = Some (x, a).
Proof.
  intros Hx Hk. induction x as [|c r IH]; simpl.
  - now rewrite Hk.
  - simpl in Hx. apply andb_prop in Hx as [Hc Hr]. unfold gt_ok in Hc. apply andb_prop in Hc as [H1 H2].
    apply negb_true_iff in H1, H2. now rewrite H1, H2, (IH Hr).
Qed.

(* a lazy group followed by the rest of the pattern captures exactly one printed point *)
Lemma group_ok {A} (k : string -> option A) p rest a :
  k rest = Some a -> group k (repr_point fmt p ++ rest) = Some (repr_point fmt p, a).
Proof.
  intros Hk. rewrite repr_point_app. unfold group. cbn [strip]. rewrite Ascii.eqb_refl.
  rewrite (lazy_gt_ok k _ _ _ (body_ok p) Hk). now rewrite (repr_point_body p).
Qed.

Theorem parse_line_repr (s : seg2 T) : parse_line parse (repr_line fmt s) = Some s.
Proof.
  destruct s as [a b]. unfold parse_line, repr_line. cbn [l0 l1].
  change ("L<" ++ repr_point fmt a ++ "--" ++ repr_point fmt b ++ ">")
    with (String "L" (String "<" (repr_point fmt a ++ String "-" (String "-" (repr_point fmt b ++ String ">" ""))))).
  unfold after at 1. cbn [strip]. rewrite !Ascii.eqb_refl.
  rewrite (group_ok _ a _ (repr_point fmt b, tt)).
  - now rewrite !parse_point_repr.
  - unfold after. cbn [strip]. rewrite !Ascii.eqb_refl. now rewrite (group_ok _ b _ tt).
Qed.

Theorem parse_quad_repr (s : seg3 T) : parse_quad parse (repr_quad fmt s) = Some s.
Proof.
  destruct s as [a b c]. unfold parse_quad, repr_quad. cbn [q0 q1 q2].
  change ("B<" ++ repr_point fmt a ++ "-" ++ repr_point fmt b ++ "-" ++ repr_point fmt c ++ ">")
    with (String "B" (String "<" (repr_point fmt a ++ String "-" (repr_point fmt b ++ String "-"
            (repr_point fmt c ++ String ">" ""))))).
  unfold after at 1. cbn [strip]. rewrite !Ascii.eqb_refl.
  rewrite (group_ok _ a _ (repr_point fmt b, (repr_point fmt c, tt))).
  - now rewrite !parse_point_repr.
  - unfold after at 1. cbn [strip]. rewrite !Ascii.eqb_refl.
    rewrite (group_ok _ b _ (repr_point fmt c, tt)); [reflexivity|].
    unfold after. cbn [strip]. rewrite !Ascii.eqb_refl. now rewrite (group_ok _ c _ tt).
Qed.

Theorem parse_cubic_repr (s : seg4 T) : parse_cubic parse (repr_cubic fmt s) = Some s.
Proof.
  destruct s as [a b c d]. unfold parse_cubic, repr_cubic. cbn [c0 c1 c2 c3].
  change ("B<" ++ repr_point fmt a ++ "-" ++ repr_point fmt b ++ "-" ++ repr_point fmt c ++ "-" ++ repr_point fmt d ++ ">")
    with (String "B" (String "<" (repr_point fmt a ++ String "-" (repr_point fmt b ++ String "-"
            (repr_point fmt c ++ String "-" (repr_point fmt d ++ String ">" "")))))).
  unfold after at 1. cbn [strip]. rewrite !Ascii.eqb_refl.
  rewrite (group_ok _ a _ (repr_point fmt b, (repr_point fmt c, (repr_point fmt d, tt)))).
  - now rewrite !parse_point_repr.
  - unfold after at 1. cbn [strip]. rewrite !Ascii.eqb_refl.
    rewrite (group_ok _ b _ (repr_point fmt c, (repr_point fmt d, tt))); [reflexivity|].
    unfold after at 1. cbn [strip]. rewrite !Ascii.eqb_refl.
    rewrite (group_ok _ c _ (repr_point fmt d, tt)); [reflexivity|].
    unfold after. cbn [strip]. rewrite !Ascii.eqb_refl. now rewrite (group_ok _ d _ tt).
Qed.
End TextRoundTrip.

(* ------------------------------------------------------------------------------------------------ *)
(* Further consequences over the reals                                                               *)
(* ------------------------------------------------------------------------------------------------ *)
Theorem closing_segment_exists (nl : list (node R)) segs f l :
  first_on nl = Some f -> last_on nl = Some l -> pclose ROps l f = false ->
  fromNodelist ROps false nl = Some segs ->
  (trailing_offs nl + leading_offs nl <= 2)%nat ->
  exists s, fromNodelist ROps true nl = Some (segs ++ [s]) /\ seg_start s = l /\ seg_end s = f.
Proof. apply closing_segment_exists_gen. Qed.

(* A closed path whose chain does NOT come back to its start is not preserved by the round trip: exactly one
   straight closing segment is appended (the path is closed explicitly). *)
Theorem nodes_roundtrip_closed_unclosed (segs : list (segment R)) e f :
  wf_chain segs -> last_end segs = Some e -> first_start segs = Some f -> pclose ROps e f = false ->
  obind (fromNodelist ROps true) (toNodelist segs) = Some (segs ++ [SLine (L2 e f)]).
Proof.
  intros Hwf He Hf Hnc. destruct segs as [|s r]; [discriminate|].
  change (roundtrip ROps true (s :: r) = Some ((s :: r) ++ [SLine (L2 e f)])).
  rewrite (roundtrip_walk ROps true s r Hwf).
  unfold last_end in He. destruct (hd_error (rev (s :: r))) as [x|] eqn:E; [|discriminate].
  rewrite (last_rev seg_end _ x _ E). simpl in He, Hf. injection He as ->. injection Hf as ->.
  unfold finish. now rewrite Hnc.
Qed.

(* ------------------------------------------------------------------------------------------------ *)
(* Examples (non-vacuity)                                                                            *)
(* ------------------------------------------------------------------------------------------------ *)
Definition ex_segs : list (segment R) :=
  [SLine (L2 (P 0 0) (P 1 0));
   SQuad (Q3 (P 1 0) (P 2 1) (P 1 2));
   SCubic (C4 (P 1 2) (P 0 3) (P (-1) 1) (P 0 0))].

Example ex_toNodelist :
  toNodelist ex_segs =
  Some [(P 0 0, NLine); (P 1 0, NLine); (P 2 1, NOff); (P 1 2, NCurve);
        (P 0 3, NOff); (P (-1) 1, NOff); (P 0 0, NCurve)].
Proof. reflexivity. Qed.
Example ex_wf : wf_chain ex_segs.
Proof. repeat split. Qed.
Example ex_roundtrip_open : obind (fromNodelist ROps false) (toNodelist ex_segs) = Some ex_segs.
Proof. apply nodes_roundtrip_open; [exact ex_wf | discriminate]. Qed.
Example ex_roundtrip_closed : obind (fromNodelist ROps true) (toNodelist ex_segs) = Some ex_segs.
Proof. apply nodes_roundtrip_closed; [exact ex_wf | discriminate | reflexivity]. Qed.
Example ex_roundtrip_5 : Nat.iter 5 (obind (roundtrip ROps true)) (Some ex_segs) = Some ex_segs.
Proof. apply roundtrip_iterated; [exact ex_wf | discriminate | reflexivity]. Qed.

(* a closed node list that starts on an off-curve node: the closing cubic wraps around the end of the list *)
Definition ex_nl : list (node R) := [(P 3 3, NOff); (P 0 0, NCurve); (P 1 0, NLine); (P 2 2, NOff)].
Definition ex_nl_segs : list (segment R) :=
  [SLine (L2 (P 0 0) (P 1 0)); SCubic (C4 (P 1 0) (P 2 2) (P 3 3) (P 0 0))].
Example ex_nl_value : fromNodelist ROps true ex_nl = Some ex_nl_segs.
Proof. cbv -[pclose ROps IZR]. reflexivity. Qed.
Example ex_nl_cyc : cyc_no_close_adj ROps ex_nl.
Proof.
  unfold cyc_no_close_adj, ex_nl. cbn [app no_close_adj].
  repeat split; unfold pair_ok; intros (H1 & H2 & H3); try discriminate.
  unfold pclose in H3. cbn [fst px py] in H3. rewrite isclose_0_1 in H3. discriminate.
Qed.
(* rotating past the leading off-curve node changes nothing; rotating past the on-curve node (0,0) as well
   rotates the segments *)
Example ex_rotation_offcurve : fromNodelist ROps true (rotl 1 ex_nl) = Some ex_nl_segs.
Proof. exact (rotation_invariant_gen ROps ex_nl ex_nl_segs eq_refl ex_nl_cyc ex_nl_value 1). Qed.
Example ex_rotation_oncurve :
  fromNodelist ROps true (rotl 2 ex_nl)
  = Some [SCubic (C4 (P 1 0) (P 2 2) (P 3 3) (P 0 0)); SLine (L2 (P 0 0) (P 1 0))].
Proof. exact (rotation_invariant_gen ROps ex_nl ex_nl_segs eq_refl ex_nl_cyc ex_nl_value 2). Qed.
(* rotl 3 starts on the off-curve node (2,2), in the middle of the cubic *)
Example ex_rotation_mid_cubic :
  rotl 3 ex_nl = [(P 2 2, NOff); (P 3 3, NOff); (P 0 0, NCurve); (P 1 0, NLine)] /\
  fromNodelist ROps true (rotl 3 ex_nl) = Some ex_nl_segs.
Proof.
  split; [reflexivity|].
  exact (rotation_invariant_gen ROps ex_nl ex_nl_segs eq_refl ex_nl_cyc ex_nl_value 3).
Qed.

(* the closing rule on a node list that does not return to its start *)
Example ex_closing :
  fromNodelist ROps false [(P 0 0, NLine); (P 0 1, NLine); (P 1 0, NOff)] = Some [SLine (L2 (P 0 0) (P 0 1))] /\
  fromNodelist ROps true [(P 0 0, NLine); (P 0 1, NLine); (P 1 0, NOff)]
    = Some [SLine (L2 (P 0 0) (P 0 1)); SQuad (Q3 (P 0 1) (P 1 0) (P 0 0))].
Proof. split; cbv -[pclose ROps IZR]; reflexivity. Qed.

(* SVG text of the example, with a formatter that only knows a few numbers *)
Example ex_svg :
  let f := fun _ : R => "7"%string in
  svg_path f true ex_segs = Some "M 7 7 L 7 7  Q 7 7 7 7  C 7 7 7 7 7 7  Z"%string.
Proof. reflexivity. Qed.

(* the hypotheses of the textual round trip are satisfiable (here on a two-element scalar type) *)
Definition ex_fmt (b : bool) : string := if b then "1.0"%string else "-2.5e-05"%string.
Definition ex_parse (s : string) : option bool :=
  if String.eqb s "1.0" then Some true else if String.eqb s "-2.5e-05" then Some false else None.
Example ex_text :
  repr_cubic ex_fmt (C4 (P true false) (P false false) (P true true) (P false true))
    = "B<<1.0,-2.5e-05>-<-2.5e-05,-2.5e-05>-<1.0,1.0>-<-2.5e-05,1.0>>"%string /\
  forall s, parse_cubic ex_parse (repr_cubic ex_fmt s) = Some s.
Proof.
  split; [reflexivity|]. apply parse_cubic_repr.
  - intros []; reflexivity.
  - intros []; discriminate.
  - intros []; reflexivity.
Qed.

Print Assumptions nodes_roundtrip_open.
Print Assumptions nodes_roundtrip_closed.
Print Assumptions roundtrip_iterated.
Print Assumptions path_roundtrip.
Print Assumptions closing_segment_unique.
Print Assumptions closing_segment_exists.
Print Assumptions closing_adds_nothing.
Print Assumptions nodes_roundtrip_closed_unclosed.
Print Assumptions rotation_invariant.
Print Assumptions rotation_invariant_refuted.
Print Assumptions svg_shape.
Print Assumptions parse_point_repr.
Print Assumptions parse_line_repr.
Print Assumptions parse_quad_repr.
Print Assumptions parse_cubic_repr.
