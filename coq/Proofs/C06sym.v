(* C06, clause "the reported set of points does not depend on operand order": what is exactly symmetric in the model
   Hand/CurveCurve.v of IntersectionsMixin._curve_curve_intersections_t, and what the per-level duplicate filter breaks.

   1. BEFORE de-duplication ([cc_raw]) the recursion is exactly symmetric, on EVERY scalar carrier (reals and binary64
      alike): [cc_raw O fuel b a] succeeds iff [cc_raw O fuel a b] does, and its report list is a permutation of the
      swapped reports (the visiting order (c11,c21),(c11,c22),(c12,c21),(c12,c22) becomes (c21,c11),(c21,c12),(c22,c11),
      (c22,c12) in terms of the same pieces, so the lists are permutations and not equal) -- [cc_raw_sym_gen].  Reason:
      BoundingBox.overlaps is a conjunction of the same four comparisons in either order ([overlaps_sym_gen]; over R this is
      C19.overlaps_sym), the stop test and the four range asserts are conjunctions, the split of one operand does not
      look at the other.  Over R the error KIND is the same as well ([cc_raw_sym_R], [cc_err_kind]).
   2. WITH the filter (any key, any reflexive transitive key equality): success and the error kind are still
      operand-order independent; every filtered report of (a,b) is, swapped, a RAW report of (b,a); every raw report of
      (b,a) has a filtered survivor of (b,a) whose FIRST component has the same key; hence for a filtered report (t1,t2)
      of (a,b) there is a filtered report (u,v) of (b,a) with key u ~ key t2 -- nothing can be said about v versus t1
      ([cc_dedup_sym]).  The exact converse is FALSE: [dedup_order_dependence_witness] / [dedup_count_symmetry_refuted]
      (binary64, the exact "%.2f" key): a long shallow arc and a small parabola crossing it twice; both crossings have key
      "0.50" on the long arc, so the order (arc, parabola) reports ONE intersection and the order (parabola, arc) reports
      TWO.  Replayed on the real library: QuadraticBezier((0,0),(500,10),(1000,0)) and ((497,8),(500,-2),(503,8)).
   3. Segment.intersections: for segments of DIFFERENT degree the two operand orders run the very same computation (the
      receiver is re-ordered by degree), so the results are EQUAL, filter included ([intersections_mixed_degree_eq]); for
      two curves of the SAME degree the raw results are permutations of each other under
      (t1, c1(t1), t2) |-> (t2, c2(t2), t1)  -- the reported POINT is re-evaluated on the other curve
      ([intersections_raw_sym_gen], [intersections_raw_sym_R]).
   4. Non-vacuity on binary64 ([raw_sym_example]). *)
From Coq Require Import PrimFloat.
From Coq Require Import ZArith List Bool Reals Lra Lia Permutation Floats.
From BZ Require Import Base.Ops Proofs.Tactics Gen.Point Gen.BBox Gen.Line Gen.Quad Gen.Cubic Hand.Bounds Hand.CurveCurve
  Proofs.C01 Proofs.C02 Proofs.C06.
Import ListNotations.

Definition swap_pair {A B : Type} (p : A * B) : B * A := (snd p, fst p).

Lemma swap_pair_invol {A B} (p : A * B) : swap_pair (swap_pair p) = p.
Proof. destruct p; reflexivity. Qed.

Lemma Permutation_filter_compat {A} (f : A -> bool) (l l' : list A) :
  Permutation l l' -> Permutation (filter f l) (filter f l').
Proof.
  induction 1 as [| x l l' HP IH | x y l | l l' l'' HP1 IH1 HP2 IH2]; cbn [filter].
  - constructor.
  - destruct (f x); [constructor |]; exact IH.
  - destruct (f x), (f y); try apply Permutation_refl. apply perm_swap.
  - eapply Permutation_trans; eauto.
Qed.

(* ====================================================================================================================
   1. the raw recursion, any scalar carrier
   ==================================================================================================================== *)
Section Generic.
Context {T : Type} (O : Ops T).

(* BoundingBox.overlaps tests the same four comparisons whichever box is the receiver *)
Lemma overlaps_sym_gen (b1 b2 : bbox T) : BBox_overlaps O b1 b2 = BBox_overlaps O b2 b1.
Proof.
  unfold BBox_overlaps.
  destruct (ltb O (BBox_right O b1) (BBox_left O b2)), (ltb O (BBox_right O b2) (BBox_left O b1)),
           (ltb O (BBox_top O b1) (BBox_bottom O b2)), (ltb O (BBox_top O b2) (BBox_bottom O b1)); reflexivity.
Qed.

Notation rk := (fun _ : T => tt).
Notation re := (fun _ _ : unit => false).

Definition gchild (f : nat) (a b : piece T) : result (list (T * T)) :=
  match curve_bounds O (pc a), curve_bounds O (pc b) with
  | Some ba, Some bb => if BBox_overlaps O ba bb then cc_raw O f a b else Ok []
  | _, _ => Err NoBounds
  end.

Lemma cc_raw_S f this that :
  cc_raw O (S f) this that =
  match curve_bounds O (pc this), curve_bounds O (pc that) with
  | Some b1, Some b2 =>
      if negb (BBox_overlaps O b1 b2) then Ok []
      else if ltb O (BBox_area O b1) (precision O) && ltb O (BBox_area O b2) (precision O)
      then Ok [(mid O (plo this) (phi this), mid O (plo that) (phi that))]
      else if range_ok O (fst (psplit O this)) && range_ok O (snd (psplit O this)) &&
              range_ok O (fst (psplit O that)) && range_ok O (snd (psplit O that)) then
        bind (gchild f (fst (psplit O this)) (fst (psplit O that))) (fun l1 =>
        bind (gchild f (fst (psplit O this)) (snd (psplit O that))) (fun l2 =>
        bind (gchild f (snd (psplit O this)) (fst (psplit O that))) (fun l3 =>
        bind (gchild f (snd (psplit O this)) (snd (psplit O that))) (fun l4 =>
        Ok (dedup rk re [] (l1 ++ l2 ++ l3 ++ l4))))))
      else Err RangeAssert
  | _, _ => Err NoBounds
  end.
Proof. reflexivity. Qed.

(* both succeed with swapped-permuted reports, or both fail *)
Definition sym_rel (r1 r2 : result (list (T * T))) : Prop :=
  match r1, r2 with
  | Ok l, Ok l' => Permutation (map swap_pair l) l'
  | Err _, Err _ => True
  | _, _ => False
  end.

Lemma perm_swap_middle {A} (l1 l2 l3 l4 m1 m2 m3 m4 : list A) :
  Permutation l1 m1 -> Permutation l2 m2 -> Permutation l3 m3 -> Permutation l4 m4 ->
  Permutation (l1 ++ l2 ++ l3 ++ l4) (m1 ++ m3 ++ m2 ++ m4).
Proof.
  intros P1 P2 P3 P4. apply Permutation_app; [exact P1 |].
  rewrite !app_assoc. apply Permutation_app; [| exact P4].
  eapply Permutation_trans; [apply Permutation_app_comm |]. apply Permutation_app; assumption.
Qed.

(* the parent of (a,b) visits r1 r2 r3 r4, the parent of (b,a) visits the mirror images in the order 1 3 2 4 *)
Lemma sym_rel_bind4 r1 r2 r3 r4 s1 s2 s3 s4 :
  sym_rel r1 s1 -> sym_rel r2 s2 -> sym_rel r3 s3 -> sym_rel r4 s4 ->
  sym_rel (bind r1 (fun l1 => bind r2 (fun l2 => bind r3 (fun l3 => bind r4 (fun l4 =>
             Ok (dedup rk re [] (l1 ++ l2 ++ l3 ++ l4)))))))
          (bind s1 (fun l1 => bind s3 (fun l2 => bind s2 (fun l3 => bind s4 (fun l4 =>
             Ok (dedup rk re [] (l1 ++ l2 ++ l3 ++ l4))))))).
Proof.
  unfold sym_rel.
  destruct r1 as [l1 | ?], s1 as [m1 | ?], r2 as [l2 | ?], s2 as [m2 | ?], r3 as [l3 | ?], s3 as [m3 | ?],
           r4 as [l4 | ?], s4 as [m4 | ?]; cbn [bind]; try tauto.
  intros P1 P2 P3 P4. rewrite !dedup_raw, !map_app. apply perm_swap_middle; assumption.
Qed.

Theorem cc_raw_sym_gen fuel (a b : piece T) : sym_rel (cc_raw O fuel a b) (cc_raw O fuel b a).
Proof.
  revert a b. induction fuel as [| f IH]; intros a b; [exact I |].
  rewrite !cc_raw_S.
  destruct (curve_bounds O (pc a)) as [b1 |], (curve_bounds O (pc b)) as [b2 |]; try exact I.
  rewrite (overlaps_sym_gen b2 b1).
  destruct (negb (BBox_overlaps O b1 b2)); [apply perm_nil |].
  rewrite (andb_comm (ltb O (BBox_area O b2) (precision O))).
  destruct (ltb O (BBox_area O b1) (precision O) && ltb O (BBox_area O b2) (precision O)); [apply Permutation_refl |].
  destruct (range_ok O (fst (psplit O a))), (range_ok O (snd (psplit O a))),
           (range_ok O (fst (psplit O b))), (range_ok O (snd (psplit O b))); cbn [andb]; try exact I.
  assert (CH : forall x y, sym_rel (gchild f x y) (gchild f y x)).
  { intros x y. unfold gchild.
    destruct (curve_bounds O (pc x)) as [bx |], (curve_bounds O (pc y)) as [by_ |]; try exact I.
    rewrite (overlaps_sym_gen by_ bx). destruct (BBox_overlaps O bx by_); [apply IH | apply perm_nil]. }
  apply sym_rel_bind4; apply CH.
Qed.

Corollary cc_raw_sym_ok fuel a b l :
  cc_raw O fuel a b = Ok l -> exists l', cc_raw O fuel b a = Ok l' /\ Permutation (map swap_pair l) l'.
Proof.
  intros H. pose proof (cc_raw_sym_gen fuel a b) as S. rewrite H in S.
  destruct (cc_raw O fuel b a) as [l' | e]; [eauto | contradiction].
Qed.
Corollary cc_raw_sym_err fuel a b e : cc_raw O fuel a b = Err e -> exists e', cc_raw O fuel b a = Err e'.
Proof.
  intros H. pose proof (cc_raw_sym_gen fuel a b) as S. rewrite H in S.
  destruct (cc_raw O fuel b a) as [l' | e']; [contradiction | eauto].
Qed.
(* membership form: (t1,t2) is a raw report of (a,b) iff (t2,t1) is a raw report of (b,a) *)
Corollary cc_raw_sym_in fuel a b l l' t1 t2 :
  cc_raw O fuel a b = Ok l -> cc_raw O fuel b a = Ok l' -> (In (t1, t2) l <-> In (t2, t1) l').
Proof.
  intros H H'. pose proof (cc_raw_sym_gen fuel a b) as S. rewrite H, H' in S. cbn in S. split; intros Hin.
  - apply (Permutation_in _ S). change (t2, t1) with (swap_pair (t1, t2)). apply in_map. exact Hin.
  - apply Permutation_sym in S. apply (Permutation_in _ S) in Hin. apply in_map_iff in Hin.
    destruct Hin as ([u v] & E & Hin). injection E as <- <-. exact Hin.
Qed.

(* ---------- 3. Segment.intersections ---------- *)
Definition seg_of (c : curve T) : segment T := match c with CQuad q => SQuad q | CCubic c => SCubic c end.
(* the Intersection object seen from the other operand: parameters exchanged, the point re-evaluated on the other curve *)
Definition flip_ix (c2 : curve T) (i : T * pt T * T) : T * pt T * T := (snd i, curve_point O c2 (snd i), fst (fst i)).

(* different degree: both operand orders run the SAME computation (receiver re-ordered by degree); any key, filter included *)
Theorem intersections_mixed_degree_eq {K} (key2 : T -> K) (keq : K -> K -> bool) fuel (self other : segment T) limited :
  order self <> order other ->
  intersections O key2 keq fuel self other limited = intersections O key2 keq fuel other self limited.
Proof.
  destruct self, other; cbn [order]; intros H; try (exfalso; apply H; reflexivity); reflexivity.
Qed.

Lemma flip_filter_map c1 c2 (lt : list (T * T)) :
  map (flip_ix c2) (filter (fun i : T * pt T * T => within_range O (fst (fst i)) && within_range O (snd i))
                           (map (fun t => (fst t, curve_point O c1 (fst t), snd t)) lt)) =
  filter (fun i : T * pt T * T => within_range O (fst (fst i)) && within_range O (snd i))
         (map (fun t => (fst t, curve_point O c2 (fst t), snd t)) (map swap_pair lt)).
Proof.
  induction lt as [| [u v] r IH]; [reflexivity |]. cbn [map filter fst snd swap_pair].
  rewrite (andb_comm (within_range O v)). destruct (within_range O u && within_range O v); cbn [map]; rewrite IH; reflexivity.
Qed.
Lemma flip_map c1 c2 (lt : list (T * T)) :
  map (flip_ix c2) (map (fun t => (fst t, curve_point O c1 (fst t), snd t)) lt) =
  map (fun t => (fst t, curve_point O c2 (fst t), snd t)) (map swap_pair lt).
Proof. induction lt as [| [u v] r IH]; [reflexivity |]. cbn [map fst snd swap_pair]. rewrite IH. reflexivity. Qed.

Definition sym_rel_ix (c2 : curve T) (r1 r2 : result (list (T * pt T * T))) : Prop :=
  match r1, r2 with
  | Ok l, Ok l' => Permutation (map (flip_ix c2) l) l'
  | Err _, Err _ => True
  | _, _ => False
  end.

(* same degree (quadratic/quadratic or cubic/cubic): no re-ordering happens; without the duplicate filter the two
   operand orders report the same Intersections up to order, each seen from the other side *)
Theorem intersections_raw_sym_gen fuel (c1 c2 : curve T) limited :
  order (seg_of c1) = order (seg_of c2) ->
  sym_rel_ix c2 (intersections O rk re fuel (seg_of c1) (seg_of c2) limited)
                (intersections O rk re fuel (seg_of c2) (seg_of c1) limited).
Proof.
  intros Hord.
  assert (E : forall x y : curve T, order (seg_of x) = order (seg_of y) ->
            intersections O rk re fuel (seg_of x) (seg_of y) limited =
            bind (cc_raw O fuel (whole O x) (whole O y)) (fun lt =>
              let l := map (fun t => (fst t, curve_point O x (fst t), snd t)) lt in
              Ok (if limited then filter (fun i : T * pt T * T => within_range O (fst (fst i)) && within_range O (snd i)) l else l))).
  { intros [q | k] [q' | k']; cbn [seg_of order]; intros H; try discriminate H;
      unfold intersections, swapped, curve_curve_intersections, cc_raw; cbn [order Nat.ltb Nat.leb];
      destruct (cc_t O _ _ fuel _ _); reflexivity. }
  rewrite (E c1 c2 Hord), (E c2 c1 (eq_sym Hord)).
  pose proof (cc_raw_sym_gen fuel (whole O c1) (whole O c2)) as S. unfold sym_rel in S. unfold sym_rel_ix.
  destruct (cc_raw O fuel (whole O c1) (whole O c2)) as [lt | ?], (cc_raw O fuel (whole O c2) (whole O c1)) as [lt' | ?];
    cbn [bind]; try tauto.
  destruct limited.
  - rewrite flip_filter_map. apply Permutation_filter_compat. apply Permutation_map. exact S.
  - rewrite flip_map. apply Permutation_map. exact S.
Qed.
End Generic.

(* ====================================================================================================================
   1'. over the reals the error kind is operand-order independent too
   ==================================================================================================================== *)
Open Scope R_scope.

Lemma range_ok_halves (p : piece R) :
  range_ok ROps (left_half p) = ltb ROps (plo p) (phi p) /\ range_ok ROps (right_half p) = ltb ROps (plo p) (phi p).
Proof.
  unfold range_ok. destruct (left_half_range p) as [-> ->]. destruct (right_half_range p) as [-> ->].
  cbn [ltb ROps]. split;
  match goal with |- (if Rlt_dec ?a ?b then _ else _) = (if Rlt_dec ?c ?d then _ else _) =>
    destruct (Rlt_dec a b), (Rlt_dec c d); try reflexivity; exfalso; lra end.
Qed.

(* which exception: RecursionError when the fuel is gone or the ranges are proper, AssertionError otherwise *)
Definition err_of (fuel : nat) (a b : piece R) : cc_error :=
  if (fuel =? 0)%nat || (ltb ROps (plo a) (phi a) && ltb ROps (plo b) (phi b)) then OutOfFuel else RangeAssert.

Lemma err_of_sym fuel a b : err_of fuel a b = err_of fuel b a.
Proof. unfold err_of. rewrite (andb_comm (ltb ROps (plo a) (phi a))). reflexivity. Qed.

Lemma cc_err_kind {K} (key2 : R -> K) (keq : K -> K -> bool) fuel a b e :
  cc_t ROps key2 keq fuel a b = Err e -> e = err_of fuel a b.
Proof.
  destruct fuel as [| f]; intros H; [cbn in H; injection H as <-; reflexivity |].
  unfold err_of. cbn [Nat.eqb orb].
  destruct (ltb ROps (plo a) (phi a)) eqn:La; [destruct (ltb ROps (plo b) (phi b)) eqn:Lb |]; cbn [andb].
  - apply Rltb_true in La. apply Rltb_true in Lb. exact (cc_error_is_fuel key2 keq (S f) a b e La Lb H).
  - rewrite cc_S in H.
    destruct (cbounds (pc a)) as [b1 |] eqn:B1; [| destruct (curve_bounds_some (pc a)) as (? & ? & _); congruence].
    destruct (cbounds (pc b)) as [b2 |] eqn:B2; [| destruct (curve_bounds_some (pc b)) as (? & ? & _); congruence].
    destruct (negb (BBox_overlaps ROps b1 b2)); [discriminate |].
    destruct (ltb ROps (BBox_area ROps b1) (precision ROps) && ltb ROps (BBox_area ROps b2) (precision ROps)); [discriminate |].
    destruct (range_ok_halves a) as [Ea1 Ea2]. destruct (range_ok_halves b) as [Eb1 Eb2]. rewrite Ea1, Ea2, Eb1, Eb2, La, Lb in H. cbn [andb] in H.
    injection H as <-. reflexivity.
  - rewrite cc_S in H.
    destruct (cbounds (pc a)) as [b1 |] eqn:B1; [| destruct (curve_bounds_some (pc a)) as (? & ? & _); congruence].
    destruct (cbounds (pc b)) as [b2 |] eqn:B2; [| destruct (curve_bounds_some (pc b)) as (? & ? & _); congruence].
    destruct (negb (BBox_overlaps ROps b1 b2)); [discriminate |].
    destruct (ltb ROps (BBox_area ROps b1) (precision ROps) && ltb ROps (BBox_area ROps b2) (precision ROps)); [discriminate |].
    destruct (range_ok_halves a) as [Ea1 Ea2]. destruct (range_ok_halves b) as [Eb1 Eb2]. rewrite Ea1, Ea2, Eb1, Eb2, La in H. cbn [andb] in H.
    injection H as <-. reflexivity.
Qed.

(* raw symmetry over R, with the SAME exception *)
Definition sym_rel_R (r1 r2 : result (list (R * R))) : Prop :=
  match r1, r2 with
  | Ok l, Ok l' => Permutation (map swap_pair l) l'
  | Err e, Err e' => e = e'
  | _, _ => False
  end.

Theorem cc_raw_sym_R fuel (a b : piece R) : sym_rel_R (cc_raw ROps fuel a b) (cc_raw ROps fuel b a).
Proof.
  pose proof (cc_raw_sym_gen ROps fuel a b) as S. unfold sym_rel in S. unfold sym_rel_R.
  destruct (cc_raw ROps fuel a b) as [l | e] eqn:H1, (cc_raw ROps fuel b a) as [l' | e'] eqn:H2; try exact S.
  unfold cc_raw in H1, H2. apply cc_err_kind in H1. apply cc_err_kind in H2. rewrite H1, H2. apply err_of_sym.
Qed.

Theorem cc_raw_sym_R_ok fuel (a b : piece R) (l : list (R * R)) :
  cc_raw ROps fuel a b = Ok l -> exists l', cc_raw ROps fuel b a = Ok l' /\ Permutation (map swap_pair l) l'.
Proof. apply cc_raw_sym_ok. Qed.

Theorem cc_raw_sym_R_err fuel (a b : piece R) (e : cc_error) :
  cc_raw ROps fuel a b = Err e -> cc_raw ROps fuel b a = Err e.
Proof.
  intros H. pose proof (cc_raw_sym_R fuel a b) as S. rewrite H in S. unfold sym_rel_R in S.
  destruct (cc_raw ROps fuel b a); [contradiction | congruence].
Qed.

(* ====================================================================================================================
   2. with the duplicate filter
   ==================================================================================================================== *)
Section Dedup.
Context {K : Type} (key2 : R -> K) (keq : K -> K -> bool).
Hypothesis keq_refl : forall a, keq a a = true.
Hypothesis keq_trans : forall a b c, keq a b = true -> keq b c = true -> keq a c = true.
Notation cc := (cc_t ROps key2 keq).

(* the filtered run and the raw run succeed together (and fail with the same exception) *)
Lemma cc_ok_raw_ok fuel a b l :
  cc fuel a b = Ok l ->
  exists lr, cc_raw ROps fuel a b = Ok lr /\ (forall x, In x l -> In x lr) /\
             (forall x, In x lr -> exists y, In y l /\ keq (key2 (fst x)) (key2 (fst y)) = true).
Proof.
  intros H. pose proof (cc_rel key2 keq keq_refl keq_trans fuel a b) as Rl. rewrite H in Rl. unfold rel in Rl.
  destruct (cc_raw ROps fuel a b) as [lr | e]; [| contradiction]. exists lr. destruct Rl as [A B]. auto.
Qed.

(* failure does not depend on operand order, nor does the exception *)
Theorem cc_err_sym fuel a b e : cc fuel a b = Err e -> cc fuel b a = Err e.
Proof.
  intros H.
  pose proof (cc_rel key2 keq keq_refl keq_trans fuel a b) as R1. rewrite H in R1. unfold rel in R1.
  destruct (cc_raw ROps fuel a b) as [? | e1] eqn:H1; [contradiction |]. subst e1.
  apply cc_raw_sym_R_err in H1.
  pose proof (cc_rel key2 keq keq_refl keq_trans fuel b a) as R2. rewrite H1 in R2. unfold rel in R2.
  destruct (cc fuel b a); [contradiction | congruence].
Qed.

(* what survives of the symmetry *)
Theorem cc_dedup_sym fuel a b l :
  cc fuel a b = Ok l ->
  exists lr lr' l',
    cc_raw ROps fuel a b = Ok lr /\ cc_raw ROps fuel b a = Ok lr' /\ cc fuel b a = Ok l' /\
    Permutation (map swap_pair lr) lr' /\
    (* filtered reports are raw reports, in both orders *)
    (forall x, In x l -> In x lr) /\ (forall x, In x l' -> In x lr') /\
    (* a filtered report of (a,b), swapped, is a RAW report of (b,a) -- and vice versa *)
    (forall x, In x l -> In (swap_pair x) lr') /\ (forall x, In x l' -> In (swap_pair x) lr) /\
    (* every raw report keeps a filtered representative with the same key on the FIRST component *)
    (forall x, In x lr -> exists y, In y l /\ keq (key2 (fst x)) (key2 (fst y)) = true) /\
    (forall x, In x lr' -> exists y, In y l' /\ keq (key2 (fst x)) (key2 (fst y)) = true) /\
    (* hence: a filtered report (t1,t2) of (a,b) is matched by a filtered report (u,v) of (b,a) with key u ~ key t2;
       (v,u) is a raw report of (a,b) but v is otherwise unrelated to t1 *)
    (forall t1 t2, In (t1, t2) l -> exists u v, In (u, v) l' /\ keq (key2 t2) (key2 u) = true /\ In (v, u) lr).
Proof.
  intros H.
  destruct (cc_ok_raw_ok fuel a b l H) as (lr & Hr & I1 & C1).
  destruct (cc_raw_sym_R_ok fuel a b lr Hr) as (lr' & Hr' & PM).
  destruct (raw_report_survives_by_key key2 keq keq_refl keq_trans fuel b a lr' Hr') as (l' & H' & I2 & C2).
  assert (SW1 : forall x, In x lr -> In (swap_pair x) lr').
  { intros x Hx. apply (Permutation_in _ PM). apply in_map. exact Hx. }
  assert (SW2 : forall x, In x lr' -> In (swap_pair x) lr).
  { intros x Hx. apply Permutation_sym in PM. apply (Permutation_in _ PM) in Hx. apply in_map_iff in Hx.
    destruct Hx as (y & <- & Hy). rewrite swap_pair_invol. exact Hy. }
  exists lr, lr', l'. repeat (split; [first [assumption | auto] |]).
  intros t1 t2 Hin. destruct (C2 (t2, t1)) as ([u v] & Hy & Ey); [apply (SW1 (t1, t2)); auto |].
  exists u, v. split; [exact Hy | split; [exact Ey |]]. apply (SW2 (u, v)). auto.
Qed.
End Dedup.

(* ---------- 3'. Segment.intersections over R, in the "Ok -> exists" form ---------- *)
Theorem intersections_raw_sym_R fuel (c1 c2 : curve R) limited (l : list (R * pt R * R)) :
  order (seg_of c1) = order (seg_of c2) ->
  intersections ROps (fun _ : R => tt) (fun _ _ : unit => false) fuel (seg_of c1) (seg_of c2) limited = Ok l ->
  exists l', intersections ROps (fun _ : R => tt) (fun _ _ : unit => false) fuel (seg_of c2) (seg_of c1) limited = Ok l' /\
             Permutation (map (flip_ix ROps c2) l) l' /\
             Permutation (map swap_pair (map (fun i : R * pt R * R => (fst (fst i), snd i)) l))
                         (map (fun i : R * pt R * R => (fst (fst i), snd i)) l').
Proof.
  intros Hord H. pose proof (intersections_raw_sym_gen ROps fuel c1 c2 limited Hord) as S. rewrite H in S. unfold sym_rel_ix in S.
  destruct (intersections ROps _ _ fuel (seg_of c2) (seg_of c1) limited) as [l' | e]; [| contradiction].
  exists l'. split; [reflexivity | split; [exact S |]].
  apply (Permutation_map (fun i : R * pt R * R => (fst (fst i), snd i))) in S.
  rewrite !map_map in *. cbn [flip_ix swap_pair fst snd] in *. exact S.
Qed.

Close Scope R_scope.

(* ====================================================================================================================
   2'. the filter breaks the symmetry: a binary64 witness (exact "%.2f" key), checked by evaluation
   ==================================================================================================================== *)
(* wa: the shallow arc (0,0) (500,10) (1000,0); wb: the small parabola (497,8) (500,-2) (503,8).  They cross twice, near
   (498.1, 5) and (501.9, 5): parameters 0.498 / 0.502 on wa (both "0.50"), 0.18 / 0.82 on wb. *)
Definition wa : seg3 float :=
  Q3 (P 0x0p+0%float 0x0p+0%float) (P 0x1.f4p+8%float 0x1.4p+3%float) (P 0x1.f4p+9%float 0x0p+0%float).
Definition wb : seg3 float :=
  Q3 (P 0x1.f1p+8%float 0x1p+3%float) (P 0x1.f4p+8%float (-0x1p+1)%float) (P 0x1.f7p+8%float 0x1p+3%float).

Theorem dedup_order_dependence_witness :
  (* raw: two reports in either order, swapped images of each other *)
  cc_raw FOps 60 (whole FOps (CQuad wa)) (whole FOps (CQuad wb)) =
    Ok [(0x1.ffp-2, 0x1.7ap-3); (0x1.008p-1, 0x1.a18p-1)]%float /\
  cc_raw FOps 60 (whole FOps (CQuad wb)) (whole FOps (CQuad wa)) =
    Ok [(0x1.7ap-3, 0x1.ffp-2); (0x1.a18p-1, 0x1.008p-1)]%float /\
  (* filtered: the order (wa, wb) loses the second crossing, the order (wb, wa) keeps both *)
  cc_t FOps key2F keyF_eqb 60 (whole FOps (CQuad wa)) (whole FOps (CQuad wb)) =
    Ok [(0x1.ffp-2, 0x1.7ap-3)]%float /\
  cc_t FOps key2F keyF_eqb 60 (whole FOps (CQuad wb)) (whole FOps (CQuad wa)) =
    Ok [(0x1.7ap-3, 0x1.ffp-2); (0x1.a18p-1, 0x1.008p-1)]%float /\
  keyF_eqb (key2F 0x1.ffp-2%float) (key2F 0x1.008p-1%float) = true /\
  (* the user-level function: one Intersection against two *)
  (exists i1, intersections FOps key2F keyF_eqb 60 (SQuad wa) (SQuad wb) true = Ok [i1]) /\
  (exists j1 j2, intersections FOps key2F keyF_eqb 60 (SQuad wb) (SQuad wa) true = Ok [j1; j2]).
Proof.
  repeat split; try (vm_compute; reflexivity).
  - eexists. vm_compute. reflexivity.
  - do 2 eexists. vm_compute. reflexivity.
Qed.

(* the number of reported intersections is NOT operand-order independent *)
Theorem dedup_count_symmetry_refuted :
  ~ (forall (fuel : nat) (a b : piece float) (l l' : list (float * float)),
       cc_t FOps key2F keyF_eqb fuel a b = Ok l -> cc_t FOps key2F keyF_eqb fuel b a = Ok l' -> length l = length l').
Proof.
  intros H. destruct dedup_order_dependence_witness as (_ & _ & H1 & H2 & _).
  specialize (H _ _ _ _ _ H1 H2). cbn in H. discriminate H.
Qed.

(* nor is the swapped image of a filtered report of (b,a) a filtered report of (a,b) *)
Theorem dedup_swap_membership_refuted :
  ~ (forall (fuel : nat) (a b : piece float) (l l' : list (float * float)) (x : float * float),
       cc_t FOps key2F keyF_eqb fuel a b = Ok l -> cc_t FOps key2F keyF_eqb fuel b a = Ok l' ->
       In x l -> exists y, In y l' /\ PrimFloat.eqb (fst y) (snd x) = true /\ PrimFloat.eqb (snd y) (fst x) = true).
Proof.
  intros H. destruct dedup_order_dependence_witness as (_ & _ & H1 & H2 & _).
  destruct (H _ _ _ _ _ (0x1.a18p-1, 0x1.008p-1)%float H2 H1) as (y & Hy & E1 & E2); [right; left; reflexivity |].
  destruct Hy as [<- | []]. vm_compute in E1. discriminate E1.
Qed.

(* ====================================================================================================================
   4. non-vacuity: both operand orders of the raw run succeed with non-empty, mirrored report lists
   ==================================================================================================================== *)
(* (0,0) (50,100) (100,0)  against  (0,40) (50,-20) (100,40): two transversal crossings *)
Definition na : seg3 float :=
  Q3 (P 0x0p+0%float 0x0p+0%float) (P 0x1.9p+5%float 0x1.9p+6%float) (P 0x1.9p+6%float 0x0p+0%float).
Definition nb : seg3 float :=
  Q3 (P 0x0p+0%float 0x1.4p+5%float) (P 0x1.9p+5%float (-0x1.4p+4)%float) (P 0x1.9p+6%float 0x1.4p+5%float).

Example raw_sym_example :
  exists l l', cc_raw FOps 60 (whole FOps (CQuad na)) (whole FOps (CQuad nb)) = Ok l /\
               cc_raw FOps 60 (whole FOps (CQuad nb)) (whole FOps (CQuad na)) = Ok l' /\
               l <> [] /\ l' <> [] /\ Permutation (map swap_pair l) l'.
Proof.
  pose proof (cc_raw_sym_gen FOps 60 (whole FOps (CQuad na)) (whole FOps (CQuad nb))) as S.
  destruct (cc_raw FOps 60 (whole FOps (CQuad na)) (whole FOps (CQuad nb))) as [l | e] eqn:H1; [| vm_compute in H1; discriminate H1].
  destruct (cc_raw FOps 60 (whole FOps (CQuad nb)) (whole FOps (CQuad na))) as [l' | e] eqn:H2; [| vm_compute in H2; discriminate H2].
  exists l, l'. repeat split; auto.
  - vm_compute in H1. injection H1 as <-. discriminate.
  - vm_compute in H2. injection H2 as <-. discriminate.
Qed.
