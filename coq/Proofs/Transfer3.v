(* Theorems about the definitions REGENERATED in translator round 3 (Gen/Sweep.v, Gen/Nodelist.v, Gen/Split.v) and about the four regenerated
   curve-curve drivers (Gen/CurveCurve.v), obtained by transporting theorems of the hand models through the bridge lemmas of Proofs/Bridge3.v and
   Proofs/Bridge4.v.  The subject of every theorem is a function whose text is regenerated from the source; a hand model occurs in a
   statement only where it is the specification vocabulary (pieces [Piece c lo hi] and [Desc] of C06, [extremes_splitlist] = the
   findExtremes() of every segment in the fuel bound of C03, the node view [node_of] of C08).  One module per property (the hand models
   reuse the names Ok / Err / res / bind / group / seg_start ...).

   C19T  linesweep_bbox_intersections on collections tagged by position ([index_shapes]: shape i = (i, box i)) never raises (every carrier).
         Python's result is the list of pairs (o, o2) = (shape being added, shape already active in the OTHER collection); it does not say
         which collection o came from, and the bridge projects a pair to (tag o, tag o2) = [gen_ids].  So the statements read r through
         [oriented fl r]: each pair of r in the order (A-index, B-index) for a suitable list of flags fl (one per report).  Over R, and on
         finite binary64 boxes: no hypothesis -- every report is an overlapping pair and none occurs twice; under the tie condition
         (or the exact condition no_bad_tie) the oriented reports are a permutation of ALL overlapping pairs; and the flag-free reading
         [gen_sweep_unordered]: as many reports as overlapping pairs, every report overlaps in one of the two orders, every overlapping
         pair is reported in one of the two orders.
   C06T  the four regenerated _curve_curve_intersections_t drivers returning [Some (Returns l)], over R, for EVERY key function and key
         equality: every reported (t1,t2) is the pair of range midpoints of two visited pieces of the same depth whose boxes overlap and have
         area < 1/1000; the distance bound between the two parameter points; with the never-equal key (no de-duplication) no crossing is
         missed by more than half a final range, under the enclosure hypothesis; for a reflexive, transitive key equality every raw report
         has a survivor with an equal key; and the same origin statement for the four regenerated `intersections` of two curved segments
         (with the exchange of a quadratic receiver and a cubic argument, and the limited window).
   C03T  Path_addExtremes over R with fuel > number of requests: returns, segment by segment a run of pieces retracing the segment over an
         increasing chain of windows; keeps every node; a connected chain stays connected; with no repeated segment value every piece is
         monotone in x and y up to 0.06% of the extent of its segment (no genuineness hypothesis); the D14 counterexample; and
         Path_splitAtPoints for requests below 1.  (Bridge3 is one-directional -- hand Ok => generated Some -- and that is enough because
         the hand addExtremes always returns Ok over R.)
   C08T  SegRep_toNodelist / SegRep_fromNodelist: the round trip (open: every carrier; closed: over R; closed chain that does not come back:
         one closing line appended), rotation of a closed node list, the closing rule.  Through [node_of] / [opt_of_outcome] of the bridge.

   NOT transported: C03 piece_monotone / piece_monotone_exact / split_walk_* (about the hand [split_walk] on one segment: no regenerated
   counterpart as a separate function -- the generated inner loop threads the accumulator; Bridge3.split_loop_hand is a lemma about it,
   not an equation); C03 splitAtPoints theorems for ARBITRARY request lists (a request >= 1 makes the hand model return ZeroDiv while
   the generated `/` is total, so `generated = Some out` says nothing about the hand model; restricted here to requests < 1);
   C08 path_roundtrip / asSegments / asNodelist / SVG / text forms (no regenerated counterpart in Gen/Nodelist.v); C19 the
   converse "permutation => no_bad_tie" (an existential over orientations does not determine the hand model's flags). *)
From Coq Require Import ZArith List Bool Reals Lra Lia Permutation.
Import ListNotations.
From BZ Require Import Base.Ops Gen.Point Gen.BBox Gen.Sample.
From BZ Require Gen.Line Gen.Quad Gen.Cubic Gen.Split Gen.CurveCurve Gen.Sweep Gen.Nodelist.
From BZ Require Hand.Bounds Hand.Sweep Hand.CurveCurve Hand.Split Hand.Nodelist.
From BZ Require Proofs.C02 Proofs.C19 Proofs.C19float Proofs.C06 Proofs.C03 Proofs.C03band Proofs.C08 Proofs.Bridge3 Proofs.Bridge4.

(* ================================================================ C19 *)
Module C19T.
Import BZ.Gen.Sweep BZ.Hand.Sweep BZ.Proofs.C19 BZ.Proofs.C19float BZ.Proofs.Bridge3.
Open Scope R_scope.

Definition gen_ids {T : Type} (p : shape T * shape T) : nat * nat := (fst (fst p), fst (snd p)).
Definition orient (f : bool) (p : nat * nat) : nat * nat := if f then p else (snd p, fst p).
Definition oriented {T : Type} (fl : list bool) (r : list (shape T * shape T)) : list (nat * nat) :=
  map (fun x => orient (fst x) (gen_ids (snd x))) (combine fl r).

Lemma oriented_of_hand {T : Type} (h : list (bool * nat * nat)) : forall (r : list (shape T * shape T)),
  map gen_ids r = map (fun q : bool * nat * nat => (snd (fst q), snd q)) h ->
  length (map (fun q : bool * nat * nat => fst (fst q)) h) = length r /\
  oriented (map (fun q : bool * nat * nat => fst (fst q)) h) r = map as_ab h.
Proof.
  induction h as [|[[f i] j] h IH]; intros [|p r] H; try discriminate H.
  - split; reflexivity.
  - cbn [map] in H. injection H as H1 H2 H3. destruct (IH r H3) as [L E]. split.
    + cbn [map length]. rewrite L. reflexivity.
    + unfold oriented in *. cbn [map combine fst snd]. rewrite E. f_equal.
      unfold gen_ids. rewrite H1, H2. destruct f; reflexivity.
Qed.

Theorem gen_sweep_never_raises {T : Type} (O : Ops T) (A B : list (bbox T)) :
  exists r, linesweep_bbox_intersections O (index_shapes A) (index_shapes B) = Returns r.
Proof. destruct (bbox_intersections_gen_hand O A B) as [r [E _]]. exists r. exact E. Qed.

Lemma gen_sweep_oriented {T : Type} (O : Ops T) (A B : list (bbox T)) r :
  linesweep_bbox_intersections O (index_shapes A) (index_shapes B) = Returns r ->
  exists fl, length fl = length r /\ oriented fl r = map as_ab (bbox_intersections O A B).
Proof.
  intro Hg. destruct (bbox_intersections_gen_hand O A B) as [r' [E H]]. rewrite Hg in E. injection E as <-.
  eexists. apply (oriented_of_hand _ r H).
Qed.

(* what "each overlapping (A,B) pair exactly once" means for a list of unordered reports (i, j) -> ... *)
Definition sound_pair (A B : list (bbox R)) (i j : nat) : Prop :=
  (i < length A)%nat /\ (j < length B)%nat /\ BBox_overlaps ROps (nth i A dbox) (nth j B dbox) = true.

(* no hypothesis: every report is an overlapping pair, and no pair is reported twice *)
Theorem gen_sweep_sound_nodup (A B : list (bbox R)) r :
  linesweep_bbox_intersections ROps (index_shapes A) (index_shapes B) = Returns r ->
  exists fl, length fl = length r /\ NoDup (oriented fl r) /\ forall i j, In (i, j) (oriented fl r) -> sound_pair A B i j.
Proof.
  intro Hg. destruct (gen_sweep_oriented ROps A B r Hg) as [fl [L E]]. exists fl. rewrite E.
  split; [exact L|]. split; [apply sweep_nodup|]. intros i j. apply sweep_sound.
Qed.

(* under the exact condition of C19 (implied by the quantifier's tie condition) *)
Theorem gen_sweep_eq_all_pairs_weak (A B : list (bbox R)) r : no_bad_tie A B ->
  linesweep_bbox_intersections ROps (index_shapes A) (index_shapes B) = Returns r ->
  exists fl, length fl = length r /\ Permutation (oriented fl r) (all_overlapping_pairs A B).
Proof.
  intros Hnb Hg. destruct (gen_sweep_oriented ROps A B r Hg) as [fl [L E]]. exists fl. rewrite E.
  split; [exact L|]. apply sweep_eq_all_pairs_weak, Hnb.
Qed.

(* the property as stated: under the tie condition the reports, each read in the right order, are a permutation of ALL
   overlapping (A-index, B-index) pairs; hence no duplicates, sound and complete *)
Theorem gen_sweep_eq_all_pairs (A B : list (bbox R)) r : wf_boxes A -> wf_boxes B -> tie_free A B ->
  linesweep_bbox_intersections ROps (index_shapes A) (index_shapes B) = Returns r ->
  exists fl, length fl = length r /\
    Permutation (oriented fl r) (all_overlapping_pairs A B) /\
    NoDup (oriented fl r) /\
    (forall i j, In (i, j) (oriented fl r) <-> sound_pair A B i j).
Proof.
  intros HA HB Htf Hg. destruct (gen_sweep_oriented ROps A B r Hg) as [fl [L E]]. exists fl. rewrite E.
  split; [exact L|]. split; [apply sweep_eq_all_pairs; assumption|].
  split; [apply sweep_no_duplicates; assumption|]. apply sweep_sound_complete; assumption.
Qed.

(* the same without the orientation flags, about the index pairs of r as they are *)
Lemma in_oriented {T : Type} (fl : list bool) (r : list (shape T * shape T)) i j :
  In (i, j) (oriented fl r) -> In (i, j) (map gen_ids r) \/ In (j, i) (map gen_ids r).
Proof.
  unfold oriented. intro H. apply in_map_iff in H. destruct H as [[f p] [E H]]. apply in_combine_r in H.
  cbn [fst snd] in E. destruct f; cbn [orient] in E.
  - left. rewrite <- E. apply in_map, H.
  - right. apply in_map_iff. exists p. split; [|exact H]. destruct (gen_ids p) as [a b]. cbn [fst snd] in E. injection E as <- <-. reflexivity.
Qed.
Lemma oriented_in {T : Type} (fl : list bool) (r : list (shape T * shape T)) i j : length fl = length r ->
  In (i, j) (map gen_ids r) -> In (i, j) (oriented fl r) \/ In (j, i) (oriented fl r).
Proof.
  revert fl. induction r as [|p r IH]; intros [|f fl] L H; try discriminate L; [destruct H|].
  cbn [map] in H. unfold oriented. cbn [combine map fst snd]. fold (oriented fl r). destruct H as [H|H].
  - rewrite H. destruct f; [left|right]; left; reflexivity.
  - injection L as L. destruct (IH fl L H) as [K|K]; [left|right]; right; exact K.
Qed.

Theorem gen_sweep_unordered (A B : list (bbox R)) r : wf_boxes A -> wf_boxes B -> tie_free A B ->
  linesweep_bbox_intersections ROps (index_shapes A) (index_shapes B) = Returns r ->
  length r = length (all_overlapping_pairs A B) /\
  (forall i j, In (i, j) (map gen_ids r) -> sound_pair A B i j \/ sound_pair A B j i) /\
  (forall i j, sound_pair A B i j -> In (i, j) (map gen_ids r) \/ In (j, i) (map gen_ids r)).
Proof.
  intros HA HB Htf Hg. destruct (gen_sweep_eq_all_pairs A B r HA HB Htf Hg) as [fl [L [Hp [_ Hiff]]]].
  split; [|split].
  - rewrite <- (Permutation_length Hp). unfold oriented. rewrite map_length, combine_length, L. symmetry. apply Nat.min_id.
  - intros i j H. destruct (oriented_in fl r i j L H) as [K|K]; [left|right]; apply Hiff, K.
  - intros i j H. apply Hiff in H. apply (in_oriented fl r i j H).
Qed.

(* on binary64 boxes with finite coordinates *)
Theorem gen_sweep_float_eq_all_pairs (A B : list (bbox PrimFloat.float)) r :
  List.Forall bbox_finite A -> List.Forall bbox_finite B -> wf_boxesF A -> wf_boxesF B -> tie_freeF A B ->
  linesweep_bbox_intersections FOps (index_shapes A) (index_shapes B) = Returns r ->
  exists fl, length fl = length r /\
    Permutation (oriented fl r) (all_overlapping_pairsF A B) /\
    NoDup (oriented fl r) /\
    (forall i j, In (i, j) (oriented fl r) <->
       ((i < length A)%nat /\ (j < length B)%nat /\ BBox_overlaps FOps (nth i A dboxF) (nth j B dboxF) = true)).
Proof.
  intros FA FB HA HB Htf Hg. destruct (gen_sweep_oriented FOps A B r Hg) as [fl [L E]]. exists fl. rewrite E.
  split; [exact L|]. split; [apply sweep_float_eq_all_pairs; assumption|].
  split; [apply sweep_float_no_duplicates; assumption|]. apply sweep_float_sound_complete; assumption.
Qed.
End C19T.

(* ================================================================ C06 *)
Module C06T.
Import BZ.Gen.Line BZ.Gen.Quad BZ.Gen.Cubic BZ.Gen.Split BZ.Gen.CurveCurve BZ.Hand.Bounds BZ.Hand.CurveCurve BZ.Proofs.C02 BZ.Proofs.C06 BZ.Proofs.Bridge4.
Open Scope R_scope.

Lemma result_of_returns {A : Type} (g : option (outcome A)) (l : A) : g = Some (Returns l) -> result_of g = Hand.CurveCurve.Ok l.
Proof. intros ->. reflexivity. Qed.

(* the piece a regenerated driver is called on: the curve with its `_range` *)
Notation pieceQ a lo hi := (Piece (CQuad a) lo hi).
Notation pieceC a lo hi := (Piece (CCubic a) lo hi).

Section Reports.
Context {K : Type} (key2 : R -> K) (keq : K -> K -> bool).

(* the conclusion of reported_from_small_overlapping_boxes *)
Definition from_small_boxes (this that : piece R) (t1 t2 : R) : Prop :=
  exists k p q b1 b2,
    Desc k this p /\ Desc k that q /\ cbounds (pc p) = Some b1 /\ cbounds (pc q) = Some b2 /\
    BBox_overlaps ROps b1 b2 = true /\ BBox_area ROps b1 < 1/1000 /\ BBox_area ROps b2 < 1/1000 /\
    t1 = (plo p + phi p) / 2 /\ t2 = (plo q + phi q) / 2.

Ltac small_boxes lem :=
  intros fuel a b lo hi lo' hi' l t1 t2 Hg Hin; apply result_of_returns in Hg; rewrite lem in Hg;
  exact (reported_from_small_overlapping_boxes key2 (flip keq) fuel _ _ l t1 t2 Hg Hin).

Theorem gen_cc_t_CC_reported_from_small_overlapping_boxes : forall fuel (a b : seg4 R) lo hi lo' hi' l t1 t2,
  Cubic__curve_curve_intersections_t_Cubic ROps key2 keq fuel (Ranged a lo hi) (Ranged b lo' hi') = Some (Returns l) ->
  In (t1, t2) l -> from_small_boxes (pieceC a lo hi) (pieceC b lo' hi') t1 t2.
Proof. small_boxes (cc_t_CC_gen ROps key2 keq). Qed.
Theorem gen_cc_t_CQ_reported_from_small_overlapping_boxes : forall fuel (a : seg4 R) (b : seg3 R) lo hi lo' hi' l t1 t2,
  Cubic__curve_curve_intersections_t_Quad ROps key2 keq fuel (Ranged a lo hi) (Ranged b lo' hi') = Some (Returns l) ->
  In (t1, t2) l -> from_small_boxes (pieceC a lo hi) (pieceQ b lo' hi') t1 t2.
Proof. small_boxes (cc_t_CQ_gen ROps key2 keq). Qed.
Theorem gen_cc_t_QC_reported_from_small_overlapping_boxes : forall fuel (a : seg3 R) (b : seg4 R) lo hi lo' hi' l t1 t2,
  Quad__curve_curve_intersections_t_Cubic ROps key2 keq fuel (Ranged a lo hi) (Ranged b lo' hi') = Some (Returns l) ->
  In (t1, t2) l -> from_small_boxes (pieceQ a lo hi) (pieceC b lo' hi') t1 t2.
Proof. small_boxes (cc_t_QC_gen ROps key2 keq). Qed.
Theorem gen_cc_t_QQ_reported_from_small_overlapping_boxes : forall fuel (a b : seg3 R) lo hi lo' hi' l t1 t2,
  Quad__curve_curve_intersections_t_Quad ROps key2 keq fuel (Ranged a lo hi) (Ranged b lo' hi') = Some (Returns l) ->
  In (t1, t2) l -> from_small_boxes (pieceQ a lo hi) (pieceQ b lo' hi') t1 t2.
Proof. small_boxes (cc_t_QQ_gen ROps key2 keq). Qed.

(* the conclusion of report_distance_bound *)
Definition distance_bounded (o1 o2 : curve R) (this that : piece R) (t1 t2 : R) : Prop :=
  exists k p q b1 b2,
    Desc k this p /\ Desc k that q /\ cbounds (pc p) = Some b1 /\ cbounds (pc q) = Some b2 /\
    BBox_area ROps b1 < 1/1000 /\ BBox_area ROps b2 < 1/1000 /\
    t1 = (plo p + phi p) / 2 /\ t2 = (plo q + phi q) / 2 /\
    Rabs (px (ceval o1 t1) - px (ceval o2 t2)) <=
      (px (tr b1) - px (bl b1)) + (px (tr b2) - px (bl b2)) + sigma (curve_ext px (pc p)) + sigma (curve_ext px (pc q)) /\
    Rabs (py (ceval o1 t1) - py (ceval o2 t2)) <=
      (py (tr b1) - py (bl b1)) + (py (tr b2) - py (bl b2)) + sigma (curve_ext py (pc p)) + sigma (curve_ext py (pc q)).

Ltac dist_bound lem :=
  intros fuel o1 o2 a b lo hi lo' hi' l t1 t2 L1 L2 R1 R2 Hg Hin; apply result_of_returns in Hg; rewrite lem in Hg;
  match type of Hg with cc_t _ _ _ _ ?p ?q = _ => exact (report_distance_bound key2 (flip keq) fuel o1 o2 p q l t1 t2 L1 L2 R1 R2 Hg Hin) end.

Theorem gen_cc_t_CC_report_distance_bound : forall fuel o1 o2 (a b : seg4 R) lo hi lo' hi' l t1 t2,
  lo < hi -> lo' < hi' -> repr o1 (pieceC a lo hi) -> repr o2 (pieceC b lo' hi') ->
  Cubic__curve_curve_intersections_t_Cubic ROps key2 keq fuel (Ranged a lo hi) (Ranged b lo' hi') = Some (Returns l) ->
  In (t1, t2) l -> distance_bounded o1 o2 (pieceC a lo hi) (pieceC b lo' hi') t1 t2.
Proof. dist_bound (cc_t_CC_gen ROps key2 keq). Qed.
Theorem gen_cc_t_CQ_report_distance_bound : forall fuel o1 o2 (a : seg4 R) (b : seg3 R) lo hi lo' hi' l t1 t2,
  lo < hi -> lo' < hi' -> repr o1 (pieceC a lo hi) -> repr o2 (pieceQ b lo' hi') ->
  Cubic__curve_curve_intersections_t_Quad ROps key2 keq fuel (Ranged a lo hi) (Ranged b lo' hi') = Some (Returns l) ->
  In (t1, t2) l -> distance_bounded o1 o2 (pieceC a lo hi) (pieceQ b lo' hi') t1 t2.
Proof. dist_bound (cc_t_CQ_gen ROps key2 keq). Qed.
Theorem gen_cc_t_QC_report_distance_bound : forall fuel o1 o2 (a : seg3 R) (b : seg4 R) lo hi lo' hi' l t1 t2,
  lo < hi -> lo' < hi' -> repr o1 (pieceQ a lo hi) -> repr o2 (pieceC b lo' hi') ->
  Quad__curve_curve_intersections_t_Cubic ROps key2 keq fuel (Ranged a lo hi) (Ranged b lo' hi') = Some (Returns l) ->
  In (t1, t2) l -> distance_bounded o1 o2 (pieceQ a lo hi) (pieceC b lo' hi') t1 t2.
Proof. dist_bound (cc_t_QC_gen ROps key2 keq). Qed.
Theorem gen_cc_t_QQ_report_distance_bound : forall fuel o1 o2 (a b : seg3 R) lo hi lo' hi' l t1 t2,
  lo < hi -> lo' < hi' -> repr o1 (pieceQ a lo hi) -> repr o2 (pieceQ b lo' hi') ->
  Quad__curve_curve_intersections_t_Quad ROps key2 keq fuel (Ranged a lo hi) (Ranged b lo' hi') = Some (Returns l) ->
  In (t1, t2) l -> distance_bounded o1 o2 (pieceQ a lo hi) (pieceQ b lo' hi') t1 t2.
Proof. dist_bound (cc_t_QQ_gen ROps key2 keq). Qed.

(* whole curves (`_range = [0,1]`): the two reported parameters are parameters of the operands themselves *)
Corollary gen_cc_t_CC_report_distance_bound_whole fuel (a b : seg4 R) l t1 t2 :
  Cubic__curve_curve_intersections_t_Cubic ROps key2 keq fuel (Ranged a (ofZ ROps 0) (ofZ ROps 1)) (Ranged b (ofZ ROps 0) (ofZ ROps 1)) = Some (Returns l) ->
  In (t1, t2) l -> distance_bounded (CCubic a) (CCubic b) (whole ROps (CCubic a)) (whole ROps (CCubic b)) t1 t2.
Proof.
  intros Hg Hin. apply (gen_cc_t_CC_report_distance_bound fuel (CCubic a) (CCubic b) a b _ _ _ _ l t1 t2); try assumption;
    try (cbn [ofZ ROps]; lra); apply repr_whole.
Qed.
End Reports.

(* ---- nothing is pruned: the run that never de-duplicates (key equality constantly false) ---- *)
Notation rawkey := (fun _ : R => tt).
Notation rawkeq := (fun _ _ : unit => false).

Definition within_half_range (lo hi lo' hi' s t : R) (l : list (R * R)) : Prop :=
  exists k t1 t2, In (t1, t2) l /\ Rabs (t1 - s) <= (hi - lo) / 2 ^ S k /\ Rabs (t2 - t) <= (hi' - lo') / 2 ^ S k.

Ltac no_miss lem :=
  intros fuel o1 o2 a b lo hi lo' hi' l s t L1 L2 R1 R2 E1 E2 Hs Ht HX Hg; apply result_of_returns in Hg; rewrite lem in Hg;
  match type of Hg with cc_t _ _ _ _ ?p ?q = _ =>
    change (cc_raw ROps fuel p q = Hand.CurveCurve.Ok l) in Hg;
    exact (no_miss_within_half_range fuel o1 o2 p q l s t L1 L2 R1 R2 E1 E2 Hs Ht HX Hg) end.

Theorem gen_cc_t_CC_no_miss_within_half_range : forall fuel o1 o2 (a b : seg4 R) lo hi lo' hi' l s t,
  lo < hi -> lo' < hi' -> repr o1 (pieceC a lo hi) -> repr o2 (pieceC b lo' hi') ->
  (forall k p, Desc k (pieceC a lo hi) p -> encloses p) -> (forall k q, Desc k (pieceC b lo' hi') q -> encloses q) ->
  lo <= s <= hi -> lo' <= t <= hi' -> ceval o1 s = ceval o2 t ->
  Cubic__curve_curve_intersections_t_Cubic ROps rawkey rawkeq fuel (Ranged a lo hi) (Ranged b lo' hi') = Some (Returns l) ->
  within_half_range lo hi lo' hi' s t l.
Proof. no_miss (cc_t_CC_gen ROps rawkey rawkeq). Qed.
Theorem gen_cc_t_CQ_no_miss_within_half_range : forall fuel o1 o2 (a : seg4 R) (b : seg3 R) lo hi lo' hi' l s t,
  lo < hi -> lo' < hi' -> repr o1 (pieceC a lo hi) -> repr o2 (pieceQ b lo' hi') ->
  (forall k p, Desc k (pieceC a lo hi) p -> encloses p) -> (forall k q, Desc k (pieceQ b lo' hi') q -> encloses q) ->
  lo <= s <= hi -> lo' <= t <= hi' -> ceval o1 s = ceval o2 t ->
  Cubic__curve_curve_intersections_t_Quad ROps rawkey rawkeq fuel (Ranged a lo hi) (Ranged b lo' hi') = Some (Returns l) ->
  within_half_range lo hi lo' hi' s t l.
Proof. no_miss (cc_t_CQ_gen ROps rawkey rawkeq). Qed.
Theorem gen_cc_t_QC_no_miss_within_half_range : forall fuel o1 o2 (a : seg3 R) (b : seg4 R) lo hi lo' hi' l s t,
  lo < hi -> lo' < hi' -> repr o1 (pieceQ a lo hi) -> repr o2 (pieceC b lo' hi') ->
  (forall k p, Desc k (pieceQ a lo hi) p -> encloses p) -> (forall k q, Desc k (pieceC b lo' hi') q -> encloses q) ->
  lo <= s <= hi -> lo' <= t <= hi' -> ceval o1 s = ceval o2 t ->
  Quad__curve_curve_intersections_t_Cubic ROps rawkey rawkeq fuel (Ranged a lo hi) (Ranged b lo' hi') = Some (Returns l) ->
  within_half_range lo hi lo' hi' s t l.
Proof. no_miss (cc_t_QC_gen ROps rawkey rawkeq). Qed.
Theorem gen_cc_t_QQ_no_miss_within_half_range : forall fuel o1 o2 (a b : seg3 R) lo hi lo' hi' l s t,
  lo < hi -> lo' < hi' -> repr o1 (pieceQ a lo hi) -> repr o2 (pieceQ b lo' hi') ->
  (forall k p, Desc k (pieceQ a lo hi) p -> encloses p) -> (forall k q, Desc k (pieceQ b lo' hi') q -> encloses q) ->
  lo <= s <= hi -> lo' <= t <= hi' -> ceval o1 s = ceval o2 t ->
  Quad__curve_curve_intersections_t_Quad ROps rawkey rawkeq fuel (Ranged a lo hi) (Ranged b lo' hi') = Some (Returns l) ->
  within_half_range lo hi lo' hi' s t l.
Proof. no_miss (cc_t_QQ_gen ROps rawkey rawkeq). Qed.

(* ---- what the de-duplication keeps (C06 raw_report_survives_by_key): for a reflexive and transitive key equality, when the
   never-de-duplicating run returns, the run with the key returns too, reports nothing new, and every raw report has a survivor
   with an equal key (the generated lookup applies keq to (stored key, new key): survivor first) ---- *)
Lemma result_of_ok {A : Type} (g : option (outcome A)) (l : A) : result_of g = Hand.CurveCurve.Ok l -> g = Some (Returns l).
Proof. destruct g as [[v|e]|]; cbn [result_of]; intro H; try discriminate H. injection H as ->. reflexivity. Qed.

Section Survive.
Context {K : Type} (key2 : R -> K) (keq : K -> K -> bool).

Definition survives_by_key (lr l : list (R * R)) : Prop :=
  (forall x, In x l -> In x lr) /\ (forall x, In x lr -> exists y, In y l /\ keq (key2 (fst y)) (key2 (fst x)) = true).

Ltac survive lem lemraw :=
  intros Hrefl Htrans fuel a b lo hi lo' hi' lr Hg; apply result_of_returns in Hg; rewrite lemraw in Hg;
  match type of Hg with cc_t _ _ _ _ ?p ?q = _ =>
    change (cc_raw ROps fuel p q = Hand.CurveCurve.Ok lr) in Hg;
    destruct (raw_report_survives_by_key key2 (flip keq) (fun a0 => Hrefl a0) (fun a0 b0 c0 H1 H2 => Htrans c0 b0 a0 H2 H1) fuel p q lr Hg)
      as (l & Hl & Hin & Hsv);
    rewrite <- lem in Hl; apply result_of_ok in Hl; exists l; split; [exact Hl|]; split; [exact Hin | exact Hsv] end.

Theorem gen_cc_t_CC_raw_report_survives_by_key :
  (forall k, keq k k = true) -> (forall k1 k2 k3, keq k1 k2 = true -> keq k2 k3 = true -> keq k1 k3 = true) ->
  forall fuel (a b : seg4 R) lo hi lo' hi' lr,
  Cubic__curve_curve_intersections_t_Cubic ROps rawkey rawkeq fuel (Ranged a lo hi) (Ranged b lo' hi') = Some (Returns lr) ->
  exists l, Cubic__curve_curve_intersections_t_Cubic ROps key2 keq fuel (Ranged a lo hi) (Ranged b lo' hi') = Some (Returns l) /\ survives_by_key lr l.
Proof. survive (cc_t_CC_gen ROps key2 keq) (cc_t_CC_gen ROps rawkey rawkeq). Qed.
Theorem gen_cc_t_CQ_raw_report_survives_by_key :
  (forall k, keq k k = true) -> (forall k1 k2 k3, keq k1 k2 = true -> keq k2 k3 = true -> keq k1 k3 = true) ->
  forall fuel (a : seg4 R) (b : seg3 R) lo hi lo' hi' lr,
  Cubic__curve_curve_intersections_t_Quad ROps rawkey rawkeq fuel (Ranged a lo hi) (Ranged b lo' hi') = Some (Returns lr) ->
  exists l, Cubic__curve_curve_intersections_t_Quad ROps key2 keq fuel (Ranged a lo hi) (Ranged b lo' hi') = Some (Returns l) /\ survives_by_key lr l.
Proof. survive (cc_t_CQ_gen ROps key2 keq) (cc_t_CQ_gen ROps rawkey rawkeq). Qed.
Theorem gen_cc_t_QC_raw_report_survives_by_key :
  (forall k, keq k k = true) -> (forall k1 k2 k3, keq k1 k2 = true -> keq k2 k3 = true -> keq k1 k3 = true) ->
  forall fuel (a : seg3 R) (b : seg4 R) lo hi lo' hi' lr,
  Quad__curve_curve_intersections_t_Cubic ROps rawkey rawkeq fuel (Ranged a lo hi) (Ranged b lo' hi') = Some (Returns lr) ->
  exists l, Quad__curve_curve_intersections_t_Cubic ROps key2 keq fuel (Ranged a lo hi) (Ranged b lo' hi') = Some (Returns l) /\ survives_by_key lr l.
Proof. survive (cc_t_QC_gen ROps key2 keq) (cc_t_QC_gen ROps rawkey rawkeq). Qed.
Theorem gen_cc_t_QQ_raw_report_survives_by_key :
  (forall k, keq k k = true) -> (forall k1 k2 k3, keq k1 k2 = true -> keq k2 k3 = true -> keq k1 k3 = true) ->
  forall fuel (a b : seg3 R) lo hi lo' hi' lr,
  Quad__curve_curve_intersections_t_Quad ROps rawkey rawkeq fuel (Ranged a lo hi) (Ranged b lo' hi') = Some (Returns lr) ->
  exists l, Quad__curve_curve_intersections_t_Quad ROps key2 keq fuel (Ranged a lo hi) (Ranged b lo' hi') = Some (Returns l) /\ survives_by_key lr l.
Proof. survive (cc_t_QQ_gen ROps key2 keq) (cc_t_QQ_gen ROps rawkey rawkeq). Qed.
End Survive.

(* ---- the user-level `intersections` of two curved segments (swap by degree, Intersection objects, the limited filter) ---- *)
Section Dispatch.
Context {K : Type} (key2 : R -> K) (keq : K -> K -> bool).

Definition in_window (t : R) : Prop := 2 / 10000000 <= t <= 1 + 2 / 10000000.

Lemma isect_reports fuel self other c1 c2 limited l t1 pnt t2 :
  as_curve self = Some c1 -> as_curve other = Some c2 ->
  intersections ROps key2 keq fuel self other limited = Hand.CurveCurve.Ok l -> In (t1, pnt, t2) l ->
  exists a b, (a, b) = (if swapped self other then (c2, c1) else (c1, c2)) /\
    from_small_boxes (whole ROps a) (whole ROps b) t1 t2 /\ pnt = ceval a t1 /\
    (limited = true -> in_window t1 /\ in_window t2).
Proof.
  intros E1 E2 H Hin. rewrite (intersections_curves_spec key2 keq fuel self other c1 c2 limited E1 E2) in H.
  destruct (if swapped self other then (c2, c1) else (c1, c2)) as [a b] eqn:SW.
  apply bind_ok in H. destruct H as (lt & Hcc & H). injection H as <-.
  assert (Hm : In (t1, pnt, t2) (map (fun t => (fst t, ceval a (fst t), snd t)) lt) /\ (limited = true -> in_window t1 /\ in_window t2)).
  { destruct limited.
    - apply filter_In in Hin. destruct Hin as [Hin W]. split; [exact Hin|]. intros _.
      apply andb_true_iff in W. destruct W as [W1 W2]. cbn [fst snd] in W1, W2.
      rewrite within_range_true in W1, W2. split; assumption.
    - split; [exact Hin | discriminate]. }
  destruct Hm as [Hm HW]. apply in_map_iff in Hm. destruct Hm as ([u v] & E & Hm). cbn [fst snd] in E. injection E as <- <- <-.
  exists a, b. split; [reflexivity|]. split; [|split; [reflexivity | exact HW]].
  exact (reported_from_small_overlapping_boxes key2 keq fuel _ _ lt u v Hcc Hm).
Qed.

End Dispatch.

Section DispatchGen.
Context {K : Type} (key2 : R -> K) (keq : K -> K -> bool).
Ltac isect_gen lem s o :=
  intros fuel a b limited l t1 pnt t2 Hg Hin; apply result_of_returns in Hg; rewrite lem in Hg;
  destruct (isect_reports key2 (flip keq) fuel (s a) (o b) _ _ limited l t1 pnt t2 eq_refl eq_refl Hg Hin) as (a' & b' & Hab & Hb & Hp & HW);
  cbn in Hab; injection Hab as -> ->; split; [exact Hb | split; [exact Hp | exact HW]].

Theorem gen_intersections_CC_reports : forall fuel (a b : seg4 R) limited l t1 pnt t2,
  Cubic_intersections_Cubic ROps key2 keq fuel a b limited = Some (Returns l) -> In (t1, pnt, t2) l ->
  from_small_boxes (whole ROps (CCubic a)) (whole ROps (CCubic b)) t1 t2 /\ pnt = Cubic_pointAtTime ROps a t1 /\
  (limited = true -> in_window t1 /\ in_window t2).
Proof. isect_gen (intersections_CC_gen ROps key2 keq) (@SCubic R) (@SCubic R). Qed.
Theorem gen_intersections_CQ_reports : forall fuel (a : seg4 R) (b : seg3 R) limited l t1 pnt t2,
  Cubic_intersections_Quad ROps key2 keq fuel a b limited = Some (Returns l) -> In (t1, pnt, t2) l ->
  from_small_boxes (whole ROps (CCubic a)) (whole ROps (CQuad b)) t1 t2 /\ pnt = Cubic_pointAtTime ROps a t1 /\
  (limited = true -> in_window t1 /\ in_window t2).
Proof. isect_gen (intersections_CQ_gen ROps key2 keq) (@SCubic R) (@SQuad R). Qed.
(* a quadratic receiver and a cubic argument are exchanged: t1 is a parameter of the CUBIC b, t2 of the quadratic a *)
Theorem gen_intersections_QC_reports : forall fuel (a : seg3 R) (b : seg4 R) limited l t1 pnt t2,
  Quad_intersections_Cubic ROps key2 keq fuel a b limited = Some (Returns l) -> In (t1, pnt, t2) l ->
  from_small_boxes (whole ROps (CCubic b)) (whole ROps (CQuad a)) t1 t2 /\ pnt = Cubic_pointAtTime ROps b t1 /\
  (limited = true -> in_window t1 /\ in_window t2).
Proof. isect_gen (intersections_QC_gen ROps key2 keq) (@SQuad R) (@SCubic R). Qed.
Theorem gen_intersections_QQ_reports : forall fuel (a b : seg3 R) limited l t1 pnt t2,
  Quad_intersections_Quad ROps key2 keq fuel a b limited = Some (Returns l) -> In (t1, pnt, t2) l ->
  from_small_boxes (whole ROps (CQuad a)) (whole ROps (CQuad b)) t1 t2 /\ pnt = Quad_pointAtTime ROps a t1 /\
  (limited = true -> in_window t1 /\ in_window t2).
Proof. isect_gen (intersections_QQ_gen ROps key2 keq) (@SQuad R) (@SQuad R). Qed.
End DispatchGen.
End C06T.

(* ================================================================ C03 *)
Module C03T.
Import BZ.Gen.Line BZ.Gen.Quad BZ.Gen.Cubic BZ.Gen.Split BZ.Hand.Bounds BZ.Hand.Split BZ.Proofs.C02 BZ.Proofs.C03 BZ.Proofs.C03band BZ.Proofs.Bridge3.
Open Scope R_scope.

(* the number of (segment, t) requests addExtremes makes: the findExtremes() of every segment; the fuel of the regenerated `while` must exceed it *)
Definition extremes_count (segs : list (segment R)) : nat := length (extremes_splitlist ROps segs).

Lemma gen_addExtremes_of_hand fuel segs out :
  (extremes_count segs < fuel)%nat -> addExtremes ROps segs = Hand.Split.Ok out -> Path_addExtremes ROps fuel segs = Some out.
Proof. intros Hf H. exact (addExtremes_gen ROps fuel segs out H Hf). Qed.

Lemma gen_addExtremes_inv fuel segs out :
  (extremes_count segs < fuel)%nat -> Path_addExtremes ROps fuel segs = Some out -> addExtremes ROps segs = Hand.Split.Ok out.
Proof.
  intros Hf Hg. destruct (addExtremes_same_trace segs) as (out' & groups & H & _).
  rewrite (gen_addExtremes_of_hand fuel segs out' Hf H) in Hg. injection Hg as <-. exact H.
Qed.

(* never out of fuel given fuel > number of requests; same curve, same order *)
Theorem gen_addExtremes_same_trace fuel segs : (extremes_count segs < fuel)%nat ->
  exists out groups, Path_addExtremes ROps fuel segs = Some out /\ out = concat groups /\ Forall2 refines_seg segs groups.
Proof.
  intro Hf. destruct (addExtremes_same_trace segs) as (out & groups & H & E & F).
  exists out, groups. split; [exact (gen_addExtremes_of_hand fuel segs out Hf H) | split; assumption].
Qed.

Theorem gen_addExtremes_keeps_nodes fuel segs out : (extremes_count segs < fuel)%nat ->
  Path_addExtremes ROps fuel segs = Some out ->
  forall s, In s segs -> (exists p, In p out /\ seg_start p = seg_start s) /\ (exists p, In p out /\ seg_end p = seg_end s).
Proof. intros Hf Hg. exact (addExtremes_keeps_nodes segs out (gen_addExtremes_inv fuel segs out Hf Hg)). Qed.

Theorem gen_addExtremes_wf fuel segs out : (extremes_count segs < fuel)%nat ->
  Path_addExtremes ROps fuel segs = Some out -> chained segs ->
  match segs with
  | [] => out = []
  | s0 :: rest => exists p ps, out = p :: ps /\ chained out /\
                               seg_start p = seg_start s0 /\ seg_end (last_seg p ps) = seg_end (last_seg s0 rest)
  end.
Proof. intros Hf Hg. exact (addExtremes_wf segs out (gen_addExtremes_inv fuel segs out Hf Hg)). Qed.

(* every piece monotone in x and in y up to sigma = 0.06% of the extent of the segment it was cut from: no repeated segment value (defect D14), no genuineness hypothesis (Proofs/C03band.v) *)
Theorem gen_addExtremes_monotone_total fuel segs : (extremes_count segs < fuel)%nat -> NoDup segs ->
  exists out groups, Path_addExtremes ROps fuel segs = Some out /\ out = concat groups /\
    Forall2 (fun s g => refines_seg s g /\ forall p, In p g -> piece_mono s p) segs groups.
Proof.
  intros Hf Hnd. destruct (addExtremes_monotone_total segs Hnd) as (out & groups & H & E & F).
  exists out, groups. split; [exact (gen_addExtremes_of_hand fuel segs out Hf H) | split; assumption].
Qed.

Theorem gen_addExtremes_monotone_pieces_total fuel segs out : (extremes_count segs < fuel)%nat -> NoDup segs ->
  Path_addExtremes ROps fuel segs = Some out ->
  forall p, In p out -> exists s, In s segs /\ piece_mono s p.
Proof. intros Hf Hnd Hg. exact (addExtremes_monotone_pieces_total segs out Hnd (gen_addExtremes_inv fuel segs out Hf Hg)). Qed.

(* D14 on the regenerated function: arch, line back, the same arch again -- the third arch comes back whole, not monotone in y *)
Theorem gen_addExtremes_duplicate_refuted :
  exists segs out p, chained segs /\ (forall fuel, (extremes_count segs < fuel)%nat -> Path_addExtremes ROps fuel segs = Some out) /\ In p out /\
    forall s, In s segs -> same_kind s p -> ~ piece_mono s p.
Proof.
  destruct addExtremes_duplicate_refuted as (segs & out & p & Hc & H & Hin & Hn).
  exists segs, out, p. split; [exact Hc|]. split; [|split; assumption].
  intros fuel Hf. exact (gen_addExtremes_of_hand fuel segs out Hf H).
Qed.

(* ---- splitAtPoints, any request list with every parameter below 1 (then mapx never divides by zero) ---- *)
Lemma splitAtPoints_ok segs sl : List.Forall (fun p => snd p < 1) sl ->
  exists out, splitAtPoints ROps segs sl = Hand.Split.Ok out.
Proof.
  intro Hsl. rewrite splitAtPoints_abs.
  destruct (walk_abs_groups segs (fun k => sort_ ROps (requests k sl))) as (groups & Hw & _).
  - intro k. apply Forall_forall. intros t Ht. rewrite sort_in in Ht. unfold requests in Ht.
    apply in_map_iff in Ht. destruct Ht as (p & <- & Hp). apply filter_In in Hp. destruct Hp as [Hp _].
    rewrite Forall_forall in Hsl. exact (Hsl p Hp).
  - eexists. exact Hw.
Qed.

Theorem gen_splitAtPoints_retraces fuel segs sl : (length sl < fuel)%nat -> List.Forall (fun p => snd p < 1) sl ->
  exists out groups, Path_splitAtPoints ROps fuel segs sl = Some out /\ out = concat groups /\ Forall2 retraces_seg segs groups.
Proof.
  intros Hf Hsl. destruct (splitAtPoints_ok segs sl Hsl) as [out H].
  destruct (splitAtPoints_retraces segs sl out H) as (groups & E & F).
  exists out, groups. split; [exact (splitAtPoints_gen ROps fuel segs sl out H Hf) | split; assumption].
Qed.

Theorem gen_splitAtPoints_duplicate_unsplit fuel l1 s l2 l3 sl : (length sl < fuel)%nat -> List.Forall (fun p => snd p < 1) sl ->
  exists out, Path_splitAtPoints ROps fuel (l1 ++ s :: l2 ++ s :: l3) sl = Some out /\ In s out.
Proof.
  intros Hf Hsl. destruct (splitAtPoints_ok (l1 ++ s :: l2 ++ s :: l3) sl Hsl) as [out H].
  exists out. split; [exact (splitAtPoints_gen ROps fuel _ sl out H Hf) | exact (splitAtPoints_duplicate_unsplit l1 s l2 l3 sl out H)].
Qed.
End C03T.

(* ================================================================ C08 *)
Module C08T.
Import BZ.Gen.Nodelist BZ.Hand.Nodelist BZ.Proofs.C08 BZ.Proofs.Bridge3.
Open Scope R_scope.

(* one trip segments -> node list -> segments through the two regenerated functions, both of which must return *)
Definition gen_roundtrips {T : Type} (O : Ops T) (closed : bool) (segs out : list (segment T)) : Prop :=
  exists nl r, SegRep_toNodelist O (MkSegRep closed segs) = Returns nl /\
               SegRep_fromNodelist O closed nl = Returns r /\ sr_path r = closed /\ sr_segments r = out.

Lemma gen_roundtrip_of_hand {T : Type} (O : Ops T) (closed : bool) (segs out : list (segment T)) :
  obind (fromNodelist O closed) (toNodelist segs) = Some out -> gen_roundtrips O closed segs out.
Proof.
  intro H. rewrite (toNodelist_gen O closed segs) in H.
  destruct (SegRep_toNodelist O (MkSegRep closed segs)) as [nl|e] eqn:E1; cbn [opt_of_outcome option_map obind] in H; [|discriminate H].
  rewrite (fromNodelist_gen O closed nl) in H.
  destruct (SegRep_fromNodelist O closed nl) as [r|e] eqn:E2; cbn [opt_of_outcome option_map] in H; [|discriminate H].
  injection H as H. exists nl, r. split; [exact E1|]. split; [exact E2|]. split; [exact (fromNodelist_gen_path O closed nl r E2) | exact H].
Qed.

(* open paths, every carrier: the round trip is the identity on connected non-empty chains *)
Theorem gen_nodes_roundtrip_open {T : Type} (O : Ops T) (segs : list (segment T)) :
  wf_chain segs -> segs <> [] -> gen_roundtrips O false segs segs.
Proof. intros Hwf Hne. apply gen_roundtrip_of_hand, nodes_roundtrip_open_gen; assumption. Qed.

(* closed paths over the reals: identity when the chain comes back to its start ... *)
Theorem gen_nodes_roundtrip_closed (segs : list (segment R)) :
  wf_chain segs -> segs <> [] -> last_end segs = first_start segs -> gen_roundtrips ROps true segs segs.
Proof. intros Hwf Hne Hcl. apply gen_roundtrip_of_hand, nodes_roundtrip_closed; assumption. Qed.

(* ... and exactly one straight closing segment is appended when it does not *)
Theorem gen_nodes_roundtrip_closed_unclosed (segs : list (segment R)) e f :
  wf_chain segs -> last_end segs = Some e -> first_start segs = Some f -> pclose ROps e f = false ->
  gen_roundtrips ROps true segs (segs ++ [SLine (L2 e f)]).
Proof. intros Hwf He Hf Hnc. apply gen_roundtrip_of_hand, nodes_roundtrip_closed_unclosed; assumption. Qed.

(* the empty segment list: the regenerated toNodelist raises IndexError (self.segments[0]) *)
Theorem gen_toNodelist_empty_raises {T : Type} (O : Ops T) (closed : bool) : SegRep_toNodelist O (MkSegRep closed []) = Raises PyIndexError.
Proof. apply toNodelist_gen_raises. Qed.

(* ---- rotation of a closed node list ---- *)
Lemma map_rotl1 {A B : Type} (f : A -> B) (l : list A) : map f (rotl1 l) = rotl1 (map f l).
Proof. destruct l as [|x l]; [reflexivity|]. cbn [rotl1 map]. rewrite map_app. reflexivity. Qed.
Lemma map_rotl {A B : Type} (f : A -> B) (k : nat) (l : list A) : map f (rotl k l) = rotl k (map f l).
Proof. induction k as [|k IH]; [reflexivity|]. rewrite !rotl_S, map_rotl1, IH. reflexivity. Qed.

Lemma gen_fromNodelist_some {T : Type} (O : Ops T) (closed : bool) (gl : list (gnode T)) segs :
  fromNodelist O closed (map node_of gl) = Some segs ->
  exists r, SegRep_fromNodelist O closed gl = Returns r /\ sr_path r = closed /\ sr_segments r = segs.
Proof.
  intro H. rewrite (fromNodelist_gen O closed gl) in H.
  destruct (SegRep_fromNodelist O closed gl) as [r|e] eqn:E; cbn [opt_of_outcome option_map] in H; [|discriminate H].
  injection H as H. exists r. split; [reflexivity|]. split; [exact (fromNodelist_gen_path O closed gl r E) | exact H].
Qed.
Lemma gen_fromNodelist_returns {T : Type} (O : Ops T) (closed : bool) (gl : list (gnode T)) r :
  SegRep_fromNodelist O closed gl = Returns r -> fromNodelist O closed (map node_of gl) = Some (sr_segments r).
Proof. intro H. rewrite (fromNodelist_gen O closed gl), H. reflexivity. Qed.

(* k rotations of the node list rotate the segment list by the number of on-curve nodes passed; every carrier *)
Theorem gen_rotation_invariant {T : Type} (O : Ops T) (gl : list (gnode T)) r :
  has_on (map node_of gl) = true -> cyc_no_close_adj O (map node_of gl) ->
  SegRep_fromNodelist O true gl = Returns r ->
  forall k, exists r', SegRep_fromNodelist O true (rotl k gl) = Returns r' /\ sr_path r' = true /\
                       sr_segments r' = rotl (passed k (map node_of gl)) (sr_segments r).
Proof.
  intros Hon Hcyc Hg k. apply gen_fromNodelist_some. rewrite map_rotl.
  apply rotation_invariant_gen; [exact Hon | exact Hcyc | exact (gen_fromNodelist_returns O true gl r Hg)].
Qed.

(* the closing rule, every carrier: what `closed` adds to the open reading of the same node list *)
Theorem gen_closing_segment_exists {T : Type} (O : Ops T) (gl : list (gnode T)) r f l :
  first_on (map node_of gl) = Some f -> last_on (map node_of gl) = Some l -> pclose O l f = false ->
  SegRep_fromNodelist O false gl = Returns r ->
  (trailing_offs (map node_of gl) + leading_offs (map node_of gl) <= 2)%nat ->
  exists r' s, SegRep_fromNodelist O true gl = Returns r' /\ sr_path r' = true /\ sr_segments r' = sr_segments r ++ [s] /\
               seg_start s = l /\ seg_end s = f.
Proof.
  intros Hf Hl Hnc Hg Hoffs.
  destruct (closing_segment_exists_gen O (map node_of gl) (sr_segments r) f l Hf Hl Hnc (gen_fromNodelist_returns O false gl r Hg) Hoffs)
    as (s & H & Hs & He).
  destruct (gen_fromNodelist_some O true gl _ H) as (r' & E & Hp & Hsegs).
  exists r', s. repeat split; assumption.
Qed.

Theorem gen_closing_adds_nothing {T : Type} (O : Ops T) (gl : list (gnode T)) r f l :
  first_on (map node_of gl) = Some f -> last_on (map node_of gl) = Some l -> pclose O l f = true ->
  trailing_offs (map node_of gl) = 0%nat -> leading_offs (map node_of gl) = 0%nat ->
  SegRep_fromNodelist O false gl = Returns r ->
  exists r', SegRep_fromNodelist O true gl = Returns r' /\ sr_path r' = true /\ sr_segments r' = sr_segments r.
Proof.
  intros Hf Hl Hc Ht Hlead Hg. apply gen_fromNodelist_some.
  rewrite (closing_adds_nothing_gen O (map node_of gl) f l Hf Hl Hc Ht Hlead). exact (gen_fromNodelist_returns O false gl r Hg).
Qed.

(* more than two off-curve nodes between the last and the first on-curve node: the regenerated function raises *)
Theorem gen_closing_segment_fails {T : Type} (O : Ops T) (gl : list (gnode T)) :
  has_on (map node_of gl) = true -> (trailing_offs (map node_of gl) + leading_offs (map node_of gl) > 2)%nat ->
  exists e, SegRep_fromNodelist O true gl = Raises e.
Proof.
  intros Hon Hk. pose proof (closing_segment_fails_gen O (map node_of gl) Hon Hk) as H.
  rewrite (fromNodelist_gen O true gl) in H.
  destruct (SegRep_fromNodelist O true gl) as [r|e]; [discriminate H | exists e; reflexivity].
Qed.
End C08T.

Print Assumptions C19T.gen_sweep_never_raises.
Print Assumptions C19T.gen_sweep_sound_nodup.
Print Assumptions C19T.gen_sweep_eq_all_pairs_weak.
Print Assumptions C19T.gen_sweep_eq_all_pairs.
Print Assumptions C19T.gen_sweep_unordered.
Print Assumptions C19T.gen_sweep_float_eq_all_pairs.
Print Assumptions C06T.gen_cc_t_CC_reported_from_small_overlapping_boxes.
Print Assumptions C06T.gen_cc_t_CQ_reported_from_small_overlapping_boxes.
Print Assumptions C06T.gen_cc_t_QC_reported_from_small_overlapping_boxes.
Print Assumptions C06T.gen_cc_t_QQ_reported_from_small_overlapping_boxes.
Print Assumptions C06T.gen_cc_t_CC_report_distance_bound.
Print Assumptions C06T.gen_cc_t_CQ_report_distance_bound.
Print Assumptions C06T.gen_cc_t_QC_report_distance_bound.
Print Assumptions C06T.gen_cc_t_QQ_report_distance_bound.
Print Assumptions C06T.gen_cc_t_CC_report_distance_bound_whole.
Print Assumptions C06T.gen_cc_t_CC_no_miss_within_half_range.
Print Assumptions C06T.gen_cc_t_CQ_no_miss_within_half_range.
Print Assumptions C06T.gen_cc_t_QC_no_miss_within_half_range.
Print Assumptions C06T.gen_cc_t_QQ_no_miss_within_half_range.
Print Assumptions C06T.gen_cc_t_CC_raw_report_survives_by_key.
Print Assumptions C06T.gen_cc_t_CQ_raw_report_survives_by_key.
Print Assumptions C06T.gen_cc_t_QC_raw_report_survives_by_key.
Print Assumptions C06T.gen_cc_t_QQ_raw_report_survives_by_key.
Print Assumptions C06T.gen_intersections_CC_reports.
Print Assumptions C06T.gen_intersections_CQ_reports.
Print Assumptions C06T.gen_intersections_QC_reports.
Print Assumptions C06T.gen_intersections_QQ_reports.
Print Assumptions C03T.gen_addExtremes_same_trace.
Print Assumptions C03T.gen_addExtremes_keeps_nodes.
Print Assumptions C03T.gen_addExtremes_wf.
Print Assumptions C03T.gen_addExtremes_monotone_total.
Print Assumptions C03T.gen_addExtremes_monotone_pieces_total.
Print Assumptions C03T.gen_addExtremes_duplicate_refuted.
Print Assumptions C03T.gen_splitAtPoints_retraces.
Print Assumptions C03T.gen_splitAtPoints_duplicate_unsplit.
Print Assumptions C08T.gen_nodes_roundtrip_open.
Print Assumptions C08T.gen_nodes_roundtrip_closed.
Print Assumptions C08T.gen_nodes_roundtrip_closed_unclosed.
Print Assumptions C08T.gen_toNodelist_empty_raises.
Print Assumptions C08T.gen_rotation_invariant.
Print Assumptions C08T.gen_closing_segment_exists.
Print Assumptions C08T.gen_closing_adds_nothing.
Print Assumptions C08T.gen_closing_segment_fails.
