(* Helpers shared by Proofs/C09float.v and Proofs/C10float.v, on top of Base/FloatErr.v.  Nothing here is generated.

   The reflective bound procedure of Base/FloatErr.v works with error/magnitude bounds that are LINEAR forms a*M + c in
   ONE magnitude parameter M.  The kernels of C09 (matrix entry * coordinate) and C10 (coordinate * coordinate) contain
   products of two independently bounded quantities.  They are handled without any linearisation by a change of
   parameter at the product:
     1. [approx_leaf_prod]: the product a*x of two exact leaves |a| <= A, |x| <= M is a leaf of the procedure run with
        the parameter N >= A*M:  error u*N + eta, magnitude N.  (C10: A = M, N = M*M.  C09: A bounds the linear part of
        the matrix, N = A*M + B.)
     2. [approx_scaled_l/_r]: the product a*x where x is already an approximation with bounds linear in M; the
        result is bounded in the parameter N >= A*M, N >= A (the constant part c of a bound a*M + c, an underflow
        term, is multiplied by A: this is where the "+ A" comes from).
     3. [fbound_div]: the reflective procedure followed by ONE division by a float literal with a positive integer value
        (Quad_area, Cubic_area divide by 6.0 and 20.0).
     4. [fbound_mulq]: the reflective procedure on two factors, followed by their product, with a bound that is a
        quadratic form q2*M^2 + q1*M + q0 (Line_area = (0.5 * dx) * (y0 + y1)).
   [prod_leaves], [scaled_leaves] scan the goal for the products and pose the leaf facts.
   [fbound_show2], [fbound_div_show], [fbound_mulq_show] print the computed constants (as ceilings of coefficient / u
   and constant / eta; printing the raw rationals with 2^1075 denominators takes minutes). *)
From Coq Require Import ZArith Reals Lra Lia List QArith Qround Qreals Bool.
From Flocq Require Import Core.
From Coq Require Import Floats.
From BZ Require Import Base.Ops Base.FloatErr.
Open Scope R_scope.

Lemma Q2R_1 : Q2R 1 = 1.
Proof. unfold Q2R. simpl. lra. Qed.
Lemma leval_pair M a c : leval M (a, c) = Q2R a * M + Q2R c.
Proof. reflexivity. Qed.
Lemma leval_id M : leval M (1%Q, 0%Q) = M.
Proof. rewrite leval_pair, Q2R_1, Q2R_0. ring. Qed.
Lemma leval_u_eta1 M : leval M (uQ, etaQ) = u * M + eta.
Proof. now rewrite leval_pair, Q2R_uQ, Q2R_etaQ. Qed.

(* ------------------------------------------------------------------------------------------- *)
(* 1. the product of two exact leaves, as a leaf in the parameter N >= A * M                    *)
(* ------------------------------------------------------------------------------------------- *)
Lemma approx_leaf_prod A M N a x :
  ffinite a -> Rabs (FR a) <= A -> ffinite x -> Rabs (FR x) <= M -> A * M <= N -> N <= fmax ->
  approx (a * x)%float (FR a * FR x) (leval N (uQ, etaQ)) (leval N (1%Q, 0%Q)).
Proof.
  intros Fa Ha Fx Hx HN Hf.
  assert (Aa := approx_exact a A Fa Ha). assert (Ax := approx_exact x M Fx Hx).
  rewrite leval_u_eta1, leval_id.
  eapply approx_weaken; [apply approx_mul; [exact Aa | exact Ax | ] | | ].
  - lra.
  - assert (Hu := u_pos). assert (u * (A * M) <= u * N) by (apply Rmult_le_compat_l; lra).
    replace (0 * (M + 0) + A * 0 + (u * ((A + 0) * (M + 0)) + eta)) with (u * (A * M) + eta) by ring. lra.
  - exact HN.
Qed.
Lemma approx_leaf_prod_r A M N a x :
  ffinite a -> Rabs (FR a) <= A -> ffinite x -> Rabs (FR x) <= M -> A * M <= N -> N <= fmax ->
  approx (x * a)%float (FR x * FR a) (leval N (uQ, etaQ)) (leval N (1%Q, 0%Q)).
Proof.
  intros Fa Ha Fx Hx HN Hf.
  assert (Aa := approx_exact a A Fa Ha). assert (Ax := approx_exact x M Fx Hx).
  rewrite leval_u_eta1, leval_id.
  eapply approx_weaken; [apply approx_mul; [exact Ax | exact Aa | ] | | ].
  - lra.
  - assert (Hu := u_pos). assert (u * (A * M) <= u * N) by (apply Rmult_le_compat_l; lra).
    replace (0 * (A + 0) + M * 0 + (u * ((M + 0) * (A + 0)) + eta)) with (u * (A * M) + eta) by ring. lra.
  - lra.
Qed.

(* ------------------------------------------------------------------------------------------- *)
(* 2. an exact leaf |a| <= A times an approximation with bounds linear in M:                    *)
(*    bounds linear in N, where A * M <= N and A <= N                                           *)
(* ------------------------------------------------------------------------------------------- *)
Definition lsum (l : lin) : Q := (fst l + snd l)%Q.
Definition sc_err (e b : lin) : lin := (Qred (lsum e + uQ * (lsum b + lsum e)), etaQ).
Definition sc_mag (b : lin) : lin := (Qred (lsum b), 0%Q).

Lemma scale_leval A M N l : 0 <= M -> 0 <= A -> A * M <= N -> A <= N -> lnn l = true -> A * leval M l <= Q2R (lsum l) * N.
Proof.
  intros HM HA H1 H2 Hl. apply lnn_spec in Hl. destruct Hl as (L1 & L0).
  unfold leval, lsum. rewrite Q2R_plus.
  assert (Q2R (fst l) * (A * M) <= Q2R (fst l) * N) by (apply Rmult_le_compat_l; assumption).
  assert (Q2R (snd l) * A <= Q2R (snd l) * N) by (apply Rmult_le_compat_l; assumption).
  lra.
Qed.

Lemma approx_scaled_l cap A M N a x rx e b :
  0 <= M -> A * M <= N -> A <= N -> N <= Q2R cap ->
  Qle_bool ((lsum b + lsum e) * cap) fmaxQ = true ->
  ffinite a -> Rabs (FR a) <= A -> approx x rx (leval M e) (leval M b) -> lnn e = true -> lnn b = true ->
  approx (a * x)%float (FR a * rx) (leval N (sc_err e b)) (leval N (sc_mag b)).
Proof.
  intros HM H1 H2 Hc Hfit Fa Ha Hx Ne Nb.
  assert (HA : 0 <= A) by (eapply Rle_trans; [apply Rabs_pos | exact Ha]).
  assert (HN : 0 <= N) by lra.
  assert (Aa := approx_exact a A Fa Ha).
  assert (Se := scale_leval A M N e HM HA H1 H2 Ne). assert (Sb := scale_leval A M N b HM HA H1 H2 Nb).
  assert (Pe : 0 <= Q2R (lsum e)).
  { apply lnn_spec in Ne. unfold lsum. rewrite Q2R_plus. lra. }
  assert (Pb : 0 <= Q2R (lsum b)).
  { apply lnn_spec in Nb. unfold lsum. rewrite Q2R_plus. lra. }
  assert (Hov : A * (leval M b + leval M e) <= fmax).
  { apply Rle_trans with ((Q2R (lsum b) + Q2R (lsum e)) * N); [lra|].
    apply Rle_trans with ((Q2R (lsum b) + Q2R (lsum e)) * Q2R cap); [apply Rmult_le_compat_l; lra|].
    rewrite <- Q2R_plus, <- Q2R_mult, <- Q2R_fmaxQ. apply Qle_Rle. now apply Qle_bool_iff. }
  unfold sc_err, sc_mag. rewrite 2!leval_pair, 2!(Qeq_eqR _ _ (Qred_correct _)), Q2R_etaQ, Q2R_0.
  rewrite Q2R_plus, Q2R_mult, Q2R_plus, Q2R_uQ.
  eapply approx_weaken; [apply approx_mul; [exact Aa | exact Hx | ] | | ].
  - replace ((A + 0) * (leval M b + leval M e)) with (A * (leval M b + leval M e)) by ring. exact Hov.
  - assert (Hu := u_pos).
    assert (u * (A * (leval M b + leval M e)) <= u * ((Q2R (lsum b) + Q2R (lsum e)) * N))
      by (apply Rmult_le_compat_l; lra).
    replace (0 * (leval M b + leval M e) + A * leval M e + (u * ((A + 0) * (leval M b + leval M e)) + eta))
      with (A * leval M e + u * (A * (leval M b + leval M e)) + eta) by ring.
    lra.
  - lra.
Qed.
Lemma approx_scaled_r cap A M N a x rx e b :
  0 <= M -> A * M <= N -> A <= N -> N <= Q2R cap ->
  Qle_bool ((lsum b + lsum e) * cap) fmaxQ = true ->
  ffinite a -> Rabs (FR a) <= A -> approx x rx (leval M e) (leval M b) -> lnn e = true -> lnn b = true ->
  approx (x * a)%float (rx * FR a) (leval N (sc_err e b)) (leval N (sc_mag b)).
Proof.
  intros HM H1 H2 Hc Hfit Fa Ha Hx Ne Nb.
  assert (HA : 0 <= A) by (eapply Rle_trans; [apply Rabs_pos | exact Ha]).
  assert (HN : 0 <= N) by lra.
  assert (Aa := approx_exact a A Fa Ha).
  assert (Se := scale_leval A M N e HM HA H1 H2 Ne). assert (Sb := scale_leval A M N b HM HA H1 H2 Nb).
  assert (Pe : 0 <= Q2R (lsum e)).
  { apply lnn_spec in Ne. unfold lsum. rewrite Q2R_plus. lra. }
  assert (Pb : 0 <= Q2R (lsum b)).
  { apply lnn_spec in Nb. unfold lsum. rewrite Q2R_plus. lra. }
  assert (Hov : A * (leval M b + leval M e) <= fmax).
  { apply Rle_trans with ((Q2R (lsum b) + Q2R (lsum e)) * N); [lra|].
    apply Rle_trans with ((Q2R (lsum b) + Q2R (lsum e)) * Q2R cap); [apply Rmult_le_compat_l; lra|].
    rewrite <- Q2R_plus, <- Q2R_mult, <- Q2R_fmaxQ. apply Qle_Rle. now apply Qle_bool_iff. }
  unfold sc_err, sc_mag. rewrite 2!leval_pair, 2!(Qeq_eqR _ _ (Qred_correct _)), Q2R_etaQ, Q2R_0.
  rewrite Q2R_plus, Q2R_mult, Q2R_plus, Q2R_uQ.
  eapply approx_weaken; [apply approx_mul; [exact Hx | exact Aa | ] | | ].
  - replace ((leval M b + leval M e) * (A + 0)) with (A * (leval M b + leval M e)) by ring. exact Hov.
  - assert (Hu := u_pos).
    assert (u * (A * (leval M b + leval M e)) <= u * ((Q2R (lsum b) + Q2R (lsum e)) * N))
      by (apply Rmult_le_compat_l; lra).
    replace (leval M e * (A + 0) + leval M b * 0 + (u * ((leval M b + leval M e) * (A + 0)) + eta))
      with (A * leval M e + u * (A * (leval M b + leval M e)) + eta) by ring.
    lra.
  - lra.
Qed.

(* ------------------------------------------------------------------------------------------- *)
(* 3. one division by a float whose value is a positive integer                                 *)
(* ------------------------------------------------------------------------------------------- *)
Definition lscale (q : Q) (l : lin) : lin := (Qred (q * fst l), Qred (q * snd l))%Q.
Lemma leval_lscale M q l : leval M (lscale q l) = Q2R q * leval M l.
Proof. unfold leval, lscale. cbn [fst snd]. rewrite 2!(Qeq_eqR _ _ (Qred_correct _)), 2!Q2R_mult. ring. Qed.
Definition div_err (p : positive) (e b : lin) : lin :=
  ladd (lscale (1 # p) e) (ladd (lscale (uQ * (1 # p)) (ladd b e)) (lconst etaQ)).
Lemma Q2R_inv_pos p : Q2R (1 # p) = / IZR (Z.pos p).
Proof. unfold Q2R. cbn [Qnum Qden]. lra. Qed.

Lemma approx_div_pos M x r e b d p :
  approx x r (leval M e) (leval M b) -> ffinite d -> FR d = IZR (Z.pos p) -> leval M (ladd b e) <= fmax ->
  approx (x / d)%float (r / IZR (Z.pos p)) (leval M (div_err p e b)) (leval M b).
Proof.
  intros Hx Fd Vd Hov. set (c := IZR (Z.pos p)) in *.
  assert (Hc : 1 <= c) by (apply IZR_le; lia).
  assert (Hic : 0 < / c <= 1).
  { split; [apply Rinv_0_lt_compat; lra|]. rewrite <- Rinv_1. apply Rinv_le_contravar; lra. }
  assert (Bx := approx_FR_bound _ _ _ _ Hx). rewrite leval_ladd in Hov.
  assert (He := approx_err _ _ _ _ Hx). assert (Hb := approx_mag _ _ _ _ Hx).
  assert (E0 := approx_e_nonneg _ _ _ _ Hx). assert (B0 := approx_b_nonneg _ _ _ _ Hx).
  assert (Hq : Rabs (FR x / c) <= (leval M b + leval M e) * / c).
  { unfold Rdiv. rewrite Rabs_mult, (Rabs_pos_eq (/ c)) by lra. apply Rmult_le_compat_r; lra. }
  assert (Hq2 : (leval M b + leval M e) * / c <= leval M b + leval M e).
  { rewrite <- (Rmult_1_r (leval M b + leval M e)) at 2. apply Rmult_le_compat_l; lra. }
  destruct (Fdiv_correct x d (approx_finite _ _ _ _ Hx) Fd) as (F & V).
  - rewrite Vd. fold c. lra.
  - rewrite Vd. fold c. lra.
  - rewrite Vd in V. fold c in V.
    unfold div_err. rewrite 2!leval_ladd, 2!leval_lscale, leval_ladd, leval_lconst, Q2R_etaQ, Q2R_mult, Q2R_uQ, Q2R_inv_pos.
    fold c.
    eapply approx_weaken; [apply approx_round_core with (p := FR x / c) (B := (leval M b + leval M e) * / c) (e := / c * leval M e) | | apply Rle_refl].
    + exact F.
    + exact V.
    + exact Hq.
    + replace (FR x / c - r / c) with ((FR x - r) * / c) by (unfold Rdiv; ring).
      rewrite Rabs_mult, (Rabs_pos_eq (/ c)) by lra. rewrite Rmult_comm. apply Rmult_le_compat_l; lra.
    + unfold Rdiv. rewrite Rabs_mult, (Rabs_pos_eq (/ c)) by lra.
      apply Rle_trans with (leval M b * / c); [apply Rmult_le_compat_r; lra|].
      rewrite <- (Rmult_1_r (leval M b)) at 2. apply Rmult_le_compat_l; lra.
    + apply Req_le. ring.
Qed.

Section DivSound.
Variables (cap : Q) (M : R).
Hypothesis HM : 0 <= M <= Q2R cap.
Definition div_check (infos : list (lin * lin)) (ast : fexpr) (p : positive) (K : lin) : bool :=
  match bound cap infos ast with
  | Some (e, b) => Qle_bool (ltop cap (ladd b e)) fmaxQ && lle (div_err p e b) K
  | None => false
  end.
Theorem div_check_sound fenv renv infos ast p K d r' :
  env_ok M fenv renv infos -> div_check infos ast p K = true -> ffinite d -> FR d = IZR (Z.pos p) ->
  evalR renv ast / IZR (Z.pos p) = r' ->
  ffinite (evalF fenv ast / d)%float /\ Rabs (FR (evalF fenv ast / d)%float - r') <= leval M K.
Proof.
  intros Hok Hc Fd Vd <-. unfold div_check in Hc. destruct (bound cap infos ast) as [[e b]|] eqn:Hb; [|discriminate].
  apply andb_true_iff in Hc. destruct Hc as (Hfit & Hle).
  destruct (bound_sound cap M HM _ _ _ Hok _ _ _ Hb) as (Hx & Ne & Nb).
  assert (Hov : leval M (ladd b e) <= fmax).
  { eapply Rle_trans; [apply (leval_ltop cap M HM); now apply lnn_ladd|].
    rewrite <- Q2R_fmaxQ. apply Qle_Rle. now apply Qle_bool_iff. }
  destruct (approx_div_pos M _ _ _ _ d p Hx Fd Vd Hov) as (F & He & _). split; [exact F|].
  eapply Rle_trans; [exact He|]. apply lle_leval; [lra | exact Hle].
Qed.
End DivSound.

(* the integer value of a closed float literal that is a positive integer *)
Ltac float_pos_value d :=
  let s := eval vm_compute in (Prim2SF d) in
  lazymatch s with
  | S754_finite false ?m ?e =>
    let z := eval vm_compute in (Z.shiftl (Z.pos m) e) in
    lazymatch z with
    | Z.pos ?p => constr:(p)
    | _ => fail "float_pos_value: not a positive integer:" d
    end
  | _ => fail "float_pos_value: not a positive finite literal:" d
  end.
(* Goal:  ffinite (T / d) /\ Rabs (FR (T / d) - r') <= leval M K,  d a closed literal with a positive integer value *)
Ltac fbound_div cap M HM :=
  lazymatch goal with
  | |- ffinite (PrimFloat.div ?T ?d) /\ Rabs (FR (PrimFloat.div ?T ?d) - ?r') <= leval M ?K =>
    let p := float_pos_value d in
    let fenv := fe_collect M T (@nil float) in
    let ast := fe_reify M T fenv in
    let ri := fe_envs M fenv in
    lazymatch ri with
    | (?renv, ?infos) =>
      change (ffinite (PrimFloat.div (evalF fenv ast) d) /\ Rabs (FR (PrimFloat.div (evalF fenv ast) d) - r') <= leval M K);
      apply (div_check_sound cap M HM fenv renv infos ast p K d r');
      [ repeat (apply env_ok_cons; [eassumption | vm_compute; reflexivity | vm_compute; reflexivity | ]); exact I
      | first [ vm_compute; reflexivity
              | fail 1 "fbound_div: the computed error bound exceeds the requested one, or a no-overflow check failed" ]
      | ffinite_compute
      | FR_compute d; lra
      | cbv [evalR nth]; first [reflexivity | field] ]
    end
  | |- ?g => fail "fbound_div: goal is not of the form  ffinite (T / d) /\ Rabs (FR (T / d) - r) <= leval M K"
  end.
(* for inspection: the computed error of the quotient as (ceiling of the u*M coefficient / u, ceiling of the constant / eta) *)
Definition lin_show (l : lin) : Z * Z := (Qceiling (fst l / uQ), Qceiling (snd l / etaQ)).
Definition quad_show (q : Q * Q * Q) : Z * Z * Z :=
  (Qceiling (fst (fst q) / uQ), Qceiling (snd (fst q) / etaQ), Qceiling (snd q / etaQ)).
Ltac fbound_div_show cap M :=
  lazymatch goal with
  | |- ffinite (PrimFloat.div ?T ?d) /\ _ =>
    let p := float_pos_value d in
    let fenv := fe_collect M T (@nil float) in
    let ast := fe_reify M T fenv in
    let ri := fe_envs M fenv in
    lazymatch ri with
    | (?renv, ?infos) =>
      let v := eval vm_compute in (match bound cap infos ast with Some (e, b) => Some (lin_show (div_err p e b)) | None => None end) in
      idtac v
    end
  end.

(* ------------------------------------------------------------------------------------------- *)
(* 4. the product of two analysed factors, with a quadratic-form bound                          *)
(* ------------------------------------------------------------------------------------------- *)
Definition quad : Type := (Q * Q * Q)%type.
Definition qeval (M : R) (q : quad) : R :=
  Q2R (fst (fst q)) * (M * M) + Q2R (snd (fst q)) * M + Q2R (snd q).
Definition lqmul (l1 l2 : lin) : quad :=
  (fst l1 * fst l2, fst l1 * snd l2 + snd l1 * fst l2, snd l1 * snd l2)%Q.
Definition qadd (q1 q2 : quad) : quad :=
  (fst (fst q1) + fst (fst q2), snd (fst q1) + snd (fst q2), snd q1 + snd q2)%Q.
Definition qscale (c : Q) (q : quad) : quad := (c * fst (fst q), c * snd (fst q), c * snd q)%Q.
Definition qle (q1 q2 : quad) : bool :=
  Qle_bool (fst (fst q1)) (fst (fst q2)) && Qle_bool (snd (fst q1)) (snd (fst q2)) && Qle_bool (snd q1) (snd q2).
Lemma qeval_lqmul M l1 l2 : qeval M (lqmul l1 l2) = leval M l1 * leval M l2.
Proof. unfold qeval, lqmul, leval. cbn [fst snd]. rewrite Q2R_plus, 4!Q2R_mult. ring. Qed.
Lemma qeval_qadd M q1 q2 : qeval M (qadd q1 q2) = qeval M q1 + qeval M q2.
Proof. unfold qeval, qadd. cbn [fst snd]. rewrite 3!Q2R_plus. ring. Qed.
Lemma qeval_qscale M c q : qeval M (qscale c q) = Q2R c * qeval M q.
Proof. unfold qeval, qscale. cbn [fst snd]. rewrite 3!Q2R_mult. ring. Qed.
Lemma qle_qeval M q1 q2 : 0 <= M -> qle q1 q2 = true -> qeval M q1 <= qeval M q2.
Proof.
  intros HM. unfold qle. rewrite 2!andb_true_iff, 3!Qle_bool_iff. intros ((H2 & H1) & H0).
  apply Qle_Rle in H2, H1, H0. unfold qeval.
  assert (0 <= M * M) by (apply Rmult_le_pos; assumption).
  assert (Q2R (fst (fst q1)) * (M * M) <= Q2R (fst (fst q2)) * (M * M)) by (apply Rmult_le_compat_r; assumption).
  assert (Q2R (snd (fst q1)) * M <= Q2R (snd (fst q2)) * M) by (apply Rmult_le_compat_r; assumption).
  lra.
Qed.
Definition mulq_err (ea ba eb bb : lin) : quad :=
  qadd (qadd (lqmul ea (ladd bb eb)) (lqmul ba eb))
       (qadd (qscale uQ (lqmul (ladd ba ea) (ladd bb eb))) (0%Q, 0%Q, etaQ)).
(* K = k2 * u * M^2 + k1 * eta * M + k0 * eta *)
Definition quad_u_eta (k2 k1 k0 : Z) : quad := ((inject_Z k2 * uQ)%Q, (inject_Z k1 * etaQ)%Q, (inject_Z k0 * etaQ)%Q).
Lemma qeval_u_eta M k2 k1 k0 :
  qeval M (quad_u_eta k2 k1 k0) = IZR k2 * u * (M * M) + IZR k1 * eta * M + IZR k0 * eta.
Proof. unfold qeval, quad_u_eta. cbn [fst snd]. now rewrite 3!Q2R_mult, 3!Q2R_inject_Z, Q2R_uQ, Q2R_etaQ. Qed.

Section MulqSound.
Variables (cap : Q) (M : R).
Hypothesis HM : 0 <= M <= Q2R cap.
Definition mulq_check (infos : list (lin * lin)) (astA astB : fexpr) (K : quad) : bool :=
  match bound cap infos astA, bound cap infos astB with
  | Some (ea, ba), Some (eb, bb) =>
    Qle_bool (ltop cap (lmul cap (ladd ba ea) (ladd bb eb))) fmaxQ && qle (mulq_err ea ba eb bb) K
  | _, _ => false
  end.
Theorem mulq_check_sound fenv renv infos astA astB K r' :
  env_ok M fenv renv infos -> mulq_check infos astA astB K = true -> evalR renv astA * evalR renv astB = r' ->
  ffinite (evalF fenv astA * evalF fenv astB)%float /\
  Rabs (FR (evalF fenv astA * evalF fenv astB)%float - r') <= qeval M K.
Proof.
  intros Hok Hc <-. unfold mulq_check in Hc.
  destruct (bound cap infos astA) as [[ea ba]|] eqn:HbA; [|discriminate].
  destruct (bound cap infos astB) as [[eb bb]|] eqn:HbB; [|discriminate].
  apply andb_true_iff in Hc. destruct Hc as (Hfit & Hle).
  destruct (bound_sound cap M HM _ _ _ Hok _ _ _ HbA) as (HA & Nea & Nba).
  destruct (bound_sound cap M HM _ _ _ Hok _ _ _ HbB) as (HB & Neb & Nbb).
  assert (N1 : lnn (ladd ba ea) = true) by auto using lnn_ladd.
  assert (N2 : lnn (ladd bb eb) = true) by auto using lnn_ladd.
  assert (Hov : (leval M ba + leval M ea) * (leval M bb + leval M eb) <= fmax).
  { rewrite <- 2!leval_ladd. eapply Rle_trans; [apply (leval_lmul cap M HM); assumption|].
    eapply Rle_trans; [apply (leval_ltop cap M HM); apply (lnn_lmul cap M HM); assumption|].
    rewrite <- Q2R_fmaxQ. apply Qle_Rle. now apply Qle_bool_iff. }
  destruct (approx_mul _ _ _ _ _ _ _ _ HA HB Hov) as (F & He & _). split; [exact F|].
  eapply Rle_trans; [exact He|]. eapply Rle_trans; [|apply qle_qeval; [lra | exact Hle]].
  unfold mulq_err. rewrite 3!qeval_qadd, qeval_qscale, 3!qeval_lqmul, 2!leval_ladd, Q2R_uQ.
  unfold qeval. cbn [fst snd]. rewrite Q2R_0, Q2R_etaQ. apply Req_le. ring.
Qed.
End MulqSound.

(* Goal:  ffinite (TA * TB) /\ Rabs (FR (TA * TB) - r') <= qeval M K *)
Ltac fbound_mulq cap M HM :=
  lazymatch goal with
  | |- ffinite (PrimFloat.mul ?TA ?TB) /\ Rabs (FR (PrimFloat.mul ?TA ?TB) - ?r') <= qeval M ?K =>
    let fenv0 := fe_collect M TA (@nil float) in
    let fenv := fe_collect M TB fenv0 in
    let astA := fe_reify M TA fenv in
    let astB := fe_reify M TB fenv in
    let ri := fe_envs M fenv in
    lazymatch ri with
    | (?renv, ?infos) =>
      change (ffinite (PrimFloat.mul (evalF fenv astA) (evalF fenv astB)) /\
              Rabs (FR (PrimFloat.mul (evalF fenv astA) (evalF fenv astB)) - r') <= qeval M K);
      apply (mulq_check_sound cap M HM fenv renv infos astA astB K r');
      [ repeat (apply env_ok_cons; [eassumption | vm_compute; reflexivity | vm_compute; reflexivity | ]); exact I
      | first [ vm_compute; reflexivity
              | fail 1 "fbound_mulq: the computed error bound exceeds the requested one, or a no-overflow check failed" ]
      | cbv [evalR nth]; first [reflexivity | ring] ]
    end
  | |- ?g => fail "fbound_mulq: goal is not of the form  ffinite (TA * TB) /\ Rabs (FR (TA * TB) - r) <= qeval M K"
  end.
Ltac fbound_mulq_show cap M :=
  lazymatch goal with
  | |- ffinite (PrimFloat.mul ?TA ?TB) /\ _ =>
    let fenv0 := fe_collect M TA (@nil float) in
    let fenv := fe_collect M TB fenv0 in
    let astA := fe_reify M TA fenv in
    let astB := fe_reify M TB fenv in
    let ri := fe_envs M fenv in
    lazymatch ri with
    | (?renv, ?infos) =>
      let v := eval vm_compute in
        (match bound cap infos astA, bound cap infos astB with
         | Some (ea, ba), Some (eb, bb) => Some (quad_show (mulq_err ea ba eb bb)) | _, _ => None end) in
      idtac v
    end
  end.

(* the same for the plain procedure:  fbound_show2 cap M  on a goal  ffinite T /\ _  prints (error, magnitude) *)
Ltac fbound_show2 cap M :=
  lazymatch goal with
  | |- ffinite ?T /\ _ =>
    let fenv := fe_collect M T (@nil float) in
    let ast := fe_reify M T fenv in
    let ri := fe_envs M fenv in
    lazymatch ri with
    | (?renv, ?infos) =>
      let v := eval vm_compute in
        (match bound cap infos ast with Some (e, b) => Some (lin_show e, lin_show (fst b * uQ, snd b * etaQ)%Q) | None => None end) in
      idtac v
    end
  end.

(* ------------------------------------------------------------------------------------------- *)
(* 5. scanning the goal for products of leaves                                                  *)
(* ------------------------------------------------------------------------------------------- *)
(* products  a * x  (either order) of two exact leaves with  |FR a| <= A,  |FR x| <= M,  posed as leaves in N;
   HN : A * M <= N,  Hf : N <= fmax *)
Ltac prod_leaves A M N HN Hf :=
  repeat match goal with
  | Fa : ffinite ?a, Ha : Rabs (FR ?a) <= A, Fx : ffinite ?x, Hx : Rabs (FR ?x) <= M |- context [PrimFloat.mul ?a ?x] =>
    lazymatch goal with
    | _ : approx (PrimFloat.mul a x) _ _ _ |- _ => fail
    | _ => pose proof (approx_leaf_prod A M N a x Fa Ha Fx Hx HN Hf)
    end
  | Fa : ffinite ?a, Ha : Rabs (FR ?a) <= A, Fx : ffinite ?x, Hx : Rabs (FR ?x) <= M |- context [PrimFloat.mul ?x ?a] =>
    lazymatch goal with
    | _ : approx (PrimFloat.mul x a) _ _ _ |- _ => fail
    | _ => pose proof (approx_leaf_prod_r A M N a x Fa Ha Fx Hx HN Hf)
    end
  end.
(* products  a * x / x * a  of an exact leaf |FR a| <= A and a term with a fact  approx x _ (leval M _) (leval M _) *)
Ltac scaled_leaves cap A M N HM H1 H2 Hc :=
  repeat match goal with
  | Fa : ffinite ?a, Ha : Rabs (FR ?a) <= A, Hx : approx ?x ?rx (leval M ?e) (leval M ?b) |- context [PrimFloat.mul ?a ?x] =>
    lazymatch goal with
    | _ : approx (PrimFloat.mul a x) _ _ _ |- _ => fail
    | _ => pose proof (approx_scaled_l cap A M N a x rx e b HM H1 H2 Hc ltac:(vm_compute; reflexivity) Fa Ha Hx
                         ltac:(vm_compute; reflexivity) ltac:(vm_compute; reflexivity))
    end
  | Fa : ffinite ?a, Ha : Rabs (FR ?a) <= A, Hx : approx ?x ?rx (leval M ?e) (leval M ?b) |- context [PrimFloat.mul ?x ?a] =>
    lazymatch goal with
    | _ : approx (PrimFloat.mul x a) _ _ _ |- _ => fail
    | _ => pose proof (approx_scaled_r cap A M N a x rx e b HM H1 H2 Hc ltac:(vm_compute; reflexivity) Fa Ha Hx
                         ltac:(vm_compute; reflexivity) ltac:(vm_compute; reflexivity))
    end
  end.
