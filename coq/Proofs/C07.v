(* C07: paths stay connected chains under any history of operations.
   Proofs about the hand-written heap model Hand/Heap.v (and the node-list model Hand/Nodelist.v). *)
From Coq Require Import PrimFloat.
From Coq Require Import ZArith List Bool Reals Lra Lia Psatz Arith.
From BZ Require Import Base.Ops Proofs.Tactics Gen.Utils Gen.Point Gen.Line Gen.Quad Gen.Cubic Hand.Nodelist Hand.Heap Proofs.C08.
Import ListNotations.

(* ================================================================================================ *)
(* 1. Value level: chains                                                                            *)
(* ================================================================================================ *)
Section Values.
Context {T : Type} (O : Ops T).
Implicit Types (s : segment T) (l vals : list (segment T)) (a b c : pt T).

(* [linked a l b]: l is a connected chain leading from a to b (exact equality of points) *)
Fixpoint linked a l b : Prop :=
  match l with
  | [] => a = b
  | s :: r => seg_start s = a /\ linked (seg_end s) r b
  end.

Lemma linked_app a l1 l2 c : linked a (l1 ++ l2) c <-> exists b, linked a l1 b /\ linked b l2 c.
Proof.
  revert a; induction l1 as [|s r IH]; intros a; simpl.
  - split; [intros H; exists a; auto | intros [b [-> H]]; exact H].
  - rewrite IH. split.
    + intros [Hs [b [H1 H2]]]. exists b. auto.
    + intros [b [[Hs H1] H2]]. split; [exact Hs | exists b; auto].
Qed.
Lemma linked_snoc a l s c : linked a (l ++ [s]) c <-> linked a l (seg_start s) /\ seg_end s = c.
Proof.
  rewrite linked_app. simpl. split.
  - intros [b [H1 [H2 H3]]]. subst b. auto.
  - intros [H1 H2]. exists (seg_start s). auto.
Qed.
Lemma linked_fun a l b b' : linked a l b -> linked a l b' -> b = b'.
Proof. revert a; induction l as [|s r IH]; simpl; intros a; [congruence|]. intros [_ H1] [_ H2]. eauto. Qed.

Lemma linked_wf a l b : linked a l b -> wf_chain l.
Proof.
  revert a; induction l as [|s r IH]; intros a H; simpl; [exact I|].
  destruct H as [_ H]. split; [|eauto]. destruct r as [|s' r']; [exact I|]. destruct H as [H _]. congruence.
Qed.
Lemma wf_linked s r : wf_chain (s :: r) -> linked (seg_start s) (s :: r) (last (map seg_end (s :: r)) (seg_start s)).
Proof.
  revert s; induction r as [|s' r' IH]; intros s H.
  - simpl. auto.
  - destruct H as [Hj H]. specialize (IH s' H). split; [reflexivity|].
    rewrite Hj. change (map seg_end (s :: s' :: r')) with (seg_end s :: map seg_end (s' :: r')).
    change (last (seg_end s :: map seg_end (s' :: r')) (seg_start s)) with (last (map seg_end (s' :: r')) (seg_start s)).
    simpl map in *. rewrite (last_cons_default (seg_end s') (map seg_end r') (seg_start s)).
    rewrite (last_cons_default (seg_end s') (map seg_end r') (seg_start s')) in IH. exact IH.
Qed.
Lemma linked_ends a l b : linked a l b -> l <> [] -> first_start l = Some a /\ last_end l = Some b.
Proof.
  intros H Hne. destruct l as [|s r]; [congruence|]. split.
  - destruct H as [H _]. subst a. reflexivity.
  - clear Hne. revert a s H. induction r as [|s' r' IH]; intros a s [_ H].
    + simpl in *. unfold last_end. simpl. now rewrite H.
    + specialize (IH _ _ H). unfold last_end in *. simpl in *.
      destruct (rev r' ++ [s']) eqn:E; [destruct (rev r'); discriminate|]. simpl in *. exact IH.
Qed.

(* a path value is well formed when it is a chain; the end points of a non-empty chain *)
Definition ends l : option (pt T * pt T) :=
  match first_start l, last_end l with Some a, Some b => Some (a, b) | _, _ => None end.
Lemma wf_chain_linked l : wf_chain l -> l <> [] -> exists a b, linked a l b /\ ends l = Some (a, b).
Proof.
  intros H Hne. destruct l as [|s r]; [congruence|].
  pose proof (wf_linked s r H) as HL. eexists _, _. split; [exact HL|].
  destruct (linked_ends _ _ _ HL Hne) as [E1 E2]. unfold ends. now rewrite E1, E2.
Qed.
Lemma ends_linked a l b : linked a l b -> l <> [] -> ends l = Some (a, b).
Proof. intros H Hne. destruct (linked_ends _ _ _ H Hne) as [E1 E2]. unfold ends. now rewrite E1, E2. Qed.

(* ---------- map-like operations: every point goes through one function g ---------- *)
Lemma linked_map (f : segment T -> segment T) (g : pt T -> pt T) :
  (forall s, seg_start (f s) = g (seg_start s)) -> (forall s, seg_end (f s) = g (seg_end s)) ->
  forall l a b, linked a l b -> linked (g a) (map f l) (g b).
Proof.
  intros Hs He l. induction l as [|s r IH]; intros a b H; simpl in *; [congruence|].
  destruct H as [H1 H2]. split; [rewrite Hs; congruence|]. rewrite He. auto.
Qed.

Definition pt_translated a (v : pt T) := Point___add__ O a v.
Definition pt_rotated a (about : pt T) (ang : T) := Point_rotate O (Point_clone O a) about ang.
Definition pt_scaled a (k : T) := Point___mul__ O a k.

Lemma translated_start s v : seg_start (seg_translated O s v) = pt_translated (seg_start s) v.
Proof. destruct s as [[? ?]|[? ? ?]|[? ? ? ?]]; reflexivity. Qed.
Lemma translated_end s v : seg_end (seg_translated O s v) = pt_translated (seg_end s) v.
Proof. destruct s as [[? ?]|[? ? ?]|[? ? ? ?]]; reflexivity. Qed.
Lemma rotated_start s c ang : seg_start (seg_rotated O s c ang) = pt_rotated (seg_start s) c ang.
Proof. destruct s as [[? ?]|[? ? ?]|[? ? ? ?]]; reflexivity. Qed.
Lemma rotated_end s c ang : seg_end (seg_rotated O s c ang) = pt_rotated (seg_end s) c ang.
Proof. destruct s as [[? ?]|[? ? ?]|[? ? ? ?]]; reflexivity. Qed.
Lemma scaled_start s k : seg_start (seg_scaled O s k) = pt_scaled (seg_start s) k.
Proof. destruct s as [[? ?]|[? ? ?]|[? ? ? ?]]; reflexivity. Qed.
Lemma scaled_end s k : seg_end (seg_scaled O s k) = pt_scaled (seg_end s) k.
Proof. destruct s as [[? ?]|[? ? ?]|[? ? ? ?]]; reflexivity. Qed.
Lemma rounded_start s : seg_start (seg_rounded O s) = Point_rounded O (seg_start s).
Proof. destruct s as [[? ?]|[? ? ?]|[? ? ? ?]]; reflexivity. Qed.
Lemma rounded_end s : seg_end (seg_rounded O s) = Point_rounded O (seg_end s).
Proof. destruct s as [[? ?]|[? ? ?]|[? ? ? ?]]; reflexivity. Qed.
Lemma seg_clone_id s : seg_clone O s = s.
Proof. destruct s as [[[? ?] [? ?]]|[[? ?] [? ?] [? ?]]|[[? ?] [? ?] [? ?] [? ?]]]; reflexivity. Qed.
Lemma balanced_start s : seg_start (seg_balanced O s) = seg_start s.
Proof.
  destruct s as [?|?|c]; try reflexivity. simpl. unfold cubic_balanced.
  destruct (tunni O c); [|reflexivity]. match goal with |- context [if ?b then _ else _] => destruct b end; reflexivity.
Qed.
Lemma balanced_end s : seg_end (seg_balanced O s) = seg_end s.
Proof.
  destruct s as [?|?|c]; try reflexivity. simpl. unfold cubic_balanced.
  destruct (tunni O c); [|reflexivity]. match goal with |- context [if ?b then _ else _] => destruct b end; reflexivity.
Qed.
Definition q2c_val s : segment T := match seg_q2c O s with Some c => c | None => s end.
Lemma q2c_start s : seg_start (q2c_val s) = seg_start s.
Proof. destruct s as [?|[? ? ?]|?]; reflexivity. Qed.
Lemma q2c_end s : seg_end (q2c_val s) = seg_end s.
Proof. destruct s as [?|[? ? ?]|?]; reflexivity. Qed.

Lemma linked_translate l a b v : linked a l b -> linked (pt_translated a v) (map (fun s => seg_translated O s v) l) (pt_translated b v).
Proof. apply (linked_map _ (fun p => pt_translated p v)); intros; [apply translated_start | apply translated_end]. Qed.
Lemma linked_rotate l a b c ang : linked a l b -> linked (pt_rotated a c ang) (map (fun s => seg_rotated O s c ang) l) (pt_rotated b c ang).
Proof. apply (linked_map _ (fun p => pt_rotated p c ang)); intros; [apply rotated_start | apply rotated_end]. Qed.
Lemma linked_scale l a b k : linked a l b -> linked (pt_scaled a k) (map (fun s => seg_scaled O s k) l) (pt_scaled b k).
Proof. apply (linked_map _ (fun p => pt_scaled p k)); intros; [apply scaled_start | apply scaled_end]. Qed.
Lemma linked_round l a b : linked a l b -> linked (Point_rounded O a) (map (seg_rounded O) l) (Point_rounded O b).
Proof. apply (linked_map _ (Point_rounded O)); intros; [apply rounded_start | apply rounded_end]. Qed.
Lemma linked_balance l a b : linked a l b -> linked a (map (seg_balanced O) l) b.
Proof. apply (linked_map _ (fun p => p)); intros; [apply balanced_start | apply balanced_end]. Qed.
Lemma linked_q2c l a b : linked a l b -> linked a (map q2c_val l) b.
Proof. apply (linked_map _ (fun p => p)); intros; [apply q2c_start | apply q2c_end]. Qed.
Lemma map_clone_id l : map (seg_clone O) l = l.
Proof. induction l as [|s r IH]; simpl; [reflexivity|]. now rewrite seg_clone_id, IH. Qed.

(* ---------- reverse ---------- *)
Lemma reversed_start s : seg_start (seg_reversed O s) = seg_end s.
Proof. destruct s as [[? ?]|[? ? ?]|[? ? ? ?]]; reflexivity. Qed.
Lemma reversed_end s : seg_end (seg_reversed O s) = seg_start s.
Proof. destruct s as [[? ?]|[? ? ?]|[? ? ? ?]]; reflexivity. Qed.
Lemma linked_reverse l a b : linked a l b -> linked b (rev (map (seg_reversed O) l)) a.
Proof.
  revert a; induction l as [|s r IH]; intros a H; simpl in *; [congruence|].
  destruct H as [H1 H2]. apply linked_snoc. rewrite reversed_start, reversed_end. split; [auto|exact H1].
Qed.

(* ---------- splitAtPoints / addExtremes ---------- *)
Lemma split_ends s t s1 s2 : seg_split O s t = (s1, s2) ->
  seg_start s1 = seg_start s /\ seg_end s1 = seg_start s2 /\ seg_end s2 = seg_end s.
Proof.
  destruct s as [l|q|c]; simpl.
  - destruct (Line_splitAtTime O l t) as [x y] eqn:E. intros H; injection H as <- <-.
    unfold Line_splitAtTime in E. injection E as <- <-. simpl. auto.
  - destruct (Quad_splitAtTime O q t) as [x y] eqn:E. intros H; injection H as <- <-.
    unfold Quad_splitAtTime in E. injection E as <- <-. simpl. auto.
  - destruct (Cubic_splitAtTime O c t) as [x y] eqn:E. intros H; injection H as <- <-.
    unfold Cubic_splitAtTime in E. injection E as <- <-. simpl. auto.
Qed.
Lemma cut_linked ts : forall f s ps lst, cut O f s ts = Some (ps, lst) -> linked (seg_start s) (ps ++ [lst]) (seg_end s).
Proof.
  induction ts as [|t0 r IH]; intros f s ps lst H; simpl in H.
  - injection H as <- <-. simpl. auto.
  - destruct (ltb O (f t0) (eps8 O)); [eauto|].
    destruct (seg_split O s (f t0)) as [s1 s2] eqn:E. destruct (split_ends _ _ _ _ E) as [E1 [E2 E3]].
    destruct r as [|t1 r'].
    + injection H as <- <-. simpl. rewrite E1, E2, E3. auto.
    + destruct (eqb O (sub O (ofZ O 1) (f t0)) (ofZ O 0)); [discriminate|].
      match type of H with match ?c with _ => _ end = _ => destruct c as [[ps' l']|] eqn:EC; [|discriminate] end.
      injection H as <- <-. apply IH in EC. simpl. split; [exact E1|]. rewrite E2, <- E3. exact EC.
Qed.
(* a plan entry is a chain with the end points of the segment it replaces *)
Definition plan_ok (v : segment T) (x : unit + list (segment T)) : Prop :=
  match x with inl _ => True | inr ps => ps <> [] /\ linked (seg_start v) ps (seg_end v) end.
Lemma split_one_ok d v x d' : split_one O d v = Some (x, d') -> plan_ok v x.
Proof.
  unfold split_one. destruct (dict_take O d v) as [[ts d'']|]; [|intros H; injection H as <- <-; exact I].
  destruct (cut O (fun x => x) v ts) as [[ps lst]|] eqn:E; [|discriminate].
  destruct ps as [|p0 ps']; intros H; injection H as <- <-; [exact I|]. simpl plan_ok. split; [discriminate|]. exact (cut_linked _ _ _ _ _ E).
Qed.
Lemma split_walk_ok vals : forall d plan, split_walk O d vals = Some plan -> Forall2 plan_ok vals plan.
Proof.
  induction vals as [|v r IH]; intros d plan H; simpl in H.
  - injection H as <-. constructor.
  - destruct (split_one O d v) as [[x d']|] eqn:E; [|discriminate].
    destruct (split_walk O d' r) as [xs|] eqn:E2; [|discriminate]. injection H as <-.
    constructor; [eapply split_one_ok; eauto | eauto].
Qed.
Lemma linked_plan vals plan : Forall2 plan_ok vals plan -> forall a b, linked a vals b -> linked a (plan_values vals plan) b.
Proof.
  induction 1 as [|v x r pr Hx Hr IH]; intros a b HL; simpl in *; [exact HL|].
  destruct HL as [HL1 HL2]. destruct x as [u|ps]; simpl.
  - split; auto.
  - apply linked_app. exists (seg_end v). split; [subst a; exact (proj2 Hx) | auto].
Qed.
Lemma plan_nonempty vals plan : Forall2 plan_ok vals plan -> vals <> [] -> plan_values vals plan <> [].
Proof.
  intros HF Hne. destruct HF as [|v x r pr Hx Hr]; [congruence|]. simpl. destruct x as [u|ps]; [discriminate|].
  destruct Hx as [Hn _]. destruct ps; [congruence|discriminate].
Qed.

(* ---------- flatten ---------- *)
Lemma polyline_linked ps : forall a, hd_error ps = Some a -> linked a (polyline ps) (last ps a).
Proof.
  induction ps as [|p r IH]; intros a H; [discriminate|]. injection H as ->.
  destruct r as [|q r']; [simpl; reflexivity|].
  change (polyline (a :: q :: r')) with (SLine (L2 a q) :: polyline (q :: r')). split; [reflexivity|]. change (linked q (polyline (q :: r')) (last (a :: q :: r') a)).
  assert (E : last (a :: q :: r') a = last (q :: r') q).
  { change (last (a :: q :: r') a) with (last (q :: r') a). now rewrite !last_cons_default. }
  rewrite E. apply IH. reflexivity.
Qed.
Hypothesis eqb_sound : forall x y : T, eqb O x y = true -> x = y.
Lemma pt_eqb_sound a b : pt_eqb O a b = true -> a = b.
Proof. destruct a, b. unfold pt_eqb. simpl. intros H. apply andb_prop in H as [H1 H2]. f_equal; auto. Qed.
Lemma curve_flat_linked s degree samples ls : curve_flat O s degree samples = Some ls -> linked (seg_start s) ls (seg_end s).
Proof.
  unfold curve_flat. destruct (ltb O (seg_length O s) degree).
  - intros H; injection H as <-. simpl. auto.
  - destruct (leb O degree (ofZ O 0)); [discriminate|]. destruct samples as [|p r]; [discriminate|].
    destruct r as [|p2 r2]; [discriminate|]. set (r := p2 :: r2).
    destruct (pt_eqb O p (seg_start s) && pt_eqb O (last (p :: r) p) (seg_end s)) eqn:E; [|discriminate].
    apply andb_prop in E as [E1 E2]. apply pt_eqb_sound in E1, E2. intros H; injection H as <-.
    rewrite <- E1, <- E2. exact (polyline_linked (p :: r) p eq_refl).
Qed.
Lemma curve_flat_nonempty s degree samples ls : curve_flat O s degree samples = Some ls -> ls <> [].
Proof.
  unfold curve_flat. destruct (ltb O (seg_length O s) degree); [intros H; injection H as <-; discriminate|].
  destruct (leb O degree (ofZ O 0)); [discriminate|]. destruct samples as [|p [|p2 r2]]; try discriminate.
  destruct (_ && _); [|discriminate]. intros H; injection H as <-. discriminate.
Qed.
End Values.

(* ================================================================================================ *)
(* 2. Heap level: infrastructure                                                                     *)
(* ================================================================================================ *)
Local Open Scope nat_scope.
(* decide boolean comparisons of naturals from linear facts in the context *)
Ltac nbool := repeat match goal with
  | |- context [?a <=? ?b] => first [ replace (a <=? b) with true by (symmetry; apply Nat.leb_le; lia)
                                    | replace (a <=? b) with false by (symmetry; apply Nat.leb_gt; lia) ]
  | |- context [?a <? ?b] => first [ replace (a <? b) with true by (symmetry; apply Nat.ltb_lt; lia)
                                   | replace (a <? b) with false by (symmetry; apply Nat.ltb_ge; lia) ]
  end.
Section HeapBasics.
Context {T : Type}.
Notation state := (state T).
Implicit Types (st : state) (ids : list nat).

Lemma upd_same {A} (m : nat -> option A) k v : upd m k v k = Some v.
Proof. unfold upd. now rewrite Nat.eqb_refl. Qed.
Lemma upd_other {A} (m : nat -> option A) k v k' : k' <> k -> upd m k v k' = m k'.
Proof. unfold upd. intros H. apply Nat.eqb_neq in H. now rewrite H. Qed.

(* ---------- allocation of a block of segment objects ---------- *)
Lemma alloc_segs_spec (l : list (segobj T)) : forall st st' ids, alloc_segs st l = (st', ids) ->
  ids = seq (st_ns st) (length l) /\ st_ns st' = st_ns st + length l /\ st_nl st' = st_nl st /\ st_np st' = st_np st /\
  st_lists st' = st_lists st /\ st_paths st' = st_paths st /\
  (forall id, st_segs st' id = if (st_ns st <=? id) && (id <? st_ns st + length l) then nth_error l (id - st_ns st) else st_segs st id).
Proof.
  induction l as [|so r IH]; intros st st' ids H; cbn [alloc_segs] in H.
  - injection H as <- <-. simpl. repeat split; try lia. intros id.
    destruct (st_ns st <=? id) eqn:E1, (id <? st_ns st + 0) eqn:E2; try reflexivity.
    apply Nat.leb_le in E1. apply Nat.ltb_lt in E2. lia.
  - destruct (alloc_seg st so) as [st1 id1] eqn:E1. destruct (alloc_segs st1 r) as [st2 ids2] eqn:E. injection H as <- <-.
    assert (A : id1 = st_ns st /\ st_ns st1 = S (st_ns st) /\ st_nl st1 = st_nl st /\ st_np st1 = st_np st /\
                st_lists st1 = st_lists st /\ st_paths st1 = st_paths st /\ st_segs st1 = upd (st_segs st) (st_ns st) so).
    { unfold alloc_seg in E1. injection E1 as <- <-. cbn. repeat split. }
    destruct A as (A1 & A2 & A3 & A4 & A5 & A6 & A7).
    destruct (IH _ _ _ E) as (H1 & H2 & H3 & H4 & H5 & H6 & H7).
    rewrite A2 in *. rewrite A7 in H7. cbn [length].
    repeat split; try congruence; try lia.
    + rewrite H1, A1. reflexivity.
    + intros id. rewrite H7. clear H7.
      destruct (Nat.lt_ge_cases id (st_ns st)) as [L|L].
      { nbool. cbn [andb]. rewrite upd_other by lia. reflexivity. }
      destruct (Nat.eq_dec id (st_ns st)) as [->|N].
      { nbool. cbn [andb]. rewrite upd_same. now rewrite Nat.sub_diag. }
      destruct (Nat.lt_ge_cases id (st_ns st + S (length r))) as [L2|L2].
      { nbool. cbn [andb]. replace (id - st_ns st) with (S (id - S (st_ns st))) by lia. reflexivity. }
      nbool. cbn [andb]. rewrite upd_other by lia. reflexivity.
Qed.

Lemma get_objs_ext st st' ids : (forall id, In id ids -> st_segs st' id = st_segs st id) -> get_objs st' ids = get_objs st ids.
Proof.
  induction ids as [|i r IH]; intros H; simpl; [reflexivity|].
  rewrite (H i (or_introl eq_refl)), IH; [reflexivity|]. intros; apply H; now right.
Qed.
Lemma get_objs_seq st (l : list (segobj T)) : forall n,
  (forall k, k < length l -> st_segs st (n + k) = nth_error l k) -> get_objs st (seq n (length l)) = Some l.
Proof.
  induction l as [|so r IH]; intros n H; simpl; [reflexivity|].
  pose proof (H 0 (Nat.lt_0_succ _)) as H0. rewrite Nat.add_0_r in H0. simpl in H0. rewrite H0.
  rewrite IH; [reflexivity|]. intros k Hk. replace (S n + k) with (n + S k) by lia. rewrite H by (simpl; lia). reflexivity.
Qed.
Lemma alloc_segs_get (l : list (segobj T)) st st' ids : alloc_segs st l = (st', ids) -> get_objs st' ids = Some l.
Proof.
  intros H. destruct (alloc_segs_spec _ _ _ _ H) as (H1 & _ & _ & _ & _ & _ & H7). subst ids.
  apply get_objs_seq. intros k Hk. rewrite H7.
  replace (st_ns st <=? st_ns st + k) with true by (symmetry; apply Nat.leb_le; lia).
  replace (st_ns st + k <? st_ns st + length l) with true by (symmetry; apply Nat.ltb_lt; lia).
  simpl. f_equal. lia.
Qed.
Lemma get_objs_length st ids objs : get_objs st ids = Some objs -> length objs = length ids.
Proof.
  revert objs; induction ids as [|i r IH]; intros objs H; simpl in H; [injection H as <-; reflexivity|].
  destruct (st_segs st i); [|discriminate]. destruct (get_objs st r); [|discriminate]. injection H as <-. simpl. f_equal. auto.
Qed.
Lemma get_objs_In st ids objs id : get_objs st ids = Some objs -> In id ids -> st_segs st id <> None.
Proof.
  revert objs; induction ids as [|i r IH]; intros objs H Hin; simpl in *; [contradiction|].
  destruct (st_segs st i) eqn:E; [|discriminate]. destruct (get_objs st r) eqn:E2; [|discriminate].
  destruct Hin as [->|Hin]; [congruence|eauto].
Qed.
Lemma get_objs_app st ids1 ids2 : get_objs st (ids1 ++ ids2) =
  match get_objs st ids1, get_objs st ids2 with Some a, Some b => Some (a ++ b) | _, _ => None end.
Proof.
  induction ids1 as [|i r IH]; simpl; [destruct (get_objs st ids2); reflexivity|].
  destruct (st_segs st i); [|reflexivity]. rewrite IH. destruct (get_objs st r), (get_objs st ids2); reflexivity.
Qed.
Lemma get_objs_total st ids : (forall id, In id ids -> st_segs st id <> None) -> exists objs, get_objs st ids = Some objs.
Proof.
  induction ids as [|i r IH]; intros H; simpl; [eauto|].
  destruct (st_segs st i) eqn:E; [|exfalso; eapply H; [left; reflexivity|exact E]].
  destruct IH as [objs E2]; [intros; apply H; now right|]. rewrite E2. eauto.
Qed.

(* ---------- heap well-formedness ---------- *)
Record inv st : Prop := {
  i_segs : forall id, st_ns st <= id -> st_segs st id = None;
  i_lists : forall id, st_nl st <= id -> st_lists st id = None;
  i_paths : forall id, st_np st <= id -> st_paths st id = None;
  i_list_segs : forall lid ids id, st_lists st lid = Some ids -> In id ids -> st_segs st id <> None;
  i_path_list : forall pid hp lid, st_paths st pid = Some hp -> hp_rep hp = HSeg lid -> st_lists st lid <> None }.

Lemma inv_seg_lt st id : inv st -> st_segs st id <> None -> id < st_ns st.
Proof. intros I H. destruct (Nat.lt_ge_cases id (st_ns st)); [assumption|]. exfalso. apply H. now apply i_segs. Qed.
Lemma inv_list_lt st id : inv st -> st_lists st id <> None -> id < st_nl st.
Proof. intros I H. destruct (Nat.lt_ge_cases id (st_nl st)); [assumption|]. exfalso. apply H. now apply i_lists. Qed.
Lemma inv_path_lt st id : inv st -> st_paths st id <> None -> id < st_np st.
Proof. intros I H. destruct (Nat.lt_ge_cases id (st_np st)); [assumption|]. exfalso. apply H. now apply i_paths. Qed.
Lemma inv_empty : inv (@empty_state T).
Proof. constructor; simpl; intros; try reflexivity; discriminate. Qed.

(* the list object and the segment objects reachable from a path *)
Definition plist st p : option nat :=
  match st_paths st p with Some hp => match hp_rep hp with HSeg lid => Some lid | HNode _ => None end | None => None end.
Definition pids st p : list nat :=
  match plist st p with Some lid => match st_lists st lid with Some ids => ids | None => [] end | None => [] end.

(* ---------- frames: which pre-existing objects an execution may have written ---------- *)
Record frame (Ws Wl Wp : nat -> Prop) st st' : Prop := {
  fr_ns : st_ns st <= st_ns st'; fr_nl : st_nl st <= st_nl st'; fr_np : st_np st <= st_np st';
  fr_segs : forall id, id < st_ns st -> ~ Ws id -> st_segs st' id = st_segs st id;
  fr_lists : forall id, id < st_nl st -> ~ Wl id -> st_lists st' id = st_lists st id;
  fr_paths : forall id, id < st_np st -> ~ Wp id -> st_paths st' id = st_paths st id }.
Definition none : nat -> Prop := fun _ => False.
Definition only (k : nat) : nat -> Prop := fun i => i = k.

Lemma frame_refl Ws Wl Wp st : frame Ws Wl Wp st st.
Proof. constructor; auto. Qed.
Lemma frame_trans Ws Wl Wp Ws2 Wl2 Wp2 st st1 st2 :
  frame Ws Wl Wp st st1 -> frame Ws2 Wl2 Wp2 st1 st2 ->
  (forall id, id < st_ns st -> Ws2 id -> Ws id) -> (forall id, id < st_nl st -> Wl2 id -> Wl id) ->
  (forall id, id < st_np st -> Wp2 id -> Wp id) -> frame Ws Wl Wp st st2.
Proof.
  intros [a1 a2 a3 a4 a5 a6] [b1 b2 b3 b4 b5 b6] Hs Hl Hp. constructor; try lia.
  - intros id Hlt Hn. rewrite b4; [auto| lia | intros H; apply Hn; auto].
  - intros id Hlt Hn. rewrite b5; [auto| lia | intros H; apply Hn; auto].
  - intros id Hlt Hn. rewrite b6; [auto| lia | intros H; apply Hn; auto].
Qed.
Lemma frame_weaken (Ws Wl Wp Ws' Wl' Wp' : nat -> Prop) st st' :
  frame Ws Wl Wp st st' -> (forall id, Ws id -> Ws' id) -> (forall id, Wl id -> Wl' id) -> (forall id, Wp id -> Wp' id) ->
  frame Ws' Wl' Wp' st st'.
Proof. intros [a1 a2 a3 a4 a5 a6] Hs Hl Hp. constructor; auto. Qed.

Lemma frame_set_seg st id so : frame (only id) none none st (set_seg st id so).
Proof. constructor; simpl; auto. intros i _ H. apply upd_other. exact H. Qed.
Lemma frame_set_list st lid ids : frame none (only lid) none st (set_list st lid ids).
Proof. constructor; simpl; auto. intros i _ H. apply upd_other. exact H. Qed.
Lemma frame_set_path st p hp : frame none none (only p) st (set_path st p hp).
Proof. constructor; simpl; auto. intros i _ H. apply upd_other. exact H. Qed.
Lemma frame_alloc_seg st so : frame none none none st (fst (alloc_seg st so)).
Proof. constructor; simpl; auto. intros i Hlt _. apply upd_other. lia. Qed.
Lemma frame_alloc_list st ids : frame none none none st (fst (alloc_list st ids)).
Proof. constructor; simpl; auto. intros i Hlt _. apply upd_other. lia. Qed.
Lemma frame_alloc_path st hp : frame none none none st (fst (alloc_path st hp)).
Proof. constructor; simpl; auto. intros i Hlt _. apply upd_other. lia. Qed.
Lemma frame_alloc_segs st l st' ids : alloc_segs st l = (st', ids) -> frame none none none st st'.
Proof.
  intros H. destruct (alloc_segs_spec _ _ _ _ H) as (H1 & H2 & H3 & H4 & H5 & H6 & H7).
  constructor; try lia; try (intros; congruence).
  intros id Hlt _. rewrite H7. replace (st_ns st <=? id) with false by (symmetry; apply Nat.leb_gt; lia). reflexivity.
Qed.
End HeapBasics.

(* ================================================================================================ *)
(* 3. Footprints: an execution stays within (S0, L0, P0) plus objects allocated after the base      *)
(* ================================================================================================ *)
Section Within.
Context {T : Type}.
Notation state := (state T).
Implicit Types (st : state) (ids : list nat).

(* Sw: the pre-existing segment objects the execution may WRITE; S0: those it may put into lists;
   Lw: the pre-existing list objects it may WRITE; L0: those it may install in a path; P0: the paths it may rebind;
   bs / bl / bp: the allocation counters at the start of the whole step *)
Record within (Sw S0 Lw L0 P0 : nat -> Prop) (bs bl bp : nat) st st' : Prop := {
  w_ns : bs <= st_ns st <= st_ns st'; w_nl : bl <= st_nl st <= st_nl st'; w_np : bp <= st_np st <= st_np st';
  w_segs : forall id, id < bs -> ~ Sw id -> st_segs st' id = st_segs st id;
  w_lists : forall id, id < bl -> ~ Lw id -> st_lists st' id = st_lists st id;
  w_paths : forall id, id < bp -> ~ P0 id -> st_paths st' id = st_paths st id;
  w_seg_mono : forall id, st_segs st id <> None -> st_segs st' id <> None;
  w_list_prov : forall lid ids, st_lists st' lid = Some ids ->
                st_lists st lid = Some ids \/ ((Lw lid \/ bl <= lid) /\ forall id, In id ids -> S0 id \/ bs <= id);
  w_path_prov : forall pid hp, st_paths st' pid = Some hp ->
                st_paths st pid = Some hp \/
                ((P0 pid \/ bp <= pid) /\ match hp_rep hp with HSeg lid => L0 lid \/ bl <= lid | HNode _ => True end);
  w_closed : forall pid hp, st_paths st pid = Some hp -> exists hp', st_paths st' pid = Some hp' /\ hp_closed hp' = hp_closed hp }.

Section Fixed.
Variables (Sw S0 Lw L0 P0 : nat -> Prop) (bs bl bp : nat).
Notation W := (within Sw S0 Lw L0 P0 bs bl bp).

Lemma within_refl st : bs <= st_ns st -> bl <= st_nl st -> bp <= st_np st -> W st st.
Proof. intros A1 A2 A3. constructor; auto; try lia. intros pid hp Hx. eauto. Qed.
Lemma within_trans st st1 st2 : W st st1 -> W st1 st2 -> W st st2.
Proof.
  intros A B. constructor.
  - destruct (w_ns _ _ _ _ _ _ _ _ _ _ A), (w_ns _ _ _ _ _ _ _ _ _ _ B). lia.
  - destruct (w_nl _ _ _ _ _ _ _ _ _ _ A), (w_nl _ _ _ _ _ _ _ _ _ _ B). lia.
  - destruct (w_np _ _ _ _ _ _ _ _ _ _ A), (w_np _ _ _ _ _ _ _ _ _ _ B). lia.
  - intros id H1 H2. rewrite (w_segs _ _ _ _ _ _ _ _ _ _ B), (w_segs _ _ _ _ _ _ _ _ _ _ A); auto.
  - intros id H1 H2. rewrite (w_lists _ _ _ _ _ _ _ _ _ _ B), (w_lists _ _ _ _ _ _ _ _ _ _ A); auto.
  - intros id H1 H2. rewrite (w_paths _ _ _ _ _ _ _ _ _ _ B), (w_paths _ _ _ _ _ _ _ _ _ _ A); auto.
  - intros id H. apply (w_seg_mono _ _ _ _ _ _ _ _ _ _ B), (w_seg_mono _ _ _ _ _ _ _ _ _ _ A), H.
  - intros lid ids H. destruct (w_list_prov _ _ _ _ _ _ _ _ _ _ B _ _ H) as [H1|H1]; [|right; exact H1].
    exact (w_list_prov _ _ _ _ _ _ _ _ _ _ A _ _ H1).
  - intros pid hp H. destruct (w_path_prov _ _ _ _ _ _ _ _ _ _ B _ _ H) as [H1|H1]; [|right; exact H1].
    exact (w_path_prov _ _ _ _ _ _ _ _ _ _ A _ _ H1).
  - intros pid hp H. destruct (w_closed _ _ _ _ _ _ _ _ _ _ A _ _ H) as [hp1 [H1 E1]].
    destruct (w_closed _ _ _ _ _ _ _ _ _ _ B _ _ H1) as [hp2 [H2 E2]]. exists hp2. split; [exact H2|congruence].
Qed.

Ltac wfields := cbn [set_seg set_list set_path alloc_seg alloc_list alloc_path fst st_ns st_nl st_np st_segs st_lists st_paths].
Lemma within_set_seg st id so : bs <= st_ns st -> bl <= st_nl st -> bp <= st_np st ->
  (Sw id \/ bs <= id) -> W st (set_seg st id so).
Proof.
  intros A1 A2 A3 Hid. constructor; wfields.
  - lia.
  - lia.
  - lia.
  - intros i Hlt Hn. apply upd_other. intros ->. destruct Hid; [contradiction|lia].
  - reflexivity.
  - reflexivity.
  - intros i Hn. unfold upd. destruct (Nat.eqb i id); [discriminate|assumption].
  - intros lid ids Hx. left; exact Hx.
  - intros pid hp Hx. left; exact Hx.
  - intros pid hp Hx. eauto.
Qed.
Lemma within_set_list st lid ids : bs <= st_ns st -> bl <= st_nl st -> bp <= st_np st ->
  (Lw lid \/ bl <= lid) -> (forall id, In id ids -> S0 id \/ bs <= id) -> W st (set_list st lid ids).
Proof.
  intros A1 A2 A3 Hl Hids. constructor; wfields.
  - lia.
  - lia.
  - lia.
  - reflexivity.
  - intros i Hlt Hn. apply upd_other. intros ->. destruct Hl; [contradiction|lia].
  - reflexivity.
  - auto.
  - intros l ids0 Hx. unfold upd in Hx. destruct (Nat.eqb l lid) eqn:E; [|left; exact Hx].
    apply Nat.eqb_eq in E. subst l. injection Hx as <-. right. auto.
  - intros pid hp Hx. left; exact Hx.
  - intros pid hp Hx. eauto.
Qed.
Lemma within_set_path st p hp : bs <= st_ns st -> bl <= st_nl st -> bp <= st_np st ->
  (P0 p \/ bp <= p) -> match hp_rep hp with HSeg lid => L0 lid \/ bl <= lid | HNode _ => True end ->
  (forall hp0, st_paths st p = Some hp0 -> hp_closed hp = hp_closed hp0) -> W st (set_path st p hp).
Proof.
  intros A1 A2 A3 Hp Hl Hc. constructor; wfields.
  - lia.
  - lia.
  - lia.
  - reflexivity.
  - reflexivity.
  - intros i Hlt Hn. apply upd_other. intros ->. destruct Hp; [contradiction|lia].
  - auto.
  - intros l ids0 Hx. left; exact Hx.
  - intros pid hp1 Hx. unfold upd in Hx. destruct (Nat.eqb pid p) eqn:E; [|left; exact Hx].
    apply Nat.eqb_eq in E. subst pid. injection Hx as <-. right. auto.
  - intros pid hp1 Hx. unfold upd. destruct (Nat.eqb pid p) eqn:E; [|eauto].
    apply Nat.eqb_eq in E. subst pid. exists hp. split; [reflexivity|]. auto.
Qed.
Lemma within_alloc_seg st so : bs <= st_ns st -> bl <= st_nl st -> bp <= st_np st -> W st (fst (alloc_seg st so)).
Proof.
  intros A1 A2 A3. constructor; wfields.
  - lia.
  - lia.
  - lia.
  - intros i Hlt Hn. apply upd_other. lia.
  - reflexivity.
  - reflexivity.
  - intros i Hn. unfold upd. destruct (Nat.eqb i (st_ns st)); [discriminate|assumption].
  - intros lid ids Hx. left; exact Hx.
  - intros pid hp Hx. left; exact Hx.
  - intros pid hp Hx. eauto.
Qed.
Lemma within_alloc_segs l : forall st st' ids, bs <= st_ns st -> bl <= st_nl st -> bp <= st_np st ->
  alloc_segs st l = (st', ids) -> W st st'.
Proof.
  intros st st' ids A1 A2 A3 H. destruct (alloc_segs_spec _ _ _ _ H) as (H1 & H2 & H3 & H4 & H5 & H6 & H7).
  constructor; try lia; try (intros; congruence).
  - intros id Hlt _. rewrite H7. nbool. reflexivity.
  - intros id Hn. rewrite H7. destruct ((st_ns st <=? id) && (id <? st_ns st + length l)) eqn:E; [|exact Hn].
    apply andb_prop in E as [E1 E2]. apply Nat.leb_le in E1. apply Nat.ltb_lt in E2.
    intros Hx. apply nth_error_None in Hx. lia.
  - intros lid ids0 Hx. left. congruence.
  - intros pid hp Hx. left. congruence.
  - intros pid hp Hx. exists hp. split; [congruence|reflexivity].
Qed.
Lemma within_alloc_list st ids : bs <= st_ns st -> bl <= st_nl st -> bp <= st_np st ->
  (forall id, In id ids -> S0 id \/ bs <= id) -> W st (fst (alloc_list st ids)).
Proof.
  intros A1 A2 A3 Hids. constructor; wfields.
  - lia.
  - lia.
  - lia.
  - reflexivity.
  - intros i Hlt Hn. apply upd_other. lia.
  - reflexivity.
  - auto.
  - intros l ids0 Hx. unfold upd in Hx. destruct (Nat.eqb l (st_nl st)) eqn:E; [|left; exact Hx].
    apply Nat.eqb_eq in E. subst l. injection Hx as <-. right. split; [right; lia|auto].
  - intros pid hp Hx. left; exact Hx.
  - intros pid hp Hx. eauto.
Qed.
Lemma within_alloc_path st hp : bs <= st_ns st -> bl <= st_nl st -> bp <= st_np st ->
  match hp_rep hp with HSeg lid => L0 lid \/ bl <= lid | HNode _ => True end ->
  (forall id, st_np st <= id -> st_paths st id = None) -> W st (fst (alloc_path st hp)).
Proof.
  intros A1 A2 A3 Hl Hfree. constructor; wfields.
  - lia.
  - lia.
  - lia.
  - reflexivity.
  - reflexivity.
  - intros i Hlt Hn. apply upd_other. lia.
  - auto.
  - intros l ids0 Hx. left; exact Hx.
  - intros pid hp1 Hx. unfold upd in Hx. destruct (Nat.eqb pid (st_np st)) eqn:E; [|left; exact Hx].
    apply Nat.eqb_eq in E. subst pid. injection Hx as <-. right. split; [right; lia|auto].
  - intros pid hp1 Hx. unfold upd. destruct (Nat.eqb pid (st_np st)) eqn:E; [|eauto].
    apply Nat.eqb_eq in E. subst pid. rewrite Hfree in Hx by lia. discriminate.
Qed.
End Fixed.

Lemma within_weaken (Sw S0 Lw L0 P0 Sw1 S1 Lw1 L1 P1 : nat -> Prop) bs bl bp st st' :
  within Sw S0 Lw L0 P0 bs bl bp st st' -> (forall i, Sw i -> Sw1 i) -> (forall i, S0 i -> S1 i) -> (forall i, Lw i -> Lw1 i) ->
  (forall i, L0 i -> L1 i) -> (forall i, P0 i -> P1 i) -> within Sw1 S1 Lw1 L1 P1 bs bl bp st st'.
Proof.
  intros [a1 a2 a3 a4 a5 a6 a7 a8 a9 a10] Hw Hs Hlw Hl Hp. constructor; auto.
  - intros lid ids H. destruct (a8 _ _ H) as [H1|[[H1|H1] H2]]; [left; exact H1| |]; right; (split; [auto|]);
      intros id Hin; destruct (H2 id Hin); auto.
  - intros pid hp H. destruct (a9 _ _ H) as [H1|[H1 H2]]; [left; exact H1|]. right. split; [destruct H1; auto|].
    destruct (hp_rep hp); [destruct H2; auto|exact I].
Qed.

(* ---------- inv is preserved by the primitives ---------- *)
Lemma inv_set_seg st id so : inv st -> id < st_ns st -> inv (set_seg st id so).
Proof.
  intros [a1 a2 a3 a4 a5] Hlt. constructor; simpl; auto.
  - intros i Hi. rewrite upd_other by lia. auto.
  - intros lid ids i H Hin. unfold upd. destruct (Nat.eqb i id); [discriminate|eauto].
Qed.
Lemma inv_set_list st lid ids : inv st -> lid < st_nl st -> (forall id, In id ids -> st_segs st id <> None) -> inv (set_list st lid ids).
Proof.
  intros [a1 a2 a3 a4 a5] Hlt Hids. constructor; simpl; auto.
  - intros i Hi. rewrite upd_other by lia. auto.
  - intros l ids0 i H Hin. unfold upd in H. destruct (Nat.eqb l lid); [injection H as <-; auto|eauto].
  - intros pid hp l H1 H2. unfold upd. destruct (Nat.eqb l lid); [discriminate|eauto].
Qed.
Lemma inv_set_path st p hp : inv st -> p < st_np st ->
  (forall lid, hp_rep hp = HSeg lid -> st_lists st lid <> None) -> inv (set_path st p hp).
Proof.
  intros [a1 a2 a3 a4 a5] Hlt Hl. constructor; simpl; auto.
  - intros i Hi. rewrite upd_other by lia. auto.
  - intros pid hp0 l H1 H2. unfold upd in H1. destruct (Nat.eqb pid p); [injection H1 as <-; auto|eauto].
Qed.
Lemma inv_alloc_seg st so : inv st -> inv (fst (alloc_seg st so)).
Proof.
  intros [a1 a2 a3 a4 a5]. constructor; simpl; auto.
  - intros i Hi. rewrite upd_other by lia. apply a1. lia.
  - intros lid ids i H Hin. unfold upd. destruct (Nat.eqb i (st_ns st)); [discriminate|eauto].
Qed.
Lemma inv_alloc_segs l : forall st st' ids, inv st -> alloc_segs st l = (st', ids) -> inv st'.
Proof.
  induction l as [|so r IH]; intros st st' ids I H; cbn [alloc_segs] in H.
  - injection H as <- <-. exact I.
  - destruct (alloc_seg st so) as [st1 id1] eqn:E1. destruct (alloc_segs st1 r) as [st2 ids2] eqn:E. injection H as <- <-.
    eapply IH; [|exact E]. pose proof (inv_alloc_seg st so I) as I1. now rewrite E1 in I1.
Qed.
Lemma inv_alloc_list st ids : inv st -> (forall id, In id ids -> st_segs st id <> None) -> inv (fst (alloc_list st ids)).
Proof.
  intros [a1 a2 a3 a4 a5] Hids. constructor; simpl; auto.
  - intros i Hi. rewrite upd_other by lia. apply a2. lia.
  - intros l ids0 i H Hin. unfold upd in H. destruct (Nat.eqb l (st_nl st)); [injection H as <-; auto|eauto].
  - intros pid hp l H1 H2. unfold upd. destruct (Nat.eqb l (st_nl st)); [discriminate|eauto].
Qed.
Lemma inv_alloc_path st hp : inv st -> (forall lid, hp_rep hp = HSeg lid -> st_lists st lid <> None) -> inv (fst (alloc_path st hp)).
Proof.
  intros [a1 a2 a3 a4 a5] Hl. constructor; simpl; auto.
  - intros i Hi. rewrite upd_other by lia. apply a3. lia.
  - intros pid hp0 l H1 H2. unfold upd in H1. destruct (Nat.eqb pid (st_np st)); [injection H1 as <-; auto|eauto].
Qed.
End Within.

(* ================================================================================================ *)
(* 4. Every sub-routine of [step] preserves [inv] and stays within a footprint                       *)
(* ================================================================================================ *)
Lemma nodup_app {A} (a b : list A) : NoDup a -> NoDup b -> (forall x, In x a -> In x b -> False) -> NoDup (a ++ b).
Proof.
  induction a as [|x r IH]; intros Ha Hb H; simpl; [exact Hb|].
  inversion Ha as [|? ? Hn Hr]; subst. constructor.
  - intros Hin. apply in_app_or in Hin as [Hin|Hin]; [contradiction|]. eapply H; [left; reflexivity|exact Hin].
  - apply IH; auto. intros y H1 H2. eapply H; [right; exact H1|exact H2].
Qed.
Section Routines.
Context {T : Type} (O : Ops T).
Notation state := (state T).
Implicit Types (st : state) (ids : list nat).
Variables (Sw S0 Lw L0 P0 : nat -> Prop) (bs bl bp : nat).
Notation W := (within Sw S0 Lw L0 P0 bs bl bp).
Definition okids ids : Prop := forall id, In id ids -> S0 id \/ bs <= id.
Definition okw ids : Prop := forall id, In id ids -> Sw id \/ bs <= id.
Definition exist st ids : Prop := forall id, In id ids -> st_segs st id <> None.
Definition based st : Prop := bs <= st_ns st /\ bl <= st_nl st /\ bp <= st_np st.

Lemma based_within st st' : based st -> W st st' -> based st'.
Proof.
  intros (A1 & A2 & A3) H. destruct (w_ns _ _ _ _ _ _ _ _ _ _ H), (w_nl _ _ _ _ _ _ _ _ _ _ H), (w_np _ _ _ _ _ _ _ _ _ _ H).
  unfold based. lia.
Qed.
Lemma exist_within st st' ids : W st st' -> exist st ids -> exist st' ids.
Proof. intros H E id Hin. apply (w_seg_mono _ _ _ _ _ _ _ _ _ _ H). auto. Qed.
Lemma okids_app a b : okids a -> okids b -> okids (a ++ b).
Proof. intros Ha Hb id Hin. apply in_app_or in Hin as [H|H]; auto. Qed.
Lemma exist_app st a b : exist st a -> exist st b -> exist st (a ++ b).
Proof. intros Ha Hb id Hin. apply in_app_or in Hin as [H|H]; auto. Qed.
Lemma okids_seq n k : bs <= n -> okids (seq n k).
Proof. intros H id Hin. apply in_seq in Hin. right. lia. Qed.

(* fresh block of segment objects *)
Lemma alloc_segs_ok st l st' ids : inv st -> based st -> alloc_segs st l = (st', ids) ->
  inv st' /\ W st st' /\ okids ids /\ exist st' ids /\ NoDup ids /\ (forall id, In id ids -> st_ns st <= id) /\
  st_lists st' = st_lists st /\ st_paths st' = st_paths st /\ st_nl st' = st_nl st /\ st_np st' = st_np st.
Proof.
  intros I (A1 & A2 & A3) H. pose proof (alloc_segs_spec _ _ _ _ H) as (H1 & H2 & H3 & H4 & H5 & H6 & H7).
  split; [eapply inv_alloc_segs; eauto|]. split; [eapply within_alloc_segs; eauto|].
  subst ids. repeat split; auto.
  - apply okids_seq. lia.
  - intros id Hin. eapply get_objs_In; [eapply alloc_segs_get; exact H|exact Hin].
  - apply seq_NoDup.
  - intros id Hin. apply in_seq in Hin. lia.
Qed.

(* ---------- asSegments ---------- *)
Lemma as_segments_ok st p st1 cl lid ids : inv st -> based st -> P0 p ->
  as_segments O st p = Some (st1, cl, lid, ids) ->
  inv st1 /\ W st st1 /\ st_paths st1 p = Some (HP (HSeg lid) cl) /\ st_lists st1 lid = Some ids /\
  (exists hp, st_paths st p = Some hp /\ hp_closed hp = cl) /\
  ((st1 = st /\ plist st p = Some lid) \/
   (bl <= lid /\ st_nl st <= lid /\ (forall id, In id ids -> st_ns st <= id) /\ NoDup ids /\ plist st p = None)).
Proof.
  intros I B Hp H. pose proof B as (A1 & A2 & A3). unfold as_segments in H.
  destruct (st_paths st p) as [hp|] eqn:Ep; [|discriminate]. destruct hp as [rep c]. simpl in H. destruct rep as [l|nl].
  - destruct (st_lists st l) as [ids0|] eqn:El; [|discriminate]. injection H as <- <- <- <-.
    split; [exact I|]. split; [apply within_refl; lia|]. repeat split; auto.
    + eexists; split; [reflexivity|reflexivity].
    + left. split; [reflexivity|]. unfold plist. now rewrite Ep.
  - destruct (fromNodelist O c nl) as [vals|]; [|discriminate].
    destruct (alloc_segs st (map fresh vals)) as [sta nids] eqn:Ea.
    destruct (alloc_list sta nids) as [stb l] eqn:Eb. injection H as <- <- <- <-.
    destruct (alloc_segs_ok _ _ _ _ I B Ea) as (Ia & Wa & Oa & Xa & Na & Fa & La & Pa & NLa & NPa).
    pose proof (based_within _ _ B Wa) as Ba. pose proof Ba as (Ba1 & Ba2 & Ba3).
    assert (El : l = st_nl sta /\ stb = fst (alloc_list sta nids)) by (unfold alloc_list in Eb; injection Eb as <- <-; split; reflexivity).
    destruct El as [-> ->].
    pose proof (inv_alloc_list sta nids Ia Xa) as Ib.
    pose proof (within_alloc_list Sw S0 Lw L0 P0 bs bl bp sta nids Ba1 Ba2 Ba3 Oa) as Wb.
    set (stb := fst (alloc_list sta nids)) in *.
    assert (Pb : st_paths stb p = Some (HP (HNode nl) c)) by (unfold stb; simpl; rewrite Pa; exact Ep).
    split; [|split; [|repeat split]].
    + apply inv_set_path; [exact Ib| |].
      * apply (inv_path_lt _ _ Ib). rewrite Pb. discriminate.
      * intros lid0 E. simpl in E. injection E as <-. unfold stb. simpl. rewrite upd_same. discriminate.
    + eapply within_trans; [exact Wa|]. eapply within_trans; [exact Wb|].
      pose proof (based_within _ _ Ba Wb) as (Bb1 & Bb2 & Bb3).
      apply within_set_path; auto.
      * simpl. right. lia.
      * intros hp0 E. assert (E' : Some hp0 = Some (HP (HNode nl) c)) by (rewrite <- E; exact Pb). injection E' as ->. reflexivity.
    + simpl. apply upd_same.
    + simpl. apply upd_same.
    + eexists; split; [reflexivity|reflexivity].
    + right. repeat split; auto; try lia.
      unfold plist. now rewrite Ep.
Qed.

Lemma get_vals_ext st st' ids : (forall id, In id ids -> st_segs st' id = st_segs st id) -> get_vals st' ids = get_vals st ids.
Proof. intros H. unfold get_vals. now rewrite (get_objs_ext _ _ _ H). Qed.
Lemma get_vals_cons st id r : get_vals st (id :: r) =
  match st_segs st id, get_vals st r with Some so, Some l => Some (so_seg so :: l) | _, _ => None end.
Proof. unfold get_vals. simpl. destruct (st_segs st id); [|reflexivity]. destruct (get_objs st r); reflexivity. Qed.
Lemma get_vals_app st a b : get_vals st (a ++ b) =
  match get_vals st a, get_vals st b with Some x, Some y => Some (x ++ y) | _, _ => None end.
Proof.
  unfold get_vals. rewrite get_objs_app. destruct (get_objs st a), (get_objs st b); simpl; try reflexivity.
  now rewrite map_app.
Qed.
Lemma get_vals_exist st ids vals : get_vals st ids = Some vals -> exist st ids.
Proof.
  unfold get_vals. destruct (get_objs st ids) eqn:E; [|discriminate]. intros _ id Hin. eapply get_objs_In; eauto.
Qed.
Lemma get_vals_length st ids vals : get_vals st ids = Some vals -> length vals = length ids.
Proof.
  unfold get_vals. destruct (get_objs st ids) eqn:E; [|discriminate]. intros H; injection H as <-.
  rewrite map_length. eapply get_objs_length; eauto.
Qed.
Lemma exist_lt st ids : inv st -> exist st ids -> forall id, In id ids -> id < st_ns st.
Proof. intros I X id Hin. apply (inv_seg_lt _ _ I). auto. Qed.

(* ---------- a new list object holding new segment objects, installed in path p ---------- *)
Lemma install_fresh_ok st p cl (vals : list (segment T)) hp0 : inv st -> based st -> P0 p ->
  st_paths st p = Some hp0 -> hp_closed hp0 = cl ->
  let st' := install_fresh st p cl vals in
  inv st' /\ W st st' /\
  exists lid ids, st_paths st' p = Some (HP (HSeg lid) cl) /\ st_lists st' lid = Some ids /\ get_vals st' ids = Some vals /\
                  NoDup ids /\ (forall id, In id ids -> st_ns st <= id) /\ st_nl st <= lid.
Proof.
  intros I B Hp Ep Ec. unfold install_fresh.
  destruct (alloc_segs st (map fresh vals)) as [sta nids] eqn:Ea.
  destruct (alloc_segs_ok _ _ _ _ I B Ea) as (Ia & Wa & Oa & Xa & Na & Fa & La & Pa & NLa & NPa).
  pose proof (based_within _ _ B Wa) as Ba. pose proof Ba as (Ba1 & Ba2 & Ba3).
  change (alloc_list sta nids) with (fst (alloc_list sta nids), st_nl sta). cbv beta iota zeta.
  pose proof (inv_alloc_list sta nids Ia Xa) as Ib.
  pose proof (within_alloc_list Sw S0 Lw L0 P0 bs bl bp sta nids Ba1 Ba2 Ba3 Oa) as Wb.
  set (stb := fst (alloc_list sta nids)) in *.
  pose proof (based_within _ _ Ba Wb) as (Bb1 & Bb2 & Bb3).
  assert (Pb : st_paths stb p = Some hp0) by (unfold stb; simpl; rewrite Pa; exact Ep).
  split; [|split].
  - apply inv_set_path; [exact Ib| |].
    + apply (inv_path_lt _ _ Ib). rewrite Pb. discriminate.
    + intros lid0 E. simpl in E. injection E as <-. unfold stb. simpl. rewrite upd_same. discriminate.
  - eapply within_trans; [exact Wa|]. eapply within_trans; [exact Wb|].
    apply within_set_path; auto.
    + simpl. right. lia.
    + intros hp1 E. assert (E' : Some hp1 = Some hp0) by (rewrite <- E; exact Pb). injection E' as ->. simpl. auto.
  - exists (st_nl sta), nids. repeat split; auto.
    + simpl. apply upd_same.
    + simpl. apply upd_same.
    + unfold get_vals. rewrite (get_objs_ext sta (set_path stb p (HP (HSeg (st_nl sta)) cl)) nids) by (intros; reflexivity).
      rewrite (alloc_segs_get _ _ _ _ Ea). simpl. rewrite map_map. simpl. now rewrite map_id.
    + lia.
Qed.

(* ---------- for s in segs: s.mutate() ---------- *)
Definition mut (f : segment T -> segment T) (so : segobj T) : segobj T := SO (f (so_seg so)) (so_orig so).
Lemma mutate_all_ok f ids : forall st st', inv st -> based st -> okw ids -> mutate_all f st ids = Some st' ->
  inv st' /\ W st st' /\ st_lists st' = st_lists st /\ st_paths st' = st_paths st /\
  st_ns st' = st_ns st /\ st_nl st' = st_nl st /\ st_np st' = st_np st /\
  (forall id, ~ In id ids -> st_segs st' id = st_segs st id) /\
  (NoDup ids -> forall id, In id ids -> st_segs st' id = option_map (mut f) (st_segs st id)).
Proof.
  induction ids as [|i r IH]; intros st st' I B Hok H; simpl in H.
  - injection H as <-. destruct B as (A1 & A2 & A3). split; [exact I|]. split; [apply within_refl; auto|].
    repeat split; auto. intros _ id [].
  - destruct (st_segs st i) as [so|] eqn:Es; [|discriminate].
    set (st1 := set_seg st i (SO (f (so_seg so)) (so_orig so))) in *.
    assert (Hlt : i < st_ns st) by (apply (inv_seg_lt _ _ I); rewrite Es; discriminate).
    pose proof (inv_set_seg st i (SO (f (so_seg so)) (so_orig so)) I Hlt) as I1.
    pose proof B as (A1 & A2 & A3).
    pose proof (within_set_seg Sw S0 Lw L0 P0 bs bl bp st i (SO (f (so_seg so)) (so_orig so)) A1 A2 A3 (Hok i (or_introl eq_refl))) as W1.
    pose proof (based_within _ _ B W1) as B1.
    destruct (IH st1 st' I1 B1 (fun id Hin => Hok id (or_intror Hin)) H) as (I' & W' & L' & P' & N1 & N2 & N3 & F1 & F2).
    split; [exact I'|]. split; [eapply within_trans; eauto|]. repeat split; auto.
    + intros id Hn. rewrite F1 by (intros Hx; apply Hn; now right). unfold st1. simpl. apply upd_other. intros ->. apply Hn. now left.
    + intros ND id Hin. inversion ND as [|? ? Hni ND']; subst. destruct Hin as [<-|Hin].
      * rewrite F1 by exact Hni. unfold st1. simpl. rewrite upd_same, Es. reflexivity.
      * rewrite (F2 ND' id Hin). unfold st1. simpl. rewrite upd_other; [reflexivity|]. intros ->. contradiction.
Qed.

(* ---------- SegmentRepresentation(self, segs) with the same list ---------- *)
Lemma wrap_ok st p cl lid ids hp0 : inv st -> based st -> P0 p -> st_paths st p = Some hp0 -> hp_closed hp0 = cl ->
  (L0 lid \/ bl <= lid) -> st_lists st lid = Some ids ->
  let st' := wrap st p cl lid ids in
  inv st' /\ W st st' /\ st_segs st' = st_segs st /\
  exists lid', st_paths st' p = Some (HP (HSeg lid') cl) /\ st_lists st' lid' = Some ids /\ (lid' = lid \/ st_nl st <= lid').
Proof.
  intros I B Hp Ep Ec Hl El. pose proof B as (A1 & A2 & A3). unfold wrap. destruct ids as [|i r].
  - change (alloc_list st []) with (fst (alloc_list st (@nil nat)), st_nl st). cbv beta iota zeta.
    assert (X0 : exist st []) by (intros ? []).
    assert (O0 : okids []) by (intros ? []).
    pose proof (inv_alloc_list st [] I X0) as Ib.
    pose proof (within_alloc_list Sw S0 Lw L0 P0 bs bl bp st [] A1 A2 A3 O0) as Wb.
    set (stb := fst (alloc_list st [])) in *.
    pose proof (based_within _ _ B Wb) as (Bb1 & Bb2 & Bb3).
    assert (Pb : st_paths stb p = Some hp0) by exact Ep.
    split; [|split; [|split]].
    + apply inv_set_path; [exact Ib| |].
      * apply (inv_path_lt _ _ Ib). rewrite Pb. discriminate.
      * intros lid0 E. simpl in E. injection E as <-. unfold stb. simpl. rewrite upd_same. discriminate.
    + eapply within_trans; [exact Wb|]. apply within_set_path; auto.
      * simpl. right. lia.
      * intros hp1 E. assert (E' : Some hp1 = Some hp0) by (rewrite <- E; exact Pb). injection E' as ->. simpl. auto.
    + reflexivity.
    + exists (st_nl st). repeat split; [simpl; apply upd_same | simpl; apply upd_same | right; lia].
  - split; [|split; [|split]].
    + apply inv_set_path; [exact I| |].
      * apply (inv_path_lt _ _ I). rewrite Ep. discriminate.
      * intros lid0 E. simpl in E. injection E as <-. rewrite El. discriminate.
    + apply within_set_path; auto.
      intros hp1 E. rewrite Ep in E. injection E as <-. simpl. auto.
    + reflexivity.
    + exists lid. repeat split; [simpl; apply upd_same | exact El | now left].
Qed.

(* the shape shared by the walks that only allocate: nothing old is written, the produced ids are old ones of the walked
   list or new ones *)
Definition alloc_only st st' : Prop :=
  st_lists st' = st_lists st /\ st_paths st' = st_paths st /\ st_nl st' = st_nl st /\ st_np st' = st_np st /\
  st_ns st <= st_ns st' /\ (forall id, id < st_ns st -> st_segs st' id = st_segs st id).
Lemma alloc_only_refl st : alloc_only st st.
Proof. unfold alloc_only. repeat split; auto. Qed.
Lemma alloc_only_trans st st1 st2 : alloc_only st st1 -> alloc_only st1 st2 -> alloc_only st st2.
Proof.
  intros (a1 & a2 & a3 & a4 & a5 & a6) (b1 & b2 & b3 & b4 & b5 & b6). unfold alloc_only.
  repeat split; try congruence; try lia. intros id Hlt. rewrite b6 by lia. auto.
Qed.
Lemma alloc_only_segs st l st' ids : alloc_segs st l = (st', ids) -> alloc_only st st'.
Proof.
  intros H. destruct (alloc_segs_spec _ _ _ _ H) as (H1 & H2 & H3 & H4 & H5 & H6 & H7).
  unfold alloc_only. repeat split; auto; try lia. intros id Hlt. rewrite H7. nbool. reflexivity.
Qed.
Lemma alloc_only_vals st st' ids : inv st -> exist st ids -> alloc_only st st' -> get_vals st' ids = get_vals st ids.
Proof.
  intros I X (_ & _ & _ & _ & _ & H). apply get_vals_ext. intros id Hin. apply H. eapply exist_lt; eauto.
Qed.

(* ---------- quadraticsToCubics ---------- *)
Lemma q2c_walk_ok ids : forall st st' ids', inv st -> based st -> okids ids -> exist st ids -> q2c_walk O st ids = Some (st', ids') ->
  inv st' /\ W st st' /\ alloc_only st st' /\ okids ids' /\ exist st' ids' /\
  (forall id, In id ids' -> In id ids \/ st_ns st <= id) /\
  (forall vals, get_vals st ids = Some vals -> get_vals st' ids' = Some (map (q2c_val O) vals)) /\
  (NoDup ids -> NoDup ids').
Proof.
  induction ids as [|i r IH]; intros st st' ids' I B Hok X H; cbn [q2c_walk] in H.
  - injection H as <- <-. destruct B as (A1 & A2 & A3). split; [exact I|]. split; [apply within_refl; auto|].
    split; [apply alloc_only_refl|]. split; [exact Hok|]. split; [exact X|]. split; [intros ? []|]. split; [|auto].
    intros vals Hv. cbn in Hv. injection Hv as <-. reflexivity.
  - destruct (st_segs st i) as [so|] eqn:Es; [|discriminate].
    assert (Xr : exist st r) by (intros id Hin; apply X; now right).
    assert (Okr : okids r) by (intros id Hin; apply Hok; now right).
    assert (Hi : i < st_ns st) by (eapply exist_lt; [exact I|exact X|now left]).
    destruct (seg_q2c O (so_seg so)) as [c|] eqn:Eq.
    + change (alloc_seg st (fresh c)) with (fst (alloc_seg st (fresh c)), st_ns st) in H. cbv beta iota zeta in H.
      pose proof B as (A1 & A2 & A3).
      pose proof (inv_alloc_seg st (fresh c) I) as I1.
      pose proof (within_alloc_seg Sw S0 Lw L0 P0 bs bl bp st (fresh c) A1 A2 A3) as W1.
      set (st1 := fst (alloc_seg st (fresh c))) in *.
      pose proof (based_within _ _ B W1) as B1.
      assert (AO1 : alloc_only st st1).
      { unfold alloc_only, st1. simpl. repeat split; auto. intros id Hlt. apply upd_other. lia. }
      assert (X1 : exist st1 r) by (eapply exist_within; eauto).
      destruct (q2c_walk O st1 r) as [[st2 ids2]|] eqn:E2; [|discriminate]. injection H as <- <-.
      destruct (IH _ _ _ I1 B1 Okr X1 E2) as (I2 & W2 & AO2 & Ok2 & X2 & Pr2 & V2 & ND2).
      split; [exact I2|]. split; [eapply within_trans; eauto|]. split; [eapply alloc_only_trans; eauto|].
      assert (Hnew : st_segs st2 (st_ns st) = Some (fresh c)).
      { destruct AO2 as (_ & _ & _ & _ & _ & F). rewrite F by (unfold st1; simpl; lia). unfold st1. simpl. apply upd_same. }
      repeat split.
      * intros id [<-|Hin]; [right; lia|auto].
      * intros id [<-|Hin]; [rewrite Hnew; discriminate|auto].
      * intros id [<-|Hin]; [right; lia|]. destruct (Pr2 id Hin) as [Hx|Hx]; [left; now right|right]. unfold st1 in Hx. simpl in Hx. lia.
      * intros vals Hv. rewrite get_vals_cons, Es in Hv. destruct (get_vals st r) as [vr|] eqn:Evr; [|discriminate].
        injection Hv as <-. rewrite get_vals_cons, Hnew. rewrite (V2 vr).
        { simpl. unfold q2c_val. now rewrite Eq. }
        rewrite <- Evr. apply alloc_only_vals; auto.
      * intros ND. inversion ND as [|? ? Hni ND']; subst. constructor; [|auto].
        intros Hin. destruct (Pr2 _ Hin) as [Hx|Hx]; [|unfold st1 in Hx; simpl in Hx; lia].
        pose proof (exist_lt _ _ I Xr _ Hx). lia.
    + destruct (q2c_walk O st r) as [[st2 ids2]|] eqn:E2; [|discriminate]. injection H as <- <-.
      destruct (IH _ _ _ I B Okr Xr E2) as (I2 & W2 & AO2 & Ok2 & X2 & Pr2 & V2 & ND2).
      split; [exact I2|]. split; [exact W2|]. split; [exact AO2|].
      assert (Hold : st_segs st2 i = Some so).
      { destruct AO2 as (_ & _ & _ & _ & _ & F). rewrite F by exact Hi. exact Es. }
      repeat split.
      * intros id [<-|Hin]; [apply Hok; now left|auto].
      * intros id [<-|Hin]; [rewrite Hold; discriminate|auto].
      * intros id [<-|Hin]; [left; now left|]. destruct (Pr2 id Hin) as [Hx|Hx]; [left; now right|now right].
      * intros vals Hv. rewrite get_vals_cons, Es in Hv. destruct (get_vals st r) as [vr|] eqn:Evr; [|discriminate].
        injection Hv as <-. rewrite get_vals_cons, Hold, (V2 vr eq_refl). simpl. unfold q2c_val. now rewrite Eq.
      * intros ND. inversion ND as [|? ? Hni ND']; subst. constructor; [|auto].
        intros Hin. destruct (Pr2 _ Hin) as [Hx|Hx]; [contradiction|lia].
Qed.

(* ---------- splitAtPoints: allocation of the pieces ---------- *)
Lemma realize_plan_ok ids : forall plan st st' ids', inv st -> based st -> okids ids -> exist st ids ->
  realize_plan st ids plan = (st', ids') ->
  inv st' /\ W st st' /\ alloc_only st st' /\ okids ids' /\ exist st' ids' /\
  (forall id, In id ids' -> In id ids \/ st_ns st <= id) /\
  (forall vals, get_vals st ids = Some vals -> get_vals st' ids' = Some (plan_values vals plan)) /\
  (NoDup ids -> NoDup ids').
Proof.
  induction ids as [|i r IH]; intros plan st st' ids' I B Hok X H.
  - assert (E : (st', ids') = (st, [])) by (destruct plan as [|[?|?] ?]; simpl in H; congruence). injection E as -> ->.
    destruct B as (A1 & A2 & A3). split; [exact I|]. split; [apply within_refl; auto|]. split; [apply alloc_only_refl|].
    split; [exact Hok|]. split; [exact X|]. split; [intros ? []|]. split; [|auto].
    intros vals Hv. cbn in Hv. injection Hv as <-. destruct plan as [|[?|?] ?]; reflexivity.
  - assert (Xr : exist st r) by (intros id Hin; apply X; now right).
    assert (Okr : okids r) by (intros id Hin; apply Hok; now right).
    assert (Hi : i < st_ns st) by (eapply exist_lt; [exact I|exact X|now left]).
    destruct plan as [|[u|ps] pr]; cbn [realize_plan] in H.
    + injection H as <- <-. destruct B as (A1 & A2 & A3). split; [exact I|]. split; [apply within_refl; auto|].
      split; [apply alloc_only_refl|]. split; [intros ? []|]. split; [intros ? []|]. split; [intros ? []|]. split; [|constructor].
      intros vals Hv. destruct vals; reflexivity.
    + destruct (realize_plan st r pr) as [st1 ids1] eqn:E1. injection H as <- <-.
      destruct (IH _ _ _ _ I B Okr Xr E1) as (I2 & W2 & AO2 & Ok2 & X2 & Pr2 & V2 & ND2).
      split; [exact I2|]. split; [exact W2|]. split; [exact AO2|].
      assert (Hold : st_segs st1 i = st_segs st i) by (destruct AO2 as (_ & _ & _ & _ & _ & F); apply F; exact Hi).
      repeat split.
      * intros id [<-|Hin]; [apply Hok; now left|auto].
      * intros id [<-|Hin]; [rewrite Hold; apply X; now left|auto].
      * intros id [<-|Hin]; [left; now left|]. destruct (Pr2 id Hin) as [Hx|Hx]; [left; now right|now right].
      * intros vals Hv. rewrite get_vals_cons in Hv. destruct (st_segs st i) as [so|] eqn:Es; [|discriminate].
        destruct (get_vals st r) as [vr|] eqn:Evr; [|discriminate]. injection Hv as <-.
        rewrite get_vals_cons, Hold, (V2 vr eq_refl). reflexivity.
      * intros ND. inversion ND as [|? ? Hni ND']; subst. constructor; [|auto].
        intros Hin. destruct (Pr2 _ Hin) as [Hx|Hx]; [contradiction|lia].
    + destruct (alloc_segs st (map fresh ps)) as [st1 nids] eqn:Ea.
      destruct (realize_plan st1 r pr) as [st2 ids2] eqn:E2. injection H as <- <-.
      destruct (alloc_segs_ok _ _ _ _ I B Ea) as (Ia & Wa & Oa & Xa & Na & Fa & La & Pa & NLa & NPa).
      pose proof (based_within _ _ B Wa) as Ba.
      pose proof (alloc_only_segs _ _ _ _ Ea) as AOa.
      assert (X1 : exist st1 r) by (eapply exist_within; eauto).
      destruct (IH _ _ _ _ Ia Ba Okr X1 E2) as (I2 & W2 & AO2 & Ok2 & X2 & Pr2 & V2 & ND2).
      split; [exact I2|]. split; [eapply within_trans; eauto|]. split; [eapply alloc_only_trans; eauto|].
      assert (Hge : st_ns st <= st_ns st1) by (destruct AOa as (_ & _ & _ & _ & F & _); exact F).
      repeat split.
      * apply okids_app; auto.
      * apply exist_app; [eapply exist_within; eauto|exact X2].
      * intros id Hin. apply in_app_or in Hin as [Hin|Hin]; [right; auto|].
        destruct (Pr2 id Hin) as [Hx|Hx]; [left; now right|right; lia].
      * intros vals Hv. rewrite get_vals_cons in Hv. destruct (st_segs st i) as [so|] eqn:Es; [|discriminate].
        destruct (get_vals st r) as [vr|] eqn:Evr; [|discriminate]. injection Hv as <-.
        rewrite get_vals_app. rewrite (V2 vr) by (rewrite <- Evr; apply alloc_only_vals; auto).
        assert (Hn : get_vals st2 nids = Some ps).
        { rewrite (alloc_only_vals st1 st2 nids Ia Xa AO2). unfold get_vals. rewrite (alloc_segs_get _ _ _ _ Ea).
          simpl. rewrite map_map. simpl. now rewrite map_id. }
        rewrite Hn. reflexivity.
      * intros ND. inversion ND as [|? ? Hni ND']; subst.
        apply nodup_app; [exact Na|auto|].
        intros id Hin1 Hin2. pose proof (Fa id Hin1) as G1. destruct (Pr2 id Hin2) as [Hx|Hx].
        -- pose proof (exist_lt _ _ I Xr _ Hx). lia.
        -- destruct (alloc_segs_spec _ _ _ _ Ea) as (S1 & S2 & _). subst nids. apply in_seq in Hin1. lia.
Qed.
(* ---------- flatten ---------- *)
Definition flat_entry (degree : T) (v : segment T) (x : unit + list (segment T)) : Prop :=
  match x with
  | inl _ => is_line v = true
  | inr ls => is_line v = false /\ exists smp, curve_flat O v degree smp = Some ls
  end.
Lemma flatten_walk_ok degree ids : forall samples st st' ids', inv st -> based st -> okids ids -> exist st ids ->
  flatten_walk O st degree ids samples = Some (st', ids') ->
  inv st' /\ W st st' /\ alloc_only st st' /\ okids ids' /\ exist st' ids' /\
  (forall id, In id ids' -> In id ids \/ st_ns st <= id) /\
  (forall vals, get_vals st ids = Some vals ->
     exists plan, Forall2 (flat_entry degree) vals plan /\ get_vals st' ids' = Some (plan_values vals plan)) /\
  (NoDup ids -> NoDup ids').
Proof.
  induction ids as [|i r IH]; intros samples st st' ids' I B Hok X H; cbn [flatten_walk] in H.
  - injection H as <- <-. destruct B as (A1 & A2 & A3). split; [exact I|]. split; [apply within_refl; auto|].
    split; [apply alloc_only_refl|]. split; [exact Hok|]. split; [exact X|]. split; [intros ? []|]. split; [|auto].
    intros vals Hv. cbn in Hv. injection Hv as <-. exists []. split; [constructor|reflexivity].
  - destruct (st_segs st i) as [so|] eqn:Es; [|discriminate].
    assert (Xr : exist st r) by (intros id Hin; apply X; now right).
    assert (Okr : okids r) by (intros id Hin; apply Hok; now right).
    assert (Hi : i < st_ns st) by (eapply exist_lt; [exact I|exact X|now left]).
    destruct (is_line (so_seg so)) eqn:El.
    + destruct (flatten_walk O st degree r (tl samples)) as [[st1 ids1]|] eqn:E1; [|discriminate]. injection H as <- <-.
      destruct (IH _ _ _ _ I B Okr Xr E1) as (I2 & W2 & AO2 & Ok2 & X2 & Pr2 & V2 & ND2).
      split; [exact I2|]. split; [exact W2|]. split; [exact AO2|].
      assert (Hold : st_segs st1 i = st_segs st i) by (destruct AO2 as (_ & _ & _ & _ & _ & F); apply F; exact Hi).
      repeat split.
      * intros id [<-|Hin]; [apply Hok; now left|auto].
      * intros id [<-|Hin]; [rewrite Hold; apply X; now left|auto].
      * intros id [<-|Hin]; [left; now left|]. destruct (Pr2 id Hin) as [Hx|Hx]; [left; now right|now right].
      * intros vals Hv. rewrite get_vals_cons, Es in Hv.
        destruct (get_vals st r) as [vr|] eqn:Evr; [|discriminate]. injection Hv as <-.
        destruct (V2 vr eq_refl) as (plan & HF & HV). exists (inl tt :: plan). split; [constructor; [exact El|exact HF]|].
        rewrite get_vals_cons, Hold, Es, HV. reflexivity.
      * intros ND. inversion ND as [|? ? Hni ND']; subst. constructor; [|auto].
        intros Hin. destruct (Pr2 _ Hin) as [Hx|Hx]; [contradiction|lia].
    + destruct (curve_flat O (so_seg so) degree (hd [] samples)) as [ls|] eqn:Ec; [|discriminate].
      destruct (alloc_segs st (map (fun v => SO v (Some i)) ls)) as [st1 nids] eqn:Ea.
      destruct (flatten_walk O st1 degree r (tl samples)) as [[st2 ids2]|] eqn:E2; [|discriminate]. injection H as <- <-.
      destruct (alloc_segs_ok _ _ _ _ I B Ea) as (Ia & Wa & Oa & Xa & Na & Fa & La & Pa & NLa & NPa).
      pose proof (based_within _ _ B Wa) as Ba.
      pose proof (alloc_only_segs _ _ _ _ Ea) as AOa.
      assert (X1 : exist st1 r) by (eapply exist_within; eauto).
      destruct (IH _ _ _ _ Ia Ba Okr X1 E2) as (I2 & W2 & AO2 & Ok2 & X2 & Pr2 & V2 & ND2).
      split; [exact I2|]. split; [eapply within_trans; eauto|]. split; [eapply alloc_only_trans; eauto|].
      assert (Hge : st_ns st <= st_ns st1) by (destruct AOa as (_ & _ & _ & _ & F & _); exact F).
      repeat split.
      * apply okids_app; auto.
      * apply exist_app; [eapply exist_within; eauto|exact X2].
      * intros id Hin. apply in_app_or in Hin as [Hin|Hin]; [right; auto|].
        destruct (Pr2 id Hin) as [Hx|Hx]; [left; now right|right; lia].
      * intros vals Hv. rewrite get_vals_cons, Es in Hv.
        destruct (get_vals st r) as [vr|] eqn:Evr; [|discriminate]. injection Hv as <-.
        destruct (V2 vr) as (plan & HF & HV); [rewrite <- Evr; apply alloc_only_vals; auto|].
        exists (inr ls :: plan). split; [constructor; [split; [exact El|eauto]|exact HF]|].
        rewrite get_vals_app, HV.
        assert (Hn : get_vals st2 nids = Some ls).
        { rewrite (alloc_only_vals st1 st2 nids Ia Xa AO2). unfold get_vals. rewrite (alloc_segs_get _ _ _ _ Ea).
          simpl. rewrite map_map. simpl. now rewrite map_id. }
        rewrite Hn. reflexivity.
      * intros ND. inversion ND as [|? ? Hni ND']; subst.
        apply nodup_app; [exact Na|auto|].
        intros id Hin1 Hin2. pose proof (Fa id Hin1) as G1. destruct (Pr2 id Hin2) as [Hx|Hx].
        -- pose proof (exist_lt _ _ I Xr _ Hx). lia.
        -- destruct (alloc_segs_spec _ _ _ _ Ea) as (S1 & S2 & _). subst nids. apply in_seq in Hin1. lia.
Qed.

(* ---------- removeIrrelevantSegments ---------- *)
Lemma set_start_start (s : segment T) p : seg_start (seg_set_start s p) = p.
Proof. destruct s as [[? ?]|[? ? ?]|[? ? ? ?]]; reflexivity. Qed.
Lemma set_start_end (s : segment T) p : seg_end (seg_set_start s p) = seg_end s.
Proof. destruct s as [[? ?]|[? ? ?]|[? ? ? ?]]; reflexivity. Qed.

Lemma remove_loop_ok small absl rest : forall st acc st' nids, inv st -> based st -> okw rest -> exist st (rev acc ++ rest) ->
  remove_loop O small absl st acc rest = Some (st', nids) ->
  inv st' /\ W st st' /\ st_lists st' = st_lists st /\ st_paths st' = st_paths st /\
  st_ns st' = st_ns st /\ st_nl st' = st_nl st /\ st_np st' = st_np st /\
  (forall id, ~ In id rest -> st_segs st' id = st_segs st id) /\
  (forall id, In id nids -> In id (rev acc ++ rest)) /\
  (NoDup (rev acc ++ rest) -> acc <> [] ->
     NoDup nids /\
     forall a b vals, get_vals st (rev acc ++ rest) = Some vals -> linked a vals b ->
       exists vals', get_vals st' nids = Some vals' /\ linked a vals' b /\ vals' <> []).
Proof.
  induction rest as [|this r IH]; intros st acc st' nids I B Hok X H; cbn [remove_loop] in H.
  - injection H as <- <-. destruct B as (A1 & A2 & A3). split; [exact I|]. split; [apply within_refl; auto|].
    do 5 (split; [reflexivity|]). split; [auto|]. split; [intros id Hin; now rewrite app_nil_r|].
    intros ND Hne. rewrite app_nil_r in *. split; [exact ND|]. intros a b vals Hv HL. exists vals.
    split; [exact Hv|]. split; [exact HL|].
      intros ->. apply get_vals_length in Hv. simpl in Hv. destruct acc as [|x acc']; [congruence|].
      simpl in Hv. rewrite app_length in Hv. simpl in Hv. lia.
  - destruct acc as [|prev acc']; [discriminate|].
    destruct (st_segs st prev) as [po|] eqn:Ep; [|discriminate]. destruct (st_segs st this) as [to|] eqn:Et; [|discriminate].
    assert (Okr : okw r) by (intros id Hin; apply Hok; now right).
    assert (Eseq : rev (prev :: acc') ++ this :: r = rev acc' ++ prev :: this :: r) by (simpl; now rewrite <- app_assoc).
    destruct (merge_test O small absl (so_seg po) (so_seg to)) eqn:Em.
    + set (vt' := seg_set_start (so_seg to) (seg_start (so_seg po))) in *.
      set (st1 := set_seg st this (SO vt' (so_orig to))) in *.
      assert (Hlt : this < st_ns st) by (apply (inv_seg_lt _ _ I); rewrite Et; discriminate).
      pose proof (inv_set_seg st this (SO vt' (so_orig to)) I Hlt) as I1.
      pose proof B as (A1 & A2 & A3).
      pose proof (within_set_seg Sw S0 Lw L0 P0 bs bl bp st this (SO vt' (so_orig to)) A1 A2 A3 (Hok this (or_introl eq_refl))) as W1.
      pose proof (based_within _ _ B W1) as B1.
      assert (Eseq1 : rev (this :: acc') ++ r = rev acc' ++ this :: r) by (simpl; now rewrite <- app_assoc).
      assert (X1 : exist st1 (rev (this :: acc') ++ r)).
      { rewrite Eseq1. intros id Hin. apply (w_seg_mono _ _ _ _ _ _ _ _ _ _ W1). apply X. rewrite Eseq.
        apply in_app_or in Hin as [Hin|Hin]; apply in_or_app; [now left|right; now right]. }
      destruct (IH _ _ _ _ I1 B1 Okr X1 H) as (I' & W' & L' & P' & N1 & N2 & N3 & F1 & Sub & Ch).
      split; [exact I'|]. split; [eapply within_trans; eauto|]. do 5 (split; [assumption|]). split; [|split].
      * intros id Hn. rewrite F1 by (intros Hx; apply Hn; now right). unfold st1. simpl. apply upd_other. intros ->. apply Hn. now left.
      * intros id Hin. apply Sub in Hin. rewrite Eseq1 in Hin. rewrite Eseq.
        apply in_app_or in Hin as [Hin|Hin]; apply in_or_app; [now left|right; now right].
      * intros H0 Hne. split.
        { rewrite Eseq in H0. apply NoDup_remove_1 in H0. rewrite <- Eseq1 in H0. apply Ch; [exact H0|discriminate]. }
        intros a b vals Hv HL. rewrite Eseq in H0, Hv.
        pose proof (NoDup_remove_1 _ _ _ H0) as ND1.
        rewrite get_vals_app in Hv. destruct (get_vals st (rev acc')) as [V1|] eqn:EV1; [|discriminate].
        rewrite !get_vals_cons, Ep, Et in Hv. destruct (get_vals st r) as [Vr|] eqn:EVr; [|discriminate].
        injection Hv as <-. apply linked_app in HL as (x & HL1 & HL2). simpl in HL2. destruct HL2 as (Hs1 & Hs2 & HL3).
        assert (Hn1 : ~ In this (rev acc')).
        { intros Hin. apply NoDup_remove_2 in ND1. apply ND1. apply in_or_app. now left. }
        assert (Hn2 : ~ In this r).
        { intros Hin. apply NoDup_remove_2 in ND1. apply ND1. apply in_or_app. now right. }
        destruct Ch as [_ Ch]; [rewrite Eseq1; exact ND1|discriminate|].
        apply (Ch a b (V1 ++ vt' :: Vr)).
        -- rewrite Eseq1, get_vals_app. fold st1.
           rewrite (get_vals_ext st st1 (rev acc')) by (intros id Hin; unfold st1; simpl; apply upd_other; intros ->; contradiction).
           rewrite EV1, get_vals_cons. unfold st1 at 1. simpl. rewrite upd_same.
           rewrite (get_vals_ext st st1 r) by (intros id Hin; unfold st1; simpl; apply upd_other; intros ->; contradiction).
           rewrite EVr. reflexivity.
        -- apply linked_app. exists x. split; [exact HL1|]. simpl. unfold vt'. rewrite set_start_start, set_start_end.
           split; [exact Hs1|exact HL3].
    + assert (Eseq2 : rev (this :: prev :: acc') ++ r = rev (prev :: acc') ++ this :: r) by (simpl; now rewrite <- !app_assoc).
      assert (X2 : exist st (rev (this :: prev :: acc') ++ r)) by (rewrite Eseq2; exact X).
      destruct (IH _ _ _ _ I B Okr X2 H) as (I' & W' & L' & P' & N1 & N2 & N3 & F1 & Sub & Ch).
      split; [exact I'|]. split; [exact W'|]. do 5 (split; [assumption|]). split; [|split].
      * intros id Hn. apply F1. intros Hx. apply Hn. now right.
      * intros id Hin. apply Sub in Hin. now rewrite Eseq2 in Hin.
      * intros H0 Hne. split; [apply Ch; [rewrite Eseq2; exact H0|discriminate]|].
        intros a b vals Hv HL. destruct Ch as [_ Ch]; [rewrite Eseq2; exact H0|discriminate|].
        apply (Ch a b vals); [rewrite Eseq2; exact Hv|exact HL].
Qed.
End Routines.

(* ================================================================================================ *)
(* 5. Every operation preserves [inv] and stays within its footprint                                 *)
(* ================================================================================================ *)
Section StepOk.
Context {T : Type} (O : Ops T).
Notation state := (state T).
Implicit Types (st : state) (ids : list nat) (o : op T).

Definition arg o : nat := match o with OAppend _ q => q | _ => receiver o end.
(* operations that assign into existing segment objects / into an existing list object *)
Definition mutates_segs o : bool := match o with ORound _ | OBalance _ | ORemove _ _ _ => true | _ => false end.
Definition mutates_list o : bool := match o with OQ2C _ | OAppend _ _ => true | _ => false end.
Definition fpSw st o : nat -> Prop := fun id => mutates_segs o = true /\ In id (pids st (receiver o)).
Definition fpS st o : nat -> Prop := fun id => In id (pids st (receiver o)) \/ In id (pids st (arg o)).
Definition fpLw st o : nat -> Prop := fun lid => mutates_list o = true /\ plist st (receiver o) = Some lid.
Definition fpL st o : nat -> Prop := fun lid => plist st (receiver o) = Some lid \/ plist st (arg o) = Some lid.
Definition fpP o : nat -> Prop := fun x => x = receiver o \/ x = arg o.

Lemma pids_of st p lid ids : plist st p = Some lid -> st_lists st lid = Some ids -> pids st p = ids.
Proof. unfold pids. intros -> ->. reflexivity. Qed.
Lemma plist_set st p lid cl : plist (set_path st p (HP (HSeg lid) cl)) p = Some lid.
Proof. unfold plist. simpl. now rewrite upd_same. Qed.

Section FP.
Variables (Sw S0 Lw L0 P0 : nat -> Prop).
Lemma as_segments_fp st0 st p st1 cl lid ids :
  inv st -> based (st_ns st0) (st_nl st0) (st_np st0) st -> P0 p -> as_segments O st p = Some (st1, cl, lid, ids) ->
  inv st1 /\ within Sw S0 Lw L0 P0 (st_ns st0) (st_nl st0) (st_np st0) st st1 /\
  st_paths st1 p = Some (HP (HSeg lid) cl) /\ st_lists st1 lid = Some ids /\ exist st1 ids /\
  (exists hp, st_paths st p = Some hp /\ hp_closed hp = cl) /\
  ((forall id, In id (pids st p) -> S0 id \/ st_ns st0 <= id) -> okids S0 (st_ns st0) ids) /\
  ((forall id, In id (pids st p) -> Sw id \/ st_ns st0 <= id) -> okw Sw (st_ns st0) ids) /\
  ((forall l, plist st p = Some l -> L0 l \/ st_nl st0 <= l) -> L0 lid \/ st_nl st0 <= lid) /\
  ((forall l, plist st p = Some l -> Lw l \/ st_nl st0 <= l) -> Lw lid \/ st_nl st0 <= lid) /\
  (st1 = st \/ (NoDup ids /\ plist st p = None /\ st_nl st <= lid /\ forall id, In id ids -> st_ns st <= id)).
Proof.
  intros I B Hp H. destruct (as_segments_ok O Sw S0 Lw L0 P0 _ _ _ st p st1 cl lid ids I B Hp H) as (I1 & W1 & E1 & E2 & E3 & D).
  pose proof B as (B1 & B2 & B3).
  split; [exact I1|]. split; [exact W1|]. split; [exact E1|]. split; [exact E2|].
  split; [intros id Hin; eapply i_list_segs; eauto|]. split; [exact E3|].
  destruct D as [[-> Hpl]|(D1 & D2 & D3 & D4 & D5)].
  - rewrite <- (pids_of _ _ _ _ Hpl E2). repeat split; auto.
  - repeat split.
    + intros _ id Hin. right. specialize (D3 id Hin). lia.
    + intros _ id Hin. right. specialize (D3 id Hin). lia.
    + intros _. right. exact D1.
    + intros _. right. exact D1.
    + right. auto.
Qed.
(* a new list object installed in a new path / in path p *)
Definition new_lp st ids (cl : bool) : state := fst (alloc_path (fst (alloc_list st ids)) (HP (HSeg (st_nl st)) cl)).
Definition new_ls st p ids (cl : bool) : state := set_path (fst (alloc_list st ids)) p (HP (HSeg (st_nl st)) cl).
Variables (bs bl bp : nat).
Notation W := (within Sw S0 Lw L0 P0 bs bl bp).
Lemma new_lp_ok st ids cl : inv st -> based bs bl bp st -> okids S0 bs ids -> exist st ids ->
  inv (new_lp st ids cl) /\ W st (new_lp st ids cl).
Proof.
  intros I B Ok X. pose proof B as (B1 & B2 & B3). unfold new_lp.
  pose proof (inv_alloc_list st ids I X) as Ib.
  pose proof (within_alloc_list Sw S0 Lw L0 P0 bs bl bp st ids B1 B2 B3 Ok) as Wb.
  set (stb := fst (alloc_list st ids)) in *.
  pose proof (based_within _ _ _ _ _ _ _ _ _ _ B Wb) as (Bb1 & Bb2 & Bb3).
  split.
  - apply inv_alloc_path; [exact Ib|]. intros lid E. simpl in E. injection E as <-. unfold stb. simpl. rewrite upd_same. discriminate.
  - eapply within_trans; [exact Wb|]. apply within_alloc_path; auto.
    + simpl. right. lia.
    + apply (i_paths _ Ib).
Qed.
Lemma new_ls_ok st p ids cl hp0 : inv st -> based bs bl bp st -> P0 p -> st_paths st p = Some hp0 -> hp_closed hp0 = cl ->
  okids S0 bs ids -> exist st ids -> inv (new_ls st p ids cl) /\ W st (new_ls st p ids cl).
Proof.
  intros I B Hp Ep Ec Ok X. pose proof B as (B1 & B2 & B3). unfold new_ls.
  pose proof (inv_alloc_list st ids I X) as Ib.
  pose proof (within_alloc_list Sw S0 Lw L0 P0 bs bl bp st ids B1 B2 B3 Ok) as Wb.
  set (stb := fst (alloc_list st ids)) in *.
  pose proof (based_within _ _ _ _ _ _ _ _ _ _ B Wb) as (Bb1 & Bb2 & Bb3).
  assert (Pb : st_paths stb p = Some hp0) by exact Ep.
  split.
  - apply inv_set_path; [exact Ib| |].
    + apply (inv_path_lt _ _ Ib). rewrite Pb. discriminate.
    + intros lid E. simpl in E. injection E as <-. unfold stb. simpl. rewrite upd_same. discriminate.
  - eapply within_trans; [exact Wb|]. apply within_set_path; auto.
    + simpl. right. lia.
    + intros hp1 E. assert (E' : Some hp1 = Some hp0) by (rewrite <- E; exact Pb). injection E' as ->. simpl. auto.
Qed.
End FP.
End StepOk.

Section MoreRoutines.
Context {T : Type} (O : Ops T).
Notation state := (state T).
Implicit Types (st : state) (ids : list nat).

(* what asSegments does to the other paths: nothing *)
Lemma as_segments_other st p st1 cl lid ids : inv st -> as_segments O st p = Some (st1, cl, lid, ids) ->
  (forall x, x <> p -> st_paths st1 x = st_paths st x) /\
  (forall l, l < st_nl st -> st_lists st1 l = st_lists st l) /\
  (forall id, id < st_ns st -> st_segs st1 id = st_segs st id) /\
  (forall x, x <> p -> plist st1 x = plist st x /\ pids st1 x = pids st x) /\
  plist st1 p = Some lid /\ pids st1 p = ids.
Proof.
  intros I H.
  assert (B : based (st_ns st) (st_nl st) (st_np st) st) by (unfold based; lia).
  destruct (as_segments_ok O none none none none (only p) _ _ _ st p st1 cl lid ids I B eq_refl H) as (I1 & W1 & E1 & E2 & E3 & D).
  assert (HP : forall x, x <> p -> st_paths st1 x = st_paths st x).
  { intros x Hx. destruct (Nat.lt_ge_cases x (st_np st)) as [L|L].
    - apply (w_paths _ _ _ _ _ _ _ _ _ _ W1); auto.
    - destruct D as [[-> _]|D]; [reflexivity|].
      rewrite (i_paths _ I x L). destruct (st_paths st1 x) as [hp|] eqn:Ex; [|reflexivity].
      destruct (w_path_prov _ _ _ _ _ _ _ _ _ _ W1 _ _ Ex) as [Hy|[[Hy|Hy] _]].
      + rewrite (i_paths _ I x L) in Hy. discriminate.
      + contradiction.
      + exfalso. unfold as_segments in H. destruct (st_paths st p) as [[[l|nl] c]|]; simpl in H; try discriminate.
        * destruct (st_lists st l); [|discriminate]. injection H as <- _ _ _. rewrite (i_paths _ I x L) in Ex. discriminate.
        * destruct (fromNodelist O c nl); [|discriminate].
          destruct (alloc_segs st (map fresh l)) as [sta nids] eqn:Ea. injection H as <- _ _ _.
          destruct (alloc_segs_spec _ _ _ _ Ea) as (_ & _ & _ & _ & _ & HPa & _).
          simpl in Ex. rewrite upd_other in Ex by exact Hx. rewrite HPa, (i_paths _ I x L) in Ex. discriminate. }
  assert (HL : forall l, l < st_nl st -> st_lists st1 l = st_lists st l).
  { intros l Hl. apply (w_lists _ _ _ _ _ _ _ _ _ _ W1); auto. }
  assert (HS : forall id, id < st_ns st -> st_segs st1 id = st_segs st id).
  { intros id Hl. apply (w_segs _ _ _ _ _ _ _ _ _ _ W1); auto. }
  split; [exact HP|]. split; [exact HL|]. split; [exact HS|]. split.
  - intros x Hx. assert (Epl : plist st1 x = plist st x) by (unfold plist; now rewrite HP).
    split; [exact Epl|]. unfold pids. rewrite Epl. destruct (plist st x) as [l|] eqn:Ex; [|reflexivity].
    rewrite HL; [reflexivity|]. apply (inv_list_lt _ _ I). unfold plist in Ex.
    destruct (st_paths st x) as [hp|] eqn:Ey; [|discriminate]. destruct (hp_rep hp) eqn:Er; [|discriminate]. injection Ex as <-.
    eapply i_path_list; eauto.
  - assert (Epl : plist st1 p = Some lid) by (unfold plist; now rewrite E1). split; [exact Epl|]. unfold pids. now rewrite Epl, E2.
Qed.

Variables (Sw S0 Lw L0 P0 : nat -> Prop) (bs bl bp : nat).
Lemma as_nodelist_ok st p st1 cl nl : inv st -> based bs bl bp st -> P0 p -> as_nodelist st p = Some (st1, cl, nl) ->
  inv st1 /\ within Sw S0 Lw L0 P0 bs bl bp st st1 /\ st_paths st1 p = Some (HP (HNode nl) cl) /\
  (exists hp, st_paths st p = Some hp /\ hp_closed hp = cl).
Proof.
  intros I B Hp H. pose proof B as (B1 & B2 & B3). unfold as_nodelist in H.
  destruct (st_paths st p) as [[rep c]|] eqn:Ep; [|discriminate]. simpl in H. destruct rep as [l|nl0].
  - destruct (st_lists st l) as [ids|]; [|discriminate]. destruct (get_vals st ids) as [vals|]; [|discriminate].
    destruct (toNodelist vals) as [nl1|]; [|discriminate]. injection H as <- <- <-.
    split; [|split; [|split]].
    + apply inv_set_path; [exact I| |].
      * apply (inv_path_lt _ _ I). rewrite Ep. discriminate.
      * intros lid0 E. discriminate.
    + apply within_set_path; auto; simpl; try exact Logic.I. intros hp0 E. rewrite Ep in E. injection E as <-. reflexivity.
    + simpl. apply upd_same.
    + eexists; split; reflexivity.
  - injection H as <- <- <-. split; [exact I|]. split; [apply within_refl; auto|]. split; [exact Ep|].
    eexists; split; reflexivity.
Qed.
End MoreRoutines.

Section StepOkGen.
Context {T : Type} (O : Ops T).
Notation state := (state T).
Implicit Types (st : state) (ids : list nat) (o : op T).
Variables (Sw S0 Lw L0 P0 : nat -> Prop).

Definition fp_ok st o : Prop :=
  P0 (receiver o) /\ P0 (arg o) /\
  (forall id, In id (pids st (receiver o)) -> S0 id) /\ (forall id, In id (pids st (arg o)) -> S0 id) /\
  (forall l, plist st (receiver o) = Some l -> L0 l) /\ (forall l, plist st (arg o) = Some l -> L0 l) /\
  (mutates_segs o = true -> forall id, In id (pids st (receiver o)) -> Sw id) /\
  (mutates_list o = true -> forall l, plist st (receiver o) = Some l -> Lw l).

Ltac prefix I B HPp p Ea :=
  match goal with |- context [as_segments O ?st p] =>
    destruct (as_segments O st p) as [[[[?st1 ?cl] ?lid] ?ids]|] eqn:Ea;
    [|cbn [fst]; split; [first [exact I | assumption] | first [assumption | apply within_refl; lia]]]
  end.

Theorem step_ok_gen st o : inv st -> fp_ok st o ->
  inv (fst (step O st o)) /\ within Sw S0 Lw L0 P0 (st_ns st) (st_nl st) (st_np st) st (fst (step O st o)).
Proof.
  intros I (HPp & HPq & HSp & HSq & HLp & HLq & HSw & HLw).
  assert (B : based (st_ns st) (st_nl st) (st_np st) st) by (unfold based; lia).
  assert (HSp' : forall id, In id (pids st (receiver o)) -> S0 id \/ st_ns st <= id) by (intros; left; auto).
  assert (HLp' : forall l, plist st (receiver o) = Some l -> L0 l \/ st_nl st <= l) by (intros; left; auto).
  destruct o; cbn [receiver arg mutates_segs mutates_list] in *; cbn [step].
  (* translate rotate scale reverse *)
  1-4: (prefix I B HPp p Ea;
        destruct (as_segments_fp O Sw S0 Lw L0 P0 st st p st1 cl lid ids I B HPp Ea) as (I1 & W1 & Ep1 & El1 & X1 & Ec & Ok & Okw & Ol & Olw & D);
        pose proof (based_within _ _ _ _ _ _ _ _ _ _ B W1) as B1;
        destruct (get_vals st1 ids) as [vals|]; [|cbn [fst]; split; [exact I1|exact W1]]; cbn [fst];
        match goal with |- inv (install_fresh _ _ _ ?v) /\ _ =>
          destruct (install_fresh_ok Sw S0 Lw L0 P0 _ _ _ st1 p cl v _ I1 B1 HPp Ep1 eq_refl) as (I2 & W2 & _) end;
        split; [exact I2|eapply within_trans; eauto]).
  - (* addExtremes *)
    prefix I B HPp p Ea.
    destruct (as_segments_fp O Sw S0 Lw L0 P0 st st p st1 cl lid ids I B HPp Ea) as (I1 & W1 & Ep1 & El1 & X1 & Ec & Ok & Okw & Ol & Olw & D).
    pose proof (based_within _ _ _ _ _ _ _ _ _ _ B W1) as B1.
    destruct (get_vals st1 ids) as [vals|]; [|cbn [fst]; split; [exact I1|exact W1]].
    unfold do_split. destruct (split_walk O _ vals) as [plan|]; [|cbn [fst]; split; [exact I1|exact W1]].
    destruct (realize_plan st1 ids plan) as [st2 nids] eqn:Er.
    destruct (realize_plan_ok Sw S0 Lw L0 P0 _ _ _ ids plan st1 st2 nids I1 B1 (Ok HSp') X1 Er) as (I2 & W2 & AO2 & Ok2 & X2 & _).
    pose proof (based_within _ _ _ _ _ _ _ _ _ _ B1 W2) as B2.
    assert (Ep2 : st_paths st2 p = Some (HP (HSeg lid) cl)) by (destruct AO2 as (_ & AP & _); rewrite AP; exact Ep1).
    destruct (new_ls_ok Sw S0 Lw L0 P0 _ _ _ st2 p nids cl _ I2 B2 HPp Ep2 eq_refl Ok2 X2) as (I3 & W3).
    split; [exact I3|]. eapply within_trans; [exact W1|]. eapply within_trans; [exact W2|exact W3].
  - (* splitAtPoints *)
    prefix I B HPp p Ea.
    destruct (as_segments_fp O Sw S0 Lw L0 P0 st st p st1 cl lid ids I B HPp Ea) as (I1 & W1 & Ep1 & El1 & X1 & Ec & Ok & Okw & Ol & Olw & D).
    pose proof (based_within _ _ _ _ _ _ _ _ _ _ B W1) as B1.
    destruct (get_vals st1 ids) as [vals|]; [|cbn [fst]; split; [exact I1|exact W1]].
    destruct (resolve_cuts vals cuts) as [sl|]; [|cbn [fst]; split; [exact I1|exact W1]].
    unfold do_split. destruct (split_walk O _ vals) as [plan|]; [|cbn [fst]; split; [exact I1|exact W1]].
    destruct (realize_plan st1 ids plan) as [st2 nids] eqn:Er.
    destruct (realize_plan_ok Sw S0 Lw L0 P0 _ _ _ ids plan st1 st2 nids I1 B1 (Ok HSp') X1 Er) as (I2 & W2 & AO2 & Ok2 & X2 & _).
    pose proof (based_within _ _ _ _ _ _ _ _ _ _ B1 W2) as B2.
    assert (Ep2 : st_paths st2 p = Some (HP (HSeg lid) cl)) by (destruct AO2 as (_ & AP & _); rewrite AP; exact Ep1).
    destruct (new_ls_ok Sw S0 Lw L0 P0 _ _ _ st2 p nids cl _ I2 B2 HPp Ep2 eq_refl Ok2 X2) as (I3 & W3).
    split; [exact I3|]. eapply within_trans; [exact W1|]. eapply within_trans; [exact W2|exact W3].
  - (* balance *)
    prefix I B HPp p Ea.
    destruct (as_segments_fp O Sw S0 Lw L0 P0 st st p st1 cl lid ids I B HPp Ea) as (I1 & W1 & Ep1 & El1 & X1 & Ec & Ok & Okw & Ol & Olw & D).
    pose proof (based_within _ _ _ _ _ _ _ _ _ _ B W1) as B1.
    destruct (mutate_all (seg_balanced O) st1 ids) as [st2|] eqn:Em; [|cbn [fst]; split; [exact I1|exact W1]].
    assert (Hw : okw Sw (st_ns st) ids) by (apply Okw; intros id Hin; left; apply HSw; auto).
    destruct (mutate_all_ok Sw S0 Lw L0 P0 _ _ _ _ ids st1 st2 I1 B1 Hw Em) as (I2 & W2 & ML & MP & _).
    pose proof (based_within _ _ _ _ _ _ _ _ _ _ B1 W2) as B2.
    assert (Ep2 : st_paths st2 p = Some (HP (HSeg lid) cl)) by (rewrite MP; exact Ep1).
    assert (El2 : st_lists st2 lid = Some ids) by (rewrite ML; exact El1).
    destruct (wrap_ok Sw S0 Lw L0 P0 _ _ _ st2 p cl lid ids _ I2 B2 HPp Ep2 eq_refl (Ol HLp') El2) as (I3 & W3 & _).
    split; [exact I3|]. eapply within_trans; [exact W1|]. eapply within_trans; [exact W2|exact W3].
  - (* round *)
    prefix I B HPp p Ea.
    destruct (as_segments_fp O Sw S0 Lw L0 P0 st st p st1 cl lid ids I B HPp Ea) as (I1 & W1 & Ep1 & El1 & X1 & Ec & Ok & Okw & Ol & Olw & D).
    pose proof (based_within _ _ _ _ _ _ _ _ _ _ B W1) as B1.
    destruct (mutate_all (seg_rounded O) st1 ids) as [st2|] eqn:Em; [|cbn [fst]; split; [exact I1|exact W1]].
    assert (Hw : okw Sw (st_ns st) ids) by (apply Okw; intros id Hin; left; apply HSw; auto).
    destruct (mutate_all_ok Sw S0 Lw L0 P0 _ _ _ _ ids st1 st2 I1 B1 Hw Em) as (I2 & W2 & ML & MP & _).
    pose proof (based_within _ _ _ _ _ _ _ _ _ _ B1 W2) as B2.
    assert (Ep2 : st_paths st2 p = Some (HP (HSeg lid) cl)) by (rewrite MP; exact Ep1).
    assert (El2 : st_lists st2 lid = Some ids) by (rewrite ML; exact El1).
    destruct (wrap_ok Sw S0 Lw L0 P0 _ _ _ st2 p cl lid ids _ I2 B2 HPp Ep2 eq_refl (Ol HLp') El2) as (I3 & W3 & _).
    split; [exact I3|]. eapply within_trans; [exact W1|]. eapply within_trans; [exact W2|exact W3].
  - (* quadraticsToCubics *)
    prefix I B HPp p Ea.
    destruct (as_segments_fp O Sw S0 Lw L0 P0 st st p st1 cl lid ids I B HPp Ea) as (I1 & W1 & Ep1 & El1 & X1 & Ec & Ok & Okw & Ol & Olw & D).
    pose proof (based_within _ _ _ _ _ _ _ _ _ _ B W1) as B1.
    destruct (q2c_walk O st1 ids) as [[st2 nids]|] eqn:Eq; [|cbn [fst]; split; [exact I1|exact W1]].
    destruct (q2c_walk_ok O Sw S0 Lw L0 P0 _ _ _ ids st1 st2 nids I1 B1 (Ok HSp') X1 Eq) as (I2 & W2 & AO2 & Ok2 & X2 & _).
    pose proof (based_within _ _ _ _ _ _ _ _ _ _ B1 W2) as (B21 & B22 & B23).
    assert (Hlw : Lw lid \/ st_nl st <= lid) by (apply Olw; intros l Hl; left; apply HLw; auto).
    cbn [fst]. split.
    + apply inv_set_list; [exact I2| |exact X2].
      apply (inv_list_lt _ _ I2). destruct AO2 as (AL & _). rewrite AL, El1. discriminate.
    + eapply within_trans; [exact W1|]. eapply within_trans; [exact W2|]. apply within_set_list; auto.
  - (* removeIrrelevantSegments *)
    prefix I B HPp p Ea.
    destruct (as_segments_fp O Sw S0 Lw L0 P0 st st p st1 cl lid ids I B HPp Ea) as (I1 & W1 & Ep1 & El1 & X1 & Ec & Ok & Okw & Ol & Olw & D).
    pose proof (based_within _ _ _ _ _ _ _ _ _ _ B W1) as B1.
    destruct ids as [|first rest]; [cbn [fst]; split; [exact I1|exact W1]|].
    destruct (get_vals st1 (first :: rest)) as [vals|]; [|cbn [fst]; split; [exact I1|exact W1]].
    destruct (remove_loop O _ absLength st1 [first] rest) as [[st2 nids]|] eqn:Er; [|cbn [fst]; split; [exact I1|exact W1]].
    assert (Hw : okw Sw (st_ns st) (first :: rest)) by (apply Okw; intros id Hin; left; apply HSw; auto).
    destruct (remove_loop_ok O Sw S0 Lw L0 P0 _ _ _ _ absLength rest st1 [first] st2 nids I1 B1
                (fun id Hin => Hw id (or_intror Hin)) X1 Er) as (I2 & W2 & ML & MP & N1 & N2 & N3 & F & Sub & _).
    pose proof (based_within _ _ _ _ _ _ _ _ _ _ B1 W2) as B2.
    assert (Ep2 : st_paths st2 p = Some (HP (HSeg lid) cl)) by (rewrite MP; exact Ep1).
    assert (Ok2 : okids S0 (st_ns st) nids) by (intros id Hin; apply (Ok HSp'); exact (Sub id Hin)).
    assert (X2 : exist st2 nids) by (intros id Hin; apply (w_seg_mono _ _ _ _ _ _ _ _ _ _ W2); apply X1; exact (Sub id Hin)).
    destruct (new_ls_ok Sw S0 Lw L0 P0 _ _ _ st2 p nids cl _ I2 B2 HPp Ep2 eq_refl Ok2 X2) as (I3 & W3).
    split; [exact I3|]. eapply within_trans; [exact W1|]. eapply within_trans; [exact W2|exact W3].
  - (* flatten *)
    prefix I B HPp p Ea.
    destruct (as_segments_fp O Sw S0 Lw L0 P0 st st p st1 cl lid ids I B HPp Ea) as (I1 & W1 & Ep1 & El1 & X1 & Ec & Ok & Okw & Ol & Olw & D).
    pose proof (based_within _ _ _ _ _ _ _ _ _ _ B W1) as B1.
    destruct (flatten_walk O st1 degree ids samples) as [[st2 nids]|] eqn:Ef; [|cbn [fst]; split; [exact I1|exact W1]].
    destruct (flatten_walk_ok O Sw S0 Lw L0 P0 _ _ _ degree ids samples st1 st2 nids I1 B1 (Ok HSp') X1 Ef) as (I2 & W2 & AO2 & Ok2 & X2 & _).
    pose proof (based_within _ _ _ _ _ _ _ _ _ _ B1 W2) as B2.
    destruct (new_lp_ok Sw S0 Lw L0 P0 _ _ _ st2 nids cl I2 B2 Ok2 X2) as (I3 & W3).
    split; [exact I3|]. eapply within_trans; [exact W1|]. eapply within_trans; [exact W2|exact W3].
  - (* append *)
    prefix I B HPp p Ea.
    destruct (as_segments_fp O Sw S0 Lw L0 P0 st st p st1 cl lid ids I B HPp Ea) as (I1 & W1 & Ep1 & El1 & X1 & Ec & Ok & Okw & Ol & Olw & D).
    pose proof (based_within _ _ _ _ _ _ _ _ _ _ B W1) as B1.
    destruct (as_segments_other O st p st1 cl lid ids I Ea) as (OP1 & OL1 & OS1 & OX1 & OPL1 & OPI1).
    destruct (as_segments O st1 q) as [[[[st2 cl0] lid0] ids0]|] eqn:Ea2; [|cbn [fst]; split; [exact I1|exact W1]].
    destruct (as_segments_fp O Sw S0 Lw L0 P0 st st1 q st2 cl0 lid0 ids0 I1 B1 HPq Ea2) as (I2 & W2 & Ep2 & El2 & X2 & Ec2 & Ok2 & Okw2 & Ol2 & Olw2 & D2).
    pose proof (based_within _ _ _ _ _ _ _ _ _ _ B1 W2) as B2. pose proof B2 as (B21 & B22 & B23).
    destruct (as_segments_other O st1 q st2 cl0 lid0 ids0 I1 Ea2) as (OP2 & OL2 & OS2 & OX2 & OPL2 & OPI2).
    assert (Hq1 : forall id, In id (pids st1 q) -> S0 id \/ st_ns st <= id).
    { destruct (Nat.eq_dec q p) as [->|Nq]; [rewrite OPI1; exact (Ok HSp')|].
      destruct (OX1 q Nq) as [_ ->]. intros id Hin. left. auto. }
    assert (Hq2 : forall l, plist st1 q = Some l -> L0 l \/ st_nl st <= l).
    { destruct (Nat.eq_dec q p) as [->|Nq]; [rewrite OPL1; intros l E; injection E as <-; exact (Ol HLp')|].
      destruct (OX1 q Nq) as [-> _]. intros l E. left. auto. }
    specialize (Ok2 Hq1). specialize (Ol2 Hq2). specialize (Ok HSp'). specialize (Ol HLp').
    assert (Hlw : Lw lid \/ st_nl st <= lid) by (apply Olw; intros l Hl; left; apply HLw; auto).
    assert (Hlt1 : lid < st_nl st2).
    { apply (inv_list_lt _ _ I2). rewrite OL2; [rewrite El1; discriminate|]. apply (inv_list_lt _ _ I1). rewrite El1. discriminate. }
    assert (El1' : st_lists st2 lid = Some ids).
    { rewrite OL2; [exact El1|]. apply (inv_list_lt _ _ I1). rewrite El1. discriminate. }
    assert (X1' : exist st2 ids) by (eapply exist_within; eauto).
    destruct (w_closed _ _ _ _ _ _ _ _ _ _ W2 _ _ Ep1) as (hp2 & Ehp2 & Ecl2). simpl in Ecl2.
    assert (Wset : forall stx lx, based (st_ns st) (st_nl st) (st_np st) stx -> st_paths stx p = Some hp2 ->
              (L0 lx \/ st_nl st <= lx) ->
              within Sw S0 Lw L0 P0 (st_ns st) (st_nl st) (st_np st) stx (set_path stx p (HP (HSeg lx) cl))).
    { intros stx lx (Bx1 & Bx2 & Bx3) Epx Hlx. apply within_set_path; auto.
      intros hp0 E. rewrite Epx in E. injection E as <-. simpl. auto. }
    destruct (rev ids) as [|last1 rids1] eqn:Erev.
    { (* len(segs1) < 1 *)
      destruct (wrap_ok Sw S0 Lw L0 P0 _ _ _ st2 p cl lid0 ids0 _ I2 B2 HPp Ehp2 Ecl2 Ol2 El2) as (I3 & W3 & _).
      split; [exact I3|]. eapply within_trans; [exact W1|]. eapply within_trans; [exact W2|exact W3]. }
    destruct ids0 as [|first2 r2] eqn:Eids0.
    { destruct (wrap_ok Sw S0 Lw L0 P0 _ _ _ st2 p cl lid ids _ I2 B2 HPp Ehp2 Ecl2 Ol El1') as (I3 & W3 & _).
      split; [exact I3|]. eapply within_trans; [exact W1|]. eapply within_trans; [exact W2|exact W3]. }
    rewrite <- Eids0 in *.
    destruct (st_segs st2 last1) as [l1|]; [|cbn [fst]; split; [exact I2|eapply within_trans; eauto]].
    destruct (st_segs st2 first2) as [f2|]; [|cbn [fst]; split; [exact I2|eapply within_trans; eauto]].
    destruct (st_segs st2 (last ids0 first2)) as [l2|]; [|cbn [fst]; split; [exact I2|eapply within_trans; eauto]].
    destruct (get_vals st2 ids0) as [vals2|]; [|cbn [fst]; split; [exact I2|eapply within_trans; eauto]].
    assert (W12 : within Sw S0 Lw L0 P0 (st_ns st) (st_nl st) (st_np st) st st2) by (eapply within_trans; eauto).
    (* a tactic-free helper: installing a list content in lid and rebinding p *)
    assert (Fin : forall stx nids, inv stx -> within Sw S0 Lw L0 P0 (st_ns st) (st_nl st) (st_np st) st2 stx ->
              st_paths stx p = Some hp2 -> st_lists stx lid <> None -> okids S0 (st_ns st) nids -> exist stx nids ->
              inv (set_path (set_list stx lid nids) p (HP (HSeg lid) cl)) /\
              within Sw S0 Lw L0 P0 (st_ns st) (st_nl st) (st_np st) st (set_path (set_list stx lid nids) p (HP (HSeg lid) cl))).
    { intros stx nids Ix Wx Epx Elx Okx Xx.
      pose proof (based_within _ _ _ _ _ _ _ _ _ _ B2 Wx) as Bx. pose proof Bx as (Bx1 & Bx2 & Bx3).
      assert (Iy : inv (set_list stx lid nids)) by (apply inv_set_list; [exact Ix|apply (inv_list_lt _ _ Ix); exact Elx|exact Xx]).
      assert (Wy : within Sw S0 Lw L0 P0 (st_ns st) (st_nl st) (st_np st) stx (set_list stx lid nids)) by (apply within_set_list; auto).
      split.
      - apply inv_set_path; [exact Iy| |].
        + apply (inv_path_lt _ _ Iy). simpl. rewrite Epx. discriminate.
        + intros l E. simpl in E. injection E as <-. simpl. rewrite upd_same. discriminate.
      - eapply within_trans; [exact W12|]. eapply within_trans; [exact Wx|]. eapply within_trans; [exact Wy|].
        apply Wset; [eapply based_within; eauto|exact Epx|exact Ol]. }
    match goal with |- context [if ?c then _ else _] => destruct c end.
    + (* reversed copies *)
      destruct (alloc_segs st2 (map fresh (rev (map (seg_reversed O) vals2)))) as [st3 rids] eqn:Ea3.
      destruct (alloc_segs_ok Sw S0 Lw L0 P0 _ _ _ _ _ _ _ I2 B2 Ea3) as (I3 & W3 & Ok3 & X3 & _ & _ & L3 & P3 & _).
      pose proof (based_within _ _ _ _ _ _ _ _ _ _ B2 W3) as B3. pose proof B3 as (B31 & B32 & B33).
      match goal with |- context [if ?c then _ else _] => destruct c end.
      * set (so := fresh (SLine _)).
        change (alloc_seg st3 so) with (fst (alloc_seg st3 so), st_ns st3). cbv beta iota zeta. cbn [fst].
        pose proof (inv_alloc_seg st3 so I3) as I4.
        pose proof (within_alloc_seg Sw S0 Lw L0 P0 _ _ _ st3 so B31 B32 B33) as W4.
        set (st4 := fst (alloc_seg st3 so)) in *.
        apply Fin.
        -- exact I4.
        -- eapply within_trans; eauto.
        -- unfold st4. simpl. rewrite P3. exact Ehp2.
        -- unfold st4. simpl. rewrite L3, El1'. discriminate.
        -- apply okids_app; [exact Ok|]. apply okids_app; [|exact Ok3]. intros id [<-|[]]. right. lia.
        -- apply exist_app; [eapply exist_within; [exact W4|]; eapply exist_within; eauto|].
           apply exist_app; [|eapply exist_within; eauto]. intros id [<-|[]]. unfold st4. simpl. rewrite upd_same. discriminate.
      * cbn [fst]. apply Fin.
        -- exact I3.
        -- exact W3.
        -- rewrite P3. exact Ehp2.
        -- rewrite L3, El1'. discriminate.
        -- apply okids_app; [exact Ok|exact Ok3].
        -- apply exist_app; [eapply exist_within; eauto|exact X3].
    + match goal with |- context [if ?c then _ else _] => destruct c end.
      * set (so := fresh (SLine _)).
        change (alloc_seg st2 so) with (fst (alloc_seg st2 so), st_ns st2). cbv beta iota zeta.
        pose proof (inv_alloc_seg st2 so I2) as I3.
        pose proof (within_alloc_seg Sw S0 Lw L0 P0 _ _ _ st2 so B21 B22 B23) as W3.
        set (st3 := fst (alloc_seg st2 so)) in *.
        pose proof (based_within _ _ _ _ _ _ _ _ _ _ B2 W3) as B3. pose proof B3 as (B31 & B32 & B33).
        assert (Okj : okids S0 (st_ns st) (ids ++ [st_ns st2])).
        { apply okids_app; [exact Ok|]. intros id [<-|[]]. right. lia. }
        assert (Xj : exist st3 (ids ++ [st_ns st2])).
        { apply exist_app; [eapply exist_within; eauto|]. intros id [<-|[]]. unfold st3. simpl. rewrite upd_same. discriminate. }
        assert (I4 : inv (set_list st3 lid (ids ++ [st_ns st2]))).
        { apply inv_set_list; [exact I3|exact Hlt1|exact Xj]. }
        assert (W4 : within Sw S0 Lw L0 P0 (st_ns st) (st_nl st) (st_np st) st3 (set_list st3 lid (ids ++ [st_ns st2]))).
        { apply within_set_list; auto. }
        set (st4 := set_list st3 lid (ids ++ [st_ns st2])) in *.
        destruct (st_lists st4 lid0) as [cur2|] eqn:Ecur; [|cbn [fst]; split; [exact I4|eapply within_trans; [exact W12|]; eapply within_trans; eauto]].
        cbn [fst].
        assert (Hcur : okids S0 (st_ns st) cur2 /\ exist st4 cur2).
        { unfold st4 in Ecur. simpl in Ecur. unfold upd in Ecur. destruct (Nat.eqb lid0 lid).
          - injection Ecur as <-. split; [exact Okj|exact Xj].
          - assert (cur2 = ids0) by congruence. subst cur2. split; [exact Ok2|]. eapply exist_within; [eapply within_trans; [exact W3|exact W4]|exact X2]. }
        destruct Hcur as [Okc Xc].
        apply Fin.
        -- exact I4.
        -- eapply within_trans; eauto.
        -- exact Ehp2.
        -- unfold st4. simpl. rewrite upd_same. discriminate.
        -- apply okids_app; [exact Ok|]. apply okids_app; [|exact Okc]. intros id [<-|[]]. right. lia.
        -- apply exist_app; [eapply exist_within; [eapply within_trans; [exact W3|exact W4]|exact X1']|].
           apply exist_app; [|exact Xc]. intros id [<-|[]]. unfold st4, st3. simpl. rewrite upd_same. discriminate.
      * cbn [fst]. apply Fin.
        -- exact I2.
        -- apply within_refl; lia.
        -- exact Ehp2.
        -- rewrite El1'. discriminate.
        -- apply okids_app; [exact Ok|exact Ok2].
        -- apply exist_app; [exact X1'|exact X2].
  - (* clone *)
    prefix I B HPp p Ea.
    destruct (as_segments_fp O Sw S0 Lw L0 P0 st st p st1 cl lid ids I B HPp Ea) as (I1 & W1 & Ep1 & El1 & X1 & Ec & Ok & Okw & Ol & Olw & D).
    pose proof (based_within _ _ _ _ _ _ _ _ _ _ B W1) as B1.
    destruct (get_vals st1 ids) as [vals|]; [|cbn [fst]; split; [exact I1|exact W1]].
    destruct (alloc_segs st1 (map fresh (map (seg_clone O) vals))) as [st2 nids] eqn:Ea2.
    destruct (alloc_segs_ok Sw S0 Lw L0 P0 _ _ _ _ _ _ _ I1 B1 Ea2) as (I2 & W2 & Ok2 & X2 & _).
    pose proof (based_within _ _ _ _ _ _ _ _ _ _ B1 W2) as B2.
    destruct (new_lp_ok Sw S0 Lw L0 P0 _ _ _ st2 nids cl I2 B2 Ok2 X2) as (I3 & W3).
    split; [exact I3|]. eapply within_trans; [exact W1|]. eapply within_trans; [exact W2|exact W3].
  - (* asNodelist *)
    destruct (as_nodelist st p) as [[[st1 cl] nl]|] eqn:Ea; [|cbn [fst]; split; [exact I|apply within_refl; lia]].
    destruct (as_nodelist_ok Sw S0 Lw L0 P0 _ _ _ st p st1 cl nl I B HPp Ea) as (I1 & W1 & _).
    cbn [fst]. split; [exact I1|exact W1].
  - (* asSegments *)
    prefix I B HPp p Ea.
    destruct (as_segments_fp O Sw S0 Lw L0 P0 st st p st1 cl lid ids I B HPp Ea) as (I1 & W1 & _).
    cbn [fst]. split; [exact I1|exact W1].
  - (* fromSegments *)
    prefix I B HPp p Ea.
    destruct (as_segments_fp O Sw S0 Lw L0 P0 st st p st1 cl lid ids I B HPp Ea) as (I1 & W1 & Ep1 & El1 & X1 & Ec & Ok & Okw & Ol & Olw & D).
    pose proof (based_within _ _ _ _ _ _ _ _ _ _ B W1) as B1. pose proof B1 as (B11 & B12 & B13).
    destruct ids as [|i0 r0].
    + assert (X0 : exist st1 []) by (intros ? []).
      assert (O0 : okids S0 (st_ns st) []) by (intros ? []).
      destruct (new_lp_ok Sw S0 Lw L0 P0 _ _ _ st1 [] true I1 B1 O0 X0) as (I3 & W3).
      split; [exact I3|]. eapply within_trans; [exact W1|exact W3].
    + cbn [fst]. split.
      * apply inv_alloc_path; [exact I1|]. intros l E. simpl in E. injection E as <-. rewrite El1. discriminate.
      * eapply within_trans; [exact W1|]. apply within_alloc_path; auto.
        -- simpl. exact (Ol HLp').
        -- apply (i_paths _ I1).
  - (* fromNodelist *)
    destruct (as_nodelist st p) as [[[st1 cl] nl]|] eqn:Ea; [|cbn [fst]; split; [exact I|apply within_refl; lia]].
    destruct (as_nodelist_ok Sw S0 Lw L0 P0 _ _ _ st p st1 cl nl I B HPp Ea) as (I1 & W1 & _).
    pose proof (based_within _ _ _ _ _ _ _ _ _ _ B W1) as B1.
    destruct (fromNodelist O cl nl) as [vals|]; [|cbn [fst]; split; [exact I1|exact W1]].
    destruct (alloc_segs st1 (map fresh vals)) as [st2 nids] eqn:Ea2.
    destruct (alloc_segs_ok Sw S0 Lw L0 P0 _ _ _ _ _ _ _ I1 B1 Ea2) as (I2 & W2 & Ok2 & X2 & _).
    pose proof (based_within _ _ _ _ _ _ _ _ _ _ B1 W2) as B2.
    destruct (new_lp_ok Sw S0 Lw L0 P0 _ _ _ st2 nids cl I2 B2 Ok2 X2) as (I3 & W3).
    split; [exact I3|]. eapply within_trans; [exact W1|]. eapply within_trans; [exact W2|exact W3].
Qed.
End StepOkGen.

(* ================================================================================================ *)
(* 6. What each operation does to the VALUE of its receiver (and of the path it creates)             *)
(* ================================================================================================ *)
Section StepView.
Context {T : Type} (O : Ops T).
Notation state := (state T).
Implicit Types (st : state) (ids : list nat) (o : op T).
Definition all : nat -> Prop := fun _ => True.
Notation WA st0 := (within all all all all all (st_ns st0) (st_nl st0) (st_np st0)).

Lemma okids_all bs ids : okids all bs ids.
Proof. intros id _. left. exact Logic.I. Qed.
Lemma okw_all bs ids : okw all bs ids.
Proof. intros id _. left. exact Logic.I. Qed.
Lemma based_self st : based (st_ns st) (st_nl st) (st_np st) st.
Proof. unfold based. lia. Qed.

Lemma view_of st p lid ids vals cl : st_paths st p = Some (HP (HSeg lid) cl) -> st_lists st lid = Some ids ->
  get_vals st ids = Some vals -> view O st p = Some (vals, cl) /\ pids st p = ids.
Proof.
  intros E1 E2 E3. unfold view, pids, plist. rewrite E1. simpl. rewrite E2, E3. auto.
Qed.

(* asSegments does not change the value of any path *)
Lemma as_segments_vals st p st1 cl lid ids : inv st -> as_segments O st p = Some (st1, cl, lid, ids) ->
  (exists vals, get_vals st1 ids = Some vals /\ view O st p = Some (vals, cl)) /\ (forall x, view O st1 x = view O st x) /\
  (st1 = st \/ NoDup ids).
Proof.
  intros I H. pose proof (as_segments_other O st p st1 cl lid ids I H) as (OP & OL & OS & OX & OPL & OPI).
  assert (Hv : exists vals, get_vals st1 ids = Some vals /\ view O st p = Some (vals, cl) /\ (st1 = st \/ NoDup ids)).
  { unfold as_segments in H. destruct (st_paths st p) as [[rep c]|] eqn:Ep; [|discriminate]. simpl in H. destruct rep as [l|nl].
    - destruct (st_lists st l) as [ids0|] eqn:El; [|discriminate]. injection H as <- <- <- <-.
      destruct (get_objs_total st ids0) as [objs Eo]; [intros id Hin; eapply i_list_segs; eauto|].
      exists (map so_seg objs). unfold view, get_vals. rewrite Ep. simpl. rewrite El, Eo. simpl. auto.
    - destruct (fromNodelist O c nl) as [vals|] eqn:Ef; [|discriminate].
      destruct (alloc_segs st (map fresh vals)) as [sta nids] eqn:Ea. injection H as <- <- <- <-.
      exists vals. split; [|split].
      + unfold get_vals. rewrite (get_objs_ext sta _ nids) by (intros; reflexivity).
        rewrite (alloc_segs_get _ _ _ _ Ea). simpl. rewrite map_map. simpl. now rewrite map_id.
      + unfold view. rewrite Ep. simpl. now rewrite Ef.
      + right. destruct (alloc_segs_spec _ _ _ _ Ea) as (-> & _). apply seq_NoDup. }
  destruct Hv as (vals & Hv1 & Hv2 & Hv3). split; [eauto|]. split; [|exact Hv3].
  intros x. destruct (Nat.eq_dec x p) as [->|Nx].
  - rewrite Hv2. destruct (as_segments_ok O all all all all all _ _ _ st p st1 cl lid ids I (based_self st) Logic.I H) as (_ & _ & E1 & E2 & _).
    exact (proj1 (view_of _ _ _ _ _ _ E1 E2 Hv1)).
  - unfold view. rewrite (OP x Nx). destruct (st_paths st x) as [[rep c]|] eqn:Ex; [|reflexivity]. simpl. destruct rep as [l|nl]; [|reflexivity].
    assert (Hl : l < st_nl st) by (apply (inv_list_lt _ _ I); eapply i_path_list; eauto).
    rewrite (OL l Hl). destruct (st_lists st l) as [ids0|] eqn:El; [|reflexivity].
    rewrite (get_vals_ext st st1 ids0); [reflexivity|]. intros id Hin. apply OS. apply (inv_seg_lt _ _ I). eapply i_list_segs; eauto.
Qed.

(* translate / rotate / scale / reverse *)
Lemma view_install st p cl vals' hp0 : inv st -> st_paths st p = Some hp0 -> hp_closed hp0 = cl ->
  view O (install_fresh st p cl vals') p = Some (vals', cl) /\ NoDup (pids (install_fresh st p cl vals') p).
Proof.
  intros I Ep Ec.
  destruct (install_fresh_ok all all all all all _ _ _ st p cl vals' hp0 I (based_self st) Logic.I Ep Ec) as (_ & _ & lid & ids & E1 & E2 & E3 & E4 & _).
  destruct (view_of _ _ _ _ _ _ E1 E2 E3) as [V Pi]. split; [exact V|]. now rewrite Pi.
Qed.

Lemma mutate_vals f ids : forall st st' vals, inv st -> NoDup ids -> mutate_all f st ids = Some st' ->
  get_vals st ids = Some vals -> get_vals st' ids = Some (map f vals).
Proof.
  intros st st' vals I ND H Hv.
  destruct (mutate_all_ok all all all all all _ _ _ f ids st st' I (based_self st) (okw_all _ _) H) as (_ & _ & _ & _ & _ & _ & _ & F1 & F2).
  specialize (F2 ND). clear H F1. revert vals Hv. induction ids as [|i r IH]; intros vals Hv.
  - cbn in Hv. injection Hv as <-. reflexivity.
  - rewrite get_vals_cons in Hv. destruct (st_segs st i) as [so|] eqn:Es; [|discriminate].
    destruct (get_vals st r) as [vr|] eqn:Er; [|discriminate]. injection Hv as <-.
    inversion ND as [|? ? Hn ND']; subst.
    rewrite get_vals_cons, (F2 i (or_introl eq_refl)), Es. simpl.
    rewrite (IH ND' (fun id Hin => F2 id (or_intror Hin)) vr eq_refl). reflexivity.
Qed.
Definition view_post o (vals : list (segment T)) (cl : bool) st' (r : out) : Prop :=
  let p := receiver o in
  match o with
  | OTranslate _ v => view O st' p = Some (map (fun s => seg_translated O s v) vals, cl) /\ NoDup (pids st' p)
  | ORotate _ c a => view O st' p = Some (map (fun s => seg_rotated O s c a) vals, cl) /\ NoDup (pids st' p)
  | OScale _ k => view O st' p = Some (map (fun s => seg_scaled O s k) vals, cl) /\ NoDup (pids st' p)
  | OReverse _ => view O st' p = Some (rev (map (seg_reversed O) vals), cl) /\ NoDup (pids st' p)
  | ORound _ => view O st' p = Some (map (seg_rounded O) vals, cl) /\ NoDup (pids st' p)
  | OBalance _ => view O st' p = Some (map (seg_balanced O) vals, cl) /\ NoDup (pids st' p)
  | OQ2C _ => view O st' p = Some (map (q2c_val O) vals, cl) /\ NoDup (pids st' p)
  | OSplit _ cuts => exists sl plan, resolve_cuts vals cuts = Some sl /\ split_walk O (dict_build O sl) vals = Some plan /\
                      view O st' p = Some (plan_values vals plan, cl) /\ NoDup (pids st' p)
  | OAddExtremes _ => exists plan,
                      split_walk O (dict_build O (flat_map (fun v => map (fun t => (v, t)) (seg_extremes O v)) vals)) vals = Some plan /\
                      view O st' p = Some (plan_values vals plan, cl) /\ NoDup (pids st' p)
  | ORemove _ _ _ => exists vals', view O st' p = Some (vals', cl) /\ NoDup (pids st' p) /\ vals <> [] /\
                      forall a b, linked a vals b -> linked a vals' b /\ vals' <> []
  | OFlatten _ degree _ => exists np plan, r = ONew np /\ view O st' p = Some (vals, cl) /\ NoDup (pids st' p) /\
                      Forall2 (flat_entry O degree) vals plan /\ view O st' np = Some (plan_values vals plan, cl) /\ NoDup (pids st' np)
  | OClone _ => exists np, r = ONew np /\ view O st' p = Some (vals, cl) /\ NoDup (pids st' p) /\
                      view O st' np = Some (vals, cl) /\ NoDup (pids st' np)
  | OAsSegments _ => view O st' p = Some (vals, cl) /\ NoDup (pids st' p)
  | OAsNodelist _ => (view O st' p = Some (vals, cl) \/
                      view O st' p = option_map (fun v => (v, cl)) (obind (fromNodelist O cl) (toNodelist vals))) /\ NoDup (pids st' p)
  | OFromSegments _ => exists np, r = ONew np /\ view O st' p = Some (vals, cl) /\ NoDup (pids st' p) /\
                      view O st' np = Some (vals, true) /\ NoDup (pids st' np)
  | OFromNodelist _ => exists np vals', r = ONew np /\ view O st' p = Some (vals', cl) /\ NoDup (pids st' p) /\
                      view O st' np = Some (vals', cl) /\ NoDup (pids st' np) /\
                      (vals' = vals \/ obind (fromNodelist O cl) (toNodelist vals) = Some vals')
  | OAppend _ _ => True
  end.

(* the common prefix: self.asSegments() *)
Lemma prefix_view st p st1 cl0 lid ids vals cl : inv st -> view O st p = Some (vals, cl) -> NoDup (pids st p) ->
  as_segments O st p = Some (st1, cl0, lid, ids) ->
  cl0 = cl /\ inv st1 /\ st_paths st1 p = Some (HP (HSeg lid) cl) /\ st_lists st1 lid = Some ids /\ get_vals st1 ids = Some vals /\
  NoDup ids /\ exist st1 ids /\ (forall x, view O st1 x = view O st x).
Proof.
  intros I V ND H.
  destruct (as_segments_vals st p st1 cl0 lid ids I H) as ((vals0 & G0 & V0) & VX & D).
  rewrite V in V0. injection V0 as <- <-.
  destruct (as_segments_ok O all all all all all _ _ _ st p st1 cl lid ids I (based_self st) Logic.I H) as (I1 & _ & E1 & E2 & _ & D2).
  split; [reflexivity|]. split; [exact I1|]. split; [exact E1|]. split; [exact E2|]. split; [exact G0|]. split; [|split; [|exact VX]].
  - destruct D2 as [[-> Hpl]|(_ & _ & _ & N & _)]; [|exact N]. now rewrite <- (pids_of _ _ _ _ Hpl E2).
  - intros id Hin. eapply i_list_segs; eauto.
Qed.
(* executions that write no pre-existing object *)
Definition pure st st' : Prop := within none all none all none (st_ns st) (st_nl st) (st_np st) st st'.
Lemma pure_trans st st1 st2 : pure st st1 -> pure st1 st2 -> pure st st2.
Proof.
  intros A B. unfold pure in *. eapply within_trans; [exact A|].
  destruct (w_ns _ _ _ _ _ _ _ _ _ _ A), (w_nl _ _ _ _ _ _ _ _ _ _ A), (w_np _ _ _ _ _ _ _ _ _ _ A).
  destruct B as [b1 b2 b3 b4 b5 b6 b7 b8 b9 b10]. constructor; auto; try lia.
  - intros id Hlt Hn. apply b4; [lia|exact Hn].
  - intros id Hlt Hn. apply b5; [lia|exact Hn].
  - intros id Hlt Hn. apply b6; [lia|exact Hn].
  - intros lid ids Hx. destruct (b8 _ _ Hx) as [Hy|[[[]|Hy] _]]; [left; exact Hy|]. right. split; [right; lia|]. intros; left; exact Logic.I.
  - intros pid hp Hx. destruct (b9 _ _ Hx) as [Hy|[[[]|Hy] _]]; [left; exact Hy|]. right. split; [right; lia|].
    destruct (hp_rep hp); [left; exact Logic.I|exact Logic.I].
Qed.
Lemma pure_view st st' x : inv st -> pure st st' -> st_paths st x <> None ->
  st_paths st' x = st_paths st x /\ view O st' x = view O st x /\ pids st' x = pids st x /\ plist st' x = plist st x.
Proof.
  intros I Pu Hx. assert (Hlt : x < st_np st) by (apply (inv_path_lt _ _ I); exact Hx).
  assert (EP : st_paths st' x = st_paths st x) by (apply (w_paths _ _ _ _ _ _ _ _ _ _ Pu); auto).
  split; [exact EP|]. assert (Epl : plist st' x = plist st x) by (unfold plist; now rewrite EP).
  unfold view, pids. rewrite EP, Epl. unfold plist. destruct (st_paths st x) as [[rep c]|] eqn:Ex; [|congruence]. simpl.
  destruct rep as [l|nl]; [|auto].
  assert (Hl : l < st_nl st) by (apply (inv_list_lt _ _ I); eapply i_path_list; eauto).
  rewrite (w_lists _ _ _ _ _ _ _ _ _ _ Pu l Hl) by auto. destruct (st_lists st l) as [ids|] eqn:El; [|auto].
  rewrite (get_vals_ext st st' ids); [auto|]. intros id Hin. apply (w_segs _ _ _ _ _ _ _ _ _ _ Pu); [|auto].
  apply (inv_seg_lt _ _ I). eapply i_list_segs; eauto.
Qed.
Lemma view_within Sw S0 Lw L0 P0 st st' x : inv st ->
  within Sw S0 Lw L0 P0 (st_ns st) (st_nl st) (st_np st) st st' -> st_paths st x <> None ->
  ~ P0 x -> (forall l, plist st x = Some l -> ~ Lw l) -> (forall id, In id (pids st x) -> ~ Sw id) ->
  st_paths st' x = st_paths st x /\ view O st' x = view O st x /\ pids st' x = pids st x /\ plist st' x = plist st x.
Proof.
  intros I Pu Hx HP HL HS. assert (Hlt : x < st_np st) by (apply (inv_path_lt _ _ I); exact Hx).
  assert (EP : st_paths st' x = st_paths st x) by (apply (w_paths _ _ _ _ _ _ _ _ _ _ Pu); auto).
  split; [exact EP|]. assert (Epl : plist st' x = plist st x) by (unfold plist; now rewrite EP).
  unfold view, pids in *. rewrite EP, Epl. unfold plist in *. destruct (st_paths st x) as [[rep c]|] eqn:Ex; [|congruence]. simpl in *.
  destruct rep as [l|nl]; [|auto].
  assert (Hl : l < st_nl st) by (apply (inv_list_lt _ _ I); eapply i_path_list; eauto).
  rewrite (w_lists _ _ _ _ _ _ _ _ _ _ Pu l Hl) by auto. destruct (st_lists st l) as [ids|] eqn:El; [|auto].
  rewrite (get_vals_ext st st' ids); [auto|]. intros id Hin. apply (w_segs _ _ _ _ _ _ _ _ _ _ Pu); [|auto].
  apply (inv_seg_lt _ _ I). eapply i_list_segs; eauto.
Qed.
Lemma okids_all' bs ids : okids all bs ids.
Proof. apply okids_all. Qed.
Lemma pure_alloc_segs st l st' ids : inv st -> alloc_segs st l = (st', ids) -> pure st st'.
Proof. intros I H. exact (proj1 (proj2 (alloc_segs_ok none all none all none _ _ _ st l st' ids I (based_self st) H))). Qed.
Lemma pure_new_lp st ids cl : inv st -> exist st ids -> pure st (new_lp st ids cl).
Proof. intros I X. exact (proj2 (new_lp_ok none all none all none _ _ _ st ids cl I (based_self st) (okids_all _ _) X)). Qed.
Lemma view_new_lp st ids cl vals : get_vals st ids = Some vals ->
  view O (new_lp st ids cl) (st_np st) = Some (vals, cl) /\ pids (new_lp st ids cl) (st_np st) = ids.
Proof.
  intros G. apply (view_of _ _ (st_nl st) ids vals cl).
  - unfold new_lp. simpl. apply upd_same.
  - unfold new_lp. simpl. apply upd_same.
  - rewrite (get_vals_ext st _ ids) by (intros; reflexivity). exact G.
Qed.
Lemma view_new_ls st p ids cl vals : get_vals st ids = Some vals ->
  view O (new_ls st p ids cl) p = Some (vals, cl) /\ pids (new_ls st p ids cl) p = ids.
Proof.
  intros G. apply (view_of _ _ (st_nl st) ids vals cl).
  - unfold new_ls. simpl. apply upd_same.
  - unfold new_ls. simpl. apply upd_same.
  - rewrite (get_vals_ext st _ ids) by (intros; reflexivity). exact G.
Qed.
Ltac vprefix I V ND H p :=
  destruct (as_segments O _ p) as [[[[?st1 ?cl0] ?lid] ?ids]|] eqn:Ea; [|injection H as <- <-; congruence];
  destruct (prefix_view _ _ _ _ _ _ _ _ I V ND Ea) as (-> & I1 & E1 & E2 & G & N & X & VX).

Theorem step_view st o st' r vals cl : inv st -> view O st (receiver o) = Some (vals, cl) -> NoDup (pids st (receiver o)) ->
  step O st o = (st', r) -> r <> OErr -> view_post o vals cl st' r.
Proof.
  intros I V ND H Hr. destruct o; cbn [step] in H; cbn [view_post receiver] in *.
  - (* translate *) vprefix I V ND H p. rewrite G in H. injection H as <- <-. exact (view_install st1 p cl _ _ I1 E1 eq_refl).
  - (* rotate *) vprefix I V ND H p. rewrite G in H. injection H as <- <-. exact (view_install st1 p cl _ _ I1 E1 eq_refl).
  - (* scale *) vprefix I V ND H p. rewrite G in H. injection H as <- <-. exact (view_install st1 p cl _ _ I1 E1 eq_refl).
  - (* reverse *) vprefix I V ND H p. rewrite G in H. injection H as <- <-. exact (view_install st1 p cl _ _ I1 E1 eq_refl).
  - (* addExtremes *)
    vprefix I V ND H p. rewrite G in H. unfold do_split in H.
    destruct (split_walk O _ vals) as [plan|] eqn:Es; [|injection H as <- <-; congruence].
    destruct (realize_plan st1 ids plan) as [st2 nids] eqn:Er.
    destruct (realize_plan_ok all all all all all _ _ _ ids plan st1 st2 nids I1 (based_self st1) (okids_all _ _) X Er) as (I2 & _ & _ & _ & _ & _ & V2 & N2).
    injection H as <- <-. exists plan. split; [reflexivity|].
    destruct (view_new_ls st2 p nids cl _ (V2 vals G)) as [Vn Pn]. split; [exact Vn|]. exact (eq_ind_r (@NoDup nat) (N2 N) Pn).
  - (* splitAtPoints *)
    vprefix I V ND H p. rewrite G in H.
    destruct (resolve_cuts vals cuts) as [sl|] eqn:Ec; [|injection H as <- <-; congruence]. unfold do_split in H.
    destruct (split_walk O _ vals) as [plan|] eqn:Es; [|injection H as <- <-; congruence].
    destruct (realize_plan st1 ids plan) as [st2 nids] eqn:Er.
    destruct (realize_plan_ok all all all all all _ _ _ ids plan st1 st2 nids I1 (based_self st1) (okids_all _ _) X Er) as (I2 & _ & _ & _ & _ & _ & V2 & N2).
    injection H as <- <-. exists sl, plan. split; [reflexivity|]. split; [exact Es|].
    destruct (view_new_ls st2 p nids cl _ (V2 vals G)) as [Vn Pn]. split; [exact Vn|]. exact (eq_ind_r (@NoDup nat) (N2 N) Pn).
  - (* balance *)
    vprefix I V ND H p. destruct (mutate_all (seg_balanced O) st1 ids) as [st2|] eqn:Em; [|injection H as <- <-; congruence].
    injection H as <- <-.
    pose proof (mutate_vals _ ids st1 st2 vals I1 N Em G) as G2.
    destruct (mutate_all_ok all all all all all _ _ _ _ ids st1 st2 I1 (based_self st1) (okw_all _ _) Em) as (I2 & _ & ML & MP & _).
    assert (Ep2 : st_paths st2 p = Some (HP (HSeg lid) cl)) by (rewrite MP; exact E1).
    assert (El2 : st_lists st2 lid = Some ids) by (rewrite ML; exact E2).
    destruct (wrap_ok all all all all all _ _ _ st2 p cl lid ids _ I2 (based_self st2) Logic.I Ep2 eq_refl (or_introl Logic.I) El2)
      as (_ & _ & Sg & lid' & Ep3 & El3 & _).
    destruct (view_of (wrap st2 p cl lid ids) p lid' ids (map (seg_balanced O) vals) cl Ep3 El3) as [Vn Pn].
    { rewrite (get_vals_ext st2 _ ids) by (intros; now rewrite Sg). exact G2. }
    split; [exact Vn|]. now rewrite Pn.
  - (* round *)
    vprefix I V ND H p. destruct (mutate_all (seg_rounded O) st1 ids) as [st2|] eqn:Em; [|injection H as <- <-; congruence].
    injection H as <- <-.
    pose proof (mutate_vals _ ids st1 st2 vals I1 N Em G) as G2.
    destruct (mutate_all_ok all all all all all _ _ _ _ ids st1 st2 I1 (based_self st1) (okw_all _ _) Em) as (I2 & _ & ML & MP & _).
    assert (Ep2 : st_paths st2 p = Some (HP (HSeg lid) cl)) by (rewrite MP; exact E1).
    assert (El2 : st_lists st2 lid = Some ids) by (rewrite ML; exact E2).
    destruct (wrap_ok all all all all all _ _ _ st2 p cl lid ids _ I2 (based_self st2) Logic.I Ep2 eq_refl (or_introl Logic.I) El2)
      as (_ & _ & Sg & lid' & Ep3 & El3 & _).
    destruct (view_of (wrap st2 p cl lid ids) p lid' ids (map (seg_rounded O) vals) cl Ep3 El3) as [Vn Pn].
    { rewrite (get_vals_ext st2 _ ids) by (intros; now rewrite Sg). exact G2. }
    split; [exact Vn|]. now rewrite Pn.
  - (* quadraticsToCubics *)
    vprefix I V ND H p. destruct (q2c_walk O st1 ids) as [[st2 nids]|] eqn:Eq; [|injection H as <- <-; congruence].
    injection H as <- <-.
    destruct (q2c_walk_ok O all all all all all _ _ _ ids st1 st2 nids I1 (based_self st1) (okids_all _ _) X Eq) as (I2 & _ & AO & _ & _ & _ & V2 & N2).
    destruct AO as (AL & AP & _).
    destruct (view_of (set_list st2 lid nids) p lid nids (map (q2c_val O) vals) cl) as [Vn Pn].
    { simpl. rewrite AP. exact E1. }
    { simpl. apply upd_same. }
    { rewrite (get_vals_ext st2 _ nids) by (intros; reflexivity). exact (V2 vals G). }
    split; [exact Vn|]. rewrite Pn. auto.
  - (* removeIrrelevantSegments *)
    vprefix I V ND H p. destruct ids as [|first rest]; [injection H as <- <-; congruence|]. rewrite G in H.
    destruct (remove_loop O _ absLength st1 [first] rest) as [[st2 nids]|] eqn:Er; [|injection H as <- <-; congruence].
    injection H as <- <-.
    destruct (remove_loop_ok O all all all all all _ _ _ _ absLength rest st1 [first] st2 nids I1 (based_self st1) (okw_all _ _) X Er)
      as (I2 & W2 & _ & _ & _ & _ & _ & _ & Sub & Ch).
    destruct (Ch N) as [N2 Ch2]; [discriminate|].
    assert (X2 : exist st2 nids) by (intros id Hin; apply (w_seg_mono _ _ _ _ _ _ _ _ _ _ W2); apply X; exact (Sub id Hin)).
    destruct (get_objs_total st2 nids X2) as [objs Eo].
    assert (G2 : get_vals st2 nids = Some (map so_seg objs)) by (unfold get_vals; now rewrite Eo).
    exists (map so_seg objs). destruct (view_new_ls st2 p nids cl _ G2) as [Vn Pn].
    split; [exact Vn|]. split; [exact (eq_ind_r (@NoDup nat) N2 Pn)|]. split.
    + intros ->. apply get_vals_length in G. discriminate.
    + intros a b HL. destruct (Ch2 a b vals G HL) as (vals' & G' & HL' & Hne). rewrite G2 in G'. injection G' as <-. auto.
  - (* flatten *)
    vprefix I V ND H p. destruct (flatten_walk O st1 degree ids samples) as [[st2 nids]|] eqn:Ef; [|injection H as <- <-; congruence].
    injection H as <- <-.
    destruct (flatten_walk_ok O none all none all none _ _ _ degree ids samples st1 st2 nids I1 (based_self st1) (okids_all _ _) X Ef)
      as (I2 & W2 & AO & _ & X2 & _ & V2 & N2).
    destruct (V2 vals G) as (plan & HF & G2).
    assert (Pu : pure st1 (new_lp st2 nids cl)) by (eapply pure_trans; [exact W2|apply pure_new_lp; auto]).
    assert (Hlive : st_paths st1 p <> None) by (rewrite E1; discriminate).
    destruct (pure_view st1 _ p I1 Pu Hlive) as (_ & Vp & Pp & _).
    assert (Enp : st_np st2 = st_np st1) by (destruct AO as (_ & _ & _ & Hn & _); exact Hn).
    exists (st_np st2), plan. split; [reflexivity|]. split; [exact (eq_trans Vp (eq_trans (VX p) V))|].
    split; [exact (eq_ind_r (@NoDup nat) N (eq_trans Pp (proj2 (view_of _ _ _ _ _ _ E1 E2 G))))|]. split; [exact HF|].
    destruct (view_new_lp st2 nids cl _ G2) as [Vn Pn]. split; [exact Vn|]. exact (eq_ind_r (@NoDup nat) (N2 N) Pn).
  - exact Logic.I.
  - (* clone *)
    vprefix I V ND H p. rewrite G in H.
    destruct (alloc_segs st1 (map fresh (map (seg_clone O) vals))) as [st2 nids] eqn:Ea2. injection H as <- <-.
    destruct (alloc_segs_ok none all none all none _ _ _ _ _ _ _ I1 (based_self st1) Ea2) as (I2 & W2 & _ & X2 & N2 & _).
    assert (Pu : pure st1 (new_lp st2 nids cl)) by (eapply pure_trans; [exact W2|apply pure_new_lp; auto]).
    assert (Hlive : st_paths st1 p <> None) by (rewrite E1; discriminate).
    destruct (pure_view st1 _ p I1 Pu Hlive) as (_ & Vp & Pp & _).
    exists (st_np st2). split; [reflexivity|]. split; [exact (eq_trans Vp (eq_trans (VX p) V))|].
    split; [exact (eq_ind_r (@NoDup nat) N (eq_trans Pp (proj2 (view_of _ _ _ _ _ _ E1 E2 G))))|].
    assert (G2 : get_vals st2 nids = Some vals).
    { unfold get_vals. rewrite (alloc_segs_get _ _ _ _ Ea2). simpl. rewrite !map_map. simpl.
      rewrite (map_ext _ (fun x => x)) by (intros; apply seg_clone_id). now rewrite map_id. }
    destruct (view_new_lp st2 nids cl _ G2) as [Vn Pn]. split; [exact Vn|]. exact (eq_ind_r (@NoDup nat) N2 Pn).
  - (* asNodelist *)
    unfold as_nodelist in H. unfold view in V. unfold pids, plist in ND |- *.
    destruct (st_paths st p) as [[rep c]|] eqn:Ep; [|discriminate]. simpl in *. destruct rep as [l|nl].
    + destruct (st_lists st l) as [ids|] eqn:El; [|discriminate]. destruct (get_vals st ids) as [vals0|] eqn:G; [|discriminate].
      injection V as <- <-. destruct (toNodelist vals0) as [nl|] eqn:En; [|injection H as <- <-; congruence].
      injection H as <- <-. simpl. rewrite upd_same. simpl. split; [|constructor]. right.
      unfold view. simpl. rewrite upd_same. simpl. destruct (fromNodelist O c nl); reflexivity.
    + injection H as <- <-. rewrite Ep. simpl. split; [|constructor]. left. unfold view. rewrite Ep. simpl. exact V.
  - (* asSegments *)
    vprefix I V ND H p. injection H as <- <-. destruct (view_of _ _ _ _ _ _ E1 E2 G) as [Vn Pn]. split; [exact Vn|]. now rewrite Pn.
  - (* fromSegments *)
    vprefix I V ND H p. destruct (view_of _ _ _ _ _ _ E1 E2 G) as [Vp Pp].
    assert (Hlive : st_paths st1 p <> None) by (rewrite E1; discriminate).
    destruct ids as [|i0 r0].
    + injection H as <- <-.
      assert (X0 : exist st1 []) by (intros ? []).
      pose proof (pure_new_lp st1 [] true I1 X0) as Pu.
      destruct (pure_view st1 _ p I1 Pu Hlive) as (_ & Vp' & Pp' & _).
      exists (st_np st1). split; [reflexivity|]. split; [exact (eq_trans Vp' Vp)|]. split; [exact (eq_ind_r (@NoDup nat) (NoDup_nil nat) (eq_trans Pp' Pp))|].
      assert (vals = []) by (apply get_vals_length in G; destruct vals; [reflexivity|discriminate]). subst vals.
      destruct (view_new_lp st1 [] true [] eq_refl) as [Vn Pn]. split; [exact Vn|]. exact (eq_ind_r (@NoDup nat) (NoDup_nil nat) Pn).
    + injection H as <- <-.
      assert (Pu : pure st1 (fst (alloc_path st1 (HP (HSeg lid) true)))).
      { apply within_alloc_path; try lia; [simpl; left; exact Logic.I|apply (i_paths _ I1)]. }
      destruct (pure_view st1 _ p I1 Pu Hlive) as (_ & Vp' & Pp' & _).
      exists (st_np st1). split; [reflexivity|]. split; [exact (eq_trans Vp' Vp)|]. split; [exact (eq_ind_r (@NoDup nat) N (eq_trans Pp' Pp))|].
      destruct (view_of (fst (alloc_path st1 (HP (HSeg lid) true))) (st_np st1) lid (i0 :: r0) vals true) as [Vn Pn].
      { simpl. apply upd_same. }
      { exact E2. }
      { rewrite (get_vals_ext st1 _ (i0 :: r0)) by (intros; reflexivity). exact G. }
      split; [exact Vn|]. exact (eq_ind_r (@NoDup nat) N Pn).
  - (* fromNodelist *)
    destruct (as_nodelist st p) as [[[st1 cl0] nl]|] eqn:Ea; [|injection H as <- <-; congruence].
    destruct (as_nodelist_ok all all all all all _ _ _ st p st1 cl0 nl I (based_self st) Logic.I Ea) as (I1 & _ & E1 & _).
    assert (Hv : cl0 = cl /\ forall vals', fromNodelist O cl nl = Some vals' ->
                   vals' = vals \/ obind (fromNodelist O cl) (toNodelist vals) = Some vals').
    { unfold as_nodelist in Ea. unfold view in V. destruct (st_paths st p) as [[rep c]|] eqn:Ep; [|discriminate]. simpl in *.
      destruct rep as [l|nl0].
      - destruct (st_lists st l) as [ids|]; [|discriminate]. destruct (get_vals st ids) as [vals0|]; [|discriminate].
        injection V as <- <-. destruct (toNodelist vals0) as [nl1|] eqn:En; [|discriminate]. injection Ea as <- <- <-.
        split; [reflexivity|]. intros vals' Hf. right. simpl. exact Hf.
      - injection Ea as <- <- <-. destruct (fromNodelist O c nl0) as [v|] eqn:Ef; [|discriminate]. injection V as <- <-.
        split; [reflexivity|]. intros vals' Hf. left. congruence. }
    destruct Hv as [-> Hv].
    destruct (fromNodelist O cl nl) as [vals'|] eqn:Ef; [|injection H as <- <-; congruence].
    destruct (alloc_segs st1 (map fresh vals')) as [st2 nids] eqn:Ea2. injection H as <- <-.
    destruct (alloc_segs_ok none all none all none _ _ _ _ _ _ _ I1 (based_self st1) Ea2) as (I2 & W2 & _ & X2 & N2 & _).
    assert (Pu : pure st1 (new_lp st2 nids cl)) by (eapply pure_trans; [exact W2|apply pure_new_lp; auto]).
    assert (Hlive : st_paths st1 p <> None) by (rewrite E1; discriminate).
    destruct (pure_view st1 _ p I1 Pu Hlive) as (_ & Vp & Pp & _).
    exists (st_np st2), vals'. split; [reflexivity|].
    assert (V1 : view O st1 p = Some (vals', cl)) by (unfold view; rewrite E1; simpl; now rewrite Ef).
    assert (P1 : pids st1 p = []) by (unfold pids, plist; now rewrite E1).
    split; [exact (eq_trans Vp V1)|]. split; [exact (eq_ind_r (@NoDup nat) (NoDup_nil nat) (eq_trans Pp P1))|].
    assert (G2 : get_vals st2 nids = Some vals').
    { unfold get_vals. rewrite (alloc_segs_get _ _ _ _ Ea2). simpl. rewrite map_map. simpl. now rewrite map_id. }
    destruct (view_new_lp st2 nids cl _ G2) as [Vn Pn]. split; [exact Vn|]. split; [exact (eq_ind_r (@NoDup nat) N2 Pn)|]. apply Hv. reflexivity.
Qed.
End StepView.

(* ================================================================================================ *)
(* 7. append                                                                                         *)
(* ================================================================================================ *)
Section Append.
Context {T : Type} (O : Ops T).
Notation state := (state T).
Implicit Types (st : state) (ids : list nat).

(* what append does to the values: orientation by end distances, joining line when the ends are not (isclose-)equal *)
Definition v_append (vals1 vals2 : list (segment T)) : list (segment T) :=
  match rev vals1, vals2 with
  | [], _ => vals2
  | _, [] => vals1
  | l1 :: _, f2 :: _ =>
      let e1 := seg_end l1 in
      let dist1 := Point_distanceFrom O e1 (seg_start f2) in
      let dist2 := Point_distanceFrom O e1 (seg_end (last vals2 f2)) in
      if ltb O (mul O (ofZ O 2) dist1) dist2 then
        let rvals := rev (map (seg_reversed O) vals2) in
        let s2 := match rvals with v :: _ => seg_start v | [] => e1 end in
        if negb (Point___eq__ O e1 s2) then vals1 ++ [SLine (L2 e1 s2)] ++ rvals else vals1 ++ rvals
      else
        let s2 := seg_start f2 in
        if negb (Point___eq__ O e1 s2) then vals1 ++ [SLine (L2 e1 s2)] ++ vals2 else vals1 ++ vals2
  end.

Definition apart st a b : Prop :=
  (forall id, In id (pids st a) -> ~ In id (pids st b)) /\ (forall l, plist st a = Some l -> plist st b <> Some l).

Lemma pids_lt st a id : inv st -> In id (pids st a) -> id < st_ns st.
Proof.
  intros I Hin. unfold pids in Hin. destruct (plist st a) as [l|]; [|contradiction].
  destruct (st_lists st l) as [ids|] eqn:El; [|contradiction]. apply (inv_seg_lt _ _ I). eapply i_list_segs; eauto.
Qed.
Lemma plist_lt st a l : inv st -> plist st a = Some l -> l < st_nl st.
Proof.
  intros I H. unfold plist in H. destruct (st_paths st a) as [hp|] eqn:Ea; [|discriminate].
  destruct (hp_rep hp) eqn:Er; [|discriminate]. injection H as <-. apply (inv_list_lt _ _ I). eapply i_path_list; eauto.
Qed.

Lemma as_segments_sep st x st1 cl lid ids : inv st -> as_segments O st x = Some (st1, cl, lid, ids) ->
  (forall a, NoDup (pids st a) -> NoDup (pids st1 a)) /\
  (forall a b, a <> b -> apart st a b -> apart st1 a b).
Proof.
  intros I H. destruct (as_segments_other O st x st1 cl lid ids I H) as (OP & OL & OS & OX & OPL & OPI).
  destruct (as_segments_ok O all all all all all _ _ _ st x st1 cl lid ids I (based_self st) Logic.I H) as (_ & _ & E1 & E2 & _ & D).
  split.
  - intros a ND. destruct (Nat.eq_dec a x) as [Eax|Na]; [subst a|now rewrite (proj2 (OX a Na))].
    rewrite OPI. destruct D as [[-> Hpl]|(_ & _ & _ & N & _)]; [|exact N]. now rewrite <- (pids_of _ _ _ _ Hpl E2).
  - intros a b Nab [A1 A2].
    destruct D as [[-> Hpl]|(D1 & D2 & D3 & D4 & D5)]; [split; assumption|].
    unfold apart.
    destruct (Nat.eq_dec a x) as [Eax|Na]; [subst a|destruct (Nat.eq_dec b x) as [Ebx|Nb]; [subst b|]].
    + destruct (OX b (not_eq_sym Nab)) as [Eb1 Eb2]. rewrite OPI, OPL, Eb1, Eb2. split.
      * intros id Hin Hin2. pose proof (D3 id Hin). pose proof (pids_lt st b id I Hin2). lia.
      * intros l E Hb. injection E as <-. pose proof (plist_lt st b lid I Hb). lia.
    + destruct (OX a Na) as [Ea1 Ea2]. rewrite OPI, OPL, Ea1, Ea2. split.
      * intros id Hin Hin2. pose proof (D3 id Hin2). pose proof (pids_lt st a id I Hin). lia.
      * intros l E Hb. injection Hb as <-. pose proof (plist_lt st a lid I E). lia.
    + destruct (OX a Na) as [Ea1 Ea2]. destruct (OX b Nb) as [Eb1 Eb2]. rewrite Ea1, Ea2, Eb1, Eb2. split; assumption.
Qed.

Lemma rev_vals st ids vals i r : get_vals st ids = Some vals -> rev ids = i :: r ->
  exists so vr, st_segs st i = Some so /\ rev vals = so_seg so :: vr.
Proof.
  intros G E. assert (E2 : ids = rev r ++ [i]) by (rewrite <- (rev_involutive ids), E; reflexivity). subst ids.
  rewrite get_vals_app in G. destruct (get_vals st (rev r)) as [v1|]; [|discriminate].
  rewrite get_vals_cons in G. destruct (st_segs st i) as [so|]; [|discriminate]. cbn in G. injection G as <-.
  exists so, (rev v1). split; [reflexivity|]. rewrite rev_app_distr. reflexivity.
Qed.
Lemma last_vals st ids vals i0 v0 so0 : get_vals st ids = Some vals -> st_segs st i0 = Some so0 -> so_seg so0 = v0 ->
  exists so, st_segs st (last ids i0) = Some so /\ so_seg so = last vals v0.
Proof.
  revert vals i0 v0 so0. induction ids as [|i r IH]; intros vals i0 v0 so0 G E0 Ev.
  - cbn in G. injection G as <-. simpl. eauto.
  - rewrite get_vals_cons in G. destruct (st_segs st i) as [so|] eqn:Es; [|discriminate].
    destruct (get_vals st r) as [vr|] eqn:Er; [|discriminate]. injection G as <-.
    destruct (IH vr i (so_seg so) so eq_refl Es eq_refl) as (so' & E1 & E2).
    exists so'. rewrite !last_cons_default. auto.
Qed.
Theorem step_view_append st p q st' r vals1 cl vals2 cl2 : inv st -> p <> q ->
  view O st p = Some (vals1, cl) -> view O st q = Some (vals2, cl2) ->
  NoDup (pids st p) -> NoDup (pids st q) -> apart st p q ->
  step O st (OAppend p q) = (st', r) -> r <> OErr ->
  view O st' p = Some (v_append vals1 vals2, cl) /\ NoDup (pids st' p) /\ view O st' q = Some (vals2, cl2) /\ NoDup (pids st' q).
Proof.
  intros I Npq V1 V2 ND1 ND2 Ap H Hr. cbn [step] in H.
  destruct (as_segments O st p) as [[[[st1 c1] lid1] ids1]|] eqn:Ea; [|injection H as <- <-; congruence].
  destruct (prefix_view O _ _ _ _ _ _ _ _ I V1 ND1 Ea) as (-> & I1 & E1 & E2 & G1 & N1 & X1 & VX1).
  destruct (as_segments_sep st p st1 cl lid1 ids1 I Ea) as [SN1 SA1].
  destruct (as_segments O st1 q) as [[[[st2 c2] lid2] ids2]|] eqn:Eb; [|injection H as <- <-; congruence].
  assert (V2' : view O st1 q = Some (vals2, cl2)) by (rewrite VX1; exact V2).
  destruct (prefix_view O _ _ _ _ _ _ _ _ I1 V2' (SN1 q ND2) Eb) as (-> & I2 & F1 & F2 & G2 & N2 & X2 & VX2).
  destruct (as_segments_sep st1 q st2 cl2 lid2 ids2 I1 Eb) as [SN2 SA2].
  destruct (as_segments_other O st1 q st2 cl2 lid2 ids2 I1 Eb) as (OP & OL & OS & OX & OPL & OPI).
  pose proof (SA2 p q Npq (SA1 p q Npq Ap)) as [Dj Ld].
  destruct (OX p Npq) as [Epl Epi].
  assert (Hp1 : plist st1 p = Some lid1) by (unfold plist; now rewrite E1).
  assert (Hpi1 : pids st1 p = ids1) by (unfold pids; now rewrite Hp1, E2).
  rewrite Epi, Hpi1, OPI in Dj. rewrite Epl, Hp1, OPL in Ld.
  assert (Nl : lid1 <> lid2) by (intros ->; exact (Ld lid2 eq_refl eq_refl)).
  assert (E1' : st_paths st2 p = Some (HP (HSeg lid1) cl)) by (rewrite OP; auto).
  assert (Hl1 : lid1 < st_nl st1) by (apply (inv_list_lt _ _ I1); rewrite E2; discriminate).
  assert (E2' : st_lists st2 lid1 = Some ids1) by (rewrite OL; auto).
  assert (G1' : get_vals st2 ids1 = Some vals1).
  { rewrite (get_vals_ext st1 st2 ids1); [exact G1|]. intros id Hin. apply OS. eapply exist_lt; eauto. }
  assert (X1' : exist st2 ids1) by (eapply get_vals_exist; eauto).
  clear Ea Eb VX1 VX2 V2' SN1 SA1 SN2 SA2 OP OL OS OX OPL OPI Epl Epi Hp1 Hpi1 Ld.
  (* final states: the receiver's list lid1 gets [nids]; everything q can see is untouched *)
  assert (Fin : forall stx nids nvals, st_paths stx = st_paths st2 -> (forall l, l <> lid1 -> st_lists stx l = st_lists st2 l) ->
             (forall id, id < st_ns st2 -> st_segs stx id = st_segs st2 id) ->
             get_vals stx nids = Some nvals -> NoDup nids ->
             let stf := set_path (set_list stx lid1 nids) p (HP (HSeg lid1) cl) in
             view O stf p = Some (nvals, cl) /\ NoDup (pids stf p) /\ view O stf q = Some (vals2, cl2) /\ NoDup (pids stf q)).
  { intros stx nids nvals HP HL HS Gn Nn stf.
    destruct (view_of O stf p lid1 nids nvals cl) as [Vn Pn].
    { unfold stf. simpl. apply upd_same. }
    { unfold stf. simpl. apply upd_same. }
    { rewrite (get_vals_ext stx stf nids) by (intros; reflexivity). exact Gn. }
    split; [exact Vn|]. split; [now rewrite Pn|].
    destruct (view_of O stf q lid2 ids2 vals2 cl2 ltac:(unfold stf; simpl; rewrite upd_other by auto; rewrite HP; exact F1)
                    ltac:(unfold stf; simpl; rewrite upd_other by auto; rewrite HL by auto; exact F2)
                    ltac:(rewrite (get_vals_ext st2 stf ids2); [exact G2|]; intros id Hin; unfold stf; simpl; apply HS; exact (exist_lt _ _ I2 X2 id Hin))) as [Vq Pq].
    split; [exact Vq|]. now rewrite Pq. }
  destruct (rev ids1) as [|last1 rr1] eqn:Er1.
  { (* empty receiver: it adopts the other list object *)
    injection H as <- <-.
    assert (ids1 = []) by (rewrite <- (rev_involutive ids1), Er1; reflexivity). subst ids1.
    assert (vals1 = []) by (apply get_vals_length in G1'; destruct vals1; [reflexivity|discriminate]). subst vals1.
    cbn [v_append rev].
    destruct (wrap_ok all all all all all _ _ _ st2 p cl lid2 ids2 _ I2 (based_self st2) Logic.I E1' eq_refl (or_introl Logic.I) F2)
      as (_ & W3 & Sg & lid' & Ep3 & El3 & _).
    destruct (view_of O (wrap st2 p cl lid2 ids2) p lid' ids2 vals2 cl Ep3 El3) as [Vn Pn].
    { rewrite (get_vals_ext st2 _ ids2) by (intros; now rewrite Sg). exact G2. }
    split; [exact Vn|]. split; [now rewrite Pn|].
    destruct (wrap_ok none all none all (only p) _ _ _ st2 p cl lid2 ids2 _ I2 (based_self st2) eq_refl E1' eq_refl (or_introl Logic.I) F2)
      as (_ & W4 & _).
    assert (Hq : view O st2 q = Some (vals2, cl2)) by exact (proj1 (view_of O st2 q lid2 ids2 vals2 cl2 F1 F2 G2)).
    destruct (view_within O none all none all (only p) st2 _ q I2 W4) as (_ & Vq & Pq & _);
      [rewrite F1; discriminate|intros E; apply Npq; now symmetry|intros l _ []|intros id _ []|].
    split; [rewrite Vq; exact Hq|]. rewrite Pq. unfold pids, plist. rewrite F1. simpl. rewrite F2. exact N2. }
  destruct (rev_vals st2 ids1 vals1 last1 rr1 G1' Er1) as (l1 & vr1 & Es1 & Ev1).
  destruct ids2 as [|first2 r2] eqn:Eids2.
  { injection H as <- <-.
    assert (vals2 = []) by (apply get_vals_length in G2; destruct vals2; [reflexivity|discriminate]). subst vals2.
    unfold v_append. rewrite Ev1.
    destruct (wrap_ok all all all all all _ _ _ st2 p cl lid1 ids1 _ I2 (based_self st2) Logic.I E1' eq_refl (or_introl Logic.I) E2')
      as (_ & W3 & Sg & lid' & Ep3 & El3 & _).
    destruct (view_of O (wrap st2 p cl lid1 ids1) p lid' ids1 vals1 cl Ep3 El3) as [Vn Pn].
    { rewrite (get_vals_ext st2 _ ids1) by (intros; now rewrite Sg). exact G1'. }
    split; [exact Vn|]. split; [now rewrite Pn|].
    destruct (wrap_ok none all none all (only p) _ _ _ st2 p cl lid1 ids1 _ I2 (based_self st2) eq_refl E1' eq_refl (or_introl Logic.I) E2')
      as (_ & W4 & _).
    assert (Hq : view O st2 q = Some ([], cl2)) by exact (proj1 (view_of O st2 q lid2 [] [] cl2 F1 F2 G2)).
    destruct (view_within O none all none all (only p) st2 _ q I2 W4) as (_ & Vq & Pq & _);
      [rewrite F1; discriminate|intros E; apply Npq; now symmetry|intros l _ []|intros id _ []|].
    split; [rewrite Vq; exact Hq|]. rewrite Pq. unfold pids, plist. rewrite F1. simpl. rewrite F2. exact N2. }
  rewrite <- Eids2 in *.
  rewrite Es1 in H.
  assert (Hv2 : exists f2 vr2, vals2 = f2 :: vr2 /\ exists so, st_segs st2 first2 = Some so /\ so_seg so = f2).
  { rewrite Eids2 in G2. rewrite get_vals_cons in G2. destruct (st_segs st2 first2) as [so|]; [|discriminate].
    destruct (get_vals st2 r2) as [vr|]; [|discriminate]. injection G2 as <-.
    exists (so_seg so), vr. split; [reflexivity|]. exists so. split; reflexivity. }
  destruct Hv2 as (f2 & vr2 & Ev2 & so2 & Es2 & Ef2). rewrite Es2 in H.
  destruct (last_vals st2 ids2 vals2 first2 f2 so2 G2 Es2 Ef2) as (sol & Esl & Evl). rewrite Esl, G2 in H.
  unfold v_append. rewrite Ev1, Ev2. rewrite <- Ev2. rewrite Ef2, Evl in H.
  match type of H with (if ?c then _ else _) = _ => destruct c end.
  - (* reversed copies of the argument's segments *)
    destruct (alloc_segs st2 (map fresh (rev (map (seg_reversed O) vals2)))) as [st3 rids] eqn:Ea3.
    destruct (alloc_segs_spec _ _ _ _ Ea3) as (R1 & R2 & R3 & R4 & R5 & R6 & R7).
    assert (RS : forall id, id < st_ns st2 -> st_segs st3 id = st_segs st2 id) by (intros id Hlt; rewrite R7; nbool; reflexivity).
    assert (Gr : get_vals st3 rids = Some (rev (map (seg_reversed O) vals2))).
    { unfold get_vals. rewrite (alloc_segs_get _ _ _ _ Ea3). simpl. rewrite map_map. simpl. now rewrite map_id. }
    assert (G13 : get_vals st3 ids1 = Some vals1).
    { rewrite (get_vals_ext st2 st3 ids1); [exact G1'|]. intros id Hin. apply RS. eapply exist_lt; eauto. }
    assert (Nr : NoDup rids) by (rewrite R1; apply seq_NoDup).
    assert (Dr : forall id, In id ids1 -> In id rids -> False).
    { intros id H1 H2. rewrite R1 in H2. apply in_seq in H2. pose proof (exist_lt _ _ I2 X1' id H1). lia. }
    match type of H with (if ?c then _ else _) = _ => destruct c end.
    + set (so := fresh (SLine _)) in H.
      change (alloc_seg st3 so) with (fst (alloc_seg st3 so), st_ns st3) in H. cbv beta iota zeta in H. injection H as <- <-.
      apply Fin; auto.
      * simpl. intros l _. congruence.
      * intros id Hlt. simpl. rewrite upd_other by lia. auto.
      * rewrite get_vals_app, get_vals_cons. simpl. rewrite upd_same.
        rewrite (get_vals_ext st3 _ ids1), G13 by (intros id Hin; simpl; apply upd_other; pose proof (exist_lt _ _ I2 X1' id Hin); lia).
        rewrite (get_vals_ext st3 _ rids), Gr by (intros id Hin; simpl; apply upd_other; rewrite R1 in Hin; apply in_seq in Hin; lia).
        reflexivity.
      * apply nodup_app; [exact N1| |].
        -- constructor; [|exact Nr]. rewrite R1. intros Hin. apply in_seq in Hin. lia.
        -- intros id H1 [<-|H2]; [pose proof (exist_lt _ _ I2 X1' _ H1); lia|eauto].
    + injection H as <- <-. apply Fin; auto.
      * intros l _. congruence.
      * rewrite get_vals_app, G13, Gr. reflexivity.
      * apply nodup_app; auto.
  - match type of H with (if ?c then _ else _) = _ => destruct c end.
    + set (so := fresh (SLine _)) in H.
      change (alloc_seg st2 so) with (fst (alloc_seg st2 so), st_ns st2) in H. cbv beta iota zeta in H.
      cbn [set_list st_lists fst alloc_seg] in H. rewrite upd_other in H by auto. rewrite F2 in H. injection H as <- <-.
      set (st3 := fst (alloc_seg st2 so)).
      assert (RS : forall id, id < st_ns st2 -> st_segs st3 id = st_segs st2 id) by (intros id Hlt; unfold st3; simpl; apply upd_other; lia).
      assert (E : set_path (set_list (set_list st3 lid1 (ids1 ++ [st_ns st2])) lid1 (ids1 ++ [st_ns st2] ++ ids2)) p (HP (HSeg lid1) cl)
                  = set_path (set_list (set_list st3 lid1 (ids1 ++ [st_ns st2])) lid1 (ids1 ++ [st_ns st2] ++ ids2)) p (HP (HSeg lid1) cl)) by reflexivity.
      apply (Fin (set_list st3 lid1 (ids1 ++ [st_ns st2]))); auto.
      * intros l Hl. simpl. rewrite upd_other by auto. reflexivity.
      * rewrite get_vals_app, get_vals_cons. simpl. rewrite upd_same.
        rewrite (get_vals_ext st2 _ ids1), G1' by (intros id Hin; simpl; apply upd_other; pose proof (exist_lt _ _ I2 X1' id Hin); lia).
        rewrite (get_vals_ext st2 _ ids2), G2 by (intros id Hin; simpl; apply upd_other; pose proof (exist_lt _ _ I2 X2 id Hin); lia).
        reflexivity.
      * apply nodup_app; [exact N1| |].
        -- constructor; [|exact N2]. intros Hin. pose proof (exist_lt _ _ I2 X2 _ Hin). lia.
        -- intros id H1 [<-|H2]; [pose proof (exist_lt _ _ I2 X1' _ H1); lia|eapply Dj; eauto].
    + injection H as <- <-. apply Fin; auto.
      * rewrite get_vals_app, G1', G2. reflexivity.
      * apply nodup_app; auto.
Qed.
End Append.

(* ================================================================================================ *)
(* 8. Theorems about single steps and histories: invariants, closedness, frames                       *)
(* ================================================================================================ *)
Section Theorems.
Context {T : Type} (O : Ops T).
Notation state := (state T).
Implicit Types (st : state) (ids : list nat) (o : op T).

Lemma fp_ok_all st o : fp_ok all all all all all st o.
Proof. unfold fp_ok, all. repeat split; auto. Qed.
Lemma fp_ok_exact st o : fp_ok (fpSw st o) (fpS st o) (fpLw st o) (fpL st o) (fpP o) st o.
Proof.
  unfold fp_ok, fpSw, fpS, fpLw, fpL, fpP. repeat split; auto.
Qed.

Theorem step_inv st o : inv st -> inv (fst (step O st o)).
Proof. intros I. exact (proj1 (step_ok_gen O all all all all all st o I (fp_ok_all st o))). Qed.
Theorem run_inv ops : forall st, inv st -> inv (run O st ops).
Proof. induction ops as [|o r IH]; intros st I; simpl; [exact I|]. apply IH. now apply step_inv. Qed.

(* the footprint of one operation, exactly *)
Theorem step_footprint st o : inv st ->
  within (fpSw st o) (fpS st o) (fpLw st o) (fpL st o) (fpP o) (st_ns st) (st_nl st) (st_np st) st (fst (step O st o)).
Proof. intros I. exact (proj2 (step_ok_gen O _ _ _ _ _ st o I (fp_ok_exact st o))). Qed.

(* closedness: no operation (successful or not) changes the closed flag of any existing path *)
Theorem step_closed st o pid hp : inv st -> st_paths st pid = Some hp ->
  exists hp', st_paths (fst (step O st o)) pid = Some hp' /\ hp_closed hp' = hp_closed hp.
Proof. intros I H. exact (w_closed _ _ _ _ _ _ _ _ _ _ (step_footprint st o I) _ _ H). Qed.
Theorem run_closed ops : forall st pid hp, inv st -> st_paths st pid = Some hp ->
  exists hp', st_paths (run O st ops) pid = Some hp' /\ hp_closed hp' = hp_closed hp.
Proof.
  induction ops as [|o r IH]; intros st pid hp I H; simpl; [eauto|].
  destruct (step_closed st o pid hp I H) as (hp1 & H1 & E1).
  destruct (IH _ pid hp1 (step_inv st o I) H1) as (hp2 & H2 & E2). exists hp2. split; [exact H2|congruence].
Qed.

(* mutators_frame: which pre-existing objects an operation can have written.
   - segment objects: only round / balance / removeIrrelevantSegments write segment objects, and only those held by the
     receiver's list;
   - list objects: only quadraticsToCubics / append assign into a list object, and only into the receiver's (append
     links the argument's segment objects, or its list object when the receiver is empty, but never writes them);
   - path objects: only the receiver is rebound (and the argument of append, by the representation switch of asSegments) *)
Theorem mutators_frame st o : inv st ->
  let st' := fst (step O st o) in
  (forall id, id < st_ns st -> ~ (mutates_segs o = true /\ In id (pids st (receiver o))) -> st_segs st' id = st_segs st id) /\
  (forall lid, lid < st_nl st -> ~ (mutates_list o = true /\ plist st (receiver o) = Some lid) -> st_lists st' lid = st_lists st lid) /\
  (forall x, x < st_np st -> x <> receiver o -> x <> arg o -> st_paths st' x = st_paths st x).
Proof.
  intros I st'. pose proof (step_footprint st o I) as W. split; [|split].
  - intros id Hlt Hn. exact (w_segs _ _ _ _ _ _ _ _ _ _ W id Hlt Hn).
  - intros lid Hlt Hn. exact (w_lists _ _ _ _ _ _ _ _ _ _ W lid Hlt Hn).
  - intros x Hlt H1 H2. apply (w_paths _ _ _ _ _ _ _ _ _ _ W x Hlt). unfold fpP. intros [E|E]; contradiction.
Qed.

(* pure_ops_frame: operations that are documented as returning a new object (clone, flatten), and indeed every operation
   other than the five mutators, leave every pre-existing segment object and list object unchanged, and leave the value
   (view) of every pre-existing path unchanged except that of a rebinding operation's own receiver *)
Definition is_pure o : bool := negb (mutates_segs o) && negb (mutates_list o).
Theorem pure_ops_frame st o : inv st -> is_pure o = true ->
  let st' := fst (step O st o) in
  (forall id, id < st_ns st -> st_segs st' id = st_segs st id) /\
  (forall lid, lid < st_nl st -> st_lists st' lid = st_lists st lid) /\
  (forall x, x <> receiver o -> st_paths st x <> None -> view O st' x = view O st x).
Proof.
  intros I Hp st'. pose proof (step_footprint st o I) as W.
  apply andb_prop in Hp as [H1 H2]. apply negb_true_iff in H1, H2.
  split; [|split].
  - intros id Hlt. apply (w_segs _ _ _ _ _ _ _ _ _ _ W id Hlt). unfold fpSw. rewrite H1. intros [? _]; discriminate.
  - intros lid Hlt. apply (w_lists _ _ _ _ _ _ _ _ _ _ W lid Hlt). unfold fpLw. rewrite H2. intros [? _]; discriminate.
  - intros x Hx Hl.
    assert (Ha : arg o = receiver o) by (destruct o; try reflexivity; discriminate).
    apply (view_within O _ _ _ _ _ st st' x I W Hl).
    + unfold fpP. rewrite Ha. intros [E|E]; contradiction.
    + intros l _. unfold fpLw. rewrite H2. intros [? _]; discriminate.
    + intros id _. unfold fpSw. rewrite H1. intros [? _]; discriminate.
Qed.
(* ... and the receiver of clone / flatten keeps its value too (only its representation may switch to segments) *)
Theorem clone_flatten_receiver st o st' r vals cl : inv st -> (exists p, o = OClone p) \/ (exists p d s, o = OFlatten p d s) ->
  view O st (receiver o) = Some (vals, cl) -> NoDup (pids st (receiver o)) -> step O st o = (st', r) -> r <> OErr ->
  view O st' (receiver o) = Some (vals, cl).
Proof.
  intros I Ho V ND H Hr. pose proof (step_view O st o st' r vals cl I V ND H Hr) as SP.
  destruct Ho as [[p ->]|(p & d & s & ->)]; cbn [view_post receiver] in *.
  - destruct SP as (np & _ & Vp & _). exact Vp.
  - destruct SP as (np & plan & _ & Vp & _). exact Vp.
Qed.
End Theorems.

(* ================================================================================================ *)
(* 9. Connectivity and end points                                                                    *)
(* ================================================================================================ *)
Section Wf.
Context {T : Type} (O : Ops T).
Notation state := (state T).
Implicit Types (st : state) (ids : list nat) (o : op T) (vals : list (segment T)).

Lemma linked_last_rev vals a b l1 r : linked a vals b -> rev vals = l1 :: r -> seg_end l1 = b.
Proof.
  intros H E. assert (E2 : vals = rev r ++ [l1]) by (rewrite <- (rev_involutive vals), E; reflexivity). subst vals.
  apply linked_snoc in H. tauto.
Qed.

(* append: the join is exact when a joining line is inserted; when the ends are isclose-equal no line is inserted and
   the chain is connected only if they were exactly equal *)
Definition join_exact (vals1 vals2 : list (segment T)) : Prop :=
  forall e1 s2, last_end vals1 = Some e1 -> (first_start vals2 = Some s2 \/ last_end vals2 = Some s2) ->
                Point___eq__ O e1 s2 = true -> e1 = s2.
Lemma linked_v_append vals1 vals2 a b c d : linked a vals1 b -> linked c vals2 d -> vals1 <> [] -> vals2 <> [] ->
  join_exact vals1 vals2 -> v_append O vals1 vals2 <> [] /\ (linked a (v_append O vals1 vals2) d \/ linked a (v_append O vals1 vals2) c).
Proof.
  intros H1 H2 N1 N2 J. unfold v_append.
  destruct (rev vals1) as [|l1 r1] eqn:E1; [exfalso; apply N1; rewrite <- (rev_involutive vals1), E1; reflexivity|].
  destruct vals2 as [|f2 r2] eqn:E2; [congruence|]. rewrite <- E2 in *.
  pose proof (linked_last_rev _ _ _ _ _ H1 E1) as He1.
  destruct (linked_ends _ _ _ H1 N1) as [_ Le1]. destruct (linked_ends _ _ _ H2 N2) as [Fs2 Le2].
  assert (Hc : seg_start f2 = c) by (rewrite E2 in H2; destruct H2; assumption).
  rewrite He1, Hc.
  match goal with |- context [if ?c then _ else _] => destruct c end.
  - pose proof (linked_reverse O _ _ _ H2) as HR.
    set (rvals := rev (map (seg_reversed O) vals2)) in *.
    assert (Hs : match rvals with v :: _ => seg_start v | [] => b end = d).
    { destruct rvals as [|v rv] eqn:Er; [|destruct HR; assumption].
      exfalso. apply N2. assert (length (rev (map (seg_reversed O) vals2)) = 0) by (fold rvals; now rewrite Er).
      rewrite rev_length, map_length in H. destruct vals2; [reflexivity|discriminate]. }
    rewrite Hs.
    destruct (negb (Point___eq__ O b d)) eqn:En.
    + split; [destruct vals1; [congruence|discriminate]|]. right. apply linked_app. exists b. split; [exact H1|]. simpl. auto.
    + split; [destruct vals1; [congruence|discriminate]|]. right. apply linked_app. exists b. split; [exact H1|].
      apply negb_false_iff in En. rewrite (J b d Le1 (or_intror Le2) En). exact HR.
  - destruct (negb (Point___eq__ O b c)) eqn:En.
    + split; [destruct vals1; [congruence|discriminate]|]. left. apply linked_app. exists b. split; [exact H1|]. simpl. auto.
    + split; [destruct vals1; [congruence|discriminate]|]. left. apply linked_app. exists b. split; [exact H1|].
      apply negb_false_iff in En. rewrite (J b c Le1 (or_introl Fs2) En). exact H2.
Qed.

(* segments -> node list -> segments on a connected chain: the same chain, or (closed path whose end is not isclose to
   its start) the chain plus one closing line *)
Lemma roundtrip_linked cl vals a b : linked a vals b -> vals <> [] ->
  exists vals', obind (fromNodelist O cl) (toNodelist vals) = Some vals' /\
                (vals' = vals \/ (cl = true /\ vals' = vals ++ [SLine (L2 b a)])).
Proof.
  intros HL Hne. destruct vals as [|s r]; [congruence|].
  pose proof (linked_wf _ _ _ HL) as Hwf. pose proof (roundtrip_walk O cl s r Hwf) as E. unfold roundtrip in E. rewrite E.
  pose proof (wf_linked s r Hwf) as HL2. assert (Ea : seg_start s = a) by (destruct HL; assumption). rewrite Ea in *.
  rewrite (linked_fun _ _ _ _ HL2 HL). unfold finish. destruct cl; [|eauto].
  destruct (pclose O b a); [eauto|]. simpl. eexists. split; [reflexivity|]. right. auto.
Qed.

Definition img o (a : pt T) : pt T :=
  match o with
  | OTranslate _ v => pt_translated O a v
  | ORotate _ c ang => pt_rotated O a c ang
  | OScale _ k => pt_scaled O a k
  | ORound _ => Point_rounded O a
  | _ => a
  end.

Section WithEqb.
Hypothesis eqb_sound : forall x y : T, eqb O x y = true -> x = y.

Lemma flat_plan_ok degree vals plan : Forall2 (flat_entry O degree) vals plan -> Forall2 (plan_ok) vals plan.
Proof.
  induction 1 as [|v x r pr Hx Hr IH]; constructor; [|exact IH]. destruct x as [u|ls]; [exact Logic.I|].
  destruct Hx as [_ [smp Hc]]. split; [eapply curve_flat_nonempty; eauto|eapply curve_flat_linked; eauto].
Qed.

(* the receiver after one operation (other than append): still a chain, closed flag kept, end points mapped;
   a path created by the operation is a chain with the receiver's (old) end points *)
Theorem step_wf st o st' r vals cl a b : inv st -> (forall p q, o <> OAppend p q) ->
  view O st (receiver o) = Some (vals, cl) -> NoDup (pids st (receiver o)) -> linked a vals b -> vals <> [] ->
  step O st o = (st', r) -> r <> OErr ->
  (exists vals', view O st' (receiver o) = Some (vals', cl) /\ NoDup (pids st' (receiver o)) /\ vals' <> [] /\
     match o with
     | OReverse _ => linked b vals' a
     | OAsNodelist _ | OFromNodelist _ => linked a vals' b \/ (cl = true /\ linked a vals' a)
     | _ => linked (img o a) vals' (img o b)
     end) /\
  (forall np, r = ONew np ->
     exists nvals cl', view O st' np = Some (nvals, cl') /\ NoDup (pids st' np) /\ nvals <> [] /\
                       (cl' = cl \/ exists p, o = OFromSegments p) /\ (linked a nvals b \/ (cl = true /\ linked a nvals a))).
Proof.
  intros I Hna V ND HL Hne H Hr. pose proof (step_view O st o st' r vals cl I V ND H Hr) as SP.
  assert (Hmap : forall (f : segment T -> segment T), map f vals <> []) by (intros f; destruct vals; [congruence|discriminate]).
  destruct o; cbn [view_post receiver img] in *.
  - destruct SP as [SV SN]. split; [|intros np E; subst r; cbn [step] in H; repeat (match type of H with context [match ?c with _ => _ end] => destruct c end); discriminate].
    eexists. split; [exact SV|]. split; [exact SN|]. split; [apply Hmap|]. now apply linked_translate.
  - destruct SP as [SV SN]. split; [|intros np E; subst r; cbn [step] in H; repeat (match type of H with context [match ?c with _ => _ end] => destruct c end); discriminate].
    eexists. split; [exact SV|]. split; [exact SN|]. split; [apply Hmap|]. now apply linked_rotate.
  - destruct SP as [SV SN]. split; [|intros np E; subst r; cbn [step] in H; repeat (match type of H with context [match ?c with _ => _ end] => destruct c end); discriminate].
    eexists. split; [exact SV|]. split; [exact SN|]. split; [apply Hmap|]. now apply linked_scale.
  - destruct SP as [SV SN]. split; [|intros np E; subst r; cbn [step] in H; repeat (match type of H with context [match ?c with _ => _ end] => destruct c end); discriminate].
    eexists. split; [exact SV|]. split; [exact SN|]. split; [|now apply linked_reverse].
    intros E. apply (Hmap (seg_reversed O)). rewrite <- (rev_involutive (map _ vals)), E. reflexivity.
  - destruct SP as (plan & Es & SV & SN). split; [|intros np E; subst r; cbn [step] in H; unfold do_split in H; repeat (match type of H with context [match ?c with _ => _ end] => destruct c end); discriminate].
    pose proof (split_walk_ok O _ _ _ Es) as HF.
    eexists. split; [exact SV|]. split; [exact SN|]. split; [now apply plan_nonempty|]. now apply linked_plan.
  - destruct SP as (sl & plan & Ec & Es & SV & SN). split; [|intros np E; subst r; cbn [step] in H; unfold do_split in H; repeat (match type of H with context [match ?c with _ => _ end] => destruct c end); discriminate].
    pose proof (split_walk_ok O _ _ _ Es) as HF.
    eexists. split; [exact SV|]. split; [exact SN|]. split; [now apply plan_nonempty|]. now apply linked_plan.
  - destruct SP as [SV SN]. split; [|intros np E; subst r; cbn [step] in H; repeat (match type of H with context [match ?c with _ => _ end] => destruct c end); discriminate].
    eexists. split; [exact SV|]. split; [exact SN|]. split; [apply Hmap|]. now apply linked_balance.
  - destruct SP as [SV SN]. split; [|intros np E; subst r; cbn [step] in H; repeat (match type of H with context [match ?c with _ => _ end] => destruct c end); discriminate].
    eexists. split; [exact SV|]. split; [exact SN|]. split; [apply Hmap|]. now apply linked_round.
  - destruct SP as [SV SN]. split; [|intros np E; subst r; cbn [step] in H; repeat (match type of H with context [match ?c with _ => _ end] => destruct c end); discriminate].
    eexists. split; [exact SV|]. split; [exact SN|]. split; [apply Hmap|]. now apply linked_q2c.
  - destruct SP as (vals' & SV & SN & _ & Ch). split; [|intros np E; subst r; cbn [step] in H; repeat (match type of H with context [match ?c with _ => _ end] => destruct c end); discriminate].
    destruct (Ch a b HL) as [HL' Hne']. exists vals'. auto.
  - destruct SP as (np & plan & -> & SV & SN & HF & NV & NN). pose proof (flat_plan_ok _ _ _ HF) as HF'. split.
    + exists vals. auto.
    + intros np' E. injection E as <-. exists (plan_values vals plan), cl. split; [exact NV|]. split; [exact NN|].
      split; [now apply plan_nonempty|]. split; [now left|]. left. now apply linked_plan.
  - exfalso. eapply Hna. reflexivity.
  - destruct SP as (np & -> & SV & SN & NV & NN). split.
    + exists vals. auto.
    + intros np' E. injection E as <-. exists vals, cl. split; [exact NV|]. split; [exact NN|]. split; [exact Hne|]. split; [now left|]. now left.
  - destruct SP as [SV SN]. split; [|intros np E; subst r; cbn [step] in H; repeat (match type of H with context [match ?c with _ => _ end] => destruct c end); discriminate].
    destruct (roundtrip_linked cl vals a b HL Hne) as (vals' & Er & D).
    destruct SV as [SV|SV]; [exists vals; auto|]. rewrite Er in SV. simpl in SV. exists vals'. split; [exact SV|]. split; [exact SN|].
    destruct D as [->|[-> ->]]; [auto|]. split; [destruct vals; discriminate|]. right. split; [reflexivity|].
    apply linked_snoc. simpl. auto.
  - destruct SP as [SV SN]. split; [|intros np E; subst r; cbn [step] in H; repeat (match type of H with context [match ?c with _ => _ end] => destruct c end); discriminate].
    exists vals. auto.
  - destruct SP as (np & -> & SV & SN & NV & NN). split.
    + exists vals. auto.
    + intros np' E. injection E as <-. exists vals, true. split; [exact NV|]. split; [exact NN|]. split; [exact Hne|]. split; [right; eauto|]. now left.
  - destruct SP as (np & vals' & -> & SV & SN & NV & NN & D).
    assert (HD : vals' <> [] /\ (linked a vals' b \/ (cl = true /\ linked a vals' a))).
    { destruct D as [->|D]; [auto|]. destruct (roundtrip_linked cl vals a b HL Hne) as (v2 & Er & D2). rewrite Er in D. injection D as <-.
      destruct D2 as [->|[-> ->]]; [auto|]. split; [destruct vals; discriminate|]. right. split; [reflexivity|]. apply linked_snoc. simpl. auto. }
    destruct HD as [HD1 HD2]. split.
    + exists vals'. auto.
    + intros np' E. injection E as <-. exists vals', cl. split; [exact NV|]. split; [exact NN|]. split; [exact HD1|]. split; [now left|exact HD2].
Qed.
End WithEqb.
End Wf.

Section NewPaths.
Context {T : Type} (O : Ops T).
Notation state := (state T).
Implicit Types (st : state) (ids : list nat) (o : op T).

Lemma as_segments_np st p st1 cl lid ids : as_segments O st p = Some (st1, cl, lid, ids) -> st_np st1 = st_np st.
Proof.
  unfold as_segments. destruct (st_paths st p) as [[[l|nl] c]|]; simpl; try discriminate.
  - destruct (st_lists st l); [|discriminate]. intros H; injection H as <- _ _ _. reflexivity.
  - destruct (fromNodelist O c nl); [|discriminate]. destruct (alloc_segs st (map fresh l)) as [sta nids] eqn:Ea.
    intros H; injection H as <- _ _ _. simpl. destruct (alloc_segs_spec _ _ _ _ Ea) as (_ & _ & _ & E & _). exact E.
Qed.
Lemma as_nodelist_np st p st1 cl nl : as_nodelist st p = Some (st1, cl, nl) -> st_np st1 = st_np st.
Proof.
  unfold as_nodelist. destruct (st_paths st p) as [[[l|nl0] c]|]; simpl; try discriminate.
  - destruct (st_lists st l); [|discriminate]. destruct (get_vals st l0); [|discriminate]. destruct (toNodelist l1); [|discriminate].
    intros H; injection H as <- _ _. reflexivity.
  - intros H; injection H as <- _ _. reflexivity.
Qed.
Lemma install_fresh_np st p cl vals : st_np (install_fresh st p cl vals) = st_np st.
Proof.
  unfold install_fresh. destruct (alloc_segs st (map fresh vals)) as [sta nids] eqn:Ea. simpl.
  destruct (alloc_segs_spec _ _ _ _ Ea) as (_ & _ & _ & E & _). exact E.
Qed.
Lemma wrap_np st p cl lid ids : st_np (wrap st p cl lid ids) = st_np st.
Proof. unfold wrap. destruct ids; reflexivity. Qed.

(* an operation allocates at most one path, the one it returns *)
Theorem step_np st o st' r : inv st -> step O st o = (st', r) ->
  (st_np st' = st_np st /\ forall np, r <> ONew np) \/ (r = ONew (st_np st) /\ st_np st' = S (st_np st)).
Proof.
  intros I H.
  assert (B : based (st_ns st) (st_nl st) (st_np st) st) by apply based_self.
  destruct o; cbn [step] in H.
  1-4: (destruct (as_segments O st p) as [[[[st1 cl] lid] ids]|] eqn:Ea; [|injection H as <- <-; left; split; [reflexivity|discriminate]];
        pose proof (as_segments_np _ _ _ _ _ _ Ea) as N1;
        destruct (get_vals st1 ids); injection H as <- <-; left; (split; [|discriminate]); [rewrite install_fresh_np|]; exact N1).
  - destruct (as_segments O st p) as [[[[st1 cl] lid] ids]|] eqn:Ea; [|injection H as <- <-; left; split; [reflexivity|discriminate]].
    pose proof (as_segments_np _ _ _ _ _ _ Ea) as N1. destruct (get_vals st1 ids); [|injection H as <- <-; left; split; [exact N1|discriminate]].
    unfold do_split in H. destruct (split_walk O _ l) as [plan|]; [|injection H as <- <-; left; split; [exact N1|discriminate]].
    destruct (realize_plan st1 ids plan) as [st2 nids] eqn:Er.
    destruct (as_segments_ok O all all all all all _ _ _ st p st1 cl lid ids I B Logic.I Ea) as (I1 & _ & _ & E2 & _).
    destruct (realize_plan_ok all all all all all _ _ _ ids plan st1 st2 nids I1 (based_self st1) (okids_all _ _)
                (fun id Hin => i_list_segs _ I1 _ _ _ E2 Hin) Er) as (_ & _ & AO & _).
    injection H as <- <-. left. split; [|discriminate]. simpl. destruct AO as (_ & _ & _ & E & _). congruence.
  - destruct (as_segments O st p) as [[[[st1 cl] lid] ids]|] eqn:Ea; [|injection H as <- <-; left; split; [reflexivity|discriminate]].
    pose proof (as_segments_np _ _ _ _ _ _ Ea) as N1. destruct (get_vals st1 ids); [|injection H as <- <-; left; split; [exact N1|discriminate]].
    destruct (resolve_cuts l cuts); [|injection H as <- <-; left; split; [exact N1|discriminate]].
    unfold do_split in H. destruct (split_walk O _ l) as [plan|]; [|injection H as <- <-; left; split; [exact N1|discriminate]].
    destruct (realize_plan st1 ids plan) as [st2 nids] eqn:Er.
    destruct (as_segments_ok O all all all all all _ _ _ st p st1 cl lid ids I B Logic.I Ea) as (I1 & _ & _ & E2 & _).
    destruct (realize_plan_ok all all all all all _ _ _ ids plan st1 st2 nids I1 (based_self st1) (okids_all _ _)
                (fun id Hin => i_list_segs _ I1 _ _ _ E2 Hin) Er) as (_ & _ & AO & _).
    injection H as <- <-. left. split; [|discriminate]. simpl. destruct AO as (_ & _ & _ & E & _). congruence.
  - destruct (as_segments O st p) as [[[[st1 cl] lid] ids]|] eqn:Ea; [|injection H as <- <-; left; split; [reflexivity|discriminate]].
    pose proof (as_segments_np _ _ _ _ _ _ Ea) as N1.
    destruct (as_segments_ok O all all all all all _ _ _ st p st1 cl lid ids I B Logic.I Ea) as (I1 & _).
    destruct (mutate_all (seg_balanced O) st1 ids) as [st2|] eqn:Em; [|injection H as <- <-; left; split; [exact N1|discriminate]].
    destruct (mutate_all_ok all all all all all _ _ _ _ ids st1 st2 I1 (based_self st1) (okw_all _ _) Em) as (_ & _ & _ & _ & _ & _ & E & _).
    injection H as <- <-. left. split; [|discriminate]. rewrite wrap_np. congruence.
  - destruct (as_segments O st p) as [[[[st1 cl] lid] ids]|] eqn:Ea; [|injection H as <- <-; left; split; [reflexivity|discriminate]].
    pose proof (as_segments_np _ _ _ _ _ _ Ea) as N1.
    destruct (as_segments_ok O all all all all all _ _ _ st p st1 cl lid ids I B Logic.I Ea) as (I1 & _).
    destruct (mutate_all (seg_rounded O) st1 ids) as [st2|] eqn:Em; [|injection H as <- <-; left; split; [exact N1|discriminate]].
    destruct (mutate_all_ok all all all all all _ _ _ _ ids st1 st2 I1 (based_self st1) (okw_all _ _) Em) as (_ & _ & _ & _ & _ & _ & E & _).
    injection H as <- <-. left. split; [|discriminate]. rewrite wrap_np. congruence.
  - destruct (as_segments O st p) as [[[[st1 cl] lid] ids]|] eqn:Ea; [|injection H as <- <-; left; split; [reflexivity|discriminate]].
    pose proof (as_segments_np _ _ _ _ _ _ Ea) as N1.
    destruct (as_segments_ok O all all all all all _ _ _ st p st1 cl lid ids I B Logic.I Ea) as (I1 & _ & _ & E2 & _).
    destruct (q2c_walk O st1 ids) as [[st2 nids]|] eqn:Eq; [|injection H as <- <-; left; split; [exact N1|discriminate]].
    destruct (q2c_walk_ok O all all all all all _ _ _ ids st1 st2 nids I1 (based_self st1) (okids_all _ _)
                (fun id Hin => i_list_segs _ I1 _ _ _ E2 Hin) Eq) as (_ & _ & AO & _).
    injection H as <- <-. left. split; [|discriminate]. simpl. destruct AO as (_ & _ & _ & E & _). congruence.
  - destruct (as_segments O st p) as [[[[st1 cl] lid] ids]|] eqn:Ea; [|injection H as <- <-; left; split; [reflexivity|discriminate]].
    pose proof (as_segments_np _ _ _ _ _ _ Ea) as N1.
    destruct (as_segments_ok O all all all all all _ _ _ st p st1 cl lid ids I B Logic.I Ea) as (I1 & _ & _ & E2 & _).
    destruct ids as [|first rest]; [injection H as <- <-; left; split; [exact N1|discriminate]|].
    destruct (get_vals st1 (first :: rest)); [|injection H as <- <-; left; split; [exact N1|discriminate]].
    destruct (remove_loop O _ absLength st1 [first] rest) as [[st2 nids]|] eqn:Er; [|injection H as <- <-; left; split; [exact N1|discriminate]].
    destruct (remove_loop_ok O all all all all all _ _ _ _ absLength rest st1 [first] st2 nids I1 (based_self st1) (okw_all _ _)
                (fun id Hin => i_list_segs _ I1 _ _ _ E2 Hin) Er) as (_ & _ & _ & _ & _ & _ & E & _).
    injection H as <- <-. left. split; [|discriminate]. simpl. congruence.
  - destruct (as_segments O st p) as [[[[st1 cl] lid] ids]|] eqn:Ea; [|injection H as <- <-; left; split; [reflexivity|discriminate]].
    pose proof (as_segments_np _ _ _ _ _ _ Ea) as N1.
    destruct (as_segments_ok O all all all all all _ _ _ st p st1 cl lid ids I B Logic.I Ea) as (I1 & _ & _ & E2 & _).
    destruct (flatten_walk O st1 degree ids samples) as [[st2 nids]|] eqn:Ef; [|injection H as <- <-; left; split; [exact N1|discriminate]].
    destruct (flatten_walk_ok O all all all all all _ _ _ degree ids samples st1 st2 nids I1 (based_self st1) (okids_all _ _)
                (fun id Hin => i_list_segs _ I1 _ _ _ E2 Hin) Ef) as (_ & _ & AO & _).
    injection H as <- <-. right. destruct AO as (_ & _ & _ & E & _). simpl. rewrite E, N1. auto.
  - destruct (as_segments O st p) as [[[[st1 cl] lid] ids]|] eqn:Ea; [|injection H as <- <-; left; split; [reflexivity|discriminate]].
    pose proof (as_segments_np _ _ _ _ _ _ Ea) as N1.
    destruct (as_segments O st1 q) as [[[[st2 cl2] lid2] ids2]|] eqn:Eb; [|injection H as <- <-; left; split; [exact N1|discriminate]].
    pose proof (as_segments_np _ _ _ _ _ _ Eb) as N2.
    assert (N12 : st_np st2 = st_np st) by congruence.
    assert (Hw : forall l i, st_np (wrap st2 p cl l i) = st_np st) by (intros; now rewrite wrap_np).
    destruct (rev ids); [injection H as <- <-; left; split; [apply Hw|discriminate]|].
    destruct ids2; [injection H as <- <-; left; split; [apply Hw|discriminate]|].
    unfold alloc_seg in H.
    repeat match type of H with
    | _ => progress cbv beta iota zeta in H
    | (let '(_, _) := alloc_segs ?s ?l in _) = _ => let Ea3 := fresh "Ea3" in destruct (alloc_segs s l) as [?st3 ?rids] eqn:Ea3;
         destruct (alloc_segs_spec _ _ _ _ Ea3) as (_ & _ & _ & ?EN & _)
    | match ?c with _ => _ end = _ => destruct c
    | (if ?c then _ else _) = _ => destruct c
    end; injection H as <- <-; left; (split; [|discriminate]); simpl; congruence.
  - destruct (as_segments O st p) as [[[[st1 cl] lid] ids]|] eqn:Ea; [|injection H as <- <-; left; split; [reflexivity|discriminate]].
    pose proof (as_segments_np _ _ _ _ _ _ Ea) as N1. destruct (get_vals st1 ids); [|injection H as <- <-; left; split; [exact N1|discriminate]].
    destruct (alloc_segs st1 _) as [st2 nids] eqn:Ea2. destruct (alloc_segs_spec _ _ _ _ Ea2) as (_ & _ & _ & E & _).
    injection H as <- <-. right. simpl. rewrite E, N1. auto.
  - destruct (as_nodelist st p) as [[[st1 cl] nl]|] eqn:Ea; injection H as <- <-; left; (split; [|discriminate]); [|reflexivity].
    exact (as_nodelist_np _ _ _ _ _ Ea).
  - destruct (as_segments O st p) as [[[[st1 cl] lid] ids]|] eqn:Ea; injection H as <- <-; left; (split; [|discriminate]); [|reflexivity].
    exact (as_segments_np _ _ _ _ _ _ Ea).
  - destruct (as_segments O st p) as [[[[st1 cl] lid] ids]|] eqn:Ea; [|injection H as <- <-; left; split; [reflexivity|discriminate]].
    pose proof (as_segments_np _ _ _ _ _ _ Ea) as N1. destruct ids; injection H as <- <-; right; simpl; rewrite N1; auto.
  - destruct (as_nodelist st p) as [[[st1 cl] nl]|] eqn:Ea; [|injection H as <- <-; left; split; [reflexivity|discriminate]].
    pose proof (as_nodelist_np _ _ _ _ _ Ea) as N1.
    destruct (fromNodelist O cl nl); [|injection H as <- <-; left; split; [exact N1|discriminate]].
    destruct (alloc_segs st1 _) as [st2 nids] eqn:Ea2. destruct (alloc_segs_spec _ _ _ _ Ea2) as (_ & _ & _ & E & _).
    injection H as <- <-. right. simpl. rewrite E, N1. auto.
Qed.
End NewPaths.

(* ================================================================================================ *)
(* 10. All live paths, whole histories                                                               *)
(* ================================================================================================ *)
Section Histories.
Context {T : Type} (O : Ops T).
Notation state := (state T).
Implicit Types (st : state) (ids : list nat) (o : op T).
Hypothesis eqb_sound : forall x y : T, eqb O x y = true -> x = y.

Definition live st x : Prop := st_paths st x <> None.
(* a well-formed path: non-empty, every segment starts exactly where its predecessor ends, and no segment object occurs
   twice in its list *)
Definition wfp st x : Prop :=
  exists vals cl a b, view O st x = Some (vals, cl) /\ vals <> [] /\ linked a vals b /\ NoDup (pids st x).
Definition others_apart st p : Prop := forall x, x <> p -> live st x -> apart st p x.
(* when is it safe to apply o: a mutator's receiver must not share objects with another live path; append needs an exact
   (or clearly open) join *)
Definition safe st o : Prop :=
  match o with
  | ORound p | OBalance p | ORemove p _ _ | OQ2C p => others_apart st p
  | OAppend p q => p <> q /\ live st q /\ others_apart st p /\
        forall vals1 cl vals2 cl2, view O st p = Some (vals1, cl) -> view O st q = Some (vals2, cl2) -> join_exact O vals1 vals2
  | _ => True
  end.

Lemma step_dead st o : st_paths st (receiver o) = None -> snd (step O st o) = OErr.
Proof.
  intros H. destruct o; cbn [step receiver] in *; unfold as_segments, as_nodelist; rewrite H; reflexivity.
Qed.

Lemma append_not_new st p q st' n : step O st (OAppend p q) = (st', ONew n) -> False.
Proof.
  intros H. cbn [step] in H. unfold wrap, alloc_seg in H.
  repeat match type of H with
  | _ => progress cbv beta iota zeta in H
  | (let '(_, _) := ?c in _) = _ => destruct c
  | match ?c with _ => _ end = _ => destruct c
  | (if ?c then _ else _) = _ => destruct c end; discriminate.
Qed.

Lemma step_wf_recv st o st' r vals cl a b : inv st -> (forall p q, o <> OAppend p q) ->
  view O st (receiver o) = Some (vals, cl) -> NoDup (pids st (receiver o)) -> linked a vals b -> vals <> [] ->
  step O st o = (st', r) -> r <> OErr -> wfp st' (receiver o).
Proof.
  intros I Hna V ND HL Hne H Hr.
  destruct (step_wf O eqb_sound st o st' r vals cl a b I Hna V ND HL Hne H Hr) as [(vals' & V' & N' & Hne' & M) _].
  unfold wfp. exists vals', cl.
  destruct o; try (eexists _, _; split; [exact V'|]; split; [exact Hne'|]; split; [exact M|exact N']).
  - destruct M as [M|M].
    + exists a, b. split; [exact V'|]. split; [exact Hne'|]. split; [exact M|exact N'].
    + destruct M as (_ & M). exists a, a. split; [exact V'|]. split; [exact Hne'|]. split; [exact M|exact N'].
  - destruct M as [M|M].
    + exists a, b. split; [exact V'|]. split; [exact Hne'|]. split; [exact M|exact N'].
    + destruct M as (_ & M). exists a, a. split; [exact V'|]. split; [exact Hne'|]. split; [exact M|exact N'].
Qed.

Theorem step_preserves_wf st o st' r : inv st -> (forall x, live st x -> wfp st x) -> safe st o ->
  step O st o = (st', r) -> r <> OErr -> forall x, live st' x -> wfp st' x.
Proof.
  intros I WF Sf H Hr x Lx.
  assert (I' : inv st') by (pose proof (step_inv O st o I) as Hi; now rewrite H in Hi).
  pose proof (step_footprint O st o I) as W. rewrite H in W. cbn [fst] in W.
  assert (Lp : live st (receiver o)).
  { intros Hd. apply Hr. pose proof (step_dead st o Hd) as E. now rewrite H in E. }
  destruct (WF _ Lp) as (vals & cl & a & b & V & Hne & HL & ND).
  (* paths that are neither the receiver nor the argument nor new *)
  assert (By : forall y, y <> receiver o -> y <> arg o -> live st y ->
                 (mutates_segs o = true \/ mutates_list o = true -> apart st (receiver o) y) -> wfp st' y).
  { intros y N1 N2 Ly Ap. destruct (WF y Ly) as (v & c & a' & b' & Vy & Hy1 & Hy2 & Hy3).
    destruct (view_within O _ _ _ _ _ st st' y I W Ly) as (_ & Vy' & Py' & _).
    - unfold fpP. intros [E|E]; contradiction.
    - intros l Hl [Hm Hpl]. destruct (Ap (or_intror Hm)) as [_ A2]. exact (A2 l Hpl Hl).
    - intros id Hin [Hm Hp]. destruct (Ap (or_introl Hm)) as [A1 _]. exact (A1 id Hp Hin).
    - exists v, c, a', b'. rewrite Vy', Py'. auto. }
  assert (Old : forall y, y < st_np st -> y <> receiver o -> y <> arg o -> live st' y -> live st y).
  { intros y Hlt N1 N2 Ly. unfold live in *. rewrite <- (w_paths _ _ _ _ _ _ _ _ _ _ W y Hlt); [exact Ly|].
    unfold fpP. intros [E|E]; contradiction. }
  assert (Hlt' : x < st_np st') by (apply (inv_path_lt _ _ I'); exact Lx).
  destruct (step_np O st o st' r I H) as [[Enp Hnew]|[-> Enp]].
  - (* no path created *)
    rewrite Enp in Hlt'.
    destruct (Nat.eq_dec x (receiver o)) as [->|Nx].
    + destruct o; try (eapply step_wf_recv; [exact I| |exact V|exact ND|exact HL|exact Hne|exact H|exact Hr]; intros; discriminate).
      (* append *)
      cbn [receiver] in *. destruct Sf as (Npq & Lq & OA & J).
      destruct (WF _ Lq) as (vals2 & cl2 & c & d & V2 & Hne2 & HL2 & ND2).
      destruct (step_view_append O st p q st' r vals cl vals2 cl2 I Npq V V2 ND ND2 (OA q (not_eq_sym Npq) Lq) H Hr) as (Vp & Np & _).
      destruct (linked_v_append O vals vals2 a b c d HL HL2 Hne Hne2 (J _ _ _ _ V V2)) as [Hn [M|M]];
        exists (v_append O vals vals2), cl; eexists _, _; (split; [exact Vp|]; split; [exact Hn|]; split; [exact M|exact Np]).
    + destruct (Nat.eq_dec x (arg o)) as [->|Na].
      * destruct o; cbn [arg receiver] in *; try contradiction.
        destruct Sf as (Npq & Lq & OA & J).
        destruct (WF _ Lq) as (vals2 & cl2 & c & d & V2 & Hne2 & HL2 & ND2).
        destruct (step_view_append O st p q st' r vals cl vals2 cl2 I Npq V V2 ND ND2 (OA q (not_eq_sym Npq) Lq) H Hr) as (_ & _ & Vq & Nq).
        exists vals2, cl2, c, d. auto.
      * apply By; auto.
        intros Hm. destruct o; cbn [mutates_segs mutates_list receiver] in *; try (destruct Hm; discriminate);
          try (apply Sf; auto); destruct Sf as (_ & _ & OA & _); apply OA; auto.
  - (* one path created: st_np st *)
    destruct (Nat.eq_dec x (st_np st)) as [->|Nx].
    + assert (Hna : forall p q, o <> OAppend p q).
      { intros p q ->. exact (append_not_new _ _ _ _ _ H). }
      destruct (step_wf O eqb_sound st o st' _ vals cl a b I Hna V ND HL Hne H Hr) as [_ Hn].
      destruct (Hn _ eq_refl) as (nvals & cl' & Vn & Nn & Hnn & _ & [M|[_ M]]);
        exists nvals, cl'; eexists _, _; (split; [exact Vn|]; split; [exact Hnn|]; split; [exact M|exact Nn]).
    + assert (Hx : x < st_np st) by lia.
      destruct (Nat.eq_dec x (receiver o)) as [->|Nr].
      * eapply step_wf_recv; [exact I| |exact V|exact ND|exact HL|exact Hne|exact H|discriminate]. intros p q ->. exact (append_not_new _ _ _ _ _ H).
      * assert (Ha : arg o = receiver o).
        { destruct o; try reflexivity. exfalso. exact (append_not_new _ _ _ _ _ H). }
        apply By; auto; [now rewrite Ha|apply Old; auto; now rewrite Ha|].
        intros Hm. destruct o; cbn [mutates_segs mutates_list receiver] in *; try (destruct Hm; discriminate); try (apply Sf; auto).
        discriminate Ha || (apply Old; auto; now rewrite Ha).
Qed.
(* histories: every step is safe and succeeds *)
Fixpoint safe_run st (ops : list (op T)) : Prop :=
  match ops with
  | [] => True
  | o :: r => safe st o /\ snd (step O st o) <> OErr /\ safe_run (fst (step O st o)) r
  end.
Theorem run_preserves_wf ops : forall st, inv st -> (forall x, live st x -> wfp st x) -> safe_run st ops ->
  forall x, live (run O st ops) x -> wfp (run O st ops) x.
Proof.
  induction ops as [|o r IH]; intros st I WF Sf x Lx; simpl in *; [auto|].
  destruct Sf as (S1 & S2 & S3). destruct (step O st o) as [st' res] eqn:E. simpl in *.
  apply IH; auto.
  - pose proof (step_inv O st o I) as Hi. now rewrite E in Hi.
  - intros y Ly. eapply step_preserves_wf; eauto.
Qed.

(* ---------- groups of paths: operations inside a group never touch what the paths outside it can see ---------- *)
Lemma apart_sym st a b : apart st a b -> apart st b a.
Proof.
  intros [A1 A2]. split.
  - intros id H1 H2. exact (A1 id H2 H1).
  - intros l H1 H2. exact (A2 l H2 H1).
Qed.
Definition gsep st (G : nat -> Prop) : Prop := forall x y, G x -> ~ G y -> live st x -> live st y -> apart st x y.

Lemma plist_live st x l : plist st x = Some l -> live st x.
Proof. unfold plist, live. destruct (st_paths st x); [discriminate|discriminate]. Qed.
Lemma pids_live st x id : In id (pids st x) -> live st x.
Proof. unfold pids. destruct (plist st x) eqn:E; [|contradiction]. intros _. eapply plist_live; eauto. Qed.

Lemma step_group st o (G : nat -> Prop) : inv st -> gsep st G -> (forall n, st_np st <= n -> G n) ->
  G (receiver o) -> G (arg o) ->
  let st' := fst (step O st o) in
  inv st' /\ gsep st' G /\ (forall n, st_np st' <= n -> G n) /\
  (forall y, ~ G y -> live st y ->
     st_paths st' y = st_paths st y /\ view O st' y = view O st y /\ pids st' y = pids st y /\ plist st' y = plist st y).
Proof.
  intros I GS GN Gp Gq st'. pose proof (step_footprint O st o I) as W. fold st' in W.
  pose proof (step_inv O st o I) as I'. fold st' in I'.
  assert (Out : forall y, ~ G y -> live st y ->
     st_paths st' y = st_paths st y /\ view O st' y = view O st y /\ pids st' y = pids st y /\ plist st' y = plist st y).
  { intros y Gy Ly. apply (view_within O _ _ _ _ _ st st' y I W Ly).
    - unfold fpP. intros [->| ->]; contradiction.
    - intros l Hl [_ Hpl]. destruct (GS _ y Gp Gy (plist_live _ _ _ Hpl) Ly) as [_ A2]. exact (A2 l Hpl Hl).
    - intros id Hin [_ Hp]. destruct (GS _ y Gp Gy (pids_live _ _ _ Hp) Ly) as [A1 _]. exact (A1 id Hp Hin). }
  split; [exact I'|]. split; [|split; [|exact Out]].
  - intros x y Gx Gy Lx Ly.
    assert (Hy : y < st_np st).
    { destruct (Nat.lt_ge_cases y (st_np st)) as [L|L]; [exact L|]. exfalso. apply Gy. apply GN. exact L. }
    assert (Ly0 : live st y).
    { unfold live in *. rewrite <- (w_paths _ _ _ _ _ _ _ _ _ _ W y Hy); [exact Ly|]. unfold fpP. intros [->| ->]; contradiction. }
    destruct (Out y Gy Ly0) as (_ & _ & Py & Ply). unfold apart. rewrite Py, Ply.
    (* where do the list and the segment objects of x come from? *)
    assert (FS : forall id, fpS st o id -> ~ In id (pids st y)).
    { intros id [Hp|Hq] Hin.
      - destruct (GS _ y Gp Gy (pids_live _ _ _ Hp) Ly0) as [A1 _]. exact (A1 id Hp Hin).
      - destruct (GS _ y Gq Gy (pids_live _ _ _ Hq) Ly0) as [A1 _]. exact (A1 id Hq Hin). }
    assert (FL : forall l, fpL st o l -> plist st y <> Some l).
    { intros l [Hp|Hq].
      - destruct (GS _ y Gp Gy (plist_live _ _ _ Hp) Ly0) as [_ A2]. exact (A2 l Hp).
      - destruct (GS _ y Gq Gy (plist_live _ _ _ Hq) Ly0) as [_ A2]. exact (A2 l Hq). }
    unfold live in Lx. destruct (st_paths st' x) as [hp|] eqn:Ex; [|congruence].
    unfold pids, plist. rewrite Ex. destruct (hp_rep hp) as [lx|nl] eqn:Er; [|split; [intros ? []|discriminate]].
    assert (Hlx : (plist st x = Some lx /\ live st x) \/ fpL st o lx \/ st_nl st <= lx).
    { destruct (w_path_prov _ _ _ _ _ _ _ _ _ _ W _ _ Ex) as [E0|[_ E0]].
      - left. split; [unfold plist; now rewrite E0, Er|unfold live; rewrite E0; discriminate].
      - rewrite Er in E0. right. exact E0. }
    split.
    + destruct (st_lists st' lx) as [ids'|] eqn:El; [|intros ? []]. intros id Hin Hin2.
      destruct (w_list_prov _ _ _ _ _ _ _ _ _ _ W _ _ El) as [E0|[_ E0]].
      * destruct Hlx as [[Hpx Lx0]|[Hf|Hf]].
        -- destruct (GS x y Gx Gy Lx0 Ly0) as [A1 _]. apply (A1 id); [|exact Hin2]. unfold pids. now rewrite Hpx, E0.
        -- apply (FS id); [|exact Hin2]. destruct Hf as [Hf|Hf]; [left|right]; unfold pids; now rewrite Hf, E0.
        -- rewrite (i_lists _ I lx Hf) in E0. discriminate.
      * destruct (E0 id Hin) as [Hf|Hf]; [exact (FS id Hf Hin2)|]. pose proof (pids_lt st y id I Hin2). lia.
    + intros l E. injection E as <-. destruct Hlx as [[Hpx Lx0]|[Hf|Hf]].
      * destruct (GS x y Gx Gy Lx0 Ly0) as [_ A2]. exact (A2 lx Hpx).
      * exact (FL lx Hf).
      * intros Hy2. pose proof (plist_lt st y lx I Hy2). lia.
  - intros n Hn. apply GN. pose proof (w_np _ _ _ _ _ _ _ _ _ _ W). lia.
Qed.

Definition mentions_in (G : nat -> Prop) (ops : list (op T)) : Prop := Forall (fun o => G (receiver o) /\ G (arg o)) ops.

Theorem group_frame ops : forall st (G : nat -> Prop), inv st -> gsep st G -> (forall n, st_np st <= n -> G n) ->
  mentions_in G ops -> forall y, ~ G y -> live st y ->
  view O (run O st ops) y = view O st y /\ st_paths (run O st ops) y = st_paths st y /\ pids (run O st ops) y = pids st y.
Proof.
  induction ops as [|o r IH]; intros st G I GS GN HM y Gy Ly; simpl; [auto|].
  inversion HM as [|? ? [Hp Hq] HM']; subst.
  destruct (step_group st o G I GS GN Hp Hq) as (I' & GS' & GN' & Out).
  destruct (Out y Gy Ly) as (E1 & E2 & E3 & E4).
  assert (Ly' : live (fst (step O st o)) y) by (unfold live; now rewrite E1).
  destruct (IH _ G I' GS' GN' HM' y Gy Ly') as (F1 & F2 & F3).
  rewrite F1, F2, F3. auto.
Qed.

(* ---------- clone ---------- *)
Lemma clone_apart st p st1 c : inv st -> step O st (OClone p) = (st1, ONew c) ->
  c = st_np st /\ st_np st1 = S (st_np st) /\ live st1 c /\ forall y, y <> c -> live st1 y -> apart st1 c y.
Proof.
  intros I H. cbn [step] in H.
  destruct (as_segments O st p) as [[[[sta cl] lid] ids]|] eqn:Ea; [|discriminate].
  destruct (as_segments_ok O all all all all all _ _ _ st p sta cl lid ids I (based_self st) Logic.I Ea) as (Ia & _).
  pose proof (as_segments_np O _ _ _ _ _ _ Ea) as Na.
  destruct (get_vals sta ids) as [vals|]; [|discriminate].
  destruct (alloc_segs sta (map fresh (map (seg_clone O) vals))) as [stb nids] eqn:Eb.
  destruct (alloc_segs_ok none all none all none _ _ _ _ _ _ _ Ia (based_self sta) Eb) as (Ib & Wb & _ & Xb & Nb & Fb & Lb & Pb & NLb & NPb).
  injection H as <- <-.
  assert (Pu : pure sta (new_lp stb nids cl)) by (eapply pure_trans; [exact Wb|apply pure_new_lp; auto]).
  split; [congruence|]. split; [simpl; congruence|]. split; [unfold live; simpl; rewrite upd_same; discriminate|].
  intros y Ny Ly.
  assert (Hy : y < st_np sta).
  { assert (I3 : inv (new_lp stb nids cl)) by exact (proj1 (new_lp_ok all all all all all 0 0 0 stb nids cl Ib ltac:(unfold based; lia) (okids_all _ _) Xb)).
    pose proof (inv_path_lt _ _ I3 Ly) as Hlt. simpl in Hlt. rewrite NPb in *. lia. }
  assert (Ly0 : live sta y).
  { unfold live in *. rewrite <- (w_paths _ _ _ _ _ _ _ _ _ _ Pu y Hy); [exact Ly|]. intros []. }
  destruct (pure_view O sta _ y Ia Pu Ly0) as (_ & _ & Py & Ply).
  destruct (view_new_lp O stb nids cl (map (seg_clone O) vals)) as [_ Pc].
  { unfold get_vals. rewrite (alloc_segs_get _ _ _ _ Eb). simpl. rewrite !map_map. reflexivity. }
  assert (Plc : plist (new_lp stb nids cl) (st_np stb) = Some (st_nl stb)) by (unfold plist, new_lp; simpl; now rewrite upd_same).
  change (apart (new_lp stb nids cl) (st_np stb) y).
  unfold apart. rewrite Pc, Plc, Py, Ply. split.
  - intros id Hin Hin2. pose proof (Fb id Hin). pose proof (pids_lt sta y id Ia Hin2). lia.
  - intros l E Hl. injection E as <-. pose proof (plist_lt sta y _ Ia Hl). lia.
Qed.

(* clone_independent: after c = p.clone(),
   (1) no sequence of operations on c (and on paths created later), with arguments among them, changes the value of any
       path that existed before (in particular of p);
   (2) no sequence of operations that does not mention c changes the value of c. *)
Theorem clone_independent st p st1 c : inv st -> step O st (OClone p) = (st1, ONew c) ->
  (forall ops, mentions_in (fun x => x = c \/ st_np st1 <= x) ops ->
     forall y, y <> c -> live st1 y -> view O (run O st1 ops) y = view O st1 y) /\
  (forall ops, mentions_in (fun x => x <> c) ops -> view O (run O st1 ops) c = view O st1 c).
Proof.
  intros I H. destruct (clone_apart st p st1 c I H) as (Ec & Enp & Lc & Ap).
  assert (I1 : inv st1) by (pose proof (step_inv O st (OClone p) I) as Hi; now rewrite H in Hi).
  split.
  - intros ops HM y Ny Ly.
    apply (group_frame ops st1 (fun x => x = c \/ st_np st1 <= x) I1); auto.
    + intros x y0 [->|Gx] Gy Lx Ly0.
      * apply Ap; [intros E; apply Gy; left; exact E|exact Ly0].
      * exfalso. pose proof (inv_path_lt _ _ I1 Lx). lia.
    + intros [->|Hge]; [congruence|]. pose proof (inv_path_lt _ _ I1 Ly). lia.
  - intros ops HM.
    apply (group_frame ops st1 (fun x => x <> c) I1); auto.
    + intros x y0 Gx Gy Lx Ly0. assert (y0 = c) by (destruct (Nat.eq_dec y0 c); [auto|contradiction]). subst y0.
      apply apart_sym. apply Ap; auto.
    + intros n Hn. lia.
Qed.
End Histories.

(* ================================================================================================ *)
(* 11. append; the real instance; examples; refutations                                               *)
(* ================================================================================================ *)
Section AppendWf.
Context {T : Type} (O : Ops T).
Notation state := (state T).
(* append: receiver = its old chain, a joining line when the ends are not isclose-equal, then the argument (possibly
   reversed): connected provided the join is exact; starts where the receiver started; ends at an end of the argument;
   the argument keeps its value (its segment objects are now shared with the receiver) *)
Theorem step_wf_append (st : state) p q st' r vals1 cl vals2 cl2 a b c d : inv st -> p <> q ->
  view O st p = Some (vals1, cl) -> view O st q = Some (vals2, cl2) ->
  NoDup (pids st p) -> NoDup (pids st q) -> apart st p q ->
  linked a vals1 b -> linked c vals2 d -> vals1 <> [] -> vals2 <> [] -> join_exact O vals1 vals2 ->
  step O st (OAppend p q) = (st', r) -> r <> OErr ->
  exists vals', view O st' p = Some (vals', cl) /\ NoDup (pids st' p) /\ vals' <> [] /\
                (linked a vals' d \/ linked a vals' c) /\ view O st' q = Some (vals2, cl2) /\ NoDup (pids st' q).
Proof.
  intros I Npq V1 V2 N1 N2 Ap H1 H2 E1 E2 J H Hr.
  destruct (step_view_append O st p q st' r vals1 cl vals2 cl2 I Npq V1 V2 N1 N2 Ap H Hr) as (Vp & Np & Vq & Nq).
  destruct (linked_v_append O vals1 vals2 a b c d H1 H2 E1 E2 J) as [Hn M].
  exists (v_append O vals1 vals2). split; [exact Vp|]. split; [exact Np|]. split; [exact Hn|]. split; [exact M|]. split; [exact Vq|exact Nq].
Qed.
End AppendWf.

(* ---------- step_endpoints: the end points of the receiver after one operation ---------- *)
Section Endpoints.
Context {T : Type} (O : Ops T).
Hypothesis eqb_sound : forall x y : T, eqb O x y = true -> x = y.
Theorem step_endpoints (st : state T) o st' r vals cl a b : inv st -> (forall p q, o <> OAppend p q) ->
  view O st (receiver o) = Some (vals, cl) -> NoDup (pids st (receiver o)) -> wf_chain vals -> ends vals = Some (a, b) ->
  step O st o = (st', r) -> r <> OErr ->
  exists vals', view O st' (receiver o) = Some (vals', cl) /\ wf_chain vals' /\
    match o with
    | OReverse _ => ends vals' = Some (b, a)
    | OAsNodelist _ | OFromNodelist _ => ends vals' = Some (a, b) \/ (cl = true /\ ends vals' = Some (a, a))
    | _ => ends vals' = Some (img O o a, img O o b)
    end.
Proof.
  intros I Hna V ND Hwf He H Hr.
  assert (Hne : vals <> []) by (intros ->; discriminate).
  destruct (wf_chain_linked vals Hwf Hne) as (a' & b' & HL & He'). rewrite He in He'. injection He' as <- <-.
  destruct (step_wf O eqb_sound st o st' r vals cl a b I Hna V ND HL Hne H Hr) as [(vals' & V' & _ & Hne' & M) _].
  exists vals'. split; [exact V'|].
  destruct o; try (split; [eapply linked_wf; exact M|apply ends_linked; assumption]).
  - destruct M as [M|[Ec M]]; (split; [eapply linked_wf; exact M|]); [left|right; split; [exact Ec|]]; apply ends_linked; assumption.
  - destruct M as [M|[Ec M]]; (split; [eapply linked_wf; exact M|]); [left|right; split; [exact Ec|]]; apply ends_linked; assumption.
Qed.
End Endpoints.
Theorem step_endpoints_R (st : state R) o st' r vals cl a b : inv st -> (forall p q, o <> OAppend p q) ->
  view ROps st (receiver o) = Some (vals, cl) -> NoDup (pids st (receiver o)) -> wf_chain vals -> ends vals = Some (a, b) ->
  step ROps st o = (st', r) -> r <> OErr ->
  exists vals', view ROps st' (receiver o) = Some (vals', cl) /\ wf_chain vals' /\
    match o with
    | OReverse _ => ends vals' = Some (b, a)
    | OAsNodelist _ | OFromNodelist _ => ends vals' = Some (a, b) \/ (cl = true /\ ends vals' = Some (a, a))
    | _ => ends vals' = Some (img ROps o a, img ROps o b)
    end.
Proof. exact (step_endpoints ROps (fun x y H => proj1 (Reqb_true x y) H) st o st' r vals cl a b). Qed.

(* ---------- initial states ---------- *)
Section Initial.
Context {T : Type} (O : Ops T).
Lemma inv_new_path (st : state T) vals cl : inv st -> inv (new_path st vals cl).
Proof.
  intros I. unfold new_path. destruct (alloc_segs st (map fresh vals)) as [st1 ids] eqn:Ea.
  destruct (alloc_segs_ok all all all all all 0 0 0 _ _ _ _ I ltac:(unfold based; lia) Ea) as (I1 & _ & _ & X1 & _).
  exact (proj1 (new_lp_ok all all all all all 0 0 0 st1 ids cl I1 ltac:(unfold based; lia) (okids_all _ _) X1)).
Qed.
End Initial.

(* ---------- the real instance ---------- *)
Lemma R_eqb_sound : forall x y : R, eqb ROps x y = true -> x = y.
Proof. intros x y H. now apply Reqb_true. Qed.

Theorem step_preserves_wf_R (st : state R) o st' r : inv st -> (forall x, live st x -> wfp ROps st x) -> safe ROps st o ->
  step ROps st o = (st', r) -> r <> OErr -> forall x, live st' x -> wfp ROps st' x.
Proof. exact (step_preserves_wf ROps R_eqb_sound st o st' r). Qed.
Theorem run_preserves_wf_R ops (st : state R) : inv st -> (forall x, live st x -> wfp ROps st x) -> safe_run ROps st ops ->
  forall x, live (run ROps st ops) x -> wfp ROps (run ROps st ops) x.
Proof. exact (run_preserves_wf ROps R_eqb_sound ops st). Qed.
Theorem step_wf_R (st : state R) o st' r vals cl a b : inv st -> (forall p q, o <> OAppend p q) ->
  view ROps st (receiver o) = Some (vals, cl) -> NoDup (pids st (receiver o)) -> linked a vals b -> vals <> [] ->
  step ROps st o = (st', r) -> r <> OErr ->
  (exists vals', view ROps st' (receiver o) = Some (vals', cl) /\ NoDup (pids st' (receiver o)) /\ vals' <> [] /\
     match o with
     | OReverse _ => linked b vals' a
     | OAsNodelist _ | OFromNodelist _ => linked a vals' b \/ (cl = true /\ linked a vals' a)
     | _ => linked (img ROps o a) vals' (img ROps o b)
     end) /\
  (forall np, r = ONew np ->
     exists nvals cl', view ROps st' np = Some (nvals, cl') /\ NoDup (pids st' np) /\ nvals <> [] /\
                       (cl' = cl \/ exists p, o = OFromSegments p) /\ (linked a nvals b \/ (cl = true /\ linked a nvals a))).
Proof. exact (step_wf ROps R_eqb_sound st o st' r vals cl a b). Qed.

(* a closed path that ends exactly where it starts keeps doing so under the representation switch *)
Theorem closed_roundtrip_R (vals : list (segment R)) a : linked a vals a -> vals <> [] ->
  obind (fromNodelist ROps true) (toNodelist vals) = Some vals.
Proof.
  intros HL Hne. destruct vals as [|s r]; [congruence|].
  apply nodes_roundtrip_closed; [eapply linked_wf; eauto|discriminate|].
  destruct (linked_ends _ _ _ HL Hne) as [E1 E2]. now rewrite E1, E2.
Qed.

(* ---------- an example over the reals: the hypotheses are satisfiable ---------- *)
Definition exR_seg1 : segment R := SLine (L2 (P 0 0) (P 4 0))%R.
Definition exR_seg2 : segment R := SQuad (Q3 (P 4 0) (P 6 3) (P 4 4))%R.
Definition exR_st : state R := new_path empty_state [exR_seg1; exR_seg2] false.
Example exR_inv : inv exR_st.
Proof. apply inv_new_path. apply inv_empty. Qed.
Example exR_wf : forall x, live exR_st x -> wfp ROps exR_st x.
Proof.
  intros x Lx. destruct x as [|x]; [|exfalso; apply Lx; reflexivity].
  exists [exR_seg1; exR_seg2], false, (P 0 0)%R, (P 4 4)%R. split; [reflexivity|]. split; [discriminate|].
  split; [simpl; auto|]. cbv. repeat constructor; simpl; intuition discriminate.
Qed.
Example exR_safe : safe ROps exR_st (ORound 0).
Proof. intros x Nx Lx. destruct x as [|x]; [congruence|exfalso; apply Lx; reflexivity]. Qed.

(* ---------- refutations, on the bit-exact float instance (vm_compute) ---------- *)
Local Open Scope float_scope.
(* every step of the history succeeds *)
Fixpoint run_ok {T : Type} (O : Ops T) (st : state T) (ops : list (op T)) : bool :=
  match ops with
  | [] => true
  | o :: r => match step O st o with (_, OErr) => false | (st', _) => run_ok O st' r end
  end.
(* two concrete doubles that compare different are different terms *)
Ltac float_diff E :=
  match type of E with ?x = ?y =>
    let H := fresh in assert (H : PrimFloat.eqb x y = PrimFloat.eqb y y) by (rewrite E; reflexivity); vm_compute in H; discriminate H
  end.
Definition fl (x0 y0 x1 y1 : float) : segment float := SLine (L2 (P x0 y0) (P x1 y1)).
Lemma live_two (st : state float) x : st_np st = 2%nat -> inv st -> live st x -> x = 0%nat \/ x = 1%nat.
Proof. intros E I L. pose proof (inv_path_lt _ _ I L). lia. Qed.

(* (R1) append then round: the argument starts isclose to, but not at, the receiver's end and is a closed loop, so no
   joining line is inserted (and nothing is reversed); truncation then tears the chain apart by a whole unit *)
Definition r1_st : state float :=
  new_path (new_path empty_state [fl 0 0 0x1.fffffffe4819ap-1 0] false) [fl 1 0 5 3; fl 5 3 1 0] true.
Definition r1_ops : list (op float) := [OAppend 0 1; ORound 0].
Theorem append_round_refuted :
  inv r1_st /\ (forall x, live r1_st x -> wfp FOps r1_st x) /\
  run_ok FOps r1_st r1_ops = true /\
  exists vals cl, view FOps (run FOps r1_st r1_ops) 0 = Some (vals, cl) /\ ~ wf_chain vals.
Proof.
  assert (I : inv r1_st) by (repeat apply inv_new_path; apply inv_empty).
  split; [exact I|]. split; [|split].
  - intros x L. destruct (live_two r1_st x eq_refl I L) as [->| ->].
    + exists [fl 0 0 0x1.fffffffe4819ap-1 0], false, (P 0 0), (P 0x1.fffffffe4819ap-1 0).
      split; [reflexivity|]. split; [discriminate|]. split; [simpl; auto|]. vm_compute. repeat constructor; simpl; intuition discriminate.
    + exists [fl 1 0 5 3; fl 5 3 1 0], true, (P 1 0), (P 1 0).
      split; [reflexivity|]. split; [discriminate|]. split; [simpl; auto|]. vm_compute. repeat constructor; simpl; intuition discriminate.
  - vm_compute. reflexivity.
  - eexists _, _. split; [vm_compute; reflexivity|]. simpl. intros (E & _). apply (f_equal px) in E. simpl in E. float_diff E.
Qed.

(* (R2) flatten shares Line objects with its receiver: rounding the flattened copy moves the receiver's lines but not its
   curves *)
Definition r2_st : state float :=
  new_path empty_state [fl 0x1p-1 0x1p-1 0x1.4p+1 0x1p-1; SQuad (Q3 (P 0x1.4p+1 0x1p-1) (P 0x1.cp+1 0x1.4p+1) (P 0x1.6p+2 0x1p-1))] false.
Definition r2_ops : list (op float) := [OFlatten 0 100 []; ORound 1].
Theorem flatten_round_refuted :
  inv r2_st /\ (forall x, live r2_st x -> wfp FOps r2_st x) /\
  run_ok FOps r2_st r2_ops = true /\
  exists vals cl, view FOps (run FOps r2_st r2_ops) 0 = Some (vals, cl) /\ ~ wf_chain vals.
Proof.
  assert (I : inv r2_st) by (repeat apply inv_new_path; apply inv_empty).
  split; [exact I|]. split; [|split].
  - intros x L. assert (x = 0%nat) by (pose proof (inv_path_lt _ _ I L) as Hl; simpl in Hl; lia). subst x.
    eexists _, false, (P 0x1p-1 0x1p-1), (P 0x1.6p+2 0x1p-1).
    split; [reflexivity|]. split; [discriminate|]. split; [simpl; auto|]. vm_compute. repeat constructor; simpl; intuition discriminate.
  - vm_compute. reflexivity.
  - eexists _, _. split; [vm_compute; reflexivity|]. simpl. intros (E & _). apply (f_equal px) in E. simpl in E. float_diff E.
Qed.

(* (R3) append to a closed path: the receiver keeps closed = True but no longer ends where it starts *)
Definition r3_st : state float :=
  new_path (new_path empty_state [fl 0 0 4 0; fl 4 0 0 0] true) [fl 9 9 12 9] false.
Theorem append_closed_refuted :
  inv r3_st /\ (forall x, live r3_st x -> wfp FOps r3_st x) /\
  view FOps r3_st 0 = Some ([fl 0 0 4 0; fl 4 0 0 0], true) /\ ends [fl 0 0 4 0; fl 4 0 0 0] = Some (P 0 0, P 0 0) /\
  exists vals a b, view FOps (fst (step FOps r3_st (OAppend 0 1))) 0 = Some (vals, true) /\ wf_chain vals /\
                   ends vals = Some (a, b) /\ a <> b.
Proof.
  assert (I : inv r3_st) by (repeat apply inv_new_path; apply inv_empty).
  split; [exact I|]. split; [|split; [reflexivity|split; [reflexivity|]]].
  - intros x L. destruct (live_two r3_st x eq_refl I L) as [->| ->].
    + exists [fl 0 0 4 0; fl 4 0 0 0], true, (P 0 0), (P 0 0).
      split; [reflexivity|]. split; [discriminate|]. split; [simpl; auto|]. vm_compute. repeat constructor; simpl; intuition discriminate.
    + exists [fl 9 9 12 9], false, (P 9 9), (P 12 9).
      split; [reflexivity|]. split; [discriminate|]. split; [simpl; auto|]. vm_compute. repeat constructor; simpl; intuition discriminate.
  - eexists _, _, _. split; [vm_compute; reflexivity|]. split; [simpl; auto|]. split; [reflexivity|].
    intros E. apply (f_equal px) in E. simpl in E. float_diff E.
Qed.
