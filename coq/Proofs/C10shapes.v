(* C10, sign of the curved shapes of geometricshapes.py (Hand/Shapes.v): Ellipse, Circle (and Square).

   The four cubics w->n->e->s->w of Ellipse(x_radius, y_radius, origin, superness) form a closed chain, and the area
   they enclose by Green's theorem, - sum of Cubic_area (Cubic_area c IS the integral of y dx along c: C10
   area_is_integral_cubic), is exactly

        - K(superness) * x_radius * y_radius        with   K(s) = (10 + 12*s - 3*s*s) / 5,

   independent of the origin.  K > 0 for -7/10 <= s <= 47/10; for the default CIRCULAR_SUPERNESS = 4/3*(sqrt 2 - 1),
   K = 16*sqrt 2/3 - 22/5 = 3.14247...  So ellipses and circles with x_radius * y_radius > 0 are CLOCKWISE (negative),
   like Rectangle.  The 12-point control polygon is a clockwise star-shaped polygon about the origin (0 < s <= 1) with
   signed area - 2*(1 + 2*s - s*s) * x_radius * y_radius.
   What is NOT proved: that BezierPath.signed_area (shoelace over the FLATTENED path) is close to this Green value. *)
From Coq Require Import PrimFloat.
From Coq Require Import ZArith List Bool Reals Lra Lia Psatz.
From Coquelicot Require Import Coquelicot.
From BZ Require Import Base.Ops Proofs.Tactics Gen.Point Gen.Line Gen.Quad Gen.Cubic.
From BZ Require Import Hand.Shoelace Hand.Shapes Proofs.C10 Proofs.C10pos.
Import ListNotations.
Open Scope R_scope.

(* ================================================================================================== *)
(* 1. closed chain (any scalar carrier: the shared points are the SAME computed values)                *)
(* ================================================================================================== *)

Theorem Ellipse_cubics_closed {T : Type} (O : Ops T) (xr yr : T) (o : pt T) (s : T) :
  closed_cubic_chain (Ellipse_cubics O xr yr o s).
Proof. cbn. repeat split. Qed.

Theorem Ellipse_cubics_chain {T : Type} (O : Ops T) (xr yr : T) (o : pt T) (s : T) :
  let w := Point___add__ O o (Point___mul__ O (P (ofZ O (-1)) (ofZ O 0)) xr) in
  cubic_chain_from w (Ellipse_cubics O xr yr o s) w /\ length (Ellipse_cubics O xr yr o s) = 4%nat.
Proof. cbn. repeat split. Qed.

Theorem Circle_cubics_closed {T : Type} (O : Ops T) (r : T) (o : pt T) (s : T) :
  closed_cubic_chain (Circle_cubics O r o s).
Proof. apply Ellipse_cubics_closed. Qed.

(* over R: west, north, east, south points and the end points of the four cubics *)
Theorem Ellipse_cubics_endpoints (xr yr ox oy s : R) :
  map (fun c => (c0 c, c3 c)) (Ellipse_cubics ROps xr yr (P ox oy) s) =
  [(P (ox - xr) oy, P ox (oy + yr)); (P ox (oy + yr), P (ox + xr) oy);
   (P (ox + xr) oy, P ox (oy - yr)); (P ox (oy - yr), P (ox - xr) oy)].
Proof. rcbv. repeat (f_equal; try (apply pt_eq; ring)). Qed.

(* ================================================================================================== *)
(* 2. Green area                                                                                       *)
(* ================================================================================================== *)

Definition sum_cubic_areas (cs : list (seg4 R)) : R := sumf (Cubic_area ROps) cs.
(* the value signed_area converges to for a closed chain of cubics, in the library's sign convention
   (for closed chains of lines: C10 shoelace_is_minus_line_areas) *)
Definition green_area_cubics (cs : list (seg4 R)) : R := - sum_cubic_areas cs.

(* it is minus the sum of the integrals of y dx over the cubics *)
Definition cubic_ydx (c : seg4 R) (t : R) : R :=
  py (Cubic_pointAtTime ROps c t) * px (Quad_pointAtTime ROps (Cubic_derivative ROps c) t).
Lemma sum_cubic_areas_RInt (cs : list (seg4 R)) : sum_cubic_areas cs = sumf (fun c => RInt (cubic_ydx c) 0 1) cs.
Proof.
  unfold sum_cubic_areas. induction cs as [| c r IH]; cbn [sumf]; [reflexivity | ].
  rewrite IH. f_equal. symmetry. apply is_RInt_unique. apply area_is_integral_cubic.
Qed.

Definition ellipse_K (s : R) : R := (10 + 12 * s - 3 * (s * s)) / 5.

Theorem Ellipse_sum_cubic_areas (xr yr : R) (o : pt R) (s : R) :
  sum_cubic_areas (Ellipse_cubics ROps xr yr o s) = ellipse_K s * xr * yr.
Proof. destruct o as [ox oy]. unfold ellipse_K. rcbv. field. Qed.

Theorem Ellipse_green_area (xr yr : R) (o : pt R) (s : R) :
  green_area_cubics (Ellipse_cubics ROps xr yr o s) = - (ellipse_K s * xr * yr).
Proof. unfold green_area_cubics. rewrite Ellipse_sum_cubic_areas. reflexivity. Qed.

Corollary Ellipse_green_area_origin_indep (xr yr : R) (o o' : pt R) (s : R) :
  green_area_cubics (Ellipse_cubics ROps xr yr o s) = green_area_cubics (Ellipse_cubics ROps xr yr o' s).
Proof. rewrite !Ellipse_green_area. reflexivity. Qed.

Theorem Circle_green_area (r : R) (o : pt R) (s : R) :
  green_area_cubics (Circle_cubics ROps r o s) = - (ellipse_K s * (r * r)).
Proof. unfold Circle_cubics. rewrite Ellipse_green_area. ring. Qed.

(* ---- sign ---- *)
Lemma ellipse_K_pos (s : R) : -7/10 <= s <= 47/10 -> 0 < ellipse_K s.
Proof. intros [H1 H2]. unfold ellipse_K. nra. Qed.

Theorem Ellipse_green_negative (xr yr : R) (o : pt R) (s : R) :
  0 < xr * yr -> 0 < ellipse_K s -> green_area_cubics (Ellipse_cubics ROps xr yr o s) < 0.
Proof.
  intros Hr HK. rewrite Ellipse_green_area.
  assert (0 < ellipse_K s * (xr * yr)) by (apply Rmult_lt_0_compat; assumption). lra.
Qed.

(* sign of the radii product decides the orientation: a negative radius flips it *)
Theorem Ellipse_green_positive_flipped (xr yr : R) (o : pt R) (s : R) :
  xr * yr < 0 -> 0 < ellipse_K s -> 0 < green_area_cubics (Ellipse_cubics ROps xr yr o s).
Proof.
  intros Hr HK. rewrite Ellipse_green_area.
  assert (0 < ellipse_K s * (- (xr * yr))) by (apply Rmult_lt_0_compat; lra). lra.
Qed.

Theorem Circle_green_negative (r : R) (o : pt R) (s : R) :
  r <> 0 -> 0 < ellipse_K s -> green_area_cubics (Circle_cubics ROps r o s) < 0.
Proof.
  intros Hr HK. apply Ellipse_green_negative; [ | exact HK].
  destruct (Rtotal_order r 0) as [H | [H | H]]; [ | contradiction | ]; nra.
Qed.

(* ---- the default superness ---- *)
Lemma circular_superness_R : circular_superness ROps = 4 / 3 * (sqrt 2 - 1).
Proof. rcbv. field. Qed.

Lemma sqrt2_bounds : 1414213 / 1000000 < sqrt 2 < 1414214 / 1000000.
Proof.
  assert (H0 : 0 <= sqrt 2) by apply sqrt_pos.
  assert (H2 : sqrt 2 * sqrt 2 = 2) by (apply sqrt_sqrt; lra).
  split; nra.
Qed.

Theorem ellipse_K_circular : ellipse_K (circular_superness ROps) = 16 * sqrt 2 / 3 - 22 / 5.
Proof.
  rewrite circular_superness_R. unfold ellipse_K.
  assert (H2 : sqrt 2 * sqrt 2 = 2) by (apply sqrt_sqrt; lra).
  transitivity ((- 34 + 80 * sqrt 2 - 16 * (sqrt 2 * sqrt 2)) / 15); [field | rewrite H2; field].
Qed.

Theorem ellipse_K_circular_bounds : 31424 / 10000 < ellipse_K (circular_superness ROps) < 31425 / 10000.
Proof. rewrite ellipse_K_circular. pose proof sqrt2_bounds. lra. Qed.

Corollary ellipse_K_circular_pos : 0 < ellipse_K (circular_superness ROps).
Proof. pose proof ellipse_K_circular_bounds. lra. Qed.

Lemma circular_superness_bounds : 55228 / 100000 < circular_superness ROps < 55230 / 100000.
Proof. rewrite circular_superness_R. pose proof sqrt2_bounds. lra. Qed.

(* Ellipse(xr, yr) / Circle(r) with the keyword defaults origin=None, superness=CIRCULAR_SUPERNESS *)
Theorem Ellipse_default_green_area (xr yr : R) (o : option (pt R)) :
  green_area_cubics (Ellipse_cubics_opt ROps xr yr o None) = - ((16 * sqrt 2 / 3 - 22 / 5) * xr * yr).
Proof. unfold Ellipse_cubics_opt. rewrite Ellipse_green_area, ellipse_K_circular. reflexivity. Qed.

Theorem Ellipse_default_negative (xr yr : R) (o : option (pt R)) :
  0 < xr * yr -> green_area_cubics (Ellipse_cubics_opt ROps xr yr o None) < 0.
Proof. intro H. unfold Ellipse_cubics_opt. apply Ellipse_green_negative; [exact H | exact ellipse_K_circular_pos]. Qed.

Theorem Circle_default_green_area (r : R) (o : option (pt R)) :
  green_area_cubics (Circle_cubics_opt ROps r o None) = - ((16 * sqrt 2 / 3 - 22 / 5) * (r * r)).
Proof. unfold Circle_cubics_opt. rewrite Ellipse_default_green_area. ring. Qed.

Theorem Circle_default_negative (r : R) (o : option (pt R)) :
  r <> 0 -> green_area_cubics (Circle_cubics_opt ROps r o None) < 0.
Proof.
  intro Hr. unfold Circle_cubics_opt. apply Ellipse_default_negative.
  destruct (Rtotal_order r 0) as [H | [H | H]]; [ | contradiction | ]; nra.
Qed.

(* within 0.03 % of r^2 * 3.1416 *)
Corollary Circle_default_area_bounds (r : R) (o : option (pt R)) :
  31424 / 10000 * (r * r) <= - green_area_cubics (Circle_cubics_opt ROps r o None) <= 31425 / 10000 * (r * r).
Proof.
  rewrite Circle_default_green_area. pose proof sqrt2_bounds as Hs. assert (0 <= r * r) by nra. split; nra.
Qed.

(* ================================================================================================== *)
(* 3. the control polygon                                                                              *)
(* ================================================================================================== *)

Definition Ellipse_control_polygon (xr yr : R) (o : pt R) (s : R) : list (pt R) :=
  control_points (Ellipse_cubics ROps xr yr o s).

Lemma Ellipse_control_polygon_pts (xr yr ox oy s : R) :
  Ellipse_control_polygon xr yr (P ox oy) s =
  [P (ox - xr) oy; P (ox - xr) (oy + yr * s); P (ox - xr * s) (oy + yr); P ox (oy + yr);
   P (ox + xr * s) (oy + yr); P (ox + xr) (oy + yr * s); P (ox + xr) oy; P (ox + xr) (oy - yr * s);
   P (ox + xr * s) (oy - yr); P ox (oy - yr); P (ox - xr * s) (oy - yr); P (ox - xr) (oy - yr * s)].
Proof. unfold Ellipse_control_polygon. rcbv. repeat (f_equal; try (apply pt_eq; ring)). Qed.

Theorem Ellipse_control_polygon_area (xr yr : R) (o : pt R) (s : R) :
  signed_area_lines ROps (edges_of (Ellipse_control_polygon xr yr o s)) = - (2 * (1 + 2 * s - s * s) * xr * yr).
Proof. destruct o as [ox oy]. rewrite Ellipse_control_polygon_pts. rcbv. field. Qed.

(* seen from the origin every control edge turns clockwise (0 < s < 1), or does not turn (s = 1: the middle edge
   of each quadrant is radial) *)
Theorem Ellipse_control_polygon_star_cw_strict (xr yr : R) (o : pt R) (s : R) :
  0 < xr -> 0 < yr -> 0 < s < 1 -> star_cw_strict o (edges_of (Ellipse_control_polygon xr yr o s)).
Proof.
  intros Hx Hy [Hs0 Hs1]. destruct o as [ox oy]. rewrite Ellipse_control_polygon_pts.
  assert (Hxy : 0 < xr * yr) by (apply Rmult_lt_0_compat; assumption).
  assert (H1 : 0 < xr * yr * s) by (apply Rmult_lt_0_compat; assumption).
  assert (H2 : 0 < xr * yr * (1 - s * s)) by (apply Rmult_lt_0_compat; [assumption | nra]).
  split; [discriminate | ].
  split_Forall; unfold edge_about, crossv; cbn [l0 l1 px py]; nra.
Qed.

Theorem Ellipse_control_polygon_star_cw (xr yr : R) (o : pt R) (s : R) :
  0 < xr -> 0 < yr -> 0 < s <= 1 -> star_cw o (edges_of (Ellipse_control_polygon xr yr o s)).
Proof.
  intros Hx Hy [Hs0 Hs1]. destruct o as [ox oy]. rewrite Ellipse_control_polygon_pts.
  assert (Hxy : 0 < xr * yr) by (apply Rmult_lt_0_compat; assumption).
  assert (H1 : 0 < xr * yr * s) by (apply Rmult_lt_0_compat; assumption).
  assert (H2 : 0 <= xr * yr * (1 - s * s)) by (apply Rmult_le_pos; nra).
  split.
  - split_Forall; unfold edge_about, crossv; cbn [l0 l1 px py]; nra.
  - left. unfold edge_about, crossv; cbn [l0 l1 px py]; nra.
Qed.

Corollary Ellipse_control_polygon_negative (xr yr : R) (o : pt R) (s : R) :
  0 < xr -> 0 < yr -> 0 < s <= 1 ->
  signed_area_lines ROps (edges_of (Ellipse_control_polygon xr yr o s)) < 0 /\
  direction_lines ROps (edges_of (Ellipse_control_polygon xr yr o s)) = -1.
Proof.
  intros Hx Hy Hs. pose proof (Ellipse_control_polygon_star_cw xr yr o s Hx Hy Hs) as H.
  split; [exact (star_polygon_negative o _ H) | exact (star_cw_direction o _ (edges_of_closed _) H)].
Qed.

Corollary Ellipse_default_control_polygon_cw (xr yr : R) (o : pt R) :
  0 < xr -> 0 < yr -> star_cw_strict o (edges_of (Ellipse_control_polygon xr yr o (circular_superness ROps))).
Proof.
  intros Hx Hy. apply Ellipse_control_polygon_star_cw_strict; [exact Hx | exact Hy | ].
  pose proof circular_superness_bounds. lra.
Qed.

(* ================================================================================================== *)
(* 4. Square                                                                                           *)
(* ================================================================================================== *)

Theorem Square_signed_area (w : R) (o : pt R) : signed_area_lines ROps (Square_lines ROps w o) = - (w * w).
Proof. unfold Square_lines. apply Rectangle_lines_signed_area. Qed.

Theorem Square_negative (w : R) (o : pt R) :
  0 < w -> star_cw_strict o (Square_lines ROps w o) /\ signed_area_lines ROps (Square_lines ROps w o) < 0 /\
           direction_lines ROps (Square_lines ROps w o) = -1.
Proof.
  intro Hw. unfold Square_lines. split; [exact (Rectangle_star_cw w w o Hw Hw) | exact (Rectangle_negative w w o Hw Hw)].
Qed.

(* ================================================================================================== *)
(* 5. non-vacuity and the binary64 instance                                                            *)
(* ================================================================================================== *)

(* Circle(1): Green area -(16*sqrt 2/3 - 22/5); Ellipse(2, 1, Point(5, 7), 1/2): K(1/2) = 61/20, area -61/10 *)
Example ellipse_example : green_area_cubics (Ellipse_cubics ROps 2 1 (P 5 7) (1 / 2)) = - (61 / 10).
Proof. rewrite Ellipse_green_area. unfold ellipse_K. field. Qed.
Example ellipse_K_zero : ellipse_K 0 = 2 /\ ellipse_K 1 = 19 / 5.
Proof. unfold ellipse_K. split; field. Qed.

(* the same model text on binary64, against values printed by CPython:
   CIRCULAR_SUPERNESS.hex(); Ellipse(3.7, 1.3, Point(0.1, -2.9), 0.61); Circle(2.5) *)
Example circular_superness_float : circular_superness FOps = 0x1.1ac5111534a22p-1%float.
Proof. vm_compute. reflexivity. Qed.

Example Ellipse_float :
  (Ellipse_cubics FOps 0x1.d99999999999ap+1 0x1.4cccccccccccdp+0 (P 0x1.999999999999ap-4 (-0x1.7333333333333p+1)) 0x1.3851eb851eb85p-1 =
  [C4 (P (-0x1.ccccccccccccdp+1) (-0x1.7333333333333p+1)) (P (-0x1.ccccccccccccdp+1) (-0x1.0db22d0e56041p+1))
      (P (-0x1.14189374bc6a8p+1) (-0x1.9999999999999p+0)) (P 0x1.999999999999ap-4 (-0x1.9999999999999p+0));
   C4 (P 0x1.999999999999ap-4 (-0x1.9999999999999p+0)) (P 0x1.2db22d0e56042p+1 (-0x1.9999999999999p+0))
      (P 0x1.e666666666667p+1 (-0x1.0db22d0e56041p+1)) (P 0x1.e666666666667p+1 (-0x1.7333333333333p+1));
   C4 (P 0x1.e666666666667p+1 (-0x1.7333333333333p+1)) (P 0x1.e666666666667p+1 (-0x1.d8b4395810625p+1))
      (P 0x1.2db22d0e56042p+1 (-0x1.0cccccccccccdp+2)) (P 0x1.999999999999ap-4 (-0x1.0cccccccccccdp+2));
   C4 (P 0x1.999999999999ap-4 (-0x1.0cccccccccccdp+2)) (P (-0x1.14189374bc6a8p+1) (-0x1.0cccccccccccdp+2))
      (P (-0x1.ccccccccccccdp+1) (-0x1.d8b4395810625p+1)) (P (-0x1.ccccccccccccdp+1) (-0x1.7333333333333p+1))])%float.
Proof. vm_compute. reflexivity. Qed.

Example Circle_float :
  (Circle_cubics_opt FOps 0x1.4p+1 None None =
  [C4 (P (-0x1.4p+1) 0) (P (-0x1.4p+1) 0x1.6176555a81caap+0) (P (-0x1.6176555a81caap+0) 0x1.4p+1) (P 0 0x1.4p+1);
   C4 (P 0 0x1.4p+1) (P 0x1.6176555a81caap+0 0x1.4p+1) (P 0x1.4p+1 0x1.6176555a81caap+0) (P 0x1.4p+1 0);
   C4 (P 0x1.4p+1 0) (P 0x1.4p+1 (-0x1.6176555a81caap+0)) (P 0x1.6176555a81caap+0 (-0x1.4p+1)) (P 0 (-0x1.4p+1));
   C4 (P 0 (-0x1.4p+1)) (P (-0x1.6176555a81caap+0) (-0x1.4p+1)) (P (-0x1.4p+1) (-0x1.6176555a81caap+0)) (P (-0x1.4p+1) 0)])%float.
Proof. vm_compute. reflexivity. Qed.

Example Square_float :
  (Square_lines FOps 0x1.a666666666666p+1 (P 0x1.6666666666666p-1 0x1.999999999999ap-3) =
  [L2 (P (-0x1.e666666666666p-1) 0x1.d999999999999p+0) (P 0x1.2ccccccccccccp+1 0x1.d999999999999p+0);
   L2 (P 0x1.2ccccccccccccp+1 0x1.d999999999999p+0) (P 0x1.2ccccccccccccp+1 (-0x1.7333333333333p+0));
   L2 (P 0x1.2ccccccccccccp+1 (-0x1.7333333333333p+0)) (P (-0x1.e666666666666p-1) (-0x1.7333333333333p+0));
   L2 (P (-0x1.e666666666666p-1) (-0x1.7333333333333p+0)) (P (-0x1.e666666666666p-1) 0x1.d999999999999p+0)])%float.
Proof. vm_compute. reflexivity. Qed.
