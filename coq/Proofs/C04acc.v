(* C04acc: accuracy of the 24-point Gauss-Legendre arc length for "gentle" curves (speed varying by a bounded factor),
   by a purely algebraic argument on top of C04poly:
   (4) the degree-11 Taylor polynomial sqA of sqrt(1+u) satisfies sqA(u)^2 = 1 + u + u^12 * sqQ(u) (a ring identity), so
       |sqrt(1+u) - sqA(u)| <= rho^12 / 60 for |u| <= rho <= 3/5;
   (5) if g is a polynomial of degree <= 4 with m^2 <= g <= M^2 on [0,1], then sqrt(g) = sqrt(c) * sqrt(1 + u) with
       c = (m^2+M^2)/2, u = g/c - 1, |u| <= rho = (M^2-m^2)/(M^2+m^2), and sqrt(c) * sqA(u) is a polynomial of degree
       <= 44 <= 47 whose coefficients are bounded through the values of u at 0, 1/4, 1/2, 3/4, 1; the approximation lemma of
       C04poly gives | gl_length (sqrt g) - RInt (sqrt g) 0 1 | <= sqrt(c) * ((2 + 1e-39) * rho^12/60 + 1e-9);
   instantiated for cubics (g = |B'|^2 of degree 4) and quadratics (degree 2):
       M <= 3/2 m : |length - arc length| <= 1e-6 * arc length
       M <= 9/5 m : <= 3e-5 * arc length          M <= 2 m : <= 2e-4 * arc length. *)
From Coq Require Import ZArith List Bool Reals Lra Lia Psatz.
From Coquelicot Require Import Coquelicot.
From BZ Require Import Base.Ops Proofs.Tactics Gen.Point Gen.Line Gen.Quad Gen.Cubic.
From BZ Require Import Proofs.C01 Proofs.C04 Proofs.C10 Proofs.C10flat Proofs.C04poly.
Import ListNotations.
Open Scope R_scope.

(* ================================================================================================== *)
(* Part 4: the algebraic square-root approximation                                                    *)
(* ================================================================================================== *)
(* binomial(1/2, k), k = 0..11 *)
Definition sqA : list R :=
  [1; 1/2; -1/8; 1/16; -5/128; 7/256; -21/1024; 33/2048; -429/32768; 715/65536; -2431/262144; 4199/524288].
Definition sqAabs : list R :=
  [1; 1/2; 1/8; 1/16; 5/128; 7/256; 21/1024; 33/2048; 429/32768; 715/65536; 2431/262144; 4199/524288].
(* the cofactor: sqA(u)^2 = 1 + u + u^12 * sqQ(u) *)
Definition sqQ : list R :=
  [29393/2097152; -11305/2097152; 26163/8388608; -4199/2097152; 1440257/1073741824; -980343/1073741824;
   665665/1073741824; -221221/536870912; 17918901/68719476736; -10207769/68719476736; 17631601/274877906944].
Definition sqQabs : list R :=
  [29393/2097152; 11305/2097152; 26163/8388608; 4199/2097152; 1440257/1073741824; 980343/1073741824;
   665665/1073741824; 221221/536870912; 17918901/68719476736; 10207769/68719476736; 17631601/274877906944].

Lemma sqA_square u : peval sqA u * peval sqA u = 1 + u + u ^ 12 * peval sqQ u.
Proof. unfold sqA, sqQ. cbn [peval]. field. Qed.

Lemma sqA_abs : Forall2 (fun x y => Rabs x <= y) sqA sqAabs.
Proof. unfold sqA, sqAabs. repeat (constructor; [apply Rabs_le; lra|]). constructor. Qed.
Lemma sqQ_abs : Forall2 (fun x y => Rabs x <= y) sqQ sqQabs.
Proof. unfold sqQ, sqQabs. repeat (constructor; [apply Rabs_le; lra|]). constructor. Qed.
Lemma sqAabs_nonneg : List.Forall (fun y => 0 <= y) sqAabs.
Proof. unfold sqAabs. repeat (constructor; [lra|]). constructor. Qed.

Lemma sqQ_bound u : Rabs u <= 3/5 -> Rabs (peval sqQ u) <= 1/50.
Proof.
  intro Hu. eapply Rle_trans; [apply (peval_abs_le sqQ sqQabs u (3/5) sqQ_abs Hu)|].
  unfold sqQabs. cbn [peval]. lra.
Qed.
Lemma sqA_lower u : Rabs u <= 3/5 -> 3/5 <= peval sqA u.
Proof.
  intro Hu.
  assert (H : Rabs (peval (0 :: tl sqA) u) <= peval (0 :: tl sqAabs) (3/5)).
  { apply peval_abs_le; [|exact Hu]. constructor; [rewrite Rabs_R0; lra|].
    assert (H := sqA_abs). inversion H; subst. assumption. }
  assert (H1 : peval (0 :: tl sqAabs) (3/5) <= 2/5) by (unfold sqAabs; cbn [tl peval]; lra).
  assert (H2 : peval sqA u = 1 + peval (0 :: tl sqA) u) by (unfold sqA; cbn [tl peval]; ring).
  rewrite H2. assert (H3 := Rle_trans _ _ _ H H1). apply abs_le_inv in H3. lra.
Qed.

(* | sqrt(1+u) - sum_{k<=11} binom(1/2,k) u^k | <= rho^12 / 60   for |u| <= rho <= 3/5 *)
Theorem sqrt_series_error u rho : Rabs u <= rho -> rho <= 3/5 ->
  Rabs (sqrt (1 + u) - peval sqA u) <= rho ^ 12 / 60.
Proof.
  intros Hu Hr.
  assert (Hu35 : Rabs u <= 3/5) by lra.
  assert (Hu' := abs_le_inv _ _ Hu35).
  set (x := sqrt (1 + u)). set (y := peval sqA u).
  assert (Hx0 : 0 <= x) by apply sqrt_pos.
  assert (Hxx : x * x = 1 + u) by (apply sqrt_sqrt; lra).
  assert (Hx : 3/5 <= x) by (destruct (Rle_lt_dec (3/5) x); [assumption | nra]).
  assert (Hy : 3/5 <= y) by (apply sqA_lower; exact Hu35).
  assert (Hyy : y * y = 1 + u + u ^ 12 * peval sqQ u) by apply sqA_square.
  assert (Hq := sqQ_bound u Hu35).
  assert (Hp : Rabs (u ^ 12) <= rho ^ 12).
  { rewrite <- RPow_abs. apply pow_incr. split; [apply Rabs_pos | exact Hu]. }
  assert (Hprod : Rabs (x - y) * (x + y) <= rho ^ 12 * (1/50)).
  { rewrite <- (Rabs_pos_eq (x + y)) at 1 by lra. rewrite <- Rabs_mult.
    replace ((x - y) * (x + y)) with (- (u ^ 12 * peval sqQ u)) by (rewrite <- Hxx in Hyy; lra).
    rewrite Rabs_Ropp, Rabs_mult. apply Rmult_le_compat; auto using Rabs_pos. }
  assert (Ha := Rabs_pos (x - y)).
  assert (Hlow : Rabs (x - y) * (6/5) <= Rabs (x - y) * (x + y)) by (apply Rmult_le_compat_l; lra).
  lra.
Qed.

(* ================================================================================================== *)
(* Part 5: sqrt of a polynomial of degree <= 4 that stays within [m^2, M^2] on [0,1]                   *)
(* ================================================================================================== *)
(* the coefficients of a quartic from its values at 0, 1/4, 1/2, 3/4, 1 *)
Lemma coef_bound5 u0 u1 u2 u3 u4 rho :
  (forall t, 0 <= t <= 1 -> Rabs (peval [u0; u1; u2; u3; u4] t) <= rho) ->
  pl1 [u0; u1; u2; u3; u4] <= 769 * rho.
Proof.
  intro H.
  assert (H0 := H 0 ltac:(lra)). assert (H1 := H (1/4) ltac:(lra)). assert (H2 := H (1/2) ltac:(lra)).
  assert (H3 := H (3/4) ltac:(lra)). assert (H4 := H 1 ltac:(lra)).
  cbn [peval] in H0, H1, H2, H3, H4. apply abs_le_inv in H0, H1, H2, H3, H4.
  assert (A0 : Rabs u0 <= rho) by (apply Rabs_le; lra).
  assert (A1 : Rabs u1 <= 128/3 * rho) by (apply Rabs_le; lra).
  assert (A2 : Rabs u2 <= 640/3 * rho) by (apply Rabs_le; lra).
  assert (A3 : Rabs u3 <= 1024/3 * rho) by (apply Rabs_le; lra).
  assert (A4 : Rabs u4 <= 512/3 * rho) by (apply Rabs_le; lra).
  cbn [pl1]. lra.
Qed.

Lemma d9_eq : / 10 ^ 39 * 10 ^ 30 = / 10 ^ 9.
Proof.
  replace (10 ^ 39) with (10 ^ 30 * 10 ^ 9) by (rewrite <- pow_add; reflexivity).
  assert (H30 : 0 < 10 ^ 30) by (apply pow_lt; lra). assert (H9 : 0 < 10 ^ 9) by (apply pow_lt; lra).
  field; lra.
Qed.

Lemma sqrt_quartic_gl (g0 g1 g2 g3 g4 m M rho : R) :
  0 < m ->
  (forall t, 0 <= t <= 1 -> m * m <= peval [g0; g1; g2; g3; g4] t <= M * M) ->
  M * M - m * m <= rho * (M * M + m * m) -> rho <= 3/5 ->
  Rabs (gl_length (fun t => sqrt (peval [g0; g1; g2; g3; g4] t)) - RInt (fun t => sqrt (peval [g0; g1; g2; g3; g4] t)) 0 1)
  <= sqrt ((m * m + M * M) / 2) * ((2 + / 10 ^ 39) * (rho ^ 12 / 60) + / 10 ^ 9).
Proof.
  intros Hm Hg Hrho Hr.
  set (gs := [g0; g1; g2; g3; g4]) in *.
  set (c := (m * m + M * M) / 2).
  assert (HmM : m * m <= M * M) by (specialize (Hg 0 ltac:(lra)); lra).
  assert (Hmm : 0 < m * m) by nra.
  assert (Hc : 0 < c) by (unfold c; lra).
  set (us := [g0 / c - 1; g1 / c; g2 / c; g3 / c; g4 / c]).
  assert (Hus : forall t, peval us t = peval gs t / c - 1)
    by (intro t; unfold us, gs; cbn [peval]; field; lra).
  assert (Hic : 0 < / c) by now apply Rinv_0_lt_compat.
  assert (Hu : forall t, 0 <= t <= 1 -> Rabs (peval us t) <= rho).
  { intros t Ht. rewrite Hus. specialize (Hg t Ht).
    replace (peval gs t / c - 1) with ((peval gs t - c) * / c) by (field; lra).
    assert (H1 : Rabs (peval gs t - c) <= rho * c) by (apply Rabs_le; unfold c; lra).
    rewrite Rabs_mult, (Rabs_pos_eq (/ c)) by lra.
    replace rho with (rho * c * / c) by (field; lra). apply Rmult_le_compat_r; lra. }
  assert (Hrho0 : 0 <= rho) by (eapply Rle_trans; [apply Rabs_pos | apply (Hu 0); lra]).
  assert (Hl1 : pl1 us <= 462) by (eapply Rle_trans; [apply coef_bound5; exact Hu | lra]).
  set (ps := pscal (sqrt c) (pcomp sqA us)).
  assert (Hlen : (length ps <= 48)%nat).
  { unfold ps. rewrite length_pscal.
    assert (Hlc := length_pcomp sqA us ltac:(cbn; lia)).
    change (length sqA) with 12%nat in Hlc. change (length us) with 5%nat in Hlc. lia. }
  assert (Hps : forall t, peval ps t = sqrt c * peval sqA (peval us t))
    by (intro t; unfold ps; now rewrite peval_pscal, peval_pcomp).
  set (f := fun t => sqrt (peval gs t)).
  assert (Hf : forall t, 0 <= t <= 1 -> f t = sqrt c * sqrt (1 + peval us t)).
  { intros t Ht. unfold f. rewrite <- sqrt_mult_alt by lra. f_equal. rewrite Hus. field. lra. }
  assert (Hclose : forall t, 0 <= t <= 1 -> Rabs (f t - peval ps t) <= sqrt c * (rho ^ 12 / 60)).
  { intros t Ht. rewrite (Hf t Ht), Hps. rewrite <- Rmult_minus_distr_l, Rabs_mult, (Rabs_pos_eq (sqrt c)) by apply sqrt_pos.
    apply Rmult_le_compat_l; [apply sqrt_pos|]. apply sqrt_series_error; [apply Hu; exact Ht | exact Hr]. }
  assert (Hex : ex_RInt f 0 1).
  { apply (@ex_RInt_continuous R_CompleteNormedModule). intros z _. unfold f.
    apply (continuous_comp (peval gs) sqrt); [apply peval_cont | apply continuous_sqrt]. }
  assert (H := gl_approx_error f ps _ Hex Hlen Hclose).
  assert (Hpl : pl1 ps <= sqrt c * 10 ^ 30).
  { unfold ps. rewrite pl1_pscal, (Rabs_pos_eq (sqrt c)) by apply sqrt_pos.
    apply Rmult_le_compat_l; [apply sqrt_pos|].
    eapply Rle_trans; [apply (pl1_pcomp sqA sqAabs); exact sqA_abs|].
    eapply Rle_trans; [apply (peval_mono sqAabs _ 462); [exact sqAabs_nonneg | split; [apply pl1_nonneg | exact Hl1]]|].
    unfold sqAabs. cbn [peval]. lra. }
  fold f. eapply Rle_trans; [exact H|].
  assert (Hd := d39_pos).
  assert (Hdp : / 10 ^ 39 * pl1 ps <= / 10 ^ 39 * (sqrt c * 10 ^ 30)) by (apply Rmult_le_compat_l; lra).
  replace (/ 10 ^ 39 * (sqrt c * 10 ^ 30)) with (sqrt c * (/ 10 ^ 39 * 10 ^ 30)) in Hdp by ring.
  rewrite d9_eq in Hdp.
  set (d := / 10 ^ 39) in *. set (d9 := / 10 ^ 9) in *. set (sc := sqrt c) in *. set (e := rho ^ 12 / 60) in *.
  lra.
Qed.

Lemma sqrt_poly5_gl (gs : list R) (m M rho : R) :
  length gs = 5%nat -> 0 < m ->
  (forall t, 0 <= t <= 1 -> m * m <= peval gs t <= M * M) ->
  M * M - m * m <= rho * (M * M + m * m) -> rho <= 3/5 ->
  Rabs (gl_length (fun t => sqrt (peval gs t)) - RInt (fun t => sqrt (peval gs t)) 0 1)
  <= sqrt ((m * m + M * M) / 2) * ((2 + / 10 ^ 39) * (rho ^ 12 / 60) + / 10 ^ 9).
Proof.
  intro Hlen. destruct gs as [|g0 [|g1 [|g2 [|g3 [|g4 [|g5 gs]]]]]]; try discriminate Hlen.
  apply sqrt_quartic_gl.
Qed.

(* from the general bound to a relative one: A >= m is the exact integral, kap bounds sqrt(c)/m *)
Lemma relative_from_gen (L A m M rho kap C : R) :
  Rabs (L - A) <= sqrt ((m * m + M * M) / 2) * ((2 + / 10 ^ 39) * (rho ^ 12 / 60) + / 10 ^ 9) ->
  0 < m -> m <= A -> 0 <= rho -> 0 <= kap -> (m * m + M * M) / 2 <= (kap * m) * (kap * m) ->
  kap * ((2 + / 10 ^ 39) * (rho ^ 12 / 60) + / 10 ^ 9) <= C ->
  Rabs (L - A) <= C * A.
Proof.
  intros H Hm HA Hrho Hkap Hc HC.
  assert (Hs : sqrt ((m * m + M * M) / 2) <= kap * m).
  { rewrite <- (sqrt_square (kap * m)) by (apply Rmult_le_pos; lra). apply sqrt_le_1_alt. exact Hc. }
  assert (Hd := d39_pos).
  assert (Hd9 : 0 < / 10 ^ 9) by (apply Rinv_0_lt_compat, pow_lt; lra).
  assert (He : 0 <= rho ^ 12 / 60) by (assert (Hp := pow_le rho 12 Hrho); lra).
  set (B := (2 + / 10 ^ 39) * (rho ^ 12 / 60) + / 10 ^ 9) in *.
  assert (HB : 0 <= B) by (unfold B; nra).
  assert (Hs0 := sqrt_pos ((m * m + M * M) / 2)).
  assert (H1 : sqrt ((m * m + M * M) / 2) * B <= kap * m * B) by (apply Rmult_le_compat_r; assumption).
  assert (H2 : kap * B * m <= C * m) by (apply Rmult_le_compat_r; lra).
  assert (HC0 : 0 <= C) by nra.
  assert (H3 : C * m <= C * A) by (apply Rmult_le_compat_l; assumption).
  lra.
Qed.

(* the three numerical instances *)
Lemma inst_32 : 51/40 * ((2 + / 10 ^ 39) * ((5/13) ^ 12 / 60) + / 10 ^ 9) <= / 10 ^ 6.
Proof.
  assert (Hd : / 10 ^ 39 <= / 10 ^ 9) by (apply Rinv_le_contravar; [apply pow_lt; lra | apply Rle_pow; [lra | lia]]).
  assert (Hd0 := d39_pos). set (d := / 10 ^ 39) in *.
  assert (Hp : 0 <= (5/13) ^ 12 / 60 <= 2 / 10 ^ 7) by lra.
  set (e := (5/13) ^ 12 / 60) in *.
  assert (Hde : d * e <= / 10 ^ 9 * 1) by (apply Rmult_le_compat; lra). lra.
Qed.
Lemma inst_95 : 73/50 * ((2 + / 10 ^ 39) * ((28/53) ^ 12 / 60) + / 10 ^ 9) <= 3 / 10 ^ 5.
Proof.
  assert (Hd : / 10 ^ 39 <= / 10 ^ 9) by (apply Rinv_le_contravar; [apply pow_lt; lra | apply Rle_pow; [lra | lia]]).
  assert (Hd0 := d39_pos). set (d := / 10 ^ 39) in *.
  assert (Hp : 0 <= (28/53) ^ 12 / 60 <= 79 / 10 ^ 7) by lra.
  set (e := (28/53) ^ 12 / 60) in *.
  assert (Hde : d * e <= / 10 ^ 9 * 1) by (apply Rmult_le_compat; lra). lra.
Qed.
Lemma inst_2 : 159/100 * ((2 + / 10 ^ 39) * ((3/5) ^ 12 / 60) + / 10 ^ 9) <= 2 / 10 ^ 4.
Proof.
  assert (Hd : / 10 ^ 39 <= / 10 ^ 9) by (apply Rinv_le_contravar; [apply pow_lt; lra | apply Rle_pow; [lra | lia]]).
  assert (Hd0 := d39_pos). set (d := / 10 ^ 39) in *.
  assert (Hp : 0 <= (3/5) ^ 12 / 60 <= 363 / 10 ^ 7) by lra.
  set (e := (3/5) ^ 12 / 60) in *.
  assert (Hde : d * e <= / 10 ^ 9 * 1) by (apply Rmult_le_compat; lra). lra.
Qed.

(* ================================================================================================== *)
(* Part 6: cubics                                                                                     *)
(* ================================================================================================== *)
(* coefficients (in t) of one coordinate of B'(t) *)
Definition cubic_dpoly (a0 a1 a2 a3 : R) : list R :=
  [3 * (a1 - a0); 6 * (a2 - 2 * a1 + a0); 3 * (a3 - 3 * a2 + 3 * a1 - a0)].
Definition cubic_dxs (s : seg4 R) : list R := cubic_dpoly (px (c0 s)) (px (c1 s)) (px (c2 s)) (px (c3 s)).
Definition cubic_dys (s : seg4 R) : list R := cubic_dpoly (py (c0 s)) (py (c1 s)) (py (c2 s)) (py (c3 s)).
(* the five coefficients of |B'(t)|^2 *)
Definition cubic_gs (s : seg4 R) : list R :=
  padd (pmul (cubic_dxs s) (cubic_dxs s)) (pmul (cubic_dys s) (cubic_dys s)).

Lemma cubic_dx_poly s t : cubic_dx s t = peval (cubic_dxs s) t.
Proof. destruct_pts. unfold cubic_dx, cubic_dxs, cubic_dpoly. rcbv. ring. Qed.
Lemma cubic_dy_poly s t : cubic_dy s t = peval (cubic_dys s) t.
Proof. destruct_pts. unfold cubic_dy, cubic_dys, cubic_dpoly. rcbv. ring. Qed.
Lemma cubic_gs_eval s t : peval (cubic_gs s) t = cubic_dx s t * cubic_dx s t + cubic_dy s t * cubic_dy s t.
Proof. unfold cubic_gs. now rewrite peval_padd, !peval_pmul, <- cubic_dx_poly, <- cubic_dy_poly. Qed.
Lemma cubic_gs_length s : length (cubic_gs s) = 5%nat.
Proof. reflexivity. Qed.
Lemma cubic_speed_sqrt s t : cubic_speed s t = sqrt (peval (cubic_gs s) t).
Proof. rewrite cubic_gs_eval. reflexivity. Qed.
Lemma cubic_gs_speed s t : peval (cubic_gs s) t = cubic_speed s t * cubic_speed s t.
Proof. rewrite cubic_gs_eval. unfold cubic_speed. now rewrite norm2_sqr. Qed.

Lemma cubic_arclen_is s : is_RInt (cubic_speed s) 0 1 (cubic_arclen s 0 1).
Proof. exact (arclen_is (cubic_dx s) (cubic_dy s) (cubic_dx_cont s) (cubic_dy_cont s) 0 1). Qed.
Lemma cubic_arclen_ge s m : (forall t, 0 <= t <= 1 -> m <= cubic_speed s t) -> m <= cubic_arclen s 0 1.
Proof.
  intro H. apply (is_RInt_le (fun _ => m) (cubic_speed s) 0 1); [lra | apply is_RInt_const_01 | apply cubic_arclen_is |].
  intros t Ht. apply H. lra.
Qed.

(* the general statement: speed within [m, M] on [0,1], rho >= (M^2-m^2)/(M^2+m^2), rho <= 3/5 (i.e. M <= 2m) *)
Theorem cubic_length_accuracy_gen (s : seg4 R) (m M rho : R) :
  0 < m -> (forall t, 0 <= t <= 1 -> m <= cubic_speed s t <= M) ->
  M * M - m * m <= rho * (M * M + m * m) -> rho <= 3/5 ->
  Rabs (Cubic_length ROps s - cubic_arclen s 0 1)
  <= sqrt ((m * m + M * M) / 2) * ((2 + / 10 ^ 39) * (rho ^ 12 / 60) + / 10 ^ 9).
Proof.
  intros Hm Hs Hrho Hr.
  rewrite cubic_length_speed. unfold cubic_arclen.
  rewrite (gl_length_ext _ _ (cubic_speed_sqrt s)).
  rewrite (RInt_ext (cubic_speed s) (fun t => sqrt (peval (cubic_gs s) t))) by (intros; apply cubic_speed_sqrt).
  apply sqrt_poly5_gl; [apply cubic_gs_length | exact Hm | | exact Hrho | exact Hr].
  intros t Ht. rewrite cubic_gs_speed. specialize (Hs t Ht). nra.
Qed.

Section CubicInstances.
Variables (s : seg4 R) (m M : R).
Hypothesis Hm : 0 < m.
Hypothesis Hs : forall t, 0 <= t <= 1 -> m <= cubic_speed s t <= M.

Lemma cubic_inst (r rho kap C : R) :
  M <= r * m -> 0 <= rho <= 3/5 -> r * r - 1 <= rho * (r * r + 1) -> 0 <= kap -> (1 + r * r) / 2 <= kap * kap ->
  kap * ((2 + / 10 ^ 39) * (rho ^ 12 / 60) + / 10 ^ 9) <= C ->
  Rabs (Cubic_length ROps s - cubic_arclen s 0 1) <= C * cubic_arclen s 0 1.
Proof.
  intros HM Hrho Hr Hkap Hk HC.
  assert (HmM : m <= M) by (specialize (Hs 0 ltac:(lra)); lra).
  assert (HMM : M * M <= (r * r) * (m * m)) by nra.
  assert (Hmm : 0 < m * m) by nra.
  apply (relative_from_gen _ _ m M rho kap C); try lra.
  - apply cubic_length_accuracy_gen; try assumption; try lra.
    (* M^2 - m^2 <= rho (M^2 + m^2)  from  M^2 <= r^2 m^2 *)
    assert (H1 : (1 - rho) * (M * M) <= (1 - rho) * ((r * r) * (m * m))) by (apply Rmult_le_compat_l; lra).
    assert (H2 : (r * r - 1 - rho * (r * r + 1)) * (m * m) <= 0 * (m * m)) by (apply Rmult_le_compat_r; lra).
    lra.
  - apply cubic_arclen_ge. intros t Ht. apply Hs. exact Ht.
  - assert (H1 : (1 + r * r) / 2 * (m * m) <= kap * kap * (m * m)) by (apply Rmult_le_compat_r; lra). lra.
Qed.

(* speed within a factor 3/2: relative error at most 1e-6 *)
Theorem cubic_length_accuracy :
  M <= 3/2 * m -> Rabs (Cubic_length ROps s - cubic_arclen s 0 1) <= / 10 ^ 6 * cubic_arclen s 0 1.
Proof. intro HM. apply (cubic_inst (3/2) (5/13) (51/40)); first [exact inst_32 | lra]. Qed.
(* within a factor 9/5: at most 3e-5 *)
Theorem cubic_length_accuracy_95 :
  M <= 9/5 * m -> Rabs (Cubic_length ROps s - cubic_arclen s 0 1) <= 3 / 10 ^ 5 * cubic_arclen s 0 1.
Proof. intro HM. apply (cubic_inst (9/5) (28/53) (73/50)); first [exact inst_95 | lra]. Qed.
(* within a factor 2: at most 2e-4 *)
Theorem cubic_length_accuracy_2 :
  M <= 2 * m -> Rabs (Cubic_length ROps s - cubic_arclen s 0 1) <= 2 / 10 ^ 4 * cubic_arclen s 0 1.
Proof. intro HM. apply (cubic_inst 2 (3/5) (159/100)); first [exact inst_2 | lra]. Qed.
End CubicInstances.

(* ================================================================================================== *)
(* Part 7: quadratics                                                                                 *)
(* ================================================================================================== *)
Definition quad_dpoly (a0 a1 a2 : R) : list R := [2 * (a1 - a0); 2 * (a2 - 2 * a1 + a0)].
Definition quad_dxs (s : seg3 R) : list R := quad_dpoly (px (q0 s)) (px (q1 s)) (px (q2 s)).
Definition quad_dys (s : seg3 R) : list R := quad_dpoly (py (q0 s)) (py (q1 s)) (py (q2 s)).
(* |B'(t)|^2, padded with zeros to five coefficients *)
Definition quad_gs (s : seg3 R) : list R :=
  padd (padd (pmul (quad_dxs s) (quad_dxs s)) (pmul (quad_dys s) (quad_dys s))) [0; 0; 0; 0; 0].

Lemma quad_dx_poly s t : quad_dx s t = peval (quad_dxs s) t.
Proof. destruct_pts. unfold quad_dx, quad_dxs, quad_dpoly. rcbv. ring. Qed.
Lemma quad_dy_poly s t : quad_dy s t = peval (quad_dys s) t.
Proof. destruct_pts. unfold quad_dy, quad_dys, quad_dpoly. rcbv. ring. Qed.
Lemma quad_gs_eval s t : peval (quad_gs s) t = quad_dx s t * quad_dx s t + quad_dy s t * quad_dy s t.
Proof.
  unfold quad_gs. rewrite !peval_padd, !peval_pmul, <- quad_dx_poly, <- quad_dy_poly. cbn [peval]. ring.
Qed.
Lemma quad_gs_length s : length (quad_gs s) = 5%nat.
Proof. reflexivity. Qed.
Lemma quad_speed_sqrt s t : quad_speed s t = sqrt (peval (quad_gs s) t).
Proof. rewrite quad_gs_eval. reflexivity. Qed.
Lemma quad_gs_speed s t : peval (quad_gs s) t = quad_speed s t * quad_speed s t.
Proof. rewrite quad_gs_eval. unfold quad_speed. now rewrite norm2_sqr. Qed.

Lemma quad_arclen_is s : is_RInt (quad_speed s) 0 1 (quad_arclen s 0 1).
Proof. exact (arclen_is (quad_dx s) (quad_dy s) (quad_dx_cont s) (quad_dy_cont s) 0 1). Qed.
Lemma quad_arclen_ge s m : (forall t, 0 <= t <= 1 -> m <= quad_speed s t) -> m <= quad_arclen s 0 1.
Proof.
  intro H. apply (is_RInt_le (fun _ => m) (quad_speed s) 0 1); [lra | apply is_RInt_const_01 | apply quad_arclen_is |].
  intros t Ht. apply H. lra.
Qed.

Theorem quad_length_accuracy_gen (s : seg3 R) (m M rho : R) :
  0 < m -> (forall t, 0 <= t <= 1 -> m <= quad_speed s t <= M) ->
  M * M - m * m <= rho * (M * M + m * m) -> rho <= 3/5 ->
  Rabs (Quad_length ROps s - quad_arclen s 0 1)
  <= sqrt ((m * m + M * M) / 2) * ((2 + / 10 ^ 39) * (rho ^ 12 / 60) + / 10 ^ 9).
Proof.
  intros Hm Hs Hrho Hr.
  rewrite quad_length_speed. unfold quad_arclen.
  rewrite (gl_length_ext _ _ (quad_speed_sqrt s)).
  rewrite (RInt_ext (quad_speed s) (fun t => sqrt (peval (quad_gs s) t))) by (intros; apply quad_speed_sqrt).
  apply sqrt_poly5_gl; [apply quad_gs_length | exact Hm | | exact Hrho | exact Hr].
  intros t Ht. rewrite quad_gs_speed. specialize (Hs t Ht). nra.
Qed.

Section QuadInstances.
Variables (s : seg3 R) (m M : R).
Hypothesis Hm : 0 < m.
Hypothesis Hs : forall t, 0 <= t <= 1 -> m <= quad_speed s t <= M.

Lemma quad_inst (r rho kap C : R) :
  M <= r * m -> 0 <= rho <= 3/5 -> r * r - 1 <= rho * (r * r + 1) -> 0 <= kap -> (1 + r * r) / 2 <= kap * kap ->
  kap * ((2 + / 10 ^ 39) * (rho ^ 12 / 60) + / 10 ^ 9) <= C ->
  Rabs (Quad_length ROps s - quad_arclen s 0 1) <= C * quad_arclen s 0 1.
Proof.
  intros HM Hrho Hr Hkap Hk HC.
  assert (HmM : m <= M) by (specialize (Hs 0 ltac:(lra)); lra).
  assert (HMM : M * M <= (r * r) * (m * m)) by nra.
  assert (Hmm : 0 < m * m) by nra.
  apply (relative_from_gen _ _ m M rho kap C); try lra.
  - apply quad_length_accuracy_gen; try assumption; try lra.
    assert (H1 : (1 - rho) * (M * M) <= (1 - rho) * ((r * r) * (m * m))) by (apply Rmult_le_compat_l; lra).
    assert (H2 : (r * r - 1 - rho * (r * r + 1)) * (m * m) <= 0 * (m * m)) by (apply Rmult_le_compat_r; lra).
    lra.
  - apply quad_arclen_ge. intros t Ht. apply Hs. exact Ht.
  - assert (H1 : (1 + r * r) / 2 * (m * m) <= kap * kap * (m * m)) by (apply Rmult_le_compat_r; lra). lra.
Qed.

Theorem quad_length_accuracy :
  M <= 3/2 * m -> Rabs (Quad_length ROps s - quad_arclen s 0 1) <= / 10 ^ 6 * quad_arclen s 0 1.
Proof. intro HM. apply (quad_inst (3/2) (5/13) (51/40)); first [exact inst_32 | lra]. Qed.
Theorem quad_length_accuracy_95 :
  M <= 9/5 * m -> Rabs (Quad_length ROps s - quad_arclen s 0 1) <= 3 / 10 ^ 5 * quad_arclen s 0 1.
Proof. intro HM. apply (quad_inst (9/5) (28/53) (73/50)); first [exact inst_95 | lra]. Qed.
Theorem quad_length_accuracy_2 :
  M <= 2 * m -> Rabs (Quad_length ROps s - quad_arclen s 0 1) <= 2 / 10 ^ 4 * quad_arclen s 0 1.
Proof. intro HM. apply (quad_inst 2 (3/5) (159/100)); first [exact inst_2 | lra]. Qed.
End QuadInstances.

(* the statements in the 2% / 0.01% form of the property text *)
Corollary cubic_length_accuracy_1e4 (s : seg4 R) (m M : R) :
  0 < m -> (forall t, 0 <= t <= 1 -> m <= cubic_speed s t <= M) -> M <= (3/2) * m ->
  Rabs (Cubic_length ROps s - cubic_arclen s 0 1) <= (1/10000) * cubic_arclen s 0 1.
Proof.
  intros Hm Hs HM. assert (H := cubic_length_accuracy s m M Hm Hs HM).
  assert (HA := cubic_arclen_nonneg s 0 1 ltac:(lra)).
  assert (H1 : / 10 ^ 6 * cubic_arclen s 0 1 <= 1/10000 * cubic_arclen s 0 1) by (apply Rmult_le_compat_r; lra).
  lra.
Qed.
Corollary cubic_length_accuracy_2pc (s : seg4 R) (m M : R) :
  0 < m -> (forall t, 0 <= t <= 1 -> m <= cubic_speed s t <= M) -> M <= 2 * m ->
  Rabs (Cubic_length ROps s - cubic_arclen s 0 1) <= (2/100) * cubic_arclen s 0 1.
Proof.
  intros Hm Hs HM. assert (H := cubic_length_accuracy_2 s m M Hm Hs HM).
  assert (HA := cubic_arclen_nonneg s 0 1 ltac:(lra)).
  assert (H1 : 2 / 10 ^ 4 * cubic_arclen s 0 1 <= 2/100 * cubic_arclen s 0 1) by (apply Rmult_le_compat_r; lra).
  lra.
Qed.
Corollary quad_length_accuracy_1e4 (s : seg3 R) (m M : R) :
  0 < m -> (forall t, 0 <= t <= 1 -> m <= quad_speed s t <= M) -> M <= (3/2) * m ->
  Rabs (Quad_length ROps s - quad_arclen s 0 1) <= (1/10000) * quad_arclen s 0 1.
Proof.
  intros Hm Hs HM. assert (H := quad_length_accuracy s m M Hm Hs HM).
  assert (HA := quad_arclen_nonneg s 0 1 ltac:(lra)).
  assert (H1 : / 10 ^ 6 * quad_arclen s 0 1 <= 1/10000 * quad_arclen s 0 1) by (apply Rmult_le_compat_r; lra).
  lra.
Qed.
Corollary quad_length_accuracy_2pc (s : seg3 R) (m M : R) :
  0 < m -> (forall t, 0 <= t <= 1 -> m <= quad_speed s t <= M) -> M <= 2 * m ->
  Rabs (Quad_length ROps s - quad_arclen s 0 1) <= (2/100) * quad_arclen s 0 1.
Proof.
  intros Hm Hs HM. assert (H := quad_length_accuracy_2 s m M Hm Hs HM).
  assert (HA := quad_arclen_nonneg s 0 1 ltac:(lra)).
  assert (H1 : 2 / 10 ^ 4 * quad_arclen s 0 1 <= 2/100 * quad_arclen s 0 1) by (apply Rmult_le_compat_r; lra).
  lra.
Qed.

(* ================================================================================================== *)
(* Part 8: non-vacuity                                                                                *)
(* ================================================================================================== *)
(* the gentle arc (0,0) (30,10) (60,10) (90,0): |B'(t)|^2 = 8100 + 900 (1 - 2t)^2, so 90 <= speed <= 95 *)
Definition gentle_arc : seg4 R := C4 (P 0 0) (P 30 10) (P 60 10) (P 90 0).

Lemma gentle_arc_speed t : 0 <= t <= 1 -> 90 <= cubic_speed gentle_arc t <= 95.
Proof.
  intro Ht. unfold cubic_speed, norm2.
  replace (cubic_dx gentle_arc t * cubic_dx gentle_arc t + cubic_dy gentle_arc t * cubic_dy gentle_arc t)
    with (8100 + 900 * ((1 - 2 * t) * (1 - 2 * t)))
    by (unfold cubic_dx, cubic_dy, gentle_arc; rcbv; ring).
  assert (Hp : 0 <= t * (1 - t)) by (apply Rmult_le_pos; lra).
  assert (Hq := Rle_0_sqr (1 - 2 * t)). unfold Rsqr in Hq.
  assert (H0 : 0 <= (1 - 2 * t) * (1 - 2 * t) <= 1) by (split; lra).
  split.
  - rewrite <- (sqrt_square 90) at 1 by lra. apply sqrt_le_1_alt. lra.
  - rewrite <- (sqrt_square 95) by lra. apply sqrt_le_1_alt. lra.
Qed.
Example gentle_arc_accuracy :
  Rabs (Cubic_length ROps gentle_arc - cubic_arclen gentle_arc 0 1) <= / 10 ^ 6 * cubic_arclen gentle_arc 0 1.
Proof. apply (cubic_length_accuracy gentle_arc 90 95); [lra | exact gentle_arc_speed | lra]. Qed.
(* and in absolute terms: the arc length is at most 95 *)
Example gentle_arc_accuracy_abs :
  Rabs (Cubic_length ROps gentle_arc - cubic_arclen gentle_arc 0 1) <= / 10 ^ 4.
Proof.
  assert (H := gentle_arc_accuracy).
  assert (HA : cubic_arclen gentle_arc 0 1 <= 95).
  { apply (is_RInt_le (cubic_speed gentle_arc) (fun _ => 95) 0 1); [lra | apply cubic_arclen_is | apply is_RInt_const_01 |].
    intros t Ht. apply gentle_arc_speed. lra. }
  assert (H6 : / 10 ^ 6 * 95 <= / 10 ^ 4).
  { replace (10 ^ 6) with (10 ^ 4 * 10 ^ 2) by (rewrite <- pow_add; reflexivity).
    assert (H4 : 0 < 10 ^ 4) by (apply pow_lt; lra). rewrite Rinv_mult.
    assert (Hi : 0 < / 10 ^ 4) by now apply Rinv_0_lt_compat. assert (/ 10 ^ 2 * 95 <= 1) by lra. nra. }
  assert (Hd : 0 < / 10 ^ 6) by (apply Rinv_0_lt_compat, pow_lt; lra).
  assert (H7 : / 10 ^ 6 * cubic_arclen gentle_arc 0 1 <= / 10 ^ 6 * 95) by (apply Rmult_le_compat_l; lra).
  lra.
Qed.
(* a quadratic: (0,0) (40,10) (80,0) has B'(t) = (80, 20 - 40 t), so 80 <= speed <= 83 *)
Definition gentle_quad : seg3 R := Q3 (P 0 0) (P 40 10) (P 80 0).
Lemma gentle_quad_speed t : 0 <= t <= 1 -> 80 <= quad_speed gentle_quad t <= 83.
Proof.
  intro Ht. unfold quad_speed, norm2.
  replace (quad_dx gentle_quad t * quad_dx gentle_quad t + quad_dy gentle_quad t * quad_dy gentle_quad t)
    with (6400 + 400 * ((1 - 2 * t) * (1 - 2 * t)))
    by (unfold quad_dx, quad_dy, gentle_quad; rcbv; ring).
  assert (Hp : 0 <= t * (1 - t)) by (apply Rmult_le_pos; lra).
  assert (Hq := Rle_0_sqr (1 - 2 * t)). unfold Rsqr in Hq.
  assert (H0 : 0 <= (1 - 2 * t) * (1 - 2 * t) <= 1) by (split; lra).
  split.
  - rewrite <- (sqrt_square 80) at 1 by lra. apply sqrt_le_1_alt. lra.
  - rewrite <- (sqrt_square 83) by lra. apply sqrt_le_1_alt. lra.
Qed.
Example gentle_quad_accuracy :
  Rabs (Quad_length ROps gentle_quad - quad_arclen gentle_quad 0 1) <= / 10 ^ 6 * quad_arclen gentle_quad 0 1.
Proof. apply (quad_length_accuracy gentle_quad 80 83); [lra | exact gentle_quad_speed | lra]. Qed.

Print Assumptions sqrt_series_error.
Print Assumptions sqrt_quartic_gl.
Print Assumptions cubic_length_accuracy_gen.
Print Assumptions cubic_length_accuracy.
Print Assumptions cubic_length_accuracy_95.
Print Assumptions cubic_length_accuracy_2.
Print Assumptions quad_length_accuracy_gen.
Print Assumptions quad_length_accuracy.
Print Assumptions quad_length_accuracy_2.
Print Assumptions cubic_length_accuracy_1e4.
Print Assumptions gentle_arc_accuracy.
Print Assumptions gentle_quad_accuracy.
